(* Prop_C12 — conjugate gradient produces the optimal iterate over x0 + span{p_0..p_{k-1}} at
   EVERY step.  Only statements; every proof is `exact <lemma>`.

   Setting.  [H : IPSpace] is an arbitrary real inner-product space (proofs/IPSpace.v; a record
   with laws, not axioms; C^n with Re<.,.> is one, and a Hermitian matrix is self-adjoint in it).
   [ops_of H] instantiates the SAME Gallina state machine (model/Alg.v: cg_init, cg__update,
   Alg.update, Alg.done) that run/RunC12.v executes on binary64 against the implementation.
   [cg_seq E A b P x0 max_iter tol k] is the state after k calls of update() on the object
   ConjugateGradient(A, b, x0, P, max_iter, tol).

     selfadjoint H A :=  forall x y, <A x, y> = <x, A y>          (linearity is DERIVED from this)
     posdef H A      :=  forall x, x <> 0 -> 0 < <x, A x>
     possemidef H A  :=  forall x, 0 <= <x, A x>
     P_ok H P        :=  match P with None => True | Some Pf => selfadjoint H Pf /\ posdef H Pf end

   "Healthy" states: not_positive_definite is still false.  For k <= max_iter - 1 every update so
   far was a full update; the update number max_iter writes x and resid only.  All theorems
   quantify over ALL k, all max_iter, all tol, all x0, b. *)
From Coq Require Import Reals ZArith List Bool.
From SV Require Import model.Alg proofs.IPSpace proofs.CGBasic proofs.CG proofs.CGKrylov.
Local Open Scope R_scope.

(* [core] residual invariant: while k < max_iter the tracked residual is the true residual *)
Theorem C12_cg_resid_inv :
  forall (H : IPSpace) (A : ipV H -> ipV H) (b : ipV H) (P : option (ipV H -> ipV H)) (x0 : ipV H)
         (max_iter : Z) (tol : R),
    selfadjoint H A -> P_ok H P ->
    forall k : nat,
      (Z.of_nat k <= Z.max 0 (max_iter - 1))%Z /\
      cg_npd (cg_seq (ops_of H) A b P x0 max_iter tol k) = false ->
      cg_r (cg_seq (ops_of H) A b P x0 max_iter tol k)
      = ipsub H b (A (cg_x (cg_seq (ops_of H) A b P x0 max_iter tol k))).
Proof. exact cg_resid_inv. Qed.
Print Assumptions C12_cg_resid_inv.

(* ... and EXACTLY what is stale after the final update (k = max_iter - 1 -> max_iter, or any later
   one): r, p, rzold keep their previous values; x advances; resid = sqrt(rzold) of the previous
   state.  Hence r is b - A x_{max_iter-1}; the true residual of the returned x is r - alpha A p. *)
Theorem C12_cg_final_update_stale :
  forall (H : IPSpace) (A : ipV H -> ipV H) (b : ipV H) (P : option (ipV H -> ipV H)) (x0 : ipV H)
         (max_iter : Z) (tol : R) (k : nat),
      let s := cg_seq (ops_of H) A b P x0 max_iter tol k in
      let s' := cg_seq (ops_of H) A b P x0 max_iter tol (S k) in
      let alpha := cg_rzold s / ipdot H (cg_p s) (A (cg_p s)) in
      (max_iter - 1 <= Z.of_nat k)%Z -> cg_npd s' = false ->
      cg_r s' = cg_r s /\ cg_p s' = cg_p s /\ cg_rzold s' = cg_rzold s /\
      cg_x s' = ipadd H (cg_x s) (ipscale H alpha (cg_p s)) /\
      cg_resid s' = sqrt (cg_rzold s).
Proof. exact cg_final_stale. Qed.
Print Assumptions C12_cg_final_update_stale.

Theorem C12_cg_final_resid_is_previous :
  forall (H : IPSpace) (A : ipV H -> ipV H) (b : ipV H) (P : option (ipV H -> ipV H)) (x0 : ipV H)
         (max_iter : Z) (tol : R),
    selfadjoint H A -> P_ok H P ->
    forall k : nat,
      let s := cg_seq (ops_of H) A b P x0 max_iter tol k in
      let s' := cg_seq (ops_of H) A b P x0 max_iter tol (S k) in
      ((Z.of_nat k <= Z.max 0 (max_iter - 1))%Z /\ cg_npd s = false) ->
      (max_iter - 1 <= Z.of_nat k)%Z -> cg_npd s' = false ->
      cg_r s' = ipsub H b (A (cg_x s)) /\
      ipsub H b (A (cg_x s'))
      = ipadd H (cg_r s) (ipscale H (- (cg_rzold s / ipdot H (cg_p s) (A (cg_p s)))) (A (cg_p s))).
Proof. exact cg_final_resid_is_previous. Qed.
Print Assumptions C12_cg_final_resid_is_previous.

(* [core] conjugacy of the directions, P-orthogonality of the residuals, r_j orthogonal to p_i, all i < j *)
Theorem C12_cg_conjugacy :
  forall (H : IPSpace) (A : ipV H -> ipV H) (b : ipV H) (P : option (ipV H -> ipV H)) (x0 : ipV H)
         (max_iter : Z) (tol : R),
    selfadjoint H A -> P_ok H P ->
    forall i j : nat, (i < j)%nat ->
      let s := cg_seq (ops_of H) A b P x0 max_iter tol in
      ((Z.of_nat j <= Z.max 0 (max_iter - 1))%Z /\ cg_npd (s j) = false) ->
      ipdot H (cg_p (s j)) (A (cg_p (s i))) = 0 /\
      ipdot H (cg_r (s j)) (cg_applyP (ops_of H) P (cg_r (s i))) = 0 /\
      ipdot H (cg_r (s j)) (cg_p (s i)) = 0.
Proof. exact cg_conj. Qed.
Print Assumptions C12_cg_conjugacy.

(* [core] optimality: x_k minimises phi(x) = 1/2 <x, A x> - <b, x> over x0 + span{p_0 .. p_{k-1}}
   (lincomb H p c k = sum_{i<k} c_i p_i), for every k up to AND INCLUDING max_iter *)
Theorem C12_cg_optimal :
  forall (H : IPSpace) (A : ipV H -> ipV H) (b : ipV H) (P : option (ipV H -> ipV H)) (x0 : ipV H)
         (max_iter : Z) (tol : R),
    selfadjoint H A -> P_ok H P ->
    forall k : nat,
      let s := cg_seq (ops_of H) A b P x0 max_iter tol in
      possemidef H A -> (Z.of_nat k <= Z.max 0 max_iter)%Z -> cg_npd (s k) = false ->
      forall c : nat -> R,
        phi H A b (cg_x (s k)) <= phi H A b (ipadd H x0 (lincomb H (fun i => cg_p (s i)) c k)).
Proof. exact cg_optimal. Qed.
Print Assumptions C12_cg_optimal.

(* [core] Krylov optimality: the span of the directions contains the preconditioned Krylov vectors, so x_k minimises
   phi over  x0 + K_k(PA, P r_0) = { x0 + sum_{j<k} d_j (PA)^j P r_0 }  (kry j = (PA)^j P r_0 with r_0 = the initial
   residual b - A x0;  kcomb d k = sum_{j<k} d_j kry j), for every k up to and including max_iter.
   Since phi(x) = 1/2 ||x - xs||_A^2 - 1/2 <xs, A xs> when A xs = b, this is minimality of the A-norm of the error. *)
Theorem C12_cg_krylov_optimal :
  forall (H : IPSpace) (A : ipV H -> ipV H) (b : ipV H) (P : option (ipV H -> ipV H)) (x0 : ipV H)
         (max_iter : Z) (tol : R),
    selfadjoint H A -> P_ok H P ->
    forall k : nat,
      let s := cg_seq (ops_of H) A b P x0 max_iter tol in
      possemidef H A -> (Z.of_nat k <= Z.max 0 max_iter)%Z -> cg_npd (s k) = false ->
      forall d : nat -> R,
        phi H A b (cg_x (s k))
        <= phi H A b (ipadd H x0 (kcomb H A (cg_applyP (ops_of H) P) (fun i => cg_r (s i)) d k)).
Proof. exact cg_krylov_optimal. Qed.
Print Assumptions C12_cg_krylov_optimal.

(* the link between phi and the A-norm of the error *)
Theorem C12_phi_is_anorm_error :
  forall (H : IPSpace) (A : ipV H -> ipV H) (b : ipV H), selfadjoint H A ->
  forall xs x : ipV H, A xs = b -> errA2 H A xs x = 2 * phi H A b x + ipdot H xs (A xs).
Proof. exact errA2_phi. Qed.
Print Assumptions C12_phi_is_anorm_error.

(* corollary: the squared A-norm of the error <x - xs, A (x - xs)> never increases *)
Theorem C12_cg_anorm_error_monotone :
  forall (H : IPSpace) (A : ipV H -> ipV H) (b : ipV H) (P : option (ipV H -> ipV H)) (x0 : ipV H)
         (max_iter : Z) (tol : R),
    selfadjoint H A -> P_ok H P ->
    forall (xs : ipV H) (k : nat),
      let s := cg_seq (ops_of H) A b P x0 max_iter tol in
      possemidef H A -> A xs = b -> (Z.of_nat (S k) <= Z.max 0 max_iter)%Z -> cg_npd (s (S k)) = false ->
      errA2 H A xs (cg_x (s (S k))) <= errA2 H A xs (cg_x (s k)).
Proof. exact cg_anorm_monotone. Qed.
Print Assumptions C12_cg_anorm_error_monotone.

(* [core] breakdown guard: p^H A p <= 0  ==>  the update changes nothing but the flag and the
   counter, and done() is true afterwards -- for ANY operations record (binary64 included) *)
Theorem C12_cg_breakdown :
  forall (E : IPOps) (A : Vec E -> Vec E) (P : option (Vec E -> Vec E)) (st : cg_state E),
    sleb (vdot (cg_p st) (A (cg_p st))) s0 = true ->
    let st' := cg_update E A P st in
    cg_x st' = cg_x st /\ cg_r st' = cg_r st /\ cg_p st' = cg_p st /\ cg_rzold st' = cg_rzold st /\
    cg_resid st' = cg_resid st /\ cg_max_iter st' = cg_max_iter st /\ cg_tol st' = cg_tol st /\
    cg_iter st' = (cg_iter st + 1)%Z /\ cg_npd st' = true /\ cg_done E A P st' = true.
Proof. exact cg_breakdown_unchanged. Qed.
Print Assumptions C12_cg_breakdown.

(* ... and it stays that way under any number of further updates *)
Theorem C12_cg_breakdown_sticky :
  forall (E : IPOps) (A : Vec E -> Vec E) (P : option (Vec E -> Vec E)) (st : cg_state E) (k : nat),
    sleb (vdot (cg_p st) (A (cg_p st))) s0 = true ->
    let st' := Nat.iter (S k) (cg_update E A P) st in
    cg_x st' = cg_x st /\ cg_p st' = cg_p st /\ cg_npd st' = true /\ cg_done E A P st' = true.
Proof. exact cg_breakdown_sticky. Qed.
Print Assumptions C12_cg_breakdown_sticky.

(* for positive-definite A the guard can only fire at the solution (so "stops instead of diverging"
   never discards progress on a valid system) *)
Theorem C12_cg_breakdown_only_when_solved :
  forall (H : IPSpace) (A : ipV H -> ipV H) (b : ipV H) (P : option (ipV H -> ipV H)) (x0 : ipV H)
         (max_iter : Z) (tol : R),
    selfadjoint H A -> P_ok H P ->
    forall k : nat,
      let s := cg_seq (ops_of H) A b P x0 max_iter tol k in
      posdef H A ->
      ((Z.of_nat k <= Z.max 0 (max_iter - 1))%Z /\ cg_npd s = false) ->
      ipdot H (cg_p s) (A (cg_p s)) <= 0 ->
      cg_r s = ip0 H /\ A (cg_x s) = b.
Proof. exact cg_breakdown_only_when_solved. Qed.
Print Assumptions C12_cg_breakdown_only_when_solved.

(* [stretch, NOT proved]  cg_finite : dim V <= n -> r_n = 0  (validated numerically only, props/C12.py).
   (Of span{p_0..p_{k-1}} = K_k only the inclusion  K_k <= span  is proved -- the one optimality needs.) *)

(* non-vacuity: the hypotheses are satisfiable (R^2, a symmetric positive-definite 2x2 matrix,
   with and without a preconditioner) *)
Example C12_hypotheses_satisfiable :
  selfadjoint R2Space A2 /\ posdef R2Space A2 /\ P_ok R2Space None /\ P_ok R2Space (Some A2).
Proof. exact (conj A2_selfadjoint (conj A2_posdef (conj I (conj A2_selfadjoint A2_posdef)))). Qed.
Print Assumptions C12_hypotheses_satisfiable.

(* ===================================================================================================
   ADDED (proofs/CGFinite.v, proofs/RnSpace.v): finite termination -- supersedes the "[stretch, NOT proved]"
   remark above -- and the second inclusion span{p_i} <= K_k.

   "dimension <= n" on the abstract space is the linear-algebra definition: any n+1 vectors are linearly
   dependent (lincomb H f c m = sum_{i<m} c_i f_i). *)
From SV Require Import proofs.Driver proofs.CGFinite proofs.RnSpace.

Theorem C12_dim_le_def :
  forall (H : IPSpace) (n : nat),
    dim_le H n <->
    (forall f : nat -> ipV H, exists c : nat -> R,
       (exists i, (i <= n)%nat /\ c i <> 0) /\ lincomb H f c (S n) = ip0 H).
Proof. exact dim_le_unfold. Qed.
Print Assumptions C12_dim_le_def.

(* the finite-dimension hypothesis in the form CG uses: n+1 pairwise A-orthogonal vectors contain one with
   <v, A v> = 0 (for positive definite A: the zero vector) *)
Theorem C12_conj_family_has_null :
  forall (H : IPSpace) (A : ipV H -> ipV H), selfadjoint H A ->
  forall n : nat, dim_le H n ->
  forall f : nat -> ipV H,
    (forall i j, (i < j)%nat -> (j <= n)%nat -> ipdot H (f j) (A (f i)) = 0) ->
    exists i, (i <= n)%nat /\ ipdot H (f i) (A (f i)) = 0.
Proof. exact conj_family_has_null. Qed.
Print Assumptions C12_conj_family_has_null.

(* [core] finite termination: in dimension <= n, n updates without breakdown (n <= max_iter, so the x-only final
   update number max_iter is covered) leave x with A x = b.  A self-adjoint is enough; any tol. *)
Theorem C12_cg_finite_solved :
  forall (H : IPSpace) (A : ipV H -> ipV H) (b : ipV H) (P : option (ipV H -> ipV H)) (x0 : ipV H)
         (max_iter : Z) (tol : R),
    selfadjoint H A -> P_ok H P ->
    forall n : nat, dim_le H n ->
      (Z.of_nat n <= Z.max 0 max_iter)%Z ->
      cg_npd (cg_seq (ops_of H) A b P x0 max_iter tol n) = false ->
      A (cg_x (cg_seq (ops_of H) A b P x0 max_iter tol n)) = b.
Proof. exact cg_finite_solved. Qed.
Print Assumptions C12_cg_finite_solved.

(* ... while r is still tracked (n <= max_iter - 1) the tracked residual is exactly 0 ... *)
Theorem C12_cg_finite_resid :
  forall (H : IPSpace) (A : ipV H -> ipV H) (b : ipV H) (P : option (ipV H -> ipV H)) (x0 : ipV H)
         (max_iter : Z) (tol : R),
    selfadjoint H A -> P_ok H P ->
    forall n : nat, dim_le H n ->
      let s := cg_seq (ops_of H) A b P x0 max_iter tol n in
      ((Z.of_nat n <= Z.max 0 (max_iter - 1))%Z /\ cg_npd s = false) ->
      cg_r s = ip0 H /\ A (cg_x s) = b.
Proof. exact cg_finite_resid. Qed.
Print Assumptions C12_cg_finite_resid.

(* ... and an (n+1)-th update within the budget necessarily raises not_positive_definite *)
Theorem C12_cg_finite_then_breakdown :
  forall (H : IPSpace) (A : ipV H -> ipV H) (b : ipV H) (P : option (ipV H -> ipV H)) (x0 : ipV H)
         (max_iter : Z) (tol : R),
    selfadjoint H A -> P_ok H P ->
    forall n : nat, dim_le H n ->
      (Z.of_nat (S n) <= Z.max 0 max_iter)%Z ->
      cg_npd (cg_seq (ops_of H) A b P x0 max_iter tol (S n)) = true.
Proof. exact cg_finite_then_breakdown. Qed.
Print Assumptions C12_cg_finite_then_breakdown.

(* [core] "the exact solution is reached within n updates in n dimensions", end to end: the object
   ConjugateGradient(A, b, x0, P, max_iter, tol = 0) with A self-adjoint positive definite, max_iter >= n >= dim,
   driven by `while not alg.done(): alg.update()`, performs at most n updates and exits with A x = b
   (whichever of the three stop reasons fires: budget, resid <= 0, or the breakdown guard). *)
Theorem C12_cg_run_solves :
  forall (H : IPSpace) (A : ipV H -> ipV H) (b : ipV H) (P : option (ipV H -> ipV H)) (x0 : ipV H)
         (max_iter : Z),
    selfadjoint H A -> posdef H A -> P_ok H P ->
    forall n : nat, dim_le H n -> (Z.of_nat n <= max_iter)%Z ->
      (run_updates (CGClass (ops_of H) A P) (cg_init (ops_of H) A b P x0 max_iter 0%R) <= n)%nat /\
      A (cg_x (cg_run (ops_of H) A P (cg_init (ops_of H) A b P x0 max_iter 0))) = b.
Proof. exact cg_run_solves. Qed.
Print Assumptions C12_cg_run_solves.

(* span{p_0..p_{k-1}} = K_k(PA, P r_0), both inclusions, for k <= K+1 while state K is healthy *)
Theorem C12_cg_span_eq_krylov :
  forall (H : IPSpace) (A : ipV H -> ipV H) (b : ipV H) (P : option (ipV H -> ipV H)) (x0 : ipV H)
         (max_iter : Z) (tol : R),
    selfadjoint H A -> P_ok H P ->
    forall K k : nat,
      let s := cg_seq (ops_of H) A b P x0 max_iter tol in
      ((Z.of_nat K <= Z.max 0 (max_iter - 1))%Z /\ cg_npd (s K) = false) -> (k <= S K)%nat ->
      (forall c, exists d, lincomb H (fun i => cg_p (s i)) c k
                           = kcomb H A (cg_applyP (ops_of H) P) (fun i => cg_r (s i)) d k) /\
      (forall d, exists c, kcomb H A (cg_applyP (ops_of H) P) (fun i => cg_r (s i)) d k
                           = lincomb H (fun i => cg_p (s i)) c k).
Proof. exact cg_span_eq_krylov. Qed.
Print Assumptions C12_cg_span_eq_krylov.

(* non-vacuity of dim_le: R, R^2 (proofs/IPSpace.v) and the coordinate space R^n = R * (R * (... * unit)) for every n;
   with A = identity all hypotheses of C12_cg_run_solves hold in every dimension *)
Theorem C12_R1_dim_le : dim_le R1Space 1.
Proof. exact R1_dim_le. Qed.
Theorem C12_R2_dim_le : dim_le R2Space 2.
Proof. exact R2_dim_le. Qed.
Theorem C12_Rn_dim_le : forall n : nat, dim_le (RnSpace n) n.
Proof. exact Rn_dim_le. Qed.
Example C12_finite_hypotheses_satisfiable :
  forall n : nat,
    dim_le (RnSpace n) n /\ selfadjoint (RnSpace n) (fun x => x) /\ posdef (RnSpace n) (fun x => x) /\
    P_ok (RnSpace n) None.
Proof. exact finite_hypotheses_satisfiable. Qed.
Print Assumptions C12_R1_dim_le.
Print Assumptions C12_R2_dim_le.
Print Assumptions C12_Rn_dim_le.
Print Assumptions C12_finite_hypotheses_satisfiable.
