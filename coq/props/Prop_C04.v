(* Prop_C04 — statements only; see proofs/Linop*.v *)
From Coq Require Import ZArith List Bool.
From SV Require Import lib.Scalar lib.BigSum model.Linop.
Import ListNotations.
