(* Prop_C04 — the normal operator A.N is A^H A. *)
From Coq Require Import ZArith List Bool.
From SV Require Import lib.Scalar lib.BigSum lib.NdArray model.Linop proofs.LinopTheory proofs.LinopAlgebra proofs.LinopLeavesA proofs.LinopNormal.
(* gen.Gen_linop_table: the _adjoint_linop / _normal_linop table GENERATED from linop.py, with lemmas gen_*_ok stating
   that it equals the hand model's adj / normal; importing it makes those lemmas part of this property's proof cone *)
From SV Require gen.Gen_linop_table.
Import ListNotations.
Local Open Scope Z_scope.

(* every class whose _normal_linop is the default (this includes block operators outside their
   tiling / non-overlap regime, and every combinator): A.N = A.H * A exactly *)
Theorem C04_default_normal_is_AHA :
  forall (R : StarRing) arr scal orc A (x : list Z -> R),
    has_default_normal A = true -> D R arr scal orc (normal A) x = D R arr scal orc (adj A) (D R arr scal orc A x).
Proof. exact normal_default. Qed.
Print Assumptions C04_default_normal_is_AHA.

Theorem C04_identity_shortcut :
  forall (R : StarRing) arr scal orc s (x : list Z -> R),
    D R arr scal orc (normal (Identity s)) x = D R arr scal orc (adj (Identity s)) (D R arr scal orc (Identity s) x).
Proof. exact normal_identity. Qed.
Print Assumptions C04_identity_shortcut.

Theorem C04_reshape_shortcut :
  forall (R : StarRing) arr scal orc o i (x : list Z -> R) idx,
    Forall (fun n => 0 < n) o -> Forall (fun n => 0 < n) i -> prodZ o = prodZ i -> inbox i idx ->
    D R arr scal orc (adj (Reshape o i)) (D R arr scal orc (Reshape o i) x) idx = D R arr scal orc (normal (Reshape o i)) x idx.
Proof. exact normal_reshape. Qed.
Print Assumptions C04_reshape_shortcut.

(* the remaining shortcuts return Identity exactly when the model's side condition holds, and are
   correct whenever the operator is an isometry on the box (unitarity: FFT by C05; permutations;
   tiling / non-overlapping blocks) *)
Theorem C04_shortcut_needs_isometry :
  forall (R : StarRing) arr scal orc A (x : list Z -> R) idx,
    (match A with Transpose _ _ | FFT _ _ _ | IFFT _ _ _ | Circshift _ _ _ => True
             | ArrayToBlocks i b s => blocks_tile i b s = true
             | BlocksToArray _ b s => blocks_no_overlap b s = true
             | _ => False end) ->
    D R arr scal orc (adj A) (D R arr scal orc A x) idx = x idx ->
    D R arr scal orc (normal A) x idx = D R arr scal orc (adj A) (D R arr scal orc A x) idx.
Proof. exact normal_shortcut. Qed.
Print Assumptions C04_shortcut_needs_isometry.

(* overlapping blocks do NOT get the identity shortcut (witness of the repaired defect: [6], [3], [1]) *)
Example C04_overlapping_blocks_use_AHA :
  has_default_normal (ArrayToBlocks [6] [3] [1]) = true /\ has_default_normal (ArrayToBlocks [6] [3] [3]) = false /\
  has_default_normal (BlocksToArray [6] [2] [3]) = false /\ has_default_normal (BlocksToArray [6] [3] [2]) = true.
Proof. vm_compute. auto. Qed.

(* ---- every shortcut justified: isometries of Transpose / Circshift / tiling and non-overlapping blocks (proofs/LinopNormal.v) ---- *)


(* every class of _normal_linop: A.N acts as A^H A on the input box (FFT/IFFT under unitarity of the oracle, C05) *)
Theorem C04_normal_is_AHA :
  forall (R : StarRing) arr scal orc A (x : list Z -> R) idx,
    wf A = true -> normal_proved A = true -> fft_unitary R orc -> inbox (ishape_of A) idx ->
    D R arr scal orc (normal A) x idx = D R arr scal orc (adj A) (D R arr scal orc A x) idx.
Proof. exact normal_correct. Qed.
Print Assumptions C04_normal_is_AHA.

Theorem C04_normal_is_AHA_no_oracle :
  forall (R : StarRing) arr scal orc A (x : list Z -> R) idx,
    wf A = true -> normal_proved A = true -> no_fft A = true -> inbox (ishape_of A) idx ->
    D R arr scal orc (normal A) x idx = D R arr scal orc (adj A) (D R arr scal orc A x) idx.
Proof. exact normal_correct_no_oracle. Qed.
Print Assumptions C04_normal_is_AHA_no_oracle.

Theorem C04_transpose_isometry :
  forall (R : StarRing) arr scal orc i axes (x : list Z -> R) idx,
    match axes with None => True | Some ax => is_perm (length i) (map (fun a => a mod lenZ i) ax) end ->
    inbox i idx ->
    D R arr scal orc (adj (Transpose i axes)) (D R arr scal orc (Transpose i axes) x) idx = x idx /\
    D R arr scal orc (normal (Transpose i axes)) x idx =
    D R arr scal orc (adj (Transpose i axes)) (D R arr scal orc (Transpose i axes) x) idx.
Proof. exact normal_transpose. Qed.
Print Assumptions C04_transpose_isometry.

Theorem C04_circshift_isometry :
  forall (R : StarRing) arr scal orc s sh ax (x : list Z -> R) idx,
    wf (Circshift s sh ax) = true -> inbox s idx ->
    D R arr scal orc (adj (Circshift s sh ax)) (D R arr scal orc (Circshift s sh ax) x) idx = x idx /\
    D R arr scal orc (normal (Circshift s sh ax)) x idx =
    D R arr scal orc (adj (Circshift s sh ax)) (D R arr scal orc (Circshift s sh ax) x) idx.
Proof. exact normal_circshift. Qed.
Print Assumptions C04_circshift_isometry.

Theorem C04_tiling_blocks_isometry :
  forall (R : StarRing) arr scal orc i b s (x : list Z -> R) idx,
    wf (ArrayToBlocks i b s) = true -> blocks_tile i b s = true -> block_dims_ok i b s = true ->
    inbox (ishape_of (ArrayToBlocks i b s)) idx ->
    D R arr scal orc (adj (ArrayToBlocks i b s)) (D R arr scal orc (ArrayToBlocks i b s) x) idx = x idx.
Proof. exact array_to_blocks_tile_iso. Qed.
Print Assumptions C04_tiling_blocks_isometry.

Theorem C04_nonoverlapping_blocks_isometry :
  forall (R : StarRing) arr scal orc o b s (y : list Z -> R) idx,
    wf (BlocksToArray o b s) = true -> blocks_no_overlap b s = true -> block_dims_ok o b s = true ->
    inbox (ishape_of (BlocksToArray o b s)) idx ->
    D R arr scal orc (adj (BlocksToArray o b s)) (D R arr scal orc (BlocksToArray o b s) y) idx = y idx.
Proof. exact blocks_to_array_no_overlap_iso. Qed.
Print Assumptions C04_nonoverlapping_blocks_isometry.

(* the side conditions are necessary: exact evaluation on Z with x = all ones *)
Example C04_overlap_gram_is_not_identity :
  let DZ := D ZRing (fun _ _ => 0) (fun _ => 0) (fun _ x => x) in
  let ones : list Z -> ZRing := fun _ => 1 in
  tabulate [6] (DZ (adj (ArrayToBlocks [6] [3] [1])) (DZ (ArrayToBlocks [6] [3] [1]) ones)) = [1; 2; 3; 3; 2; 1] /\
  tabulate [6] (DZ (normal (ArrayToBlocks [6] [3] [1])) ones) = [1; 2; 3; 3; 2; 1] /\
  tabulate [7] (DZ (adj (ArrayToBlocks [7] [3] [3])) (DZ (ArrayToBlocks [7] [3] [3]) ones)) = [1; 1; 1; 1; 1; 1; 0] /\
  tabulate [2; 3] (DZ (adj (BlocksToArray [6] [3] [2])) (DZ (BlocksToArray [6] [3] [2]) ones)) = [1; 1; 2; 2; 1; 1].
Proof. vm_compute. repeat split; reflexivity. Qed.

(* ================================================================================================================
   library-backed leaf classes (FFT / IFFT, convolution, wavelets, NUFFT): their normal operators through the function
   models (coq/proofs/Opaque*.v); the statements were prepared per family (notes/snippets) *)
From SV Require Import lib.Coord model.Fourier model.Conv model.Wavelet model.OpaqueFourier model.OpaqueConv model.OpaqueWavelet
  model.OpaqueNufft proofs.Fourier1D proofs.FourierND proofs.FourierModel proofs.FourierExample proofs.Wavelet
  proofs.LinopStack proofs.LinopAll
  proofs.OpaqueFourier proofs.OpaqueConv proofs.OpaqueWavelet proofs.OpaqueNufft.

(* [fourier family] *)
(* ---- C04: FFT.N = IFFT.N = Identity is A^H A on the box of the shape ---------------------------------------------
   for every axes argument the class accepts; the table holds the powers of roots of unity w_n with the C05 hypotheses
   (root_ok: 0 < n, w^n = 1, sum_k w^(k m) = 0 for 0 < m < n, conj w * w = 1) and isc n * isc n * n = 1, required ONLY
   for the axis lengths n that occur in the shape *)
Theorem C04_fourier_fft_normal :
  forall (R : StarRing) (arr : Z -> list Z -> R) (scal : Z -> R) (orc : linop -> (list Z -> R) -> list Z -> R)
         (tw : Z -> Z -> R) (isc inv w : Z -> R) s,
    (forall n, In n s -> forall m, tw n m = opow (w n) (Z.to_nat m)) ->
    (forall n, In n s -> root_ok R n (w n)) ->
    (forall n, In n s -> mul (mul (isc n) (isc n)) (nR n) = one) ->
    forall ax c,
    wf (FFT s ax c) = true -> fourier_axes_ok s ax c = true ->
    (forall x, orc (FFT s ax c) x = orc_fourier tw isc inv (FFT s ax c) x) ->
    (forall x, orc (IFFT s ax c) x = orc_fourier tw isc inv (IFFT s ax c) x) ->
    forall x o, inbox (ishape_of (FFT s ax c)) o ->
      D R arr scal orc (normal (FFT s ax c)) x o = D R arr scal orc (adj (FFT s ax c)) (D R arr scal orc (FFT s ax c) x) o.
Proof. exact proofs.OpaqueFourier.normal_fft. Qed.
Print Assumptions C04_fourier_fft_normal.

(* [fourier family] *)
Theorem C04_fourier_ifft_normal :
  forall (R : StarRing) (arr : Z -> list Z -> R) (scal : Z -> R) (orc : linop -> (list Z -> R) -> list Z -> R)
         (tw : Z -> Z -> R) (isc inv w : Z -> R) s,
    (forall n, In n s -> forall m, tw n m = opow (w n) (Z.to_nat m)) ->
    (forall n, In n s -> root_ok R n (w n)) ->
    (forall n, In n s -> mul (mul (isc n) (isc n)) (nR n) = one) ->
    forall ax c,
    wf (IFFT s ax c) = true -> fourier_axes_ok s ax c = true ->
    (forall x, orc (IFFT s ax c) x = orc_fourier tw isc inv (IFFT s ax c) x) ->
    (forall x, orc (FFT s ax c) x = orc_fourier tw isc inv (FFT s ax c) x) ->
    forall x o, inbox (ishape_of (IFFT s ax c)) o ->
      D R arr scal orc (normal (IFFT s ax c)) x o = D R arr scal orc (adj (IFFT s ax c)) (D R arr scal orc (IFFT s ax c) x) o.
Proof. exact proofs.OpaqueFourier.normal_ifft. Qed.
Print Assumptions C04_fourier_ifft_normal.

(* [fourier family] *)
(* node form with the C05-style hypotheses (every n > 0) *)
Theorem C04_fourier_nodes_normal :
  forall (R : StarRing) (arr : Z -> list Z -> R) (scal : Z -> R) (orc : linop -> (list Z -> R) -> list Z -> R)
         (tw : Z -> Z -> R) (isc inv w : Z -> R),
    (forall L, fourier_leaf L = true -> forall x, orc L x = orc_fourier tw isc inv L x) ->
    (forall n m, 0 < n -> tw n m = opow (w n) (Z.to_nat m)) ->
    (forall n, 0 < n -> root_ok R n (w n)) ->
    (forall n, 0 < n -> mul (mul (isc n) (isc n)) (nR n) = one) ->
    forall L, proven_node_fourier L = true -> wf L = true ->
    forall x o, inbox (ishape_of L) o ->
      D R arr scal orc (normal L) x o = D R arr scal orc (adj L) (D R arr scal orc L x) o.
Proof. exact proofs.OpaqueFourier.nodes_fourier_normal. Qed.
Print Assumptions C04_fourier_nodes_normal.

(* [fourier family] *)
(* the function-level statement: ifft (fft x) = x and fft (ifft x) = x on the box *)
Theorem C04_fourier_call_inverse :
  forall (R : StarRing) (tw : Z -> Z -> R) (isc inv w : Z -> R) s,
    Forall (fun n => 0 < n) s ->
    (forall n, In n s -> forall m, tw n m = opow (w n) (Z.to_nat m)) ->
    (forall n, In n s -> root_ok R n (w n)) ->
    (forall n, In n s -> mul (mul (isc n) (isc n)) (nR n) = one) ->
    forall inverse axes center (x : list Z -> R),
      fourier_axes_ok s axes center = true ->
      eqbox s (snd (fft_model tw isc inv (negb inverse) center true s None axes
                      (snd (fft_model tw isc inv inverse center true s None axes x)))) x.
Proof. exact proofs.OpaqueFourier.fourier_call_inverse. Qed.
Print Assumptions C04_fourier_call_inverse.

(* [fourier family] *)
Example C04_fourier_normal_example : forall (arr : Z -> list Z -> QIRing) (scal : Z -> QIRing),
  let orc := orc_fourier of_ex_tw of_ex_isc of_ex_inv in
  (forall x o, inbox [4; 1; 4] o ->
     D QIRing arr scal orc (normal of_ex_fft) x o = D QIRing arr scal orc (adj of_ex_fft) (D QIRing arr scal orc of_ex_fft x) o) /\
  (forall x o, inbox [4; 4] o ->
     D QIRing arr scal orc (normal of_ex_ifft) x o = D QIRing arr scal orc (adj of_ex_ifft) (D QIRing arr scal orc of_ex_ifft x) o).
Proof. exact proofs.OpaqueFourier.ex_fourier_normal. Qed.


(* [conv family] *)
(* C04 side: .N of the four classes is the default composition, D (normal L) = D (adj L) o D L for any oracle *)
Theorem C04_conv_normal_is_adjoint_after_forward :
  forall (R : StarRing) (arr : Z -> list Z -> R) (scal : Z -> R) (orc : linop -> (list Z -> R) -> list Z -> R) L x,
    proven_node_conv L = true ->
    D R arr scal orc (normal L) x = D R arr scal orc (adj L) (D R arr scal orc L x).
Proof. exact normal_conv. Qed.
Print Assumptions C04_conv_normal_is_adjoint_after_forward.

(* [wavelet family] *)
(* C04: neither class overrides _normal_linop, so A.N is the composition A.H * A for both ... *)
Theorem C04_wavelet_normal_is_default :
  forall s ax w l ws,
    normal (Wavelet s ax w l ws) = Compose [InverseWavelet s ax w l ws; Wavelet s ax w l ws] /\
    normal (InverseWavelet s ax w l ws) = Compose [Wavelet s ax w l ws; InverseWavelet s ax w l ws].
Proof. exact normal_wavelet_is_default. Qed.
Print Assumptions C04_wavelet_normal_is_default.

(* [wavelet family] *)
Theorem C04_wavelet_family_normal :
  forall (R : StarRing) (arr : Z -> list Z -> R) (scal : Z -> R) (orc : linop -> (list Z -> R) -> list Z -> R) L x,
    is_wavelet_leaf L = true -> D R arr scal orc (normal L) x = D R arr scal orc (adj L) (D R arr scal orc L x).
Proof. exact normal_nodes_wavelet. Qed.
Print Assumptions C04_wavelet_family_normal.

(* [wavelet family] *)
(* ... and Wavelet.N acts as the Identity on the input box (hypothesis: C10's perfect reconstruction of the pair) *)
Theorem C04_wavelet_normal_acts_as_identity :
  forall (R : StarRing) (arr : Z -> list Z -> R) (scal : Z -> R) (orc : linop -> (list Z -> R) -> list Z -> R)
         (cs : option (list Z) -> Z -> option Z -> list Z -> list Z)
         (WW WWr : option (list Z) -> Z -> option Z -> list Z -> (list Z -> R) -> list Z -> R)
         (i : list Z) (ax : option (list Z)) (w : Z) (l : option Z) (ws : list Z),
    (forall x, orc (Wavelet i ax w l ws) x = orc_wavelet cs WW WWr (Wavelet i ax w l ws) x) ->
    (forall x, orc (InverseWavelet i ax w l ws) x = orc_wavelet cs WW WWr (InverseWavelet i ax w l ws) x) ->
    forall (x : list Z -> R) (o : list Z),
    wf (Wavelet i ax w l ws) = true ->
    (forall z : list Z -> R, eqbox (zshape i) (WWr ax w l (zshape i) (WW ax w l (zshape i) z)) z) ->
    inbox (ishape_of (Wavelet i ax w l ws)) o ->
    D R arr scal orc (normal (Wavelet i ax w l ws)) x o = x o /\
    D R arr scal orc (normal (Wavelet i ax w l ws)) x o = D R arr scal orc (Identity i) x o.
Proof. exact normal_wavelet_identity. Qed.
Print Assumptions C04_wavelet_normal_acts_as_identity.

(* [wavelet family] *)
(* InverseWavelet.N = W W^H is NOT the identity (the coefficient box is larger than the padded box); it is idempotent
   on the coefficient box *)
Theorem C04_inverse_wavelet_normal_is_projection :
  forall (R : StarRing) (arr : Z -> list Z -> R) (scal : Z -> R) (orc : linop -> (list Z -> R) -> list Z -> R)
         (cs : option (list Z) -> Z -> option Z -> list Z -> list Z)
         (WW WWr : option (list Z) -> Z -> option Z -> list Z -> (list Z -> R) -> list Z -> R)
         (o : list Z) (ax : option (list Z)) (w : Z) (l : option Z) (ws : list Z),
    ws = wavelet_shape (cs ax w l) o ->
    (forall x, orc (Wavelet o ax w l ws) x = orc_wavelet cs WW WWr (Wavelet o ax w l ws) x) ->
    (forall x, orc (InverseWavelet o ax w l ws) x = orc_wavelet cs WW WWr (InverseWavelet o ax w l ws) x) ->
    forall y : list Z -> R,
    wf (InverseWavelet o ax w l ws) = true ->
    (forall z : list Z -> R, eqbox (zshape o) (WWr ax w l (zshape o) (WW ax w l (zshape o) z)) z) ->
    (forall a b : list Z -> R, eqbox (zshape o) a b -> eqbox ws (WW ax w l (zshape o) a) (WW ax w l (zshape o) b)) ->
    eqbox ws (D R arr scal orc (normal (InverseWavelet o ax w l ws))
                (D R arr scal orc (normal (InverseWavelet o ax w l ws)) y))
             (D R arr scal orc (normal (InverseWavelet o ax w l ws)) y).
Proof. exact normal_inverse_wavelet_projection. Qed.
Print Assumptions C04_inverse_wavelet_normal_is_projection.

(* [nufft family] *)
(* _normal_linop (C04): the model's normal of both classes is the default composition A.H * A — what python returns for
   toeplitz = False.  For toeplitz = True python returns Resize.H * FFT.H * Multiply(psf) * FFT * Resize with
   psf = toeplitz_psf(coord, ...): an APPROXIMATION of A.H * A by design (gridding error of the PSF), no exact identity;
   it stays the numeric check of props/C06.py (`toeplitz`, 5e-2) / props/C04.py. *)
Theorem C04_nufft_normal_is_default : forall L, is_nufft L = true -> normal L = mkCompose [adj L; L].
Proof. exact normal_nufft_default. Qed.
Print Assumptions C04_nufft_normal_is_default.

(* ================================================================================================================
   C04 for every class, with the standard oracle of the library-backed leaves (model/OpaqueStd.v, proofs/OpaqueStd.v):
   the FFT-unitarity hypothesis of C04_normal_is_AHA is discharged from the root-of-unity facts about the twiddle
   table of the environment (the form Prop_C05 assumes) — FFT.N = IFFT.N = Identity acts as A^H A on the box; every
   other library-backed class has the default N = A.H * A (NUFFT with toeplitz=True: python returns an approximation
   by design — numeric check only); Wavelet.N additionally acts as the identity.
   ================================================================================================================ *)
From SV Require Import model.OpaqueStd proofs.OpaqueStd.

Theorem C04_normal_is_AHA_std :
  forall (R : StarRing) (C : COps) (E : std_env R C) (arr : Z -> list Z -> R) (scal w : Z -> R) (A : linop)
         (x : list Z -> R) idx,
    (e_tw E = twf R w /\ (forall n, 0 < n -> root_ok R n (w n)) /\
     (forall n, 0 < n -> mul (mul (e_isc E n) (e_isc E n)) (nR n) = one)) ->
    wf A = true ->
    normal_proved A && match A with FFT _ _ _ | IFFT _ _ _ => proven_node_fourier A | _ => true end = true ->
    inbox (ishape_of A) idx ->
    D R arr scal (orc_std E arr) (normal A) x idx = D R arr scal (orc_std E arr) (adj A) (D R arr scal (orc_std E arr) A x) idx.
Proof. exact normal_correct_std. Qed.
Print Assumptions C04_normal_is_AHA_std.

Theorem C04_wavelet_normal_is_AHA_and_identity_std :
  forall (R : StarRing) (C : COps) (E : std_env R C) (arr : Z -> list Z -> R) (scal : Z -> R) i ax wv l ws
         (x : list Z -> R) o,
    (forall s ax wv l, Forall (fun n => 0 < n) s ->
       pywt_axes_ok (lenZ s) ax = true -> pywt_level_ok l = true -> e_orth E wv = true ->
       forall z : list Z -> R, eqbox (zshape s) (e_WWr E ax wv l (zshape s) (e_WW E ax wv l (zshape s) z)) z) ->
    wavelet_leaf_ok (e_orth E) (e_cs E) (Wavelet i ax wv l ws) = true -> wf (Wavelet i ax wv l ws) = true ->
    inbox (ishape_of (Wavelet i ax wv l ws)) o ->
    D R arr scal (orc_std E arr) (normal (Wavelet i ax wv l ws)) x o =
      D R arr scal (orc_std E arr) (adj (Wavelet i ax wv l ws)) (D R arr scal (orc_std E arr) (Wavelet i ax wv l ws) x) o /\
    D R arr scal (orc_std E arr) (normal (Wavelet i ax wv l ws)) x o = x o.
Proof. exact normal_wavelet_identity_std. Qed.
Print Assumptions C04_wavelet_normal_is_AHA_and_identity_std.

Theorem C04_library_backed_default_normal :
  forall (R : StarRing) (C : COps) (E : std_env R C) (arr : Z -> list Z -> R) (scal : Z -> R) A (x : list Z -> R),
    library_backed A = true -> no_fft A = true ->
    D R arr scal (orc_std E arr) (normal A) x = D R arr scal (orc_std E arr) (adj A) (D R arr scal (orc_std E arr) A x).
Proof. exact normal_default_opaque. Qed.
Print Assumptions C04_library_backed_default_normal.

(* non-vacuity: the exact Q(i) environment of proofs/OpaqueStd.v, FFT with negative and repeated axes at length 4 *)
Example C04_std_normal_fft_example : forall (arr : Z -> list Z -> QIRing) (scal : Z -> QIRing),
  forall x o, inbox [4; 4] o ->
    D QIRing arr scal (orc_std ex_env arr) (normal (FFT [4; 4] (Some [-1; 0; 1]) true)) x o =
    D QIRing arr scal (orc_std ex_env arr) (adj (FFT [4; 4] (Some [-1; 0; 1]) true))
      (D QIRing arr scal (orc_std ex_env arr) (FFT [4; 4] (Some [-1; 0; 1]) true) x) o.
Proof. exact ex_normal_fft. Qed.
