(* Prop_C04 — the normal operator A.N is A^H A. *)
From Coq Require Import ZArith List Bool.
From SV Require Import lib.Scalar lib.BigSum lib.NdArray model.Linop proofs.LinopTheory proofs.LinopAlgebra proofs.LinopLeavesA proofs.LinopNormal.
(* gen.Gen_linop_table: the _adjoint_linop / _normal_linop table GENERATED from linop.py, with lemmas gen_*_ok stating
   that it equals the hand model's adj / normal; importing it makes those lemmas part of this property's proof cone *)
From SV Require gen.Gen_linop_table.
Import ListNotations.
Local Open Scope Z_scope.

(* every class whose _normal_linop is the default (this includes block operators outside their
   tiling / non-overlap regime, and every combinator): A.N = A.H * A exactly *)
Theorem C04_default_normal_is_AHA :
  forall (R : StarRing) arr scal orc A (x : list Z -> R),
    has_default_normal A = true -> D R arr scal orc (normal A) x = D R arr scal orc (adj A) (D R arr scal orc A x).
Proof. exact normal_default. Qed.
Print Assumptions C04_default_normal_is_AHA.

Theorem C04_identity_shortcut :
  forall (R : StarRing) arr scal orc s (x : list Z -> R),
    D R arr scal orc (normal (Identity s)) x = D R arr scal orc (adj (Identity s)) (D R arr scal orc (Identity s) x).
Proof. exact normal_identity. Qed.
Print Assumptions C04_identity_shortcut.

Theorem C04_reshape_shortcut :
  forall (R : StarRing) arr scal orc o i (x : list Z -> R) idx,
    Forall (fun n => 0 < n) o -> Forall (fun n => 0 < n) i -> prodZ o = prodZ i -> inbox i idx ->
    D R arr scal orc (adj (Reshape o i)) (D R arr scal orc (Reshape o i) x) idx = D R arr scal orc (normal (Reshape o i)) x idx.
Proof. exact normal_reshape. Qed.
Print Assumptions C04_reshape_shortcut.

(* the remaining shortcuts return Identity exactly when the model's side condition holds, and are
   correct whenever the operator is an isometry on the box (unitarity: FFT by C05; permutations;
   tiling / non-overlapping blocks) *)
Theorem C04_shortcut_needs_isometry :
  forall (R : StarRing) arr scal orc A (x : list Z -> R) idx,
    (match A with Transpose _ _ | FFT _ _ _ | IFFT _ _ _ | Circshift _ _ _ => True
             | ArrayToBlocks i b s => blocks_tile i b s = true
             | BlocksToArray _ b s => blocks_no_overlap b s = true
             | _ => False end) ->
    D R arr scal orc (adj A) (D R arr scal orc A x) idx = x idx ->
    D R arr scal orc (normal A) x idx = D R arr scal orc (adj A) (D R arr scal orc A x) idx.
Proof. exact normal_shortcut. Qed.
Print Assumptions C04_shortcut_needs_isometry.

(* overlapping blocks do NOT get the identity shortcut (witness of the repaired defect: [6], [3], [1]) *)
Example C04_overlapping_blocks_use_AHA :
  has_default_normal (ArrayToBlocks [6] [3] [1]) = true /\ has_default_normal (ArrayToBlocks [6] [3] [3]) = false /\
  has_default_normal (BlocksToArray [6] [2] [3]) = false /\ has_default_normal (BlocksToArray [6] [3] [2]) = true.
Proof. vm_compute. auto. Qed.

(* ---- every shortcut justified: isometries of Transpose / Circshift / tiling and non-overlapping blocks (proofs/LinopNormal.v) ---- *)


(* every class of _normal_linop: A.N acts as A^H A on the input box (FFT/IFFT under unitarity of the oracle, C05) *)
Theorem C04_normal_is_AHA :
  forall (R : StarRing) arr scal orc A (x : list Z -> R) idx,
    wf A = true -> normal_proved A = true -> fft_unitary R orc -> inbox (ishape_of A) idx ->
    D R arr scal orc (normal A) x idx = D R arr scal orc (adj A) (D R arr scal orc A x) idx.
Proof. exact normal_correct. Qed.
Print Assumptions C04_normal_is_AHA.

Theorem C04_normal_is_AHA_no_oracle :
  forall (R : StarRing) arr scal orc A (x : list Z -> R) idx,
    wf A = true -> normal_proved A = true -> no_fft A = true -> inbox (ishape_of A) idx ->
    D R arr scal orc (normal A) x idx = D R arr scal orc (adj A) (D R arr scal orc A x) idx.
Proof. exact normal_correct_no_oracle. Qed.
Print Assumptions C04_normal_is_AHA_no_oracle.

Theorem C04_transpose_isometry :
  forall (R : StarRing) arr scal orc i axes (x : list Z -> R) idx,
    match axes with None => True | Some ax => is_perm (length i) (map (fun a => a mod lenZ i) ax) end ->
    inbox i idx ->
    D R arr scal orc (adj (Transpose i axes)) (D R arr scal orc (Transpose i axes) x) idx = x idx /\
    D R arr scal orc (normal (Transpose i axes)) x idx =
    D R arr scal orc (adj (Transpose i axes)) (D R arr scal orc (Transpose i axes) x) idx.
Proof. exact normal_transpose. Qed.
Print Assumptions C04_transpose_isometry.

Theorem C04_circshift_isometry :
  forall (R : StarRing) arr scal orc s sh ax (x : list Z -> R) idx,
    wf (Circshift s sh ax) = true -> inbox s idx ->
    D R arr scal orc (adj (Circshift s sh ax)) (D R arr scal orc (Circshift s sh ax) x) idx = x idx /\
    D R arr scal orc (normal (Circshift s sh ax)) x idx =
    D R arr scal orc (adj (Circshift s sh ax)) (D R arr scal orc (Circshift s sh ax) x) idx.
Proof. exact normal_circshift. Qed.
Print Assumptions C04_circshift_isometry.

Theorem C04_tiling_blocks_isometry :
  forall (R : StarRing) arr scal orc i b s (x : list Z -> R) idx,
    wf (ArrayToBlocks i b s) = true -> blocks_tile i b s = true -> block_dims_ok i b s = true ->
    inbox (ishape_of (ArrayToBlocks i b s)) idx ->
    D R arr scal orc (adj (ArrayToBlocks i b s)) (D R arr scal orc (ArrayToBlocks i b s) x) idx = x idx.
Proof. exact array_to_blocks_tile_iso. Qed.
Print Assumptions C04_tiling_blocks_isometry.

Theorem C04_nonoverlapping_blocks_isometry :
  forall (R : StarRing) arr scal orc o b s (y : list Z -> R) idx,
    wf (BlocksToArray o b s) = true -> blocks_no_overlap b s = true -> block_dims_ok o b s = true ->
    inbox (ishape_of (BlocksToArray o b s)) idx ->
    D R arr scal orc (adj (BlocksToArray o b s)) (D R arr scal orc (BlocksToArray o b s) y) idx = y idx.
Proof. exact blocks_to_array_no_overlap_iso. Qed.
Print Assumptions C04_nonoverlapping_blocks_isometry.

(* the side conditions are necessary: exact evaluation on Z with x = all ones *)
Example C04_overlap_gram_is_not_identity :
  let DZ := D ZRing (fun _ _ => 0) (fun _ => 0) (fun _ x => x) in
  let ones : list Z -> ZRing := fun _ => 1 in
  tabulate [6] (DZ (adj (ArrayToBlocks [6] [3] [1])) (DZ (ArrayToBlocks [6] [3] [1]) ones)) = [1; 2; 3; 3; 2; 1] /\
  tabulate [6] (DZ (normal (ArrayToBlocks [6] [3] [1])) ones) = [1; 2; 3; 3; 2; 1] /\
  tabulate [7] (DZ (adj (ArrayToBlocks [7] [3] [3])) (DZ (ArrayToBlocks [7] [3] [3]) ones)) = [1; 1; 1; 1; 1; 1; 0] /\
  tabulate [2; 3] (DZ (adj (BlocksToArray [6] [3] [2])) (DZ (BlocksToArray [6] [3] [2]) ones)) = [1; 1; 2; 2; 1; 1].
Proof. vm_compute. repeat split; reflexivity. Qed.
