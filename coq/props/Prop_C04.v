(* Prop_C04 — the normal operator A.N is A^H A. *)
From Coq Require Import ZArith List Bool.
From SV Require Import lib.Scalar lib.BigSum lib.NdArray model.Linop proofs.LinopTheory proofs.LinopAlgebra.
(* gen.Gen_linop_table: the _adjoint_linop / _normal_linop table GENERATED from linop.py, with lemmas gen_*_ok stating
   that it equals the hand model's adj / normal; importing it makes those lemmas part of this property's proof cone *)
From SV Require gen.Gen_linop_table.
Import ListNotations.
Local Open Scope Z_scope.

(* every class whose _normal_linop is the default (this includes block operators outside their
   tiling / non-overlap regime, and every combinator): A.N = A.H * A exactly *)
Theorem C04_default_normal_is_AHA :
  forall (R : StarRing) arr scal orc A (x : list Z -> R),
    has_default_normal A = true -> D R arr scal orc (normal A) x = D R arr scal orc (adj A) (D R arr scal orc A x).
Proof. exact normal_default. Qed.
Print Assumptions C04_default_normal_is_AHA.

Theorem C04_identity_shortcut :
  forall (R : StarRing) arr scal orc s (x : list Z -> R),
    D R arr scal orc (normal (Identity s)) x = D R arr scal orc (adj (Identity s)) (D R arr scal orc (Identity s) x).
Proof. exact normal_identity. Qed.
Print Assumptions C04_identity_shortcut.

Theorem C04_reshape_shortcut :
  forall (R : StarRing) arr scal orc o i (x : list Z -> R) idx,
    Forall (fun n => 0 < n) o -> Forall (fun n => 0 < n) i -> prodZ o = prodZ i -> inbox i idx ->
    D R arr scal orc (adj (Reshape o i)) (D R arr scal orc (Reshape o i) x) idx = D R arr scal orc (normal (Reshape o i)) x idx.
Proof. exact normal_reshape. Qed.
Print Assumptions C04_reshape_shortcut.

(* the remaining shortcuts return Identity exactly when the model's side condition holds, and are
   correct whenever the operator is an isometry on the box (unitarity: FFT by C05; permutations;
   tiling / non-overlapping blocks) *)
Theorem C04_shortcut_needs_isometry :
  forall (R : StarRing) arr scal orc A (x : list Z -> R) idx,
    (match A with Transpose _ _ | FFT _ _ _ | IFFT _ _ _ | Circshift _ _ _ => True
             | ArrayToBlocks i b s => blocks_tile i b s = true
             | BlocksToArray _ b s => blocks_no_overlap b s = true
             | _ => False end) ->
    D R arr scal orc (adj A) (D R arr scal orc A x) idx = x idx ->
    D R arr scal orc (normal A) x idx = D R arr scal orc (adj A) (D R arr scal orc A x) idx.
Proof. exact normal_shortcut. Qed.
Print Assumptions C04_shortcut_needs_isometry.

(* overlapping blocks do NOT get the identity shortcut (witness of the repaired defect: [6], [3], [1]) *)
Example C04_overlapping_blocks_use_AHA :
  has_default_normal (ArrayToBlocks [6] [3] [1]) = true /\ has_default_normal (ArrayToBlocks [6] [3] [3]) = false /\
  has_default_normal (BlocksToArray [6] [2] [3]) = false /\ has_default_normal (BlocksToArray [6] [3] [2]) = true.
Proof. vm_compute. auto. Qed.
