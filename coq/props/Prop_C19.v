(* Prop_C19 — Bloch simulators are unitary and invert the SLR pulse design (statements only). *)
From Coq Require Import Reals ZArith List Bool.
From SV Require Import model.Bloch proofs.Bloch.
Import ListNotations.
Local Open Scope R_scope.

(* every coded step  at = av*a - conj(bv)*b, bt = bv*a + conj(av)*b  multiplies |a|^2+|b|^2 by |av|^2+|bv|^2 *)
Theorem C19_su2_step :
  forall (m : CR * CR) (s : StR), nrm (su2_step m s) = nrm m * nrm s.
Proof. exact su2_step_norm. Qed.
Print Assumptions C19_su2_step.
