(* Prop_C19 — Bloch simulators are unitary and invert the SLR pulse design.
   Only statements; every proof is `exact <lemma>` (proofs/Bloch.v, proofs/Slr.v).
   The simulators are the terms of model/Bloch.v (the same terms that run on floats in run/RunC19.v), here on R:
   complex numbers are pairs of reals (CR), a state is (a, b) (StR), nrm (a, b) = |a|^2 + |b|^2, n2 z = |z|^2,
   and the trig oracle is rcs t = (cos t, sin t). *)
From Coq Require Import Reals ZArith List Bool.
From SV Require Import model.Bloch proofs.Bloch proofs.Slr.
Import ListNotations.
Local Open Scope R_scope.

(* [core] every coded step  at = av*a - conj(bv)*b, bt = bv*a + conj(av)*b  multiplies |a|^2+|b|^2 by |av|^2+|bv|^2 *)
Theorem C19_su2_step :
  forall (m : CR * CR) (s : StR), nrm (su2_step m s) = nrm m * nrm s.
Proof. exact su2_step_norm. Qed.
Print Assumptions C19_su2_step.

(* ... hence over ANY list of factors the norm is multiplied by the product of the factors' norms *)
Theorem C19_su2_run :
  forall (l : list (CR * CR)) (s : StR), nrm (su2_run l s) = Rprod (map nrm l) * nrm s.
Proof. exact su2_run_norm. Qed.
Print Assumptions C19_su2_run.

(* abrm, exactly as coded (phi = sqrt(|rf|^2+om^2) + eps, axis divided by phi): for ANY waveform, position, eps,
   |a|^2+|b|^2 = prod_t (cos^2(phi_t/2) + rho_t^2 sin^2(phi_t/2)),  rho_t = (phi_t - eps)/phi_t,
   times the rewinder's factor when balanced *)
Theorem C19_abrm_norm_product :
  forall pi eps (rf : list CR) x balanced,
    nrm (abrm (F:=RF) rcs pi eps rf x balanced) =
    (if balanced then abrm_rewind_k pi eps x else 1) *
    Rprod (map (fun r => let phi := abrm_phi eps (x * (1 * 2 * pi / INR (length rf))) r in
                         let rho := (phi - eps) / phi in
                         cos (phi / 2) * cos (phi / 2) + rho * rho * (sin (phi / 2) * sin (phi / 2))) rf).
Proof. exact abrm_norm. Qed.
Print Assumptions C19_abrm_norm_product.

(* with the coded eps > 0 the main loop can only lose norm, by at most prod rho_t^2;  with eps = 0 it is exactly unitary *)
Theorem C19_abrm_norm_bounds :
  forall eps om (rf : list CR), 0 < eps ->
    Rprod (map (fun r => abrm_rho eps om r * abrm_rho eps om r) rf) <= nrm (abrm_loop (F:=RF) rcs eps om rf st0) <= 1.
Proof. exact abrm_loop_norm_bounds. Qed.
Print Assumptions C19_abrm_norm_bounds.

Theorem C19_abrm_unitary_without_eps :
  forall om (rf : list CR), (forall r, In r rf -> 0 < n2 r + om * om) -> nrm (abrm_loop (F:=RF) rcs 0 om rf st0) = 1.
Proof. exact abrm_loop_norm_eps0. Qed.
Print Assumptions C19_abrm_unitary_without_eps.

(* abrm_nd (phi = sqrt(|rf|^2+om^2), axis divided by phi + eps, om = x . g_t): rho_t = phi_t/(phi_t + eps) *)
Theorem C19_abrm_nd_norm_product :
  forall eps (rfg : list (CR * list R)) x,
    nrm (abrm_nd (F:=RF) rcs eps rfg x) =
    Rprod (map (fun rg => let phi := nd_phi x rg in let rho := phi / (phi + eps) in
                          cos (phi / 2) * cos (phi / 2) + rho * rho * (sin (phi / 2) * sin (phi / 2))) rfg).
Proof. exact abrm_nd_norm. Qed.
Print Assumptions C19_abrm_nd_norm_product.

Theorem C19_abrm_nd_norm_bounds :
  forall eps (rfg : list (CR * list R)) x, 0 < eps ->
    Rprod (map (fun rg => nd_rho eps x rg * nd_rho eps x rg) rfg) <= nrm (abrm_nd (F:=RF) rcs eps rfg x) <= 1.
Proof. exact abrm_nd_norm_bounds. Qed.
Print Assumptions C19_abrm_nd_norm_bounds.

(* abrm_hp, blochsim, abrm_ptx: exactly unitary for ANY waveform, gradient, position, off-resonance, sensitivities *)
Theorem C19_abrm_hp_unitary :
  forall (rfg : list (CR * R)) x dom0dt, nrm (abrm_hp (F:=RF) rcs rfg x dom0dt) = 1.
Proof. exact abrm_hp_norm. Qed.
Print Assumptions C19_abrm_hp_unitary.

Theorem C19_blochsim_unitary :
  forall (rfg : list (CR * list R)) x, nrm (blochsim (F:=RF) rcs rfg x) = 1.
Proof. exact blochsim_norm. Qed.
Print Assumptions C19_blochsim_unitary.

Theorem C19_abrm_ptx_unitary :
  forall dtgam boff (sens : list CR) x (b1g : list (list CR * list R)),
    nrm (abrm_ptx (F:=RF) rcs dtgam boff sens x b1g) = 1.
Proof. exact abrm_ptx_norm. Qed.
Print Assumptions C19_abrm_ptx_unitary.

(* [core] zero RF => b = 0 (and a is a pure phase for the exactly unitary simulators; for abrm, a carries the
   gradient phase, e.g. a = -1 at x = 1 — that is correct behaviour) *)
Theorem C19_abrm_zero_rf :
  forall pi eps (rf : list CR) x balanced,
    (forall r, In r rf -> r = c0) -> snd (abrm (F:=RF) rcs pi eps rf x balanced) = c0.
Proof. exact abrm_zero_rf. Qed.
Print Assumptions C19_abrm_zero_rf.

Theorem C19_abrm_nd_zero_rf :
  forall eps (rfg : list (CR * list R)) x,
    (forall rg, In rg rfg -> fst rg = c0) -> snd (abrm_nd (F:=RF) rcs eps rfg x) = c0.
Proof. exact abrm_nd_zero_rf. Qed.
Print Assumptions C19_abrm_nd_zero_rf.

Theorem C19_abrm_hp_zero_rf :
  forall (rfg : list (CR * R)) x d,
    (forall rg, In rg rfg -> fst rg = c0) ->
    snd (abrm_hp (F:=RF) rcs rfg x d) = c0 /\ n2 (fst (abrm_hp (F:=RF) rcs rfg x d)) = 1.
Proof. exact abrm_hp_zero_rf_full. Qed.
Print Assumptions C19_abrm_hp_zero_rf.

Theorem C19_blochsim_zero_rf :
  forall (rfg : list (CR * list R)) x,
    (forall rg, In rg rfg -> fst rg = c0) ->
    snd (blochsim (F:=RF) rcs rfg x) = c0 /\ n2 (fst (blochsim (F:=RF) rcs rfg x)) = 1.
Proof. exact blochsim_zero_rf_full. Qed.
Print Assumptions C19_blochsim_zero_rf.

(* [core] composition: the pair returned for factors l1 ++ l2 is the ordered product — the first column of
   M(l2) * M(l1) with M = [[a, -conj b], [b, conj a]], i.e. su2_step (result of l2) (result of l1) *)
Theorem C19_composition_ordered_product :
  forall (l1 l2 : list (CR * CR)), su2_run (l1 ++ l2) st0 = su2_step (su2_run l2 st0) (su2_run l1 st0).
Proof. exact su2_run_compose. Qed.
Print Assumptions C19_composition_ordered_product.

Theorem C19_abrm_nd_composition :
  forall eps (w1 w2 : list (CR * list R)) x,
    abrm_nd (F:=RF) rcs eps (w1 ++ w2) x = su2_step (abrm_nd (F:=RF) rcs eps w2 x) (abrm_nd (F:=RF) rcs eps w1 x).
Proof. exact abrm_nd_compose. Qed.
Print Assumptions C19_abrm_nd_composition.

(* abrm_hp / blochsim: FULL statement wanted:
     abrm_hp (w1 ++ w2) x d = su2_step (abrm_hp w2 x d) (abrm_hp w1 x d)        (same for blochsim)
   it needs exp(i(t1+t2)/2) = exp(i t1/2) exp(i t2/2) pushed through the closing total_phase; what IS proved is that
   the per-sample loop over w1 ++ w2 is the loop over w2 continued from the state left by w1 (the closing phase is applied
   once at the end).  The whole-function composition is validated numerically by props/C19.py on every case. *)
Theorem C19_abrm_hp_composition_partial :
  forall x d (w1 w2 : list (CR * R)) s,
    abrm_hp_loop (F:=RF) rcs x d (w1 ++ w2) s = abrm_hp_loop (F:=RF) rcs x d w2 (abrm_hp_loop (F:=RF) rcs x d w1 s).
Proof. exact abrm_hp_loop_app. Qed.
Print Assumptions C19_abrm_hp_composition_partial.

Theorem C19_blochsim_composition_partial :
  forall x (w1 w2 : list (CR * list R)) s,
    blochsim_loop (F:=RF) rcs x (w1 ++ w2) s = blochsim_loop (F:=RF) rcs x w2 (blochsim_loop (F:=RF) rcs x w1 s).
Proof. exact blochsim_loop_app. Qed.
Print Assumptions C19_blochsim_composition_partial.

(* [core] SLR.  FULL statement wanted:  |theta_j| < pi  ->  ab2rf (forward_slr rf) = rf.
   Proved here on the rotation parameters: for ANY list of hard pulses (c_j, s_j) with c_j > 0 (that is |theta_j| < pi,
   c_j = cos(theta_j/2)) and c_j^2 + |s_j|^2 = 1, the peeling recursion of ab2rf (top-coefficient ratio, sqrt, conj, the
   two polynomial updates and the two slices, model/Bloch.v slr_peel/slr_inv) applied to the polynomials produced by the
   forward hard-pulse recursion returns exactly the list (c_j, s_j).
   Missing for the full statement: the last line of ab2rf, rf_j = 2*atan2(|s_j|, c_j)*exp(1j*angle(s_j)), is the inverse of
   theta |-> (cos(|theta|/2), exp(1j*angle(theta))*sin(|theta|/2)) for |theta| < pi (atan2/angle are not modelled);
   that conversion is validated numerically by the correspondence (chk_ab2cs) and the |B| round trip. *)
Theorem C19_ab2rf_inverts_partial :
  forall (l : list (R * CR)),
    (forall m, In m l -> 0 < fst m /\ fst m * fst m + n2 (snd m) = 1) ->
    ab2cs (F:=RF) (fst (slr_fwd (F:=RF) l)) (snd (slr_fwd (F:=RF) l)) = l.
Proof. exact ab2cs_inverts. Qed.
Print Assumptions C19_ab2rf_inverts_partial.

Example C19_ab2rf_hypotheses_satisfiable :
  forall m, In m [(1 / 2, ((sqrt 3) / 2, 0)); (1, (0, 0))] -> 0 < fst m /\ fst m * fst m + n2 (snd m) = 1.
Proof. exact good_example. Qed.

(* non-vacuity of the eps hypotheses: the coded regulariser *)
Example C19_eps_positive : 0 < 1e-16.
Proof. exact eps_example. Qed.
