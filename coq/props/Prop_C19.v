(* Prop_C19 — Bloch simulators are unitary and invert the SLR pulse design.
   Only statements; every proof is `exact <lemma>` (proofs/Bloch.v, proofs/Slr.v).
   The simulators are the terms of model/Bloch.v (the same terms that run on floats in run/RunC19.v), here on R:
   complex numbers are pairs of reals (CR), a state is (a, b) (StR), nrm (a, b) = |a|^2 + |b|^2, n2 z = |z|^2,
   and the trig oracle is rcs t = (cos t, sin t). *)
From Coq Require Import Reals ZArith List Bool.
From SV Require Import model.Bloch proofs.Bloch proofs.Slr.
Import ListNotations.
Local Open Scope R_scope.

(* [core] every coded step  at = av*a - conj(bv)*b, bt = bv*a + conj(av)*b  multiplies |a|^2+|b|^2 by |av|^2+|bv|^2 *)
Theorem C19_su2_step :
  forall (m : CR * CR) (s : StR), nrm (su2_step m s) = nrm m * nrm s.
Proof. exact su2_step_norm. Qed.
Print Assumptions C19_su2_step.

(* ... hence over ANY list of factors the norm is multiplied by the product of the factors' norms *)
Theorem C19_su2_run :
  forall (l : list (CR * CR)) (s : StR), nrm (su2_run l s) = Rprod (map nrm l) * nrm s.
Proof. exact su2_run_norm. Qed.
Print Assumptions C19_su2_run.

(* abrm, exactly as coded (phi = sqrt(|rf|^2+om^2) + eps, axis divided by phi): for ANY waveform, position, eps,
   |a|^2+|b|^2 = prod_t (cos^2(phi_t/2) + rho_t^2 sin^2(phi_t/2)),  rho_t = (phi_t - eps)/phi_t,
   times the rewinder's factor when balanced *)
Theorem C19_abrm_norm_product :
  forall pi eps (rf : list CR) x balanced,
    nrm (abrm (F:=RF) rcs pi eps rf x balanced) =
    (if balanced then abrm_rewind_k pi eps x else 1) *
    Rprod (map (fun r => let phi := abrm_phi eps (x * (1 * 2 * pi / INR (length rf))) r in
                         let rho := (phi - eps) / phi in
                         cos (phi / 2) * cos (phi / 2) + rho * rho * (sin (phi / 2) * sin (phi / 2))) rf).
Proof. exact abrm_norm. Qed.
Print Assumptions C19_abrm_norm_product.

(* with the coded eps > 0 the main loop can only lose norm, by at most prod rho_t^2;  with eps = 0 it is exactly unitary *)
Theorem C19_abrm_norm_bounds :
  forall eps om (rf : list CR), 0 < eps ->
    Rprod (map (fun r => abrm_rho eps om r * abrm_rho eps om r) rf) <= nrm (abrm_loop (F:=RF) rcs eps om rf st0) <= 1.
Proof. exact abrm_loop_norm_bounds. Qed.
Print Assumptions C19_abrm_norm_bounds.

Theorem C19_abrm_unitary_without_eps :
  forall om (rf : list CR), (forall r, In r rf -> 0 < n2 r + om * om) -> nrm (abrm_loop (F:=RF) rcs 0 om rf st0) = 1.
Proof. exact abrm_loop_norm_eps0. Qed.
Print Assumptions C19_abrm_unitary_without_eps.

(* abrm_nd (phi = sqrt(|rf|^2+om^2), axis divided by phi + eps, om = x . g_t): rho_t = phi_t/(phi_t + eps) *)
Theorem C19_abrm_nd_norm_product :
  forall eps (rfg : list (CR * list R)) x,
    nrm (abrm_nd (F:=RF) rcs eps rfg x) =
    Rprod (map (fun rg => let phi := nd_phi x rg in let rho := phi / (phi + eps) in
                          cos (phi / 2) * cos (phi / 2) + rho * rho * (sin (phi / 2) * sin (phi / 2))) rfg).
Proof. exact abrm_nd_norm. Qed.
Print Assumptions C19_abrm_nd_norm_product.

Theorem C19_abrm_nd_norm_bounds :
  forall eps (rfg : list (CR * list R)) x, 0 < eps ->
    Rprod (map (fun rg => nd_rho eps x rg * nd_rho eps x rg) rfg) <= nrm (abrm_nd (F:=RF) rcs eps rfg x) <= 1.
Proof. exact abrm_nd_norm_bounds. Qed.
Print Assumptions C19_abrm_nd_norm_bounds.

(* abrm_hp, blochsim, abrm_ptx: exactly unitary for ANY waveform, gradient, position, off-resonance, sensitivities *)
Theorem C19_abrm_hp_unitary :
  forall (rfg : list (CR * R)) x dom0dt, nrm (abrm_hp (F:=RF) rcs rfg x dom0dt) = 1.
Proof. exact abrm_hp_norm. Qed.
Print Assumptions C19_abrm_hp_unitary.

Theorem C19_blochsim_unitary :
  forall (rfg : list (CR * list R)) x, nrm (blochsim (F:=RF) rcs rfg x) = 1.
Proof. exact blochsim_norm. Qed.
Print Assumptions C19_blochsim_unitary.

Theorem C19_abrm_ptx_unitary :
  forall dtgam boff (sens : list CR) x (b1g : list (list CR * list R)),
    nrm (abrm_ptx (F:=RF) rcs dtgam boff sens x b1g) = 1.
Proof. exact abrm_ptx_norm. Qed.
Print Assumptions C19_abrm_ptx_unitary.

(* [core] zero RF => b = 0 (and a is a pure phase for the exactly unitary simulators; for abrm, a carries the
   gradient phase, e.g. a = -1 at x = 1 — that is correct behaviour) *)
Theorem C19_abrm_zero_rf :
  forall pi eps (rf : list CR) x balanced,
    (forall r, In r rf -> r = c0) -> snd (abrm (F:=RF) rcs pi eps rf x balanced) = c0.
Proof. exact abrm_zero_rf. Qed.
Print Assumptions C19_abrm_zero_rf.

Theorem C19_abrm_nd_zero_rf :
  forall eps (rfg : list (CR * list R)) x,
    (forall rg, In rg rfg -> fst rg = c0) -> snd (abrm_nd (F:=RF) rcs eps rfg x) = c0.
Proof. exact abrm_nd_zero_rf. Qed.
Print Assumptions C19_abrm_nd_zero_rf.

Theorem C19_abrm_hp_zero_rf :
  forall (rfg : list (CR * R)) x d,
    (forall rg, In rg rfg -> fst rg = c0) ->
    snd (abrm_hp (F:=RF) rcs rfg x d) = c0 /\ n2 (fst (abrm_hp (F:=RF) rcs rfg x d)) = 1.
Proof. exact abrm_hp_zero_rf_full. Qed.
Print Assumptions C19_abrm_hp_zero_rf.

Theorem C19_blochsim_zero_rf :
  forall (rfg : list (CR * list R)) x,
    (forall rg, In rg rfg -> fst rg = c0) ->
    snd (blochsim (F:=RF) rcs rfg x) = c0 /\ n2 (fst (blochsim (F:=RF) rcs rfg x)) = 1.
Proof. exact blochsim_zero_rf_full. Qed.
Print Assumptions C19_blochsim_zero_rf.

(* [core] composition: the pair returned for factors l1 ++ l2 is the ordered product — the first column of
   M(l2) * M(l1) with M = [[a, -conj b], [b, conj a]], i.e. su2_step (result of l2) (result of l1) *)
Theorem C19_composition_ordered_product :
  forall (l1 l2 : list (CR * CR)), su2_run (l1 ++ l2) st0 = su2_step (su2_run l2 st0) (su2_run l1 st0).
Proof. exact su2_run_compose. Qed.
Print Assumptions C19_composition_ordered_product.

Theorem C19_abrm_nd_composition :
  forall eps (w1 w2 : list (CR * list R)) x,
    abrm_nd (F:=RF) rcs eps (w1 ++ w2) x = su2_step (abrm_nd (F:=RF) rcs eps w2 x) (abrm_nd (F:=RF) rcs eps w1 x).
Proof. exact abrm_nd_compose. Qed.
Print Assumptions C19_abrm_nd_composition.

(* abrm_hp / blochsim: FULL statement wanted:
     abrm_hp (w1 ++ w2) x d = su2_step (abrm_hp w2 x d) (abrm_hp w1 x d)        (same for blochsim)
   it needs exp(i(t1+t2)/2) = exp(i t1/2) exp(i t2/2) pushed through the closing total_phase; what IS proved is that
   the per-sample loop over w1 ++ w2 is the loop over w2 continued from the state left by w1 (the closing phase is applied
   once at the end).  The whole-function composition is validated numerically by props/C19.py on every case. *)
Theorem C19_abrm_hp_composition_partial :
  forall x d (w1 w2 : list (CR * R)) s,
    abrm_hp_loop (F:=RF) rcs x d (w1 ++ w2) s = abrm_hp_loop (F:=RF) rcs x d w2 (abrm_hp_loop (F:=RF) rcs x d w1 s).
Proof. exact abrm_hp_loop_app. Qed.
Print Assumptions C19_abrm_hp_composition_partial.

Theorem C19_blochsim_composition_partial :
  forall x (w1 w2 : list (CR * list R)) s,
    blochsim_loop (F:=RF) rcs x (w1 ++ w2) s = blochsim_loop (F:=RF) rcs x w2 (blochsim_loop (F:=RF) rcs x w1 s).
Proof. exact blochsim_loop_app. Qed.
Print Assumptions C19_blochsim_composition_partial.

(* [core] SLR.  FULL statement wanted:  |theta_j| < pi  ->  ab2rf (forward_slr rf) = rf.
   Proved here on the rotation parameters: for ANY list of hard pulses (c_j, s_j) with c_j > 0 (that is |theta_j| < pi,
   c_j = cos(theta_j/2)) and c_j^2 + |s_j|^2 = 1, the peeling recursion of ab2rf (top-coefficient ratio, sqrt, conj, the
   two polynomial updates and the two slices, model/Bloch.v slr_peel/slr_inv) applied to the polynomials produced by the
   forward hard-pulse recursion returns exactly the list (c_j, s_j).
   Missing for the full statement: the last line of ab2rf, rf_j = 2*atan2(|s_j|, c_j)*exp(1j*angle(s_j)), is the inverse of
   theta |-> (cos(|theta|/2), exp(1j*angle(theta))*sin(|theta|/2)) for |theta| < pi (atan2/angle are not modelled);
   that conversion is validated numerically by the correspondence (chk_ab2cs) and the |B| round trip. *)
Theorem C19_ab2rf_inverts_partial :
  forall (l : list (R * CR)),
    (forall m, In m l -> 0 < fst m /\ fst m * fst m + n2 (snd m) = 1) ->
    ab2cs (F:=RF) (fst (slr_fwd (F:=RF) l)) (snd (slr_fwd (F:=RF) l)) = l.
Proof. exact ab2cs_inverts. Qed.
Print Assumptions C19_ab2rf_inverts_partial.

Example C19_ab2rf_hypotheses_satisfiable :
  forall m, In m [(1 / 2, ((sqrt 3) / 2, 0)); (1, (0, 0))] -> 0 < fst m /\ fst m * fst m + n2 (snd m) = 1.
Proof. exact good_example. Qed.

(* non-vacuity of the eps hypotheses: the coded regulariser *)
Example C19_eps_positive : 0 < 1e-16.
Proof. exact eps_example. Qed.

(* ====================================================================================================================
   FULL versions of the statements left partial above (proofs/Bloch2.v, proofs/Slr2.v).  They supersede
   C19_abrm_hp_composition_partial, C19_blochsim_composition_partial and C19_ab2rf_inverts_partial, and add abrm_ptx.
   ==================================================================================================================== *)
From SV Require Import proofs.Bloch2 proofs.Slr2.

(* [core] abrm_hp, whole function (per-sample loop AND the closing line  z = exp(1j/2*(xx*sum(gamgdt) + Nt*dom0dt))):
   simulating w1 ++ w2 equals composing the two rotations.  Both halves are simulated by abrm_hp itself, i.e. started from
   the identity state a = 1, b = 0 (the only start the Python function offers), at the same position x and off-resonance
   dom0dt; each half closes with the phase of its OWN accumulated angle, and exp(i(p1+p2)/2) = exp(i p1/2) exp(i p2/2). *)
Theorem C19_abrm_hp_composition :
  forall (w1 w2 : list (CR * R)) x dom0dt,
    abrm_hp (F:=RF) rcs (w1 ++ w2) x dom0dt =
    su2_step (abrm_hp (F:=RF) rcs w2 x dom0dt) (abrm_hp (F:=RF) rcs w1 x dom0dt).
Proof. exact abrm_hp_compose. Qed.
Print Assumptions C19_abrm_hp_composition.

(* the reason: with the closing phase, abrm_hp is an ordered product of SU(2)-form factors, one per sample,
     av = cos(|r|/2) e^{i th/2},  bv = 1j*exp(1j*angle(r))*sin(|r|/2) e^{i th/2},  th = x*g + dom0dt,  |av|^2+|bv|^2 = 1 *)
Theorem C19_abrm_hp_rotation_product :
  forall (w : list (CR * R)) x dom0dt,
    abrm_hp (F:=RF) rcs w x dom0dt = su2_run (map (hp_factor x dom0dt) w) st0.
Proof. exact abrm_hp_su2. Qed.
Print Assumptions C19_abrm_hp_rotation_product.

Theorem C19_abrm_hp_factor_unit :
  forall x dom0dt (rg : CR * R), nrm (hp_factor x dom0dt rg) = 1.
Proof. exact hp_factor_norm. Qed.
Print Assumptions C19_abrm_hp_factor_unit.

(* continuation form: if instead the second half is run as the bare loop started from the RESULT of abrm_hp on w1
   (closing phase of w1 already applied), it must be closed with the phase of w2's accumulated angle only *)
Theorem C19_abrm_hp_continuation :
  forall (w1 w2 : list (CR * R)) x dom0dt,
    abrm_hp (F:=RF) rcs (w1 ++ w2) x dom0dt =
    total_phase (F:=RF) rcs (x * fsum (F:=RF) (map snd w2) + IZR (Z.of_nat (length w2)) * dom0dt)
      (abrm_hp_loop (F:=RF) rcs x dom0dt w2 (abrm_hp (F:=RF) rcs w1 x dom0dt)).
Proof. exact abrm_hp_continue. Qed.
Print Assumptions C19_abrm_hp_continuation.

(* [core] optcont.blochsim, whole function (loop AND  z = exp(1j/2 * x @ sum(g, 0))).  Hypothesis = numpy's shape
   requirement: every gradient row g[mm, :] has as many entries as the position x (1-D case: both of length 1). *)
Theorem C19_blochsim_composition :
  forall (w1 w2 : list (CR * list R)) x,
    (forall rg, In rg w1 -> length (snd rg) = length x) ->
    (forall rg, In rg w2 -> length (snd rg) = length x) ->
    blochsim (F:=RF) rcs (w1 ++ w2) x = su2_step (blochsim (F:=RF) rcs w2 x) (blochsim (F:=RF) rcs w1 x).
Proof. exact blochsim_compose. Qed.
Print Assumptions C19_blochsim_composition.

Theorem C19_blochsim_rotation_product :
  forall (w : list (CR * list R)) x,
    (forall rg, In rg w -> length (snd rg) = length x) ->
    blochsim (F:=RF) rcs w x = su2_run (map (bs_factor x) w) st0.
Proof. exact blochsim_su2. Qed.
Print Assumptions C19_blochsim_rotation_product.

Theorem C19_blochsim_factor_unit :
  forall x (rg : CR * list R), nrm (bs_factor x rg) = 1.
Proof. exact bs_factor_norm. Qed.
Print Assumptions C19_blochsim_factor_unit.

Theorem C19_blochsim_continuation :
  forall (w1 w2 : list (CR * list R)) x,
    (forall rg, In rg w1 -> length (snd rg) = length x) ->
    (forall rg, In rg w2 -> length (snd rg) = length x) ->
    blochsim (F:=RF) rcs (w1 ++ w2) x =
    total_phase (F:=RF) rcs (dot (F:=RF) x (vsum (F:=RF) (map (fun _ => f0) x) (map snd w2)))
      (blochsim_loop (F:=RF) rcs x w2 (blochsim (F:=RF) rcs w1 x)).
Proof. exact blochsim_continue. Qed.
Print Assumptions C19_blochsim_continuation.

Example C19_blochsim_hypotheses_satisfiable :
  forall rg, In rg [((1, 0), [3; 4]); ((0, 1), [5; 6])] -> length (snd rg) = length [1; 2].
Proof. exact rows_ok_example. Qed.

(* [core] abrm_ptx (any sens, fmap, gradient, dt).  The function returns a = statea, b = -conj(stateb) (ptx_out, an
   involution); the internal state composes as an SU(2) product, so on the outputs:
   convert both results back to states, take the product (first column of M2*M1), convert to outputs — exactly what the
   numerical oracle of props/C19.py computes — or explicitly  a = a2*a1 - b2*conj(b1),  b = a2*b1 + b2*conj(a1). *)
Theorem C19_abrm_ptx_composition :
  forall dtgam boff (sens : list CR) x (w1 w2 : list (list CR * list R)),
    abrm_ptx (F:=RF) rcs dtgam boff sens x (w1 ++ w2) =
    ptx_out (su2_step (ptx_out (abrm_ptx (F:=RF) rcs dtgam boff sens x w2))
                      (ptx_out (abrm_ptx (F:=RF) rcs dtgam boff sens x w1))).
Proof. exact abrm_ptx_compose. Qed.
Print Assumptions C19_abrm_ptx_composition.

Theorem C19_abrm_ptx_composition_explicit :
  forall dtgam boff (sens : list CR) x (w1 w2 : list (list CR * list R)),
    let s1 := abrm_ptx (F:=RF) rcs dtgam boff sens x w1 in
    let s2 := abrm_ptx (F:=RF) rcs dtgam boff sens x w2 in
    abrm_ptx (F:=RF) rcs dtgam boff sens x (w1 ++ w2) =
    (csub (F:=RF) (cmul (F:=RF) (fst s2) (fst s1)) (cmul (F:=RF) (snd s2) (cconj (F:=RF) (snd s1))),
     cadd (F:=RF) (cmul (F:=RF) (fst s2) (snd s1)) (cmul (F:=RF) (snd s2) (cconj (F:=RF) (fst s1)))).
Proof. exact abrm_ptx_compose_explicit. Qed.
Print Assumptions C19_abrm_ptx_composition_explicit.

(* [core] abrm_ptx: zero RF on every coil at every time step => b = 0 and |a| = 1 *)
Theorem C19_abrm_ptx_zero_rf :
  forall dtgam boff (sens : list CR) x (w : list (list CR * list R)),
    (forall bg, In bg w -> forall c, In c (fst bg) -> c = c0) ->
    snd (abrm_ptx (F:=RF) rcs dtgam boff sens x w) = c0 /\ n2 (fst (abrm_ptx (F:=RF) rcs dtgam boff sens x w)) = 1.
Proof. exact abrm_ptx_zero_rf. Qed.
Print Assumptions C19_abrm_ptx_zero_rf.

(* ... already when the combined transverse field sens @ b1[:, t] vanishes at every step *)
Theorem C19_abrm_ptx_zero_bxy :
  forall dtgam boff (sens : list CR) x (w : list (list CR * list R)),
    (forall bg, In bg w -> cdot (F:=RF) sens (fst bg) = c0) ->
    snd (abrm_ptx (F:=RF) rcs dtgam boff sens x w) = c0.
Proof. exact abrm_ptx_zero_bxy. Qed.
Print Assumptions C19_abrm_ptx_zero_bxy.

(* ---- SLR: the last line of ab2rf.  arctan2 is defined from Coq's atan by the quadrant cases (Slr2.Ratan2; real-number
   reading of np.arctan2), angle(z) = arctan2(im z, re z), exp(1j*t) = cis t = (cos t, sin t).  No hypothesis on them. *)
Theorem C19_arctan2_inverts_polar :
  forall t, - (PI / 2) < t < PI / 2 -> Ratan2 (sin t) (cos t) = t.
Proof. exact atan2_sin_cos. Qed.
Print Assumptions C19_arctan2_inverts_polar.

(* exp(1j*angle(z)) = z/|z|, and 1 at z = 0: the reading of the simulators' unit phasor is a theorem, not an assumption *)
Theorem C19_exp_angle_is_unit_phasor :
  forall z : CR, cis (Ratan2 (snd z) (fst z)) = unit_phasor (F:=RF) z.
Proof. exact cis_angle_unit_phasor. Qed.
Print Assumptions C19_exp_angle_is_unit_phasor.

(* rf = 2*arctan2(|s|, c)*exp(1j*angle(s))  inverts  r |-> (c, s) = (cos(|r|/2), exp(1j*angle(r))*sin(|r|/2))  for |r| < pi,
   and conversely on rotation parameters with c > 0, c^2 + |s|^2 = 1 *)
Theorem C19_ab2rf_last_line :
  forall r : CR, sqrt (n2 r) < PI ->
    let c := cos (sqrt (n2 r) / 2) in
    let s := cscale (F:=RF) (sin (sqrt (n2 r) / 2)) (cis (Rangle r)) in
    cscale (F:=RF) (2 * Ratan2 (sqrt (n2 s)) c) (cis (Rangle s)) = r.
Proof. exact cs2rf_rf2cs. Qed.
Print Assumptions C19_ab2rf_last_line.

Theorem C19_ab2rf_last_line_converse :
  forall m : R * CR, 0 < fst m /\ fst m * fst m + n2 (snd m) = 1 -> rf2cs (cs2rf m) = m.
Proof. exact rf2cs_cs2rf. Qed.
Print Assumptions C19_ab2rf_last_line_converse.

(* [core] FULL: ab2rf = (peeling recursion of model/Bloch.v, then the last line on every peeled pair) inverts the forward
   SLR transform (rotation parameters of every sample, then the hard-pulse polynomial recursion) whenever |theta_j| < pi *)
Theorem C19_ab2rf_inverts :
  forall rf : list CR,
    (forall r, In r rf -> sqrt (n2 r) < PI) ->
    map cs2rf (ab2cs (F:=RF) (fst (slr_fwd (F:=RF) (map rf2cs rf))) (snd (slr_fwd (F:=RF) (map rf2cs rf)))) = rf.
Proof. exact ab2rf_forward_slr. Qed.
Print Assumptions C19_ab2rf_inverts.

Example C19_ab2rf_full_hypotheses_satisfiable :
  forall r, In r [((PI / 2) * (3 / 5), (PI / 2) * (4 / 5)); (2 * PI / 3, 0); (0, 0)] -> sqrt (n2 r) < PI.
Proof. exact rf_example. Qed.

(* [core] hard-pulse simulation evaluates the forward SLR polynomials.  For a non-empty hard-pulse train rf under a
   constant gradient sample g and off-resonance d, at position x, with th = x*g + d, w = exp(1j*th), N = len rf and
   (A, B) = forward_slr rf:
     a = exp(1j*N*th/2) * conj(sum_k A[k] w^(N-1-k)),   b = exp(1j*N*th/2) * 1j * conj(sum_k B[k] w^(N-1-k))
   (stof w (A, B) = (conj(prev A w), 1j*conj(prev B w)), prev = Horner from the left). *)
Theorem C19_abrm_hp_evaluates_forward_slr :
  forall (r0 : CR) (rs : list CR) g x d,
    let rf := r0 :: rs in
    let rfg := map (fun r => (r, g)) rf in
    abrm_hp (F:=RF) rcs rfg x d =
    total_phase (F:=RF) rcs (x * fsum (F:=RF) (map snd rfg) + IZR (Z.of_nat (length rfg)) * d)
      (stof (cis (x * g + d)) (forward_slr rf)).
Proof. exact abrm_hp_forward_slr. Qed.
Print Assumptions C19_abrm_hp_evaluates_forward_slr.

(* [core] the inverse SLR transform is inverted by hard-pulse simulation: for the polynomial pair (A, B) of ANY hard-pulse
   train with |theta_j| < pi, abrm_hp(ab2rf(A, B)) under a constant gradient returns (A, B) evaluated at the position's
   phase; in particular |a| = |A(e^{-i th})| and |b| = |B(e^{-i th})| (peval p v = sum_k p[k] v^k) — the quantity the
   numerical round trip of props/C19.py measures. *)
Theorem C19_slr_inverted_by_hard_pulse_simulation :
  forall (r0 : CR) (rs : list CR) g x d,
    (forall r, In r (r0 :: rs) -> sqrt (n2 r) < PI) ->
    let A := fst (forward_slr (r0 :: rs)) in
    let B := snd (forward_slr (r0 :: rs)) in
    let rfg := map (fun r => (r, g)) (ab2rf A B) in
    abrm_hp (F:=RF) rcs rfg x d =
      total_phase (F:=RF) rcs (x * fsum (F:=RF) (map snd rfg) + IZR (Z.of_nat (length rfg)) * d)
        (stof (cis (x * g + d)) (A, B)) /\
    n2 (fst (abrm_hp (F:=RF) rcs rfg x d)) = n2 (peval A (cis (- (x * g + d)))) /\
    n2 (snd (abrm_hp (F:=RF) rcs rfg x d)) = n2 (peval B (cis (- (x * g + d)))).
Proof. exact abrm_hp_ab2rf_roundtrip. Qed.
Print Assumptions C19_slr_inverted_by_hard_pulse_simulation.
