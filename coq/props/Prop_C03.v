(* Prop_C03 — operator algebra agrees with matrix algebra; advertised shapes; rejection. *)
From Coq Require Import ZArith List Bool.
From SV Require Import lib.Scalar lib.BigSum lib.NdArray model.Block model.Linop proofs.LinopTheory proofs.LinopAlgebra proofs.LinopStack proofs.LinopLinear proofs.LinopRetab.
From SV Require proofs.ShapesTie.   (* shape / parameter functions of the model re-checked against the source text on every run *)
Import ListNotations.
Local Open Scope Z_scope.

(* A*B applies B then A (after python's flattening of nested compositions) *)
Theorem C03_product_applies_right_then_left :
  forall (R : StarRing) arr scal orc A B (x : list Z -> R), D R arr scal orc (op_mul A B) x = D R arr scal orc A (D R arr scal orc B x).
Proof. exact D_mul. Qed.
Print Assumptions C03_product_applies_right_then_left.

Theorem C03_composition_of_a_list :
  forall (R : StarRing) arr scal orc ls (x : list Z -> R),
    D R arr scal orc (mkCompose ls) x = fold_right (fun a acc => D R arr scal orc a acc) x ls.
Proof. exact D_compose_list. Qed.
Print Assumptions C03_composition_of_a_list.

Theorem C03_flattening_preserves_meaning :
  forall (R : StarRing) arr scal orc l1 l2 l3 (x : list Z -> R),
    D R arr scal orc (mkCompose (l1 ++ [Compose l2] ++ l3)) x = D R arr scal orc (mkCompose (l1 ++ l2 ++ l3)) x.
Proof. exact D_compose_assoc. Qed.
Print Assumptions C03_flattening_preserves_meaning.

Theorem C03_sum_adds_results :
  forall (R : StarRing) arr scal orc A B (x : list Z -> R) o,
    D R arr scal orc (op_add A B) x o = add (D R arr scal orc A x o) (D R arr scal orc B x o).
Proof. exact D_plus. Qed.
Print Assumptions C03_sum_adds_results.

Theorem C03_difference :
  forall (R : StarRing) arr scal orc A B (x : list Z -> R) o,
    D R arr scal orc (op_sub A B) x o = add (D R arr scal orc A x o) (D R arr scal orc (op_neg B) x o).
Proof. exact D_minus. Qed.
Print Assumptions C03_difference.

(* operands whose shapes do not fit are rejected by the constructor model *)
Theorem C03_compose_rejects_misfit :
  forall A B, wf A = true -> wf B = true -> ishape_of A <> oshape_of B -> wf (Compose [A; B]) = false.
Proof. exact compose_reject. Qed.
Print Assumptions C03_compose_rejects_misfit.

Theorem C03_compose_accepts_only_fitting :
  forall A B s, shapes (Compose [A; B]) = Ok s ->
    ishape_of A = oshape_of B /\ fst s = oshape_of A /\ snd s = ishape_of B.
Proof. exact compose_accept. Qed.
Print Assumptions C03_compose_accepts_only_fitting.

Theorem C03_add_rejects_misfit :
  forall A B, wf A = true -> wf B = true ->
    (ishape_of A <> ishape_of B \/ oshape_of A <> oshape_of B) -> wf (Add [A; B]) = false.
Proof. exact add_reject. Qed.
Print Assumptions C03_add_rejects_misfit.


(* ---- Hstack / Vstack / Diag ARE the block-row / block-column / block-diagonal matrices, split points = prefix sums
        of the members' sizes along the axis (or of their flattened sizes when axis is None) ---- *)
Theorem C03_hstack_is_block_row :
  forall (R : StarRing) arr scal orc ls axis, wf (Hstack ls axis) = true ->
    forall (x : list Z -> R) o, D R arr scal orc (Hstack ls axis) x o =
      sum_parts R ls (psums 0 (map (axsize axis) (map ishape_of ls)))
        (fun a st => D R arr scal orc a (fun i => x (emb axis (ishape_of a) st i)) o).
Proof. exact hstack_is_block_row. Qed.
Print Assumptions C03_hstack_is_block_row.

Theorem C03_vstack_is_block_column :
  forall (R : StarRing) arr scal orc ls axis, wf (Vstack ls axis) = true ->
    forall a st, In (a, st) (combine ls (starts axis (map oshape_of ls))) ->
    forall (x : list Z -> R) j, inbox (oshape_of a) j ->
      D R arr scal orc (Vstack ls axis) x (emb axis (oshape_of a) st j) = D R arr scal orc a x j.
Proof. exact vstack_is_block_column. Qed.
Print Assumptions C03_vstack_is_block_column.

Theorem C03_diag_is_block_diagonal :
  forall (R : StarRing) arr scal orc ls oaxis iaxis, wf (Diag ls oaxis iaxis) = true ->
    forall a ist ost, In (a, ist, ost) (combine (combine ls (starts iaxis (map ishape_of ls))) (starts oaxis (map oshape_of ls))) ->
    forall (x : list Z -> R) j, inbox (oshape_of a) j ->
      D R arr scal orc (Diag ls oaxis iaxis) x (emb oaxis (oshape_of a) ost j) =
      D R arr scal orc a (fun i => x (emb iaxis (ishape_of a) ist i)) j.
Proof. exact diag_is_block_diagonal. Qed.
Print Assumptions C03_diag_is_block_diagonal.

Theorem C03_split_points_are_prefix_sums :
  forall shs axis S ind, stack_params shs axis = Ok (S, ind) ->
    0 :: ind = psums 0 (map (axsize axis) shs) /\
    getZ S (match axis with None => 0 | Some ax => ax mod lenZ S end) = sumlist (map (axsize axis) shs).
Proof. exact stack_params_prefix_sums. Qed.
Print Assumptions C03_split_points_are_prefix_sums.

(* ---- the EXECUTED model (re-tabulating intermediate arrays, used by the correspondence) equals the PROVED model on the
        output box; every modelled leaf only reads its input inside the index box (proofs/LinopRetab.v) ---- *)
(* ---------- Prop_C03 new section ---------- *)
Theorem C03_executed_model_is_proved_model :
  forall (R : StarRing) arr scal orc A,
    wf A = true -> nodes_ok' (local R arr scal orc) A ->
    forall x o, inbox (oshape_of A) o -> den (R:=R) arr scal orc retab A x o = D R arr scal orc A x o.
Proof. exact den_retab_eq. Qed.

Theorem C03_executed_model_is_proved_model_proven_leaves :
  forall (R : StarRing) arr scal orc A,
    wf A = true -> nodes_ok' (leaf_local_ok R orc) A ->
    forall x o, inbox (oshape_of A) o -> den (R:=R) arr scal orc retab A x o = D R arr scal orc A x o.
Proof. exact den_retab_eq_proven. Qed.

Theorem C03_any_transparent_force :
  forall (R : StarRing) arr scal orc (force : list Z -> (list Z -> R) -> list Z -> R),
    (forall s (f : list Z -> R) i, Forall (fun n => 0 <= n) s -> inbox s i -> force s f i = f i) ->
    forall A, wf A = true -> nodes_ok' (fun L => wf L = true -> local R arr scal orc L) A ->
    forall x o, inbox (oshape_of A) o -> den (R:=R) arr scal orc force A x o = D R arr scal orc A x o.
Proof. exact den_force_eq. Qed.

Theorem C03_trees_are_local :
  forall (R : StarRing) arr scal orc A,
    wf A = true -> nodes_ok' (local R arr scal orc) A -> local R arr scal orc A.
Proof. exact local_tree. Qed.

Theorem C03_proven_leaves_are_local :
  forall (R : StarRing) arr scal orc L, proven_local L = true -> wf L = true -> local R arr scal orc L.
Proof. exact proven_local_spec. Qed.

Theorem C03_executed_model_is_linear :
  forall (R : StarRing) arr scal orc A,
    wf A = true -> nodes_ok' (leaf_local_ok R orc) A ->
    (forall L, library_backed L = true -> linear R (orc L)) ->
    forall (a : R) x y o, inbox (oshape_of A) o ->
      den (R:=R) arr scal orc retab A (fun i => add (mul a (x i)) (y i)) o =
      add (mul a (den (R:=R) arr scal orc retab A x o)) (den (R:=R) arr scal orc retab A y o).
Proof. exact den_retab_linear. Qed.
Print Assumptions C03_executed_model_is_proved_model.
Print Assumptions C03_executed_model_is_proved_model_proven_leaves.
Print Assumptions C03_any_transparent_force.
Print Assumptions C03_trees_are_local.
Print Assumptions C03_proven_leaves_are_local.
Print Assumptions C03_executed_model_is_linear.

Example C03_example_reject :
  wf (Compose [Resize [3] [4] None None; Resize [5] [3] None None]) = false /\
  wf (Hstack [Identity [2; 3]; Identity [2; 4]] (Some (-1))) = false /\
  wf (Hstack [Resize [2; 3] [2; 3] None None; Resize [2; 3] [2; 4] None None] (Some (-1))) = true.
Proof. vm_compute. auto. Qed.

(* ---- library-backed leaf classes: advertised shapes through the function models (coq/proofs/OpaqueWavelet.v) ---- *)
From SV Require Import model.Wavelet model.OpaqueWavelet proofs.OpaqueWavelet.

(* [wavelet family] *)
(* C03: with the stored coefficient shape consistent, [shapes] is what the two __init__ methods compute; and the
   adjoint's shapes are the swap (every parameter) *)
Theorem C03_wavelet_init_shapes :
  forall orth cs L, wavelet_leaf_ok orth cs L = true -> wf L = true ->
    exists s, wavelet_init_shapes cs L = Some s /\ shapes L = Ok s.
Proof. exact shapes_are_init_shapes. Qed.
Print Assumptions C03_wavelet_init_shapes.
