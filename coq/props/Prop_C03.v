(* Prop_C03 — operator algebra agrees with matrix algebra; advertised shapes; rejection. *)
From Coq Require Import ZArith List Bool.
From SV Require Import lib.Scalar lib.BigSum model.Block model.Linop proofs.LinopTheory proofs.LinopAlgebra.
Import ListNotations.
Local Open Scope Z_scope.

(* A*B applies B then A (after python's flattening of nested compositions) *)
Theorem C03_product_applies_right_then_left :
  forall (R : StarRing) arr scal orc A B (x : list Z -> R), D R arr scal orc (op_mul A B) x = D R arr scal orc A (D R arr scal orc B x).
Proof. exact D_mul. Qed.
Print Assumptions C03_product_applies_right_then_left.

Theorem C03_composition_of_a_list :
  forall (R : StarRing) arr scal orc ls (x : list Z -> R),
    D R arr scal orc (mkCompose ls) x = fold_right (fun a acc => D R arr scal orc a acc) x ls.
Proof. exact D_compose_list. Qed.
Print Assumptions C03_composition_of_a_list.

Theorem C03_flattening_preserves_meaning :
  forall (R : StarRing) arr scal orc l1 l2 l3 (x : list Z -> R),
    D R arr scal orc (mkCompose (l1 ++ [Compose l2] ++ l3)) x = D R arr scal orc (mkCompose (l1 ++ l2 ++ l3)) x.
Proof. exact D_compose_assoc. Qed.
Print Assumptions C03_flattening_preserves_meaning.

Theorem C03_sum_adds_results :
  forall (R : StarRing) arr scal orc A B (x : list Z -> R) o,
    D R arr scal orc (op_add A B) x o = add (D R arr scal orc A x o) (D R arr scal orc B x o).
Proof. exact D_plus. Qed.
Print Assumptions C03_sum_adds_results.

Theorem C03_difference :
  forall (R : StarRing) arr scal orc A B (x : list Z -> R) o,
    D R arr scal orc (op_sub A B) x o = add (D R arr scal orc A x o) (D R arr scal orc (op_neg B) x o).
Proof. exact D_minus. Qed.
Print Assumptions C03_difference.

(* operands whose shapes do not fit are rejected by the constructor model *)
Theorem C03_compose_rejects_misfit :
  forall A B, wf A = true -> wf B = true -> ishape_of A <> oshape_of B -> wf (Compose [A; B]) = false.
Proof. exact compose_reject. Qed.
Print Assumptions C03_compose_rejects_misfit.

Theorem C03_compose_accepts_only_fitting :
  forall A B s, shapes (Compose [A; B]) = Ok s ->
    ishape_of A = oshape_of B /\ fst s = oshape_of A /\ snd s = ishape_of B.
Proof. exact compose_accept. Qed.
Print Assumptions C03_compose_accepts_only_fitting.

Theorem C03_add_rejects_misfit :
  forall A B, wf A = true -> wf B = true ->
    (ishape_of A <> ishape_of B \/ oshape_of A <> oshape_of B) -> wf (Add [A; B]) = false.
Proof. exact add_reject. Qed.
Print Assumptions C03_add_rejects_misfit.

Example C03_example_reject :
  wf (Compose [Resize [3] [4] None None; Resize [5] [3] None None]) = false /\
  wf (Hstack [Identity [2; 3]; Identity [2; 4]] (Some (-1))) = false /\
  wf (Hstack [Resize [2; 3] [2; 3] None None; Resize [2; 3] [2; 4] None None] (Some (-1))) = true.
Proof. vm_compute. auto. Qed.
