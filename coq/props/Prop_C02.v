(* Prop_C02 — operators are linear over the scalar ring (over C: no Re/Im mixing), and a denotation
   is a function of (operator, input) only.  Non-mutation is a run-time fact about aliasing and is
   decided by the byte-snapshot sweep of props/C02.py (see DESIGN.md). *)
From Coq Require Import ZArith List Bool.
From SV Require Import lib.Scalar lib.BigSum lib.Gather lib.LoopIR model.Rearrange model.Block model.Linop proofs.LinopTheory proofs.LinopAlgebra proofs.LinopStack proofs.LinopLinear.
Import ListNotations.
Local Open Scope Z_scope.

(* A(a x + y) = a A x + A y for EVERY expression tree over Conj, +, composition (hence the scalar
   and sign overloads), for every scalar a of the *-ring (in particular complex a: conjugation is
   applied on both sides of Conj's operand, so Conj(A) is linear, not anti-linear). *)
Theorem C02_every_tree_is_linear :
  forall (R : StarRing) arr scal orc A,
    nodes_ok (fun L => linear R (D R arr scal orc L)) A -> linear R (D R arr scal orc A).
Proof. exact linear_correct. Qed.
Print Assumptions C02_every_tree_is_linear.

(* node hypothesis for the leaf families: pure re-indexing (Reshape, Transpose, Slice, Flip, Circshift,
   Downsample, Tile), gathers with zero fill (Resize, Upsample, Embed), finite sums of re-indexed
   entries (Sum, MatMul rows) *)
Theorem C02_reindexing_is_linear :
  forall (R : StarRing) (f : list Z -> list Z), linear R (fun (x : list Z -> R) o => x (f o)).
Proof. exact linear_reindex. Qed.
Print Assumptions C02_reindexing_is_linear.

Theorem C02_gather_is_linear :
  forall (R : StarRing) ms, linear R (@gatherN R ms).
Proof. exact linear_gatherN. Qed.
Print Assumptions C02_gather_is_linear.

Theorem C02_sums_are_linear :
  forall (R : StarRing) (T : Type) (l : list T) (g : T -> list Z),
    linear R (fun (x : list Z -> R) o => sum_list R (map (fun k => x (g k)) l)).
Proof. exact linear_sum_list. Qed.
Print Assumptions C02_sums_are_linear.

Theorem C02_conj_of_linear_is_linear :
  forall (R : StarRing) F, linear R F -> linear R (fun x o => conj (F (fun i => conj (x i)) o)).
Proof. exact linear_conj. Qed.
Print Assumptions C02_conj_of_linear_is_linear.

(* ---- EVERY operator expression is linear: all leaf classes, all combinators, the generated loop nests (proofs/LinopLinear.v) ---- *)
(* ---------- Prop_C02 additions ---------- *)
Theorem C02_every_operator_is_linear :
  forall (R : StarRing) arr scal orc,
    (forall L, library_backed L = true -> linear R (orc L)) ->
    forall A, linear R (D R arr scal orc A).
Proof. exact linear_every_tree. Qed.

Theorem C02_every_leaf_is_linear :
  forall (R : StarRing) arr scal orc L,
    is_comb L = false -> (library_backed L = true -> linear R (orc L)) -> linear R (D R arr scal orc L).
Proof. exact linear_leaf. Qed.

Theorem C02_no_library_tree_is_linear :
  forall (R : StarRing) arr scal orc A, no_library A = true -> linear R (D R arr scal orc A).
Proof. exact linear_no_library. Qed.

Theorem C02_stacks_are_linear :
  forall (R : StarRing) arr scal orc ls,
    Forall (fun A => linear R (D R arr scal orc A)) ls ->
    (forall ax, linear R (D R arr scal orc (Hstack ls ax))) /\
    (forall ax, linear R (D R arr scal orc (Vstack ls ax))) /\
    (forall oa ia, linear R (D R arr scal orc (Diag ls oa ia))).
Proof.
  intros R arr scal orc ls H. split; [|split]; intros;
    [apply linear_hstack | apply linear_vstack | apply linear_diag]; exact H.
Qed.

Theorem C02_loop_nests_are_linear :
  forall (R : StarRing) (a : R) n12 n1 n2, nest_lin R a n12 n1 n2 ->
    forall e (out12 out1 out2 : list Z -> R),
      (forall o, out12 o = add (mul a (out1 o)) (out2 o)) ->
      forall o, exec n12 e out12 o = add (mul a (exec n1 e out1 o)) (exec n2 e out2 o).
Proof. exact exec_linear. Qed.
Print Assumptions C02_every_operator_is_linear.
Print Assumptions C02_every_leaf_is_linear.
Print Assumptions C02_no_library_tree_is_linear.
Print Assumptions C02_stacks_are_linear.
Print Assumptions C02_loop_nests_are_linear.
