(* Prop_C02 — operators are linear over the scalar ring (over C: no Re/Im mixing), and a denotation
   is a function of (operator, input) only.  Non-mutation is a run-time fact about aliasing and is
   decided by the byte-snapshot sweep of props/C02.py (see DESIGN.md). *)
From Coq Require Import ZArith List Bool.
From SV Require Import lib.Scalar lib.BigSum lib.Gather model.Rearrange model.Linop proofs.LinopTheory proofs.LinopAlgebra.
Import ListNotations.
Local Open Scope Z_scope.

(* A(a x + y) = a A x + A y for EVERY expression tree over Conj, +, composition (hence the scalar
   and sign overloads), for every scalar a of the *-ring (in particular complex a: conjugation is
   applied on both sides of Conj's operand, so Conj(A) is linear, not anti-linear). *)
Theorem C02_every_tree_is_linear :
  forall (R : StarRing) arr scal orc A,
    nodes_ok (fun L => linear R (D R arr scal orc L)) A -> linear R (D R arr scal orc A).
Proof. exact linear_correct. Qed.
Print Assumptions C02_every_tree_is_linear.

(* node hypothesis for the leaf families: pure re-indexing (Reshape, Transpose, Slice, Flip, Circshift,
   Downsample, Tile), gathers with zero fill (Resize, Upsample, Embed), finite sums of re-indexed
   entries (Sum, MatMul rows) *)
Theorem C02_reindexing_is_linear :
  forall (R : StarRing) (f : list Z -> list Z), linear R (fun (x : list Z -> R) o => x (f o)).
Proof. exact linear_reindex. Qed.
Print Assumptions C02_reindexing_is_linear.

Theorem C02_gather_is_linear :
  forall (R : StarRing) ms, linear R (@gatherN R ms).
Proof. exact linear_gatherN. Qed.
Print Assumptions C02_gather_is_linear.

Theorem C02_sums_are_linear :
  forall (R : StarRing) (T : Type) (l : list T) (g : T -> list Z),
    linear R (fun (x : list Z -> R) o => sum_list R (map (fun k => x (g k)) l)).
Proof. exact linear_sum_list. Qed.
Print Assumptions C02_sums_are_linear.

Theorem C02_conj_of_linear_is_linear :
  forall (R : StarRing) F, linear R F -> linear R (fun x o => conj (F (fun i => conj (x i)) o)).
Proof. exact linear_conj. Qed.
Print Assumptions C02_conj_of_linear_is_linear.
