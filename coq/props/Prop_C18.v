(* Prop_C18 — Poisson-disc masks: binary, calibrated, in range, cropped; acceleration within tol or
   ValueError; the slope search terminates.
   Only statements; every proof is `exact <lemma>`.  Print Assumptions below each.

   Kernel theorems: for EVERY operations record T (floats, reals, ...) satisfying the single law
   [trunc_in_range], every radius arrays, every max_attempts, EVERY stream of draws and EVERY fuel.
   [fst (fst (poisson_run ...))] is the state in which the model stops (normal end of the loop, fuel
   exhausted, or stream exhausted / ill-typed): the statements hold at every such point, in particular
   on return.   Search theorems: floats as an abstract grid G ordered by an integer [rank] (integers of
   ulps).  Not in the model (validated by props/C18.py only): numpy's global RNG state is untouched,
   same arguments + seed => same mask (numba's private generator). *)
From Coq Require Import ZArith List Bool.
From SV Require Import model.Poisson proofs.Poisson.
Import ListNotations.
Local Open Scope Z_scope.

Definition trunc_law (T : POps) : Prop :=
  forall (q : T) (n : Z), pleb (pofZ 0) q = true -> pltb q (pofZ n) = true -> 0 <= ptrunc q < n.

(* every mask entry is 0 or 1 *)
Theorem C18_mask_binary :
  forall (T : POps) nx ny max_attempts (RX RY : Z -> Z -> T), trunc_law T ->
  forall (fuel : nat) cy cx (s : list (draw T)),
    0 < nx -> 0 < ny -> 0 <= cy <= ny -> 0 <= cx <= nx ->
    forall y x, let m := mask (fst (fst (poisson_run nx ny max_attempts RX RY fuel cy cx s))) in
                m y x = 0 \/ m y x = 1.
Proof. exact @poisson_mask_binary. Qed.
Print Assumptions C18_mask_binary.

(* the calibration block [int(ny/2-cy/2), int(ny/2+cy/2)) x [int(nx/2-cx/2), int(nx/2+cx/2)) is 1 *)
Theorem C18_calibration_block_sampled :
  forall (T : POps) nx ny max_attempts (RX RY : Z -> Z -> T), trunc_law T ->
  forall (fuel : nat) cy cx (s : list (draw T)),
    0 < nx -> 0 < ny -> 0 <= cy <= ny -> 0 <= cx <= nx ->
    forall y x, calib_lo ny cy <= y < calib_hi ny cy -> calib_lo nx cx <= x < calib_hi nx cx ->
      mask (fst (fst (poisson_run nx ny max_attempts RX RY fuel cy cx s))) y x = 1.
Proof. exact @poisson_calib_sampled. Qed.
Print Assumptions C18_calibration_block_sampled.

(* only writes of 1: an entry that is 1 in some state is 1 in every later state *)
Theorem C18_ones_are_never_erased :
  forall (T : POps) nx ny max_attempts (RX RY : Z -> Z -> T) (fuel : nat) (st : pstate) (s : list (draw T)) y x,
    mask st y x = 1 -> mask (fst (fst (run nx ny max_attempts RX RY fuel st s))) y x = 1.
Proof. exact @run_mono. Qed.
Print Assumptions C18_ones_are_never_erased.

(* points are only added at in-range integer positions: every 1 of the mask and every active point
   (pxs[k], pys[k]), k < num_actives, is a grid position; num_actives never exceeds the array length *)
Theorem C18_points_in_range :
  forall (T : POps) nx ny max_attempts (RX RY : Z -> Z -> T), trunc_law T ->
  forall (fuel : nat) cy cx (s : list (draw T)),
    0 < nx -> 0 < ny -> 0 <= cy <= ny -> 0 <= cx <= nx ->
    let st := fst (fst (poisson_run nx ny max_attempts RX RY fuel cy cx s)) in
    (forall y x, mask st y x = 1 -> 0 <= y < ny /\ 0 <= x < nx) /\
    0 <= na st <= nx * ny /\
    (forall k, 0 <= k < na st -> 0 <= pxs st k < nx /\ 0 <= pys st k < ny).
Proof. exact @poisson_points_in_range. Qed.
Print Assumptions C18_points_in_range.

(* when the model reports Finished the loop guard  nx*ny > num_actives > 0  is false *)
Theorem C18_finished_means_guard_false :
  forall (T : POps) nx ny max_attempts (RX RY : Z -> Z -> T) (fuel : nat) st (s : list (draw T)) st' s',
    run nx ny max_attempts RX RY fuel st s = (st', s', Finished) -> running nx ny st' = false.
Proof. exact @run_finished. Qed.
Print Assumptions C18_finished_means_guard_false.

(* crop_corner: mask *= (r < 1) is 0 wherever r >= 1 *)
Theorem C18_crop_zero_outside :
  forall (ind : Z -> Z -> bool) (m : Z -> Z -> Z) y x, ind y x = false -> crop ind m y x = 0.
Proof. exact crop_zero_outside. Qed.
Print Assumptions C18_crop_zero_outside.

(* poisson returns normally only if |actual_accel - accel| < tol, and what it returns was evaluated *)
Theorem C18_returns_only_within_tol :
  forall (G Res : Type) (gltb geqb : G -> G -> bool) (mid : G -> G -> G) (eval : nat -> G -> Res)
         (close below : Res -> bool) (fuel : nat) (lo hi : G) (r : Res),
    search G Res gltb geqb mid eval close below fuel lo hi = Returned r ->
    close r = true /\ exists j s, r = eval j s.
Proof. exact search_returns_only_within_tol. Qed.
Print Assumptions C18_returns_only_within_tol.

(* ... and raises ValueError only if some evaluated mask missed the tolerance *)
Theorem C18_raises_only_outside_tol :
  forall (G Res : Type) (gltb geqb : G -> G -> bool) (mid : G -> G -> G) (eval : nat -> G -> Res)
         (close below : Res -> bool) (fuel : nat) (lo hi : G),
    search G Res gltb geqb mid eval close below fuel lo hi = Raised -> exists j s, close (eval j s) = false.
Proof. exact search_raises_when_not_within_tol. Qed.
Print Assumptions C18_raises_only_outside_tol.

(* the measure: every iteration that does not leave through the new exit strictly shrinks the
   interval (in the order of the grid), whichever end is replaced *)
Theorem C18_interval_strictly_shrinks :
  forall (G : Type) (rank : G -> Z) (gltb geqb : G -> G -> bool) (mid : G -> G -> G),
    (forall a b, gltb a b = (rank a <? rank b)) -> (forall a b, geqb a b = (rank a =? rank b)) ->
    (forall lo hi, rank lo < rank hi -> rank lo <= rank (mid lo hi) <= rank hi) ->
    forall lo hi, gltb lo hi = true -> geqb (mid lo hi) lo || geqb (mid lo hi) hi = false ->
      0 <= rank hi - rank (mid lo hi) < rank hi - rank lo /\
      0 <= rank (mid lo hi) - rank lo < rank hi - rank lo.
Proof. exact interval_shrinks. Qed.
Print Assumptions C18_interval_strictly_shrinks.

(* hence the search terminates: fuel equal to the initial rank gap is never exhausted *)
Theorem C18_search_terminates :
  forall (G Res : Type) (rank : G -> Z) (gltb geqb : G -> G -> bool) (mid : G -> G -> G)
         (eval : nat -> G -> Res) (close below : Res -> bool),
    (forall a b, gltb a b = (rank a <? rank b)) -> (forall a b, geqb a b = (rank a =? rank b)) ->
    (forall lo hi, rank lo < rank hi -> rank lo <= rank (mid lo hi) <= rank hi) ->
    forall (fuel : nat) (lo hi : G), (Z.to_nat (rank hi - rank lo) <= fuel)%nat ->
      search G Res gltb geqb mid eval close below fuel lo hi <> SearchFuel.
Proof. exact search_terminates. Qed.
Print Assumptions C18_search_terminates.

(* the first midpoint n/2 of [0, n] is strictly inside: actual_accel is bound at the final test *)
Theorem C18_search_evaluates_once :
  forall (G Res : Type) (rank : G -> Z) (gltb geqb : G -> G -> bool) (mid : G -> G -> G)
         (eval : nat -> G -> Res) (close below : Res -> bool),
    (forall a b, gltb a b = (rank a <? rank b)) -> (forall a b, geqb a b = (rank a =? rank b)) ->
    forall (fuel : nat) (lo hi : G), rank lo < rank (mid lo hi) < rank hi ->
      search G Res gltb geqb mid eval close below (S fuel) lo hi <> Unbound.
Proof. exact search_evaluates. Qed.
Print Assumptions C18_search_evaluates_once.

(* composition: what poisson() returns *)
Theorem C18_poisson_returns_spec :
  forall (T : POps) nx ny max_attempts cy cx
         (radii : T -> (Z -> Z -> T) * (Z -> Z -> T)) (streams : nat -> list (draw T)) (ind : Z -> Z -> bool)
         (fuel_k : nat) (accel tol : T) (pabs : T -> T) (geqb : T -> T -> bool) (mid : T -> T -> T),
    trunc_law T ->
    forall (fuel : nat) (m : Z -> Z -> Z) (a : T),
      0 < nx -> 0 < ny -> 0 <= cy <= ny -> 0 <= cx <= nx ->
      poisson nx ny max_attempts cy cx radii streams ind fuel_k accel tol pabs geqb mid fuel = Returned (m, a) ->
      pltb (pabs (psub a accel)) tol = true /\
      a = accel_of nx ny m /\
      (forall y x, m y x = 0 \/ m y x = 1) /\
      (forall y x, m y x = 1 -> 0 <= y < ny /\ 0 <= x < nx) /\
      (forall y x, calib_lo ny cy <= y < calib_hi ny cy -> calib_lo nx cx <= x < calib_hi nx cx ->
                   ind y x = true -> m y x = 1) /\
      (forall y x, ind y x = false -> m y x = 0).
Proof. exact @poisson_returns_spec. Qed.
Print Assumptions C18_poisson_returns_spec.

(* the hypotheses are satisfiable: the reals satisfy the truncation law, the integers are a grid *)
Example C18_trunc_law_reals : trunc_law RP.
Proof. exact RP_trunc_in_range. Qed.
Print Assumptions C18_trunc_law_reals.

Example C18_grid_integers :
  let rank := fun z : Z => z in
  (forall a b : Z, Z.ltb a b = Z.ltb (rank a) (rank b)) /\ (forall a b : Z, Z.eqb a b = Z.eqb (rank a) (rank b)) /\
  (forall lo hi : Z, rank lo < rank hi -> rank lo <= rank (zmid lo hi) <= rank hi).
Proof. exact (conj (fun a b => eq_refl) (conj (fun a b => eq_refl) zmid_between)). Qed.
Print Assumptions C18_grid_integers.
