(* Prop_C16 — SENSE operator = explicit multi-coil encoding; coil batching is invisible. *)
From Coq Require Import ZArith List Bool.
From SV Require Import lib.Scalar lib.BigSum lib.NdArray model.Sense proofs.Sense.
Import ListNotations.
Local Open Scope Z_scope.

(* forward: for every batch size b >= 1 the batch-by-batch evaluation on sliced maps equals the explicit
   encoding  y[c,k] = sqrt(w)[k] * F(maps[c] .* x)[k], for every coil and k-space index, any Fourier encoding F *)
Theorem C16_batched_forward_equals_explicit :
  forall (R : StarRing) (F : (list Z -> R) -> list Z -> R) (maps sqw : list Z -> R) b x c k,
    0 < b -> sense_batched R F maps sqw b x (c :: k) = sense_explicit R F maps sqw x (c :: k).
Proof. exact sense_batch_forward. Qed.
Print Assumptions C16_batched_forward_equals_explicit.

(* adjoint: summing the per-coil adjoint terms batch by batch (last batch partial) gives the same image *)
Theorem C16_batched_adjoint_equals_explicit :
  forall (R : StarRing) (maps sqw : list Z -> R) (FH : (list Z -> R) -> list Z -> R) nc b y r,
    0 < b -> 0 <= nc ->
    sumZ nc (fun c => sense_adj_term R maps sqw FH y c r) =
    sumZ ((nc + b - 1) / b) (fun j => sumZ b (fun t =>
      if (j * b + t <? nc) then sense_adj_term R maps sqw FH y (j * b + t) r else zero)).
Proof. exact sense_batch_adjoint. Qed.
Print Assumptions C16_batched_adjoint_equals_explicit.

(* the data-consistency term of the recon objectives: ||sqrt(w) .* r||^2 = sum w |r|^2 *)
Theorem C16_weighted_least_squares :
  forall (R : StarRing) s (w sw r : list Z -> R),
    (forall k, mul (sw k) (sw k) = w k) -> (forall k, conj (sw k) = sw k) ->
    inner s (fun k => mul (sw k) (r k)) (fun k => mul (sw k) (r k)) = sumB s (fun k => mul (w k) (mul (r k) (conj (r k)))).
Proof. exact weighted_norm. Qed.
Print Assumptions C16_weighted_least_squares.

(* any finite sum splits into chunks of size b (the engine of the adjoint statement) *)
Theorem C16_sum_in_batches :
  forall (R : StarRing) n b (f : Z -> R), 0 < b -> 0 <= n ->
    sumZ n f = sumZ ((n + b - 1) / b) (fun j => sumZ b (fun t => if (j * b + t <? n) then f (j * b + t) else zero)).
Proof. exact sumZ_chunks. Qed.
Print Assumptions C16_sum_in_batches.
