(* Prop_C10 — the orthogonal wavelet transform is norm-preserving and perfectly invertible.
   Only statements; every proof is `exact <lemma>`.  Print Assumptions below each.

   Model (model/Wavelet.v): fwt x = W (resize x -> zshape), iwt c = resize (Wr c) -> oshape, with
   zshape = [((i+1)/2)*2] on every axis; (W, Wr) is PyWavelets' wavedecn/waverecn pair in mode='zero'
   (what sigpy uses) packed by coeffs_to_array — an ORACLE, constrained only by the hypotheses written
   out in each theorem, for the padded shape zsh = zshape osh and coefficient shape csh = cshape_of zsh:
     reconstructs : forall z,   Wr (W z) = z on the padded box
     isometry     : forall a b, <W a, W b> = <a, b>
     adjoint      : forall a c, <W a, c> = <a, Wr c>       (c ANY array on the coefficient box)
   R is any commutative *-ring, <x, y> = sum_box x_i * conj y_i (lib/BigSum.inner). *)
From Coq Require Import ZArith List Bool.
From SV Require Import lib.Scalar lib.BigSum lib.NdArray lib.Gather model.Rearrange model.Wavelet
  proofs.FourierND proofs.Wavelet.
Import ListNotations.
Local Open Scope Z_scope.

(* crop . pad = id: resizing back down after the centred even zero-padding returns the array,
   for every shape (odd and even lengths, any rank) *)
Theorem C10_resize_back_after_resize_up : forall (R : StarRing) (osh : list Z),
  Forall (fun n => 0 < n) osh -> forall x : list Z -> R,
    eqbox osh (resize (zshape osh) osh None None (resize osh (zshape osh) None None x)) x.
Proof. exact resize_down_up. Qed.
Print Assumptions C10_resize_back_after_resize_up.

(* [core] iwt (fwt x) = x on the box of the original shape *)
Theorem C10_iwt_fwt : forall (R : StarRing) (osh : list Z), Forall (fun n => 0 < n) osh ->
  forall (cshape_of : list Z -> list Z) (W Wr : list Z -> (list Z -> R) -> list Z -> R) (x : list Z -> R),
    (forall z : list Z -> R, eqbox (zshape osh) (Wr (zshape osh) (W (zshape osh) z)) z) ->
    fst (iwt Wr (zshape osh) osh (snd (fwt cshape_of W osh x))) = osh /\
    eqbox osh (snd (iwt Wr (zshape osh) osh (snd (fwt cshape_of W osh x)))) x.
Proof. exact iwt_fwt. Qed.
Print Assumptions C10_iwt_fwt.

(* ||fwt x|| = ||x|| (and every inner product is preserved) *)
Theorem C10_fwt_norm : forall (R : StarRing) (osh : list Z), Forall (fun n => 0 < n) osh ->
  forall (cshape_of : list Z -> list Z) (W : list Z -> (list Z -> R) -> list Z -> R) (x : list Z -> R),
    (forall a b : list Z -> R,
        inner (cshape_of (zshape osh)) (W (zshape osh) a) (W (zshape osh) b) = inner (zshape osh) a b) ->
    inner (cshape_of (zshape osh)) (snd (fwt cshape_of W osh x)) (snd (fwt cshape_of W osh x)) = inner osh x x.
Proof. exact fwt_norm. Qed.
Print Assumptions C10_fwt_norm.

Theorem C10_fwt_inner : forall (R : StarRing) (osh : list Z), Forall (fun n => 0 < n) osh ->
  forall (cshape_of : list Z -> list Z) (W : list Z -> (list Z -> R) -> list Z -> R) (x y : list Z -> R),
    (forall a b : list Z -> R,
        inner (cshape_of (zshape osh)) (W (zshape osh) a) (W (zshape osh) b) = inner (zshape osh) a b) ->
    inner (cshape_of (zshape osh)) (snd (fwt cshape_of W osh x)) (snd (fwt cshape_of W osh y)) = inner osh x y.
Proof. exact fwt_inner. Qed.
Print Assumptions C10_fwt_inner.

(* iwt is the adjoint of fwt (so linop.Wavelet.H = InverseWavelet is right) *)
Theorem C10_iwt_is_adjoint : forall (R : StarRing) (osh : list Z), Forall (fun n => 0 < n) osh ->
  forall (cshape_of : list Z -> list Z) (W Wr : list Z -> (list Z -> R) -> list Z -> R) (x c : list Z -> R),
    (forall a c' : list Z -> R,
        inner (cshape_of (zshape osh)) (W (zshape osh) a) c' = inner (zshape osh) a (Wr (zshape osh) c')) ->
    inner (cshape_of (zshape osh)) (snd (fwt cshape_of W osh x)) c = inner osh x (snd (iwt Wr (zshape osh) osh c)).
Proof. exact iwt_is_adjoint. Qed.
Print Assumptions C10_iwt_is_adjoint.

(* the isometry hypothesis is implied by the other two *)
Theorem C10_isometry_from_adjoint : forall (R : StarRing) (osh : list Z) (cshape_of : list Z -> list Z)
    (W Wr : list Z -> (list Z -> R) -> list Z -> R),
  (forall z : list Z -> R, eqbox (zshape osh) (Wr (zshape osh) (W (zshape osh) z)) z) ->
  (forall a c : list Z -> R,
      inner (cshape_of (zshape osh)) (W (zshape osh) a) c = inner (zshape osh) a (Wr (zshape osh) c)) ->
  forall a b : list Z -> R,
    inner (cshape_of (zshape osh)) (W (zshape osh) a) (W (zshape osh) b) = inner (zshape osh) a b.
Proof. exact isometry_from_adjoint. Qed.
Print Assumptions C10_isometry_from_adjoint.

(* the advertised coefficient shape (get_wavelet_shape, linop.Wavelet.oshape) is, by construction,
   the shape of W on the padded shape *)
Theorem C10_wavelet_shape : forall (R : StarRing) (osh : list Z) (cshape_of : list Z -> list Z)
    (W : list Z -> (list Z -> R) -> list Z -> R) (x : list Z -> R),
  fst (fwt cshape_of W osh x) = wavelet_shape cshape_of osh /\ wavelet_shape cshape_of osh = cshape_of (zshape osh).
Proof. exact wavelet_shape_full. Qed.
Print Assumptions C10_wavelet_shape.

(* non-vacuity: the hypotheses are satisfiable (W = Wr = identity, csh = zsh), and on an odd shape
   the model's round trip through the padded shape [4;2] returns the labelled array *)
Example C10_hypotheses_satisfiable : forall (R : StarRing) (osh : list Z),
  let W := fun (_ : list Z) (z : list Z -> R) => z in
  (forall z : list Z -> R, eqbox (zshape osh) (W (zshape osh) (W (zshape osh) z)) z) /\
  (forall a c : list Z -> R, inner (zshape osh) (W (zshape osh) a) c = inner (zshape osh) a (W (zshape osh) c)).
Proof. intros R osh W. split; intros; [intros idx _; reflexivity | reflexivity]. Qed.

Example C10_round_trip_odd :
  zshape [3; 1] = [4; 2] /\
  tabulate [3; 1] (snd (iwt (R:=ZOps) (fun _ z => z) [4; 2] [3; 1]
                        (snd (fwt (R:=ZOps) (fun s => s) (fun _ z => z) [3; 1] (of_list 0 [3; 1] [7; 8; 9])))))
  = [7; 8; 9].
Proof. vm_compute. split; reflexivity. Qed.
