(* Prop_C10 — orthogonal wavelet transform (statements only). *)
From Coq Require Import ZArith List Bool.
From SV Require Import lib.Scalar lib.BigSum lib.NdArray model.Rearrange model.Wavelet.
Import ListNotations.
Local Open Scope Z_scope.

Theorem C10_wavelet_shape : forall (R : Ops) cshape_of W ishape (x : list Z -> R),
  fst (fwt cshape_of W ishape x) = wavelet_shape cshape_of ishape.
Proof. reflexivity. Qed.
Print Assumptions C10_wavelet_shape.
