(* Prop_C09 — Resize/shift/resample/block functions move exactly the documented elements.
   Only statements; every proof is `exact <lemma>`.  Print Assumptions below each. *)
From Coq Require Import ZArith List Bool.
From SV Require Import lib.Scalar lib.BigSum lib.LoopIR lib.NdArray lib.Gather
  gen.Gen_block model.Rearrange model.Block proofs.Block proofs.Rearrange proofs.Block2D3D.
Import ListNotations.
Local Open Scope Z_scope.

(* blocks_to_array kernel GENERATED from block.py: overlapping positions accumulate,
   for every batch size, block size B, stride S > 0, block count N, output length. *)
Theorem C09_b2a_overlaps_add :
  forall (R : StarRing) (input : list Z -> R) ish osh batch B S N Nout (out : list Z -> R) b i,
    0 < S -> shape_at osh (-1) = Nout -> 0 <= b < batch -> 0 <= i < Nout ->
    exec (k_blocks_to_array1 R input ish osh batch B S N) [] out [b; i] =
    add (out [b; i]) (sumZ N (fun n => sumZ B (fun bx => if (n * S + bx =? i) then input [b; n; bx] else zero))).
Proof. exact b2a1_exec. Qed.
Print Assumptions C09_b2a_overlaps_add.

(* ... and positions outside the output box are never written (so uncovered positions stay zero) *)
Theorem C09_b2a_frame :
  forall (R : StarRing) (input : list Z -> R) ish osh batch B S N (out : list Z -> R) o,
    0 < S -> (forall b i, 0 <= b < batch -> 0 <= i < shape_at osh (-1) -> o <> [b; i]) ->
    exec (k_blocks_to_array1 R input ish osh batch B S N) [] out o = out o.
Proof. exact b2a1_frame. Qed.
Print Assumptions C09_b2a_frame.

(* array_to_blocks kernel GENERATED from block.py: block n is the window starting at n*S *)
Theorem C09_a2b_window :
  forall (R : Ops) (input : list Z -> R) ish osh batch B S N Nin (out : list Z -> R) b n bx,
    shape_at ish (-1) = Nin -> 0 <= b < batch -> 0 <= n < N -> 0 <= bx < B ->
    exec (k_array_to_blocks1 R input ish osh batch B S N) [] out [b; n; bx] =
    if (n * S + bx <? Nin) then input [b; n * S + bx] else out [b; n; bx].
Proof. exact a2b1_exec. Qed.
Print Assumptions C09_a2b_window.

(* with the advertised block count (Nin - B + S) / S the window never leaves the array *)
Theorem C09_a2b_num_blks_in_bounds :
  forall Nin B S n bx, 0 < S -> 0 <= n < (Nin - B + S) / S -> 0 <= bx < B -> n * S + bx < Nin.
Proof. exact a2b_in_bounds. Qed.
Print Assumptions C09_a2b_num_blks_in_bounds.

(* resize with default shifts: index i//2 of the input is aligned with index o//2 of the output,
   everything whose aligned source is inside the input is copied, everything else is zero;
   one statement for pad, crop, odd and even lengths *)
Theorem C09_resize_centre_aligned :
  forall i o k, 0 < i -> 0 < o -> 0 <= k < o ->
    resize_ax i o (Z.max (i / 2 - o / 2) 0) (Z.max (o / 2 - i / 2) 0) k =
    if (0 <=? k - o / 2 + i / 2) && (k - o / 2 + i / 2 <? i) then Some (k - o / 2 + i / 2) else None.
Proof. exact resize_default_window. Qed.
Print Assumptions C09_resize_centre_aligned.

(* resize(ishift, oshift) and resize with the shifts swapped are exact adjoints, any rank *)
Theorem C09_resize_shift_pair_adjoint :
  forall (R : StarRing) i1 o1 si so,
    length i1 = length o1 -> length si = length i1 -> length so = length i1 ->
    Forall (fun v => 0 <= v) si -> Forall (fun v => 0 <= v) so ->
    forall x y : list Z -> R,
      inner o1 (gatherN (zip4 resize_ax i1 o1 si so) x) y = inner i1 x (gatherN (zip4 resize_ax o1 i1 so si) y).
Proof. exact resize_gather_adjoint. Qed.
Print Assumptions C09_resize_shift_pair_adjoint.

(* downsample takes every f-th element from the shift; upsample is its inverse partial map *)
Theorem C09_down_up_inverse_maps :
  forall n f s, 0 < f -> 0 <= s ->
    ax_pbij n ((n - s + f - 1) / f) (fun k => Some (s + f * k))
            (fun k => if (s <=? k) && ((k - s) mod f =? 0) then Some ((k - s) / f) else None).
Proof. exact down_up_ax_pbij. Qed.
Print Assumptions C09_down_up_inverse_maps.

Theorem C09_roll_is_permutation :
  forall n s, 0 < n -> ax_pbij n n (fun k => Some ((k - s) mod n)) (fun k => Some ((k + s) mod n)).
Proof. exact roll_ax_pbij. Qed.
Print Assumptions C09_roll_is_permutation.

Theorem C09_flip_is_involution :
  forall n, ax_pbij n n (fun k => Some (n - 1 - k)) (fun k => Some (n - 1 - k)).
Proof. exact flip_ax_pbij. Qed.
Print Assumptions C09_flip_is_involution.

(* non-vacuity: the generated kernel on a concrete overlapping configuration (N_out 7, B 3, S 2) *)
Example C09_b2a_example :
  tabulate [1; 7] (exec (k_blocks_to_array1 ZOps (of_list 0 [1; 3; 3] [1; 2; 3; 100; 200; 300; 10000; 20000; 30000])
                          [1; 3; 3] [1; 7] 1 3 2 3) [] (fun _ => 0))
  = [1; 2; 103; 200; 10300; 20000; 30000].
Proof. vm_compute. reflexivity. Qed.

(* ---- 2-D and 3-D kernels (proofs/Block2D3D.v) ---- *)


Theorem C09_b2a2_overlaps_add :
  forall (R : StarRing) (input : list Z -> R) ish osh batch Bx By Sx Sy Nx Ny Nyo Nxo (out : list Z -> R) b iy ix,
    0 < Sx -> 0 < Sy -> shape_at osh (-2) = Nyo -> shape_at osh (-1) = Nxo ->
    0 <= b < batch -> 0 <= iy < Nyo -> 0 <= ix < Nxo ->
    exec (k_blocks_to_array2 R input ish osh batch Bx By Sx Sy Nx Ny) [] out [b; iy; ix] =
    add (out [b; iy; ix])
        (sumZ Ny (fun ny => sumZ Nx (fun nx => sumZ By (fun by_ => sumZ Bx (fun bx =>
           if (ny * Sy + by_ =? iy) && (nx * Sx + bx =? ix) then input [b; ny; nx; by_; bx] else zero))))).
Proof. exact b2a2_exec. Qed.

Theorem C09_b2a2_frame :
  forall (R : StarRing) (input : list Z -> R) ish osh batch Bx By Sx Sy Nx Ny (out : list Z -> R) o,
    (forall b iy ix, 0 <= b < batch -> 0 <= iy < shape_at osh (-2) -> 0 <= ix < shape_at osh (-1) -> o <> [b; iy; ix]) ->
    exec (k_blocks_to_array2 R input ish osh batch Bx By Sx Sy Nx Ny) [] out o = out o.
Proof. exact b2a2_frame. Qed.

Theorem C09_b2a3_overlaps_add :
  forall (R : StarRing) (input : list Z -> R) ish osh batch Bx By Bz Sx Sy Sz Nx Ny Nz Nzo Nyo Nxo (out : list Z -> R) b iz iy ix,
    0 < Sx -> 0 < Sy -> 0 < Sz ->
    shape_at osh (-3) = Nzo -> shape_at osh (-2) = Nyo -> shape_at osh (-1) = Nxo ->
    0 <= b < batch -> 0 <= iz < Nzo -> 0 <= iy < Nyo -> 0 <= ix < Nxo ->
    exec (k_blocks_to_array3 R input ish osh batch Bx By Bz Sx Sy Sz Nx Ny Nz) [] out [b; iz; iy; ix] =
    add (out [b; iz; iy; ix])
        (sumZ Nz (fun nz => sumZ Ny (fun ny => sumZ Nx (fun nx =>
           sumZ Bz (fun bz => sumZ By (fun by_ => sumZ Bx (fun bx =>
             if (nz * Sz + bz =? iz) && (ny * Sy + by_ =? iy) && (nx * Sx + bx =? ix)
             then input [b; nz; ny; nx; bz; by_; bx] else zero))))))).
Proof. exact b2a3_exec. Qed.

Theorem C09_b2a3_frame :
  forall (R : StarRing) (input : list Z -> R) ish osh batch Bx By Bz Sx Sy Sz Nx Ny Nz (out : list Z -> R) o,
    (forall b iz iy ix, 0 <= b < batch -> 0 <= iz < shape_at osh (-3) -> 0 <= iy < shape_at osh (-2) ->
                        0 <= ix < shape_at osh (-1) -> o <> [b; iz; iy; ix]) ->
    exec (k_blocks_to_array3 R input ish osh batch Bx By Bz Sx Sy Sz Nx Ny Nz) [] out o = out o.
Proof. exact b2a3_frame. Qed.

Theorem C09_a2b2_window :
  forall (R : Ops) (input : list Z -> R) ish osh batch Bx By Sx Sy Nx Ny Nyi Nxi (out : list Z -> R) b ny nx by_ bx,
    shape_at ish (-2) = Nyi -> shape_at ish (-1) = Nxi ->
    0 <= b < batch -> 0 <= ny < Ny -> 0 <= nx < Nx -> 0 <= by_ < By -> 0 <= bx < Bx ->
    exec (k_array_to_blocks2 R input ish osh batch Bx By Sx Sy Nx Ny) [] out [b; ny; nx; by_; bx] =
    if (nx * Sx + bx <? Nxi) && (ny * Sy + by_ <? Nyi)
    then input [b; ny * Sy + by_; nx * Sx + bx] else out [b; ny; nx; by_; bx].
Proof. exact a2b2_exec. Qed.

Theorem C09_a2b3_window :
  forall (R : Ops) (input : list Z -> R) ish osh batch Bx By Bz Sx Sy Sz Nx Ny Nz Nzi Nyi Nxi (out : list Z -> R)
         b nz ny nx bz by_ bx,
    shape_at ish (-3) = Nzi -> shape_at ish (-2) = Nyi -> shape_at ish (-1) = Nxi ->
    0 <= b < batch -> 0 <= nz < Nz -> 0 <= ny < Ny -> 0 <= nx < Nx -> 0 <= bz < Bz -> 0 <= by_ < By -> 0 <= bx < Bx ->
    exec (k_array_to_blocks3 R input ish osh batch Bx By Bz Sx Sy Sz Nx Ny Nz) [] out [b; nz; ny; nx; bz; by_; bx] =
    if (nx * Sx + bx <? Nxi) && (ny * Sy + by_ <? Nyi) && (nz * Sz + bz <? Nzi)
    then input [b; nz * Sz + bz; ny * Sy + by_; nx * Sx + bx] else out [b; nz; ny; nx; bz; by_; bx].
Proof. exact a2b3_exec. Qed.

Theorem C09_a2b2_frame :
  forall (R : Ops) (input : list Z -> R) ish osh batch Bx By Sx Sy Nx Ny (out : list Z -> R) o,
    (forall b ny nx by_ bx, 0 <= b < batch -> 0 <= ny < Ny -> 0 <= nx < Nx -> 0 <= by_ < By -> 0 <= bx < Bx ->
                            o <> [b; ny; nx; by_; bx]) ->
    exec (k_array_to_blocks2 R input ish osh batch Bx By Sx Sy Nx Ny) [] out o = out o.
Proof. exact a2b2_frame. Qed.

Theorem C09_a2b3_frame :
  forall (R : Ops) (input : list Z -> R) ish osh batch Bx By Bz Sx Sy Sz Nx Ny Nz (out : list Z -> R) o,
    (forall b nz ny nx bz by_ bx, 0 <= b < batch -> 0 <= nz < Nz -> 0 <= ny < Ny -> 0 <= nx < Nx ->
                            0 <= bz < Bz -> 0 <= by_ < By -> 0 <= bx < Bx -> o <> [b; nz; ny; nx; bz; by_; bx]) ->
    exec (k_array_to_blocks3 R input ish osh batch Bx By Bz Sx Sy Sz Nx Ny Nz) [] out o = out o.
Proof. exact a2b3_frame. Qed.

Theorem C09_a2b2_num_blks_exact :
  forall (R : Ops) (input : list Z -> R) ish osh batch Bx By Sx Sy Nyi Nxi (out : list Z -> R) b ny nx by_ bx,
    0 < Sx -> 0 < Sy -> shape_at ish (-2) = Nyi -> shape_at ish (-1) = Nxi ->
    0 <= b < batch -> 0 <= ny < (Nyi - By + Sy) / Sy -> 0 <= nx < (Nxi - Bx + Sx) / Sx -> 0 <= by_ < By -> 0 <= bx < Bx ->
    exec (k_array_to_blocks2 R input ish osh batch Bx By Sx Sy ((Nxi - Bx + Sx) / Sx) ((Nyi - By + Sy) / Sy)) [] out
         [b; ny; nx; by_; bx] = input [b; ny * Sy + by_; nx * Sx + bx].
Proof. exact a2b2_exec_num_blks. Qed.

Theorem C09_a2b3_num_blks_exact :
  forall (R : Ops) (input : list Z -> R) ish osh batch Bx By Bz Sx Sy Sz Nzi Nyi Nxi (out : list Z -> R) b nz ny nx bz by_ bx,
    0 < Sx -> 0 < Sy -> 0 < Sz -> shape_at ish (-3) = Nzi -> shape_at ish (-2) = Nyi -> shape_at ish (-1) = Nxi ->
    0 <= b < batch -> 0 <= nz < (Nzi - Bz + Sz) / Sz -> 0 <= ny < (Nyi - By + Sy) / Sy -> 0 <= nx < (Nxi - Bx + Sx) / Sx ->
    0 <= bz < Bz -> 0 <= by_ < By -> 0 <= bx < Bx ->
    exec (k_array_to_blocks3 R input ish osh batch Bx By Bz Sx Sy Sz
            ((Nxi - Bx + Sx) / Sx) ((Nyi - By + Sy) / Sy) ((Nzi - Bz + Sz) / Sz)) [] out
         [b; nz; ny; nx; bz; by_; bx] = input [b; nz * Sz + bz; ny * Sy + by_; nx * Sx + bx].
Proof. exact a2b3_exec_num_blks. Qed.

Theorem C09_a2b2_is_documented_closed_form :
  forall (R : Ops) (input : list Z -> R) osh batch Bx By Sx Sy Nx Ny Nyi Nxi b ny nx by_ bx,
    0 <= Sx -> 0 <= Sy -> 0 <= b < batch -> 0 <= ny < Ny -> 0 <= nx < Nx -> 0 <= by_ < By -> 0 <= bx < Bx ->
    exec (k_array_to_blocks2 R input [batch; Nyi; Nxi] osh batch Bx By Sx Sy Nx Ny) [] (fun _ => zero) [b; ny; nx; by_; bx] =
    a2b_spec [batch; Nyi; Nxi] [By; Bx] [Sy; Sx] input [b; ny; nx; by_; bx].
Proof. exact a2b2_matches_spec. Qed.

Theorem C09_a2b3_is_documented_closed_form :
  forall (R : Ops) (input : list Z -> R) osh batch Bx By Bz Sx Sy Sz Nx Ny Nz Nzi Nyi Nxi b nz ny nx bz by_ bx,
    0 <= Sx -> 0 <= Sy -> 0 <= Sz -> 0 <= b < batch -> 0 <= nz < Nz -> 0 <= ny < Ny -> 0 <= nx < Nx ->
    0 <= bz < Bz -> 0 <= by_ < By -> 0 <= bx < Bx ->
    exec (k_array_to_blocks3 R input [batch; Nzi; Nyi; Nxi] osh batch Bx By Bz Sx Sy Sz Nx Ny Nz) [] (fun _ => zero)
         [b; nz; ny; nx; bz; by_; bx] =
    a2b_spec [batch; Nzi; Nyi; Nxi] [Bz; By; Bx] [Sz; Sy; Sx] input [b; nz; ny; nx; bz; by_; bx].
Proof. exact a2b3_matches_spec. Qed.

Theorem C09_b2a2_is_documented_closed_form :
  forall (R : StarRing) (input : list Z -> R) ish batch Bx By Sx Sy Nx Ny Nyo Nxo b iy ix,
    0 < Sx -> 0 < Sy -> 0 <= b < batch -> 0 <= iy < Nyo -> 0 <= ix < Nxo ->
    exec (k_blocks_to_array2 R input ish [batch; Nyo; Nxo] batch Bx By Sx Sy Nx Ny) [] (fun _ => zero) [b; iy; ix] =
    b2a_spec [Ny; Nx] [batch; Nyo; Nxo] [By; Bx] [Sy; Sx] input [b; iy; ix].
Proof. exact b2a2_matches_spec. Qed.

Theorem C09_b2a3_is_documented_closed_form :
  forall (R : StarRing) (input : list Z -> R) ish batch Bx By Bz Sx Sy Sz Nx Ny Nz Nzo Nyo Nxo b iz iy ix,
    0 < Sx -> 0 < Sy -> 0 < Sz -> 0 <= b < batch -> 0 <= iz < Nzo -> 0 <= iy < Nyo -> 0 <= ix < Nxo ->
    exec (k_blocks_to_array3 R input ish [batch; Nzo; Nyo; Nxo] batch Bx By Bz Sx Sy Sz Nx Ny Nz) [] (fun _ => zero)
         [b; iz; iy; ix] =
    b2a_spec [Nz; Ny; Nx] [batch; Nzo; Nyo; Nxo] [Bz; By; Bx] [Sz; Sy; Sx] input [b; iz; iy; ix].
Proof. exact b2a3_matches_spec. Qed.
Print Assumptions C09_b2a3_is_documented_closed_form.
