(* Prop_C11 — every proximal operator returns the exact minimiser, in the input's shape.
   Only statements; every proof is `exact <lemma>`.  Print Assumptions below each.

   Vocabulary (proofs/ProxBase.v):
     RR            Coq's R as the scalar record of model/Prox.v;  El : Elem RR the element type,
                   LW : ElemLaws El its real inner-product structure.  Instances: RRe/RealLaws (real arrays,
                   <a,b> = a*b) and RCx/CplxLaws (complex arrays as pairs, <a,b> = Re(conj a * b)).
     fn l          the list l (a model output / input) as a function nat -> El
     dotn LW n x y = sum_{i<n} <x i, y i>            norm1 n x = sum_{i<n} |x i|
     prox_at LW n dom ag y p :=  dom p /\ forall z, dom z -> ag p + <y-p, z-p> <= ag z
                   (p is the proximal point at y of the function equal to ag (= alpha*g) on dom, +oo outside)
     proj_at LW n S y p       :=  S p /\ forall z, S z -> <y-p, z-p> <= 0
   C11_prox_is_THE_minimiser turns prox_at into "strict minimiser with quadratic growth", so every
   prox_at / proj_at statement below is a statement about THE minimiser of 1/2||x-y||^2 + alpha g(x). *)
From Coq Require Import Reals List Bool ZArith.
From SV Require Import model.Prox proofs.ProxBase proofs.ProxThresh proofs.ProxComb proofs.ProxL1 proofs.ProxPsd proofs.ProxMain proofs.ProxPsd2.
Import ListNotations.
Local Open Scope R_scope.

(* ------------------------------------------------------------------ the characterisation *)
Theorem C11_prox_is_THE_minimiser :
  forall (El : Elem RR) (LW : ElemLaws El) n (dom : (nat -> El) -> Prop) (ag : (nat -> El) -> R) (y p : nat -> El),
    prox_at LW n dom ag y p ->
    forall z, dom z ->
      1/2 * dotn LW n (fsub p y) (fsub p y) + ag p + 1/2 * dotn LW n (fsub z p) (fsub z p)
      <= 1/2 * dotn LW n (fsub z y) (fsub z y) + ag z.
Proof. exact (@prox_minimiser). Qed.
Print Assumptions C11_prox_is_THE_minimiser.

Theorem C11_prox_minimiser_unique :
  forall (El : Elem RR) (LW : ElemLaws El) n (dom : (nat -> El) -> Prop) (ag : (nat -> El) -> R) (y p : nat -> El),
    prox_at LW n dom ag y p ->
    forall z, dom z ->
      1/2 * dotn LW n (fsub z y) (fsub z y) + ag z <= 1/2 * dotn LW n (fsub p y) (fsub p y) + ag p ->
      forall i, (i < n)%nat -> z i = p i.
Proof. exact (@prox_unique). Qed.
Print Assumptions C11_prox_minimiser_unique.

(* ------------------------------------------------------------------ soft threshold *)
(* one real number: the model kernel is THE minimiser of 1/2 (x-y)^2 + lam |x| *)
Theorem C11_soft_thresh_scalar_real :
  forall (lam y x : R), 0 <= lam ->
    let p : R := soft_thresh1 (El:=RRe) lam y in
    1/2 * (p - y) * (p - y) + lam * Rabs p + 1/2 * (x - p) * (x - p) <= 1/2 * (x - y) * (x - y) + lam * Rabs x.
Proof. exact soft_scalar_real. Qed.
Print Assumptions C11_soft_thresh_scalar_real.

(* real arrays of any length: minimiser with quadratic growth, hence unique *)
Theorem C11_soft_thresh_real_minimiser :
  forall lam (y : list R) (z : nat -> R), 0 <= lam ->
    let n := length y in
    let p := fun i => nth i (soft_thresh (El:=RRe) (SS lam) y) 0 in
    1/2 * sumn n (fun i => (p i - nth i y 0) * (p i - nth i y 0)) + lam * sumn n (fun i => Rabs (p i))
      + 1/2 * sumn n (fun i => (z i - p i) * (z i - p i))
    <= 1/2 * sumn n (fun i => (z i - nth i y 0) * (z i - nth i y 0)) + lam * sumn n (fun i => Rabs (z i)).
Proof. exact soft_real_minimiser. Qed.
Print Assumptions C11_soft_thresh_real_minimiser.

Theorem C11_soft_thresh_real_unique :
  forall lam (y : list R) (z : nat -> R), 0 <= lam ->
    let n := length y in
    let p := fun i => nth i (soft_thresh (El:=RRe) (SS lam) y) 0 in
    1/2 * sumn n (fun i => (z i - nth i y 0) * (z i - nth i y 0)) + lam * sumn n (fun i => Rabs (z i))
    <= 1/2 * sumn n (fun i => (p i - nth i y 0) * (p i - nth i y 0)) + lam * sumn n (fun i => Rabs (p i)) ->
    forall i, (i < n)%nat -> z i = p i.
Proof. exact soft_real_unique. Qed.
Print Assumptions C11_soft_thresh_real_unique.

(* complex arrays (pairs): (|y|-lam)_+ y/|y| minimises 1/2 |x-y|^2 + lam |x| entrywise and jointly *)
Theorem C11_soft_thresh_complex_minimiser :
  forall lam (y : list (R * R)) (z : nat -> R * R), 0 <= lam ->
    let n := length y in
    let p := fun i => nth i (soft_thresh (El:=RCx) (SS lam) y) (0, 0) in
    1/2 * sumn n (fun i => cdist2 (p i) (nth i y (0, 0))) + lam * sumn n (fun i => cabs (p i))
      + 1/2 * sumn n (fun i => cdist2 (z i) (p i))
    <= 1/2 * sumn n (fun i => cdist2 (z i) (nth i y (0, 0))) + lam * sumn n (fun i => cabs (z i)).
Proof. exact soft_complex_minimiser. Qed.
Print Assumptions C11_soft_thresh_complex_minimiser.

(* general form: scalar or per-entry thresholds, real or complex elements; output has the input's length *)
Theorem C11_soft_thresh_is_prox :
  forall (El : Elem RR) (LW : ElemLaws El) (lam : sv R) (y : list El),
    (forall i, 0 <= sv_get 0 lam i) ->
    length (@soft_thresh RR El lam y) = length y /\
    prox_at LW (length y) (fun _ => True) (fun x => sumn (length y) (fun i => sv_get 0 lam i * eabs (x i)))
            (fn y) (fn (@soft_thresh RR El lam y)).
Proof. exact (@soft_thresh_prox). Qed.
Print Assumptions C11_soft_thresh_is_prox.

(* ------------------------------------------------------------------ hard threshold, clip *)
Theorem C11_hard_thresh_documented_map :
  forall (El : Elem RR) (lam : sv R) (y : list El),
    length (@hard_thresh RR El lam y) = length y /\
    forall i, (i < length y)%nat ->
      fn (@hard_thresh RR El lam y) i = if Rlt_dec (sv_get 0 lam i) (eabs (fn y i)) then fn y i else e0.
Proof. exact (@hard_thresh_spec). Qed.
Print Assumptions C11_hard_thresh_documented_map.

(* BoxConstraint / np.clip: the projection onto the box [lo, hi] (scalar or array bounds) *)
Theorem C11_clip_is_projection :
  forall (lo hi : sv R) (y : list R),
    (forall i, sv_get 0 lo i <= sv_get 0 hi i) ->
    let p := imap (fun i x => eclip (e:=RRe) x (sv_get 0 lo i) (sv_get 0 hi i)) y in
    length p = length y /\
    proj_at RealLaws (length y) (fun z => forall i, (i < length y)%nat -> sv_get 0 lo i <= z i <= sv_get 0 hi i)
            (fn (El:=RRe) y) (fn (El:=RRe) p).
Proof. exact clip_is_proj. Qed.
Print Assumptions C11_clip_is_projection.

(* ------------------------------------------------------------------ l2 and l-infinity balls *)
(* covers ||y|| < eps (unchanged), ||y|| = eps, ||y|| > eps and y = 0; real and complex *)
Theorem C11_l2_proj_is_projection :
  forall (El : Elem RR) (LW : ElemLaws El) eps (y : list El), 0 < eps ->
    length (@l2_proj RR El eps y) = length y /\
    proj_at LW (length y) (fun z => dotn LW (length y) z z <= eps * eps) (fn y) (fn (@l2_proj RR El eps y)).
Proof. exact (@l2_proj_is_proj). Qed.
Print Assumptions C11_l2_proj_is_projection.

Theorem C11_linf_proj_is_projection :
  forall (El : Elem RR) (LW : ElemLaws El) eps (y : list El), 0 <= eps ->
    length (@linf_proj RR El eps y None) = length y /\
    proj_at LW (length y) (fun z => forall i, (i < length y)%nat -> eabs (z i) <= eps)
            (fn y) (fn (@linf_proj RR El eps y None)).
Proof. exact (@linf_proj_is_proj). Qed.
Print Assumptions C11_linf_proj_is_projection.

Theorem C11_linf_proj_bias_is_projection :
  forall (El : Elem RR) (LW : ElemLaws El) eps (y : list El) (b : sv El), 0 <= eps ->
    length (@linf_proj RR El eps y (Some b)) = length y /\
    proj_at LW (length y) (fun z => forall i, (i < length y)%nat -> eabs (esub (z i) (sv_get e0 b i)) <= eps)
            (fn y) (fn (@linf_proj RR El eps y (Some b))).
Proof. exact (@linf_proj_bias_is_proj). Qed.
Print Assumptions C11_linf_proj_bias_is_projection.

(* the L1Reg node itself: L1Reg(lamda)(alpha, y) = prox of x |-> sum_i alpha_i * lamda * |x_i| (alpha scalar or array) *)
Theorem C11_l1reg_node_is_prox :
  forall (El : Elem RR) (LW : ElemLaws El) s lamda (alpha : sv R) (y : list El),
    (forall i, 0 <= lamda * sv_get 0 alpha i) ->
    exists p, @apply RR El (@L1Reg RR El s lamda) alpha y = Some p /\ length p = length y /\
      prox_at LW (length y) (fun _ => True)
              (fun x => sumn (length y) (fun i => sv_get 0 alpha i * (lamda * eabs (x i)))) (fn y) (fn p).
Proof. exact (@l1reg_model_prox). Qed.
Print Assumptions C11_l1reg_node_is_prox.

(* the L2Proj node with bias b (axes = None): projection onto the ball of radius eps centred at b *)
Theorem C11_l2proj_node_is_projection :
  forall (El : Elem RR) (LW : ElemLaws El) s eps (b : sv El) (alpha : sv R) (y : list El), 0 < eps ->
    exists p, @apply RR El (@L2Proj RR El s eps b None) alpha y = Some p /\ length p = length y /\
      proj_at LW (length y)
        (fun z => dotn LW (length y) (fsub z (fun i => sv_get e0 b i)) (fsub z (fun i => sv_get e0 b i)) <= eps * eps)
        (fn y) (fn p).
Proof. exact (@l2proj_model_proj). Qed.
Print Assumptions C11_l2proj_node_is_projection.

(* ------------------------------------------------------------------ projections in general *)
Theorem C11_feasible_point_is_its_projection :
  forall (El : Elem RR) (LW : ElemLaws El) n (S : (nat -> El) -> Prop) (y : nat -> El), S y -> proj_at LW n S y y.
Proof. exact (@proj_of_feasible). Qed.
Print Assumptions C11_feasible_point_is_its_projection.

Theorem C11_projection_idempotent :
  forall (El : Elem RR) (LW : ElemLaws El) n (S : (nat -> El) -> Prop) (p p' : nat -> El),
    S p -> proj_at LW n S p p' -> forall i, (i < n)%nat -> p' i = p i.
Proof. exact (@proj_idempotent). Qed.
Print Assumptions C11_projection_idempotent.

(* ------------------------------------------------------------------ l1 ball (Duchi et al.) *)
(* feasible input is returned as it is (same list, hence same shape) *)
Theorem C11_l1_proj_feasible_identity :
  forall (El : Elem RR) eps (y : list El),
    @rsum RR (map eabs y) < eps -> @l1_proj RR El eps y = Some y.
Proof. exact (@l1_proj_feasible). Qed.
Print Assumptions C11_l1_proj_feasible_identity.

(* otherwise the sort/cumsum/last-positive search never fails and returns soft_thresh(theta, y) with the
   KKT certificate theta >= 0, sum_i (|y_i| - theta)_+ = eps *)
Theorem C11_l1_proj_kkt_certificate :
  forall (El : Elem RR) eps (y : list El),
    0 < eps -> eps <= @rsum RR (map eabs y) ->
    exists th, 0 <= th /\ cert (length y) (fn y) th = eps /\
               @l1_proj RR El eps y = Some (@soft_thresh RR El (SS th) y).
Proof. exact (@l1_proj_infeasible). Qed.
Print Assumptions C11_l1_proj_kkt_certificate.

(* and that certificate characterises the Euclidean projection onto {||x||_1 <= eps} *)
Theorem C11_l1_certificate_is_projection :
  forall (El : Elem RR) (LW : ElemLaws El) eps th (y : list El),
    0 <= th -> cert (length y) (fn y) th = eps ->
    proj_at LW (length y) (fun z => norm1 (length y) z <= eps) (fn y) (fn (@soft_thresh RR El (SS th) y)).
Proof. exact (@l1_certificate_is_proj). Qed.
Print Assumptions C11_l1_certificate_is_projection.

(* ------------------------------------------------------------------ NoOp, L2Reg *)
Theorem C11_noop_is_prox :
  forall (El : Elem RR) (LW : ElemLaws El) n (y : nat -> El), prox_at LW n (fun _ => True) (fun _ => 0) y y.
Proof. exact (@noop_prox). Qed.
Print Assumptions C11_noop_is_prox.

(* the model's L2Reg node computes q with <q_i,u> = (<y_i,u> + a l <z_i,u>)/(1 + a l), i.e. q = (y + a l z)/(1 + a l) *)
Theorem C11_l2reg_model_closed_form :
  forall (El : Elem RR) (LW : ElemLaws El) s l (b : option (sv El)) a (y : list El),
    0 < 1 + l * a ->
    exists q, @apply RR El (@L2Reg RR El s l b None) (SS a) y = Some q /\ length q = length y /\
      forall i, (i < length y)%nat -> forall u,
        ein LW (fn q i) u = (ein LW (fn y i) u + a * l * ein LW (bias_fn b i) u) / (1 + a * l).
Proof. exact (@l2reg_model_q). Qed.
Print Assumptions C11_l2reg_model_closed_form.

(* ... which is THE minimiser of 1/2|x-y|^2 + a * l/2 |x-z|^2 *)
Theorem C11_l2reg_closed_form_is_prox :
  forall (El : Elem RR) (LW : ElemLaws El) n a l (z y q : nat -> El),
    0 < a -> 0 <= l ->
    (forall i, (i < n)%nat -> forall u, ein LW (q i) u = (ein LW (y i) u + a * l * ein LW (z i) u) / (1 + a * l)) ->
    prox_at LW n (fun _ => True) (fun x => a * (l / 2 * dotn LW n (fsub x z) (fsub x z))) y q.
Proof. exact (@l2reg_closed_form). Qed.
Print Assumptions C11_l2reg_closed_form_is_prox.

(* with proxh: the node calls proxh with step a/(1 + l a) on q ... *)
Theorem C11_l2reg_model_calls_proxh :
  forall (El : Elem RR) s l (b : option (sv El)) a (y : list El) hp q,
    @apply RR El (@L2Reg RR El s l b None) (SS a) y = Some q ->
    @apply RR El (@L2Reg RR El s l b (Some hp)) (SS a) y = @apply RR El hp (SS (a / (1 + l * a))) q.
Proof. exact (@l2reg_model_h). Qed.
Print Assumptions C11_l2reg_model_calls_proxh.

(* ... and if proxh returns the proximal point of (a/(1+a l)) h at q, the result is the proximal point of
   a (l/2 |.-z|^2 + h) at y  (h any function with any domain: l1, balls, ...) *)
Theorem C11_l2reg_proxh_composition :
  forall (El : Elem RR) (LW : ElemLaws El) n a l (z y q r : nat -> El) (dom : (nat -> El) -> Prop) (h : (nat -> El) -> R),
    0 < a -> 0 <= l ->
    (forall i, (i < n)%nat -> forall u, ein LW (q i) u = (ein LW (y i) u + a * l * ein LW (z i) u) / (1 + a * l)) ->
    prox_at LW n dom (fun x => a / (1 + a * l) * h x) q r ->
    prox_at LW n dom (fun x => a * (l / 2 * dotn LW n (fsub x z) (fsub x z)) + a * h x) y r.
Proof. exact (@l2reg_compose). Qed.
Print Assumptions C11_l2reg_proxh_composition.

(* ------------------------------------------------------------------ Conj: Moreau *)
(* the model's Conj node returns out = y - a*r where r is the inner prox's answer at (1/a, y/a) *)
Theorem C11_conj_model :
  forall (El : Elem RR) (LW : ElemLaws El) pq a (y r : list El), a <> 0 ->
    @apply RR El pq (SS (1 / a)) (imap (fun (i : nat) (x : El) => @edivr RR El x a) y) = Some r -> length r = length y ->
    exists out, @apply RR El (@Conj RR El pq) (SS a) y = Some out /\ length out = length y /\
      (forall i, (i < length y)%nat -> forall u,
          ein LW (fn (imap (fun (i : nat) (x : El) => @edivr RR El x a) y) i) u = / a * ein LW (fn y i) u) /\
      (forall i, (i < length y)%nat -> forall u, ein LW (fn out i) u = ein LW (fn y i) u - a * ein LW (fn r i) u).
Proof. exact (@conj_model). Qed.
Print Assumptions C11_conj_model.

(* Moreau decomposition in variational form: q = prox_{g/a}(y/a), p = y - a q  ==>  p is a subgradient of g at q
   (equivalently (y-p)/a is a subgradient of g* at p: the optimality condition of prox_{a g*}(y)) *)
Theorem C11_conj_moreau_subgradient :
  forall (El : Elem RR) (LW : ElemLaws El) n a (y ya q p : nat -> El) (dom : (nat -> El) -> Prop) (g : (nat -> El) -> R),
    0 < a ->
    (forall i, (i < n)%nat -> forall u, ein LW (ya i) u = / a * ein LW (y i) u) ->
    (forall i, (i < n)%nat -> forall u, ein LW (p i) u = ein LW (y i) u - a * ein LW (q i) u) ->
    prox_at LW n dom (fun x => / a * g x) ya q ->
    dom q /\ forall z, dom z -> g q + dotn LW n p (fsub z q) <= g z.
Proof. exact (@moreau_subgradient). Qed.
Print Assumptions C11_conj_moreau_subgradient.

(* with a real-valued representation gs of g* on its domain domS (Fenchel-Young + equality at subgradients)
   p is literally prox_{a g*}(y) *)
Theorem C11_conj_moreau_prox :
  forall (El : Elem RR) (LW : ElemLaws El) n a (y ya q p : nat -> El)
         (dom : (nat -> El) -> Prop) (g : (nat -> El) -> R) (domS : (nat -> El) -> Prop) (gs : (nat -> El) -> R),
    0 < a ->
    (forall i, (i < n)%nat -> forall u, ein LW (ya i) u = / a * ein LW (y i) u) ->
    (forall i, (i < n)%nat -> forall u, ein LW (p i) u = ein LW (y i) u - a * ein LW (q i) u) ->
    (forall u x, domS u -> dom x -> dotn LW n u x - g x <= gs u) ->
    (forall u x, dom x -> (forall z, dom z -> g x + dotn LW n u (fsub z x) <= g z) -> domS u /\ gs u <= dotn LW n u x - g x) ->
    prox_at LW n dom (fun x => / a * g x) ya q ->
    prox_at LW n domS (fun u => a * gs u) y p.
Proof. exact (@moreau_prox). Qed.
Print Assumptions C11_conj_moreau_prox.

Example C11_conj_moreau_hypotheses_satisfiable :
  forall (El : Elem RR) (LW : ElemLaws El) n,
    let dom := fun _ : nat -> El => True in
    let g := fun _ : nat -> El => 0 in
    let domS := fun u : nat -> El => forall i, (i < n)%nat -> u i = e0 in
    let gs := fun _ : nat -> El => 0 in
    (forall u x, domS u -> dom x -> dotn LW n u x - g x <= gs u) /\
    (forall u x, dom x -> (forall z, dom z -> g x + dotn LW n u (fsub z x) <= g z) -> domS u /\ gs u <= dotn LW n u x - g x).
Proof. exact (@moreau_hypotheses_sat). Qed.
Print Assumptions C11_conj_moreau_hypotheses_satisfiable.

(* ------------------------------------------------------------------ Stack: block separability *)
Theorem C11_stack_block_separable :
  forall (El : Elem RR) (LW : ElemLaws El) n1 n2 (y p : nat -> El)
         (dom1 : (nat -> El) -> Prop) ag1 (dom2 : (nat -> El) -> Prop) ag2,
    prox_at LW n1 dom1 ag1 y p ->
    prox_at LW n2 dom2 ag2 (shift n1 y) (shift n1 p) ->
    prox_at LW (n1 + n2) (fun z => dom1 z /\ dom2 (shift n1 z)) (fun z => ag1 z + ag2 (shift n1 z)) y p.
Proof. exact (@stack_blocks). Qed.
Print Assumptions C11_stack_block_separable.

(* the model's Stack node, one block at a time (iterate for k blocks): the flat input is split by the
   sub-prox sizes, alpha is shared when scalar and split the same way when an array, outputs are
   concatenated; the result is the proximal point of the block sum *)
Theorem C11_stack_model_cons :
  forall (El : Elem RR) (LW : ElemLaws El) q rest (alpha : sv R) (y o1 o2 : list El)
         (dom1 : (nat -> El) -> Prop) ag1 (dom2 : (nat -> El) -> Prop) ag2,
    let n1 := @psize RR El q in
    (n1 <= length y)%nat ->
    @apply RR El q (sv_firstn n1 alpha) (firstn n1 y) = Some o1 -> length o1 = n1 ->
    @apply RR El (@Stack RR El rest) (sv_skipn n1 alpha) (skipn n1 y) = Some o2 -> length o2 = (length y - n1)%nat ->
    localP n1 dom1 -> localF n1 ag1 -> localP (length y - n1) dom2 -> localF (length y - n1) ag2 ->
    prox_at LW n1 dom1 ag1 (fn (firstn n1 y)) (fn o1) ->
    prox_at LW (length y - n1) dom2 ag2 (fn (skipn n1 y)) (fn o2) ->
    @apply RR El (@Stack RR El (q :: rest)) alpha y = Some (o1 ++ o2) /\ length (o1 ++ o2) = length y /\
    prox_at LW (length y) (fun z => dom1 z /\ dom2 (shift n1 z)) (fun z => ag1 z + ag2 (shift n1 z)) (fn y) (fn (o1 ++ o2)).
Proof. exact (@stack_cons_prox). Qed.
Print Assumptions C11_stack_model_cons.

Theorem C11_stack_model_nil :
  forall (El : Elem RR) (LW : ElemLaws El) (alpha : sv R),
    @apply RR El (@Stack RR El []) alpha [] = Some [] /\ prox_at LW 0 (fun _ => True) (fun _ => 0) (fn []) (fn []).
Proof. exact (@stack_nil_prox). Qed.
Print Assumptions C11_stack_model_nil.

(* ------------------------------------------------------------------ UnitaryTransform *)
(* needs BOTH A^H A = I and A A^H = I (and that AH is the adjoint of A), all through inner products *)
Theorem C11_unitary_transform_is_prox :
  forall (El : Elem RR) (LW : ElemLaws El) n m (A AH : (nat -> El) -> (nat -> El)) (y r : nat -> El)
         (dom : (nat -> El) -> Prop) ag,
    (forall x w, dotn LW m (A x) w = dotn LW n x (AH w)) ->
    (forall x w, dotn LW n (AH (A x)) w = dotn LW n x w) ->
    (forall v w, dotn LW m (A (AH v)) w = dotn LW m v w) ->
    localP m dom -> localF m ag ->
    prox_at LW m dom ag (A y) r ->
    prox_at LW n (fun x => dom (A x)) (fun x => ag (A x)) y (AH r).
Proof. exact (@unitary_prox). Qed.
Print Assumptions C11_unitary_transform_is_prox.

Example C11_unitary_hypotheses_satisfiable :
  forall (El : Elem RR) (LW : ElemLaws El) n,
    let A := fun x : nat -> El => x in
    (forall x w, dotn LW n (A x) w = dotn LW n x (A w)) /\
    (forall x w, dotn LW n (A (A x)) w = dotn LW n x w) /\
    (forall v w, dotn LW n (A (A v)) w = dotn LW n v w).
Proof. exact (@unitary_hypotheses_sat). Qed.
Print Assumptions C11_unitary_hypotheses_satisfiable.

(* ------------------------------------------------------------------ PSD projection over the eigh oracle *)
(* FULL statement (proved further down: C11_psd_proj_is_projection and its real / complex explicit forms;
   "not proved here" refers to this older theorem only): for an n x n complex matrix M, if eigh((M+M^H)/2) = (w, V) with V unitary and
   (M+M^H)/2 = V diag(w) V^H, then P = psd_proj n w V is Hermitian, x^H P x >= 0 for all x, and
   Re tr((M-P)^H (Z-P)) <= 0 for every Hermitian Z with x^H Z x >= 0 for all x.
   PROVED (partial): the same conclusion from the spectral consequences of the oracle specification
   (rank-one projectors P_j = v_j v_j^H orthonormal in the Frobenius inner product, non-negative on the cone,
   Hm = sum w_j P_j, P = sum max(w_j,0) P_j, skew part orthogonal to the cone, P in the cone).
   Missing: deriving those consequences from "V unitary, Hm = V diag(w) V^H" (finite-sum matrix algebra); they are
   checked numerically on every PSD case by run/RunC11.v:eigh_spec_ok. *)
Theorem C11_psd_proj_is_projection_partial :
  forall (El : Elem RR) (LW : ElemLaws El) (N k : nat) (M Hm P : nat -> El) (Pj : nat -> nat -> El) (w : nat -> R)
         (Cone : (nat -> El) -> Prop),
    (forall u, dotn LW N Hm u = sumn k (fun j => w j * dotn LW N (Pj j) u)) ->
    (forall u, dotn LW N P u = sumn k (fun j => wplus w j * dotn LW N (Pj j) u)) ->
    (forall j l, (j < k)%nat -> (l < k)%nat -> dotn LW N (Pj l) (Pj j) = if Nat.eqb l j then 1 else 0) ->
    (forall Z, Cone Z -> forall j, (j < k)%nat -> 0 <= dotn LW N (Pj j) Z) ->
    (forall Z, Cone Z -> dotn LW N (fsub M Hm) Z = 0) ->
    Cone P ->
    proj_at LW N Cone M P.
Proof. exact (@psd_proj_spectral). Qed.
Print Assumptions C11_psd_proj_is_projection_partial.

Example C11_psd_hypotheses_satisfiable :
  let M : nat -> R := fun _ => -2 in
  let P : nat -> R := fun _ => 0 in
  let Pj : nat -> nat -> R := fun _ _ => 1 in
  let w : nat -> R := fun _ => -2 in
  let Cone : (nat -> R) -> Prop := fun Z => 0 <= Z 0%nat in
  (forall u, dotn RealLaws 1 M u = sumn 1 (fun j => w j * dotn RealLaws 1 (Pj j) u)) /\
  (forall u, dotn RealLaws 1 P u = sumn 1 (fun j => wplus w j * dotn RealLaws 1 (Pj j) u)) /\
  (forall j l, (j < 1)%nat -> (l < 1)%nat -> dotn RealLaws 1 (Pj l) (Pj j) = if Nat.eqb l j then 1 else 0) /\
  (forall Z, Cone Z -> forall j, (j < 1)%nat -> 0 <= dotn RealLaws 1 (Pj j) Z) /\
  (forall Z, Cone Z -> dotn RealLaws 1 (fsub (El:=RRe) M M) Z = 0) /\ Cone P.
Proof. exact psd_hypotheses_sat. Qed.
Print Assumptions C11_psd_hypotheses_satisfiable.

(* the l1 certificate hypotheses are satisfiable: y = (3,-1), eps = 2, theta = 1 *)
Example C11_l1_certificate_satisfiable : cert (El:=RRe) 2 (fun i => nth i [3; -1] 0) 1 = 2.
Proof. exact l1_certificate_sat. Qed.
Print Assumptions C11_l1_certificate_satisfiable.

(* ------------------------------------------------------------------ PSD projection: the FULL theorem *)
(* Vocabulary (proofs/ProxPsd2.v):
     StarLaws LW     the element type as a commutative *-ring with real part sre, unit s1, embedding sinj of R:
                     ring_theory on e0/s1/eadd/emul/esub, econj an involutive ring morphism, sre additive,
                     sre(conj a * a) >= 0, escale t a = sinj t * a, ein LW a b = sre(conj a * b).
                     Instances RealStar (on RRe) and CplxStar (on RCx), both Definitions built from the model's own operations.
     esumn n f       sum_{i<n} f i in El;   Vf v i j = entry j of row i of the list-of-rows v;  wf wl k = entry k of wl
     orthcols SL n V := forall k l < n, sum_i conj(V i k) * V i l = (if k = l then 1 else 0)                  (V^H V = I)
     PsdCone SL n Z  := (forall i j < n, Z(j*n+i) = conj Z(i*n+j)) /\ forall z, 0 <= sre (sum_i sum_j conj(z i) * Z(i*n+j) * z j)
                     (Z = flat row-major n x n matrix: Hermitian and z^H Z z >= 0)
   Statement: for the eigh oracle's answer (wl, v) on the Hermitian part of ANY n x n matrix X (any n, X not assumed
   Hermitian) — V^H V = I and (X + X^H)/2 = (V * w) V^H entrywise — the list psd_proj n wl v has n*n entries and is the
   projection of X onto PsdCone in the real Frobenius inner product dotn LW (n*n) = Re tr(A^H B):
   it lies in the cone and Re<X - P, Z - P>_F <= 0 for every Z in the cone. *)
Theorem C11_psd_proj_is_projection :
  forall (El : Elem RR) (LW : ElemLaws El) (SL : StarLaws LW) n (X : list El) (wl : list R) (v : list (list El)),
    length wl = n -> length v = n -> (forall r, In r v -> length r = n) ->
    orthcols SL n (Vf v) ->
    (forall i k, (i < n)%nat -> (k < n)%nat ->
       @edivr RR El (@eadd RR El (fn X (i * n + k)%nat) (@econj RR El (fn X (k * n + i)%nat))) 2 =
       esumn n (fun j => @emul RR El (@escale RR El (wf wl j) (Vf v i j)) (@econj RR El (Vf v k j)))) ->
    length (@psd_proj RR El n wl v) = (n * n)%nat /\
    proj_at LW (n * n) (PsdCone SL n) (fn X) (fn (@psd_proj RR El n wl v)).
Proof. exact (@psd_proj_is_projection). Qed.
Print Assumptions C11_psd_proj_is_projection.

(* ... hence THE Frobenius-nearest point of the cone, with quadratic growth (so unique) *)
Theorem C11_psd_proj_is_nearest :
  forall (El : Elem RR) (LW : ElemLaws El) (SL : StarLaws LW) n (X : list El) (wl : list R) (v : list (list El)),
    length wl = n -> length v = n -> (forall r, In r v -> length r = n) ->
    orthcols SL n (Vf v) ->
    (forall i k, (i < n)%nat -> (k < n)%nat ->
       @edivr RR El (@eadd RR El (fn X (i * n + k)%nat) (@econj RR El (fn X (k * n + i)%nat))) 2 =
       esumn n (fun j => @emul RR El (@escale RR El (wf wl j) (Vf v i j)) (@econj RR El (Vf v k j)))) ->
    let P := fn (@psd_proj RR El n wl v) in
    forall Z, PsdCone SL n Z ->
      dotn LW (n * n) (fsub P (fn X)) (fsub P (fn X)) + dotn LW (n * n) (fsub Z P) (fsub Z P)
      <= dotn LW (n * n) (fsub Z (fn X)) (fsub Z (fn X)).
Proof. exact (@psd_proj_nearest). Qed.
Print Assumptions C11_psd_proj_is_nearest.

Theorem C11_psd_proj_nearest_unique :
  forall (El : Elem RR) (LW : ElemLaws El) (SL : StarLaws LW) n (X : list El) (wl : list R) (v : list (list El)),
    length wl = n -> length v = n -> (forall r, In r v -> length r = n) ->
    orthcols SL n (Vf v) ->
    (forall i k, (i < n)%nat -> (k < n)%nat ->
       @edivr RR El (@eadd RR El (fn X (i * n + k)%nat) (@econj RR El (fn X (k * n + i)%nat))) 2 =
       esumn n (fun j => @emul RR El (@escale RR El (wf wl j) (Vf v i j)) (@econj RR El (Vf v k j)))) ->
    let P := fn (@psd_proj RR El n wl v) in
    forall Z, PsdCone SL n Z ->
      dotn LW (n * n) (fsub Z (fn X)) (fsub Z (fn X)) <= dotn LW (n * n) (fsub P (fn X)) (fsub P (fn X)) ->
      forall t, (t < n * n)%nat -> Z t = P t.
Proof. exact (@psd_proj_unique). Qed.
Print Assumptions C11_psd_proj_nearest_unique.

(* the matrix-level core, no lists: X, Hm, P, V any n x n matrices (functions), w real:
   V^H V = I, Hm = V diag(w) V^H = (X + X^H)/2, P = V diag(max(w,0)) V^H  ==>  P is Hermitian PSD and
   Re tr((X-P)^H (Z-P)) <= 0 for every Hermitian PSD Z *)
Theorem C11_psd_matrix_variational_inequality :
  forall (El : Elem RR) (LW : ElemLaws El) (SL : StarLaws LW) n (X Hm P V : nat -> nat -> El) (w : nat -> R),
    orthcols SL n V ->
    (forall i j, (i < n)%nat -> (j < n)%nat -> Hm i j = vdv SL n w V i j) ->
    (forall i j, (i < n)%nat -> (j < n)%nat ->
       Hm i j = @emul RR El (sinj SL (/ 2)) (@eadd RR El (X i j) (@econj RR El (X j i)))) ->
    (forall i j, (i < n)%nat -> (j < n)%nat -> P i j = vdv SL n (wplus w) V i j) ->
    forall Z, PSD SL n Z -> sre SL (frobC n (msub X P) (msub Z P)) <= 0.
Proof. exact (@psd_vi). Qed.
Print Assumptions C11_psd_matrix_variational_inequality.

Theorem C11_psd_matrix_output_in_cone :
  forall (El : Elem RR) (LW : ElemLaws El) (SL : StarLaws LW) n (P V : nat -> nat -> El) (w : nat -> R),
    (forall i j, (i < n)%nat -> (j < n)%nat -> P i j = vdv SL n (wplus w) V i j) -> PSD SL n P.
Proof. exact (@P_psd). Qed.
Print Assumptions C11_psd_matrix_output_in_cone.

(* REAL SYMMETRIC CASE, everything written out over R (sumn = finite sum, flat index i*n+j):
   V^T V = I, (X + X^T)/2 = V diag(w) V^T  ==>  P = psd_proj n wl v has n*n entries, is symmetric, z^T P z >= 0,
   and for every symmetric Z with z^T Z z >= 0:  <X-P, Z-P>_F <= 0  and  ||P-X||_F^2 + ||Z-P||_F^2 <= ||Z-X||_F^2 *)
Theorem C11_psd_proj_real_symmetric :
  forall n (X wl : list R) (v : list (list R)),
  length wl = n -> length v = n -> (forall r, In r v -> length r = n) ->
  let V := fun i j => nth j (nth i v []) 0 in
  let w := fun k => nth k wl 0 in
  let x := fun t => nth t X 0 in
  (forall k l, (k < n)%nat -> (l < n)%nat -> sumn n (fun i => V i k * V i l) = if Nat.eqb k l then 1 else 0) ->
  (forall i k, (i < n)%nat -> (k < n)%nat ->
     (x (i * n + k)%nat + x (k * n + i)%nat) / 2 = sumn n (fun j => w j * V i j * V k j)) ->
  let p := fun t => nth t (psd_proj (El:=RRe) n wl v) 0 in
  length (psd_proj (El:=RRe) n wl v) = (n * n)%nat /\
  (forall i j, (i < n)%nat -> (j < n)%nat -> p (j * n + i)%nat = p (i * n + j)%nat) /\
  (forall z : nat -> R, 0 <= sumn n (fun i => sumn n (fun j => z i * p (i * n + j)%nat * z j))) /\
  forall Z : nat -> R,
    (forall i j, (i < n)%nat -> (j < n)%nat -> Z (j * n + i)%nat = Z (i * n + j)%nat) ->
    (forall z : nat -> R, 0 <= sumn n (fun i => sumn n (fun j => z i * Z (i * n + j)%nat * z j))) ->
    sumn (n * n) (fun t => (x t - p t) * (Z t - p t)) <= 0 /\
    sumn (n * n) (fun t => (p t - x t) * (p t - x t)) + sumn (n * n) (fun t => (Z t - p t) * (Z t - p t))
    <= sumn (n * n) (fun t => (Z t - x t) * (Z t - x t)).
Proof. exact psd_proj_real. Qed.
Print Assumptions C11_psd_proj_real_symmetric.

(* COMPLEX HERMITIAN CASE, complex numbers as pairs (re, im); cadd/cmul/cconj/cscale/cdivr/csumn are the
   textbook pair operations (proofs/ProxPsd2.v), cdist2 a b = |a-b|^2 *)
Theorem C11_psd_proj_complex_hermitian :
  forall n (X : list (R * R)) (wl : list R) (v : list (list (R * R))),
  length wl = n -> length v = n -> (forall r, In r v -> length r = n) ->
  let V := fun i j => nth j (nth i v []) (0, 0) in
  let w := fun k => nth k wl 0 in
  let x := fun t => nth t X (0, 0) in
  (forall k l, (k < n)%nat -> (l < n)%nat ->
     csumn n (fun i => cmul (cconj (V i k)) (V i l)) = if Nat.eqb k l then (1, 0) else (0, 0)) ->
  (forall i k, (i < n)%nat -> (k < n)%nat ->
     cdivr (cadd (x (i * n + k)%nat) (cconj (x (k * n + i)%nat))) 2 =
     csumn n (fun j => cmul (cscale (w j) (V i j)) (cconj (V k j)))) ->
  let p := fun t => nth t (psd_proj (El:=RCx) n wl v) (0, 0) in
  length (psd_proj (El:=RCx) n wl v) = (n * n)%nat /\
  (forall i j, (i < n)%nat -> (j < n)%nat -> p (j * n + i)%nat = cconj (p (i * n + j)%nat)) /\
  (forall z : nat -> R * R,
     0 <= fst (csumn n (fun i => csumn n (fun j => cmul (cmul (cconj (z i)) (p (i * n + j)%nat)) (z j))))) /\
  forall Z : nat -> R * R,
    (forall i j, (i < n)%nat -> (j < n)%nat -> Z (j * n + i)%nat = cconj (Z (i * n + j)%nat)) ->
    (forall z : nat -> R * R,
       0 <= fst (csumn n (fun i => csumn n (fun j => cmul (cmul (cconj (z i)) (Z (i * n + j)%nat)) (z j))))) ->
    sumn (n * n) (fun t => (fst (x t) - fst (p t)) * (fst (Z t) - fst (p t)) +
                           (snd (x t) - snd (p t)) * (snd (Z t) - snd (p t))) <= 0 /\
    sumn (n * n) (fun t => cdist2 (p t) (x t)) + sumn (n * n) (fun t => cdist2 (Z t) (p t))
    <= sumn (n * n) (fun t => cdist2 (Z t) (x t)).
Proof. exact psd_proj_complex. Qed.
Print Assumptions C11_psd_proj_complex_hermitian.

(* the oracle hypotheses are satisfiable for n = 2 with a NON-symmetric input and a negative eigenvalue:
   X = [[23/25, 61/25], [11/25, 2/25]], V = [[3/5, 4/5], [-4/5, 3/5]], w = (-1, 2) *)
Example C11_psd_real_hypotheses_satisfiable :
  let n := 2%nat in
  let X := [23/25; 61/25; 11/25; 2/25] in
  let wl := [-1; 2] in
  let v := [[3/5; 4/5]; [-4/5; 3/5]] in
  let V := fun i j => nth j (nth i v []) 0 in
  let w := fun k => nth k wl 0 in
  let x := fun t => nth t X 0 in
  length wl = n /\ length v = n /\ (forall r, In r v -> length r = n) /\
  (forall k l, (k < n)%nat -> (l < n)%nat -> sumn n (fun i => V i k * V i l) = if Nat.eqb k l then 1 else 0) /\
  (forall i k, (i < n)%nat -> (k < n)%nat ->
     (x (i * n + k)%nat + x (k * n + i)%nat) / 2 = sumn n (fun j => w j * V i j * V k j)).
Proof. exact psd_real_hypotheses_sat. Qed.
Print Assumptions C11_psd_real_hypotheses_satisfiable.

(* complex: X = [[23/25+i, 1+36i/25], [-1-36i/25, 2/25]] (not Hermitian), V = [[3/5, 4i/5], [4i/5, 3/5]], w = (-1, 2) *)
Example C11_psd_complex_hypotheses_satisfiable :
  let n := 2%nat in
  let X := [(23/25, 1); (1, 36/25); (-1, -36/25); (2/25, 0)] in
  let wl := [-1; 2] in
  let v := [[(3/5, 0); (0, 4/5)]; [(0, 4/5); (3/5, 0)]] in
  let V := fun i j => nth j (nth i v []) (0, 0) in
  let w := fun k => nth k wl 0 in
  let x := fun t => nth t X (0, 0) in
  length wl = n /\ length v = n /\ (forall r, In r v -> length r = n) /\
  (forall k l, (k < n)%nat -> (l < n)%nat ->
     csumn n (fun i => cmul (cconj (V i k)) (V i l)) = if Nat.eqb k l then (1, 0) else (0, 0)) /\
  (forall i k, (i < n)%nat -> (k < n)%nat ->
     cdivr (cadd (x (i * n + k)%nat) (cconj (x (k * n + i)%nat))) 2 =
     csumn n (fun j => cmul (cscale (w j) (V i j)) (cconj (V k j)))).
Proof. exact psd_complex_hypotheses_sat. Qed.
Print Assumptions C11_psd_complex_hypotheses_satisfiable.

(* the same on the model's own terms: the oracle specification is stated against the model's herm_part n X
   (what run/RunC11.v:eigh_spec_ok tests on every recorded eigh answer), the conclusion is about the PsdProj node of apply
   (n = number of rows of v; alpha is ignored as in prox.py); output length = input length *)
Theorem C11_psdproj_node_is_projection :
  forall (El : Elem RR) (LW : ElemLaws El) (SL : StarLaws LW) s (wl : list R) (v : list (list El)) (alpha : sv R) (X : list El),
    let n := length v in
    length X = (n * n)%nat -> length wl = n -> (forall r, In r v -> length r = n) ->
    orthcols SL n (Vf v) ->
    (forall i k, (i < n)%nat -> (k < n)%nat ->
       nth k (nth i (@herm_part RR El n X) []) e0 =
       esumn n (fun j => @emul RR El (@escale RR El (wf wl j) (Vf v i j)) (@econj RR El (Vf v k j)))) ->
    exists p, @apply RR El (@PsdProj RR El s wl v) alpha X = Some p /\ length p = length X /\
      proj_at LW (n * n) (PsdCone SL n) (fn X) (fn p).
Proof. exact (@psdproj_node_is_projection). Qed.
Print Assumptions C11_psdproj_node_is_projection.

Theorem C11_herm_part_entry :
  forall (El : Elem RR) n (X : list El) i k, length X = (n * n)%nat -> (i < n)%nat -> (k < n)%nat ->
    nth k (nth i (@herm_part RR El n X) []) e0 =
    @edivr RR El (@eadd RR El (fn X (i * n + k)%nat) (@econj RR El (fn X (k * n + i)%nat))) 2.
Proof. exact (@herm_part_entry). Qed.
Print Assumptions C11_herm_part_entry.
