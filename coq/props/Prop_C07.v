(* Prop_C07 — interpolate / gridding implement the documented kernel sums (statements only).
   The kernels are the terms GENERATED from sigpy/interp.py on this run. *)
From Coq Require Import ZArith List Bool.
From SV Require Import lib.Scalar lib.BigSum lib.LoopIR lib.Coord gen.Gen_interp proofs.Interp proofs.Interp2D3D.
Import ListNotations.
Local Open Scope Z_scope.

(* interpolation: out[b,i] += sum over the integers x in [ceil(k_i - W/2), floor(k_i + W/2)] of
   K((x - k_i)/(W/2), p) * in[b, x mod nx]  — for every batch size, grid length, point set, width, kernel *)
Theorem C07_interpolate_is_the_kernel_sum :
  forall (R : StarRing) (C : COps) (kern : C -> C -> C) (wt : C -> R) input coord width param cs ish osh ps ws out b i,
    0 <= b < shape_at ish 0 -> 0 <= i < shape_at cs 0 ->
    exec (k_interpolate1 R C kern wt input coord width param cs ish osh ps ws) [] out [b; i] =
    add (out [b; i])
        (sumL (zrange (x0 C coord width cs ws i) (x1 C coord width cs ws i + 1) 1)
              (fun x => mul (wgt R C kern wt coord width param cs ps ws i x) (input [b; x mod shape_at ish 1]))).
Proof. exact interp1_exec. Qed.
Print Assumptions C07_interpolate_is_the_kernel_sum.

(* gridding: the same weights, accumulated (+=) onto the wrapped grid position: duplicates and wrapped
   contributions add *)
Theorem C07_gridding_accumulates_the_same_weights :
  forall (R : StarRing) (C : COps) (kern : C -> C -> C) (wt : C -> R) input coord width param cs ish osh ps ws out b m,
    0 <= b < shape_at osh 0 ->
    exec (k_gridding1 R C kern wt input coord width param cs ish osh ps ws) [] out [b; m] =
    add (out [b; m])
        (sumL (zrange 0 (shape_at cs 0) 1) (fun i =>
           sumL (zrange (x0 C coord width cs ws i) (x1 C coord width cs ws i + 1) 1) (fun x =>
             if (x mod shape_at osh 1 =? m) then mul (wgt R C kern wt coord width param cs ps ws i x) (input [b; i]) else zero))).
Proof. exact gridding1_exec. Qed.
Print Assumptions C07_gridding_accumulates_the_same_weights.

(* the loop bounds select exactly the grid samples within half a kernel width (ties included) *)
Theorem C07_window_is_half_width :
  forall (C : COps) coord width cs ws (cle : C -> C -> Prop),
    (forall (t : C) (z : Z), cceil t <= z <-> cle t (cofZ z)) ->
    (forall (t : C) (z : Z), z <= cfloor t <-> cle (cofZ z) t) ->
    forall i x,
      In x (zrange (x0 C coord width cs ws i) (x1 C coord width cs ws i + 1) 1) <->
      cle (csub (kx C coord cs i) (cdiv (W C width ws) (cofZ 2))) (cofZ x) /\
      cle (cofZ x) (cadd (kx C coord cs i) (cdiv (W C width ws) (cofZ 2))).
Proof. exact window_is_half_width. Qed.
Print Assumptions C07_window_is_half_width.

(* gridding is the exact transpose of interpolate (same coordinates, width, kernel, parameter; real weights) *)
Theorem C07_gridding_is_transpose_of_interpolate :
  forall (R : StarRing) (C : COps) (kern : C -> C -> C) (wt : C -> R),
    (forall w, conj (wt w) = wt w) ->
    forall coord width param cs ps ws batch nx npts, 0 < nx ->
    forall x y : list Z -> R,
      inner [batch; npts] (interp_op R C kern wt coord width param cs ps ws nx x) y =
      inner [batch; nx] x (grid_op R C kern wt coord width param cs ps ws nx npts y).
Proof. intros R C kern wt Hw coord width param cs ps ws batch nx npts Hnx x y.
       exact (interp_gridding_adjoint R C kern wt Hw coord width param cs ps ws batch nx npts Hnx x y). Qed.
Print Assumptions C07_gridding_is_transpose_of_interpolate.

(* the generated _spline_kernel is the documented B-spline of order 0, 1, 2 *)
Theorem C07_spline_order0 : forall (C : COps), (forall a b : Z, @ceqb C (cofZ a) (cofZ b) = (a =? b)) ->
  forall x, cltb (@cofZ C 1) (cabs x) = false -> spline_kernel C x (cofZ 0) = cofZ 1.
Proof. exact spline_order0. Qed.
Theorem C07_spline_order1 : forall (C : COps), (forall a b : Z, @ceqb C (cofZ a) (cofZ b) = (a =? b)) ->
  forall x, cltb (@cofZ C 1) (cabs x) = false -> spline_kernel C x (cofZ 1) = csub (cofZ 1) (cabs x).
Proof. exact spline_order1. Qed.
Theorem C07_spline_order2 : forall (C : COps), (forall a b : Z, @ceqb C (cofZ a) (cofZ b) = (a =? b)) ->
  forall x, cltb (@cofZ C 1) (cabs x) = false ->
    spline_kernel C x (cofZ 2) =
    if cltb (cdiv (cofZ 1) (cofZ 3)) (cabs x)
    then cmul (cdiv (cofZ 9) (cofZ 8)) (cmul (csub (cofZ 1) (cabs x)) (csub (cofZ 1) (cabs x)))
    else cmul (cdiv (cofZ 3) (cofZ 4)) (csub (cofZ 1) (cmul (cofZ 3) (cmul x x))).
Proof. exact spline_order2. Qed.
Theorem C07_spline_zero_outside : forall (C : COps) x order, cltb (@cofZ C 1) (cabs x) = true -> spline_kernel C x order = cofZ 0.
Proof. exact spline_outside. Qed.
Print Assumptions C07_spline_order2.

(* ---- 2-D and 3-D kernels (proofs/Interp2D3D.v) ---- *)


Theorem C07_interpolate2_is_the_separable_kernel_sum :
  forall (R : StarRing) (C : COps) (kern : C -> C -> C) (wt : C -> R) input coord width param cs ish osh ps ws out b i,
    0 <= b < shape_at ish 0 -> 0 <= i < shape_at cs 0 ->
    exec (k_interpolate2 R C kern wt input coord width param cs ish osh ps ws) [] out [b; i] =
    add (out [b; i])
        (sumL (win C coord width cs ws (-2) i) (fun y => sumL (win C coord width cs ws (-1) i) (fun x =>
           mul (wt (cmul (kw C kern coord width param cs ps ws (-2) i y) (kw C kern coord width param cs ps ws (-1) i x)))
               (input [b; y mod shape_at ish 1; x mod shape_at ish 2])))).
Proof. exact interp2_exec. Qed.

Theorem C07_interpolate3_is_the_separable_kernel_sum :
  forall (R : StarRing) (C : COps) (kern : C -> C -> C) (wt : C -> R) input coord width param cs ish osh ps ws out b i,
    0 <= b < shape_at ish 0 -> 0 <= i < shape_at cs 0 ->
    exec (k_interpolate3 R C kern wt input coord width param cs ish osh ps ws) [] out [b; i] =
    add (out [b; i])
        (sumL (win C coord width cs ws (-3) i) (fun z => sumL (win C coord width cs ws (-2) i) (fun y =>
         sumL (win C coord width cs ws (-1) i) (fun x =>
           mul (wt (cmul (cmul (kw C kern coord width param cs ps ws (-3) i z) (kw C kern coord width param cs ps ws (-2) i y))
                         (kw C kern coord width param cs ps ws (-1) i x)))
               (input [b; z mod shape_at ish 1; y mod shape_at ish 2; x mod shape_at ish 3]))))).
Proof. exact interp3_exec. Qed.

Theorem C07_gridding2_accumulates_the_same_weights :
  forall (R : StarRing) (C : COps) (kern : C -> C -> C) (wt : C -> R) input coord width param cs ish osh ps ws out b my mx,
    0 <= b < shape_at osh 0 ->
    exec (k_gridding2 R C kern wt input coord width param cs ish osh ps ws) [] out [b; my; mx] =
    add (out [b; my; mx])
        (sumL (zrange 0 (shape_at cs 0) 1) (fun i =>
           sumL (win C coord width cs ws (-2) i) (fun y => sumL (win C coord width cs ws (-1) i) (fun x =>
             if (y mod shape_at osh 1 =? my) && (x mod shape_at osh 2 =? mx)
             then mul (w2 R C kern wt coord width param cs ps ws i y x) (input [b; i]) else zero)))).
Proof. exact gridding2_exec. Qed.

Theorem C07_gridding3_accumulates_the_same_weights :
  forall (R : StarRing) (C : COps) (kern : C -> C -> C) (wt : C -> R) input coord width param cs ish osh ps ws out b mz my mx,
    0 <= b < shape_at osh 0 ->
    exec (k_gridding3 R C kern wt input coord width param cs ish osh ps ws) [] out [b; mz; my; mx] =
    add (out [b; mz; my; mx])
        (sumL (zrange 0 (shape_at cs 0) 1) (fun i =>
           sumL (win C coord width cs ws (-3) i) (fun z => sumL (win C coord width cs ws (-2) i) (fun y =>
           sumL (win C coord width cs ws (-1) i) (fun x =>
             if (z mod shape_at osh 1 =? mz) && (y mod shape_at osh 2 =? my) && (x mod shape_at osh 3 =? mx)
             then mul (w3 R C kern wt coord width param cs ps ws i z y x) (input [b; i]) else zero))))).
Proof. exact gridding3_exec. Qed.

Theorem C07_interpolate2_frame :
  forall (R : StarRing) (C : COps) (kern : C -> C -> C) (wt : C -> R) input coord width param cs ish osh ps ws out o,
    (forall b i, 0 <= b < shape_at ish 0 -> 0 <= i < shape_at cs 0 -> o <> [b; i]) ->
    exec (k_interpolate2 R C kern wt input coord width param cs ish osh ps ws) [] out o = out o.
Proof. exact interp2_frame. Qed.

Theorem C07_interpolate3_frame :
  forall (R : StarRing) (C : COps) (kern : C -> C -> C) (wt : C -> R) input coord width param cs ish osh ps ws out o,
    (forall b i, 0 <= b < shape_at ish 0 -> 0 <= i < shape_at cs 0 -> o <> [b; i]) ->
    exec (k_interpolate3 R C kern wt input coord width param cs ish osh ps ws) [] out o = out o.
Proof. exact interp3_frame. Qed.

(* every axis window is "within half a width, ties included" *)
Theorem C07_window_axis_is_half_width :
  forall (C : COps) coord width cs ws (cle : C -> C -> Prop),
    (forall (t : C) (z : Z), cceil t <= z <-> cle t (cofZ z)) ->
    (forall (t : C) (z : Z), z <= cfloor t <-> cle (cofZ z) t) ->
    forall d i t,
      In t (win C coord width cs ws d i) <->
      cle (csub (kax C coord cs d i) (cdiv (Wax C width ws d) (cofZ 2))) (cofZ t) /\
      cle (cofZ t) (cadd (kax C coord cs d i) (cdiv (Wax C width ws d) (cofZ 2))).
Proof. exact window_axis_is_half_width. Qed.

Theorem C07_gridding2_is_transpose_of_interpolate2 :
  forall (R : StarRing) (C : COps) (kern : C -> C -> C) (wt : C -> R),
    (forall w, conj (wt w) = wt w) ->
    forall coord width param cs ps ws gsh psh batch ny nx npts,
    shape_at cs 0 = npts -> shape_at gsh 0 = batch ->
    forall x y : list Z -> R,
    shape_at gsh 1 = ny -> shape_at gsh 2 = nx -> 0 < ny -> 0 < nx ->
      inner [batch; npts] (exec (k_interpolate2 R C kern wt x coord width param cs gsh psh ps ws) [] (fun _ => zero)) y =
      inner [batch; ny; nx] x (exec (k_gridding2 R C kern wt y coord width param cs psh gsh ps ws) [] (fun _ => zero)).
Proof. exact k_interp2_gridding2_adjoint. Qed.

Theorem C07_gridding3_is_transpose_of_interpolate3 :
  forall (R : StarRing) (C : COps) (kern : C -> C -> C) (wt : C -> R),
    (forall w, conj (wt w) = wt w) ->
    forall coord width param cs ps ws gsh psh batch nz ny nx npts,
    shape_at cs 0 = npts -> shape_at gsh 0 = batch ->
    forall x y : list Z -> R,
    shape_at gsh 1 = nz -> shape_at gsh 2 = ny -> shape_at gsh 3 = nx -> 0 < nz -> 0 < ny -> 0 < nx ->
      inner [batch; npts] (exec (k_interpolate3 R C kern wt x coord width param cs gsh psh ps ws) [] (fun _ => zero)) y =
      inner [batch; nz; ny; nx] x (exec (k_gridding3 R C kern wt y coord width param cs psh gsh ps ws) [] (fun _ => zero)).
Proof. exact k_interp3_gridding3_adjoint. Qed.

Theorem C07_grid2_op_is_transpose_of_interp2_op :
  forall (R : StarRing) (C : COps) (kern : C -> C -> C) (wt : C -> R),
    (forall w, conj (wt w) = wt w) ->
    forall coord width param cs ps ws batch ny nx npts, 0 < nx -> 0 < ny ->
    forall x y : list Z -> R,
      inner [batch; npts] (interp2_op R C kern wt coord width param cs ps ws ny nx x) y =
      inner [batch; ny; nx] x (grid2_op R C kern wt coord width param cs ps ws ny nx npts y).
Proof. exact interp2_gridding2_adjoint. Qed.

Theorem C07_grid3_op_is_transpose_of_interp3_op :
  forall (R : StarRing) (C : COps) (kern : C -> C -> C) (wt : C -> R),
    (forall w, conj (wt w) = wt w) ->
    forall coord width param cs ps ws batch nz ny nx npts, 0 < nx -> 0 < ny -> 0 < nz ->
    forall x y : list Z -> R,
      inner [batch; npts] (interp3_op R C kern wt coord width param cs ps ws nz ny nx x) y =
      inner [batch; nz; ny; nx] x (grid3_op R C kern wt coord width param cs ps ws nz ny nx npts y).
Proof. exact interp3_gridding3_adjoint. Qed.
Print Assumptions C07_gridding3_is_transpose_of_interpolate3.
