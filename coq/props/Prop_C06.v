(* Prop_C06 — NUFFT (statements only).

   Model: coq/model/Nufft.v (tied to /repo by the C06 correspondence: parameter functions on PrimFloat, step structure
   with the implementation's own kernel values).  Oracles appear as explicit hypotheses:
     * interpolate / gridding (model/Interp.v wrappers around the kernels GENERATED from interp.py) succeed on the
       given shapes and are an adjoint pair — C07 proves the pair for the generated 1-D kernel with batch;
     * numpy.fft: the unnormalised centred FFT F and the norm=None inverse Fi satisfy <F x, y> = M <x, Fi y>,
       M = prod(os_shape[-ndim:]) as an element cM of the ring (C05 proves the orthonormal pair from the DFT sum);
     * real scalars enter the ring through wt with conj (wt c) = wt c, and wt (M / sqrt N) = cM * wt (1 / sqrt N).
   NOT proved here (partial): the accuracy bound of the approximation (3 % / 0.3 %) — validated numerically only. *)
From Coq Require Import ZArith List Bool.
From SV Require Import lib.Scalar lib.BigSum lib.LoopIR lib.NdArray lib.Coord gen.Gen_interp model.Rearrange model.Block model.Interp
  model.Fourier model.Nufft proofs.Interp proofs.Fourier1D proofs.FourierModel proofs.Nufft proofs.NufftFft proofs.NufftPeriodic.
Import ListNotations.
Local Open Scope Z_scope.

(* [core] nufft_adjoint is the EXACT adjoint of nufft, with the same scaling, for every image shape (batch ++ grid),
   coordinate array, oversampling factor and kernel width: the 1/sqrt N, 1/W^d, M/sqrt N and 1/M (inside the
   norm=None inverse FFT) factors match, the real apodisation is self-adjoint, centred zero-pad and crop are adjoint. *)
Theorem C06_nufft_adjoint_exact :
  forall (R : StarRing) (C : COps) (kern : C -> C -> C) (wt : C -> R) (csqrt : C -> C) (cpi : C) (csinh : C -> C)
         (tw : Z -> Z -> R) (isc inv : Z -> R),
    (forall c, conj (wt c) = wt c) ->
  forall (ishape cshape : list Z) (coord : list Z -> C) (oversamp width : C),
    let ndim := Z.to_nat (last cshape 0) in
    let beta := beta_of C csqrt cpi width oversamp in
    let os_shape := oversamp_shape C ishape ndim oversamp in
    let N := prodZ (lastn ndim ishape) in
    let M := prodZ (lastn ndim os_shape) in
    let coord2 := scale_coord C cshape ishape oversamp coord in
    Forall (fun n => 0 <= n) ishape -> Forall (fun n => 0 <= n) os_shape ->
  forall (osh : list Z) (I G : (list Z -> R) -> (list Z -> R)),
    (forall x, interpolate R C kern wt os_shape cshape coord2 (WScalar C width) (WScalar C beta) x = Ok (osh, I x)) ->
    (forall y, gridding R C kern wt osh cshape os_shape coord2 (WScalar C width) (WScalar C beta) y = Ok (G y)) ->
    (forall x y, inner osh (I x) y = inner os_shape x (G y)) ->
  forall (cM : R),
    (forall x y, inner os_shape (snd (fftc tw isc inv false false os_shape None (fft_axes ndim) x)) y =
                 mul cM (inner os_shape x (snd (fftc tw isc inv true false os_shape None (fft_axes ndim) y)))) ->
    wt (cdiv (cofZ M) (csqrt (cofZ N))) = mul cM (wt (cdiv (cofZ 1) (csqrt (cofZ N)))) ->
  forall x y : list Z -> R,
    exists Ax AHy,
      nufft R C kern wt csqrt cpi csinh tw isc inv ishape cshape coord oversamp width x = Ok (osh, Ax) /\
      nufft_adjoint R C kern wt csqrt cpi csinh tw isc inv osh cshape ishape coord oversamp width y = Ok (ishape, AHy) /\
      inner osh Ax y = inner ishape x AHy.
Proof.
  intros R C kern wt csqrt cpi csinh tw isc inv Hwt ishape cshape coord oversamp width ndim beta os_shape N M coord2
         Hish Hos osh I G HI HG HIG cM HF HcM x y.
  eexists. eexists. split; [|split].
  - exact (nufft_eval R C kern wt csqrt cpi csinh tw isc inv ishape cshape coord oversamp width osh I HI x).
  - exact (nufft_adjoint_eval R C kern wt csqrt cpi csinh tw isc inv ishape cshape coord oversamp width osh G HG y).
  - exact (nufft_adjoint_exact R C wt csqrt cpi csinh tw isc inv Hwt ishape cshape oversamp width Hish Hos
             osh I G HIG cM HF HcM x y).
Qed.
Print Assumptions C06_nufft_adjoint_exact.

(* the numpy.fft hypothesis of C06_nufft_adjoint_exact follows from the DFT-sum specification of numpy.fft (the oracle of
   C05: tw n m = w_n^m with w_n a root of unity satisfying root_ok, inv n * n = 1), with tw := twf R w and
   cM := cprod R s ax = the product over the transformed axes of their lengths (as ring elements nR n = sum_{k<n} 1) *)
Theorem C06_fft_pair_from_the_dft_sum :
  forall (R : StarRing) (w isc inv : Z -> R),
    (forall n, 0 < n -> root_ok R n (w n)) -> (forall n, 0 < n -> mul (inv n) (nR n) = one) ->
  forall s axes (x y : list Z -> R),
    let ax := normalize_axes_sorted axes (Z.of_nat (length s)) in
    Forall (fun n => 0 < n) s -> NoDup ax -> Forall (fun a => (a < length s)%nat) ax ->
    inner s (snd (fftc (twf R w) isc inv false false s None axes x)) y =
    mul (cprod R s ax) (inner s x (snd (fftc (twf R w) isc inv true false s None axes y))).
Proof. exact fft_none_pair. Qed.
Print Assumptions C06_fft_pair_from_the_dft_sum.
Theorem C06_cprod_is : forall (R : StarRing) s a l,
  cprod R s [] = one /\ cprod R s (a :: l) = mul (nR (nthd s a)) (cprod R s l).
Proof. intros. split; reflexivity. Qed.

(* the centred zero-pad (resize to os_shape) and the centred crop (resize back) are adjoint, any equal-rank shapes *)
Theorem C06_resize_pair_adjoint : forall (R : StarRing) s1 s2 (x y : list Z -> R), length s1 = length s2 ->
  inner s2 (resize s1 s2 None None x) y = inner s1 x (resize s2 s1 None None y).
Proof. exact resize_pair_adjoint. Qed.
Print Assumptions C06_resize_pair_adjoint.

(* [core] periodicity, part 1: in exact arithmetic (distributivity, n * (ceil(os n) / n) = ceil(os n)) adding the grid
   length n to a coordinate adds exactly ceil(oversamp * n) to the scaled coordinate *)
Theorem C06_periodic_scaled_coordinate : forall (C : COps) (oversamp : C) (n : Z),
  (forall a b s : C, cmul (cadd a b) s = cadd (cmul a s) (cmul b s)) ->
  @cmul C (cofZ n) (cdiv (cofZ (os_len C oversamp n)) (cofZ n)) = cofZ (os_len C oversamp n) ->
  (forall a b c : C, cadd (cadd a b) c = cadd (cadd a c) b) ->
  forall c : C, scale1 C oversamp n (cadd c (cofZ n)) = cadd (scale1 C oversamp n c) (cofZ (os_len C oversamp n)).
Proof. exact scale_coord_shift. Qed.
Print Assumptions C06_periodic_scaled_coordinate.

(* [core] periodicity, part 2: shifting every scaled coordinate by a multiple D of the oversampled grid length shifts the
   window [ceil(k - W/2), floor(k + W/2)] by D, leaves the kernel arguments unchanged and the grid index wraps mod the
   grid length: the GENERATED interpolation kernel (1-D, batch) returns the same value *)
Theorem C06_periodic_interpolation_window :
  forall (R : StarRing) (C : COps) (kern : C -> C -> C) (wt : C -> R)
         (input : list Z -> R) (coord coord' width param : list Z -> C) (cs ish osh ps ws : list Z) (D : Z),
    0 < shape_at ish 1 -> D mod shape_at ish 1 = 0 ->
    (forall i, kx C coord' cs i = cadd (kx C coord cs i) (cofZ D)) ->
    (forall t h : C, cceil (csub (cadd t (cofZ D)) h) = cceil (csub t h) + D) ->
    (forall t h : C, cfloor (cadd (cadd t (cofZ D)) h) = cfloor (cadd t h) + D) ->
    (forall (x : Z) (t : C), csub (cofZ (x + D)) (cadd t (cofZ D)) = csub (cofZ x) t) ->
    forall out b i, 0 <= b < shape_at ish 0 -> 0 <= i < shape_at cs 0 ->
      exec (k_interpolate1 R C kern wt input coord' width param cs ish osh ps ws) [] out [b; i] =
      exec (k_interpolate1 R C kern wt input coord width param cs ish osh ps ws) [] out [b; i].
Proof. exact interp_kernel_periodic. Qed.
Print Assumptions C06_periodic_interpolation_window.

(* ---- design conformance (restating theorems: an edit of a formula in the model breaks them) ---- *)
(* Beatty et al.: beta = pi sqrt((W/os (os - 1/2))^2 - 0.8) *)
Theorem C06_design_beta : forall (C : COps) (csqrt : C -> C) (cpi width oversamp : C),
  beta_of C csqrt cpi width oversamp =
  cmul cpi (csqrt (csub (cmul (cmul (cdiv width oversamp) (csub oversamp (cdiv (cofZ 1) (cofZ 2))))
                              (cmul (cdiv width oversamp) (csub oversamp (cdiv (cofZ 1) (cofZ 2)))))
                        (cdiv (cofZ 4) (cofZ 5)))).
Proof. intros. reflexivity. Qed.
Print Assumptions C06_design_beta.

(* oversampled grid: ceil(os n) on the last ndim axes; scaled coordinate k * (ceil(os n) / n) + ceil(os n) // 2,
   i.e. the centre index n // 2 ... of the image grid is mapped to the centre index of the oversampled grid *)
Theorem C06_design_scale_shift : forall (C : COps) (oversamp c : C) (n : Z) shape ndim,
  scale1 C oversamp n c = cadd (cmul c (cdiv (cofZ (cceil (cmul oversamp (cofZ n)))) (cofZ n))) (cofZ (cceil (cmul oversamp (cofZ n)) / 2)) /\
  oversamp_shape C shape ndim oversamp = droplast ndim shape ++ map (fun i => cceil (cmul oversamp (cofZ i))) (lastn ndim shape).
Proof. intros. split; reflexivity. Qed.
Print Assumptions C06_design_scale_shift.

(* apodisation: a / sinh a with a = sqrt(beta^2 - (pi W (k - n//2) / ceil(os n))^2), centred at index n // 2 *)
Theorem C06_design_apodization : forall (C : COps) (csqrt : C -> C) (cpi : C) (csinh : C -> C) (oversamp width beta : C) (i k : Z),
  apod_factor C csqrt cpi csinh oversamp width beta i k =
  let a := csqrt (csub (cmul beta beta)
             (cmul (cdiv (cmul (cmul cpi width) (cofZ (k - i / 2))) (cofZ (cceil (cmul oversamp (cofZ i)))))
                   (cdiv (cmul (cmul cpi width) (cofZ (k - i / 2))) (cofZ (cceil (cmul oversamp (cofZ i))))))) in
  cdiv a (csinh a).
Proof. intros. reflexivity. Qed.
Print Assumptions C06_design_apodization.
