(* Prop_C01 — every operator's adjoint is its true adjoint.  Statements only (`exact`), over an
   arbitrary commutative *-ring R (so in particular for real and complex x, y), for every
   operator expression; D A = den ... noforce A is the denotation of coq/model/Linop.v. *)
From Coq Require Import ZArith List Bool.
From SV Require Import lib.Scalar lib.BigSum lib.NdArray lib.Gather model.Rearrange model.Block model.Linop
  proofs.LinopTheory proofs.LinopLeaves proofs.Rearrange proofs.LinopScale proofs.LinopLeavesA proofs.LinopStack proofs.LinopLeavesB proofs.LinopLeavesB2.
(* gen.Gen_linop_table: the _adjoint_linop / _normal_linop table GENERATED from linop.py, with lemmas gen_*_ok stating
   that it equals the hand model's adj / normal; importing it makes those lemmas part of this property's proof cone *)
From SV Require gen.Gen_linop_table.
Import ListNotations.
Local Open Scope Z_scope.

(* For EVERY expression tree built with Conj, +, composition (incl. the scalar and sign overloads,
   which are compositions with Multiply leaves, and python's flattening of nested compositions):
   if every other node L of the tree satisfies <L x, y> = <x, L^H y>, then so does the tree, with
   the operator returned by the modelled _adjoint_linop and with shapes swapped. *)
Theorem C01_adjoint_of_every_tree :
  forall (R : StarRing) (arr : Z -> list Z -> R) (scal : Z -> R) (orc : linop -> (list Z -> R) -> list Z -> R) (A : linop),
    wf A = true ->
    nodes_ok (fun L => forall x y, inner (oshape_of L) (D R arr scal orc L x) y
                                   = inner (ishape_of L) x (D R arr scal orc (adj L) y)) A ->
    forall x y, inner (oshape_of A) (D R arr scal orc A x) y = inner (ishape_of A) x (D R arr scal orc (adj A) y).
Proof. exact adj_correct. Qed.
Print Assumptions C01_adjoint_of_every_tree.

(* the node hypothesis, discharged for concrete leaf classes (every valid parameter) *)
Theorem C01_identity_adjoint :
  forall (R : StarRing) arr scal orc s, wf (Identity s) = true -> apair R arr scal orc (Identity s).
Proof. exact apair_identity. Qed.
Print Assumptions C01_identity_adjoint.

Theorem C01_flip_adjoint :
  forall (R : StarRing) arr scal orc s ax, wf (Flip s ax) = true -> apair R arr scal orc (Flip s ax).
Proof. exact apair_flip. Qed.
Print Assumptions C01_flip_adjoint.

Theorem C01_downsample_adjoint :
  forall (R : StarRing) arr scal orc i f sh,
    wf (Downsample i f sh) = true -> length f = length i -> length sh = length i ->
    Forall (fun v => 0 < v) f -> Forall (fun v => 0 <= v) sh -> apair R arr scal orc (Downsample i f sh).
Proof. exact apair_downsample. Qed.
Print Assumptions C01_downsample_adjoint.

Theorem C01_upsample_adjoint :
  forall (R : StarRing) arr scal orc o f sh,
    wf (Upsample o f sh) = true -> length f = length o -> length sh = length o ->
    Forall (fun v => 0 < v) f -> Forall (fun v => 0 <= v) sh -> apair R arr scal orc (Upsample o f sh).
Proof. exact apair_upsample. Qed.
Print Assumptions C01_upsample_adjoint.

(* Resize / its shift-swapped partner (the operator Resize.H constructs) on expanded shapes of equal rank *)
Theorem C01_resize_adjoint :
  forall (R : StarRing) i1 o1 si so,
    length i1 = length o1 -> length si = length i1 -> length so = length i1 ->
    Forall (fun v => 0 <= v) si -> Forall (fun v => 0 <= v) so ->
    forall x y : list Z -> R,
      inner o1 (gatherN (zip4 resize_ax i1 o1 si so) x) y = inner i1 x (gatherN (zip4 resize_ax o1 i1 so si) y).
Proof. exact resize_gather_adjoint. Qed.
Print Assumptions C01_resize_adjoint.

(* the generic engines: any operator given by a kernel, any gather by mutually inverse partial bijections *)
Theorem C01_kernel_adjoint :
  forall (R : StarRing) si so (k k' : list Z -> list Z -> R),
    (forall o i, inbox so o -> inbox si i -> k' i o = conj (k o i)) ->
    forall x y, inner so (kernel_op si k x) y = inner si x (kernel_op so k' y).
Proof. exact kernel_adjoint. Qed.
Print Assumptions C01_kernel_adjoint.

Theorem C01_gather_adjoint :
  forall (R : StarRing) si so ms ms', axes_pbij si so ms ms' ->
    forall x y : list Z -> R, inner so (gatherN ms x) y = inner si x (gatherN ms' y).
Proof. exact gatherN_adjoint. Qed.
Print Assumptions C01_gather_adjoint.

(* <A x, y> = <x, B y>  implies  <B y, x> = <y, A x>: the adjoint of the adjoint acts like the original *)
Theorem C01_adjoint_is_symmetric :
  forall (R : StarRing) si so F G, adjoint_pair R si so F G -> adjoint_pair R so si G F.
Proof. exact adjoint_pair_sym. Qed.
Print Assumptions C01_adjoint_is_symmetric.

(* scalar multiples: the leaf Multiply(shape, a) that `a * A`, `A * a`, `-A`, `A - B` are built from, together with
   the composite Reshape * Sum * Multiply(conj) returned by its _adjoint_linop *)
Theorem C01_scalar_multiple_adjoint :
  forall (R : StarRing) arr scal orc i t c,
    i <> [] -> wf (Multiply i (MScalar t) c) = true -> apair R arr scal orc (Multiply i (MScalar t) c).
Proof. exact apair_scale. Qed.
Print Assumptions C01_scalar_multiple_adjoint.

(* NO hypothesis on the nodes: every expression over Conj, +, -, composition, a*A, A*a, -A with Identity / Flip /
   Downsample / Upsample leaves satisfies <A x, y> = <x, A^H y> with the modelled adjoint *)
Theorem C01_adjoint_unconditional_fragment :
  forall (R : StarRing) arr scal orc A,
    wf A = true -> nodes_ok (fun L => proven_node L = true /\ wf L = true) A ->
    forall x y, inner (oshape_of A) (D R arr scal orc A x) y = inner (ishape_of A) x (D R arr scal orc (adj A) y).
Proof. exact adj_correct_proven. Qed.
Print Assumptions C01_adjoint_unconditional_fragment.

Example C01_fragment_example :
  let A := op_sub (Compose [Conj (Flip [3; 2] (Some [-1])); Downsample [5; 4] [2; 2] [0; 0]])
                  (op_lscale 7 (Compose [Flip [3; 2] None; Downsample [5; 4] [2; 2] [0; 0]])) in
  wf A = true /\ nodes_ok (fun L => proven_node L = true /\ wf L = true) A.
Proof. vm_compute. repeat split; reflexivity. Qed.

(* ---- more leaf classes, every valid parameter choice (proofs/LinopLeavesA.v) ---- *)
Theorem C01_reshape_adjoint : forall (R : StarRing) arr scal orc o i,
  wf (Reshape o i) = true -> prodZ o = prodZ i -> apair R arr scal orc (Reshape o i).
Proof. exact apair_reshape. Qed.
(* the full util.resize: unequal ranks, early return, default and explicit shifts *)
Theorem C01_resize_operator_adjoint : forall (R : StarRing) arr scal orc o i isf osf,
  wf (Resize o i isf osf) = true ->
  shift_ok (Nat.max (length i) (length o)) isf -> shift_ok (Nat.max (length i) (length o)) osf ->
  apair R arr scal orc (Resize o i isf osf).
Proof. exact apair_resize. Qed.
(* any shifts (negative, larger than the axis), negative and repeated axes, axes = None *)
Theorem C01_circshift_adjoint : forall (R : StarRing) arr scal orc s sh ax,
  wf (Circshift s sh ax) = true -> apair R arr scal orc (Circshift s sh ax).
Proof. exact apair_circshift. Qed.
(* basic indices: integers, slices with positive / negative steps and None bounds *)
Theorem C01_slice_adjoint : forall (R : StarRing) arr scal orc i idx,
  wf (Slice i idx) = true -> apair R arr scal orc (Slice i idx).
Proof. exact apair_slice. Qed.
Theorem C01_embed_adjoint : forall (R : StarRing) arr scal orc o idx,
  wf (Embed o idx) = true -> apair R arr scal orc (Embed o idx).
Proof. exact apair_embed. Qed.
Theorem C01_sum_adjoint : forall (R : StarRing) arr scal orc i axes,
  wf (Sum i axes) = true -> apair R arr scal orc (Sum i axes).
Proof. exact apair_sum. Qed.
Theorem C01_tile_adjoint : forall (R : StarRing) arr scal orc o axes,
  wf (Tile o axes) = true -> apair R arr scal orc (Tile o axes).
Proof. exact apair_tile. Qed.
Theorem C01_transpose_reverse_adjoint : forall (R : StarRing) arr scal orc i,
  wf (Transpose i None) = true -> apair R arr scal orc (Transpose i None).
Proof. exact apair_transpose_none. Qed.
(* raw axes incl. negative entries: the normalised axes must be a permutation (numpy raises otherwise) *)
Theorem C01_transpose_axes_adjoint : forall (R : StarRing) arr scal orc i ax,
  wf (Transpose i (Some ax)) = true -> is_perm (length i) (map (fun a => a mod lenZ i) ax) ->
  apair R arr scal orc (Transpose i (Some ax)).
Proof. exact apair_transpose_some. Qed.
Print Assumptions C01_resize_operator_adjoint.
Print Assumptions C01_circshift_adjoint.
Print Assumptions C01_transpose_axes_adjoint.

(* NO node hypothesis: every Conj / + / - / scaling / composition tree over Identity, Flip, Down/Upsample, scalar Multiply,
   Reshape, Resize, Circshift, Slice, Embed, Sum, Tile, Transpose leaves *)
Theorem C01_adjoint_unconditional_fragment_A : forall (R : StarRing) arr scal orc A,
  wf A = true -> nodes_ok (fun L => proven_nodeA L = true /\ wf L = true) A -> apair R arr scal orc A.
Proof. exact adj_correct_provenA. Qed.
Print Assumptions C01_adjoint_unconditional_fragment_A.

(* ---- stacking combinators, every axis in [-ndim, ndim) and None (proofs/LinopStack.v) ---- *)


Theorem C01_hstack_adjoint :
  forall (R : StarRing) arr scal orc ls axis,
    wf (Hstack ls axis) = true ->
    Forall (fun a => forall x y, inner (oshape_of a) (D R arr scal orc a x) y = inner (ishape_of a) x (D R arr scal orc (adj a) y)) ls ->
    Forall (fun a => forall o i, shapes a = Ok (o, i) -> shapes (adj a) = Ok (i, o)) ls ->
    forall x y, inner (oshape_of (Hstack ls axis)) (D R arr scal orc (Hstack ls axis) x) y
              = inner (ishape_of (Hstack ls axis)) x (D R arr scal orc (Vstack (map adj ls) axis) y).
Proof. exact apair_hstack. Qed.

Theorem C01_vstack_adjoint :
  forall (R : StarRing) arr scal orc ls axis,
    wf (Vstack ls axis) = true ->
    Forall (apair R arr scal orc) ls -> Forall adj_shape_ok ls ->
    forall x y, inner (oshape_of (Vstack ls axis)) (D R arr scal orc (Vstack ls axis) x) y
              = inner (ishape_of (Vstack ls axis)) x (D R arr scal orc (Hstack (map adj ls) axis) y).
Proof. exact apair_vstack. Qed.

Theorem C01_diag_adjoint :
  forall (R : StarRing) arr scal orc ls oaxis iaxis,
    wf (Diag ls oaxis iaxis) = true ->
    Forall (apair R arr scal orc) ls -> Forall adj_shape_ok ls ->
    forall x y, inner (oshape_of (Diag ls oaxis iaxis)) (D R arr scal orc (Diag ls oaxis iaxis) x) y
              = inner (ishape_of (Diag ls oaxis iaxis)) x (D R arr scal orc (Diag (map adj ls) iaxis oaxis) y).
Proof. exact apair_diag. Qed.

Theorem C01_adjoint_through_stacking :
  forall (R : StarRing) arr scal orc A,
    wf A = true ->
    nodes_ok' (fun L => (forall x y, inner (oshape_of L) (D R arr scal orc L x) y = inner (ishape_of L) x (D R arr scal orc (adj L) y))
                        /\ (forall o i, shapes L = Ok (o, i) -> shapes (adj L) = Ok (i, o))) A ->
    (forall x y, inner (oshape_of A) (D R arr scal orc A x) y = inner (ishape_of A) x (D R arr scal orc (adj A) y))
    /\ (forall o i, shapes A = Ok (o, i) -> shapes (adj A) = Ok (i, o)).
Proof. exact adj_correct_stack. Qed.

Theorem C01_adjoint_unconditional_fragment_with_stacking :
  forall (R : StarRing) arr scal orc A,
    wf A = true -> nodes_ok' (fun L => proven_node L = true /\ wf L = true) A ->
    forall x y, inner (oshape_of A) (D R arr scal orc A x) y = inner (ishape_of A) x (D R arr scal orc (adj A) y).
Proof. exact adj_correct_stack_proven. Qed.
Print Assumptions C01_hstack_adjoint.
Print Assumptions C01_vstack_adjoint.
Print Assumptions C01_diag_adjoint.
Print Assumptions C01_adjoint_through_stacking.
Print Assumptions C01_adjoint_unconditional_fragment_with_stacking.

(* ---- Multiply (any broadcast), MatMul / RightMatMul (any batch broadcast), block operators 1-3 D (proofs/LinopLeavesB*.v) ---- *)


Theorem C01_multiply_adjoint :
  forall (R : StarRing) arr scal orc i m c,
    wf (Multiply i m c) = true -> apair R arr scal orc (Multiply i m c).
Proof. exact apair_multiply. Qed.
Print Assumptions C01_multiply_adjoint.

Theorem C01_matmul_adjoint :
  forall (R : StarRing) arr scal orc i a adjoint,
    wf (MatMul i a adjoint) = true -> apair R arr scal orc (MatMul i a adjoint).
Proof. exact apair_matmul. Qed.

Theorem C01_right_matmul_adjoint :
  forall (R : StarRing) arr scal orc i a adjoint,
    wf (RightMatMul i a adjoint) = true -> apair R arr scal orc (RightMatMul i a adjoint).
Proof. exact apair_right_matmul. Qed.

Theorem C01_array_to_blocks_1d_adjoint :
  forall (R : StarRing) arr scal orc i Bk Sk,
    i <> [] -> 0 < Sk -> wf (ArrayToBlocks i [Bk] [Sk]) = true -> apair R arr scal orc (ArrayToBlocks i [Bk] [Sk]).
Proof. exact apair_array_to_blocks_1d. Qed.

Theorem C01_blocks_to_array_1d_adjoint :
  forall (R : StarRing) arr scal orc o Bk Sk,
    o <> [] -> 0 < Sk -> wf (BlocksToArray o [Bk] [Sk]) = true -> apair R arr scal orc (BlocksToArray o [Bk] [Sk]).
Proof. exact apair_blocks_to_array_1d. Qed.

Theorem C01_array_to_blocks_2d_adjoint :
  forall (R : StarRing) arr scal orc i By Bx Sy Sx,
    (2 <= length i)%nat -> 0 < Sy -> 0 < Sx ->
    wf (ArrayToBlocks i [By; Bx] [Sy; Sx]) = true -> apair R arr scal orc (ArrayToBlocks i [By; Bx] [Sy; Sx]).
Proof. exact apair_array_to_blocks_2d. Qed.

Theorem C01_blocks_to_array_2d_adjoint :
  forall (R : StarRing) arr scal orc o By Bx Sy Sx,
    (2 <= length o)%nat -> 0 < Sy -> 0 < Sx ->
    wf (BlocksToArray o [By; Bx] [Sy; Sx]) = true -> apair R arr scal orc (BlocksToArray o [By; Bx] [Sy; Sx]).
Proof. exact apair_blocks_to_array_2d. Qed.

Theorem C01_array_to_blocks_3d_adjoint :
  forall (R : StarRing) arr scal orc i Bz By Bx Sz Sy Sx,
    (3 <= length i)%nat -> 0 < Sz -> 0 < Sy -> 0 < Sx ->
    wf (ArrayToBlocks i [Bz; By; Bx] [Sz; Sy; Sx]) = true -> apair R arr scal orc (ArrayToBlocks i [Bz; By; Bx] [Sz; Sy; Sx]).
Proof. exact apair_array_to_blocks_3d. Qed.

Theorem C01_blocks_to_array_3d_adjoint :
  forall (R : StarRing) arr scal orc o Bz By Bx Sz Sy Sx,
    (3 <= length o)%nat -> 0 < Sz -> 0 < Sy -> 0 < Sx ->
    wf (BlocksToArray o [Bz; By; Bx] [Sz; Sy; Sx]) = true -> apair R arr scal orc (BlocksToArray o [Bz; By; Bx] [Sz; Sy; Sx]).
Proof. exact apair_blocks_to_array_3d. Qed.

Theorem C01_adjoint_unconditional_fragment_B :
  forall (R : StarRing) arr scal orc A,
    wf A = true -> nodes_ok (fun L => (proven_node L || proven_nodeB2 L) = true /\ wf L = true) A ->
    forall x y, inner (oshape_of A) (D R arr scal orc A x) y = inner (ishape_of A) x (D R arr scal orc (adj A) y).
Proof. exact adj_correct_provenB2. Qed.
Print Assumptions C01_adjoint_unconditional_fragment_B.

Theorem C01_adjoint_unconditional_fragment_B1 :
  forall (R : StarRing) arr scal orc A,
    wf A = true -> nodes_ok (fun L => (proven_node L || proven_nodeB L) = true /\ wf L = true) A ->
    forall x y, inner (oshape_of A) (D R arr scal orc A x) y = inner (ishape_of A) x (D R arr scal orc (adj A) y).
Proof. exact adj_correct_provenB. Qed.
Print Assumptions C01_multiply_adjoint.
Print Assumptions C01_adjoint_unconditional_fragment_B.
Print Assumptions C01_adjoint_unconditional_fragment_B1.

(* non-vacuity: a depth-3 tree mixing Resize / Flip / Downsample / Conj / + / composition is well-formed *)
Example C01_example_tree_wf :
  wf (Compose [Add [Conj (Flip [3; 2] (Some [-1])); Compose [Resize [3; 2] [3; 4] None None; Upsample [3; 4] [1; 2] [0; 0]]];
               Downsample [5; 4] [2; 2] [0; 0]; Resize [5; 4] [3; 3] (Some [0; 1]) None]) = true.
Proof. vm_compute. reflexivity. Qed.
