(* Prop_C01 — every operator's adjoint is its true adjoint.  Statements only (`exact`), over an
   arbitrary commutative *-ring R (so in particular for real and complex x, y), for every
   operator expression; D A = den ... noforce A is the denotation of coq/model/Linop.v. *)
From Coq Require Import ZArith List Bool.
From SV Require Import lib.Scalar lib.BigSum lib.NdArray lib.Gather model.Rearrange model.Block model.Linop
  proofs.LinopTheory proofs.LinopLeaves proofs.Rearrange proofs.LinopScale proofs.LinopLeavesA proofs.LinopStack proofs.LinopLeavesB proofs.LinopLeavesB2 proofs.LinopAll.
(* gen.Gen_linop_table: the _adjoint_linop / _normal_linop table GENERATED from linop.py, with lemmas gen_*_ok stating
   that it equals the hand model's adj / normal; importing it makes those lemmas part of this property's proof cone *)
From SV Require gen.Gen_linop_table.
Import ListNotations.
Local Open Scope Z_scope.

(* For EVERY expression tree built with Conj, +, composition (incl. the scalar and sign overloads,
   which are compositions with Multiply leaves, and python's flattening of nested compositions):
   if every other node L of the tree satisfies <L x, y> = <x, L^H y>, then so does the tree, with
   the operator returned by the modelled _adjoint_linop and with shapes swapped. *)
Theorem C01_adjoint_of_every_tree :
  forall (R : StarRing) (arr : Z -> list Z -> R) (scal : Z -> R) (orc : linop -> (list Z -> R) -> list Z -> R) (A : linop),
    wf A = true ->
    nodes_ok (fun L => forall x y, inner (oshape_of L) (D R arr scal orc L x) y
                                   = inner (ishape_of L) x (D R arr scal orc (adj L) y)) A ->
    forall x y, inner (oshape_of A) (D R arr scal orc A x) y = inner (ishape_of A) x (D R arr scal orc (adj A) y).
Proof. exact adj_correct. Qed.
Print Assumptions C01_adjoint_of_every_tree.

(* the node hypothesis, discharged for concrete leaf classes (every valid parameter) *)
Theorem C01_identity_adjoint :
  forall (R : StarRing) arr scal orc s, wf (Identity s) = true -> apair R arr scal orc (Identity s).
Proof. exact apair_identity. Qed.
Print Assumptions C01_identity_adjoint.

Theorem C01_flip_adjoint :
  forall (R : StarRing) arr scal orc s ax, wf (Flip s ax) = true -> apair R arr scal orc (Flip s ax).
Proof. exact apair_flip. Qed.
Print Assumptions C01_flip_adjoint.

Theorem C01_downsample_adjoint :
  forall (R : StarRing) arr scal orc i f sh,
    wf (Downsample i f sh) = true -> length f = length i -> length sh = length i ->
    Forall (fun v => 0 < v) f -> Forall (fun v => 0 <= v) sh -> apair R arr scal orc (Downsample i f sh).
Proof. exact apair_downsample. Qed.
Print Assumptions C01_downsample_adjoint.

Theorem C01_upsample_adjoint :
  forall (R : StarRing) arr scal orc o f sh,
    wf (Upsample o f sh) = true -> length f = length o -> length sh = length o ->
    Forall (fun v => 0 < v) f -> Forall (fun v => 0 <= v) sh -> apair R arr scal orc (Upsample o f sh).
Proof. exact apair_upsample. Qed.
Print Assumptions C01_upsample_adjoint.

(* Resize / its shift-swapped partner (the operator Resize.H constructs) on expanded shapes of equal rank *)
Theorem C01_resize_adjoint :
  forall (R : StarRing) i1 o1 si so,
    length i1 = length o1 -> length si = length i1 -> length so = length i1 ->
    Forall (fun v => 0 <= v) si -> Forall (fun v => 0 <= v) so ->
    forall x y : list Z -> R,
      inner o1 (gatherN (zip4 resize_ax i1 o1 si so) x) y = inner i1 x (gatherN (zip4 resize_ax o1 i1 so si) y).
Proof. exact resize_gather_adjoint. Qed.
Print Assumptions C01_resize_adjoint.

(* the generic engines: any operator given by a kernel, any gather by mutually inverse partial bijections *)
Theorem C01_kernel_adjoint :
  forall (R : StarRing) si so (k k' : list Z -> list Z -> R),
    (forall o i, inbox so o -> inbox si i -> k' i o = conj (k o i)) ->
    forall x y, inner so (kernel_op si k x) y = inner si x (kernel_op so k' y).
Proof. exact kernel_adjoint. Qed.
Print Assumptions C01_kernel_adjoint.

Theorem C01_gather_adjoint :
  forall (R : StarRing) si so ms ms', axes_pbij si so ms ms' ->
    forall x y : list Z -> R, inner so (gatherN ms x) y = inner si x (gatherN ms' y).
Proof. exact gatherN_adjoint. Qed.
Print Assumptions C01_gather_adjoint.

(* <A x, y> = <x, B y>  implies  <B y, x> = <y, A x>: the adjoint of the adjoint acts like the original *)
Theorem C01_adjoint_is_symmetric :
  forall (R : StarRing) si so F G, adjoint_pair R si so F G -> adjoint_pair R so si G F.
Proof. exact adjoint_pair_sym. Qed.
Print Assumptions C01_adjoint_is_symmetric.

(* scalar multiples: the leaf Multiply(shape, a) that `a * A`, `A * a`, `-A`, `A - B` are built from, together with
   the composite Reshape * Sum * Multiply(conj) returned by its _adjoint_linop *)
Theorem C01_scalar_multiple_adjoint :
  forall (R : StarRing) arr scal orc i t c,
    i <> [] -> wf (Multiply i (MScalar t) c) = true -> apair R arr scal orc (Multiply i (MScalar t) c).
Proof. exact apair_scale. Qed.
Print Assumptions C01_scalar_multiple_adjoint.

(* NO hypothesis on the nodes: every expression over Conj, +, -, composition, a*A, A*a, -A with Identity / Flip /
   Downsample / Upsample leaves satisfies <A x, y> = <x, A^H y> with the modelled adjoint *)
Theorem C01_adjoint_unconditional_fragment :
  forall (R : StarRing) arr scal orc A,
    wf A = true -> nodes_ok (fun L => proven_node L = true /\ wf L = true) A ->
    forall x y, inner (oshape_of A) (D R arr scal orc A x) y = inner (ishape_of A) x (D R arr scal orc (adj A) y).
Proof. exact adj_correct_proven. Qed.
Print Assumptions C01_adjoint_unconditional_fragment.

Example C01_fragment_example :
  let A := op_sub (Compose [Conj (Flip [3; 2] (Some [-1])); Downsample [5; 4] [2; 2] [0; 0]])
                  (op_lscale 7 (Compose [Flip [3; 2] None; Downsample [5; 4] [2; 2] [0; 0]])) in
  wf A = true /\ nodes_ok (fun L => proven_node L = true /\ wf L = true) A.
Proof. vm_compute. repeat split; reflexivity. Qed.

(* ---- more leaf classes, every valid parameter choice (proofs/LinopLeavesA.v) ---- *)
Theorem C01_reshape_adjoint : forall (R : StarRing) arr scal orc o i,
  wf (Reshape o i) = true -> prodZ o = prodZ i -> apair R arr scal orc (Reshape o i).
Proof. exact apair_reshape. Qed.
(* the full util.resize: unequal ranks, early return, default and explicit shifts *)
Theorem C01_resize_operator_adjoint : forall (R : StarRing) arr scal orc o i isf osf,
  wf (Resize o i isf osf) = true ->
  shift_ok (Nat.max (length i) (length o)) isf -> shift_ok (Nat.max (length i) (length o)) osf ->
  apair R arr scal orc (Resize o i isf osf).
Proof. exact apair_resize. Qed.
(* any shifts (negative, larger than the axis), negative and repeated axes, axes = None *)
Theorem C01_circshift_adjoint : forall (R : StarRing) arr scal orc s sh ax,
  wf (Circshift s sh ax) = true -> apair R arr scal orc (Circshift s sh ax).
Proof. exact apair_circshift. Qed.
(* basic indices: integers, slices with positive / negative steps and None bounds *)
Theorem C01_slice_adjoint : forall (R : StarRing) arr scal orc i idx,
  wf (Slice i idx) = true -> apair R arr scal orc (Slice i idx).
Proof. exact apair_slice. Qed.
Theorem C01_embed_adjoint : forall (R : StarRing) arr scal orc o idx,
  wf (Embed o idx) = true -> apair R arr scal orc (Embed o idx).
Proof. exact apair_embed. Qed.
Theorem C01_sum_adjoint : forall (R : StarRing) arr scal orc i axes,
  wf (Sum i axes) = true -> apair R arr scal orc (Sum i axes).
Proof. exact apair_sum. Qed.
Theorem C01_tile_adjoint : forall (R : StarRing) arr scal orc o axes,
  wf (Tile o axes) = true -> apair R arr scal orc (Tile o axes).
Proof. exact apair_tile. Qed.
Theorem C01_transpose_reverse_adjoint : forall (R : StarRing) arr scal orc i,
  wf (Transpose i None) = true -> apair R arr scal orc (Transpose i None).
Proof. exact apair_transpose_none. Qed.
(* raw axes incl. negative entries: the normalised axes must be a permutation (numpy raises otherwise) *)
Theorem C01_transpose_axes_adjoint : forall (R : StarRing) arr scal orc i ax,
  wf (Transpose i (Some ax)) = true -> is_perm (length i) (map (fun a => a mod lenZ i) ax) ->
  apair R arr scal orc (Transpose i (Some ax)).
Proof. exact apair_transpose_some. Qed.
Print Assumptions C01_resize_operator_adjoint.
Print Assumptions C01_circshift_adjoint.
Print Assumptions C01_transpose_axes_adjoint.

(* NO node hypothesis: every Conj / + / - / scaling / composition tree over Identity, Flip, Down/Upsample, scalar Multiply,
   Reshape, Resize, Circshift, Slice, Embed, Sum, Tile, Transpose leaves *)
Theorem C01_adjoint_unconditional_fragment_A : forall (R : StarRing) arr scal orc A,
  wf A = true -> nodes_ok (fun L => proven_nodeA L = true /\ wf L = true) A -> apair R arr scal orc A.
Proof. exact adj_correct_provenA. Qed.
Print Assumptions C01_adjoint_unconditional_fragment_A.

(* ---- stacking combinators, every axis in [-ndim, ndim) and None (proofs/LinopStack.v) ---- *)


Theorem C01_hstack_adjoint :
  forall (R : StarRing) arr scal orc ls axis,
    wf (Hstack ls axis) = true ->
    Forall (fun a => forall x y, inner (oshape_of a) (D R arr scal orc a x) y = inner (ishape_of a) x (D R arr scal orc (adj a) y)) ls ->
    Forall (fun a => forall o i, shapes a = Ok (o, i) -> shapes (adj a) = Ok (i, o)) ls ->
    forall x y, inner (oshape_of (Hstack ls axis)) (D R arr scal orc (Hstack ls axis) x) y
              = inner (ishape_of (Hstack ls axis)) x (D R arr scal orc (Vstack (map adj ls) axis) y).
Proof. exact apair_hstack. Qed.

Theorem C01_vstack_adjoint :
  forall (R : StarRing) arr scal orc ls axis,
    wf (Vstack ls axis) = true ->
    Forall (apair R arr scal orc) ls -> Forall adj_shape_ok ls ->
    forall x y, inner (oshape_of (Vstack ls axis)) (D R arr scal orc (Vstack ls axis) x) y
              = inner (ishape_of (Vstack ls axis)) x (D R arr scal orc (Hstack (map adj ls) axis) y).
Proof. exact apair_vstack. Qed.

Theorem C01_diag_adjoint :
  forall (R : StarRing) arr scal orc ls oaxis iaxis,
    wf (Diag ls oaxis iaxis) = true ->
    Forall (apair R arr scal orc) ls -> Forall adj_shape_ok ls ->
    forall x y, inner (oshape_of (Diag ls oaxis iaxis)) (D R arr scal orc (Diag ls oaxis iaxis) x) y
              = inner (ishape_of (Diag ls oaxis iaxis)) x (D R arr scal orc (Diag (map adj ls) iaxis oaxis) y).
Proof. exact apair_diag. Qed.

Theorem C01_adjoint_through_stacking :
  forall (R : StarRing) arr scal orc A,
    wf A = true ->
    nodes_ok' (fun L => (forall x y, inner (oshape_of L) (D R arr scal orc L x) y = inner (ishape_of L) x (D R arr scal orc (adj L) y))
                        /\ (forall o i, shapes L = Ok (o, i) -> shapes (adj L) = Ok (i, o))) A ->
    (forall x y, inner (oshape_of A) (D R arr scal orc A x) y = inner (ishape_of A) x (D R arr scal orc (adj A) y))
    /\ (forall o i, shapes A = Ok (o, i) -> shapes (adj A) = Ok (i, o)).
Proof. exact adj_correct_stack. Qed.

Theorem C01_adjoint_unconditional_fragment_with_stacking :
  forall (R : StarRing) arr scal orc A,
    wf A = true -> nodes_ok' (fun L => proven_node L = true /\ wf L = true) A ->
    forall x y, inner (oshape_of A) (D R arr scal orc A x) y = inner (ishape_of A) x (D R arr scal orc (adj A) y).
Proof. exact adj_correct_stack_proven. Qed.
Print Assumptions C01_hstack_adjoint.
Print Assumptions C01_vstack_adjoint.
Print Assumptions C01_diag_adjoint.
Print Assumptions C01_adjoint_through_stacking.
Print Assumptions C01_adjoint_unconditional_fragment_with_stacking.

(* ---- Multiply (any broadcast), MatMul / RightMatMul (any batch broadcast), block operators 1-3 D (proofs/LinopLeavesB*.v) ---- *)


Theorem C01_multiply_adjoint :
  forall (R : StarRing) arr scal orc i m c,
    wf (Multiply i m c) = true -> apair R arr scal orc (Multiply i m c).
Proof. exact apair_multiply. Qed.
Print Assumptions C01_multiply_adjoint.

Theorem C01_matmul_adjoint :
  forall (R : StarRing) arr scal orc i a adjoint,
    wf (MatMul i a adjoint) = true -> apair R arr scal orc (MatMul i a adjoint).
Proof. exact apair_matmul. Qed.

Theorem C01_right_matmul_adjoint :
  forall (R : StarRing) arr scal orc i a adjoint,
    wf (RightMatMul i a adjoint) = true -> apair R arr scal orc (RightMatMul i a adjoint).
Proof. exact apair_right_matmul. Qed.

Theorem C01_array_to_blocks_1d_adjoint :
  forall (R : StarRing) arr scal orc i Bk Sk,
    i <> [] -> 0 < Sk -> wf (ArrayToBlocks i [Bk] [Sk]) = true -> apair R arr scal orc (ArrayToBlocks i [Bk] [Sk]).
Proof. exact apair_array_to_blocks_1d. Qed.

Theorem C01_blocks_to_array_1d_adjoint :
  forall (R : StarRing) arr scal orc o Bk Sk,
    o <> [] -> 0 < Sk -> wf (BlocksToArray o [Bk] [Sk]) = true -> apair R arr scal orc (BlocksToArray o [Bk] [Sk]).
Proof. exact apair_blocks_to_array_1d. Qed.

Theorem C01_array_to_blocks_2d_adjoint :
  forall (R : StarRing) arr scal orc i By Bx Sy Sx,
    (2 <= length i)%nat -> 0 < Sy -> 0 < Sx ->
    wf (ArrayToBlocks i [By; Bx] [Sy; Sx]) = true -> apair R arr scal orc (ArrayToBlocks i [By; Bx] [Sy; Sx]).
Proof. exact apair_array_to_blocks_2d. Qed.

Theorem C01_blocks_to_array_2d_adjoint :
  forall (R : StarRing) arr scal orc o By Bx Sy Sx,
    (2 <= length o)%nat -> 0 < Sy -> 0 < Sx ->
    wf (BlocksToArray o [By; Bx] [Sy; Sx]) = true -> apair R arr scal orc (BlocksToArray o [By; Bx] [Sy; Sx]).
Proof. exact apair_blocks_to_array_2d. Qed.

Theorem C01_array_to_blocks_3d_adjoint :
  forall (R : StarRing) arr scal orc i Bz By Bx Sz Sy Sx,
    (3 <= length i)%nat -> 0 < Sz -> 0 < Sy -> 0 < Sx ->
    wf (ArrayToBlocks i [Bz; By; Bx] [Sz; Sy; Sx]) = true -> apair R arr scal orc (ArrayToBlocks i [Bz; By; Bx] [Sz; Sy; Sx]).
Proof. exact apair_array_to_blocks_3d. Qed.

Theorem C01_blocks_to_array_3d_adjoint :
  forall (R : StarRing) arr scal orc o Bz By Bx Sz Sy Sx,
    (3 <= length o)%nat -> 0 < Sz -> 0 < Sy -> 0 < Sx ->
    wf (BlocksToArray o [Bz; By; Bx] [Sz; Sy; Sx]) = true -> apair R arr scal orc (BlocksToArray o [Bz; By; Bx] [Sz; Sy; Sx]).
Proof. exact apair_blocks_to_array_3d. Qed.

Theorem C01_adjoint_unconditional_fragment_B :
  forall (R : StarRing) arr scal orc A,
    wf A = true -> nodes_ok (fun L => (proven_node L || proven_nodeB2 L) = true /\ wf L = true) A ->
    forall x y, inner (oshape_of A) (D R arr scal orc A x) y = inner (ishape_of A) x (D R arr scal orc (adj A) y).
Proof. exact adj_correct_provenB2. Qed.
Print Assumptions C01_adjoint_unconditional_fragment_B.

Theorem C01_adjoint_unconditional_fragment_B1 :
  forall (R : StarRing) arr scal orc A,
    wf A = true -> nodes_ok (fun L => (proven_node L || proven_nodeB L) = true /\ wf L = true) A ->
    forall x y, inner (oshape_of A) (D R arr scal orc A x) y = inner (ishape_of A) x (D R arr scal orc (adj A) y).
Proof. exact adj_correct_provenB. Qed.
Print Assumptions C01_multiply_adjoint.
Print Assumptions C01_adjoint_unconditional_fragment_B.
Print Assumptions C01_adjoint_unconditional_fragment_B1.

(* ---- every operator: all combinators over all modelled leaf classes; adjoint of the adjoint (proofs/LinopAll.v) ---- *)


(* ---- proofs/LinopLeavesB.v, LinopLeavesB2.v : per-class predicate lemmas not yet in Prop_C01 ---- *)
Theorem C01_proven_nodeB_adjoint :
  forall (R : StarRing) arr scal orc L, proven_nodeB L = true -> wf L = true -> apair R arr scal orc L.
Proof. exact proven_nodeB_apair. Qed.

Theorem C01_proven_nodeB2_adjoint :
  forall (R : StarRing) arr scal orc L, proven_nodeB2 L = true -> wf L = true -> apair R arr scal orc L.
Proof. exact proven_nodeB2_apair. Qed.

(* the engine behind Multiply / MatMul: <x (x) m, y> over the broadcast box = <x, Reshape (Sum_axes (y . conj m))> *)
Theorem C01_broadcast_multiply_core :
  forall (R : StarRing) ie me o di i (x y mf : list Z -> R), ax3 ie me o -> ie = repeat 1 di ++ i ->
    let mask := bmask ie me o in
    let os := mrem mask o in
    sumB o (fun ov => mul (mul (x (skipn di (zip2 msk1 ie ov))) (mf ov)) (conj (y ov))) =
    sumB i (fun iv => mul (x iv) (conj (sumB (mkeep mask o) (fun k =>
        mul (y (mmerge mask (unravel os (ravel i iv)) k)) (conj (mf (mmerge mask (unravel os (ravel i iv)) k))))))).
Proof. exact multiply_core. Qed.

(* a gather along f and the scatter-add along the same f are adjoint (ArrayToBlocks / BlocksToArray) *)
Theorem C01_gather_scatter_adjoint :
  forall (R : StarRing) si so (f : list Z -> list Z) (u w : list Z -> R),
    (forall o, inbox so o -> inbox si (f o)) ->
    inner so (fun o => u (f o)) w =
    inner si u (fun i => add zero (sumB so (fun o => if idx_eqb (f o) i then w o else zero))).
Proof. exact gather_scatter_adjoint. Qed.

(* ---- proofs/LinopAll.v ---- *)
(* (1) shapes (adj L) = swapped shapes L for the leaf classes not covered by adj_shape_leaf *)
Theorem C01_adjoint_shapes_transpose_axes :
  forall i ax, transpose_axes_okb i ax = true ->
    forall o i', shapes (Transpose i (Some ax)) = Ok (o, i') -> shapes (adj (Transpose i (Some ax))) = Ok (i', o).
Proof. exact adj_shape_transpose. Qed.

Theorem C01_adjoint_shapes_multiply :
  forall i m c o i', shapes (Multiply i m c) = Ok (o, i') -> shapes (adj (Multiply i m c)) = Ok (i', o).
Proof. exact adj_shape_multiply. Qed.

Theorem C01_adjoint_shapes_matmul :
  forall i a adjoint o i', shapes (MatMul i a adjoint) = Ok (o, i') -> shapes (adj (MatMul i a adjoint)) = Ok (i', o).
Proof. exact adj_shape_matmul. Qed.

Theorem C01_adjoint_shapes_right_matmul :
  forall i a adjoint o i', shapes (RightMatMul i a adjoint) = Ok (o, i') -> shapes (adj (RightMatMul i a adjoint)) = Ok (i', o).
Proof. exact adj_shape_right_matmul. Qed.

(* the modelled adjoint of Multiply is literally Reshape . Sum . Multiply(conj), with fitting shapes *)
Theorem C01_multiply_adjoint_form :
  forall i m c, wf (Multiply i m c) = true -> exists o os axes,
    shapes (Multiply i m c) = Ok (o, i) /\
    adj (Multiply i m c) = Compose [Reshape i os; Sum o axes; Multiply o m (negb c)] /\
    shapes (Reshape i os) = Ok (i, os) /\ prodZ i = prodZ os /\
    shapes (Sum o axes) = Ok (os, o) /\ shapes (Multiply o m (negb c)) = Ok (o, o).
Proof. exact multiply_adj_form. Qed.

(* (2) one boolean predicate for every leaf class with a modelled denotation *)
Theorem C01_proven_all_leaf :
  forall (R : StarRing) arr scal orc L, proven_all L = true -> wf L = true ->
    apair R arr scal orc L /\ adj_shape_ok L.
Proof. exact proven_all_leaf_ok. Qed.

Theorem C01_library_backed_disjoint : forall L, library_backed L = true -> proven_all L = false.
Proof. exact library_backed_disjoint. Qed.

(* THE theorem: every operator expression, through Conj, Add, Compose, Hstack, Vstack, Diag.  Leaves with a modelled
   denotation pass a boolean check; library-backed leaves (FFT, IFFT, Interpolate, Gridding, Wavelet, InverseWavelet,
   NUFFT, NUFFTAdjoint, Convolve...) bring their own adjoint identity. *)
Theorem C01_adjoint_of_every_operator :
  forall (R : StarRing) arr scal orc A,
    wf A = true ->
    nodes_ok' (fun L => (proven_all L = true /\ wf L = true) \/
                        (library_backed L = true /\ leaf_ok R arr scal orc L)) A ->
    (forall x y, inner (oshape_of A) (D R arr scal orc A x) y = inner (ishape_of A) x (D R arr scal orc (adj A) y)) /\
    (forall o i, shapes A = Ok (o, i) -> shapes (adj A) = Ok (i, o)).
Proof. exact adj_correct_all. Qed.
Print Assumptions C01_adjoint_of_every_operator.

(* the same, asking the library-backed leaves ONLY for <L x, y> = <x, L^H y> (their shapes swap for every parameter) *)
Theorem C01_adjoint_of_every_operator' :
  forall (R : StarRing) arr scal orc A,
    wf A = true ->
    nodes_ok' (fun L => (proven_all L = true /\ wf L = true) \/
                        (library_backed L = true /\
                         forall x y, inner (oshape_of L) (D R arr scal orc L x) y
                                     = inner (ishape_of L) x (D R arr scal orc (adj L) y))) A ->
    (forall x y, inner (oshape_of A) (D R arr scal orc A x) y = inner (ishape_of A) x (D R arr scal orc (adj A) y)) /\
    (forall o i, shapes A = Ok (o, i) -> shapes (adj A) = Ok (i, o)).
Proof. exact adj_correct_all'. Qed.
Print Assumptions C01_adjoint_of_every_operator'.

(* no library-backed leaf: NO hypothesis besides wf and the boolean check *)
Theorem C01_adjoint_unconditional_all :
  forall (R : StarRing) arr scal orc A,
    wf A = true -> nodes_ok' (fun L => proven_all L = true /\ wf L = true) A ->
    (forall x y, inner (oshape_of A) (D R arr scal orc A x) y = inner (ishape_of A) x (D R arr scal orc (adj A) y)) /\
    (forall o i, shapes A = Ok (o, i) -> shapes (adj A) = Ok (i, o)).
Proof. exact adj_correct_all_proven. Qed.
Print Assumptions C01_adjoint_unconditional_all.

(* (3) the adjoint of the adjoint acts like the original *)
Theorem C01_adjoint_of_adjoint :
  forall (R : StarRing) arr scal orc A,
    wf A = true -> apair R arr scal orc A -> apair R arr scal orc (adj A) -> adj_shape_ok A ->
    forall x o, inbox (oshape_of A) o -> D R arr scal orc (adj (adj A)) x o = D R arr scal orc A x o.
Proof. exact adj_adj_acts. Qed.
Print Assumptions C01_adjoint_of_adjoint.

(* the proven fragment is closed under adj (Multiply -> Reshape . Sum . Multiply, Downsample <-> Upsample,
   Hstack <-> Vstack, Transpose by p -> Transpose by argsort p, flattening of compositions, ...) *)
Theorem C01_fragment_closed_under_adjoint :
  forall A, wf A = true -> nodes_ok' (fun L => proven_all L = true /\ wf L = true) A ->
    nodes_ok' (fun L => proven_all L = true /\ wf L = true) (adj A).
Proof. exact proven_closed_adj. Qed.

Theorem C01_adjoint_in_fragment :
  forall (R : StarRing) arr scal orc A,
    wf A = true -> nodes_ok' (fun L => proven_all L = true /\ wf L = true) A ->
    wf (adj A) = true /\ nodes_ok' (fun L => proven_all L = true /\ wf L = true) (adj A) /\
    oshape_of (adj A) = ishape_of A /\ ishape_of (adj A) = oshape_of A /\
    apair R arr scal orc (adj A).
Proof. exact adj_in_fragment. Qed.

(* NO hypothesis: on the proven fragment A.H.H x = A x on the output box *)
Theorem C01_adjoint_of_adjoint_unconditional :
  forall (R : StarRing) arr scal orc A,
    wf A = true -> nodes_ok' (fun L => proven_all L = true /\ wf L = true) A ->
    forall x o, inbox (oshape_of A) o -> D R arr scal orc (adj (adj A)) x o = D R arr scal orc A x o.
Proof. exact adj_adj_acts_proven. Qed.
Print Assumptions C01_adjoint_of_adjoint_unconditional.

(* with library-backed leaves: each such leaf and its adjoint leaf must satisfy their own adjoint identity *)
Theorem C01_adjoint_of_adjoint_all :
  forall (R : StarRing) arr scal orc A,
    wf A = true ->
    nodes_ok' (fun L => (proven_all L = true /\ wf L = true) \/
                        (library_backed L = true /\ apair R arr scal orc L /\ apair R arr scal orc (adj L))) A ->
    forall x o, inbox (oshape_of A) o -> D R arr scal orc (adj (adj A)) x o = D R arr scal orc A x o.
Proof. exact adj_adj_acts_all. Qed.
Print Assumptions C01_adjoint_of_adjoint_all.

(* non-vacuity: a tree through Add, Conj, Compose, Hstack, Vstack, Diag, the scalar overload, over Identity, Transpose
   (negative axes), Sum, Slice, Reshape, array Multiply (input broadcast), BlocksToArray, MatMul, ArrayToBlocks *)
Example C01_all_example :
  let H1 := Hstack [Identity [3; 2]; Transpose [2; 3] (Some [-1; 0])] None in
  let V1 := Vstack [Sum [3; 2] [-1]; Slice [3; 2] [SSlice None None None; SIdx 0]] (Some 0) in
  let Dg := Diag [Compose [V1; H1]; Compose [Reshape [6] [3; 2]; Multiply [2] (MArray (ARef 3 [3; 2])) false]] None None in
  let A := Add [Dg; Conj (op_lscale 7 Dg);
                Compose [BlocksToArray [12] [4] [2]; Transpose [4; 5] None; MatMul [2; 5] (ARef 1 [4; 2]) false;
                         ArrayToBlocks [14] [5] [9]]] in
  wf A = true /\ oshape_of A = [12] /\ ishape_of A = [14] /\
  nodes_ok' (fun L => proven_all L = true /\ wf L = true) A /\ wf (adj A) = true.
Proof. exact all_example. Qed.
Print Assumptions C01_adjoint_of_every_operator.
Print Assumptions C01_adjoint_of_every_operator.
Print Assumptions C01_adjoint_unconditional_all.
Print Assumptions C01_adjoint_of_adjoint_unconditional.
Print Assumptions C01_adjoint_of_adjoint_all.

(* non-vacuity: a depth-3 tree mixing Resize / Flip / Downsample / Conj / + / composition is well-formed *)
Example C01_example_tree_wf :
  wf (Compose [Add [Conj (Flip [3; 2] (Some [-1])); Compose [Resize [3; 2] [3; 4] None None; Upsample [3; 4] [1; 2] [0; 0]]];
               Downsample [5; 4] [2; 2] [0; 0]; Resize [5; 4] [3; 3] (Some [0; 1]) None]) = true.
Proof. vm_compute. reflexivity. Qed.
