(* Prop_C01 — every operator's adjoint is its true adjoint.  Statements only (`exact`), over an
   arbitrary commutative *-ring R (so in particular for real and complex x, y), for every
   operator expression; D A = den ... noforce A is the denotation of coq/model/Linop.v. *)
From Coq Require Import ZArith List Bool.
From SV Require Import lib.Scalar lib.BigSum lib.NdArray lib.Gather model.Rearrange model.Block model.Linop
  proofs.LinopTheory proofs.LinopLeaves proofs.Rearrange proofs.LinopScale proofs.LinopLeavesA proofs.LinopStack proofs.LinopLeavesB proofs.LinopLeavesB2 proofs.LinopAll.
(* gen.Gen_linop_table: the _adjoint_linop / _normal_linop table GENERATED from linop.py, with lemmas gen_*_ok stating
   that it equals the hand model's adj / normal; importing it makes those lemmas part of this property's proof cone *)
From SV Require gen.Gen_linop_table.
Import ListNotations.
Local Open Scope Z_scope.

(* For EVERY expression tree built with Conj, +, composition (incl. the scalar and sign overloads,
   which are compositions with Multiply leaves, and python's flattening of nested compositions):
   if every other node L of the tree satisfies <L x, y> = <x, L^H y>, then so does the tree, with
   the operator returned by the modelled _adjoint_linop and with shapes swapped. *)
Theorem C01_adjoint_of_every_tree :
  forall (R : StarRing) (arr : Z -> list Z -> R) (scal : Z -> R) (orc : linop -> (list Z -> R) -> list Z -> R) (A : linop),
    wf A = true ->
    nodes_ok (fun L => forall x y, inner (oshape_of L) (D R arr scal orc L x) y
                                   = inner (ishape_of L) x (D R arr scal orc (adj L) y)) A ->
    forall x y, inner (oshape_of A) (D R arr scal orc A x) y = inner (ishape_of A) x (D R arr scal orc (adj A) y).
Proof. exact adj_correct. Qed.
Print Assumptions C01_adjoint_of_every_tree.

(* the node hypothesis, discharged for concrete leaf classes (every valid parameter) *)
Theorem C01_identity_adjoint :
  forall (R : StarRing) arr scal orc s, wf (Identity s) = true -> apair R arr scal orc (Identity s).
Proof. exact apair_identity. Qed.
Print Assumptions C01_identity_adjoint.

Theorem C01_flip_adjoint :
  forall (R : StarRing) arr scal orc s ax, wf (Flip s ax) = true -> apair R arr scal orc (Flip s ax).
Proof. exact apair_flip. Qed.
Print Assumptions C01_flip_adjoint.

Theorem C01_downsample_adjoint :
  forall (R : StarRing) arr scal orc i f sh,
    wf (Downsample i f sh) = true -> length f = length i -> length sh = length i ->
    Forall (fun v => 0 < v) f -> Forall (fun v => 0 <= v) sh -> apair R arr scal orc (Downsample i f sh).
Proof. exact apair_downsample. Qed.
Print Assumptions C01_downsample_adjoint.

Theorem C01_upsample_adjoint :
  forall (R : StarRing) arr scal orc o f sh,
    wf (Upsample o f sh) = true -> length f = length o -> length sh = length o ->
    Forall (fun v => 0 < v) f -> Forall (fun v => 0 <= v) sh -> apair R arr scal orc (Upsample o f sh).
Proof. exact apair_upsample. Qed.
Print Assumptions C01_upsample_adjoint.

(* Resize / its shift-swapped partner (the operator Resize.H constructs) on expanded shapes of equal rank *)
Theorem C01_resize_adjoint :
  forall (R : StarRing) i1 o1 si so,
    length i1 = length o1 -> length si = length i1 -> length so = length i1 ->
    Forall (fun v => 0 <= v) si -> Forall (fun v => 0 <= v) so ->
    forall x y : list Z -> R,
      inner o1 (gatherN (zip4 resize_ax i1 o1 si so) x) y = inner i1 x (gatherN (zip4 resize_ax o1 i1 so si) y).
Proof. exact resize_gather_adjoint. Qed.
Print Assumptions C01_resize_adjoint.

(* the generic engines: any operator given by a kernel, any gather by mutually inverse partial bijections *)
Theorem C01_kernel_adjoint :
  forall (R : StarRing) si so (k k' : list Z -> list Z -> R),
    (forall o i, inbox so o -> inbox si i -> k' i o = conj (k o i)) ->
    forall x y, inner so (kernel_op si k x) y = inner si x (kernel_op so k' y).
Proof. exact kernel_adjoint. Qed.
Print Assumptions C01_kernel_adjoint.

Theorem C01_gather_adjoint :
  forall (R : StarRing) si so ms ms', axes_pbij si so ms ms' ->
    forall x y : list Z -> R, inner so (gatherN ms x) y = inner si x (gatherN ms' y).
Proof. exact gatherN_adjoint. Qed.
Print Assumptions C01_gather_adjoint.

(* <A x, y> = <x, B y>  implies  <B y, x> = <y, A x>: the adjoint of the adjoint acts like the original *)
Theorem C01_adjoint_is_symmetric :
  forall (R : StarRing) si so F G, adjoint_pair R si so F G -> adjoint_pair R so si G F.
Proof. exact adjoint_pair_sym. Qed.
Print Assumptions C01_adjoint_is_symmetric.

(* scalar multiples: the leaf Multiply(shape, a) that `a * A`, `A * a`, `-A`, `A - B` are built from, together with
   the composite Reshape * Sum * Multiply(conj) returned by its _adjoint_linop *)
Theorem C01_scalar_multiple_adjoint :
  forall (R : StarRing) arr scal orc i t c,
    i <> [] -> wf (Multiply i (MScalar t) c) = true -> apair R arr scal orc (Multiply i (MScalar t) c).
Proof. exact apair_scale. Qed.
Print Assumptions C01_scalar_multiple_adjoint.

(* NO hypothesis on the nodes: every expression over Conj, +, -, composition, a*A, A*a, -A with Identity / Flip /
   Downsample / Upsample leaves satisfies <A x, y> = <x, A^H y> with the modelled adjoint *)
Theorem C01_adjoint_unconditional_fragment :
  forall (R : StarRing) arr scal orc A,
    wf A = true -> nodes_ok (fun L => proven_node L = true /\ wf L = true) A ->
    forall x y, inner (oshape_of A) (D R arr scal orc A x) y = inner (ishape_of A) x (D R arr scal orc (adj A) y).
Proof. exact adj_correct_proven. Qed.
Print Assumptions C01_adjoint_unconditional_fragment.

Example C01_fragment_example :
  let A := op_sub (Compose [Conj (Flip [3; 2] (Some [-1])); Downsample [5; 4] [2; 2] [0; 0]])
                  (op_lscale 7 (Compose [Flip [3; 2] None; Downsample [5; 4] [2; 2] [0; 0]])) in
  wf A = true /\ nodes_ok (fun L => proven_node L = true /\ wf L = true) A.
Proof. vm_compute. repeat split; reflexivity. Qed.

(* ---- more leaf classes, every valid parameter choice (proofs/LinopLeavesA.v) ---- *)
Theorem C01_reshape_adjoint : forall (R : StarRing) arr scal orc o i,
  wf (Reshape o i) = true -> prodZ o = prodZ i -> apair R arr scal orc (Reshape o i).
Proof. exact apair_reshape. Qed.
(* the full util.resize: unequal ranks, early return, default and explicit shifts *)
Theorem C01_resize_operator_adjoint : forall (R : StarRing) arr scal orc o i isf osf,
  wf (Resize o i isf osf) = true ->
  shift_ok (Nat.max (length i) (length o)) isf -> shift_ok (Nat.max (length i) (length o)) osf ->
  apair R arr scal orc (Resize o i isf osf).
Proof. exact apair_resize. Qed.
(* any shifts (negative, larger than the axis), negative and repeated axes, axes = None *)
Theorem C01_circshift_adjoint : forall (R : StarRing) arr scal orc s sh ax,
  wf (Circshift s sh ax) = true -> apair R arr scal orc (Circshift s sh ax).
Proof. exact apair_circshift. Qed.
(* basic indices: integers, slices with positive / negative steps and None bounds *)
Theorem C01_slice_adjoint : forall (R : StarRing) arr scal orc i idx,
  wf (Slice i idx) = true -> apair R arr scal orc (Slice i idx).
Proof. exact apair_slice. Qed.
Theorem C01_embed_adjoint : forall (R : StarRing) arr scal orc o idx,
  wf (Embed o idx) = true -> apair R arr scal orc (Embed o idx).
Proof. exact apair_embed. Qed.
Theorem C01_sum_adjoint : forall (R : StarRing) arr scal orc i axes,
  wf (Sum i axes) = true -> apair R arr scal orc (Sum i axes).
Proof. exact apair_sum. Qed.
Theorem C01_tile_adjoint : forall (R : StarRing) arr scal orc o axes,
  wf (Tile o axes) = true -> apair R arr scal orc (Tile o axes).
Proof. exact apair_tile. Qed.
Theorem C01_transpose_reverse_adjoint : forall (R : StarRing) arr scal orc i,
  wf (Transpose i None) = true -> apair R arr scal orc (Transpose i None).
Proof. exact apair_transpose_none. Qed.
(* raw axes incl. negative entries: the normalised axes must be a permutation (numpy raises otherwise) *)
Theorem C01_transpose_axes_adjoint : forall (R : StarRing) arr scal orc i ax,
  wf (Transpose i (Some ax)) = true -> is_perm (length i) (map (fun a => a mod lenZ i) ax) ->
  apair R arr scal orc (Transpose i (Some ax)).
Proof. exact apair_transpose_some. Qed.
Print Assumptions C01_resize_operator_adjoint.
Print Assumptions C01_circshift_adjoint.
Print Assumptions C01_transpose_axes_adjoint.

(* NO node hypothesis: every Conj / + / - / scaling / composition tree over Identity, Flip, Down/Upsample, scalar Multiply,
   Reshape, Resize, Circshift, Slice, Embed, Sum, Tile, Transpose leaves *)
Theorem C01_adjoint_unconditional_fragment_A : forall (R : StarRing) arr scal orc A,
  wf A = true -> nodes_ok (fun L => proven_nodeA L = true /\ wf L = true) A -> apair R arr scal orc A.
Proof. exact adj_correct_provenA. Qed.
Print Assumptions C01_adjoint_unconditional_fragment_A.

(* ---- stacking combinators, every axis in [-ndim, ndim) and None (proofs/LinopStack.v) ---- *)


Theorem C01_hstack_adjoint :
  forall (R : StarRing) arr scal orc ls axis,
    wf (Hstack ls axis) = true ->
    Forall (fun a => forall x y, inner (oshape_of a) (D R arr scal orc a x) y = inner (ishape_of a) x (D R arr scal orc (adj a) y)) ls ->
    Forall (fun a => forall o i, shapes a = Ok (o, i) -> shapes (adj a) = Ok (i, o)) ls ->
    forall x y, inner (oshape_of (Hstack ls axis)) (D R arr scal orc (Hstack ls axis) x) y
              = inner (ishape_of (Hstack ls axis)) x (D R arr scal orc (Vstack (map adj ls) axis) y).
Proof. exact apair_hstack. Qed.

Theorem C01_vstack_adjoint :
  forall (R : StarRing) arr scal orc ls axis,
    wf (Vstack ls axis) = true ->
    Forall (apair R arr scal orc) ls -> Forall adj_shape_ok ls ->
    forall x y, inner (oshape_of (Vstack ls axis)) (D R arr scal orc (Vstack ls axis) x) y
              = inner (ishape_of (Vstack ls axis)) x (D R arr scal orc (Hstack (map adj ls) axis) y).
Proof. exact apair_vstack. Qed.

Theorem C01_diag_adjoint :
  forall (R : StarRing) arr scal orc ls oaxis iaxis,
    wf (Diag ls oaxis iaxis) = true ->
    Forall (apair R arr scal orc) ls -> Forall adj_shape_ok ls ->
    forall x y, inner (oshape_of (Diag ls oaxis iaxis)) (D R arr scal orc (Diag ls oaxis iaxis) x) y
              = inner (ishape_of (Diag ls oaxis iaxis)) x (D R arr scal orc (Diag (map adj ls) iaxis oaxis) y).
Proof. exact apair_diag. Qed.

Theorem C01_adjoint_through_stacking :
  forall (R : StarRing) arr scal orc A,
    wf A = true ->
    nodes_ok' (fun L => (forall x y, inner (oshape_of L) (D R arr scal orc L x) y = inner (ishape_of L) x (D R arr scal orc (adj L) y))
                        /\ (forall o i, shapes L = Ok (o, i) -> shapes (adj L) = Ok (i, o))) A ->
    (forall x y, inner (oshape_of A) (D R arr scal orc A x) y = inner (ishape_of A) x (D R arr scal orc (adj A) y))
    /\ (forall o i, shapes A = Ok (o, i) -> shapes (adj A) = Ok (i, o)).
Proof. exact adj_correct_stack. Qed.

Theorem C01_adjoint_unconditional_fragment_with_stacking :
  forall (R : StarRing) arr scal orc A,
    wf A = true -> nodes_ok' (fun L => proven_node L = true /\ wf L = true) A ->
    forall x y, inner (oshape_of A) (D R arr scal orc A x) y = inner (ishape_of A) x (D R arr scal orc (adj A) y).
Proof. exact adj_correct_stack_proven. Qed.
Print Assumptions C01_hstack_adjoint.
Print Assumptions C01_vstack_adjoint.
Print Assumptions C01_diag_adjoint.
Print Assumptions C01_adjoint_through_stacking.
Print Assumptions C01_adjoint_unconditional_fragment_with_stacking.

(* ---- Multiply (any broadcast), MatMul / RightMatMul (any batch broadcast), block operators 1-3 D (proofs/LinopLeavesB*.v) ---- *)


Theorem C01_multiply_adjoint :
  forall (R : StarRing) arr scal orc i m c,
    wf (Multiply i m c) = true -> apair R arr scal orc (Multiply i m c).
Proof. exact apair_multiply. Qed.
Print Assumptions C01_multiply_adjoint.

Theorem C01_matmul_adjoint :
  forall (R : StarRing) arr scal orc i a adjoint,
    wf (MatMul i a adjoint) = true -> apair R arr scal orc (MatMul i a adjoint).
Proof. exact apair_matmul. Qed.

Theorem C01_right_matmul_adjoint :
  forall (R : StarRing) arr scal orc i a adjoint,
    wf (RightMatMul i a adjoint) = true -> apair R arr scal orc (RightMatMul i a adjoint).
Proof. exact apair_right_matmul. Qed.

Theorem C01_array_to_blocks_1d_adjoint :
  forall (R : StarRing) arr scal orc i Bk Sk,
    i <> [] -> 0 < Sk -> wf (ArrayToBlocks i [Bk] [Sk]) = true -> apair R arr scal orc (ArrayToBlocks i [Bk] [Sk]).
Proof. exact apair_array_to_blocks_1d. Qed.

Theorem C01_blocks_to_array_1d_adjoint :
  forall (R : StarRing) arr scal orc o Bk Sk,
    o <> [] -> 0 < Sk -> wf (BlocksToArray o [Bk] [Sk]) = true -> apair R arr scal orc (BlocksToArray o [Bk] [Sk]).
Proof. exact apair_blocks_to_array_1d. Qed.

Theorem C01_array_to_blocks_2d_adjoint :
  forall (R : StarRing) arr scal orc i By Bx Sy Sx,
    (2 <= length i)%nat -> 0 < Sy -> 0 < Sx ->
    wf (ArrayToBlocks i [By; Bx] [Sy; Sx]) = true -> apair R arr scal orc (ArrayToBlocks i [By; Bx] [Sy; Sx]).
Proof. exact apair_array_to_blocks_2d. Qed.

Theorem C01_blocks_to_array_2d_adjoint :
  forall (R : StarRing) arr scal orc o By Bx Sy Sx,
    (2 <= length o)%nat -> 0 < Sy -> 0 < Sx ->
    wf (BlocksToArray o [By; Bx] [Sy; Sx]) = true -> apair R arr scal orc (BlocksToArray o [By; Bx] [Sy; Sx]).
Proof. exact apair_blocks_to_array_2d. Qed.

Theorem C01_array_to_blocks_3d_adjoint :
  forall (R : StarRing) arr scal orc i Bz By Bx Sz Sy Sx,
    (3 <= length i)%nat -> 0 < Sz -> 0 < Sy -> 0 < Sx ->
    wf (ArrayToBlocks i [Bz; By; Bx] [Sz; Sy; Sx]) = true -> apair R arr scal orc (ArrayToBlocks i [Bz; By; Bx] [Sz; Sy; Sx]).
Proof. exact apair_array_to_blocks_3d. Qed.

Theorem C01_blocks_to_array_3d_adjoint :
  forall (R : StarRing) arr scal orc o Bz By Bx Sz Sy Sx,
    (3 <= length o)%nat -> 0 < Sz -> 0 < Sy -> 0 < Sx ->
    wf (BlocksToArray o [Bz; By; Bx] [Sz; Sy; Sx]) = true -> apair R arr scal orc (BlocksToArray o [Bz; By; Bx] [Sz; Sy; Sx]).
Proof. exact apair_blocks_to_array_3d. Qed.

Theorem C01_adjoint_unconditional_fragment_B :
  forall (R : StarRing) arr scal orc A,
    wf A = true -> nodes_ok (fun L => (proven_node L || proven_nodeB2 L) = true /\ wf L = true) A ->
    forall x y, inner (oshape_of A) (D R arr scal orc A x) y = inner (ishape_of A) x (D R arr scal orc (adj A) y).
Proof. exact adj_correct_provenB2. Qed.
Print Assumptions C01_adjoint_unconditional_fragment_B.

Theorem C01_adjoint_unconditional_fragment_B1 :
  forall (R : StarRing) arr scal orc A,
    wf A = true -> nodes_ok (fun L => (proven_node L || proven_nodeB L) = true /\ wf L = true) A ->
    forall x y, inner (oshape_of A) (D R arr scal orc A x) y = inner (ishape_of A) x (D R arr scal orc (adj A) y).
Proof. exact adj_correct_provenB. Qed.
Print Assumptions C01_multiply_adjoint.
Print Assumptions C01_adjoint_unconditional_fragment_B.
Print Assumptions C01_adjoint_unconditional_fragment_B1.

(* ---- every operator: all combinators over all modelled leaf classes; adjoint of the adjoint (proofs/LinopAll.v) ---- *)


(* ---- proofs/LinopLeavesB.v, LinopLeavesB2.v : per-class predicate lemmas not yet in Prop_C01 ---- *)
Theorem C01_proven_nodeB_adjoint :
  forall (R : StarRing) arr scal orc L, proven_nodeB L = true -> wf L = true -> apair R arr scal orc L.
Proof. exact proven_nodeB_apair. Qed.

Theorem C01_proven_nodeB2_adjoint :
  forall (R : StarRing) arr scal orc L, proven_nodeB2 L = true -> wf L = true -> apair R arr scal orc L.
Proof. exact proven_nodeB2_apair. Qed.

(* the engine behind Multiply / MatMul: <x (x) m, y> over the broadcast box = <x, Reshape (Sum_axes (y . conj m))> *)
Theorem C01_broadcast_multiply_core :
  forall (R : StarRing) ie me o di i (x y mf : list Z -> R), ax3 ie me o -> ie = repeat 1 di ++ i ->
    let mask := bmask ie me o in
    let os := mrem mask o in
    sumB o (fun ov => mul (mul (x (skipn di (zip2 msk1 ie ov))) (mf ov)) (conj (y ov))) =
    sumB i (fun iv => mul (x iv) (conj (sumB (mkeep mask o) (fun k =>
        mul (y (mmerge mask (unravel os (ravel i iv)) k)) (conj (mf (mmerge mask (unravel os (ravel i iv)) k))))))).
Proof. exact multiply_core. Qed.

(* a gather along f and the scatter-add along the same f are adjoint (ArrayToBlocks / BlocksToArray) *)
Theorem C01_gather_scatter_adjoint :
  forall (R : StarRing) si so (f : list Z -> list Z) (u w : list Z -> R),
    (forall o, inbox so o -> inbox si (f o)) ->
    inner so (fun o => u (f o)) w =
    inner si u (fun i => add zero (sumB so (fun o => if idx_eqb (f o) i then w o else zero))).
Proof. exact gather_scatter_adjoint. Qed.

(* ---- proofs/LinopAll.v ---- *)
(* (1) shapes (adj L) = swapped shapes L for the leaf classes not covered by adj_shape_leaf *)
Theorem C01_adjoint_shapes_transpose_axes :
  forall i ax, transpose_axes_okb i ax = true ->
    forall o i', shapes (Transpose i (Some ax)) = Ok (o, i') -> shapes (adj (Transpose i (Some ax))) = Ok (i', o).
Proof. exact adj_shape_transpose. Qed.

Theorem C01_adjoint_shapes_multiply :
  forall i m c o i', shapes (Multiply i m c) = Ok (o, i') -> shapes (adj (Multiply i m c)) = Ok (i', o).
Proof. exact adj_shape_multiply. Qed.

Theorem C01_adjoint_shapes_matmul :
  forall i a adjoint o i', shapes (MatMul i a adjoint) = Ok (o, i') -> shapes (adj (MatMul i a adjoint)) = Ok (i', o).
Proof. exact adj_shape_matmul. Qed.

Theorem C01_adjoint_shapes_right_matmul :
  forall i a adjoint o i', shapes (RightMatMul i a adjoint) = Ok (o, i') -> shapes (adj (RightMatMul i a adjoint)) = Ok (i', o).
Proof. exact adj_shape_right_matmul. Qed.

(* the modelled adjoint of Multiply is literally Reshape . Sum . Multiply(conj), with fitting shapes *)
Theorem C01_multiply_adjoint_form :
  forall i m c, wf (Multiply i m c) = true -> exists o os axes,
    shapes (Multiply i m c) = Ok (o, i) /\
    adj (Multiply i m c) = Compose [Reshape i os; Sum o axes; Multiply o m (negb c)] /\
    shapes (Reshape i os) = Ok (i, os) /\ prodZ i = prodZ os /\
    shapes (Sum o axes) = Ok (os, o) /\ shapes (Multiply o m (negb c)) = Ok (o, o).
Proof. exact multiply_adj_form. Qed.

(* (2) one boolean predicate for every leaf class with a modelled denotation *)
Theorem C01_proven_all_leaf :
  forall (R : StarRing) arr scal orc L, proven_all L = true -> wf L = true ->
    apair R arr scal orc L /\ adj_shape_ok L.
Proof. exact proven_all_leaf_ok. Qed.

Theorem C01_library_backed_disjoint : forall L, library_backed L = true -> proven_all L = false.
Proof. exact library_backed_disjoint. Qed.

(* THE theorem: every operator expression, through Conj, Add, Compose, Hstack, Vstack, Diag.  Leaves with a modelled
   denotation pass a boolean check; library-backed leaves (FFT, IFFT, Interpolate, Gridding, Wavelet, InverseWavelet,
   NUFFT, NUFFTAdjoint, Convolve...) bring their own adjoint identity. *)
Theorem C01_adjoint_of_every_operator :
  forall (R : StarRing) arr scal orc A,
    wf A = true ->
    nodes_ok' (fun L => (proven_all L = true /\ wf L = true) \/
                        (library_backed L = true /\ leaf_ok R arr scal orc L)) A ->
    (forall x y, inner (oshape_of A) (D R arr scal orc A x) y = inner (ishape_of A) x (D R arr scal orc (adj A) y)) /\
    (forall o i, shapes A = Ok (o, i) -> shapes (adj A) = Ok (i, o)).
Proof. exact adj_correct_all. Qed.
Print Assumptions C01_adjoint_of_every_operator.

(* the same, asking the library-backed leaves ONLY for <L x, y> = <x, L^H y> (their shapes swap for every parameter) *)
Theorem C01_adjoint_of_every_operator' :
  forall (R : StarRing) arr scal orc A,
    wf A = true ->
    nodes_ok' (fun L => (proven_all L = true /\ wf L = true) \/
                        (library_backed L = true /\
                         forall x y, inner (oshape_of L) (D R arr scal orc L x) y
                                     = inner (ishape_of L) x (D R arr scal orc (adj L) y))) A ->
    (forall x y, inner (oshape_of A) (D R arr scal orc A x) y = inner (ishape_of A) x (D R arr scal orc (adj A) y)) /\
    (forall o i, shapes A = Ok (o, i) -> shapes (adj A) = Ok (i, o)).
Proof. exact adj_correct_all'. Qed.
Print Assumptions C01_adjoint_of_every_operator'.

(* no library-backed leaf: NO hypothesis besides wf and the boolean check *)
Theorem C01_adjoint_unconditional_all :
  forall (R : StarRing) arr scal orc A,
    wf A = true -> nodes_ok' (fun L => proven_all L = true /\ wf L = true) A ->
    (forall x y, inner (oshape_of A) (D R arr scal orc A x) y = inner (ishape_of A) x (D R arr scal orc (adj A) y)) /\
    (forall o i, shapes A = Ok (o, i) -> shapes (adj A) = Ok (i, o)).
Proof. exact adj_correct_all_proven. Qed.
Print Assumptions C01_adjoint_unconditional_all.

(* (3) the adjoint of the adjoint acts like the original *)
Theorem C01_adjoint_of_adjoint :
  forall (R : StarRing) arr scal orc A,
    wf A = true -> apair R arr scal orc A -> apair R arr scal orc (adj A) -> adj_shape_ok A ->
    forall x o, inbox (oshape_of A) o -> D R arr scal orc (adj (adj A)) x o = D R arr scal orc A x o.
Proof. exact adj_adj_acts. Qed.
Print Assumptions C01_adjoint_of_adjoint.

(* the proven fragment is closed under adj (Multiply -> Reshape . Sum . Multiply, Downsample <-> Upsample,
   Hstack <-> Vstack, Transpose by p -> Transpose by argsort p, flattening of compositions, ...) *)
Theorem C01_fragment_closed_under_adjoint :
  forall A, wf A = true -> nodes_ok' (fun L => proven_all L = true /\ wf L = true) A ->
    nodes_ok' (fun L => proven_all L = true /\ wf L = true) (adj A).
Proof. exact proven_closed_adj. Qed.

Theorem C01_adjoint_in_fragment :
  forall (R : StarRing) arr scal orc A,
    wf A = true -> nodes_ok' (fun L => proven_all L = true /\ wf L = true) A ->
    wf (adj A) = true /\ nodes_ok' (fun L => proven_all L = true /\ wf L = true) (adj A) /\
    oshape_of (adj A) = ishape_of A /\ ishape_of (adj A) = oshape_of A /\
    apair R arr scal orc (adj A).
Proof. exact adj_in_fragment. Qed.

(* NO hypothesis: on the proven fragment A.H.H x = A x on the output box *)
Theorem C01_adjoint_of_adjoint_unconditional :
  forall (R : StarRing) arr scal orc A,
    wf A = true -> nodes_ok' (fun L => proven_all L = true /\ wf L = true) A ->
    forall x o, inbox (oshape_of A) o -> D R arr scal orc (adj (adj A)) x o = D R arr scal orc A x o.
Proof. exact adj_adj_acts_proven. Qed.
Print Assumptions C01_adjoint_of_adjoint_unconditional.

(* with library-backed leaves: each such leaf and its adjoint leaf must satisfy their own adjoint identity *)
Theorem C01_adjoint_of_adjoint_all :
  forall (R : StarRing) arr scal orc A,
    wf A = true ->
    nodes_ok' (fun L => (proven_all L = true /\ wf L = true) \/
                        (library_backed L = true /\ apair R arr scal orc L /\ apair R arr scal orc (adj L))) A ->
    forall x o, inbox (oshape_of A) o -> D R arr scal orc (adj (adj A)) x o = D R arr scal orc A x o.
Proof. exact adj_adj_acts_all. Qed.
Print Assumptions C01_adjoint_of_adjoint_all.

(* non-vacuity: a tree through Add, Conj, Compose, Hstack, Vstack, Diag, the scalar overload, over Identity, Transpose
   (negative axes), Sum, Slice, Reshape, array Multiply (input broadcast), BlocksToArray, MatMul, ArrayToBlocks *)
Example C01_all_example :
  let H1 := Hstack [Identity [3; 2]; Transpose [2; 3] (Some [-1; 0])] None in
  let V1 := Vstack [Sum [3; 2] [-1]; Slice [3; 2] [SSlice None None None; SIdx 0]] (Some 0) in
  let Dg := Diag [Compose [V1; H1]; Compose [Reshape [6] [3; 2]; Multiply [2] (MArray (ARef 3 [3; 2])) false]] None None in
  let A := Add [Dg; Conj (op_lscale 7 Dg);
                Compose [BlocksToArray [12] [4] [2]; Transpose [4; 5] None; MatMul [2; 5] (ARef 1 [4; 2]) false;
                         ArrayToBlocks [14] [5] [9]]] in
  wf A = true /\ oshape_of A = [12] /\ ishape_of A = [14] /\
  nodes_ok' (fun L => proven_all L = true /\ wf L = true) A /\ wf (adj A) = true.
Proof. exact all_example. Qed.
Print Assumptions C01_adjoint_of_every_operator.
Print Assumptions C01_adjoint_of_every_operator.
Print Assumptions C01_adjoint_unconditional_all.
Print Assumptions C01_adjoint_of_adjoint_unconditional.
Print Assumptions C01_adjoint_of_adjoint_all.

(* non-vacuity: a depth-3 tree mixing Resize / Flip / Downsample / Conj / + / composition is well-formed *)
Example C01_example_tree_wf :
  wf (Compose [Add [Conj (Flip [3; 2] (Some [-1])); Compose [Resize [3; 2] [3; 4] None None; Upsample [3; 4] [1; 2] [0; 0]]];
               Downsample [5; 4] [2; 2] [0; 0]; Resize [5; 4] [3; 3] (Some [0; 1]) None]) = true.
Proof. vm_compute. reflexivity. Qed.


(* ================================================================================================================
   LIBRARY-BACKED LEAF CLASSES.  The node hypothesis of C01_adjoint_of_every_tree discharged, family by family, through
   the function models of C05 / C08 / C07 / C10 / C06 (coq/model/Opaque*.v, coq/proofs/Opaque*.v; statements prepared
   per family in notes/snippets), then assembled into ONE oracle and ONE theorem at the end of this file.
   ================================================================================================================ *)

(* ---- snippet for coq/props/Prop_C01.v (and the C04 statement): library-backed leaves FFT / IFFT -----------------
   additional imports needed by the property file:
     From SV Require Import model.Fourier model.OpaqueFourier proofs.Fourier1D proofs.FourierND proofs.FourierModel
                            proofs.FourierExample proofs.OpaqueFourier.
   (proofs.FourierExample only for QIRing in the Examples.)

   orc_fourier tw isc inv (FFT s axes center)  = snd (fft_model tw isc inv false center true s None axes .)
   orc_fourier tw isc inv (IFFT s axes center) = snd (fft_model tw isc inv true  center true s None axes .)
   i.e. fourier.fft / ifft (input, axes=self.axes, center=self.center) with the defaults oshape=None, norm="ortho",
   expressed with the function model of C05 (model/Fourier.v); tw n m = w_n^m, isc n = 1/sqrt n, inv n = 1/n (unused). *)
From SV Require Import model.Fourier model.OpaqueFourier proofs.Fourier1D proofs.FourierND proofs.FourierModel
  proofs.FourierExample proofs.OpaqueFourier.

(* FFT.H = IFFT is the true adjoint: EVERY axes argument (None, empty, negative, unsorted, repeated, wrapped modulo ndim),
   both values of center, every positive shape.  The only fact about the oracle data is that the scaling is real. *)
Theorem C01_fourier_fft_adjoint :
  forall (R : StarRing) (arr : Z -> list Z -> R) (scal : Z -> R) (orc : linop -> (list Z -> R) -> list Z -> R)
         (tw : Z -> Z -> R) (isc inv : Z -> R) s ax c,
    wf (FFT s ax c) = true ->
    (forall n, 0 < n -> conj (isc n) = isc n) ->
    (forall x, orc (FFT s ax c) x = orc_fourier tw isc inv (FFT s ax c) x) ->
    (forall x, orc (IFFT s ax c) x = orc_fourier tw isc inv (IFFT s ax c) x) ->
    apair R arr scal orc (FFT s ax c).
Proof. exact proofs.OpaqueFourier.apair_fft. Qed.
Print Assumptions C01_fourier_fft_adjoint.

Theorem C01_fourier_ifft_adjoint :
  forall (R : StarRing) (arr : Z -> list Z -> R) (scal : Z -> R) (orc : linop -> (list Z -> R) -> list Z -> R)
         (tw : Z -> Z -> R) (isc inv : Z -> R) s ax c,
    wf (IFFT s ax c) = true ->
    (forall n, 0 < n -> conj (isc n) = isc n) ->
    (forall x, orc (IFFT s ax c) x = orc_fourier tw isc inv (IFFT s ax c) x) ->
    (forall x, orc (FFT s ax c) x = orc_fourier tw isc inv (FFT s ax c) x) ->
    apair R arr scal orc (IFFT s ax c).
Proof. exact proofs.OpaqueFourier.apair_ifft. Qed.
Print Assumptions C01_fourier_ifft_adjoint.

(* the function-level statement behind both: <fft x, y> = <x, ifft y> and <ifft x, y> = <x, fft y> for the call the
   leaf makes (center=True: _fftc/_ifftc, center=False: numpy fftn/ifftn), repeated axes included *)
Theorem C01_fourier_call_adjoint :
  forall (R : StarRing) (tw : Z -> Z -> R) (isc inv : Z -> R),
    (forall n, 0 < n -> conj (isc n) = isc n) ->
    forall inverse s axes center (x y : list Z -> R),
      Forall (fun n => 0 <= n) s ->
      inner s (snd (fft_model tw isc inv inverse center true s None axes x)) y =
      inner s x (snd (fft_model tw isc inv (negb inverse) center true s None axes y)).
Proof. exact proofs.OpaqueFourier.fourier_call_adjoint. Qed.
Print Assumptions C01_fourier_call_adjoint.

(* the node lemma: plugs into C01_adjoint_of_every_tree (adj_correct) for the FFT / IFFT nodes.
   proven_node_fourier (FFT s ax c) = fourier_axes_ok s ax c =
     if c then 0 <? ndim                                   (center=True: a % ndim accepts any integer; 0-d arrays raise)
     else axes = None \/ all (-ndim <= a < ndim)           (center=False: numpy's range check; repeated axes accepted) *)
Theorem C01_fourier_nodes :
  forall (R : StarRing) (arr : Z -> list Z -> R) (scal : Z -> R) (orc : linop -> (list Z -> R) -> list Z -> R)
         (tw : Z -> Z -> R) (isc inv : Z -> R),
    (forall L, fourier_leaf L = true -> forall x, orc L x = orc_fourier tw isc inv L x) ->
    (forall n, 0 < n -> conj (isc n) = isc n) ->
    forall L, proven_node_fourier L = true -> wf L = true -> apair R arr scal orc L.
Proof. exact proofs.OpaqueFourier.nodes_fourier. Qed.
Print Assumptions C01_fourier_nodes.

(* ---- non-vacuity: accepted parameters (negative, unsorted, repeated modulo ndim; center=False with a repeated axis),
   rejected ones, and exact oracle data in Q(i) (lengths 4 and 1) satisfying every hypothesis at once ---- *)
Example C01_fourier_params_example :
  wf (FFT [4; 1; 4] (Some [-1; 0; 2]) true) = true /\ proven_node_fourier (FFT [4; 1; 4] (Some [-1; 0; 2]) true) = true /\
  wf (IFFT [4; 4] (Some [-2; 1; 1]) false) = true /\ proven_node_fourier (IFFT [4; 4] (Some [-2; 1; 1]) false) = true /\
  proven_node_fourier (FFT [4; 4] (Some [2]) false) = false /\ proven_node_fourier (FFT [] None true) = false.
Proof. exact proofs.OpaqueFourier.ex_fourier_params. Qed.

Example C01_fourier_adjoint_example : forall (arr : Z -> list Z -> QIRing) (scal : Z -> QIRing),
  apair QIRing arr scal (orc_fourier of_ex_tw of_ex_isc of_ex_inv) (FFT [4; 1; 4] (Some [-1; 0; 2]) true) /\
  apair QIRing arr scal (orc_fourier of_ex_tw of_ex_isc of_ex_inv) (IFFT [4; 4] (Some [-2; 1; 1]) false).
Proof. exact proofs.OpaqueFourier.ex_fourier_adjoint. Qed.

(* ---- C01, library-backed leaves of the convolution family (ConvolveData / ConvolveDataAdjoint / ConvolveFilter /
   ConvolveFilterAdjoint): the node hypothesis of C01_adjoint_of_every_tree discharged through the C08 function model.

   orc_conv arr L (coq/model/OpaqueConv.v) is what the class's _apply computes, written with the C08 model
   (coq/model/Conv.v: convolve, convolve_data_adjoint, convolve_filter_adjoint) and the class's own argument passing:
     ConvolveData d f ..        x |-> convolve d (shape f) .. x f
     ConvolveDataAdjoint d f .. y |-> convolve_data_adjoint (ishape = b ++ [c_o] ++ p) (shape f) d .. y f
     ConvolveFilter fs dt ..    x |-> convolve (shape dt) fs .. dt x
     ConvolveFilterAdjoint ..   y |-> convolve_filter_adjoint (ishape) (shape dt) fs .. y dt
   with the captured array read from [arr] through its tag.  It is tied to the real classes by the exact
   Gaussian-integer correspondence props/opaque_conv.py (chk_opaque_conv, coq/run/RunOpaqueConv.v).
   proven_node_conv L  <->  L is one of the four classes, its captured array is non-empty (all lengths positive) and its
   strides are None or positive; everything else the classes require (ranks, channel match, stride count, 'valid'
   ordering, positive advertised shapes) is [wf L].  Any D >= 1, both modes, both multi_channel conventions, any batch.
   Needs:  From SV Require Import model.Conv model.OpaqueConv proofs.OpaqueConv.   (and proofs.LinopStack proofs.LinopAll,
   already imported by Prop_C01.v, for the last theorem) ---- *)
From SV Require Import model.Conv model.OpaqueConv proofs.OpaqueConv.

(* one leaf: if the oracle is the model denotation on L and on adj L, then <L x, y> = <x, L^H y> (shapes swapped) *)
Theorem C01_conv_leaf_adjoint :
  forall (R : StarRing) (arr : Z -> list Z -> R) (scal : Z -> R) (orc : linop -> (list Z -> R) -> list Z -> R) (L : linop),
    proven_node_conv L = true -> wf L = true ->
    (forall x o, orc L x o = orc_conv arr L x o) ->
    (forall y i, orc (adj L) y i = orc_conv arr (adj L) y i) ->
    apair R arr scal orc L.
Proof. exact apair_conv. Qed.
Print Assumptions C01_conv_leaf_adjoint.

(* the same per class, validity spelled out *)
Theorem C01_convolve_data_adjoint :
  forall (R : StarRing) (arr : Z -> list Z -> R) (scal : Z -> R) (orc : linop -> (list Z -> R) -> list Z -> R)
         d f full st mc,
    wf (ConvolveData d f full st mc) = true -> all_pos (ashape_of f) = true -> strides_pos st = true ->
    (forall x o, orc (ConvolveData d f full st mc) x o = orc_conv arr (ConvolveData d f full st mc) x o) ->
    (forall y i, orc (ConvolveDataAdjoint d f full st mc) y i = orc_conv arr (ConvolveDataAdjoint d f full st mc) y i) ->
    apair R arr scal orc (ConvolveData d f full st mc).
Proof. exact apair_ConvolveData. Qed.
Print Assumptions C01_convolve_data_adjoint.

Theorem C01_convolve_data_adjoint_adjoint :
  forall (R : StarRing) (arr : Z -> list Z -> R) (scal : Z -> R) (orc : linop -> (list Z -> R) -> list Z -> R)
         d f full st mc,
    wf (ConvolveDataAdjoint d f full st mc) = true -> all_pos (ashape_of f) = true -> strides_pos st = true ->
    (forall y i, orc (ConvolveDataAdjoint d f full st mc) y i = orc_conv arr (ConvolveDataAdjoint d f full st mc) y i) ->
    (forall x o, orc (ConvolveData d f full st mc) x o = orc_conv arr (ConvolveData d f full st mc) x o) ->
    apair R arr scal orc (ConvolveDataAdjoint d f full st mc).
Proof. exact apair_ConvolveDataAdjoint. Qed.
Print Assumptions C01_convolve_data_adjoint_adjoint.

Theorem C01_convolve_filter_adjoint :
  forall (R : StarRing) (arr : Z -> list Z -> R) (scal : Z -> R) (orc : linop -> (list Z -> R) -> list Z -> R)
         fs dt full st mc,
    wf (ConvolveFilter fs dt full st mc) = true -> all_pos (ashape_of dt) = true -> strides_pos st = true ->
    (forall x o, orc (ConvolveFilter fs dt full st mc) x o = orc_conv arr (ConvolveFilter fs dt full st mc) x o) ->
    (forall y i, orc (ConvolveFilterAdjoint fs dt full st mc) y i = orc_conv arr (ConvolveFilterAdjoint fs dt full st mc) y i) ->
    apair R arr scal orc (ConvolveFilter fs dt full st mc).
Proof. exact apair_ConvolveFilter. Qed.
Print Assumptions C01_convolve_filter_adjoint.

Theorem C01_convolve_filter_adjoint_adjoint :
  forall (R : StarRing) (arr : Z -> list Z -> R) (scal : Z -> R) (orc : linop -> (list Z -> R) -> list Z -> R)
         fs dt full st mc,
    wf (ConvolveFilterAdjoint fs dt full st mc) = true -> all_pos (ashape_of dt) = true -> strides_pos st = true ->
    (forall y i, orc (ConvolveFilterAdjoint fs dt full st mc) y i = orc_conv arr (ConvolveFilterAdjoint fs dt full st mc) y i) ->
    (forall x o, orc (ConvolveFilter fs dt full st mc) x o = orc_conv arr (ConvolveFilter fs dt full st mc) x o) ->
    apair R arr scal orc (ConvolveFilterAdjoint fs dt full st mc).
Proof. exact apair_ConvolveFilterAdjoint. Qed.
Print Assumptions C01_convolve_filter_adjoint_adjoint.

(* what is behind it, about the C08 model alone (no oracle): with the shapes the classes pass,
   <convolve(x, filt), y> = <x, convolve_data_adjoint(y, filt, data_shape)>   and
   <convolve(data, f), y> = <f, convolve_filter_adjoint(y, data, filt_shape)>,
   a rejected call (Err) standing for the zero array — under the hypotheses none is rejected *)
Theorem C01_conv_data_argument_passing :
  forall (R : StarRing) (arr : Z -> list Z -> R) d f full st mc o,
    conv_oshape d (ashape_of f) full st mc = Ok o -> all_pos o = true -> all_pos d = true ->
    all_pos (ashape_of f) = true -> strides_pos st = true ->
    forall x y,
      inner o (conv_res (convolve d (ashape_of f) full st mc x (arr (atag f)))) y =
      inner d x (conv_res (convolve_data_adjoint o (ashape_of f) d full st mc y (arr (atag f)))).
Proof. exact conv_data_core. Qed.
Print Assumptions C01_conv_data_argument_passing.

Theorem C01_conv_filter_argument_passing :
  forall (R : StarRing) (arr : Z -> list Z -> R) fs dt full st mc o,
    conv_oshape (ashape_of dt) fs full st mc = Ok o -> all_pos o = true -> all_pos fs = true ->
    all_pos (ashape_of dt) = true -> strides_pos st = true ->
    forall x y,
      inner o (conv_res (convolve (ashape_of dt) fs full st mc (arr (atag dt)) x)) y =
      inner fs x (conv_res (convolve_filter_adjoint o (ashape_of dt) fs full st mc y (arr (atag dt)))).
Proof. exact conv_filter_core. Qed.
Print Assumptions C01_conv_filter_argument_passing.

(* the form for C01_adjoint_of_every_tree / adj_correct_all': a boolean test on the node *)
Theorem C01_conv_nodes :
  forall (R : StarRing) (arr : Z -> list Z -> R) (scal : Z -> R) (orc : linop -> (list Z -> R) -> list Z -> R),
    (forall L x o, proven_node_conv L = true -> orc L x o = orc_conv arr L x o) ->
    forall L, proven_node_conv L = true -> wf L = true -> apair R arr scal orc L.
Proof. exact nodes_conv. Qed.
Print Assumptions C01_conv_nodes.

(* with the model denotation itself as the oracle no hypothesis is left *)
Theorem C01_conv_nodes_model_oracle :
  forall (R : StarRing) (arr : Z -> list Z -> R) (scal : Z -> R) (L : linop),
    proven_node_conv L = true -> wf L = true -> apair R arr scal (fun L x => orc_conv arr L x) L.
Proof. exact nodes_conv_std. Qed.
Print Assumptions C01_conv_nodes_model_oracle.

(* every tree over all six combinators whose library-backed leaves are valid convolution leaves *)
Theorem C01_adjoint_of_every_tree_with_convolution_leaves :
  forall (R : StarRing) (arr : Z -> list Z -> R) (scal : Z -> R) (orc : linop -> (list Z -> R) -> list Z -> R) (A : linop),
    (forall L x o, proven_node_conv L = true -> orc L x o = orc_conv arr L x o) ->
    wf A = true ->
    nodes_ok' (fun L => (proven_all L = true /\ wf L = true) \/ (proven_node_conv L = true /\ wf L = true)) A ->
    apair R arr scal orc A /\ adj_shape_ok A.
Proof. exact adj_correct_with_conv. Qed.
Print Assumptions C01_adjoint_of_every_tree_with_convolution_leaves.

(* the predicate is satisfiable by non-trivial instances: 2-D multi-channel 'valid' with strides (2,1), batch 2;
   1-D single-channel 'full' with a filter longer than the data; both the data-side and the filter-side classes *)
Example C01_conv_valid_satisfiable :
  let L1 := ConvolveData [2; 2; 5; 4] (ARef 1 [3; 2; 2; 3]) false (Some [2; 1]) true in
  let L2 := ConvolveDataAdjoint [2; 3] (ARef 2 [5]) true None false in
  let L3 := ConvolveFilter [3; 2; 2; 3] (ARef 3 [2; 2; 5; 4]) false (Some [2; 1]) true in
  let L4 := ConvolveFilterAdjoint [5] (ARef 4 [2; 3]) true None false in
  (wf L1 && proven_node_conv L1 && zlist_eqb (oshape_of L1) [2; 3; 2; 2] &&
   wf L2 && proven_node_conv L2 && zlist_eqb (ishape_of L2) [2; 7] &&
   wf L3 && proven_node_conv L3 && zlist_eqb (oshape_of L3) [2; 3; 2; 2] &&
   wf L4 && proven_node_conv L4 && zlist_eqb (ishape_of L4) [2; 7]) = true.
Proof. exact conv_valid_satisfiable. Qed.


(* ---- C01, library-backed leaves of the interpolation family (Interpolate / Gridding): the node hypothesis of
   C01_adjoint_of_every_tree discharged through the C07 function model.

   orc_interp R C wt carr kern_of width_of param_of L (coq/model/OpaqueInterp.v) is what the class's _apply computes, written
   with the C07 model (coq/model/Interp.v: the hand-modelled wrappers `interpolate` / `gridding` around the numba kernels
   GENERATED from sigpy/interp.py) and the class's own argument passing:
     Interpolate ishape c k w p   x |-> interpolate ishape (shape c) (carr (tag c)) (kern_of k) (width_of w) (param_of p) x
     Gridding    oshape c k w p   y |-> gridding (shape c) oshape (carr (tag c)) (kern_of k) (width_of w) (param_of p) y
   The environment decodes what vlib/linser.py encodes: carr = captured coordinate arrays by tag (values in the separate
   coordinate type C : COps), kern_of / width_of / param_of = kernel name, scalar-or-per-axis width and param by code;
   wt : C -> R embeds a (real) weight into the data scalars.  It is tied to the real classes by the PrimFloat
   correspondence props/opaque_interp.py (chk_opaque_interp, coq/run/RunOpaqueInterp.v).
   proven_node_interp L  <->  L is one of the two classes, coord.shape = pts_shape ++ [ndim] with ndim in {1, 2, 3} and the
   grid shape has at least ndim axes (what the classes need in order to run: three kernels per table, rank ndim + 1 after
   batch flattening); positivity of all extents is [wf L].  Any batch shape, any point-set shape, any width / param /
   kernel function, any coordinates.  The only oracle fact is the one C07's transpose theorems already assume: the
   interpolation weights are real (conj (wt w) = wt w).
   normal L is the default composition A.H * A for both classes (no _normal_linop override): nothing to add for C04.
   Needs:  From SV Require Import lib.LoopIR lib.Coord gen.Gen_interp model.Interp model.OpaqueInterp proofs.OpaqueInterp.
   (and proofs.LinopStack proofs.LinopAll, already imported by Prop_C01.v, for the last theorem) ---- *)
From SV Require Import lib.LoopIR lib.Coord gen.Gen_interp model.Interp model.OpaqueInterp proofs.OpaqueInterp.

(* Interpolate(ishape, coord, kernel, width, param): <A x, y> = <x, A.H y> with A.H = Gridding(ishape, coord, kernel, width, param) *)
Theorem C01_interpolate_adjoint :
  forall (R : StarRing) (C : COps) (arr : Z -> list Z -> R) (scal : Z -> R) (orc : linop -> (list Z -> R) -> list Z -> R)
         (wt : C -> R) (carr : Z -> list Z -> C) (kern_of : Z -> C -> C -> C) (width_of param_of : Z -> wp C),
    (forall w, conj (wt w) = wt w) ->
    forall i c k w p,
    interp_ok i c = true -> wf (Interpolate i c k w p) = true ->
    (forall x o, orc (Interpolate i c k w p) x o = orc_interp R C wt carr kern_of width_of param_of (Interpolate i c k w p) x o) ->
    (forall y o, orc (Gridding i c k w p) y o = orc_interp R C wt carr kern_of width_of param_of (Gridding i c k w p) y o) ->
    apair R arr scal orc (Interpolate i c k w p).
Proof. exact apair_interpolate. Qed.
Print Assumptions C01_interpolate_adjoint.

(* Gridding(oshape, coord, kernel, width, param): A.H = Interpolate(oshape, coord, kernel, width, param) *)
Theorem C01_gridding_adjoint :
  forall (R : StarRing) (C : COps) (arr : Z -> list Z -> R) (scal : Z -> R) (orc : linop -> (list Z -> R) -> list Z -> R)
         (wt : C -> R) (carr : Z -> list Z -> C) (kern_of : Z -> C -> C -> C) (width_of param_of : Z -> wp C),
    (forall w, conj (wt w) = wt w) ->
    forall o c k w p,
    interp_ok o c = true -> wf (Gridding o c k w p) = true ->
    (forall y i, orc (Gridding o c k w p) y i = orc_interp R C wt carr kern_of width_of param_of (Gridding o c k w p) y i) ->
    (forall x i, orc (Interpolate o c k w p) x i = orc_interp R C wt carr kern_of width_of param_of (Interpolate o c k w p) x i) ->
    apair R arr scal orc (Gridding o c k w p).
Proof. exact apair_gridding. Qed.
Print Assumptions C01_gridding_adjoint.

(* the engine: ANY adjoint pair of kernels on the flattened shapes [batch_size] ++ grid <-> [batch_size; npts] lifts through
   the batch / point flattening wrappers (input.reshape, output.reshape) of sigpy.interp *)
Theorem C01_interp_wrappers_lift_adjoint_pairs :
  forall (R : StarRing) (bat grid pts : list Z) (FK GK : (list Z -> R) -> list Z -> R),
    Forall (fun n => 0 < n) bat -> Forall (fun n => 0 < n) pts ->
    adjoint_pair R (prodZ bat :: grid) [prodZ bat; prodZ pts] FK GK ->
    adjoint_pair R (bat ++ grid) (bat ++ pts)
      (fun x => unflat_pts R bat pts (FK (flatten_batch R bat x)))
      (fun y => unflatten_batch R bat (length bat) (GK (flat_pts R bat pts y))).
Proof. exact wrap_pair. Qed.
Print Assumptions C01_interp_wrappers_lift_adjoint_pairs.

(* the 1-D generated kernels run from a zero buffer are adjoint (2-D / 3-D: C07_gridding2/3_is_transpose_of_interpolate2/3) *)
Theorem C01_interp_kernel1_adjoint :
  forall (R : StarRing) (C : COps) (kern : C -> C -> C) (wt : C -> R),
    (forall w, conj (wt w) = wt w) ->
    forall coord width param cs ps ws gsh psh batch nx npts,
    shape_at cs 0 = npts -> shape_at gsh 0 = batch ->
    forall x y : list Z -> R,
    shape_at gsh 1 = nx -> 0 < nx ->
      inner [batch; npts] (exec (k_interpolate1 R C kern wt x coord width param cs gsh psh ps ws) [] (fun _ => zero)) y =
      inner [batch; nx] x (exec (k_gridding1 R C kern wt y coord width param cs psh gsh ps ws) [] (fun _ => zero)).
Proof. exact k_interp1_gridding1_adjoint. Qed.
Print Assumptions C01_interp_kernel1_adjoint.

(* the boolean node predicate, ready for adj_correct / C01_adjoint_of_every_tree *)
Theorem C01_interp_nodes :
  forall (R : StarRing) (C : COps) (arr : Z -> list Z -> R) (scal : Z -> R) (orc : linop -> (list Z -> R) -> list Z -> R)
         (wt : C -> R) (carr : Z -> list Z -> C) (kern_of : Z -> C -> C -> C) (width_of param_of : Z -> wp C),
    (forall w, conj (wt w) = wt w) ->
    (forall L, proven_node_interp L = true ->
               forall x o, orc L x o = orc_interp R C wt carr kern_of width_of param_of L x o) ->
    forall L, proven_node_interp L = true -> wf L = true -> apair R arr scal orc L.
Proof. exact nodes_interp. Qed.
Print Assumptions C01_interp_nodes.

(* every Conj / + / - / scaling / composition tree over Interpolate / Gridding leaves with valid parameters *)
Theorem C01_adjoint_interp_fragment :
  forall (R : StarRing) (C : COps) (arr : Z -> list Z -> R) (scal : Z -> R) (orc : linop -> (list Z -> R) -> list Z -> R)
         (wt : C -> R) (carr : Z -> list Z -> C) (kern_of : Z -> C -> C -> C) (width_of param_of : Z -> wp C),
    (forall w, conj (wt w) = wt w) ->
    (forall L, proven_node_interp L = true ->
               forall x o, orc L x o = orc_interp R C wt carr kern_of width_of param_of L x o) ->
    forall A, wf A = true -> nodes_ok (fun L => proven_node_interp L = true /\ wf L = true) A ->
    forall x y, inner (oshape_of A) (D R arr scal orc A x) y = inner (ishape_of A) x (D R arr scal orc (adj A) y).
Proof. exact adj_correct_interp. Qed.
Print Assumptions C01_adjoint_interp_fragment.

(* through ALL six combinators, mixing every leaf class with a modelled denotation (proven_all) with the family *)
Theorem C01_adjoint_of_every_operator_with_interp :
  forall (R : StarRing) (C : COps) (arr : Z -> list Z -> R) (scal : Z -> R) (orc : linop -> (list Z -> R) -> list Z -> R)
         (wt : C -> R) (carr : Z -> list Z -> C) (kern_of : Z -> C -> C -> C) (width_of param_of : Z -> wp C),
    (forall w, conj (wt w) = wt w) ->
    (forall L, proven_node_interp L = true ->
               forall x o, orc L x o = orc_interp R C wt carr kern_of width_of param_of L x o) ->
    forall A, wf A = true ->
    nodes_ok' (fun L => (proven_all L = true /\ wf L = true) \/ (proven_node_interp L = true /\ wf L = true)) A ->
    (forall x y, inner (oshape_of A) (D R arr scal orc A x) y = inner (ishape_of A) x (D R arr scal orc (adj A) y)) /\
    (forall o i, shapes A = Ok (o, i) -> shapes (adj A) = Ok (i, o)).
Proof. exact adj_correct_all_interp. Qed.
Print Assumptions C01_adjoint_of_every_operator_with_interp.

(* non-vacuity: valid parameters (2 batch axes, 3-D grid with a length-1 axis, 2-D point set), both classes, the adjoint
   stays in the fragment; invalid parameters are rejected; a tree through all six combinators; an exact Z instance of the
   whole chain  class denotation -> wrappers -> generated kernels  to which the theorem applies *)
Example C01_interp_valid_example :
  let L := Interpolate [2; 1; 4; 1; 5] (ARef 7 [3; 2; 3]) 1 2 3 in
  proven_node_interp L = true /\ wf L = true /\ oshape_of L = [2; 1; 3; 2] /\ ishape_of L = [2; 1; 4; 1; 5] /\
  adj L = Gridding [2; 1; 4; 1; 5] (ARef 7 [3; 2; 3]) 1 2 3 /\ proven_node_interp (adj L) = true /\ wf (adj L) = true /\
  oshape_of (adj L) = [2; 1; 4; 1; 5] /\ ishape_of (adj L) = [2; 1; 3; 2].
Proof. exact interp_valid_example. Qed.

Example C01_interp_invalid_examples :
  proven_node_interp (Interpolate [4; 4; 4; 4] (ARef 7 [3; 4]) 1 2 3) = false /\
  proven_node_interp (Gridding [5] (ARef 7 [3; 2]) 1 2 3) = false.
Proof. exact interp_invalid_examples. Qed.

Example C01_interp_all_example :
  let c := ARef 7 [3; 2] in
  let I := Interpolate [2; 4; 5] c 1 2 3 in
  let G := Gridding [2; 4; 5] c 1 2 3 in
  let A := Add [Compose [G; Hstack [Multiply [2; 3] (MArray (ARef 9 [2; 3])) true; Identity [2; 3]] (Some 0);
                         Vstack [I; Conj I] (Some 0)];
                op_lscale 5 (Compose [G; Hstack [Identity [2; 3]; Identity [2; 3]] (Some (-2)); Diag [I; I] (Some 0) (Some 0);
                                      Vstack [Identity [2; 4; 5]; Flip [2; 4; 5] None] (Some 0)])] in
  wf A = true /\ oshape_of A = [2; 4; 5] /\ ishape_of A = [2; 4; 5] /\
  nodes_ok' (fun L => (proven_all L = true /\ wf L = true) \/ (proven_node_interp L = true /\ wf L = true)) A.
Proof. exact interp_all_example. Qed.


(* ---- library-backed leaves Wavelet / InverseWavelet (model/OpaqueWavelet.v, proofs/OpaqueWavelet.v) ----
   needs, in addition to the imports of Prop_C01.v:
     From SV Require Import model.Wavelet model.OpaqueWavelet proofs.Wavelet proofs.OpaqueWavelet.

   orc_wavelet cs WW WWr L  is what the class L hands to sigpy.wavelet.fwt / iwt (read off linop.py), written with the
   C10 function model:   Wavelet i ax w l _         |->  snd (fwt (cs ax w l) (WW ax w l) i x)
                         InverseWavelet o ax w l _  |->  snd (iwt (WWr ax w l) (zshape o) o x)
   (cs, WW, WWr) is PyWavelets: packed coefficient shape, coeffs_to_array . wavedecn(mode='zero'),
   waverecn(mode='zero') . array_to_coeffs — indexed by (axes as given, wavelet code, level), then by the padded shape
   as in Prop_C10.  The PyWavelets fact is the hypothesis of C10_iwt_is_adjoint, at the leaf's (axes, wave, level). *)
From SV Require Import model.Wavelet model.OpaqueWavelet proofs.Wavelet proofs.OpaqueWavelet.

Theorem C01_wavelet_adjoint :
  forall (R : StarRing) (arr : Z -> list Z -> R) (scal : Z -> R) (orc : linop -> (list Z -> R) -> list Z -> R)
         (cs : option (list Z) -> Z -> option Z -> list Z -> list Z)
         (WW WWr : option (list Z) -> Z -> option Z -> list Z -> (list Z -> R) -> list Z -> R)
         (i : list Z) (ax : option (list Z)) (w : Z) (l : option Z) (ws : list Z),
    ws = wavelet_shape (cs ax w l) i ->                                   (* oshape = get_wavelet_shape(ishape, ...) *)
    (forall x, orc (Wavelet i ax w l ws) x = orc_wavelet cs WW WWr (Wavelet i ax w l ws) x) ->
    (forall x, orc (InverseWavelet i ax w l ws) x = orc_wavelet cs WW WWr (InverseWavelet i ax w l ws) x) ->
    wf (Wavelet i ax w l ws) = true ->
    (forall a c : list Z -> R,
        inner (cs ax w l (zshape i)) (WW ax w l (zshape i) a) c = inner (zshape i) a (WWr ax w l (zshape i) c)) ->
    apair R arr scal orc (Wavelet i ax w l ws).
Proof. exact apair_wavelet. Qed.
Print Assumptions C01_wavelet_adjoint.

Theorem C01_inverse_wavelet_adjoint :
  forall (R : StarRing) (arr : Z -> list Z -> R) (scal : Z -> R) (orc : linop -> (list Z -> R) -> list Z -> R)
         (cs : option (list Z) -> Z -> option Z -> list Z -> list Z)
         (WW WWr : option (list Z) -> Z -> option Z -> list Z -> (list Z -> R) -> list Z -> R)
         (o : list Z) (ax : option (list Z)) (w : Z) (l : option Z) (ws : list Z),
    ws = wavelet_shape (cs ax w l) o ->                                   (* ishape = get_wavelet_shape(oshape, ...) *)
    (forall x, orc (Wavelet o ax w l ws) x = orc_wavelet cs WW WWr (Wavelet o ax w l ws) x) ->
    (forall x, orc (InverseWavelet o ax w l ws) x = orc_wavelet cs WW WWr (InverseWavelet o ax w l ws) x) ->
    wf (InverseWavelet o ax w l ws) = true ->
    (forall a c : list Z -> R,
        inner (cs ax w l (zshape o)) (WW ax w l (zshape o) a) c = inner (zshape o) a (WWr ax w l (zshape o) c)) ->
    apair R arr scal orc (InverseWavelet o ax w l ws).
Proof. exact apair_inverse_wavelet. Qed.
Print Assumptions C01_inverse_wavelet_adjoint.

(* the node lemma for C01_adjoint_of_every_tree / ..._every_operator: a boolean check of the leaf's parameters
   (wavelet_leaf_ok: ndim >= 1; axes None or non-empty, in [-ndim, ndim), distinct after normalisation; level None or
   >= 0; wavelet code in the orthogonal set [orth]; stored coefficient shape = get_wavelet_shape), with the PyWavelets
   fact assumed for all such arguments *)
Theorem C01_wavelet_nodes :
  forall (R : StarRing) (arr : Z -> list Z -> R) (scal : Z -> R) (orc : linop -> (list Z -> R) -> list Z -> R)
         (cs : option (list Z) -> Z -> option Z -> list Z -> list Z)
         (WW WWr : option (list Z) -> Z -> option Z -> list Z -> (list Z -> R) -> list Z -> R) (orth : Z -> bool),
    (forall L, is_wavelet_leaf L = true -> forall x, orc L x = orc_wavelet cs WW WWr L x) ->
    forall L,
    (forall s ax w l, Forall (fun n => 0 < n) s ->
        pywt_axes_ok (lenZ s) ax = true -> pywt_level_ok l = true -> orth w = true ->
        forall a c : list Z -> R,
          inner (cs ax w l (zshape s)) (WW ax w l (zshape s) a) c = inner (zshape s) a (WWr ax w l (zshape s) c)) ->
    proven_node_wavelet cs orth L = true -> wf L = true -> apair R arr scal orc L.
Proof. exact nodes_wavelet. Qed.
Print Assumptions C01_wavelet_nodes.

Theorem C01_wavelet_nodes_closed_under_adjoint :
  forall cs orth L, proven_node_wavelet cs orth L = true -> proven_node_wavelet cs orth (adj L) = true.
Proof. exact proven_node_wavelet_adj. Qed.
Print Assumptions C01_wavelet_nodes_closed_under_adjoint.

Theorem C01_wavelet_adjoint_shapes :
  forall L, is_wavelet_leaf L = true -> forall o i, shapes L = Ok (o, i) -> shapes (adj L) = Ok (i, o).
Proof. exact adj_shape_wavelet_leaf. Qed.
Print Assumptions C01_wavelet_adjoint_shapes.

(* non-vacuity *)
Example C01_wavelet_parameters_example :
  let cs := fun (ax : option (list Z)) (w : Z) (l : option Z) (zsh : list Z) => map (fun n => n + 2) zsh in
  let orth := fun w => (w =? 3) || (w =? 5) in
  wavelet_leaf_ok orth cs (Wavelet [5; 3; 4] (Some [-1; 0]) 3 (Some 2) [8; 6; 6]) = true /\
  wf (Wavelet [5; 3; 4] (Some [-1; 0]) 3 (Some 2) [8; 6; 6]) = true /\
  wavelet_leaf_ok orth cs (InverseWavelet [5; 3; 4] None 5 None [8; 6; 6]) = true /\
  wf (InverseWavelet [5; 3; 4] None 5 None [8; 6; 6]) = true.
Proof. vm_compute. repeat split; reflexivity. Qed.


(* ---- library-backed leaves NUFFT / NUFFTAdjoint (model/OpaqueNufft.v, proofs/OpaqueNufft.v) ----
   additional imports for Prop_C01.v (this text compiles as is after the header of Prop_C01.v plus these two lines):
     From Coq Require Import PrimFloat.     (* only for the hex float literal of C01_nufft_example *)
     From SV Require Import lib.Coord gen.Gen_interp model.Interp model.Fourier model.Nufft model.OpaqueNufft
       proofs.Fourier1D proofs.FourierModel proofs.OpaqueNufft.
   (gen.Gen_interp enters the proof cone of C01 through model/Nufft.v: the check must run the interp translator first,
    as props/C06.py does.)

   orc_nufft = what the classes' _apply computes, written with the C06 function model:
     NUFFT(ishape, coord, oversamp, width, toeplitz)   x |-> nufft(x, coord, oversamp, width)
     NUFFTAdjoint(oshape, coord, oversamp, width)      y |-> nufft_adjoint(y, coord, oshape, oversamp, width), input shape
                                                             oshape[:-ndim] + coord.shape[:-1]
   carr = captured coordinate arrays (coordinate scalars C) by tag, osv / wdv = values of the oversamp / width codes.
   Oracle hypotheses, in the form C05 / C06 / C07 state them: wt real; w_n primitive n-th roots of unity with
   inv n = 1/n (numpy.fft); wt (m / c) = m * wt (1 / c) (C06 assumes the instance m = prod(os_shape[-ndim:]),
   c = sqrt(prod(shape[-ndim:]))).  NOT a hypothesis any more: interpolate / gridding succeed and are an adjoint pair
   (proved here for the python wrappers, ndim = 1, 2, 3, any batch axes, any point-array rank). *)
From Coq Require Import PrimFloat.   (* only for the hex float literal of C01_nufft_example *)
From SV Require Import lib.Scalar.    (* re-import: PrimFloat's mul / add / ... must not shadow the ring operations *)
From SV Require Import lib.Coord gen.Gen_interp model.Interp model.Fourier model.Nufft model.OpaqueNufft
  proofs.Fourier1D proofs.FourierModel proofs.OpaqueNufft.

(* the wrappers interp.interpolate / interp.gridding of model/Interp.v are an exact adjoint pair, with the shapes
   python computes (batch = grid.shape[:-ndim], k-space shape = batch + coord.shape[:-1]) *)
Theorem C01_nufft_interp_wrappers_adjoint :
  forall (R : StarRing) (C : COps) (kern : C -> C -> C) (wt : C -> R), (forall c, conj (wt c) = wt c) ->
  forall gshape cshape (coord : list Z -> C) (width param : wp C),
    let ndim := Z.to_nat (last cshape 0) in
    let ksh := droplast ndim gshape ++ droplast 1 cshape in
    (1 <= length cshape)%nat -> (1 <= ndim <= 3)%nat -> (ndim <= length gshape)%nat ->
    Forall (fun n => 0 < n) gshape -> Forall (fun n => 0 < n) (droplast 1 cshape) ->
    exists I G : (list Z -> R) -> list Z -> R,
      (forall x, interpolate R C kern wt gshape cshape coord width param x = Ok (ksh, I x)) /\
      (forall y, gridding R C kern wt ksh cshape gshape coord width param y = Ok (G y)) /\
      (forall x y, inner ksh (I x) y = inner gshape x (G y)).
Proof. exact interp_wrappers_adjoint. Qed.
Print Assumptions C01_nufft_interp_wrappers_adjoint.

(* fourier.nufft / fourier.nufft_adjoint succeed with the shapes the Linop classes advertise and are EXACT adjoints, with
   NO interpolate/gridding or FFT-pair hypothesis left (C06_nufft_adjoint_exact with its oracles discharged) *)
Theorem C01_nufft_function_pair :
  forall (R : StarRing) (C : COps) (kern : C -> C -> C) (wt : C -> R) (csqrt : C -> C) (cpi : C) (csinh : C -> C)
         (w isc inv : Z -> R),
    (forall c, conj (wt c) = wt c) ->
    (forall n, 0 < n -> root_ok R n (w n)) -> (forall n, 0 < n -> mul (inv n) (nR n) = one) ->
    (forall (m : Z) (c : C), 0 <= m -> wt (cdiv (cofZ m) c) = mul (nR m) (wt (cdiv (cofZ 1) c))) ->
  forall ishape cshape (coord : list Z -> C) (oversamp width : C),
    nufft_okb C ishape cshape oversamp = true ->
    Forall (fun n => 0 < n) ishape -> Forall (fun n => 0 < n) (nufft_pts cshape) ->
    let ksh := nufft_kshape ishape cshape in
    exists A AH : (list Z -> R) -> list Z -> R,
      (forall x, nufft R C kern wt csqrt cpi csinh (twf R w) isc inv ishape cshape coord oversamp width x = Ok (ksh, A x)) /\
      (forall y, nufft_adjoint R C kern wt csqrt cpi csinh (twf R w) isc inv ksh cshape ishape coord oversamp width y = Ok (ishape, AH y)) /\
      (forall x y, inner ksh (A x) y = inner ishape x (AH y)).
Proof. exact nufft_function_pair. Qed.
Print Assumptions C01_nufft_function_pair.

(* NUFFT(ishape, coord, oversamp, width, toeplitz).H is its exact adjoint — toeplitz = False AND True (the flag is not
   read by _apply / _adjoint_linop; it only switches _normal_linop, see below) *)
Theorem C01_nufft_adjoint :
  forall (R : StarRing) (C : COps) (kern : C -> C -> C) (wt : C -> R) (csqrt : C -> C) (cpi : C) (csinh : C -> C)
         (w isc inv : Z -> R),
    (forall c, conj (wt c) = wt c) ->
    (forall n, 0 < n -> root_ok R n (w n)) -> (forall n, 0 < n -> mul (inv n) (nR n) = one) ->
    (forall (m : Z) (c : C), 0 <= m -> wt (cdiv (cofZ m) c) = mul (nR m) (wt (cdiv (cofZ 1) c))) ->
  forall arr scal orc (carr : Z -> list Z -> C) (osv wdv : Z -> C) i c os wd tz,
    wf (NUFFT i c os wd tz) = true -> nufft_okb C i (ashape_of c) (osv os) = true ->
    (forall x, orc (NUFFT i c os wd tz) x =
               orc_nufft R C kern wt csqrt cpi csinh (twf R w) isc inv carr osv wdv (NUFFT i c os wd tz) x) ->
    (forall y, orc (adj (NUFFT i c os wd tz)) y =
               orc_nufft R C kern wt csqrt cpi csinh (twf R w) isc inv carr osv wdv (adj (NUFFT i c os wd tz)) y) ->
    apair R arr scal orc (NUFFT i c os wd tz).
Proof. exact apair_nufft. Qed.
Print Assumptions C01_nufft_adjoint.

(* NUFFTAdjoint(oshape, coord, oversamp, width).H = NUFFT(oshape, coord, oversamp, width) is its exact adjoint *)
Theorem C01_nufft_adjoint_class_adjoint :
  forall (R : StarRing) (C : COps) (kern : C -> C -> C) (wt : C -> R) (csqrt : C -> C) (cpi : C) (csinh : C -> C)
         (w isc inv : Z -> R),
    (forall c, conj (wt c) = wt c) ->
    (forall n, 0 < n -> root_ok R n (w n)) -> (forall n, 0 < n -> mul (inv n) (nR n) = one) ->
    (forall (m : Z) (c : C), 0 <= m -> wt (cdiv (cofZ m) c) = mul (nR m) (wt (cdiv (cofZ 1) c))) ->
  forall arr scal orc (carr : Z -> list Z -> C) (osv wdv : Z -> C) o c os wd,
    wf (NUFFTAdjoint o c os wd) = true -> nufft_okb C o (ashape_of c) (osv os) = true ->
    (forall y, orc (NUFFTAdjoint o c os wd) y =
               orc_nufft R C kern wt csqrt cpi csinh (twf R w) isc inv carr osv wdv (NUFFTAdjoint o c os wd) y) ->
    (forall x, orc (adj (NUFFTAdjoint o c os wd)) x =
               orc_nufft R C kern wt csqrt cpi csinh (twf R w) isc inv carr osv wdv (adj (NUFFTAdjoint o c os wd)) x) ->
    apair R arr scal orc (NUFFTAdjoint o c os wd).
Proof. exact apair_nufft_adjoint. Qed.
Print Assumptions C01_nufft_adjoint_class_adjoint.

(* the node lemma: a boolean check replaces the adjointness hypothesis of every NUFFT / NUFFTAdjoint node *)
Theorem C01_nufft_nodes :
  forall (R : StarRing) (C : COps) (kern : C -> C -> C) (wt : C -> R) (csqrt : C -> C) (cpi : C) (csinh : C -> C)
         (w isc inv : Z -> R),
    (forall c, conj (wt c) = wt c) ->
    (forall n, 0 < n -> root_ok R n (w n)) -> (forall n, 0 < n -> mul (inv n) (nR n) = one) ->
    (forall (m : Z) (c : C), 0 <= m -> wt (cdiv (cofZ m) c) = mul (nR m) (wt (cdiv (cofZ 1) c))) ->
  forall arr scal orc (carr : Z -> list Z -> C) (osv wdv : Z -> C),
    (forall L x, is_nufft L = true ->
                 orc L x = orc_nufft R C kern wt csqrt cpi csinh (twf R w) isc inv carr osv wdv L x) ->
    forall L, proven_node_nufft C osv L = true -> wf L = true -> apair R arr scal orc L.
Proof. exact nodes_nufft. Qed.
Print Assumptions C01_nufft_nodes.

(* ... plugged into C01_adjoint_of_every_tree: NUFFT nodes pass the boolean check, every other node brings Q *)
Theorem C01_adjoint_of_every_tree_with_nufft :
  forall (R : StarRing) (C : COps) (kern : C -> C -> C) (wt : C -> R) (csqrt : C -> C) (cpi : C) (csinh : C -> C)
         (w isc inv : Z -> R),
    (forall c, conj (wt c) = wt c) ->
    (forall n, 0 < n -> root_ok R n (w n)) -> (forall n, 0 < n -> mul (inv n) (nR n) = one) ->
    (forall (m : Z) (c : C), 0 <= m -> wt (cdiv (cofZ m) c) = mul (nR m) (wt (cdiv (cofZ 1) c))) ->
  forall arr scal orc (carr : Z -> list Z -> C) (osv wdv : Z -> C),
    (forall L x, is_nufft L = true ->
                 orc L x = orc_nufft R C kern wt csqrt cpi csinh (twf R w) isc inv carr osv wdv L x) ->
    forall A, wf A = true ->
      nodes_ok (fun L => (proven_node_nufft C osv L = true /\ wf L = true) \/ apair R arr scal orc L) A ->
      apair R arr scal orc A.
Proof. exact adj_correct_with_nufft. Qed.
Print Assumptions C01_adjoint_of_every_tree_with_nufft.

(* shapes of .H are the swapped ones for every parameter; the validity predicate is closed under adj *)
Theorem C01_nufft_adjoint_shapes :
  forall L o i, is_nufft L = true -> shapes L = Ok (o, i) -> shapes (adj L) = Ok (i, o).
Proof. exact adj_shapes_nufft. Qed.
Print Assumptions C01_nufft_adjoint_shapes.
Theorem C01_nufft_predicate_closed_under_adjoint :
  forall (C : COps) (osv : Z -> C) L, proven_node_nufft C osv L = true -> proven_node_nufft C osv (adj L) = true.
Proof. exact proven_node_nufft_adj. Qed.
Print Assumptions C01_nufft_predicate_closed_under_adjoint.

(* non-vacuity: the predicate on float parameters (oversamp 1.25), 2-D + batch + toeplitz and 3-D adjoint with a 2-D
   point array; rejected constructor arguments; the wt hypotheses hold for Q -> Q(i) *)
Example C01_nufft_example :
  let osv := fun _ : Z => 0x1.4p+0%float in
  let L := NUFFT [2; 5; 6] (ARef 1 [7; 2]) 1 2 true in
  let M := NUFFTAdjoint [3; 4; 5; 6] (ARef 2 [2; 3; 3]) 1 2 in
  wf L = true /\ proven_node_nufft FCOps osv L = true /\ proven_node_nufft FCOps osv (adj L) = true /\
  oshape_of L = [2; 7] /\ oversamp_shape FCOps [2; 5; 6] 2 0x1.4p+0%float = [2; 7; 8] /\
  wf M = true /\ proven_node_nufft FCOps osv M = true /\ ishape_of M = [3; 2; 3] /\ adj M = NUFFT [3; 4; 5; 6] (ARef 2 [2; 3; 3]) 1 2 false.
Proof. exact nufft_ok_example. Qed.
Example C01_nufft_wt_hypotheses_hold :
  (forall c : QCOps, conj (wtQ c) = wtQ c) /\
  (forall (m : Z) (c : QCOps), 0 <= m -> wtQ (cdiv (cofZ m) c) = mul (nR m) (wtQ (cdiv (cofZ 1) c))).
Proof. exact nufft_wt_hypotheses_hold. Qed.


(* ================================================================================================================
   THE ASSEMBLY (model/OpaqueStd.v, proofs/OpaqueStd.v): one standard oracle for all library-backed leaf classes and
   one theorem for the whole operator language.

   orc_std E arr : linop -> farr -> farr  dispatches FFT / IFFT to orc_fourier, the four convolution classes to orc_conv,
   Interpolate / Gridding to orc_interp, Wavelet / InverseWavelet to orc_wavelet, NUFFT / NUFFTAdjoint to orc_nufft, all at
   ONE environment E : std_env R C (numpy.fft twiddle table and scalings shared by fft and nufft; coordinate type C,
   weight embedding, captured coordinate arrays and the parameter-code table shared by interpolation and nufft; the
   Kaiser-Bessel / sqrt / pi / sinh oracles of nufft; the PyWavelets triple and the set of orthogonal wavelet codes).
   proven_node_std E L = proven_all L || (one of the five family predicates at E)  is a BOOLEAN check of one node.
   The value correspondence of every run evaluates den with this very oracle on hardware floats (run/RunOpaqueStd.v,
   props/opaque_std.py, props/linop_common.py) against the real classes.
   ================================================================================================================ *)
From SV Require Import model.OpaqueStd proofs.OpaqueStd.

(* orc_std IS each family's oracle on that family's constructors *)
Theorem C01_std_oracle_is_the_family_oracle :
  forall (R : Ops) (C : COps) (E : std_env R C) (arr : Z -> list Z -> R),
    (forall L, fourier_leaf L = true -> forall x, orc_std E arr L x = orc_fourier (e_tw E) (e_isc E) (e_inv E) L x) /\
    (forall L, proven_node_conv L = true -> forall x o, orc_std E arr L x o = orc_conv arr L x o) /\
    (forall L, proven_node_interp L = true ->
       forall x o, orc_std E arr L x o = orc_interp R C (e_wt E) (e_carr E) (e_kern_of E) (e_wp E) (e_wp E) L x o) /\
    (forall L, is_wavelet_leaf L = true -> forall x, orc_std E arr L x = orc_wavelet (e_cs E) (e_WW E) (e_WWr E) L x) /\
    (forall L, is_nufft L = true ->
       forall x, orc_std E arr L x =
                 orc_nufft R C (e_kb E) (e_wt E) (e_csqrt E) (e_cpi E) (e_csinh E) (e_tw E) (e_isc E) (e_inv E)
                           (e_carr E) (e_pv E) (e_pv E) L x).
Proof. exact orc_std_agrees. Qed.
Print Assumptions C01_std_oracle_is_the_family_oracle.

(* every library-backed leaf whose parameters its class accepts: <L x, y> = <x, L^H y>, under the oracle facts of the
   environment and nothing else *)
Theorem C01_every_library_backed_leaf_std :
  forall (R : StarRing) (C : COps) (E : std_env R C) (arr : Z -> list Z -> R) (scal w : Z -> R),
    std_oracle_ok R C E w ->
    forall L, proven_node_opaque E L = true -> wf L = true -> apair R arr scal (orc_std E arr) L.
Proof. exact std_nodes_opaque. Qed.
Print Assumptions C01_every_library_backed_leaf_std.

(* THE theorem.  For EVERY operator expression A over EVERY built-in class — Conj, +, -, scalar multiples, composition
   with python's flattening, Hstack / Vstack / Diag along any axis or None, over all natively modelled leaves AND all
   library-backed leaves — that is well formed and passes the boolean node check:
       <A x, y> = <x, A^H y>  for all x, y, all captured arrays and scalars,  and  shapes (A^H) = swapped shapes of A,
   with A^H the operator the modelled _adjoint_linop returns.  NO per-node hypothesis is left.  The hypotheses are the
   oracle facts about the environment, stated once (std_oracle_ok, spelled out here):
     - the interpolation weights and the 1/sqrt n scalings are real;
     - numpy.fft computes the DFT: the twiddle table holds the powers of primitive n-th roots of unity, inv n = 1/n
       (the form Prop_C05 / Prop_C06 assume);
     - the real scalar m / c enters the data ring as m times 1 / c (Prop_C06);
     - PyWavelets: for every valid call with an orthogonal wavelet, waverecn . array_to_coeffs is the adjoint of
       coeffs_to_array . wavedecn on the padded box (Prop_C10). *)
Theorem C01_adjoint_of_every_tree_std :
  forall (R : StarRing) (C : COps) (E : std_env R C) (arr : Z -> list Z -> R) (scal w : Z -> R) (A : linop),
    ((forall c : C, conj (e_wt E c) = e_wt E c) /\
     (forall n, 0 < n -> conj (e_isc E n) = e_isc E n) /\
     (e_tw E = twf R w /\ (forall n, 0 < n -> root_ok R n (w n)) /\ (forall n, 0 < n -> mul (e_inv E n) (nR n) = one)) /\
     (forall (m : Z) (c : C), 0 <= m -> e_wt E (cdiv (cofZ m) c) = mul (nR m) (e_wt E (cdiv (cofZ 1) c))) /\
     (forall s ax wv l, Forall (fun n => 0 < n) s ->
        pywt_axes_ok (lenZ s) ax = true -> pywt_level_ok l = true -> e_orth E wv = true ->
        forall a c : list Z -> R,
          inner (e_cs E ax wv l (zshape s)) (e_WW E ax wv l (zshape s) a) c = inner (zshape s) a (e_WWr E ax wv l (zshape s) c))) ->
    wf A = true ->
    nodes_ok' (fun L => proven_node_std E L = true) A ->
    (forall x y, inner (oshape_of A) (D R arr scal (orc_std E arr) A x) y
                 = inner (ishape_of A) x (D R arr scal (orc_std E arr) (adj A) y)) /\
    (forall o i, shapes A = Ok (o, i) -> shapes (adj A) = Ok (i, o)).
Proof. exact adj_correct_std. Qed.
Print Assumptions C01_adjoint_of_every_tree_std.

(* without NUFFT / NUFFTAdjoint leaves nothing about numpy.fft's twiddle factors is needed: FFT^H = IFFT holds for ANY
   table (the inverse kernel is the conjugate transpose by construction), only the scaling must be real *)
Theorem C01_adjoint_of_every_tree_std_without_nufft :
  forall (R : StarRing) (C : COps) (E : std_env R C) (arr : Z -> list Z -> R) (scal : Z -> R) (A : linop),
    (forall c : C, conj (e_wt E c) = e_wt E c) ->
    (forall n, 0 < n -> conj (e_isc E n) = e_isc E n) ->
    (forall s ax wv l, Forall (fun n => 0 < n) s ->
       pywt_axes_ok (lenZ s) ax = true -> pywt_level_ok l = true -> e_orth E wv = true ->
       forall a c : list Z -> R,
         inner (e_cs E ax wv l (zshape s)) (e_WW E ax wv l (zshape s) a) c = inner (zshape s) a (e_WWr E ax wv l (zshape s) c)) ->
    wf A = true ->
    nodes_ok' (fun L => proven_node_std E L = true /\ negb (is_nufft L) = true) A ->
    (forall x y, inner (oshape_of A) (D R arr scal (orc_std E arr) A x) y
                 = inner (ishape_of A) x (D R arr scal (orc_std E arr) (adj A) y)) /\
    (forall o i, shapes A = Ok (o, i) -> shapes (adj A) = Ok (i, o)).
Proof. exact adj_correct_std_no_nufft. Qed.
Print Assumptions C01_adjoint_of_every_tree_std_without_nufft.

(* non-vacuity.  An exact environment: data in Q(i), coordinates in Q, wt the inclusion, twiddle table w_4 = -i, w_2 = -1,
   w_1 = 1 (the primitive roots Q(i) has) with exact 1/n and 1/sqrt n, the identity PyWavelets pair, rational kernels.
   All hypotheses hold at once (the root-of-unity facts at n = 1, 2, 4); a mixed tree through all six combinators over
   FFT (negative / repeated axes), IFFT (center=False), ConvolveData ('valid', strided) and its adjoint class,
   Interpolate / Gridding, Wavelet / InverseWavelet and natively modelled leaves passes the check, and with NUFFT /
   NUFFTAdjoint added it still does; the theorem applied to it leaves no hypothesis. *)
Example C01_std_hypotheses_hold :
  wt_real QIRing QCOps ex_env /\ wt_div_ok QIRing QCOps ex_env /\ isc_real QIRing QCOps ex_env /\
  pywt_ok QIRing QCOps ex_env /\ pywt_reconstructs_all QIRing (e_WW ex_env) (e_WWr ex_env) (e_orth ex_env) /\
  e_tw ex_env = twf QIRing ex_w /\
  (forall n, n = 1 \/ n = 2 \/ n = 4 -> root_ok QIRing n (ex_w n) /\ mul (e_inv ex_env n) (nR n) = one) /\
  (forall n, n = 1 \/ n = 4 -> mul (mul (e_isc ex_env n) (e_isc ex_env n)) (nR n) = one).
Proof. exact ex_hypotheses_hold. Qed.

Example C01_std_trees_accepted :
  wf ex_tree_core = true /\ oshape_of ex_tree_core = [4; 4] /\ ishape_of ex_tree_core = [4; 4] /\
  nodes_ok' (fun L => proven_node_std ex_env L = true /\ no_nufft_node L = true) ex_tree_core /\
  wf ex_tree_nufft = true /\ nodes_ok' (fun L => proven_node_std ex_env L = true) ex_tree_nufft.
Proof. exact ex_trees_accepted. Qed.

Example C01_std_adjoint_of_mixed_tree : forall (arr : Z -> list Z -> QIRing) (scal : Z -> QIRing),
  (forall x y, inner [4; 4] (D QIRing arr scal (orc_std ex_env arr) ex_tree_core x) y =
               inner [4; 4] x (D QIRing arr scal (orc_std ex_env arr) (adj ex_tree_core) y)) /\
  adj_shape_ok ex_tree_core.
Proof. exact ex_adjoint_of_mixed_tree. Qed.
Print Assumptions C01_std_adjoint_of_mixed_tree.
