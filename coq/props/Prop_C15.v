(* Prop_C15 — solvers stop within max_iter and stop early only at genuine fixed points; power
   iteration's estimate is monotone and bounded.  Only statements; every proof is `exact <lemma>`.

   The base class (model/Alg.v):   update s := let s' := _update s in set_iter (iter s' + 1) s'
                                   done s   := _done s
                                   run      := while not done: update
   A subclass is a record [AlgClass St]; [AlgLaws C stop] says that its _update leaves iter and
   max_iter alone and that its _done is  iter >= max_iter or stop(state). *)
From Coq Require Import Reals ZArith List Bool.
From Coq Require PrimFloat.
From SV Require Import model.Alg proofs.IPSpace proofs.CGBasic proofs.CG proofs.Driver proofs.Stopping
  run.RunC15 proofs.DriverObs.
Import ListNotations.

(* [core] driver_bound: the loop performs N = min(budget, first stopping k) updates, exits because
   done() holds (for the first time), and iter = iter0 + N <= max(iter0, max_iter); any max_iter
   (0 and negative included), any subclass satisfying the laws *)
Theorem C15_driver_bound :
  forall (St : Type) (C : AlgClass St) (stop : St -> bool), AlgLaws C stop ->
  forall s : St,
    let m := get_max_iter C s in
    let i0 := get_iter C s in
    let N := run_updates C s in
    let s' := run C s in
    s' = iter_update C N s /\
    done C s' = true /\
    (forall j, (j < N)%nat -> done C (iter_update C j s) = false) /\
    get_iter C s' = (i0 + Z.of_nat N)%Z /\
    (i0 + Z.of_nat N <= Z.max i0 m)%Z /\
    (forall j, (j < N)%nat -> stop (iter_update C j s) = false) /\
    ((i0 + Z.of_nat N = Z.max i0 m)%Z \/ stop s' = true).
Proof. exact @driver_bound. Qed.
Print Assumptions C15_driver_bound.

(* [core] any interleaving of extra done() queries: the state depends only on the number of
   update() calls, iter after the j-th update is iter0 + j, every query answers done of the state
   it is asked in (done() is a pure function of the state in the model; that the Python done()
   has no side effect is what the history correspondence checks) *)
Theorem C15_driver_interleaving :
  forall (St : Type) (C : AlgClass St) (stop : St -> bool), AlgLaws C stop ->
  forall (acts : list action) (s : St),
    fst (fst (exec_actions C acts s)) = iter_update C (count_updates acts) s /\
    snd (fst (exec_actions C acts s)) = map (fun j => done C (iter_update C j s)) (query_positions acts 0) /\
    snd (exec_actions C acts s) = map (fun j => (get_iter C s + Z.of_nat j)%Z) (seq 1 (count_updates acts)).
Proof. exact @driver_interleaving. Qed.
Print Assumptions C15_driver_interleaving.

(* every modelled override obeys the laws -- over ANY operations record (binary64 included) *)
Theorem C15_laws_ConjugateGradient :
  forall (E : IPOps) (A : Vec E -> Vec E) (P : option (Vec E -> Vec E)),
    AlgLaws (CGClass E A P) (fun s => cg_npd s || sleb (cg_resid s) (cg_tol s)).
Proof. exact CG_laws. Qed.
Theorem C15_laws_PowerMethod :
  forall (E : IPOps) (A : Vec E -> Vec E), AlgLaws (PMClass E A) (fun _ => false).
Proof. exact PM_laws. Qed.
Theorem C15_laws_GradientMethod :
  forall (E : IPOps) gradf alpha proxg acc,
    AlgLaws (GMClass E gradf alpha proxg acc) (fun s => sleb (gm_resid s) (gm_tol s)).
Proof. exact GM_laws. Qed.
Theorem C15_laws_PDHG :
  forall (E : IPOps) U uadd usub uscale udivs udot A AH proxfc proxg theta0 gp gd sgt0 seq0,
    AlgLaws (PDHGClass E U uadd usub uscale udivs udot A AH proxfc proxg theta0 gp gd sgt0 seq0)
            (fun s => sleb (pd_resid E U s) (pd_tol E U s)).
Proof. exact PDHG_laws. Qed.
Theorem C15_laws_observed_history :
  AlgLaws OClass (fun s => os_flag s || PrimFloat.leb (os_resid s) (os_tol s)).
Proof. exact OClass_laws. Qed.
Print Assumptions C15_laws_ConjugateGradient.
Print Assumptions C15_laws_PowerMethod.
Print Assumptions C15_laws_GradientMethod.
Print Assumptions C15_laws_PDHG.
Print Assumptions C15_laws_observed_history.

Local Open Scope R_scope.

(* [core] early_stop_fixed, GradientMethod without acceleration: resid = 0 (the only way
   `resid <= tol` can hold with tol = 0, resid being a norm / alpha) means x is a fixed point of
   T = prox_{alpha g}(. - alpha grad f(.)), and a further update leaves x unchanged *)
Theorem C15_gm_early_stop_fixed :
  forall (H : IPSpace) (gradf : ipV H -> ipV H) (alpha : R) (proxg : option (R -> ipV H -> ipV H)),
    alpha <> 0 ->
    forall s : gm_state (ops_of H),
      let C := GMClass (ops_of H) gradf alpha proxg false in
      gm_resid (update C s) = 0 ->
      gm_x (update C s) = gm_x s /\
      gm_T (ops_of H) gradf alpha proxg (gm_x s) = gm_x s /\
      gm_x (update C (update C s)) = gm_x (update C s).
Proof. exact gm_early_stop_fixed. Qed.
Print Assumptions C15_gm_early_stop_fixed.

(* [core] accelerated GradientMethod (current code: resid = max(||x - x_old||, ||x - z_old||) / alpha, z_old being
   the extrapolated point the step was taken from).  resid = 0 forces x' = x_old = z_old, hence z' = x' and
   T x' = x': a genuine fixed point, and the next update leaves x unchanged.  Unconditional (alpha > 0).
   (With the earlier residual ||x - x_old|| / alpha alone this needed the side condition T x' = x', which the
   check refuted on a 1-D lasso instance -- kept as the first corpus case of props/C15.py.) *)
Theorem C15_gm_accel_early_stop_fixed :
  forall (H : IPSpace) (gradf : ipV H -> ipV H) (alpha : R) (proxg : option (R -> ipV H -> ipV H)),
    alpha <> 0 ->
    forall s : gm_state (ops_of H),
      let C := GMClass (ops_of H) gradf alpha proxg true in
      0 < alpha ->
      gm_resid (update C s) = 0 ->
      gm_x (update C s) = gm_x s /\ gm_x (update C s) = gm_z s /\ gm_z (update C s) = gm_x (update C s) /\
      gm_T (ops_of H) gradf alpha proxg (gm_x (update C s)) = gm_x (update C s) /\
      gm_x (update C (update C s)) = gm_x (update C s).
Proof. exact gm_accel_early_stop_fixed. Qed.
Print Assumptions C15_gm_accel_early_stop_fixed.

(* [core] ConjugateGradient: resid = 0 on a healthy state means r = 0, the system is solved, and
   one more update changes nothing but the breakdown flag *)
Theorem C15_cg_early_stop_fixed :
  forall (H : IPSpace) (A : ipV H -> ipV H) (b : ipV H) (P : option (ipV H -> ipV H)) (x0 : ipV H)
         (max_iter : Z) (tol : R),
    selfadjoint H A -> P_ok H P ->
    forall k : nat,
      let s := cg_seq (ops_of H) A b P x0 max_iter tol in
      ((Z.of_nat k <= Z.max 0 (max_iter - 1))%Z /\ cg_npd (s k) = false) ->
      cg_resid (s k) = 0 ->
      cg_r (s k) = ip0 H /\ A (cg_x (s k)) = b /\ cg_x (s (S k)) = cg_x (s k) /\ cg_npd (s (S k)) = true.
Proof. exact cg_resid0_fixed. Qed.
Print Assumptions C15_cg_early_stop_fixed.

(* [core] PDHG (after the fix the residual is sqrt(resid_primal^2 + resid_dual^2)):
   resid = 0  ==>  neither x nor u moved in this update; scalar positive step sizes *)
Theorem C15_pdhg_resid_zero_no_move :
  forall (HX HU : IPSpace) (A : ipV HX -> ipV HU) (AH : ipV HU -> ipV HX)
         (proxfc : R -> ipV HU -> ipV HU) (proxg : R -> ipV HX -> ipV HX)
         (theta0 gamma_primal gamma_dual : R) (sgt0 seq0 : R -> bool),
    let C := PDHGClass (ops_of HX) (ipV HU) (ipadd HU) (ipsub HU) (ipscale HU) (ipdivs HU) (ipdot HU)
                       A AH proxfc proxg theta0 gamma_primal gamma_dual sgt0 seq0 in
    forall s : pdhg_state (ops_of HX) (ipV HU),
      0 < pd_sigma (ops_of HX) (ipV HU) s -> 0 < pd_tau (ops_of HX) (ipV HU) (update C s) ->
      pd_resid (ops_of HX) (ipV HU) (update C s) = 0 ->
      pd_x (ops_of HX) (ipV HU) (update C s) = pd_x (ops_of HX) (ipV HU) s /\
      pd_u (ops_of HX) (ipV HU) (update C s) = pd_u (ops_of HX) (ipV HU) s /\
      pd_x_ext (ops_of HX) (ipV HU) (update C s) = pd_x (ops_of HX) (ipV HU) (update C s).
Proof. exact pdhg_resid_zero_no_move. Qed.
Print Assumptions C15_pdhg_resid_zero_no_move.

(* ... and, without step-size adaptation, from an un-extrapolated point it is a genuine fixed point *)
Theorem C15_pdhg_early_stop_fixed :
  forall (HX HU : IPSpace) (A : ipV HX -> ipV HU) (AH : ipV HU -> ipV HX)
         (proxfc : R -> ipV HU -> ipV HU) (proxg : R -> ipV HX -> ipV HX)
         (theta0 gamma_primal gamma_dual : R) (sgt0 seq0 : R -> bool),
    let C := PDHGClass (ops_of HX) (ipV HU) (ipadd HU) (ipsub HU) (ipscale HU) (ipdivs HU) (ipdot HU)
                       A AH proxfc proxg theta0 gamma_primal gamma_dual sgt0 seq0 in
    forall s : pdhg_state (ops_of HX) (ipV HU),
      (sgt0 gamma_primal && seq0 gamma_dual = false) -> (seq0 gamma_primal && sgt0 gamma_dual = false) ->
      0 < pd_sigma (ops_of HX) (ipV HU) s -> 0 < pd_tau (ops_of HX) (ipV HU) s ->
      pd_x_ext (ops_of HX) (ipV HU) s = pd_x (ops_of HX) (ipV HU) s ->
      pd_resid (ops_of HX) (ipV HU) (update C s) = 0 ->
      pd_x (ops_of HX) (ipV HU) (update C (update C s)) = pd_x (ops_of HX) (ipV HU) (update C s) /\
      pd_u (ops_of HX) (ipV HU) (update C (update C s)) = pd_u (ops_of HX) (ipV HU) (update C s).
Proof. exact pdhg_early_stop_fixed. Qed.
Print Assumptions C15_pdhg_early_stop_fixed.

(* [core] power_monotone, power_bounded.  e_k := max_eig after k updates (= ||A x_{k-1}||).  For a
   self-adjoint A (positive semidefiniteness is not even needed for these two facts) and A x0 <> 0:
   for all k >= 1, ||x_k|| = 1, 0 < e_{k+1} <= e_{k+2}, and e_{k+1} <= L for every L with
   ||A v|| <= L ||v|| for all v (L = lambda_max when A is Hermitian PSD) *)
Theorem C15_power_monotone_bounded :
  forall (H : IPSpace) (A : ipV H -> ipV H), selfadjoint H A ->
  forall (x0 : ipV H) (inf : R) (max_iter : Z),
    A x0 <> ip0 H ->
    forall k : nat, (1 <= k)%nat ->
      let s := pm_seq (ops_of H) A x0 inf max_iter in
      ipdot H (pm_x (s k)) (pm_x (s k)) = 1 /\
      0 < pm_max_eig (s (S k)) /\
      pm_max_eig (s (S k)) <= pm_max_eig (s (S (S k))) /\
      (forall L, (forall v, sqrt (ipdot H (A v) (A v)) <= L * sqrt (ipdot H v v)) -> pm_max_eig (s (S k)) <= L).
Proof. exact power_monotone_bounded. Qed.
Print Assumptions C15_power_monotone_bounded.

(* NOT proved (validated by the history correspondence / oracle only): NewtonsMethod, GerchbergSaxton,
   ADMM, AltMin early-stop statements (the last two have no early stop; their _done is the base one);
   PDHG with array-valued step sizes. *)

(* non-vacuity: a space, a self-adjoint PD operator with A x0 <> 0 *)
Example C15_hypotheses_satisfiable :
  selfadjoint R2Space A2 /\ A2 (1, 0) <> ip0 R2Space.
Proof. exact (conj A2_selfadjoint A2_e1_nonzero). Qed.
Print Assumptions C15_hypotheses_satisfiable.
