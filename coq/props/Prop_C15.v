(* Prop_C15 — solvers stop within max_iter and stop early only at genuine fixed points; power
   iteration's estimate is monotone and bounded.  Only statements; every proof is `exact <lemma>`.

   The base class (model/Alg.v):   update s := let s' := _update s in set_iter (iter s' + 1) s'
                                   done s   := _done s
                                   run      := while not done: update
   A subclass is a record [AlgClass St]; [AlgLaws C stop] says that its _update leaves iter and
   max_iter alone and that its _done is  iter >= max_iter or stop(state). *)
From Coq Require Import Reals ZArith List Bool.
From Coq Require PrimFloat.
From SV Require Import model.Alg proofs.IPSpace proofs.CGBasic proofs.CG proofs.Driver proofs.Stopping
  run.RunC15 proofs.DriverObs.
Import ListNotations.

(* [core] driver_bound: the loop performs N = min(budget, first stopping k) updates, exits because
   done() holds (for the first time), and iter = iter0 + N <= max(iter0, max_iter); any max_iter
   (0 and negative included), any subclass satisfying the laws *)
Theorem C15_driver_bound :
  forall (St : Type) (C : AlgClass St) (stop : St -> bool), AlgLaws C stop ->
  forall s : St,
    let m := get_max_iter C s in
    let i0 := get_iter C s in
    let N := run_updates C s in
    let s' := run C s in
    s' = iter_update C N s /\
    done C s' = true /\
    (forall j, (j < N)%nat -> done C (iter_update C j s) = false) /\
    get_iter C s' = (i0 + Z.of_nat N)%Z /\
    (i0 + Z.of_nat N <= Z.max i0 m)%Z /\
    (forall j, (j < N)%nat -> stop (iter_update C j s) = false) /\
    ((i0 + Z.of_nat N = Z.max i0 m)%Z \/ stop s' = true).
Proof. exact @driver_bound. Qed.
Print Assumptions C15_driver_bound.

(* [core] any interleaving of extra done() queries: the state depends only on the number of
   update() calls, iter after the j-th update is iter0 + j, every query answers done of the state
   it is asked in (done() is a pure function of the state in the model; that the Python done()
   has no side effect is what the history correspondence checks) *)
Theorem C15_driver_interleaving :
  forall (St : Type) (C : AlgClass St) (stop : St -> bool), AlgLaws C stop ->
  forall (acts : list action) (s : St),
    fst (fst (exec_actions C acts s)) = iter_update C (count_updates acts) s /\
    snd (fst (exec_actions C acts s)) = map (fun j => done C (iter_update C j s)) (query_positions acts 0) /\
    snd (exec_actions C acts s) = map (fun j => (get_iter C s + Z.of_nat j)%Z) (seq 1 (count_updates acts)).
Proof. exact @driver_interleaving. Qed.
Print Assumptions C15_driver_interleaving.

(* every modelled override obeys the laws -- over ANY operations record (binary64 included) *)
Theorem C15_laws_ConjugateGradient :
  forall (E : IPOps) (A : Vec E -> Vec E) (P : option (Vec E -> Vec E)),
    AlgLaws (CGClass E A P) (fun s => cg_npd s || sleb (cg_resid s) (cg_tol s)).
Proof. exact CG_laws. Qed.
Theorem C15_laws_PowerMethod :
  forall (E : IPOps) (A : Vec E -> Vec E), AlgLaws (PMClass E A) (fun _ => false).
Proof. exact PM_laws. Qed.
Theorem C15_laws_GradientMethod :
  forall (E : IPOps) gradf alpha proxg acc,
    AlgLaws (GMClass E gradf alpha proxg acc) (fun s => sleb (gm_resid s) (gm_tol s)).
Proof. exact GM_laws. Qed.
Theorem C15_laws_PDHG :
  forall (E : IPOps) U uadd usub uscale udivs udot A AH proxfc proxg theta0 gp gd sgt0 seq0,
    AlgLaws (PDHGClass E U uadd usub uscale udivs udot A AH proxfc proxg theta0 gp gd sgt0 seq0)
            (fun s => sleb (pd_resid E U s) (pd_tol E U s)).
Proof. exact PDHG_laws. Qed.
Theorem C15_laws_observed_history :
  AlgLaws OClass (fun s => os_flag s || PrimFloat.leb (os_resid s) (os_tol s)).
Proof. exact OClass_laws. Qed.
Print Assumptions C15_laws_ConjugateGradient.
Print Assumptions C15_laws_PowerMethod.
Print Assumptions C15_laws_GradientMethod.
Print Assumptions C15_laws_PDHG.
Print Assumptions C15_laws_observed_history.

Local Open Scope R_scope.

(* [core] early_stop_fixed, GradientMethod without acceleration: resid = 0 (the only way
   `resid <= tol` can hold with tol = 0, resid being a norm / alpha) means x is a fixed point of
   T = prox_{alpha g}(. - alpha grad f(.)), and a further update leaves x unchanged *)
Theorem C15_gm_early_stop_fixed :
  forall (H : IPSpace) (gradf : ipV H -> ipV H) (alpha : R) (proxg : option (R -> ipV H -> ipV H)),
    alpha <> 0 ->
    forall s : gm_state (ops_of H),
      let C := GMClass (ops_of H) gradf alpha proxg false in
      gm_resid (update C s) = 0 ->
      gm_x (update C s) = gm_x s /\
      gm_T (ops_of H) gradf alpha proxg (gm_x s) = gm_x s /\
      gm_x (update C (update C s)) = gm_x (update C s).
Proof. exact gm_early_stop_fixed. Qed.
Print Assumptions C15_gm_early_stop_fixed.

(* [core] accelerated GradientMethod (current code: resid = max(||x - x_old||, ||x - z_old||) / alpha, z_old being
   the extrapolated point the step was taken from).  resid = 0 forces x' = x_old = z_old, hence z' = x' and
   T x' = x': a genuine fixed point, and the next update leaves x unchanged.  Unconditional (alpha > 0).
   (With the earlier residual ||x - x_old|| / alpha alone this needed the side condition T x' = x', which the
   check refuted on a 1-D lasso instance -- kept as the first corpus case of props/C15.py.) *)
Theorem C15_gm_accel_early_stop_fixed :
  forall (H : IPSpace) (gradf : ipV H -> ipV H) (alpha : R) (proxg : option (R -> ipV H -> ipV H)),
    alpha <> 0 ->
    forall s : gm_state (ops_of H),
      let C := GMClass (ops_of H) gradf alpha proxg true in
      0 < alpha ->
      gm_resid (update C s) = 0 ->
      gm_x (update C s) = gm_x s /\ gm_x (update C s) = gm_z s /\ gm_z (update C s) = gm_x (update C s) /\
      gm_T (ops_of H) gradf alpha proxg (gm_x (update C s)) = gm_x (update C s) /\
      gm_x (update C (update C s)) = gm_x (update C s).
Proof. exact gm_accel_early_stop_fixed. Qed.
Print Assumptions C15_gm_accel_early_stop_fixed.

(* [core] ConjugateGradient: resid = 0 on a healthy state means r = 0, the system is solved, and
   one more update changes nothing but the breakdown flag *)
Theorem C15_cg_early_stop_fixed :
  forall (H : IPSpace) (A : ipV H -> ipV H) (b : ipV H) (P : option (ipV H -> ipV H)) (x0 : ipV H)
         (max_iter : Z) (tol : R),
    selfadjoint H A -> P_ok H P ->
    forall k : nat,
      let s := cg_seq (ops_of H) A b P x0 max_iter tol in
      ((Z.of_nat k <= Z.max 0 (max_iter - 1))%Z /\ cg_npd (s k) = false) ->
      cg_resid (s k) = 0 ->
      cg_r (s k) = ip0 H /\ A (cg_x (s k)) = b /\ cg_x (s (S k)) = cg_x (s k) /\ cg_npd (s (S k)) = true.
Proof. exact cg_resid0_fixed. Qed.
Print Assumptions C15_cg_early_stop_fixed.

(* [core] PDHG (after the fix the residual is sqrt(resid_primal^2 + resid_dual^2)):
   resid = 0  ==>  neither x nor u moved in this update; scalar positive step sizes *)
Theorem C15_pdhg_resid_zero_no_move :
  forall (HX HU : IPSpace) (A : ipV HX -> ipV HU) (AH : ipV HU -> ipV HX)
         (proxfc : R -> ipV HU -> ipV HU) (proxg : R -> ipV HX -> ipV HX)
         (theta0 gamma_primal gamma_dual : R) (sgt0 seq0 : R -> bool),
    let C := PDHGClass (ops_of HX) (ipV HU) (ipadd HU) (ipsub HU) (ipscale HU) (ipdivs HU) (ipdot HU)
                       A AH proxfc proxg theta0 gamma_primal gamma_dual sgt0 seq0 in
    forall s : pdhg_state (ops_of HX) (ipV HU),
      0 < pd_sigma (ops_of HX) (ipV HU) s -> 0 < pd_tau (ops_of HX) (ipV HU) (update C s) ->
      pd_resid (ops_of HX) (ipV HU) (update C s) = 0 ->
      pd_x (ops_of HX) (ipV HU) (update C s) = pd_x (ops_of HX) (ipV HU) s /\
      pd_u (ops_of HX) (ipV HU) (update C s) = pd_u (ops_of HX) (ipV HU) s /\
      pd_x_ext (ops_of HX) (ipV HU) (update C s) = pd_x (ops_of HX) (ipV HU) (update C s).
Proof. exact pdhg_resid_zero_no_move. Qed.
Print Assumptions C15_pdhg_resid_zero_no_move.

(* ... and, without step-size adaptation, from an un-extrapolated point it is a genuine fixed point *)
Theorem C15_pdhg_early_stop_fixed :
  forall (HX HU : IPSpace) (A : ipV HX -> ipV HU) (AH : ipV HU -> ipV HX)
         (proxfc : R -> ipV HU -> ipV HU) (proxg : R -> ipV HX -> ipV HX)
         (theta0 gamma_primal gamma_dual : R) (sgt0 seq0 : R -> bool),
    let C := PDHGClass (ops_of HX) (ipV HU) (ipadd HU) (ipsub HU) (ipscale HU) (ipdivs HU) (ipdot HU)
                       A AH proxfc proxg theta0 gamma_primal gamma_dual sgt0 seq0 in
    forall s : pdhg_state (ops_of HX) (ipV HU),
      (sgt0 gamma_primal && seq0 gamma_dual = false) -> (seq0 gamma_primal && sgt0 gamma_dual = false) ->
      0 < pd_sigma (ops_of HX) (ipV HU) s -> 0 < pd_tau (ops_of HX) (ipV HU) s ->
      pd_x_ext (ops_of HX) (ipV HU) s = pd_x (ops_of HX) (ipV HU) s ->
      pd_resid (ops_of HX) (ipV HU) (update C s) = 0 ->
      pd_x (ops_of HX) (ipV HU) (update C (update C s)) = pd_x (ops_of HX) (ipV HU) (update C s) /\
      pd_u (ops_of HX) (ipV HU) (update C (update C s)) = pd_u (ops_of HX) (ipV HU) (update C s).
Proof. exact pdhg_early_stop_fixed. Qed.
Print Assumptions C15_pdhg_early_stop_fixed.

(* [core] power_monotone, power_bounded.  e_k := max_eig after k updates (= ||A x_{k-1}||).  For a
   self-adjoint A (positive semidefiniteness is not even needed for these two facts) and A x0 <> 0:
   for all k >= 1, ||x_k|| = 1, 0 < e_{k+1} <= e_{k+2}, and e_{k+1} <= L for every L with
   ||A v|| <= L ||v|| for all v (L = lambda_max when A is Hermitian PSD) *)
Theorem C15_power_monotone_bounded :
  forall (H : IPSpace) (A : ipV H -> ipV H), selfadjoint H A ->
  forall (x0 : ipV H) (inf : R) (max_iter : Z),
    A x0 <> ip0 H ->
    forall k : nat, (1 <= k)%nat ->
      let s := pm_seq (ops_of H) A x0 inf max_iter in
      ipdot H (pm_x (s k)) (pm_x (s k)) = 1 /\
      0 < pm_max_eig (s (S k)) /\
      pm_max_eig (s (S k)) <= pm_max_eig (s (S (S k))) /\
      (forall L, (forall v, sqrt (ipdot H (A v) (A v)) <= L * sqrt (ipdot H v v)) -> pm_max_eig (s (S k)) <= L).
Proof. exact power_monotone_bounded. Qed.
Print Assumptions C15_power_monotone_bounded.

(* NOT proved (validated by the history correspondence / oracle only): NewtonsMethod, GerchbergSaxton,
   ADMM, AltMin early-stop statements (the last two have no early stop; their _done is the base one);
   PDHG with array-valued step sizes. *)

(* non-vacuity: a space, a self-adjoint PD operator with A x0 <> 0 *)
Example C15_hypotheses_satisfiable :
  selfadjoint R2Space A2 /\ A2 (1, 0) <> ip0 R2Space.
Proof. exact (conj A2_selfadjoint A2_e1_nonzero). Qed.
Print Assumptions C15_hypotheses_satisfiable.

(* ===================================================================================================
   ADDED (model/Alg2.v, proofs/Stopping2.v): the early-stop statements for NewtonsMethod, GerchbergSaxton,
   PDHG with array-valued step sizes, and PDHG's step-adaptation branches -- supersedes the "NOT proved"
   remark above for these four items (ADMM / AltMin have no early stop). *)
From SV Require Import model.Alg2 proofs.Stopping2 proofs.CGFinite proofs.RnSpace.

(* the three additional overrides obey the driver laws (any operations record), so C15_driver_bound /
   C15_driver_interleaving apply to them.  (NewtonsMethod: for updates that do not raise ValueError.) *)
Theorem C15_laws_NewtonsMethod :
  forall (E : IPOps) gradf inv_hessf beta f slt sgt fuel,
    AlgLaws (NMClass E gradf inv_hessf beta f slt sgt fuel) (fun s => sleb (nm_residual s) (nm_tol s)).
Proof. exact NM_laws. Qed.
Theorem C15_laws_GerchbergSaxton :
  forall (E : IPOps) sabs cphase A AH y lamb,
    AlgLaws (GSClass E sabs cphase A AH y lamb) (fun s => sleb (gs_residual s) (gs_tol s)).
Proof. exact GS_laws. Qed.
Theorem C15_laws_PDHG_array_steps :
  forall (E : IPOps) U uadd usub uscale udivs udot xmul xdiv xsqrt umul udiv usqrt A AH proxfc proxg theta0 gp gd sgt0 seq0,
    AlgLaws (PDHGAClass E U uadd usub uscale udivs udot xmul xdiv xsqrt umul udiv usqrt
                        A AH proxfc proxg theta0 gp gd sgt0 seq0)
            (fun s => sleb (pa_resid E U s) (pa_tol E U s)).
Proof. exact PDHGA_laws. Qed.
Print Assumptions C15_laws_NewtonsMethod.
Print Assumptions C15_laws_GerchbergSaxton.
Print Assumptions C15_laws_PDHG_array_steps.

(* [core] NewtonsMethod: residual = lamda2 ** 0.5 with lamda2 = <inv_hessf(x)(g), g>, g = gradf(x).  If the inverse
   Hessian at x is self-adjoint positive definite, residual = 0 (no ValueError) means g = 0, and the update left x
   unchanged -- whatever beta, f and the comparisons of the backtracking loop are *)
Theorem C15_newton_resid_zero_stationary :
  forall (H : IPSpace) (gradf : ipV H -> ipV H) (inv_hessf : ipV H -> ipV H -> ipV H) (beta : R)
         (f : ipV H -> R) (slt sgt : R -> R -> bool) (ls_fuel : nat) (s : nm_state (ops_of H)),
    let C := NMClass (ops_of H) gradf inv_hessf beta f slt sgt ls_fuel in
    selfadjoint H (inv_hessf (nm_x s)) -> posdef H (inv_hessf (nm_x s)) ->
    nm_raised (update C s) = false ->
    nm_residual (update C s) = 0 ->
    gradf (nm_x s) = ip0 H /\ nm_x (update C s) = nm_x s /\ nm_lamda2 (update C s) = 0.
Proof. exact newton_resid_zero_stationary. Qed.
Print Assumptions C15_newton_resid_zero_stationary.

(* ... and it is a genuine fixed point: one more update does not raise, leaves x unchanged, residual = 0 again *)
Theorem C15_newton_early_stop_fixed :
  forall (H : IPSpace) (gradf : ipV H -> ipV H) (inv_hessf : ipV H -> ipV H -> ipV H) (beta : R)
         (f : ipV H -> R) (slt sgt : R -> R -> bool) (ls_fuel : nat) (s : nm_state (ops_of H)),
    let C := NMClass (ops_of H) gradf inv_hessf beta f slt sgt ls_fuel in
    (forall a c, slt a c = true -> a < c) ->
    selfadjoint H (inv_hessf (nm_x s)) -> posdef H (inv_hessf (nm_x s)) ->
    nm_raised (update C s) = false ->
    nm_residual (update C s) = 0 ->
    nm_raised (update C (update C s)) = false /\
    nm_x (update C (update C s)) = nm_x (update C s) /\
    nm_residual (update C (update C s)) = 0.
Proof. exact newton_early_stop_fixed. Qed.
Print Assumptions C15_newton_early_stop_fixed.

(* [core] GerchbergSaxton's stop rule as coded: residual = sum_i | |(A x)_i| - y_i |; `residual <= tol` with tol = 0
   holds EXACTLY when every observed amplitude is matched, |(A x)_i| = y_i (entries are (re, im) pairs,
   cabs (re, im) = sqrt(re^2 + im^2)) *)
Theorem C15_gs_stop_iff_amplitudes_match :
  forall (H : IPSpace) (cphase : R * R -> R * R) (A : ipV H -> list (R * R)) (AH : list (R * R) -> ipV H)
         (y : list R) (lamb : R) (s : gs_state (ops_of H)),
    let C := GSClass (ops_of H) Rabs cphase A AH y lamb in
    gs_residual (update C s) <= 0 <->
    (forall w yi, In (w, yi) (combine (A (gs_x (update C s))) y) -> cabs (ops_of H) w = yi).
Proof. exact gs_stop_iff_amplitudes_match. Qed.
Print Assumptions C15_gs_stop_iff_amplitudes_match.

(* ... and with lamb = 0 such a stop is a fixed point of the whole update (y_hat = A x, so x solves the inner normal
   equations and ConjugateGradient(system, b, x, max_iter=5) stops before its first update).  With lamb <> 0 the
   stop rule says nothing about the Tikhonov term: x solves the inner system only if lamb * x = 0. *)
Theorem C15_gs_stop_fixed :
  forall (H : IPSpace) (cphase : R * R -> R * R) (A : ipV H -> list (R * R)) (AH : list (R * R) -> ipV H)
         (y : list R) (lamb : R),
    (forall v, length (A v) = length y) ->
    (forall w, cscale (ops_of H) (cabs (ops_of H) w) (cphase w) = w) ->
    forall s : gs_state (ops_of H),
      let C := GSClass (ops_of H) Rabs cphase A AH y lamb in
      lamb = 0 ->
      gs_residual (update C s) <= 0 ->
      gs_x (update C (update C s)) = gs_x (update C s) /\
      gs_residual (update C (update C s)) = gs_residual (update C s).
Proof. exact gs_stop_fixed. Qed.
Print Assumptions C15_gs_stop_fixed.

(* [core, partial] GerchbergSaxton with a Tikhonov term, lamb > 0 (proofs/StoppingGS.v).  A / A^H an adjoint pair for the real
   inner product of C^m (cdot), unit phases.  If the update that triggered the stop had a CONVERGED inner ConjugateGradient
   (its result solves (A^H A + lamb) x' = A^H y_hat -- always the case in dimension <= 5 by C12's finite termination, otherwise
   a hypothesis: that is what makes this statement partial), then matched amplitudes force x' = 0, and 0 is a fixed point of the
   whole update: with lamb > 0 an early stop after a converged update happens only at the trivial fixed point.  Not covered:
   a stop after a NON-converged inner solve (5 CG steps in dimension > 5) -- validated by the oracle only. *)
From SV Require Import proofs.StoppingGS.
Theorem C15_gs_tikhonov_stop_fixed_partial :
  forall (H : IPSpace) (cphase : R * R -> R * R) (A : ipV H -> list (R * R)) (AH : list (R * R) -> ipV H)
         (y : list R) (lamb : R),
    (forall v, length (A v) = length y) ->
    (forall w, cscale (ops_of H) (cabs (ops_of H) w) (cphase w) = w) ->
    (forall w, cabs (ops_of H) (cphase w) = 1) ->
    (forall v w, length w = length y -> ipdot H v (AH w) = cdot (A v) w) ->
    forall s : gs_state (ops_of H),
      let C := GSClass (ops_of H) Rabs cphase A AH y lamb in
      0 < lamb ->
      (gs_system (ops_of H) A AH lamb (gs_x (update C s)) = gs_b (ops_of H) cphase A AH y (gs_x s)) ->
      gs_residual (update C s) <= 0 ->
      gs_x (update C s) = ip0 H /\
      gs_x (update C (update C s)) = gs_x (update C s) /\
      gs_residual (update C (update C s)) = gs_residual (update C s).
Proof. exact gs_tikhonov_stop_fixed. Qed.
Print Assumptions C15_gs_tikhonov_stop_fixed_partial.

(* [core] ... and in dimension <= 5 the convergence hypothesis is a theorem (the inner system A^H A + lamb is self-adjoint positive
   definite, so ConjugateGradient(system, b, x, max_iter=5) solves it exactly -- C12_cg_run_solves): for EVERY state s, with lamb > 0
   an early stop happens only at x = 0, and that is a fixed point of the whole update. *)
Theorem C15_gs_tikhonov_stop_fixed_dim5 :
  forall (H : IPSpace) (cphase : R * R -> R * R) (A : ipV H -> list (R * R)) (AH : list (R * R) -> ipV H)
         (y : list R) (lamb : R),
    (forall v, length (A v) = length y) ->
    (forall w, cscale (ops_of H) (cabs (ops_of H) w) (cphase w) = w) ->
    (forall w, cabs (ops_of H) (cphase w) = 1) ->
    (forall v w, length w = length y -> ipdot H v (AH w) = cdot (A v) w) ->
    dim_le H 5 -> 0 < lamb ->
    forall s : gs_state (ops_of H),
      let C := GSClass (ops_of H) Rabs cphase A AH y lamb in
      gs_residual (update C s) <= 0 ->
      gs_x (update C s) = ip0 H /\
      gs_x (update C (update C s)) = gs_x (update C s) /\
      gs_residual (update C (update C s)) = gs_residual (update C s).
Proof. exact gs_tikhonov_stop_fixed_dim5. Qed.
Print Assumptions C15_gs_tikhonov_stop_fixed_dim5.
Example C15_gs_dim5_satisfiable : dim_le (RnSpace 5) 5.
Proof. exact (Rn_dim_le 5). Qed.

(* the real inner product used above, spelled out: Re <u, v> = sum_i (re u_i re v_i + im u_i im v_i) *)
Theorem C15_cdot_unfold : forall a b u v, cdot (a :: u) (b :: v) = fst a * fst b + snd a * snd b + cdot u v.
Proof. exact (fun a b u v => eq_refl). Qed.

(* non-vacuity of the structural hypotheses (R^2 = C observed through the identity, numpy's unit phase) *)
Example C15_gs_tikhonov_hypotheses_satisfiable :
  (forall v, length (A1 v) = length [0]) /\
  (forall w, cscale (ops_of R2Space) (cabs (ops_of R2Space) w) (cphaseR w) = w) /\
  (forall w, cabs (ops_of R2Space) (cphaseR w) = 1) /\
  (forall v w, length w = length [0] -> ipdot R2Space v (AH1 w) = cdot (A1 v) w).
Proof. exact gs_tikhonov_hyps_example. Qed.
Print Assumptions C15_gs_tikhonov_hypotheses_satisfiable.

(* [core] PDHG with array-valued step sizes.  [EltOps H] = elementwise *, /, **0.5 on the arrays of H with
   "every entry > 0" ([epos]) such that d / t**0.5 = 0 forces d = 0 for positive t, and positivity is kept by
   multiplying / dividing by a positive scalar (instances: R, products, R^n -- C15_array_steps_satisfiable).
   resid = 0  ==>  neither x nor u moved *)
Theorem C15_pdhg_array_resid_zero_no_move :
  forall (HX HU : IPSpace) (OX : EltOps HX) (OU : EltOps HU) (A : ipV HX -> ipV HU) (AH : ipV HU -> ipV HX)
         (proxfc : ipV HU -> ipV HU -> ipV HU) (proxg : ipV HX -> ipV HX -> ipV HX)
         (theta0 gamma_primal gamma_dual : R) (sgt0 seq0 : R -> bool),
    let C := PDHGAClass (ops_of HX) (ipV HU) (ipadd HU) (ipsub HU) (ipscale HU) (ipdivs HU) (ipdot HU)
                        (emul OX) (ediv OX) (esqrt OX) (emul OU) (ediv OU) (esqrt OU)
                        A AH proxfc proxg theta0 gamma_primal gamma_dual sgt0 seq0 in
    forall s : pdhga_state (ops_of HX) (ipV HU),
      epos OU (pa_sigma (ops_of HX) (ipV HU) s) -> epos OX (pa_tau (ops_of HX) (ipV HU) (update C s)) ->
      pa_resid (ops_of HX) (ipV HU) (update C s) = 0 ->
      pa_x (ops_of HX) (ipV HU) (update C s) = pa_x (ops_of HX) (ipV HU) s /\
      pa_u (ops_of HX) (ipV HU) (update C s) = pa_u (ops_of HX) (ipV HU) s /\
      pa_x_ext (ops_of HX) (ipV HU) (update C s) = pa_x (ops_of HX) (ipV HU) (update C s).
Proof. exact pdhga_resid_zero_no_move. Qed.
Print Assumptions C15_pdhg_array_resid_zero_no_move.

(* ... positivity of the (array) steps is an invariant of update() through all three branches of the step-size
   adaptation, so along the whole run from positive steps: resid = 0 ==> nothing moved.  Only `a > 0 implies 0 < a`
   is assumed of the Python comparison *)
Theorem C15_pdhg_array_run_no_move :
  forall (HX HU : IPSpace) (OX : EltOps HX) (OU : EltOps HU) (A : ipV HX -> ipV HU) (AH : ipV HU -> ipV HX)
         (proxfc : ipV HU -> ipV HU -> ipV HU) (proxg : ipV HX -> ipV HX -> ipV HX)
         (theta0 gamma_primal gamma_dual : R) (sgt0 seq0 : R -> bool),
    (forall a, sgt0 a = true -> 0 < a) ->
    let C := PDHGAClass (ops_of HX) (ipV HU) (ipadd HU) (ipsub HU) (ipscale HU) (ipdivs HU) (ipdot HU)
                        (emul OX) (ediv OX) (esqrt OX) (emul OU) (ediv OU) (esqrt OU)
                        A AH proxfc proxg theta0 gamma_primal gamma_dual sgt0 seq0 in
    forall (s0 : pdhga_state (ops_of HX) (ipV HU)) (k : nat),
      epos OX (pa_tau (ops_of HX) (ipV HU) s0) -> epos OU (pa_sigma (ops_of HX) (ipV HU) s0) ->
      0 < pa_tau_min (ops_of HX) (ipV HU) s0 -> 0 < pa_sigma_min (ops_of HX) (ipV HU) s0 ->
      let sk := iter_update C k s0 in
      (epos OX (pa_tau (ops_of HX) (ipV HU) sk) /\ epos OU (pa_sigma (ops_of HX) (ipV HU) sk) /\
       0 < pa_tau_min (ops_of HX) (ipV HU) sk /\ 0 < pa_sigma_min (ops_of HX) (ipV HU) sk) /\
      (pa_resid (ops_of HX) (ipV HU) (update C sk) = 0 ->
       pa_x (ops_of HX) (ipV HU) (update C sk) = pa_x (ops_of HX) (ipV HU) sk /\
       pa_u (ops_of HX) (ipV HU) (update C sk) = pa_u (ops_of HX) (ipV HU) sk /\
       pa_x_ext (ops_of HX) (ipV HU) (update C sk) = pa_x (ops_of HX) (ipV HU) (update C sk)).
Proof. exact pdhga_run_no_move. Qed.
Print Assumptions C15_pdhg_array_run_no_move.

(* [core] scalar steps, the step-adaptation branches spelled out: theta = 1/sqrt(1 + 2 gamma tau_min) lies in (0,1)
   when gamma_primal > 0 (resp. gamma_dual > 0), tau *= theta, sigma /= theta (resp. the other way round) *)
Theorem C15_pdhg_adapt_branches :
  forall (HX HU : IPSpace) (A : ipV HX -> ipV HU) (AH : ipV HU -> ipV HX)
         (proxfc : R -> ipV HU -> ipV HU) (proxg : R -> ipV HX -> ipV HX)
         (theta0 gamma_primal gamma_dual : R) (sgt0 seq0 : R -> bool),
    (forall a, sgt0 a = true -> 0 < a) ->
    let C := PDHGClass (ops_of HX) (ipV HU) (ipadd HU) (ipsub HU) (ipscale HU) (ipdivs HU) (ipdot HU)
                       A AH proxfc proxg theta0 gamma_primal gamma_dual sgt0 seq0 in
    forall s : pdhg_state (ops_of HX) (ipV HU),
      let px := pd_x (ops_of HX) (ipV HU) in
      let ptau := pd_tau (ops_of HX) (ipV HU) in
      let psigma := pd_sigma (ops_of HX) (ipV HU) in
      let ptaumin := pd_tau_min (ops_of HX) (ipV HU) in
      let psigmamin := pd_sigma_min (ops_of HX) (ipV HU) in
      0 < ptaumin s -> 0 < psigmamin s ->
      exists th : R,
        pd_x_ext (ops_of HX) (ipV HU) (update C s)
        = ipadd HX (px (update C s)) (ipscale HX th (ipsub HX (px (update C s)) (px s))) /\
        ((sgt0 gamma_primal && seq0 gamma_dual = true /\ 0 < th < 1 /\
          th = 1 / sqrt (1 + (1 + 1) * gamma_primal * ptaumin s) /\
          ptau (update C s) = ptau s * th /\ psigma (update C s) = psigma s / th /\
          ptaumin (update C s) = ptaumin s * th /\ psigmamin (update C s) = psigmamin s)
         \/
         (sgt0 gamma_primal && seq0 gamma_dual = false /\ seq0 gamma_primal && sgt0 gamma_dual = true /\ 0 < th < 1 /\
          th = 1 / sqrt (1 + (1 + 1) * gamma_dual * psigmamin s) /\
          ptau (update C s) = ptau s / th /\ psigma (update C s) = psigma s * th /\
          ptaumin (update C s) = ptaumin s /\ psigmamin (update C s) = psigmamin s * th)
         \/
         (sgt0 gamma_primal && seq0 gamma_dual = false /\ seq0 gamma_primal && sgt0 gamma_dual = false /\
          th = theta0 /\
          ptau (update C s) = ptau s /\ psigma (update C s) = psigma s /\
          ptaumin (update C s) = ptaumin s /\ psigmamin (update C s) = psigmamin s)).
Proof. exact pdhg_adapt_branches. Qed.
Print Assumptions C15_pdhg_adapt_branches.

(* [core] ... so the steps stay positive and the implication resid = 0 ==> nothing moved survives adaptation,
   at every update of the run *)
Theorem C15_pdhg_adapt_run_no_move :
  forall (HX HU : IPSpace) (A : ipV HX -> ipV HU) (AH : ipV HU -> ipV HX)
         (proxfc : R -> ipV HU -> ipV HU) (proxg : R -> ipV HX -> ipV HX)
         (theta0 gamma_primal gamma_dual : R) (sgt0 seq0 : R -> bool),
    (forall a, sgt0 a = true -> 0 < a) ->
    let C := PDHGClass (ops_of HX) (ipV HU) (ipadd HU) (ipsub HU) (ipscale HU) (ipdivs HU) (ipdot HU)
                       A AH proxfc proxg theta0 gamma_primal gamma_dual sgt0 seq0 in
    forall (s0 : pdhg_state (ops_of HX) (ipV HU)) (k : nat),
      0 < pd_tau (ops_of HX) (ipV HU) s0 -> 0 < pd_sigma (ops_of HX) (ipV HU) s0 ->
      0 < pd_tau_min (ops_of HX) (ipV HU) s0 -> 0 < pd_sigma_min (ops_of HX) (ipV HU) s0 ->
      let sk := iter_update C k s0 in
      (0 < pd_tau (ops_of HX) (ipV HU) sk /\ 0 < pd_sigma (ops_of HX) (ipV HU) sk /\
       0 < pd_tau_min (ops_of HX) (ipV HU) sk /\ 0 < pd_sigma_min (ops_of HX) (ipV HU) sk) /\
      (pd_resid (ops_of HX) (ipV HU) (update C sk) = 0 ->
       pd_x (ops_of HX) (ipV HU) (update C sk) = pd_x (ops_of HX) (ipV HU) sk /\
       pd_u (ops_of HX) (ipV HU) (update C sk) = pd_u (ops_of HX) (ipV HU) sk /\
       pd_x_ext (ops_of HX) (ipV HU) (update C sk) = pd_x (ops_of HX) (ipV HU) (update C sk)).
Proof. exact pdhg_run_no_move. Qed.
Print Assumptions C15_pdhg_adapt_run_no_move.

(* [core] fixed point WITH step adaptation.  The next update uses different step sizes, so this needs the defining
   property of a proximal map: its fixed-point relation u = prox_{s f}(u + s v) does not depend on s > 0
   (prox_step_independent; it holds e.g. for the identity prox, C15_array_steps_satisfiable).  Then an update from an
   un-extrapolated point with resid = 0 is followed by an update that moves neither x nor u *)
Theorem C15_pdhg_adapt_early_stop_fixed :
  forall (HX HU : IPSpace) (A : ipV HX -> ipV HU) (AH : ipV HU -> ipV HX)
         (proxfc : R -> ipV HU -> ipV HU) (proxg : R -> ipV HX -> ipV HX)
         (theta0 gamma_primal gamma_dual : R) (sgt0 seq0 : R -> bool),
    (forall a, sgt0 a = true -> 0 < a) ->
    let C := PDHGClass (ops_of HX) (ipV HU) (ipadd HU) (ipsub HU) (ipscale HU) (ipdivs HU) (ipdot HU)
                       A AH proxfc proxg theta0 gamma_primal gamma_dual sgt0 seq0 in
    forall s : pdhg_state (ops_of HX) (ipV HU),
      (forall s1 s2 u v, 0 < s1 -> 0 < s2 ->
         proxfc s1 (ipadd HU u (ipscale HU s1 v)) = u -> proxfc s2 (ipadd HU u (ipscale HU s2 v)) = u) ->
      (forall s1 s2 x v, 0 < s1 -> 0 < s2 ->
         proxg s1 (ipadd HX x (ipscale HX s1 v)) = x -> proxg s2 (ipadd HX x (ipscale HX s2 v)) = x) ->
      0 < pd_tau (ops_of HX) (ipV HU) s -> 0 < pd_sigma (ops_of HX) (ipV HU) s ->
      0 < pd_tau_min (ops_of HX) (ipV HU) s -> 0 < pd_sigma_min (ops_of HX) (ipV HU) s ->
      pd_x_ext (ops_of HX) (ipV HU) s = pd_x (ops_of HX) (ipV HU) s ->
      pd_resid (ops_of HX) (ipV HU) (update C s) = 0 ->
      pd_x (ops_of HX) (ipV HU) (update C (update C s)) = pd_x (ops_of HX) (ipV HU) (update C s) /\
      pd_u (ops_of HX) (ipV HU) (update C (update C s)) = pd_u (ops_of HX) (ipV HU) (update C s).
Proof. exact pdhg_adapt_early_stop_fixed. Qed.
Print Assumptions C15_pdhg_adapt_early_stop_fixed.

(* non-vacuity of the added hypotheses: an elementwise structure with a positive array exists on R^n for every n;
   a unit-phase function exists; the identity prox is step independent *)
Example C15_array_steps_satisfiable :
  (forall n : nat, epos (EltRn n) (ones n)) /\
  (forall (H : IPSpace) (w : R * R), cscale (ops_of H) (cabs (ops_of H) w) (cphaseR w) = w) /\
  (forall V : IPSpace, forall s1 s2 u v, 0 < s1 -> 0 < s2 ->
     (fun (_ : R) (z : ipV V) => z) s1 (ipadd V u (ipscale V s1 v)) = u ->
     (fun (_ : R) (z : ipV V) => z) s2 (ipadd V u (ipscale V s2 v)) = u).
Proof. exact (conj ones_pos (conj cphaseR_spec id_prox_step_independent)). Qed.
Print Assumptions C15_array_steps_satisfiable.

(* [core] array-valued steps, fixed point (with or without step adaptation): if the fixed-point relations of the two
   proximal callables do not depend on the positive array step, an update from an un-extrapolated point with
   resid = 0 is followed by an update that moves neither x nor u *)
Theorem C15_pdhg_array_early_stop_fixed :
  forall (HX HU : IPSpace) (OX : EltOps HX) (OU : EltOps HU) (A : ipV HX -> ipV HU) (AH : ipV HU -> ipV HX)
         (proxfc : ipV HU -> ipV HU -> ipV HU) (proxg : ipV HX -> ipV HX -> ipV HX)
         (theta0 gamma_primal gamma_dual : R) (sgt0 seq0 : R -> bool),
    (forall a, sgt0 a = true -> 0 < a) ->
    let C := PDHGAClass (ops_of HX) (ipV HU) (ipadd HU) (ipsub HU) (ipscale HU) (ipdivs HU) (ipdot HU)
                        (emul OX) (ediv OX) (esqrt OX) (emul OU) (ediv OU) (esqrt OU)
                        A AH proxfc proxg theta0 gamma_primal gamma_dual sgt0 seq0 in
    forall s : pdhga_state (ops_of HX) (ipV HU),
      (forall t1 t2 u v, epos OU t1 -> epos OU t2 ->
         proxfc t1 (ipadd HU u (emul OU t1 v)) = u -> proxfc t2 (ipadd HU u (emul OU t2 v)) = u) ->
      (forall t1 t2 x w, epos OX t1 -> epos OX t2 ->
         proxg t1 (ipadd HX x (emul OX (ipscale HX (- (1)) t1) w)) = x ->
         proxg t2 (ipadd HX x (emul OX (ipscale HX (- (1)) t2) w)) = x) ->
      epos OX (pa_tau (ops_of HX) (ipV HU) s) -> epos OU (pa_sigma (ops_of HX) (ipV HU) s) ->
      0 < pa_tau_min (ops_of HX) (ipV HU) s -> 0 < pa_sigma_min (ops_of HX) (ipV HU) s ->
      pa_x_ext (ops_of HX) (ipV HU) s = pa_x (ops_of HX) (ipV HU) s ->
      pa_resid (ops_of HX) (ipV HU) (update C s) = 0 ->
      pa_x (ops_of HX) (ipV HU) (update C (update C s)) = pa_x (ops_of HX) (ipV HU) (update C s) /\
      pa_u (ops_of HX) (ipV HU) (update C (update C s)) = pa_u (ops_of HX) (ipV HU) (update C s).
Proof. exact pdhga_early_stop_fixed. Qed.
Print Assumptions C15_pdhg_array_early_stop_fixed.
