(* Prop_C13 — proximal gradient (ISTA / FISTA) and PDHG behave as their theory guarantees.
   Only statements; every proof is `exact <lemma>`.  Print Assumptions below each.

   All theorems are about the Gallina terms gm_step / gm_iter / pd_step / pd_iter of
   model/ProxGrad.v (the same terms that run on floats in run/RunC13.v), instantiated with the real
   scalars [ROps] and an ABSTRACT real inner-product space [IPS] (C^n with Re<.,.> is one).
   A proximal operator enters only through its variational inequality
       p = prox_{a g}(v)  <->  forall z, g z >= g p + <(v - p)/a, z - p>,
   f through convexity and the descent-lemma inequality (both proved below for 1/2||Ax - y||^2). *)
From Coq Require Import Reals List Bool.
From SV Require Import model.ProxGrad proofs.ProxGrad proofs.Pdhg.
Local Open Scope R_scope.

Section Statements.
  Variable E : IPS.
  Variables (f g : E -> R) (gradf : E -> E) (prox : R -> E -> E) (Lf : R).
  Let Hconv := forall x y, f x + ip (gradf x) (vminus y x) <= f y.
  Let Hdesc := forall x y, f y <= f x + ip (gradf x) (vminus y x) + Lf / 2 * nrm2 (vminus y x).
  Let Hprox := forall a v p, 0 < a ->
    (prox a v = p <-> forall z, g p + ip (vmul (/ a) (vminus v p)) (vminus z p) <= g z).
  Let Fobj (x : E) := f x + g x.
  Let step acc alpha := gm_step ROps E vplus vminus vmul vnorm gradf acc alpha (Some prox).
  Let iter acc alpha := gm_iter ROps E vplus vminus vmul vnorm gradf acc alpha (Some prox).

  (* one non-accelerated update decreases the objective by at least (1/alpha - L/2) ||dx||^2, every alpha > 0 *)
  Theorem C13_ista_descent :
    Hconv -> Hdesc -> Hprox ->
    forall alpha st, 0 < alpha ->
      Fobj (gm_x (step false alpha st)) <=
      Fobj (gm_x st) - (1 / alpha - Lf / 2) * nrm2 (vminus (gm_x (step false alpha st)) (gm_x st)).
  Proof. exact (ista_descent_lemma E f g gradf prox Lf). Qed.

  (* hence the non-accelerated objective never increases for alpha <= 2/L, in particular alpha <= 1/L *)
  Theorem C13_ista_monotone :
    Hconv -> Hdesc -> Hprox ->
    forall alpha st, 0 < alpha -> alpha * Lf <= 2 -> Fobj (gm_x (step false alpha st)) <= Fobj (gm_x st).
  Proof. exact (ista_monotone_lemma E f g gradf prox Lf). Qed.

  (* O(1/k): against EVERY comparison point xs (in particular a minimiser) *)
  Theorem C13_ista_rate :
    Hconv -> Hdesc -> Hprox ->
    forall alpha st0 xs k, 0 < alpha -> alpha * Lf <= 1 -> (0 < k)%nat ->
      Fobj (gm_x (iter false alpha k st0)) - Fobj xs <= nrm2 (vminus (gm_x st0) xs) / (2 * alpha * INR k).
  Proof. exact (ista_rate_lemma E f g gradf prox Lf). Qed.

  (* O(1/k^2) with the coded t-sequence t <- (1 + sqrt(1 + 4 t^2))/2 and z <- x + ((t_old - 1)/t)(x - x_old) *)
  Theorem C13_fista_rate :
    Hconv -> Hdesc -> Hprox ->
    forall alpha xs x0 r0 k, 0 < alpha -> alpha * Lf <= 1 -> (0 < k)%nat ->
      Fobj (gm_x (iter true alpha k (gm_init ROps E x0 r0))) - Fobj xs
        <= 2 * nrm2 (vminus x0 xs) / (alpha * (INR k + 1) ^ 2).
  Proof. exact (fista_rate_lemma E f g gradf prox Lf). Qed.

  (* the Lyapunov inequality behind it, on the state (x, z, t) of the code *)
  Theorem C13_fista_potential :
    Hconv -> Hdesc -> Hprox ->
    forall alpha (xs : E) (st : gm_state ROps E), 0 < alpha -> alpha * Lf <= 1 -> 1 <= gm_t st ->
      fista_pot E f g alpha xs (step true alpha st) <= fista_pot E f g alpha xs st.
  Proof. exact (fista_pot_step E f g gradf prox Lf). Qed.

  (* the stopping quantity: resid = 0 (accelerated: max(||x - x_old||, ||x - z||)/alpha = 0) happens only at a
     fixed point of the forward-backward map, which is a global minimiser of f + g *)
  Theorem C13_gm_resid_zero_is_minimiser :
    Hconv -> Hdesc -> Hprox ->
    forall acc alpha (st : gm_state ROps E), 0 < alpha ->
      gm_resid (step acc alpha st) = 0 ->
      prox alpha (vplus (gm_x (step acc alpha st)) (vmul (- alpha) (gradf (gm_x (step acc alpha st)))))
        = gm_x (step acc alpha st) /\
      forall z, Fobj (gm_x (step acc alpha st)) <= Fobj z.
  Proof. exact (gm_resid_zero_lemma E f g gradf prox Lf). Qed.
End Statements.
Print Assumptions C13_gm_resid_zero_is_minimiser.
Print Assumptions C13_ista_descent.
Print Assumptions C13_ista_monotone.
Print Assumptions C13_ista_rate.
Print Assumptions C13_fista_rate.
Print Assumptions C13_fista_potential.

(* the data term of the tests / of LinearLeastSquares satisfies the two hypotheses on f *)
Theorem C13_least_squares_convex :
  forall (E1 E2 : IPS) (A : E1 -> E2) (AH : E2 -> E1) (y : E2),
    (forall x x', A (vplus x x') = vplus (A x) (A x')) -> (forall a x, A (vmul a x) = vmul a (A x)) ->
    (forall x u, ip (A x) u = ip x (AH u)) ->
    forall x x', 1 / 2 * nrm2 (vminus (A x) y) + ip (AH (vminus (A x) y)) (vminus x' x) <= 1 / 2 * nrm2 (vminus (A x') y).
Proof. exact quad_convex. Qed.
Print Assumptions C13_least_squares_convex.

Theorem C13_least_squares_descent :
  forall (E1 E2 : IPS) (A : E1 -> E2) (AH : E2 -> E1) (y : E2) (Lq : R),
    (forall x x', A (vplus x x') = vplus (A x) (A x')) -> (forall a x, A (vmul a x) = vmul a (A x)) ->
    (forall x u, ip (A x) u = ip x (AH u)) -> (forall x, nrm2 (A x) <= Lq * nrm2 x) ->
    forall x x', 1 / 2 * nrm2 (vminus (A x') y)
                 <= 1 / 2 * nrm2 (vminus (A x) y) + ip (AH (vminus (A x) y)) (vminus x' x) + Lq / 2 * nrm2 (vminus x' x).
Proof. exact quad_descent. Qed.
Print Assumptions C13_least_squares_descent.

(* ---- PDHG: saddle point <-> fixed point of the coded step ----------------------------------- *)
Section PdhgStatements.
  Variables X U : IPS.
  Variables (A : X -> U) (AH : U -> X) (g : X -> R) (fc : U -> R).
  (* step types: scalars > 0, positive diagonals, ... anything acting invertibly *)
  Variables TX TU : Type.
  Variables (goodx : TX -> Prop) (goodu : TU -> Prop).
  Variables (txact tinvx : TX -> X -> X) (txneg : TX -> TX) (txmuls txdivs : TX -> R -> TX) (txdivsqrt : X -> TX -> X).
  Variables (tuact tinvu : TU -> U -> U) (tumuls tudivs : TU -> R -> TU) (tudivsqrt : U -> TU -> U).
  Variables (proxfc : TU -> U -> U) (proxg : TX -> X -> X).
  Let Hinvx := forall t v, goodx t -> tinvx t (txact t v) = v.
  Let Hinvu := forall t v, goodu t -> tinvu t (tuact t v) = v.
  Let Hneg := forall t v, txact (txneg t) v = txact t (vmul (-1) v).
  Let Hproxg := forall t v p, goodx t ->
    (proxg t v = p <-> forall z, g p + ip (tinvx t (vminus v p)) (vminus z p) <= g z).
  Let Hproxfc := forall t v p, goodu t ->
    (proxfc t v = p <-> forall w, fc p + ip (tinvu t (vminus v p)) (vminus w p) <= fc w).
  Let pstep := pd_step ROps X U TX TU vplus vminus vmul vnorm vplus vminus vnorm
                       txact txneg txmuls txdivs txdivsqrt tuact tumuls tudivs tudivsqrt A AH proxfc proxg.
  (* 0 in dg(xs) + AH us  and  0 in dfc(us) - A xs *)
  Let is_saddle (xs : X) (us : U) :=
    (forall z, g xs + ip (vmul (-1) (AH us)) (vminus z xs) <= g z) /\
    (forall w, fc us + ip (A xs) (vminus w us) <= fc w).

  Theorem C13_pdhg_fixed :
    Hinvx -> Hinvu -> Hneg -> Hproxg -> Hproxfc ->
    forall theta gamma_primal gamma_dual st xs us,
      goodx (pd_tau st) -> goodu (pd_sigma st) -> is_saddle xs us ->
      pd_x st = xs -> pd_u st = us -> pd_xext st = xs ->
      pd_x (pstep theta gamma_primal gamma_dual st) = xs /\
      pd_u (pstep theta gamma_primal gamma_dual st) = us /\
      pd_xext (pstep theta gamma_primal gamma_dual st) = xs.
  Proof.
    exact (pdhg_fixed_lemma X U A AH g fc TX TU goodx goodu txact tinvx txneg txmuls txdivs txdivsqrt
                            tuact tinvu tumuls tudivs tudivsqrt proxfc proxg).
  Qed.

  Theorem C13_pdhg_fixed_conv :
    Hinvx -> Hinvu -> Hneg -> Hproxg -> Hproxfc ->
    forall theta gamma_primal gamma_dual st,
      goodx (pd_tau st) -> goodu (pd_sigma st) -> pd_xext st = pd_x st ->
      pd_x (pstep theta gamma_primal gamma_dual st) = pd_x st ->
      pd_u (pstep theta gamma_primal gamma_dual st) = pd_u st ->
      is_saddle (pd_x st) (pd_u st).
  Proof.
    exact (pdhg_fixed_conv_lemma X U A AH g fc TX TU goodx goodu txact tinvx txneg txmuls txdivs txdivsqrt
                                 tuact tinvu tumuls tudivs tudivsqrt proxfc proxg).
  Qed.
End PdhgStatements.
Print Assumptions C13_pdhg_fixed.
Print Assumptions C13_pdhg_fixed_conv.

(* ---- PDHG with scalar steps: fixed along the accelerated schedules; Fejer monotonicity --------- *)
Section PdhgScalar.
  Variables X U : IPS.
  Variables (A : X -> U) (AH : U -> X) (g : X -> R) (fc : U -> R).
  Variables (proxfc : R -> U -> U) (proxg : R -> X -> X).
  Let Hadd := forall x y, A (vplus x y) = vplus (A x) (A y).
  Let Hhom := forall a x, A (vmul a x) = vmul a (A x).
  Let Hadj := forall x u, ip (A x) u = ip x (AH u).
  Let Hproxg := forall a v p, 0 < a ->
    (proxg a v = p <-> forall z, g p + ip (vmul (/ a) (vminus v p)) (vminus z p) <= g z).
  Let Hproxfc := forall a v p, 0 < a ->
    (proxfc a v = p <-> forall w, fc p + ip (vmul (/ a) (vminus v p)) (vminus w p) <= fc w).
  (* the model with scalar step sizes: tau * v, -tau, tau * c, tau / c, v / tau**0.5 *)
  Let sstep := pd_step ROps X U R R vplus vminus vmul vnorm vplus vminus vnorm
                       vmul Ropp Rmult Rdiv (fun v t => vmul (/ sqrt t) v)
                       vmul Rmult Rdiv (fun v t => vmul (/ sqrt t) v) A AH proxfc proxg.
  Let siter := pd_iter ROps X U R R vplus vminus vmul vnorm vplus vminus vnorm
                       vmul Ropp Rmult Rdiv (fun v t => vmul (/ sqrt t) v)
                       vmul Rmult Rdiv (fun v t => vmul (/ sqrt t) v) A AH proxfc proxg.
  Let is_saddle (xs : X) (us : U) :=
    (forall z, g xs + ip (vmul (-1) (AH us)) (vminus z xs) <= g z) /\
    (forall w, fc us + ip (A xs) (vminus w us) <= fc w).
  (* ||(dx,du)||_M^2 = ||dx||^2/tau - 2 <A dx, du> + ||du||^2/sigma *)
  Let Mnorm2 (tau sigma : R) (dx : X) (du : U) : R := nrm2 dx / tau - 2 * ip (A dx) du + nrm2 du / sigma.

  (* a saddle point stays fixed for every number of updates: any theta, any gamma_primal / gamma_dual
     (the accelerated schedules keep tau, sigma > 0) *)
  Theorem C13_pdhg_fixed_along_schedule :
    Hproxg -> Hproxfc ->
    forall theta gamma_primal gamma_dual (st : pd_state ROps X U R R) xs us n,
      (0 < pd_tau st /\ 0 < pd_sigma st /\ 0 <= pd_tau_min st /\ 0 <= pd_sigma_min st) -> is_saddle xs us ->
      pd_x st = xs -> pd_u st = us -> pd_xext st = xs ->
      let stn := siter theta gamma_primal gamma_dual n st in
      (0 < pd_tau stn /\ 0 < pd_sigma stn /\ 0 <= pd_tau_min stn /\ 0 <= pd_sigma_min stn) /\
      pd_x stn = xs /\ pd_u stn = us /\ pd_xext stn = xs.
  Proof. exact (pdhg_fixed_iter_scalar X U A AH g fc proxfc proxg). Qed.

  (* theta = 1, constant steps: proximal-point inequality in the SKEWED pairing w_k = (x_k, u_{k+1})
     (x before the update, u after it; the dual is updated first from the extrapolated primal) *)
  Theorem C13_pdhg_fejer_step :
    Hadd -> Hhom -> Hadj -> Hproxg -> Hproxfc ->
    forall (st : pd_state ROps X U R R) xs us, 0 < pd_tau st -> 0 < pd_sigma st -> is_saddle xs us ->
      let st1 := sstep 1 0 0 st in
      let st2 := sstep 1 0 0 st1 in
      Mnorm2 (pd_tau st) (pd_sigma st) (vminus (pd_x st1) xs) (vminus (pd_u st2) us)
        <= Mnorm2 (pd_tau st) (pd_sigma st) (vminus (pd_x st) xs) (vminus (pd_u st1) us)
           - Mnorm2 (pd_tau st) (pd_sigma st) (vminus (pd_x st1) (pd_x st)) (vminus (pd_u st2) (pd_u st1)).
  Proof. exact (pdhg_fejer_step X U A AH g fc proxfc proxg). Qed.

  (* with tau * sigma * ||A||^2 <= 1 the M-distance of (x_k, u_{k+1}) to a saddle point is non-increasing in k *)
  Theorem C13_pdhg_fejer :
    Hadd -> Hhom -> Hadj -> Hproxg -> Hproxfc ->
    forall (st : pd_state ROps X U R R) xs us Lnorm2 k,
      0 < pd_tau st -> 0 < pd_sigma st -> is_saddle xs us ->
      (forall x, nrm2 (A x) <= Lnorm2 * nrm2 x) -> pd_tau st * pd_sigma st * Lnorm2 <= 1 ->
      let d j := Mnorm2 (pd_tau st) (pd_sigma st) (vminus (pd_x (siter 1 0 0 j st)) xs)
                        (vminus (pd_u (siter 1 0 0 (S j) st)) us) in
      0 <= d (S k) <= d k.
  Proof. exact (pdhg_fejer_lemma X U A AH g fc proxfc proxg). Qed.

  (* corollary: the M-lengths of the steps are summable, sum_{j<n} ||w_{j+1} - w_j||_M^2 + d_n <= d_0 *)
  Theorem C13_pdhg_fejer_sum :
    Hadd -> Hhom -> Hadj -> Hproxg -> Hproxfc ->
    forall (st : pd_state ROps X U R R) xs us n, 0 < pd_tau st -> 0 < pd_sigma st -> is_saddle xs us ->
      let d j := Mnorm2 (pd_tau st) (pd_sigma st) (vminus (pd_x (siter 1 0 0 j st)) xs)
                        (vminus (pd_u (siter 1 0 0 (S j) st)) us) in
      let len j := Mnorm2 (pd_tau st) (pd_sigma st) (vminus (pd_x (siter 1 0 0 (S j) st)) (pd_x (siter 1 0 0 j st)))
                          (vminus (pd_u (siter 1 0 0 (S (S j)) st)) (pd_u (siter 1 0 0 (S j) st))) in
      sumf len n + d n <= d 0%nat.
  Proof. exact (pdhg_fejer_sum X U A AH g fc proxfc proxg). Qed.
End PdhgScalar.
Print Assumptions C13_pdhg_fejer_sum.
Print Assumptions C13_pdhg_fixed_along_schedule.
Print Assumptions C13_pdhg_fejer_step.
Print Assumptions C13_pdhg_fejer.

(* ---- non-vacuity -------------------------------------------------------------------------------- *)
(* V = R, f = 1/2 (c x - b)^2, g = lam/2 x^2 with prox v/(1 + a lam): every hypothesis discharged *)
Example C13_ista_rate_on_R :
  forall c b lam : R, 0 <= lam ->
  forall alpha (x0 xs : R_IPS) r0 k, 0 < alpha -> alpha * (c * c) <= 1 -> (0 < k)%nat ->
    let xk := gm_x (gm_iter ROps R_IPS vplus vminus vmul vnorm (ex_grad c b) false alpha (Some (ex_prox lam)) k
                            (gm_init ROps R_IPS x0 r0)) in
    (ex_f c b xk + ex_g lam xk) - (ex_f c b xs + ex_g lam xs) <= nrm2 (vminus x0 xs) / (2 * alpha * INR k).
Proof. exact ista_R_example. Qed.

Example C13_fista_rate_on_R :
  forall c b lam : R, 0 <= lam ->
  forall alpha (x0 xs : R_IPS) r0 k, 0 < alpha -> alpha * (c * c) <= 1 -> (0 < k)%nat ->
    let xk := gm_x (gm_iter ROps R_IPS vplus vminus vmul vnorm (ex_grad c b) true alpha (Some (ex_prox lam)) k
                            (gm_init ROps R_IPS x0 r0)) in
    (ex_f c b xk + ex_g lam xk) - (ex_f c b xs + ex_g lam xs) <= 2 * nrm2 (vminus x0 xs) / (alpha * (INR k + 1) ^ 2).
Proof. exact fista_R_example. Qed.

(* X = U = R, A x = c x, g = lam/2 x^2, f* = 1/2 u^2 + u y: Fejer hypotheses discharged, and a saddle point exists *)
Example C13_pdhg_fejer_on_R :
  forall c y lam : R, 0 <= lam ->
  forall (st : pd_state ROps R_IPS R_IPS R R) (xs us : R_IPS) k,
    0 < pd_tau st -> 0 < pd_sigma st -> pd_tau st * pd_sigma st * (c * c) <= 1 ->
    ssaddle R_IPS R_IPS (exA1 c) (exA1 c) (hquad R_IPS lam 0) (hquad R_IPS 1 y) xs us ->
    0 <= fejer_dist R_IPS R_IPS (exA1 c) (exA1 c) (prox_quad R_IPS 1 y) (prox_quad R_IPS lam 0) st xs us (S k)
      <= fejer_dist R_IPS R_IPS (exA1 c) (exA1 c) (prox_quad R_IPS 1 y) (prox_quad R_IPS lam 0) st xs us k.
Proof. exact fejer_R_example. Qed.

Example C13_saddle_exists_on_R :
  forall c y lam : R, 0 <= lam -> 0 < c * c + lam ->
    ssaddle R_IPS R_IPS (exA1 c) (exA1 c) (hquad R_IPS lam 0) (hquad R_IPS 1 y)
            (c * y / (c * c + lam)) (c * (c * y / (c * c + lam)) - y).
Proof. exact saddle_R_example. Qed.

(* positive DIAGONAL primal step on R^2, scalar dual step: the hypotheses of C13_pdhg_fixed discharged *)
Example C13_pdhg_fixed_diagonal_steps :
  forall (c1 c2 y : R) theta gp gd (st : pd_state ROps R2 R_IPS (R * R) R) xs us,
    dgood (pd_tau st) -> 0 < pd_sigma st ->
    saddle R2 R_IPS (exA c1 c2) (exAH c1 c2) (fun _ => 0) (hquad R_IPS 1 y) xs us ->
    pd_x st = xs -> pd_u st = us -> pd_xext st = xs ->
    let st' := pd_step ROps R2 R_IPS (R * R) R vplus vminus vmul vnorm vplus vminus vnorm
                       dact dneg dmuls ddivs ddivsqrt vmul Rmult Rdiv (fun v t => vmul (/ sqrt t) v)
                       (exA c1 c2) (exAH c1 c2) (prox_quad R_IPS 1 y) (fun _ w => w) theta gp gd st in
    pd_x st' = xs /\ pd_u st' = us /\ pd_xext st' = xs.
Proof. exact pdhg_fixed_diag_example. Qed.
