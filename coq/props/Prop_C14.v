(* Prop_C14 — LinearLeastSquares returns a minimiser of the documented objective
     F(x) = 1/2 ||A x - y||^2 + g(G x) + lamda/2 ||x - z||^2
   whatever the solver; unsupported combinations raise.
   Statements only; every proof is `exact <lemma>`.  Print Assumptions below each.

   Conventions.  X, Y, W : real inner-product spaces (C^n with Re<.,.> is one); A, G with adjoints AH, GH
   (linearity follows); lam >= 0; z : option X (None reads as 0, [zz_of]); g an extended-real convex function
   (dom, g) whose Prox object is characterised by its variational inequality [prox_vi_dom], or proxg = None
   and g = 0 ([proxg_spec]).  [fsm] = the smooth part, [gradfsm] its gradient, [is_min] = x feasible and
   F x <= F x' for all feasible x'.  The configured objects ([cg_op], [gm_gradf], [lls_pdhg_step], ...) are
   the terms of model/LLS.v — the same terms run on floats in run/RunC14.v — at the instance [ROps]/[IPSV]. *)
From Coq Require Import Reals List Bool ZArith.
From SV Require Import model.ProxGrad proofs.ProxGrad model.LLS
  proofs.LLSBase proofs.LLSCG proofs.LLSPdhg proofs.LLSAdmm proofs.LLSExamples.
Local Open Scope R_scope.

(* ---- rejection ------------------------------------------------------------------------------ *)
(* _get_alg raises exactly for CG+proxg, GradientMethod+G, unknown solver string *)
Theorem C14_lls_reject :
  forall fl, (exists e, get_alg fl = Reject e) <->
    ((fl_solver fl = SolCG /\ fl_proxg fl = true) \/ (fl_solver fl = SolGM /\ fl_G fl = true) \/ fl_solver fl = SolOther).
Proof. exact lls_reject_lemma. Qed.
Print Assumptions C14_lls_reject.

Theorem C14_lls_reject_kinds :
  forall fl,
    (get_alg fl = Reject ErrCGProxg <-> fl_solver fl = SolCG /\ fl_proxg fl = true) /\
    (get_alg fl = Reject ErrGMG <-> fl_solver fl = SolGM /\ fl_G fl = true) /\
    (get_alg fl = Reject ErrInvalidSolver <-> fl_solver fl = SolOther).
Proof. exact lls_reject_kind_lemma. Qed.
Print Assumptions C14_lls_reject_kinds.

(* solver=None never raises: CG without proxg, GradientMethod with proxg and no G, PDHG with proxg and G *)
Theorem C14_lls_default_solver :
  forall p g l z, get_alg (mkFlags SolNone p g l z) = Accept (if negb p then BrCG else if negb g then BrGM else BrPDHG).
Proof. exact lls_default_lemma. Qed.
Print Assumptions C14_lls_default_solver.

(* ---- ConjugateGradient -------------------------------------------------------------------------- *)
(* x solves the configured system  <=>  the gradient of the documented objective vanishes  <=>  x minimises it *)
Theorem C14_cg_solves_documented :
  forall (X Y : IPS) (A : X -> Y) (AH : Y -> X), (forall x u, ip (A x) u = ip x (AH u)) ->
  forall (y : Y) (lam : R) (z : option X), 0 <= lam -> forall x : X,
    (cg_op ROps (IPSV X) (IPSV Y) A AH lam x = cg_rhs ROps (IPSV X) (IPSV Y) AH y lam z
       <-> gradfsm X Y A AH y lam (zz_of z) x = v0) /\
    (gradfsm X Y A AH y lam (zz_of z) x = v0
       <-> forall x', fsm X Y A y lam (zz_of z) x <= fsm X Y A y lam (zz_of z) x').
Proof. exact cg_solves_documented_lemma. Qed.
Print Assumptions C14_cg_solves_documented.

(* the configured operator is self-adjoint, and positive definite when lamda > 0 (hypotheses of C12) *)
Theorem C14_cg_system_selfadjoint :
  forall (X Y : IPS) (A : X -> Y) (AH : Y -> X), (forall x u, ip (A x) u = ip x (AH u)) ->
  forall (lam : R) (x x' : X),
    ip (cg_op ROps (IPSV X) (IPSV Y) A AH lam x) x' = ip x (cg_op ROps (IPSV X) (IPSV Y) A AH lam x').
Proof. exact cg_op_selfadjoint. Qed.
Print Assumptions C14_cg_system_selfadjoint.

Theorem C14_cg_system_posdef :
  forall (X Y : IPS) (A : X -> Y) (AH : Y -> X), (forall x u, ip (A x) u = ip x (AH u)) ->
  forall (lam : R) (x : X), 0 < lam -> x <> v0 -> 0 < ip x (cg_op ROps (IPSV X) (IPSV Y) A AH lam x).
Proof. exact cg_op_posdef. Qed.
Print Assumptions C14_cg_system_posdef.

(* ---- GradientMethod ---------------------------------------------------------------------------- *)
(* the configured gradf is the gradient of the smooth part: exact second-order expansion
   (hence convex, and (||A||^2 + lamda)-smooth: the two hypotheses on f of C13's ISTA/FISTA theorems) *)
Theorem C14_gm_gradient_is_documented :
  forall (X Y : IPS) (A : X -> Y) (AH : Y -> X), (forall x u, ip (A x) u = ip x (AH u)) ->
  forall (y : Y) (lam : R) (z : option X), 0 <= lam -> forall x x' : X,
    fsm X Y A y lam (zz_of z) x' =
      fsm X Y A y lam (zz_of z) x + ip (gm_gradf ROps (IPSV X) (IPSV Y) A AH y lam z x) (vminus x' x)
      + 1 / 2 * nrm2 (A (vminus x' x)) + lam / 2 * nrm2 (vminus x' x).
Proof. exact gm_expansion_lemma. Qed.
Print Assumptions C14_gm_gradient_is_documented.

(* the fixed points of the configured proximal-gradient step (any alpha > 0, accelerated or not, proxg given or None)
   are exactly the minimisers of the documented objective *)
Theorem C14_gm_solves_documented :
  forall (X Y : IPS) (A : X -> Y) (AH : Y -> X), (forall x u, ip (A x) u = ip x (AH u)) ->
  forall (y : Y) (lam : R) (z : option X), 0 <= lam ->
  forall (dom : X -> Prop) (g : X -> R), convex_on X dom g ->
  forall proxg : option (R -> X -> X), proxg_spec X dom g proxg ->
  forall (acc : bool) (alpha : R) (st : gm_state ROps (IPSV X)),
    0 < alpha -> (acc = true -> gm_z st = gm_x st) ->
    (gm_x (lls_gm_step ROps (IPSV X) (IPSV Y) A AH y lam z proxg acc alpha st) = gm_x st
       <-> is_min X Y X A (idX X) y lam (zz_of z) dom g (gm_x st)).
Proof. exact gm_fixed_iff_min_lemma. Qed.
Print Assumptions C14_gm_solves_documented.

(* ---- PrimalDualHybridGradient, G is None -------------------------------------------------------------- *)
(* every tau, sigma > 0 (defaulted steps are only estimates), the configured theta / gamma_primal / gamma_dual:
   (x, u, x_ext = x) is reproduced  <=>  x minimises the documented objective and u = A x - y *)
Theorem C14_pdhg_solves_documented :
  forall (X Y : IPS) (A : X -> Y) (AH : Y -> X), (forall x u, ip (A x) u = ip x (AH u)) ->
  forall (y : Y) (lam : R) (z : option X), 0 <= lam ->
  forall (dom : X -> Prop) (g : X -> R), convex_on X dom g ->
  forall proxg : option (R -> X -> X), proxg_spec X dom g proxg ->
  forall st : pd_state ROps (IPSV X) (IPSV Y) R R,
    0 < pd_tau st -> 0 < pd_sigma st -> pd_xext st = pd_x st ->
    let st' := lls_pdhg_step ROps (IPSV X) (IPSV Y) A AH y lam z proxg st in
    (pd_x st' = pd_x st /\ pd_u st' = pd_u st) <->
    (is_min X Y X A (idX X) y lam (zz_of z) dom g (pd_x st) /\ pd_u st = vminus (A (pd_x st)) y).
Proof. exact pdhg_fixed_iff_min_lemma. Qed.
Print Assumptions C14_pdhg_solves_documented.

Theorem C14_pdhg_fixed_point_persists :
  forall (X Y : IPS) (A : X -> Y) (AH : Y -> X) (y : Y) (lam : R) (z : option X) (proxg : option (R -> X -> X))
         (st : pd_state ROps (IPSV X) (IPSV Y) R R),
    let st' := lls_pdhg_step ROps (IPSV X) (IPSV Y) A AH y lam z proxg st in
    pd_x st' = pd_x st -> pd_xext st' = pd_x st'.
Proof. exact pdhg_fixed_keeps_xext. Qed.
Print Assumptions C14_pdhg_fixed_point_persists.

(* ---- PrimalDualHybridGradient, G given (current code: lamda/2||x - z||^2 in the PRIMAL prox) -------------- *)
(* (x, (u1, u2), x_ext = x) is reproduced  <=>  u1 = A x - y, u2 in dg(G x), grad f(x) + G^H u2 = 0
   (pure algebra of the configured proxes: holds for ANY maps A, AH, G, GH — adjointness is only needed to
   pass from the KKT system to minimality, next theorem) *)
Theorem C14_pdhgG_fixed_iff_kkt :
  forall (X Y W : IPS) (A : X -> Y) (AH : Y -> X) (G : X -> W) (GH : W -> X)
         (y : Y) (lam : R) (z : option X), 0 <= lam ->
  forall (dom : W -> Prop) (g : W -> R) (proxg : option (R -> W -> W)), proxg_spec W dom g proxg ->
  forall st : pd_state ROps (IPSV X) (stackU ROps (IPSV Y) (IPSV W)) R R,
    0 < pd_tau st -> 0 < pd_sigma st -> pd_xext st = pd_x st ->
    let st' := lls_pdhgG_step ROps (IPSV X) (IPSV Y) (IPSV W) A AH G GH y lam z proxg st in
    (pd_x st' = pd_x st /\ pd_u st' = pd_u st) <->
    (kkt X Y W A AH G GH y lam (zz_of z) dom g (pd_x st) (snd (pd_u st)) /\ fst (pd_u st) = vminus (A (pd_x st)) y).
Proof. exact pdhgG_fixed_iff_kkt_lemma. Qed.
Print Assumptions C14_pdhgG_fixed_iff_kkt.

(* FULL statement intended: the primal parts of the fixed points are EXACTLY the minimisers of the documented objective.
   Proved: (1) every fixed point's primal part minimises it (below); (2) every minimiser that admits a KKT multiplier
   is the primal part of an explicit fixed point (C14_pdhgG_kkt_is_fixed); (3) the multiplier exists with no further
   assumption when proxg is None (C14_pdhgG_noprox_minimiser_has_multiplier).
   Missing for the full "exactly": existence of the multiplier for a general convex g and linear G, i.e. the
   subdifferential chain rule d(g o G)(x) = G^H dg(G x); it needs a constraint qualification / separation theorem
   that an abstract inner-product space does not provide (finite-dimensional polyhedral or finite-valued g — l1, l2,
   box — satisfy it; this is validated numerically by the correspondence, not proved). *)
Theorem C14_pdhgG_solves_documented_partial :
  forall (X Y W : IPS) (A : X -> Y) (AH : Y -> X) (G : X -> W) (GH : W -> X),
    (forall x u, ip (A x) u = ip x (AH u)) -> (forall x u, ip (G x) u = ip x (GH u)) ->
  forall (y : Y) (lam : R) (z : option X), 0 <= lam ->
  forall (dom : W -> Prop) (g : W -> R) (proxg : option (R -> W -> W)), proxg_spec W dom g proxg ->
  forall st : pd_state ROps (IPSV X) (stackU ROps (IPSV Y) (IPSV W)) R R,
    0 < pd_tau st -> 0 < pd_sigma st -> pd_xext st = pd_x st ->
    let st' := lls_pdhgG_step ROps (IPSV X) (IPSV Y) (IPSV W) A AH G GH y lam z proxg st in
    pd_x st' = pd_x st -> pd_u st' = pd_u st ->
    is_min X Y W A G y lam (zz_of z) dom g (pd_x st).
Proof. exact pdhgG_fixed_min_lemma. Qed.
Print Assumptions C14_pdhgG_solves_documented_partial.

Theorem C14_pdhgG_kkt_is_fixed :
  forall (X Y W : IPS) (A : X -> Y) (AH : Y -> X) (G : X -> W) (GH : W -> X)
         (y : Y) (lam : R) (z : option X), 0 <= lam ->
  forall (dom : W -> Prop) (g : W -> R) (proxg : option (R -> W -> W)), proxg_spec W dom g proxg ->
  forall (tau sigma : R) (x : X) (w : W) (tmin smin r : R),
    0 < tau -> 0 < sigma -> kkt X Y W A AH G GH y lam (zz_of z) dom g x w ->
    let st := mkPD (S := ROps) (X := IPSV X) (U := stackU ROps (IPSV Y) (IPSV W)) x (vminus (A x) y, w) x tau sigma tmin smin r in
    let st' := lls_pdhgG_step ROps (IPSV X) (IPSV Y) (IPSV W) A AH G GH y lam z proxg st in
    pd_x st' = x /\ pd_u st' = (vminus (A x) y, w).
Proof. exact pdhgG_kkt_fixed_lemma. Qed.
Print Assumptions C14_pdhgG_kkt_is_fixed.

Theorem C14_pdhgG_noprox_minimiser_has_multiplier :
  forall (X Y W : IPS) (A : X -> Y) (AH : Y -> X) (G : X -> W) (GH : W -> X),
    (forall x u, ip (A x) u = ip x (AH u)) -> (forall x u, ip (G x) u = ip x (GH u)) ->
  forall (y : Y) (lam : R) (z : option X), 0 <= lam ->
  forall (dom : W -> Prop) (g : W -> R), convex_on W dom g ->
  forall proxg : option (R -> W -> W), proxg_spec W dom g proxg ->
  forall x : X, proxg = None -> is_min X Y W A G y lam (zz_of z) dom g x ->
    kkt X Y W A AH G GH y lam (zz_of z) dom g x v0.
Proof. exact pdhgG_min_kkt_noprox. Qed.
Print Assumptions C14_pdhgG_noprox_minimiser_has_multiplier.

(* ---- ADMM ------------------------------------------------------------------------------------------ *)
(* G is None: (x, v, u) is a fixed point of the three configured sub-steps  <=>  v = x, x minimises the documented
   objective, rho u = -grad f(x);  and every minimiser is the x-part of a fixed point *)
Theorem C14_admm_solves_documented :
  forall (X Y : IPS) (A : X -> Y) (AH : Y -> X), (forall x u, ip (A x) u = ip x (AH u)) ->
  forall (y : Y) (lam : R) (z : option X), 0 <= lam ->
  forall (dom : X -> Prop) (g : X -> R), convex_on X dom g ->
  forall proxg : option (R -> X -> X), proxg_spec X dom g proxg ->
  forall rho : R, 0 < rho -> forall x v u : X,
    admm_fixed X Y A AH y lam z proxg rho x v u <->
    (v = x /\ is_min X Y X A (idX X) y lam (zz_of z) dom g x /\ vmul rho u = vmul (-1) (gradfsm X Y A AH y lam (zz_of z) x)).
Proof. exact admm_fixed_iff_min_lemma. Qed.
Print Assumptions C14_admm_solves_documented.

Theorem C14_admm_minimiser_is_fixed :
  forall (X Y : IPS) (A : X -> Y) (AH : Y -> X), (forall x u, ip (A x) u = ip x (AH u)) ->
  forall (y : Y) (lam : R) (z : option X), 0 <= lam ->
  forall (dom : X -> Prop) (g : X -> R), convex_on X dom g ->
  forall proxg : option (R -> X -> X), proxg_spec X dom g proxg ->
  forall rho : R, 0 < rho -> forall x : X,
    is_min X Y X A (idX X) y lam (zz_of z) dom g x ->
    admm_fixed X Y A AH y lam z proxg rho x x (vmul (/ rho) (vmul (-1) (gradfsm X Y A AH y lam (zz_of z) x))).
Proof. exact admm_min_fixed_lemma. Qed.
Print Assumptions C14_admm_minimiser_is_fixed.

(* G given: fixed point  <=>  v = G x and (x, rho u) is a KKT pair *)
Theorem C14_admmG_fixed_iff_kkt :
  forall (X Y W : IPS) (A : X -> Y) (AH : Y -> X) (G : X -> W) (GH : W -> X),
    (forall x u, ip (A x) u = ip x (AH u)) -> (forall x u, ip (G x) u = ip x (GH u)) ->
  forall (y : Y) (lam : R) (z : option X), 0 <= lam ->
  forall (dom : W -> Prop) (g : W -> R) (proxg : option (R -> W -> W)), proxg_spec W dom g proxg ->
  forall rho : R, 0 < rho -> forall (x : X) (v u : W),
    admmG_fixed X Y W A AH G GH y lam z proxg rho x v u <->
    (v = G x /\ kkt X Y W A AH G GH y lam (zz_of z) dom g x (vmul rho u)).
Proof. exact admmG_fixed_iff_kkt_lemma. Qed.
Print Assumptions C14_admmG_fixed_iff_kkt.

(* FULL statement intended: the x-parts of the fixed points are exactly the minimisers.  Proved: fixed point ==> v = G x
   and x minimises (below); minimiser with a KKT multiplier w ==> (x, G x, w / rho) is a fixed point
   (C14_admmG_kkt_is_fixed).  Missing: existence of the multiplier for general g, G (chain rule, as for PDHG). *)
Theorem C14_admmG_solves_documented_partial :
  forall (X Y W : IPS) (A : X -> Y) (AH : Y -> X) (G : X -> W) (GH : W -> X),
    (forall x u, ip (A x) u = ip x (AH u)) -> (forall x u, ip (G x) u = ip x (GH u)) ->
  forall (y : Y) (lam : R) (z : option X), 0 <= lam ->
  forall (dom : W -> Prop) (g : W -> R) (proxg : option (R -> W -> W)), proxg_spec W dom g proxg ->
  forall rho : R, 0 < rho -> forall (x : X) (v u : W),
    admmG_fixed X Y W A AH G GH y lam z proxg rho x v u ->
    v = G x /\ is_min X Y W A G y lam (zz_of z) dom g x.
Proof. exact admmG_fixed_min_lemma. Qed.
Print Assumptions C14_admmG_solves_documented_partial.

Theorem C14_admmG_kkt_is_fixed :
  forall (X Y W : IPS) (A : X -> Y) (AH : Y -> X) (G : X -> W) (GH : W -> X),
    (forall x u, ip (A x) u = ip x (AH u)) -> (forall x u, ip (G x) u = ip x (GH u)) ->
  forall (y : Y) (lam : R) (z : option X), 0 <= lam ->
  forall (dom : W -> Prop) (g : W -> R) (proxg : option (R -> W -> W)), proxg_spec W dom g proxg ->
  forall rho : R, 0 < rho -> forall (x : X) (w : W),
    kkt X Y W A AH G GH y lam (zz_of z) dom g x w ->
    admmG_fixed X Y W A AH G GH y lam z proxg rho x (G x) (vmul (/ rho) w).
Proof. exact admmG_kkt_fixed_lemma. Qed.
Print Assumptions C14_admmG_kkt_is_fixed.

(* ---- non-vacuity: box constraint on R (an extended-real g), all hypotheses discharged ------------------------ *)
Example C14_box_prox_satisfies_vi :
  forall lo hi, lo <= hi -> prox_vi_dom R_IPS (boxdom lo hi) (fun _ => 0) (clipR lo hi).
Proof. exact clip_vi. Qed.

Example C14_pdhg_box_on_R :
  let st := mkPD (S := ROps) (X := IPSV R_IPS) (U := IPSV R_IPS) (1 : R_IPS) ((-4) : R_IPS) (1 : R_IPS) (1 / 8) 1 0 0 0 in
  let st' := lls_pdhg_step ROps (IPSV R_IPS) (IPSV R_IPS) (exA1 2) (exA1 2) 6 0 (Some (0 : R_IPS)) (Some (clipR 0 1)) st in
  pd_x st' = 1 /\ pd_u st' = -4.
Proof. exact pdhg_box_numbers. Qed.
