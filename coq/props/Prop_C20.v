(* Prop_C20 — Trapezoid gradient designers meet area, amplitude and slew limits.
   Only statements; every proof is `exact <lemma>` (proofs/Trap.v).  The designers are the terms
   trap_grad / min_trap_grad of model/Trap.v (the same terms that run on floats in run/RunC20.v),
   here on R with ceil t := 1 - up(-t)  (t <= ceil t < t+1, lemma ceil_up_spec). *)
From Coq Require Import Reals ZArith List Bool.
From SV Require Import model.Trap proofs.Trap.
Import ListNotations.
Local Open Scope R_scope.

(* the ceil used below is a ceiling *)
Theorem C20_ceil_is_ceiling : forall t, t <= IZR (ceil_up t) < t + 1.
Proof. exact ceil_up_spec. Qed.
Print Assumptions C20_ceil_is_ceiling.

(* trap_grad, every regime at once: for ALL positive area, gmax, dgdt, dt the waveform starts and ends at 0,
   sums to exactly area/dt, stays within [0, gmax], and consecutive samples differ by at most dgdt*dt;
   the ramp count is at least 1. *)
Theorem C20_trap_grad_meets_limits :
  forall area gmax dgdt dt, 0 < area -> 0 < gmax -> 0 < dgdt -> 0 < dt ->
    let w := fst (trap_grad (T:=RUp) area gmax dgdt dt) in
    (hd 0 w = 0 /\ last w 0 = 0 /\
     fold_right Rplus 0 w * dt = area /\
     (forall x, In x w -> 0 <= x <= gmax) /\
     (forall i, (S i < length w)%nat -> Rabs (nth (S i) w 0 - nth i w 0) <= dgdt * dt)) /\
    (1 <= snd (trap_grad (T:=RUp) area gmax dgdt dt))%Z.
Proof. exact trap_grad_meets_limits. Qed.
Print Assumptions C20_trap_grad_meets_limits.

(* the regimes made explicit: triangle (ramp count ceil(sqrt(area*dgdt)/dgdt/dt), 2(r+1) samples, peak
   area/((r+1)dt)), trapezoid (r = ceil(gmax/dgdt/dt), even flat count 2*ceil(...)), and the boundary
   area = r*dt*gmax (no flat sample). *)
Theorem C20_trap_grad_regimes :
  forall area gmax dgdt dt, 0 < area -> 0 < gmax -> 0 < dgdt -> 0 < dt ->
    let r1 := ceil_up (gmax / dgdt / dt) in
    let w := fst (trap_grad (T:=RUp) area gmax dgdt dt) in
    let r := snd (trap_grad (T:=RUp) area gmax dgdt dt) in
    (area < IZR r1 * dt * gmax ->
       r = ceil_up (sqrt (area * dgdt) / dgdt / dt) /\ Z.of_nat (length w) = (2 * (r + 1))%Z /\
       forall x, In x w -> x <= area / ((IZR r + 1) * dt)) /\
    (IZR r1 * dt * gmax <= area ->
       r = r1 /\
       Z.of_nat (length w) = (2 * (r1 + 1) + ceil_up ((area - IZR r1 * dt * gmax) / gmax / dt / 2) * 2)%Z) /\
    (area = IZR r1 * dt * gmax -> r = r1 /\ Z.of_nat (length w) = (2 * (r1 + 1))%Z).
Proof. exact trap_grad_regimes. Qed.
Print Assumptions C20_trap_grad_regimes.

(* min_trap_grad: the waveform is ramp ++ flat ++ ramp (ramps of equal length), the flat part has at least one
   sample, all flat samples are equal and their sum times dt is exactly the requested area; start/end at 0,
   amplitude within [0, gmax], slew within dgdt*dt; ramp count >= 1.  (floor enters only through
   pts = max(floor(..), 1) >= 1, so the statement holds for any floor.) *)
Theorem C20_min_trap_grad_meets_limits :
  forall area gmax dgdt dt, 0 < area -> 0 < gmax -> 0 < dgdt -> 0 < dt ->
    let w := fst (min_trap_grad (T:=RUp) area gmax dgdt dt) in
    let fl := min_trap_flat_part (T:=RUp) area gmax dgdt dt in
    (hd 0 w = 0 /\ last w 0 = 0 /\
     (exists up dn, w = up ++ fl ++ dn /\ length up = length dn) /\
     (1 <= length fl)%nat /\
     fold_right Rplus 0 fl * dt = area /\
     (forall x y, In x fl -> In y fl -> x = y) /\
     (forall x, In x w -> 0 <= x <= gmax) /\
     (forall i, (S i < length w)%nat -> Rabs (nth (S i) w 0 - nth i w 0) <= dgdt * dt)) /\
    (1 <= snd (min_trap_grad (T:=RUp) area gmax dgdt dt))%Z.
Proof. exact min_trap_grad_meets_limits. Qed.
Print Assumptions C20_min_trap_grad_meets_limits.

(* non-vacuity: the hypotheses are satisfiable (the unit test's parameters) *)
Example C20_hypotheses_satisfiable :
  0 < 200 * 4e-6 /\ 0 < 2 /\ 0 < 18000 /\ 0 < 4e-6.
Proof. exact trap_example_params. Qed.

(* ---- spokes_grad (model/Spokes.v; the last sentence of the property) ----------------------------------------------
   For ALL spoke location lists (any number of spokes, kx / ky of equal length), all positive tbw, slice thickness and
   hardware limits, whenever every in-plane blip fits inside one slice-select lobe (boolean [blips_fit] — outside it
   the python slice eats into the previous spoke and numpy.vstack raises on unequal lengths; the model keeps that
   behaviour and the correspondence compares it), the three assembled
   waveforms gx, gy, gz
     - have the same length  n*|subgz| + |gref|,
     - start and end at 0, stay within gmax in magnitude and change by at most dgdt*dt per sample,
     - gx / gy move k-space during spoke i by exactly k_{i+1} - k_i (the location after the last spoke is 0) and are
       zero during the refocusing lobe,
     - gz is the slice-select lobe of min_trap_grad (flat-top area tbw/(thick/10)/4257, C20_min_trap_grad_meets_limits)
       with alternating sign, followed by minus a trapezoid of half the lobe's total area. *)
From SV Require Import model.Spokes proofs.Spokes.

Theorem C20_spokes_grad_meets_limits :
  forall (kx ky : list R) (tbw thick gmax dgdt dt : R),
  0 < tbw -> 0 < thick -> 0 < gmax -> 0 < dgdt -> 0 < dt -> length kx = length ky ->
  blips_fit (T:=RUp) kx ky tbw thick gmax dgdt dt = true ->
  let g := spokes_grad (T:=RUp) kx ky tbw thick gmax dgdt dt in
  let gx := fst (fst g) in let gy := snd (fst g) in let gz := snd g in
  let area := tbw / (thick / 10) / 4257 in
  let subgz := fst (min_trap_grad (T:=RUp) area gmax dgdt dt) in
  let subn := length subgz in
  let gref := fst (trap_grad (T:=RUp) (dt * rsum (T:=RUp) subgz / 2) gmax dgdt dt) in
  let n := length kx in
  (length gx = n * subn + length gref /\ length gy = n * subn + length gref /\ length gz = n * subn + length gref)%nat /\
  waveform_ok gmax (dgdt * dt) gx /\ waveform_ok gmax (dgdt * dt) gy /\ waveform_ok gmax (dgdt * dt) gz /\
  (forall i, (i < n)%nat -> fold_right Rplus 0 (seg i subn gx) * dt * 4257 = nth (S i) kx 0 - nth i kx 0) /\
  (forall i, (i < n)%nat -> fold_right Rplus 0 (seg i subn gy) * dt * 4257 = nth (S i) ky 0 - nth i ky 0) /\
  fold_right Rplus 0 (skipn (n * subn) gx) = 0 /\ fold_right Rplus 0 (skipn (n * subn) gy) = 0 /\
  (forall i, (i < n)%nat -> seg i subn gz = map (fun x => (if Nat.even i then 1 else -1) * x) subgz) /\
  skipn (n * subn) gz = map (fun x => -1 * x) gref /\
  fold_right Rplus 0 gref * dt = dt * fold_right Rplus 0 subgz / 2 /\ (1 <= subn)%nat.
Proof. exact spokes_grad_meets_limits. Qed.
Print Assumptions C20_spokes_grad_meets_limits.

(* what "limits" means above, spelled out *)
Theorem C20_waveform_ok_unfold : forall gmax d g,
  waveform_ok gmax d g <->
  (hd 0 g = 0 /\ last g 0 = 0 /\ (forall x, In x g -> Rabs x <= gmax) /\
   (forall i, (S i < length g)%nat -> Rabs (nth (S i) g 0 - nth i g 0) <= d)).
Proof. exact (fun gmax d g => conj (fun H => H) (fun H => H)). Qed.
Print Assumptions C20_waveform_ok_unfold.

(* non-vacuity: the domain hypothesis holds for a spoke at the origin, for any parameters *)
Example C20_spokes_hypotheses_satisfiable :
  forall tbw thick gmax dgdt dt, blips_fit (T:=RUp) [0] [0] tbw thick gmax dgdt dt = true.
Proof. exact blips_fit_origin. Qed.
