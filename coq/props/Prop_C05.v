(* Prop_C05 — fft/ifft are the centred unitary DFT and mutually inverse.
   Only statements; every proof is `exact <lemma>`.  Print Assumptions below each.

   Setting: R is any commutative *-ring (lib/Scalar.StarRing: C, R, Z[i], Q(i), ...).
   numpy.fft is an oracle whose specification is the explicit sum (model/Fourier.v):
     dft1 K n x k = sum_{j<n} x j * K n j k,   fker .. n j k = [s_n *] tw n ((j*k) mod n),
     iker .. n j k = (s_n | v_n) * conj (tw n ((j*k) mod n)),
   fftshift/ifftshift = g_fftshift / g_ifftshift (roll by n/2, -(n/2)).
   The hypotheses on the oracle data are stated explicitly in every theorem:
     tw n m = w^m (opow),  0 < n,  w^n = 1,  sum_{k<n} w^(k m) = 0 for 0 < m < n,  conj w * w = 1,
     s_n * s_n * n = 1 and conj s_n = s_n (orthonormal scaling),  v_n * n = 1 (numpy's 1/n),
   where n as a ring element is nR n = sum_{k<n} 1.  [root_ok R n w] abbreviates the four
   conditions on w (C05_root_ok_is). *)
From Coq Require Import ZArith List Bool Permutation QArith.
From SV Require Import lib.Scalar lib.BigSum lib.NdArray lib.Gather model.Rearrange model.Fourier
  proofs.Fourier1D proofs.FourierND proofs.FourierModel proofs.FourierExample.
Import ListNotations.
Local Open Scope Z_scope.

Theorem C05_root_ok_is : forall (R : StarRing) n (w : R),
  root_ok R n w <->
  (0 < n /\ opow w (Z.to_nat n) = one /\
   (forall m, 0 < m < n -> sumZ n (fun k => opow w (Z.to_nat (k * m))) = zero) /\
   mul (conj w) w = one).
Proof. exact root_ok_unfold. Qed.
Print Assumptions C05_root_ok_is.

(* the orthogonality hypothesis follows from primitivity when R has no zero divisors *)
Theorem C05_primitive_root_suffices : forall (R : StarRing),
  (forall a b : R, mul a b = zero -> a = zero \/ b = zero) ->
  forall n (w : R), 0 < n -> opow w (Z.to_nat n) = one ->
    (forall m, 0 < m < n -> opow w (Z.to_nat m) <> one) -> mul (conj w) w = one -> root_ok R n w.
Proof. exact primitive_root_ok. Qed.
Print Assumptions C05_primitive_root_suffices.

(* [core] fftc_1d: fftshift (fft (ifftshift x)) has its origin at index n/2 on both sides, for
   EVERY n >= 1, odd or even, in one statement (w^e for an integer e is zpw e = w^(e mod n)) *)
Theorem C05_fftc_1d : forall (R : StarRing) n (w : R),
  (0 < n /\ opow w (Z.to_nat n) = one /\
   (forall m, 0 < m < n -> sumZ n (fun k => opow w (Z.to_nat (k * m))) = zero) /\
   mul (conj w) w = one) ->
  forall (tw : Z -> Z -> R) (isc inv : Z -> R), (forall m, tw n m = opow w (Z.to_nat m)) ->
  forall (x : Z -> R) k, 0 <= k < n ->
    dft1 (fker tw isc false) n (fun j => x (g_ifftshift n j)) (g_fftshift n k) =
    sumZ n (fun j => mul (x j) (zpw R n w ((j - n / 2) * (k - n / 2)))).
Proof. exact fftc_1d. Qed.
Print Assumptions C05_fftc_1d.

(* the same for fft and ifft with either normalisation: the kernel is scale * w^(+-(j-n/2)(k-n/2)) *)
Theorem C05_fftc_1d_all_modes : forall (R : StarRing) n (w : R), root_ok R n w ->
  forall (tw : Z -> Z -> R) (isc inv : Z -> R), (forall m, tw n m = opow w (Z.to_nat m)) ->
  forall (inverse ortho : bool) (x : Z -> R) k, 0 <= k < n ->
    dft1 (ker1 tw isc inv inverse ortho) n (fun j => x (g_ifftshift n j)) (g_fftshift n k) =
    sumZ n (fun j => mul (x j)
      (mul (if inverse then (if ortho then isc n else inv n) else (if ortho then isc n else one))
           (zpw R n w ((if inverse then -1 else 1) * ((j - n / 2) * (k - n / 2)))))).
Proof. exact cfft1_spec. Qed.
Print Assumptions C05_fftc_1d_all_modes.

(* [core] ifft (fft x) = x and fft (ifft x) = x (centred, 1-D), from orthogonality of the powers *)
Theorem C05_ifft_fft_1d : forall (R : StarRing) n (w : R), root_ok R n w ->
  forall (tw : Z -> Z -> R) (isc inv : Z -> R), (forall m, tw n m = opow w (Z.to_nat m)) ->
  mul (mul (isc n) (isc n)) (nR n) = one -> mul (inv n) (nR n) = one ->
  forall (inverse ortho : bool) (x : Z -> R) l, 0 <= l < n ->
    cfft1 R n tw isc inv (negb inverse) ortho (cfft1 R n tw isc inv inverse ortho x) l = x l.
Proof. exact ifft_fft_1d. Qed.
Print Assumptions C05_ifft_fft_1d.

(* center=False: origin at index 0 (the kernel is the oracle's, no shifts), same inverse pair *)
Theorem C05_plain_ifft_fft_1d : forall (R : StarRing) n (w : R), root_ok R n w ->
  forall (tw : Z -> Z -> R) (isc inv : Z -> R), (forall m, tw n m = opow w (Z.to_nat m)) ->
  mul (mul (isc n) (isc n)) (nR n) = one -> mul (inv n) (nR n) = one ->
  forall (inverse ortho : bool) (x : Z -> R) l, 0 <= l < n ->
    dft1 (ker1 tw isc inv (negb inverse) ortho) n (dft1 (ker1 tw isc inv inverse ortho) n x) l = x l.
Proof. exact plain_ifft_fft_1d. Qed.
Print Assumptions C05_plain_ifft_fft_1d.

Theorem C05_parseval_1d : forall (R : StarRing) n (w : R), root_ok R n w ->
  forall (tw : Z -> Z -> R) (isc inv : Z -> R), (forall m, tw n m = opow w (Z.to_nat m)) ->
  mul (mul (isc n) (isc n)) (nR n) = one -> conj (isc n) = isc n -> mul (inv n) (nR n) = one ->
  forall (inverse : bool) (x : Z -> R),
    sumZ n (fun k => mul (cfft1 R n tw isc inv inverse true x k) (conj (cfft1 R n tw isc inv inverse true x k))) =
    sumZ n (fun j => mul (x j) (conj (x j))).
Proof. exact parseval_1d. Qed.
Print Assumptions C05_parseval_1d.

(* ---- N-D model of fourier._fftc / _ifftc (fftc inverse ortho ishape oshape axes x) --------- *)

(* oshape => centred zero-pad/crop FIRST (util.resize, C09), then along every listed axis
   (util._normalize_axes: sorted, a mod ndim) the centred transform; the output shape is oshape *)
Theorem C05_fftc_nd : forall (R : StarRing) (w isc inv : Z -> R),
  (forall n, 0 < n -> root_ok R n (w n)) ->
  forall inverse ortho ishape oshape axes (x : list Z -> R),
    let osh := match oshape with Some o => o | None => ishape end in
    let ax := normalize_axes_sorted axes (Z.of_nat (length ishape)) in
    Forall (fun n => 0 < n) osh -> NoDup ax -> Forall (fun a => (a < length osh)%nat) ax ->
    fst (fftc (twf R w) isc inv inverse ortho ishape oshape axes x) = osh /\
    eqbox osh (snd (fftc (twf R w) isc inv inverse ortho ishape oshape axes x))
              (foldax (Kf osh (ckerN R w isc inv inverse ortho)) ax (resize ishape osh None None x)).
Proof. exact fftc_nd. Qed.
Print Assumptions C05_fftc_nd.

(* ... where the centred pad/crop reads (1-D, any i, o >= 1): index i/2 is aligned with index o/2 *)
Theorem C05_resize_first_1d : forall (R : Ops) (i o k : Z) (x : list Z -> R), 0 < i -> 0 < o -> 0 <= k < o ->
  resize [i] [o] None None x [k] =
  if (0 <=? k - o / 2 + i / 2) && (k - o / 2 + i / 2 <? i) then x [k - o / 2 + i / 2] else zero.
Proof. exact resize_1d_centre. Qed.
Print Assumptions C05_resize_first_1d.

(* [core] ifft (fft x) = x, fft (ifft x) = x on any distinct axes, any lengths, either norm *)
Theorem C05_ifft_fft : forall (R : StarRing) (w isc inv : Z -> R),
  (forall n, 0 < n -> root_ok R n (w n)) ->
  (forall n, 0 < n -> mul (mul (isc n) (isc n)) (nR n) = one) ->
  (forall n, 0 < n -> mul (inv n) (nR n) = one) ->
  forall inverse ortho s axes (x : list Z -> R),
    let ax := normalize_axes_sorted axes (Z.of_nat (length s)) in
    Forall (fun n => 0 < n) s -> NoDup ax -> Forall (fun a => (a < length s)%nat) ax ->
    eqbox s (snd (fftc (twf R w) isc inv (negb inverse) ortho s None axes
                       (snd (fftc (twf R w) isc inv inverse ortho s None axes x)))) x.
Proof. exact ifft_fft_nd. Qed.
Print Assumptions C05_ifft_fft.

(* linop.FFT.H = IFFT is right: <fft x, y> = <x, ifft y> with the orthonormal scaling *)
Theorem C05_fft_adjoint_is_ifft : forall (R : StarRing) (w isc inv : Z -> R),
  (forall n, 0 < n -> root_ok R n (w n)) ->
  (forall n, 0 < n -> conj (isc n) = isc n) ->
  forall inverse s axes (x y : list Z -> R),
    let ax := normalize_axes_sorted axes (Z.of_nat (length s)) in
    Forall (fun n => 0 < n) s -> NoDup ax -> Forall (fun a => (a < length s)%nat) ax ->
    inner s (snd (fftc (twf R w) isc inv inverse true s None axes x)) y =
    inner s x (snd (fftc (twf R w) isc inv (negb inverse) true s None axes y)).
Proof. exact fft_adjoint_nd. Qed.
Print Assumptions C05_fft_adjoint_is_ifft.

(* Parseval / norm preservation (so linop.FFT.N = Identity is justified together with C05_ifft_fft) *)
Theorem C05_parseval : forall (R : StarRing) (w isc inv : Z -> R),
  (forall n, 0 < n -> root_ok R n (w n)) ->
  (forall n, 0 < n -> mul (mul (isc n) (isc n)) (nR n) = one) ->
  (forall n, 0 < n -> conj (isc n) = isc n) ->
  (forall n, 0 < n -> mul (inv n) (nR n) = one) ->
  forall inverse s axes (x : list Z -> R),
    let ax := normalize_axes_sorted axes (Z.of_nat (length s)) in
    Forall (fun n => 0 < n) s -> NoDup ax -> Forall (fun a => (a < length s)%nat) ax ->
    inner s (snd (fftc (twf R w) isc inv inverse true s None axes x))
            (snd (fftc (twf R w) isc inv inverse true s None axes x)) = inner s x x.
Proof. exact parseval_nd. Qed.
Print Assumptions C05_parseval.

(* axes normalisation: the same axes given in another order and/or as negative indices
   (equal modulo ndim) give the same transform *)
Theorem C05_axes_order_and_sign_irrelevant : forall (R : StarRing) (w isc inv : Z -> R),
  (forall n, 0 < n -> root_ok R n (w n)) ->
  forall inverse ortho ishape oshape l l' (x : list Z -> R),
    let osh := match oshape with Some o => o | None => ishape end in
    let nd := Z.of_nat (length ishape) in
    let f := fun a => Z.to_nat (a mod nd) in
    Forall (fun n => 0 < n) osh -> NoDup (map f l) -> Forall (fun a => (a < length osh)%nat) (map f l) ->
    Permutation (map f l) (map f l') ->
    eqbox osh (snd (fftc (twf R w) isc inv inverse ortho ishape oshape (Some l) x))
              (snd (fftc (twf R w) isc inv inverse ortho ishape oshape (Some l') x)).
Proof. exact fftc_axes_mod_perm. Qed.
Print Assumptions C05_axes_order_and_sign_irrelevant.

(* the normalised axes always index the array when it has at least one dimension *)
Theorem C05_normalized_axes_in_range : forall axes nd, 0 < nd ->
  Forall (fun a => (a < Z.to_nat nd)%nat) (normalize_axes_sorted axes nd).
Proof. exact normalize_axes_lt. Qed.
Print Assumptions C05_normalized_axes_in_range.

(* dtype rule: complex64 stays complex64, complex128 stays, everything else becomes complex64 *)
Theorem C05_dtype_rule : forall d, fft_out_dtype d = match d with C64 => C64 | C128 => C128 | _ => C64 end.
Proof. exact fft_out_dtype_table. Qed.
Print Assumptions C05_dtype_rule.

(* non-vacuity: in Z[i], w = -i is a 4th root of unity satisfying every hypothesis on w, and the
   model's centred transform of a delta at the centre index 2 is the constant 1 *)
Example C05_hypotheses_satisfiable_Zi : root_ok GRing 4 (0, -1).
Proof. exact root_ok_Zi_4. Qed.
Example C05_odd_length_satisfiable : root_ok ZRing 1 1 /\ root_ok GRing 2 (-1, 0).
Proof. exact root_ok_small. Qed.
(* in Q(i) the scalings exist too: n = 4, w = -i, s = 1/2, v = 1/4 satisfy ALL hypotheses at once *)
Example C05_all_hypotheses_satisfiable_Qi :
  root_ok QIRing 4 (qi 0 (-1)) /\
  (let s : QIRing := qi (1 # 2) 0 in let v : QIRing := qi (1 # 4) 0 in
   mul (mul s s) (nR 4) = one /\ conj s = s /\ mul v (nR 4) = one).
Proof. exact (Logic.conj root_ok_Qi_4 scalings_Qi_4). Qed.
Example C05_centred_delta :
  tabulate [4] (snd (fftc (R:=GOps) (fun _ m => opow (R:=GOps) (0, -1) (Z.to_nat m)) (fun _ => (1, 0)) (fun _ => (1, 0))
                          false false [4] None None (of_list (0, 0) [4] [(0, 0); (0, 0); (1, 0); (0, 0)])))
  = [(1, 0); (1, 0); (1, 0); (1, 0)].
Proof. vm_compute. reflexivity. Qed.
