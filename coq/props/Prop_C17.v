(* Prop_C17 — ESPIRiT maps at one voxel: unit l2 norm across coils or exactly zero, coil 0 real and
   >= 0, eigenvalue estimate >= 0 (and <= 1 for an l2-contractive per-voxel operator).
   Only statements; every proof is `exact <lemma>`.  Print Assumptions below each.

   Setting: model/Espirit.v instantiated on the reals (RE); a complex number is a pair of reals, a coil
   vector a list, the per-voxel operator A a list of rows (ANY matrix: Hermitian Gram data is a special
   case), [power_iter k A x e] = k updates  x <- A x / ||A x||  of PowerMethod with the coil-axis norm,
   [output crop x eig] = `_output` (phase reference to coil 0, crop by eigenvalue).
   Not proved (validated by props/C17.py only): agreement of the magnitudes with the true maps, and the
   fact that the AHA built by EspiritCalib (calibration matrix, SVD truncation, image-domain Gram) is a
   contraction. *)
From Coq Require Import Reals List Bool.
From SV Require Import model.Espirit proofs.Espirit.
Import ListNotations.
Local Open Scope R_scope.

(* after any number >= 1 of normalised iterations whose last iterate is non-zero (the eigenvalue
   estimate, which is its norm, is not 0): the coil vector has unit l2 norm *)
Theorem C17_unit_norm_after_iterations :
  forall (A : list (list C)) (k : nat) (x : list C) (e : R),
    snd (@power_iter RE (S k) A x e) <> 0 ->
    vnorm2 (fst (@power_iter RE (S k) A x e)) = 1 /\ vnorm (fst (@power_iter RE (S k) A x e)) = 1.
Proof. exact power_iter_unit. Qed.
Print Assumptions C17_unit_norm_after_iterations.

(* the eigenvalue estimate is a norm, hence >= 0 *)
Theorem C17_eigenvalue_nonneg :
  forall (A : list (list C)) (k : nat) (x : list C) (e : R), 0 <= snd (@power_iter RE (S k) A x e).
Proof. exact power_iter_eig_nonneg. Qed.
Print Assumptions C17_eigenvalue_nonneg.

(* multiplying by the unimodular phase conj(z0 / |z0|) keeps the norm and makes coil 0 real and > 0 *)
Theorem C17_phase_reference :
  forall (z0 : C) (t : list C), @cabs RE z0 <> 0 ->
    vnorm2 (@phase_ref RE (z0 :: t)) = vnorm2 (z0 :: t) /\
    hd (@c0 RE) (@phase_ref RE (z0 :: t)) = (@cabs RE z0, 0) /\
    0 < @cabs RE z0.
Proof. exact phase_ref_spec. Qed.
Print Assumptions C17_phase_reference.

(* the crop multiplies by exactly 1 (eigenvalue > crop) or exactly 0 *)
Theorem C17_crop_factor_zero_or_one :
  forall eig crop : R,
    (@crop_factor RE eig crop = 1 /\ crop < eig) \/ (@crop_factor RE eig crop = 0 /\ ~ crop < eig).
Proof. exact crop_factor_01. Qed.
Print Assumptions C17_crop_factor_zero_or_one.

(* `_output` on a unit-norm iterate with non-zero coil 0: unit norm or exactly zero; coil 0 real, >= 0 *)
Theorem C17_output_unit_or_zero :
  forall (crop eig : R) (z0 : C) (t : list C),
    @cabs RE z0 <> 0 -> vnorm2 (z0 :: t) = 1 ->
    let m := @output RE crop (z0 :: t) eig in
    ((crop < eig /\ vnorm2 m = 1) \/ (~ crop < eig /\ Forall (fun z : C => z = (0, 0)) m)) /\
    snd (hd (@c0 RE) m) = 0 /\ 0 <= fst (hd (@c0 RE) m).
Proof. exact output_spec. Qed.
Print Assumptions C17_output_unit_or_zero.

(* the whole voxel: k+1 updates from ANY start, then `_output` *)
Theorem C17_voxel_unit_or_zero_phase_referenced :
  forall (A : list (list C)) (k : nat) (x0 : list C) (eig0 crop : R),
    let it := @power_iter RE (S k) A x0 eig0 in
    snd it <> 0 ->
    @cabs RE (hd (@c0 RE) (fst it)) <> 0 ->
    let m := fst (@espirit_voxel RE (S k) A x0 eig0 crop) in
    let eig := snd (@espirit_voxel RE (S k) A x0 eig0 crop) in
    ((crop < eig /\ vnorm2 m = 1) \/ (~ crop < eig /\ Forall (fun z : C => z = (0, 0)) m)) /\
    snd (hd (@c0 RE) m) = 0 /\ 0 <= fst (hd (@c0 RE) m) /\ 0 <= eig.
Proof. exact espirit_voxel_spec. Qed.
Print Assumptions C17_voxel_unit_or_zero_phase_referenced.

(* [stretch]  FULL STATEMENT (not proved): for the operator AHA[r] that EspiritCalib builds -- the image-domain Gram
   matrix  (N / kw^d) * sum_kernels a(r)^H a(r)  of the rows of V_parallel^H (orthonormal rows kept by the SVD
   truncation) -- the eigenvalue estimate after >= 2 updates is <= 1.
   PROVED PART: the same conclusion from the hypothesis that the per-voxel operator is an l2 contraction
   (||A v|| <= ||v|| for all v), which is what "V_parallel V_parallel^H is a projection" gives in the ESPIRiT paper.
   MISSING: the derivation of the contraction from the construction (needs the DFT/overlap-add argument W = average of
   projections); the check validates eig <= 1 + 1e-4 numerically instead.  The first update starts from the
   un-normalised vector of ones, so its estimate ||A 1|| can be as large as sqrt(num_coils): two updates are needed. *)
Theorem C17_eigenvalue_le_one_partial :
  forall (A : list (list C)) (k : nat) (x : list C) (e : R),
    (forall v : list C, vnorm2 (@matvec RE A v) <= vnorm2 v) ->
    snd (@power_iter RE (S k) A x e) <> 0 ->
    snd (@power_iter RE (S (S k)) A x e) <= 1.
Proof. exact power_iter_eig_le_one. Qed.
Print Assumptions C17_eigenvalue_le_one_partial.

(* the hypotheses are satisfiable (1 coil, A = (1), x0 = (1)) *)
Example C17_hypotheses_satisfiable :
  snd (@power_iter RE 1 exA exx 0) <> 0 /\
  @cabs RE (hd (@c0 RE) (fst (@power_iter RE 1 exA exx 0))) <> 0 /\
  (forall v : list C, vnorm2 (@matvec RE exA v) <= vnorm2 v).
Proof. exact example_hypotheses. Qed.
Print Assumptions C17_hypotheses_satisfiable.
