(* Prop_C08 — convolve matches the convolution definition; convolve_data_adjoint / convolve_filter_adjoint
   are its exact adjoints; inadmissible shapes are rejected (statements only).

   The statements are about the model coq/model/Conv.v of sigpy.conv (tied to /repo by the exact C08
   correspondence), with scipy.signal.convolve / correlate replaced by their recorded specifications
   (sp_shape, sp_convolve_val, sp_correlate_val in model/Conv.v), over an ARBITRARY commutative *-ring.
   Core: one spatial axis, arbitrary batch shape b, c_i input and c_o output channels (multi_channel=True),
   any stride s >= 1, both modes.  D = 2, 3 and multi_channel=False are covered by the correspondence only. *)
From Coq Require Import ZArith List Bool.
From SV Require Import lib.Scalar lib.BigSum lib.LoopIR lib.NdArray model.Rearrange model.Block model.Linop model.Conv
  proofs.ConvReject proofs.Conv1D.
Import ListNotations.
Local Open Scope Z_scope.

(* out[b, c, p] = sum_i sum_t data[b, i, s p - t + off] * filt[c, i, t]   (data zero outside [0, m)),
   off = 0 ('full') / min(m, n) - 1 ('valid'); output length (m+n-1+s-1)//s resp. (m-n+1+s-1)//s *)
Theorem C08_convolve_is_the_convolution_sum :
  forall (R : StarRing) (b : list Z) (ci co m n s : Z) (full : bool),
    Forall (fun k => 0 < k) b -> 0 < ci -> 0 < co -> 0 < m -> 0 < n -> 0 < s -> (full = false -> n <= m) ->
    forall data filt : list Z -> R,
    let P := if full then (m + n - 1 + s - 1) / s else (m - n + 1 + s - 1) / s in
    let off := if full then 0 else Z.min m n - 1 in
    exists y,
      convolve (b ++ [ci; m]) [co; ci; n] full (Some [s]) true data filt = Ok (b ++ [co; P], y) /\
      forall bi c p, inbox b bi -> 0 <= c < co -> 0 <= p < P ->
        y (bi ++ [c; p]) =
        sumZ ci (fun i => sumZ n (fun t =>
          mul (if (0 <=? p * s + off - t) && (p * s + off - t <? m) then data (bi ++ [i; p * s + off - t]) else zero)
              (filt [c; i; t]))).
Proof.
  intros R b ci co m n s full Hb Hci Hco Hm Hn Hs Hv data filt P off.
  eexists. split.
  - exact (convolve_1d_eval R b ci co m n s full Hm Hn Hs Hv data filt).
  - intros bi c p Hbi Hc Hp. exact (conv_1d_value R b ci co m n s full Hb Hci Hco Hm Hn Hs Hv data filt bi c p Hbi Hc Hp).
Qed.
Print Assumptions C08_convolve_is_the_convolution_sum.

(* <convolve(x, filt), y> = <x, convolve_data_adjoint(y, filt)> for all x, y, and the adjoint returns the data shape *)
Theorem C08_data_adjoint_exact :
  forall (R : StarRing) (b : list Z) (ci co m n s : Z) (full : bool),
    Forall (fun k => 0 < k) b -> 0 < ci -> 0 < co -> 0 < m -> 0 < n -> 0 < s -> (full = false -> n <= m) ->
    forall filt : list Z -> R,
    let P := if full then (m + n - 1 + s - 1) / s else (m - n + 1 + s - 1) / s in
    exists A AH : (list Z -> R) -> (list Z -> R),
      (forall x, convolve (b ++ [ci; m]) [co; ci; n] full (Some [s]) true x filt = Ok (b ++ [co; P], A x)) /\
      (forall y, convolve_data_adjoint (b ++ [co; P]) [co; ci; n] (b ++ [ci; m]) full (Some [s]) true y filt
                 = Ok (b ++ [ci; m], AH y)) /\
      forall x y, inner (b ++ [co; P]) (A x) y = inner (b ++ [ci; m]) x (AH y).
Proof.
  intros R b ci co m n s full Hb Hci Hco Hm Hn Hs Hv filt P.
  eexists. eexists. split; [|split].
  - intros x. exact (convolve_1d_eval R b ci co m n s full Hm Hn Hs Hv x filt).
  - intros y. exact (data_adjoint_1d_eval R b ci co m n s full Hm Hn Hs Hv y filt).
  - intros x y. exact (data_adjoint_1d R b ci co m n s full Hb Hci Hco Hm Hn Hs Hv filt x y).
Qed.
Print Assumptions C08_data_adjoint_exact.

(* <convolve(data, f), y> = <f, convolve_filter_adjoint(y, data)> for all f, y, and the adjoint returns the filter shape *)
Theorem C08_filter_adjoint_exact :
  forall (R : StarRing) (b : list Z) (ci co m n s : Z) (full : bool),
    Forall (fun k => 0 < k) b -> 0 < ci -> 0 < co -> 0 < m -> 0 < n -> 0 < s -> (full = false -> n <= m) ->
    forall data : list Z -> R,
    let P := if full then (m + n - 1 + s - 1) / s else (m - n + 1 + s - 1) / s in
    exists A AH : (list Z -> R) -> (list Z -> R),
      (forall f, convolve (b ++ [ci; m]) [co; ci; n] full (Some [s]) true data f = Ok (b ++ [co; P], A f)) /\
      (forall y, convolve_filter_adjoint (b ++ [co; P]) (b ++ [ci; m]) [co; ci; n] full (Some [s]) true y data
                 = Ok ([co; ci; n], AH y)) /\
      forall f y, inner (b ++ [co; P]) (A f) y = inner [co; ci; n] f (AH y).
Proof.
  intros R b ci co m n s full Hb Hci Hco Hm Hn Hs Hv data P.
  eexists. eexists. split; [|split].
  - intros f. exact (convolve_1d_eval R b ci co m n s full Hm Hn Hs Hv data f).
  - intros y. exact (filter_adjoint_1d_eval R b ci co m n s full Hm Hn Hs Hv y data).
  - intros f y. exact (filter_adjoint_1d R b ci co m n s full Hb Hci Hco Hm Hn Hs Hv data f y).
Qed.
Print Assumptions C08_filter_adjoint_exact.

(* ---- rejection (any number of dimensions) ---- *)
Theorem C08_reject_bad_stride_length :
  forall (R : Ops) dsh fsh full s mc, length s <> cv_D fsh mc ->
    (forall d f : list Z -> R, convolve dsh fsh full (Some s) mc d f = Err E_conv) /\
    (forall osh (y f : list Z -> R), convolve_data_adjoint osh fsh dsh full (Some s) mc y f = Err E_conv) /\
    (forall osh (y d : list Z -> R), convolve_filter_adjoint osh dsh fsh full (Some s) mc y d = Err E_conv).
Proof. intros R dsh fsh full s mc H. apply params_err_all, params_bad_strides, H. Qed.
Print Assumptions C08_reject_bad_stride_length.

Theorem C08_reject_channel_mismatch :
  forall (R : Ops) dsh fsh full st,
    pyget fsh (- Z.of_nat (cv_D fsh true) - 1) <> pyget dsh (- Z.of_nat (cv_D fsh true) - 1) ->
    (forall d f : list Z -> R, convolve dsh fsh full st true d f = Err E_conv) /\
    (forall osh (y f : list Z -> R), convolve_data_adjoint osh fsh dsh full st true y f = Err E_conv) /\
    (forall osh (y d : list Z -> R), convolve_filter_adjoint osh dsh fsh full st true y d = Err E_conv).
Proof. intros R dsh fsh full st H. apply params_err_all, params_channel_mismatch, H. Qed.
Print Assumptions C08_reject_channel_mismatch.

(* valid mode with m_d >= n_d on one axis and m_d < n_d on another *)
Theorem C08_reject_mixed_valid_axes :
  forall (R : Ops) dsh fsh st mc,
    existsb (fun p => snd p <=? fst p) (combine (lastn (cv_D fsh mc) dsh) (lastn (cv_D fsh mc) fsh)) = true ->
    existsb (fun p => fst p <? snd p) (combine (lastn (cv_D fsh mc) dsh) (lastn (cv_D fsh mc) fsh)) = true ->
    (forall d f : list Z -> R, convolve dsh fsh false st mc d f = Err E_conv) /\
    (forall osh (y f : list Z -> R), convolve_data_adjoint osh fsh dsh false st mc y f = Err E_conv) /\
    (forall osh (y d : list Z -> R), convolve_filter_adjoint osh dsh fsh false st mc y d = Err E_conv).
Proof. intros R dsh fsh st mc H1 H2. apply params_err_all. exact (params_mixed dsh fsh st mc H1 H2). Qed.
Print Assumptions C08_reject_mixed_valid_axes.

(* valid mode with a filter longer than the data: the output length (m - n + 1 + s - 1) // s is non-positive, rejected *)
Theorem C08_reject_valid_longer_filter :
  forall (R : Ops) b ci co m n s, 0 < s -> m < n ->
    (forall d f : list Z -> R, convolve (b ++ [ci; m]) [co; ci; n] false (Some [s]) true d f = Err E_nonpos) /\
    (forall osh (y f : list Z -> R), convolve_data_adjoint osh [co; ci; n] (b ++ [ci; m]) false (Some [s]) true y f = Err E_nonpos) /\
    (forall osh (y d : list Z -> R), convolve_filter_adjoint osh (b ++ [ci; m]) [co; ci; n] false (Some [s]) true y d = Err E_nonpos).
Proof. exact valid_longer_filter_1d. Qed.
Print Assumptions C08_reject_valid_longer_filter.

(* the hypotheses of the three core theorems are satisfiable, and the model computes (Gaussian integers):
   data [1, 2, 3+i], filter [1, i], stride 2, full: conv = [1, 2+i, 3+3i, -1+3i], out = [1, 3+3i] *)
Example C08_hypotheses_satisfiable :
  match convolve (R:=GOps) [1; 3] [1; 1; 2] true (Some [2]) true
          (fun idx => nth (Z.to_nat (nth 1 idx 0)) [(1, 0); (2, 0); (3, 1)] (0, 0))
          (fun idx => nth (Z.to_nat (nth 2 idx 0)) [(1, 0); (0, 1)] (0, 0)) with
  | Ok (sh, y) => (sh, map y [[0; 0]; [0; 1]])
  | Err _ => ([], [])
  end = ([1; 2], [(1, 0); (3, 3)]).
Proof. vm_compute. reflexivity. Qed.

(* ============================================================================================================
   Any number D >= 1 of spatial axes, multi_channel = True and multi_channel = False (proofs/ConvND.v).

   m, n, s : the D data lengths, filter lengths and strides (lists of equal length, all entries positive; in 'valid'
   mode n_d <= m_d on every axis); strides are given (Some s) or None = all ones.  Per axis
       P_d = (m_d + n_d - 1 + s_d - 1) / s_d  ('full')   |   (m_d - n_d + 1 + s_d - 1) / s_d  ('valid'),
       off_d = 0  ('full')   |   min(m_d, n_d) - 1  ('valid').
   vmul / vadd / vsub are the pointwise operations on index vectors, sumB n the sum over the box of the filter,
   inboxb m src the test  0 <= src_d < m_d for all d  (the data is zero outside its box).
   scipy.signal.convolve / correlate enter through their recorded N-D specifications (model/Conv.v), unchanged. *)
From SV Require Import proofs.ConvND.

(* multi_channel = True:  out[b, c, p] = sum_i sum_{t in box n} data0[b, i, p*s + off - t] * filt[c, i, t] *)
Theorem C08_ND_convolve_is_the_convolution_sum :
  forall (R : StarRing) (b : list Z) (ci co : Z) (m n s : list Z) (full : bool) (st : option (list Z)),
    Forall (fun k => 0 < k) b -> 0 < ci -> 0 < co ->
    m <> [] -> length n = length m -> length s = length m ->
    Forall (fun k => 0 < k) m -> Forall (fun k => 0 < k) n -> Forall (fun k => 0 < k) s ->
    (full = false -> Forall2 Z.le n m) ->
    (st = Some s \/ (st = None /\ s = repeat 1 (length m))) ->
    forall data filt : list Z -> R,
    let P := zip3 (fun md nd sd => if full then (md + nd - 1 + sd - 1) / sd else (md - nd + 1 + sd - 1) / sd) m n s in
    let off := zip2 (fun md nd => if full then 0 else Z.min md nd - 1) m n in
    exists y,
      convolve (b ++ [ci] ++ m) ([co; ci] ++ n) full st true data filt = Ok (b ++ [co] ++ P, y) /\
      forall bi c p, inbox b bi -> 0 <= c < co -> inbox P p ->
        y (bi ++ [c] ++ p) =
        sumZ ci (fun i => sumB n (fun t =>
          let src := vsub (vadd (vmul p s) off) t in
          mul (if inboxb m src then data (bi ++ [i] ++ src) else zero) (filt ([c; i] ++ t)))).
Proof.
  intros R b ci co m n s full st Hb Hci Hco Hne Ln Ls Hm Hn Hs Hv Hst data filt.
  exact (convolve_nd_mc R b m n s full st Hb Hne Ln Ls Hm Hn Hs Hv Hst ci co Hci Hco data filt).
Qed.
Print Assumptions C08_ND_convolve_is_the_convolution_sum.

(* multi_channel = True: all three functions return Ok with the requested shapes, and
   <convolve(x, f), y> = <x, convolve_data_adjoint(y, f)> = <f, convolve_filter_adjoint(y, x)>  for all x, f, y *)
Theorem C08_ND_adjoints_exact :
  forall (R : StarRing) (b : list Z) (ci co : Z) (m n s : list Z) (full : bool) (st : option (list Z)),
    Forall (fun k => 0 < k) b -> 0 < ci -> 0 < co ->
    m <> [] -> length n = length m -> length s = length m ->
    Forall (fun k => 0 < k) m -> Forall (fun k => 0 < k) n -> Forall (fun k => 0 < k) s ->
    (full = false -> Forall2 Z.le n m) ->
    (st = Some s \/ (st = None /\ s = repeat 1 (length m))) ->
    let P := zip3 (fun md nd sd => if full then (md + nd - 1 + sd - 1) / sd else (md - nd + 1 + sd - 1) / sd) m n s in
    exists A AHd AHf : (list Z -> R) -> (list Z -> R) -> (list Z -> R),
      (forall x f, convolve (b ++ [ci] ++ m) ([co; ci] ++ n) full st true x f = Ok (b ++ [co] ++ P, A x f)) /\
      (forall y f, convolve_data_adjoint (b ++ [co] ++ P) ([co; ci] ++ n) (b ++ [ci] ++ m) full st true y f
                   = Ok (b ++ [ci] ++ m, AHd y f)) /\
      (forall y x, convolve_filter_adjoint (b ++ [co] ++ P) (b ++ [ci] ++ m) ([co; ci] ++ n) full st true y x
                   = Ok ([co; ci] ++ n, AHf y x)) /\
      (forall x f y, inner (b ++ [co] ++ P) (A x f) y = inner (b ++ [ci] ++ m) x (AHd y f)) /\
      (forall x f y, inner (b ++ [co] ++ P) (A x f) y = inner ([co; ci] ++ n) f (AHf y x)).
Proof.
  intros R b ci co m n s full st Hb Hci Hco Hne Ln Ls Hm Hn Hs Hv Hst.
  exact (adjoints_nd_mc R b m n s full st Hb Hne Ln Ls Hm Hn Hs Hv Hst ci co Hci Hco).
Qed.
Print Assumptions C08_ND_adjoints_exact.

(* multi_channel = False (no channel axes):  out[b, p] = sum_{t in box n} data0[b, p*s + off - t] * filt[t] *)
Theorem C08_ND_single_channel_convolve_is_the_convolution_sum :
  forall (R : StarRing) (b m n s : list Z) (full : bool) (st : option (list Z)),
    Forall (fun k => 0 < k) b ->
    m <> [] -> length n = length m -> length s = length m ->
    Forall (fun k => 0 < k) m -> Forall (fun k => 0 < k) n -> Forall (fun k => 0 < k) s ->
    (full = false -> Forall2 Z.le n m) ->
    (st = Some s \/ (st = None /\ s = repeat 1 (length m))) ->
    forall data filt : list Z -> R,
    let P := zip3 (fun md nd sd => if full then (md + nd - 1 + sd - 1) / sd else (md - nd + 1 + sd - 1) / sd) m n s in
    let off := zip2 (fun md nd => if full then 0 else Z.min md nd - 1) m n in
    exists y,
      convolve (b ++ m) n full st false data filt = Ok (b ++ P, y) /\
      forall bi p, inbox b bi -> inbox P p ->
        y (bi ++ p) =
        sumB n (fun t =>
          let src := vsub (vadd (vmul p s) off) t in
          mul (if inboxb m src then data (bi ++ src) else zero) (filt t)).
Proof.
  intros R b m n s full st Hb Hne Ln Ls Hm Hn Hs Hv Hst data filt.
  exact (convolve_nd_sc R b m n s full st Hb Hne Ln Ls Hm Hn Hs Hv Hst data filt).
Qed.
Print Assumptions C08_ND_single_channel_convolve_is_the_convolution_sum.

Theorem C08_ND_single_channel_adjoints_exact :
  forall (R : StarRing) (b m n s : list Z) (full : bool) (st : option (list Z)),
    Forall (fun k => 0 < k) b ->
    m <> [] -> length n = length m -> length s = length m ->
    Forall (fun k => 0 < k) m -> Forall (fun k => 0 < k) n -> Forall (fun k => 0 < k) s ->
    (full = false -> Forall2 Z.le n m) ->
    (st = Some s \/ (st = None /\ s = repeat 1 (length m))) ->
    let P := zip3 (fun md nd sd => if full then (md + nd - 1 + sd - 1) / sd else (md - nd + 1 + sd - 1) / sd) m n s in
    exists A AHd AHf : (list Z -> R) -> (list Z -> R) -> (list Z -> R),
      (forall x f, convolve (b ++ m) n full st false x f = Ok (b ++ P, A x f)) /\
      (forall y f, convolve_data_adjoint (b ++ P) n (b ++ m) full st false y f = Ok (b ++ m, AHd y f)) /\
      (forall y x, convolve_filter_adjoint (b ++ P) (b ++ m) n full st false y x = Ok (n, AHf y x)) /\
      (forall x f y, inner (b ++ P) (A x f) y = inner (b ++ m) x (AHd y f)) /\
      (forall x f y, inner (b ++ P) (A x f) y = inner n f (AHf y x)).
Proof.
  intros R b m n s full st Hb Hne Ln Ls Hm Hn Hs Hv Hst.
  exact (adjoints_nd_sc R b m n s full st Hb Hne Ln Ls Hm Hn Hs Hv Hst).
Qed.
Print Assumptions C08_ND_single_channel_adjoints_exact.

(* ---- the instances D = 1 (multi_channel = False), D = 2, D = 3 (both conventions) in scalar form ---- *)
Theorem C08_1D_single_channel_convolve_is_the_convolution_sum :
  forall (R : StarRing) (b : list Z) (full : bool), Forall (fun k => 0 < k) b ->
  forall m n s, 0 < m -> 0 < n -> 0 < s -> (full = false -> n <= m) ->
    forall data filt : list Z -> R,
    let P := if full then (m + n - 1 + s - 1) / s else (m - n + 1 + s - 1) / s in
    let off := if full then 0 else Z.min m n - 1 in
    exists y,
      convolve (b ++ [m]) [n] full (Some [s]) false data filt = Ok (b ++ [P], y) /\
      forall bi p, inbox b bi -> 0 <= p < P ->
        y (bi ++ [p]) =
        sumZ n (fun t =>
          mul (if (0 <=? p * s + off - t) && (p * s + off - t <? m) then data (bi ++ [p * s + off - t]) else zero)
              (filt [t])).
Proof. exact convolve_1d_sc. Qed.
Print Assumptions C08_1D_single_channel_convolve_is_the_convolution_sum.

Theorem C08_1D_single_channel_adjoints_exact :
  forall (R : StarRing) (b : list Z) (full : bool), Forall (fun k => 0 < k) b ->
  forall m n s, 0 < m -> 0 < n -> 0 < s -> (full = false -> n <= m) ->
    let P := if full then (m + n - 1 + s - 1) / s else (m - n + 1 + s - 1) / s in
    exists A AHd AHf : (list Z -> R) -> (list Z -> R) -> (list Z -> R),
      (forall x f, convolve (b ++ [m]) [n] full (Some [s]) false x f = Ok (b ++ [P], A x f)) /\
      (forall y f, convolve_data_adjoint (b ++ [P]) [n] (b ++ [m]) full (Some [s]) false y f = Ok (b ++ [m], AHd y f)) /\
      (forall y x, convolve_filter_adjoint (b ++ [P]) (b ++ [m]) [n] full (Some [s]) false y x = Ok ([n], AHf y x)) /\
      (forall x f y, inner (b ++ [P]) (A x f) y = inner (b ++ [m]) x (AHd y f)) /\
      (forall x f y, inner (b ++ [P]) (A x f) y = inner [n] f (AHf y x)).
Proof. exact adjoints_1d_sc. Qed.
Print Assumptions C08_1D_single_channel_adjoints_exact.

Theorem C08_2D_convolve_is_the_convolution_sum :
  forall (R : StarRing) (b : list Z) (full : bool), Forall (fun k => 0 < k) b ->
  forall m1 m2 n1 n2 s1 s2, 0 < m1 -> 0 < m2 -> 0 < n1 -> 0 < n2 -> 0 < s1 -> 0 < s2 ->
    (full = false -> n1 <= m1 /\ n2 <= m2) ->
  forall ci co, 0 < ci -> 0 < co -> forall data filt : list Z -> R,
    exists y,
      convolve (b ++ [ci; m1; m2]) [co; ci; n1; n2] full (Some [s1; s2]) true data filt =
        Ok (b ++ [co; if full then (m1 + n1 - 1 + s1 - 1) / s1 else (m1 - n1 + 1 + s1 - 1) / s1;
                      if full then (m2 + n2 - 1 + s2 - 1) / s2 else (m2 - n2 + 1 + s2 - 1) / s2], y) /\
      forall bi c p1 p2, inbox b bi -> 0 <= c < co ->
        0 <= p1 < (if full then (m1 + n1 - 1 + s1 - 1) / s1 else (m1 - n1 + 1 + s1 - 1) / s1) ->
        0 <= p2 < (if full then (m2 + n2 - 1 + s2 - 1) / s2 else (m2 - n2 + 1 + s2 - 1) / s2) ->
        y (bi ++ [c; p1; p2]) =
        sumZ ci (fun i => sumZ n1 (fun t1 => sumZ n2 (fun t2 =>
          let e1 := p1 * s1 + (if full then 0 else Z.min m1 n1 - 1) - t1 in
          let e2 := p2 * s2 + (if full then 0 else Z.min m2 n2 - 1) - t2 in
          mul (if (0 <=? e1) && (e1 <? m1) && ((0 <=? e2) && (e2 <? m2)) then data (bi ++ [i; e1; e2]) else zero)
              (filt [c; i; t1; t2])))).
Proof. exact convolve_2d_mc. Qed.
Print Assumptions C08_2D_convolve_is_the_convolution_sum.

Theorem C08_2D_single_channel_convolve_is_the_convolution_sum :
  forall (R : StarRing) (b : list Z) (full : bool), Forall (fun k => 0 < k) b ->
  forall m1 m2 n1 n2 s1 s2, 0 < m1 -> 0 < m2 -> 0 < n1 -> 0 < n2 -> 0 < s1 -> 0 < s2 ->
    (full = false -> n1 <= m1 /\ n2 <= m2) ->
  forall data filt : list Z -> R,
    exists y,
      convolve (b ++ [m1; m2]) [n1; n2] full (Some [s1; s2]) false data filt =
        Ok (b ++ [if full then (m1 + n1 - 1 + s1 - 1) / s1 else (m1 - n1 + 1 + s1 - 1) / s1;
                  if full then (m2 + n2 - 1 + s2 - 1) / s2 else (m2 - n2 + 1 + s2 - 1) / s2], y) /\
      forall bi p1 p2, inbox b bi ->
        0 <= p1 < (if full then (m1 + n1 - 1 + s1 - 1) / s1 else (m1 - n1 + 1 + s1 - 1) / s1) ->
        0 <= p2 < (if full then (m2 + n2 - 1 + s2 - 1) / s2 else (m2 - n2 + 1 + s2 - 1) / s2) ->
        y (bi ++ [p1; p2]) =
        sumZ n1 (fun t1 => sumZ n2 (fun t2 =>
          let e1 := p1 * s1 + (if full then 0 else Z.min m1 n1 - 1) - t1 in
          let e2 := p2 * s2 + (if full then 0 else Z.min m2 n2 - 1) - t2 in
          mul (if (0 <=? e1) && (e1 <? m1) && ((0 <=? e2) && (e2 <? m2)) then data (bi ++ [e1; e2]) else zero)
              (filt [t1; t2]))).
Proof. exact convolve_2d_sc. Qed.
Print Assumptions C08_2D_single_channel_convolve_is_the_convolution_sum.

Theorem C08_2D_adjoints_exact :
  forall (R : StarRing) (b : list Z) (full : bool), Forall (fun k => 0 < k) b ->
  forall m1 m2 n1 n2 s1 s2, 0 < m1 -> 0 < m2 -> 0 < n1 -> 0 < n2 -> 0 < s1 -> 0 < s2 ->
    (full = false -> n1 <= m1 /\ n2 <= m2) ->
  forall ci co, 0 < ci -> 0 < co ->
    let P1 := if full then (m1 + n1 - 1 + s1 - 1) / s1 else (m1 - n1 + 1 + s1 - 1) / s1 in
    let P2 := if full then (m2 + n2 - 1 + s2 - 1) / s2 else (m2 - n2 + 1 + s2 - 1) / s2 in
    exists A AHd AHf : (list Z -> R) -> (list Z -> R) -> (list Z -> R),
      (forall x f, convolve (b ++ [ci; m1; m2]) [co; ci; n1; n2] full (Some [s1; s2]) true x f
                   = Ok (b ++ [co; P1; P2], A x f)) /\
      (forall y f, convolve_data_adjoint (b ++ [co; P1; P2]) [co; ci; n1; n2] (b ++ [ci; m1; m2]) full
                     (Some [s1; s2]) true y f = Ok (b ++ [ci; m1; m2], AHd y f)) /\
      (forall y x, convolve_filter_adjoint (b ++ [co; P1; P2]) (b ++ [ci; m1; m2]) [co; ci; n1; n2] full
                     (Some [s1; s2]) true y x = Ok ([co; ci; n1; n2], AHf y x)) /\
      (forall x f y, inner (b ++ [co; P1; P2]) (A x f) y = inner (b ++ [ci; m1; m2]) x (AHd y f)) /\
      (forall x f y, inner (b ++ [co; P1; P2]) (A x f) y = inner [co; ci; n1; n2] f (AHf y x)).
Proof. exact adjoints_2d_mc. Qed.
Print Assumptions C08_2D_adjoints_exact.

Theorem C08_2D_single_channel_adjoints_exact :
  forall (R : StarRing) (b : list Z) (full : bool), Forall (fun k => 0 < k) b ->
  forall m1 m2 n1 n2 s1 s2, 0 < m1 -> 0 < m2 -> 0 < n1 -> 0 < n2 -> 0 < s1 -> 0 < s2 ->
    (full = false -> n1 <= m1 /\ n2 <= m2) ->
    let P1 := if full then (m1 + n1 - 1 + s1 - 1) / s1 else (m1 - n1 + 1 + s1 - 1) / s1 in
    let P2 := if full then (m2 + n2 - 1 + s2 - 1) / s2 else (m2 - n2 + 1 + s2 - 1) / s2 in
    exists A AHd AHf : (list Z -> R) -> (list Z -> R) -> (list Z -> R),
      (forall x f, convolve (b ++ [m1; m2]) [n1; n2] full (Some [s1; s2]) false x f = Ok (b ++ [P1; P2], A x f)) /\
      (forall y f, convolve_data_adjoint (b ++ [P1; P2]) [n1; n2] (b ++ [m1; m2]) full (Some [s1; s2]) false y f
                   = Ok (b ++ [m1; m2], AHd y f)) /\
      (forall y x, convolve_filter_adjoint (b ++ [P1; P2]) (b ++ [m1; m2]) [n1; n2] full (Some [s1; s2]) false y x
                   = Ok ([n1; n2], AHf y x)) /\
      (forall x f y, inner (b ++ [P1; P2]) (A x f) y = inner (b ++ [m1; m2]) x (AHd y f)) /\
      (forall x f y, inner (b ++ [P1; P2]) (A x f) y = inner [n1; n2] f (AHf y x)).
Proof. exact adjoints_2d_sc. Qed.
Print Assumptions C08_2D_single_channel_adjoints_exact.

Theorem C08_3D_convolve_is_the_convolution_sum :
  forall (R : StarRing) (b : list Z) (full : bool), Forall (fun k => 0 < k) b ->
  forall m1 m2 m3 n1 n2 n3 s1 s2 s3,
    0 < m1 -> 0 < m2 -> 0 < m3 -> 0 < n1 -> 0 < n2 -> 0 < n3 -> 0 < s1 -> 0 < s2 -> 0 < s3 ->
    (full = false -> n1 <= m1 /\ n2 <= m2 /\ n3 <= m3) ->
  forall ci co, 0 < ci -> 0 < co -> forall data filt : list Z -> R,
    exists y,
      convolve (b ++ [ci; m1; m2; m3]) [co; ci; n1; n2; n3] full (Some [s1; s2; s3]) true data filt =
        Ok (b ++ [co; if full then (m1 + n1 - 1 + s1 - 1) / s1 else (m1 - n1 + 1 + s1 - 1) / s1;
                      if full then (m2 + n2 - 1 + s2 - 1) / s2 else (m2 - n2 + 1 + s2 - 1) / s2;
                      if full then (m3 + n3 - 1 + s3 - 1) / s3 else (m3 - n3 + 1 + s3 - 1) / s3], y) /\
      forall bi c p1 p2 p3, inbox b bi -> 0 <= c < co ->
        0 <= p1 < (if full then (m1 + n1 - 1 + s1 - 1) / s1 else (m1 - n1 + 1 + s1 - 1) / s1) ->
        0 <= p2 < (if full then (m2 + n2 - 1 + s2 - 1) / s2 else (m2 - n2 + 1 + s2 - 1) / s2) ->
        0 <= p3 < (if full then (m3 + n3 - 1 + s3 - 1) / s3 else (m3 - n3 + 1 + s3 - 1) / s3) ->
        y (bi ++ [c; p1; p2; p3]) =
        sumZ ci (fun i => sumZ n1 (fun t1 => sumZ n2 (fun t2 => sumZ n3 (fun t3 =>
          let e1 := p1 * s1 + (if full then 0 else Z.min m1 n1 - 1) - t1 in
          let e2 := p2 * s2 + (if full then 0 else Z.min m2 n2 - 1) - t2 in
          let e3 := p3 * s3 + (if full then 0 else Z.min m3 n3 - 1) - t3 in
          mul (if (0 <=? e1) && (e1 <? m1) && ((0 <=? e2) && (e2 <? m2) && ((0 <=? e3) && (e3 <? m3)))
               then data (bi ++ [i; e1; e2; e3]) else zero)
              (filt [c; i; t1; t2; t3]))))).
Proof. exact convolve_3d_mc. Qed.
Print Assumptions C08_3D_convolve_is_the_convolution_sum.

Theorem C08_3D_single_channel_convolve_is_the_convolution_sum :
  forall (R : StarRing) (b : list Z) (full : bool), Forall (fun k => 0 < k) b ->
  forall m1 m2 m3 n1 n2 n3 s1 s2 s3,
    0 < m1 -> 0 < m2 -> 0 < m3 -> 0 < n1 -> 0 < n2 -> 0 < n3 -> 0 < s1 -> 0 < s2 -> 0 < s3 ->
    (full = false -> n1 <= m1 /\ n2 <= m2 /\ n3 <= m3) ->
  forall data filt : list Z -> R,
    exists y,
      convolve (b ++ [m1; m2; m3]) [n1; n2; n3] full (Some [s1; s2; s3]) false data filt =
        Ok (b ++ [if full then (m1 + n1 - 1 + s1 - 1) / s1 else (m1 - n1 + 1 + s1 - 1) / s1;
                  if full then (m2 + n2 - 1 + s2 - 1) / s2 else (m2 - n2 + 1 + s2 - 1) / s2;
                  if full then (m3 + n3 - 1 + s3 - 1) / s3 else (m3 - n3 + 1 + s3 - 1) / s3], y) /\
      forall bi p1 p2 p3, inbox b bi ->
        0 <= p1 < (if full then (m1 + n1 - 1 + s1 - 1) / s1 else (m1 - n1 + 1 + s1 - 1) / s1) ->
        0 <= p2 < (if full then (m2 + n2 - 1 + s2 - 1) / s2 else (m2 - n2 + 1 + s2 - 1) / s2) ->
        0 <= p3 < (if full then (m3 + n3 - 1 + s3 - 1) / s3 else (m3 - n3 + 1 + s3 - 1) / s3) ->
        y (bi ++ [p1; p2; p3]) =
        sumZ n1 (fun t1 => sumZ n2 (fun t2 => sumZ n3 (fun t3 =>
          let e1 := p1 * s1 + (if full then 0 else Z.min m1 n1 - 1) - t1 in
          let e2 := p2 * s2 + (if full then 0 else Z.min m2 n2 - 1) - t2 in
          let e3 := p3 * s3 + (if full then 0 else Z.min m3 n3 - 1) - t3 in
          mul (if (0 <=? e1) && (e1 <? m1) && ((0 <=? e2) && (e2 <? m2) && ((0 <=? e3) && (e3 <? m3)))
               then data (bi ++ [e1; e2; e3]) else zero)
              (filt [t1; t2; t3])))).
Proof. exact convolve_3d_sc. Qed.
Print Assumptions C08_3D_single_channel_convolve_is_the_convolution_sum.

Theorem C08_3D_adjoints_exact :
  forall (R : StarRing) (b : list Z) (full : bool), Forall (fun k => 0 < k) b ->
  forall m1 m2 m3 n1 n2 n3 s1 s2 s3,
    0 < m1 -> 0 < m2 -> 0 < m3 -> 0 < n1 -> 0 < n2 -> 0 < n3 -> 0 < s1 -> 0 < s2 -> 0 < s3 ->
    (full = false -> n1 <= m1 /\ n2 <= m2 /\ n3 <= m3) ->
  forall ci co, 0 < ci -> 0 < co ->
    let P1 := if full then (m1 + n1 - 1 + s1 - 1) / s1 else (m1 - n1 + 1 + s1 - 1) / s1 in
    let P2 := if full then (m2 + n2 - 1 + s2 - 1) / s2 else (m2 - n2 + 1 + s2 - 1) / s2 in
    let P3 := if full then (m3 + n3 - 1 + s3 - 1) / s3 else (m3 - n3 + 1 + s3 - 1) / s3 in
    exists A AHd AHf : (list Z -> R) -> (list Z -> R) -> (list Z -> R),
      (forall x f, convolve (b ++ [ci; m1; m2; m3]) [co; ci; n1; n2; n3] full (Some [s1; s2; s3]) true x f
                   = Ok (b ++ [co; P1; P2; P3], A x f)) /\
      (forall y f, convolve_data_adjoint (b ++ [co; P1; P2; P3]) [co; ci; n1; n2; n3] (b ++ [ci; m1; m2; m3]) full
                     (Some [s1; s2; s3]) true y f = Ok (b ++ [ci; m1; m2; m3], AHd y f)) /\
      (forall y x, convolve_filter_adjoint (b ++ [co; P1; P2; P3]) (b ++ [ci; m1; m2; m3]) [co; ci; n1; n2; n3] full
                     (Some [s1; s2; s3]) true y x = Ok ([co; ci; n1; n2; n3], AHf y x)) /\
      (forall x f y, inner (b ++ [co; P1; P2; P3]) (A x f) y = inner (b ++ [ci; m1; m2; m3]) x (AHd y f)) /\
      (forall x f y, inner (b ++ [co; P1; P2; P3]) (A x f) y = inner [co; ci; n1; n2; n3] f (AHf y x)).
Proof. exact adjoints_3d_mc. Qed.
Print Assumptions C08_3D_adjoints_exact.

Theorem C08_3D_single_channel_adjoints_exact :
  forall (R : StarRing) (b : list Z) (full : bool), Forall (fun k => 0 < k) b ->
  forall m1 m2 m3 n1 n2 n3 s1 s2 s3,
    0 < m1 -> 0 < m2 -> 0 < m3 -> 0 < n1 -> 0 < n2 -> 0 < n3 -> 0 < s1 -> 0 < s2 -> 0 < s3 ->
    (full = false -> n1 <= m1 /\ n2 <= m2 /\ n3 <= m3) ->
    let P1 := if full then (m1 + n1 - 1 + s1 - 1) / s1 else (m1 - n1 + 1 + s1 - 1) / s1 in
    let P2 := if full then (m2 + n2 - 1 + s2 - 1) / s2 else (m2 - n2 + 1 + s2 - 1) / s2 in
    let P3 := if full then (m3 + n3 - 1 + s3 - 1) / s3 else (m3 - n3 + 1 + s3 - 1) / s3 in
    exists A AHd AHf : (list Z -> R) -> (list Z -> R) -> (list Z -> R),
      (forall x f, convolve (b ++ [m1; m2; m3]) [n1; n2; n3] full (Some [s1; s2; s3]) false x f
                   = Ok (b ++ [P1; P2; P3], A x f)) /\
      (forall y f, convolve_data_adjoint (b ++ [P1; P2; P3]) [n1; n2; n3] (b ++ [m1; m2; m3]) full
                     (Some [s1; s2; s3]) false y f = Ok (b ++ [m1; m2; m3], AHd y f)) /\
      (forall y x, convolve_filter_adjoint (b ++ [P1; P2; P3]) (b ++ [m1; m2; m3]) [n1; n2; n3] full
                     (Some [s1; s2; s3]) false y x = Ok ([n1; n2; n3], AHf y x)) /\
      (forall x f y, inner (b ++ [P1; P2; P3]) (A x f) y = inner (b ++ [m1; m2; m3]) x (AHd y f)) /\
      (forall x f y, inner (b ++ [P1; P2; P3]) (A x f) y = inner [n1; n2; n3] f (AHf y x)).
Proof. exact adjoints_3d_sc. Qed.
Print Assumptions C08_3D_single_channel_adjoints_exact.

(* the hypotheses are satisfiable and the model computes in 2-D (Gaussian integers, multi_channel = False):
   data [[1, 2, 3+i, 4], [5, 6, 7, 8]], filter [[1, i], [2, -1]];
   'valid', strides (1, 2): [[9+5i, 13+6i]];   'full', strides (2, 2): [[1, 3+3i, 4i], [10, 8, -8]]   (= sigpy) *)
Example C08_ND_hypotheses_satisfiable :
  let data := fun idx : list Z =>
    nth (Z.to_nat (nth 0 idx 0 * 4 + nth 1 idx 0)) [(1, 0); (2, 0); (3, 1); (4, 0); (5, 0); (6, 0); (7, 0); (8, 0)] (0, 0) in
  let filt := fun idx : list Z => nth (Z.to_nat (nth 0 idx 0 * 2 + nth 1 idx 0)) [(1, 0); (0, 1); (2, 0); (-1, 0)] (0, 0) in
  (match convolve (R:=GOps) [2; 4] [2; 2] false (Some [1; 2]) false data filt with
   | Ok (sh, y) => (sh, map y [[0; 0]; [0; 1]])
   | Err _ => ([], [])
   end = ([1; 2], [(9, 5); (13, 6)])) /\
  (match convolve (R:=GOps) [2; 4] [2; 2] true (Some [2; 2]) false data filt with
   | Ok (sh, y) => (sh, map y [[0; 0]; [0; 1]; [0; 2]; [1; 0]; [1; 1]; [1; 2]])
   | Err _ => ([], [])
   end = ([2; 3], [(1, 0); (3, 3); (0, 4); (10, 0); (8, 0); (-8, 0)])).
Proof. vm_compute. split; reflexivity. Qed.

(* ---- rejection, any D, both conventions: 'valid' mode with the filter longer than the data on some axis.
   Either another axis has m_d >= n_d (mixed: _get_convolve_params raises, E_conv) or the filter is longer on every
   axis and some output length (m_d - n_d + 1 + s_d - 1) / s_d is non-positive (E_nonpos). ---- *)
Theorem C08_ND_reject_valid_longer_filter :
  forall (R : Ops) (b m n s : list Z) (st : option (list Z)),
    m <> [] -> length n = length m -> length s = length m -> Forall (fun k => 0 < k) s ->
    (st = Some s \/ (st = None /\ s = repeat 1 (length m))) ->
    existsb (fun p => fst p <? snd p) (combine m n) = true ->
    let e := if existsb (fun p => snd p <=? fst p) (combine m n) then E_conv else E_nonpos in
    forall ci co,
    (forall d f : list Z -> R, convolve (b ++ [ci] ++ m) ([co; ci] ++ n) false st true d f = Err e) /\
    (forall osh (y f : list Z -> R),
       convolve_data_adjoint osh ([co; ci] ++ n) (b ++ [ci] ++ m) false st true y f = Err e) /\
    (forall osh (y d : list Z -> R),
       convolve_filter_adjoint osh (b ++ [ci] ++ m) ([co; ci] ++ n) false st true y d = Err e).
Proof. exact valid_longer_filter_nd_mc. Qed.
Print Assumptions C08_ND_reject_valid_longer_filter.

Theorem C08_ND_single_channel_reject_valid_longer_filter :
  forall (R : Ops) (b m n s : list Z) (st : option (list Z)),
    m <> [] -> length n = length m -> length s = length m -> Forall (fun k => 0 < k) s ->
    (st = Some s \/ (st = None /\ s = repeat 1 (length m))) ->
    existsb (fun p => fst p <? snd p) (combine m n) = true ->
    let e := if existsb (fun p => snd p <=? fst p) (combine m n) then E_conv else E_nonpos in
    (forall d f : list Z -> R, convolve (b ++ m) n false st false d f = Err e) /\
    (forall osh (y f : list Z -> R), convolve_data_adjoint osh n (b ++ m) false st false y f = Err e) /\
    (forall osh (y d : list Z -> R), convolve_filter_adjoint osh (b ++ m) n false st false y d = Err e).
Proof. exact valid_longer_filter_nd_sc. Qed.
Print Assumptions C08_ND_single_channel_reject_valid_longer_filter.
