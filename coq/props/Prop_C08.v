(* Prop_C08 — convolution (statements only). *)
From Coq Require Import ZArith List Bool.
From SV Require Import lib.Scalar lib.BigSum lib.LoopIR lib.NdArray model.Rearrange model.Block model.Linop model.Conv
  proofs.ConvReject.
Import ListNotations.
Local Open Scope Z_scope.

Theorem C08_reject_bad_stride_length :
  forall (R : Ops) dsh fsh full s mc, length s <> cv_D fsh mc ->
    (forall d f : list Z -> R, convolve dsh fsh full (Some s) mc d f = Err E_conv) /\
    (forall osh (y f : list Z -> R), convolve_data_adjoint osh fsh dsh full (Some s) mc y f = Err E_conv) /\
    (forall osh (y d : list Z -> R), convolve_filter_adjoint osh dsh fsh full (Some s) mc y d = Err E_conv).
Proof. intros R dsh fsh full s mc H. apply params_err_all, params_bad_strides, H. Qed.
Print Assumptions C08_reject_bad_stride_length.
