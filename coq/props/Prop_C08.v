(* Prop_C08 — convolve matches the convolution definition; convolve_data_adjoint / convolve_filter_adjoint
   are its exact adjoints; inadmissible shapes are rejected (statements only).

   The statements are about the model coq/model/Conv.v of sigpy.conv (tied to /repo by the exact C08
   correspondence), with scipy.signal.convolve / correlate replaced by their recorded specifications
   (sp_shape, sp_convolve_val, sp_correlate_val in model/Conv.v), over an ARBITRARY commutative *-ring.
   Core: one spatial axis, arbitrary batch shape b, c_i input and c_o output channels (multi_channel=True),
   any stride s >= 1, both modes.  D = 2, 3 and multi_channel=False are covered by the correspondence only. *)
From Coq Require Import ZArith List Bool.
From SV Require Import lib.Scalar lib.BigSum lib.LoopIR lib.NdArray model.Rearrange model.Block model.Linop model.Conv
  proofs.ConvReject proofs.Conv1D.
Import ListNotations.
Local Open Scope Z_scope.

(* out[b, c, p] = sum_i sum_t data[b, i, s p - t + off] * filt[c, i, t]   (data zero outside [0, m)),
   off = 0 ('full') / min(m, n) - 1 ('valid'); output length (m+n-1+s-1)//s resp. (m-n+1+s-1)//s *)
Theorem C08_convolve_is_the_convolution_sum :
  forall (R : StarRing) (b : list Z) (ci co m n s : Z) (full : bool),
    Forall (fun k => 0 < k) b -> 0 < ci -> 0 < co -> 0 < m -> 0 < n -> 0 < s -> (full = false -> n <= m) ->
    forall data filt : list Z -> R,
    let P := if full then (m + n - 1 + s - 1) / s else (m - n + 1 + s - 1) / s in
    let off := if full then 0 else Z.min m n - 1 in
    exists y,
      convolve (b ++ [ci; m]) [co; ci; n] full (Some [s]) true data filt = Ok (b ++ [co; P], y) /\
      forall bi c p, inbox b bi -> 0 <= c < co -> 0 <= p < P ->
        y (bi ++ [c; p]) =
        sumZ ci (fun i => sumZ n (fun t =>
          mul (if (0 <=? p * s + off - t) && (p * s + off - t <? m) then data (bi ++ [i; p * s + off - t]) else zero)
              (filt [c; i; t]))).
Proof.
  intros R b ci co m n s full Hb Hci Hco Hm Hn Hs Hv data filt P off.
  eexists. split.
  - exact (convolve_1d_eval R b ci co m n s full Hm Hn Hs Hv data filt).
  - intros bi c p Hbi Hc Hp. exact (conv_1d_value R b ci co m n s full Hb Hci Hco Hm Hn Hs Hv data filt bi c p Hbi Hc Hp).
Qed.
Print Assumptions C08_convolve_is_the_convolution_sum.

(* <convolve(x, filt), y> = <x, convolve_data_adjoint(y, filt)> for all x, y, and the adjoint returns the data shape *)
Theorem C08_data_adjoint_exact :
  forall (R : StarRing) (b : list Z) (ci co m n s : Z) (full : bool),
    Forall (fun k => 0 < k) b -> 0 < ci -> 0 < co -> 0 < m -> 0 < n -> 0 < s -> (full = false -> n <= m) ->
    forall filt : list Z -> R,
    let P := if full then (m + n - 1 + s - 1) / s else (m - n + 1 + s - 1) / s in
    exists A AH : (list Z -> R) -> (list Z -> R),
      (forall x, convolve (b ++ [ci; m]) [co; ci; n] full (Some [s]) true x filt = Ok (b ++ [co; P], A x)) /\
      (forall y, convolve_data_adjoint (b ++ [co; P]) [co; ci; n] (b ++ [ci; m]) full (Some [s]) true y filt
                 = Ok (b ++ [ci; m], AH y)) /\
      forall x y, inner (b ++ [co; P]) (A x) y = inner (b ++ [ci; m]) x (AH y).
Proof.
  intros R b ci co m n s full Hb Hci Hco Hm Hn Hs Hv filt P.
  eexists. eexists. split; [|split].
  - intros x. exact (convolve_1d_eval R b ci co m n s full Hm Hn Hs Hv x filt).
  - intros y. exact (data_adjoint_1d_eval R b ci co m n s full Hm Hn Hs Hv y filt).
  - intros x y. exact (data_adjoint_1d R b ci co m n s full Hb Hci Hco Hm Hn Hs Hv filt x y).
Qed.
Print Assumptions C08_data_adjoint_exact.

(* <convolve(data, f), y> = <f, convolve_filter_adjoint(y, data)> for all f, y, and the adjoint returns the filter shape *)
Theorem C08_filter_adjoint_exact :
  forall (R : StarRing) (b : list Z) (ci co m n s : Z) (full : bool),
    Forall (fun k => 0 < k) b -> 0 < ci -> 0 < co -> 0 < m -> 0 < n -> 0 < s -> (full = false -> n <= m) ->
    forall data : list Z -> R,
    let P := if full then (m + n - 1 + s - 1) / s else (m - n + 1 + s - 1) / s in
    exists A AH : (list Z -> R) -> (list Z -> R),
      (forall f, convolve (b ++ [ci; m]) [co; ci; n] full (Some [s]) true data f = Ok (b ++ [co; P], A f)) /\
      (forall y, convolve_filter_adjoint (b ++ [co; P]) (b ++ [ci; m]) [co; ci; n] full (Some [s]) true y data
                 = Ok ([co; ci; n], AH y)) /\
      forall f y, inner (b ++ [co; P]) (A f) y = inner [co; ci; n] f (AH y).
Proof.
  intros R b ci co m n s full Hb Hci Hco Hm Hn Hs Hv data P.
  eexists. eexists. split; [|split].
  - intros f. exact (convolve_1d_eval R b ci co m n s full Hm Hn Hs Hv data f).
  - intros y. exact (filter_adjoint_1d_eval R b ci co m n s full Hm Hn Hs Hv y data).
  - intros f y. exact (filter_adjoint_1d R b ci co m n s full Hb Hci Hco Hm Hn Hs Hv data f y).
Qed.
Print Assumptions C08_filter_adjoint_exact.

(* ---- rejection (any number of dimensions) ---- *)
Theorem C08_reject_bad_stride_length :
  forall (R : Ops) dsh fsh full s mc, length s <> cv_D fsh mc ->
    (forall d f : list Z -> R, convolve dsh fsh full (Some s) mc d f = Err E_conv) /\
    (forall osh (y f : list Z -> R), convolve_data_adjoint osh fsh dsh full (Some s) mc y f = Err E_conv) /\
    (forall osh (y d : list Z -> R), convolve_filter_adjoint osh dsh fsh full (Some s) mc y d = Err E_conv).
Proof. intros R dsh fsh full s mc H. apply params_err_all, params_bad_strides, H. Qed.
Print Assumptions C08_reject_bad_stride_length.

Theorem C08_reject_channel_mismatch :
  forall (R : Ops) dsh fsh full st,
    pyget fsh (- Z.of_nat (cv_D fsh true) - 1) <> pyget dsh (- Z.of_nat (cv_D fsh true) - 1) ->
    (forall d f : list Z -> R, convolve dsh fsh full st true d f = Err E_conv) /\
    (forall osh (y f : list Z -> R), convolve_data_adjoint osh fsh dsh full st true y f = Err E_conv) /\
    (forall osh (y d : list Z -> R), convolve_filter_adjoint osh dsh fsh full st true y d = Err E_conv).
Proof. intros R dsh fsh full st H. apply params_err_all, params_channel_mismatch, H. Qed.
Print Assumptions C08_reject_channel_mismatch.

(* valid mode with m_d >= n_d on one axis and m_d < n_d on another *)
Theorem C08_reject_mixed_valid_axes :
  forall (R : Ops) dsh fsh st mc,
    existsb (fun p => snd p <=? fst p) (combine (lastn (cv_D fsh mc) dsh) (lastn (cv_D fsh mc) fsh)) = true ->
    existsb (fun p => fst p <? snd p) (combine (lastn (cv_D fsh mc) dsh) (lastn (cv_D fsh mc) fsh)) = true ->
    (forall d f : list Z -> R, convolve dsh fsh false st mc d f = Err E_conv) /\
    (forall osh (y f : list Z -> R), convolve_data_adjoint osh fsh dsh false st mc y f = Err E_conv) /\
    (forall osh (y d : list Z -> R), convolve_filter_adjoint osh dsh fsh false st mc y d = Err E_conv).
Proof. intros R dsh fsh st mc H1 H2. apply params_err_all. exact (params_mixed dsh fsh st mc H1 H2). Qed.
Print Assumptions C08_reject_mixed_valid_axes.

(* valid mode with a filter longer than the data: the output length (m - n + 1 + s - 1) // s is non-positive, rejected *)
Theorem C08_reject_valid_longer_filter :
  forall (R : Ops) b ci co m n s, 0 < s -> m < n ->
    (forall d f : list Z -> R, convolve (b ++ [ci; m]) [co; ci; n] false (Some [s]) true d f = Err E_nonpos) /\
    (forall osh (y f : list Z -> R), convolve_data_adjoint osh [co; ci; n] (b ++ [ci; m]) false (Some [s]) true y f = Err E_nonpos) /\
    (forall osh (y d : list Z -> R), convolve_filter_adjoint osh (b ++ [ci; m]) [co; ci; n] false (Some [s]) true y d = Err E_nonpos).
Proof. exact valid_longer_filter_1d. Qed.
Print Assumptions C08_reject_valid_longer_filter.

(* the hypotheses of the three core theorems are satisfiable, and the model computes (Gaussian integers):
   data [1, 2, 3+i], filter [1, i], stride 2, full: conv = [1, 2+i, 3+3i, -1+3i], out = [1, 3+3i] *)
Example C08_hypotheses_satisfiable :
  match convolve (R:=GOps) [1; 3] [1; 1; 2] true (Some [2]) true
          (fun idx => nth (Z.to_nat (nth 1 idx 0)) [(1, 0); (2, 0); (3, 1)] (0, 0))
          (fun idx => nth (Z.to_nat (nth 2 idx 0)) [(1, 0); (0, 1)] (0, 0)) with
  | Ok (sh, y) => (sh, map y [[0; 0]; [0; 1]])
  | Err _ => ([], [])
  end = ([1; 2], [(1, 0); (3, 3)]).
Proof. vm_compute. reflexivity. Qed.
