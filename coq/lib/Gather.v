(* Gather.v — N-dimensional gathers built from per-axis partial index maps.
   If every axis pair (m_d, m'_d) is a pair of mutually inverse partial
   bijections between [0,no_d) and [0,ni_d), the two gathers are adjoint. *)
From Coq Require Import ZArith List Lia Bool Ring.
From SV Require Import lib.Scalar lib.BigSum.
Import ListNotations.
Local Open Scope Z_scope.

Definition axmap := Z -> option Z.

Fixpoint map_axes (ms : list axmap) (o : list Z) : option (list Z) :=
  match ms, o with
  | [], [] => Some []
  | m :: ms', k :: o' =>
      match m k, map_axes ms' o' with
      | Some i, Some idx => Some (i :: idx)
      | _, _ => None
      end
  | _, _ => None
  end.

(* m : out-index -> in-index on [0,no) -> [0,ni);  m' the other way *)
Definition ax_pbij (ni no : Z) (m m' : axmap) : Prop :=
  (forall o i, 0 <= o < no -> m o = Some i -> 0 <= i < ni /\ m' i = Some o) /\
  (forall i o, 0 <= i < ni -> m' i = Some o -> 0 <= o < no /\ m o = Some i).

Lemma ax_pbij_sym ni no m m' : ax_pbij ni no m m' -> ax_pbij no ni m' m.
Proof. intros [A B]. split; assumption. Qed.

Inductive axes_pbij : list Z -> list Z -> list axmap -> list axmap -> Prop :=
| ap_nil : axes_pbij [] [] [] []
| ap_cons ni no m m' si so ms ms' :
    ax_pbij ni no m m' -> axes_pbij si so ms ms' ->
    axes_pbij (ni :: si) (no :: so) (m :: ms) (m' :: ms').

Lemma axes_pbij_sym si so ms ms' : axes_pbij si so ms ms' -> axes_pbij so si ms' ms.
Proof. induction 1; constructor; auto using ax_pbij_sym. Qed.

Lemma axes_pbij_fwd si so ms ms' : axes_pbij si so ms ms' ->
  forall o i, inbox so o -> map_axes ms o = Some i -> inbox si i /\ map_axes ms' i = Some o.
Proof.
  induction 1 as [|ni no m m' si so ms ms' Hax _ IH]; intros o i Ho Hm.
  - destruct o; simpl in *; [|tauto]. inversion Hm; subst. simpl. auto.
  - destruct o as [|k o]; simpl in Ho; [tauto|]. destruct Ho as [Hk Ho].
    simpl in Hm. destruct (m k) as [ik|] eqn:Em; [|discriminate].
    destruct (map_axes ms o) as [idx|] eqn:Ems; [|discriminate].
    inversion Hm; subst i. destruct Hax as [A _]. destruct (A k ik Hk Em) as [Hik Em'].
    destruct (IH o idx Ho Ems) as [Hidx Ems']. simpl. rewrite Em', Ems'. auto.
Qed.

Definition gatherN {R : Ops} (ms : list axmap) (x : list Z -> R) : list Z -> R :=
  fun o => match map_axes ms o with Some i => x i | None => zero end.

Section G.
  Variable R : StarRing.
  Local Open Scope sr_scope.

  Theorem gatherN_adjoint si so ms ms' : axes_pbij si so ms ms' ->
    forall x y : list Z -> R, inner so (gatherN ms x) y = inner si x (gatherN ms' y).
  Proof.
    intros H x y.
    set (valid := fun (ms : list axmap) o => match map_axes ms o with Some _ => true | None => false end).
    set (f := fun (ms : list axmap) o => match map_axes ms o with Some i => i | None => [] end).
    assert (E : forall ms (x : list Z -> R) o, gatherN ms x o = gather (valid ms) (f ms) x o).
    { intros ms0 x0 o. unfold gatherN, gather, valid, f. destruct (map_axes ms0 o); reflexivity. }
    transitivity (inner so (gather (valid ms) (f ms) x) y).
    { unfold inner. apply sumB_ext. intros o _. rewrite E. reflexivity. }
    transitivity (inner si x (gather (valid ms') (f ms') y)).
    2:{ unfold inner. apply sumB_ext. intros i _. rewrite E. reflexivity. }
    apply gather_adjoint. split.
    - intros o Ho V. unfold valid, f in *. destruct (map_axes ms o) as [i|] eqn:Em; [|discriminate].
      destruct (axes_pbij_fwd _ _ _ _ H o i Ho Em) as [Hi Em']. rewrite Em'. auto.
    - intros i Hi V. unfold valid, f in *. destruct (map_axes ms' i) as [o|] eqn:Em; [|discriminate].
      destruct (axes_pbij_fwd _ _ _ _ (axes_pbij_sym _ _ _ _ H) i o Hi Em) as [Ho Em']. rewrite Em'. auto.
  Qed.
End G.
