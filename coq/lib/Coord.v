(* Coord.v — operations on coordinate-valued (real-like) scalars used by the interpolation
   kernels: arithmetic, embedding of integers, ceil / floor to integers, comparisons.
   [COps] is a bare record (no laws): the generated kernels are terms over it, run on
   PrimFloat and reasoned about under ordered-ring hypotheses (proofs/Interp.v). *)
From Coq Require Import ZArith PrimFloat.
From SV Require Import lib.FloatRun.

Record COps := mkCOps {
  cT :> Type;
  cadd : cT -> cT -> cT; csub : cT -> cT -> cT; cmul : cT -> cT -> cT; cdiv : cT -> cT -> cT;
  cofZ : Z -> cT;
  cceil : cT -> Z; cfloor : cT -> Z;
  cabs : cT -> cT;
  cleb : cT -> cT -> bool; cltb : cT -> cT -> bool; ceqb : cT -> cT -> bool }.

Arguments cadd {_}. Arguments csub {_}. Arguments cmul {_}. Arguments cdiv {_}. Arguments cofZ {_}.
Arguments cceil {_}. Arguments cfloor {_}. Arguments cabs {_}. Arguments cleb {_}. Arguments cltb {_}. Arguments ceqb {_}.

Definition FCOps : COps :=
  mkCOps float PrimFloat.add PrimFloat.sub PrimFloat.mul PrimFloat.div Z_to_float
         float_to_Z_ceil float_to_Z_floor PrimFloat.abs PrimFloat.leb PrimFloat.ltb PrimFloat.eqb.
