(* Scalar.v — operation records and commutative *-rings.

   [Ops] is a bare record of scalar operations (no laws): every model in this
   development is a Gallina term over an [Ops], so the same term runs on exact
   instances (Z, Gaussian integers) and on hardware floats.
   [StarRing] packs an [Ops] with the commutative-ring laws and an involutive
   ring automorphism [conj]; every theorem of the linear-operator theory is
   stated for an arbitrary [StarRing] (R, C, Z, Z[i], ...). *)
From Coq Require Import ZArith Ring Setoid Morphisms.

Record Ops := mkOps {
  K :> Type;
  zero : K; one : K;
  add : K -> K -> K; mul : K -> K -> K; sub : K -> K -> K;
  opp : K -> K;
  conj : K -> K }.

Arguments zero {_}. Arguments one {_}. Arguments add {_}. Arguments mul {_}.
Arguments sub {_}. Arguments opp {_}. Arguments conj {_}.

Record StarRing := mkStarRing {
  sops :> Ops;
  SRth : ring_theory (@zero sops) (@one sops) (@add sops) (@mul sops) (@sub sops) (@opp sops) eq;
  conj_add : forall a b : sops, conj (add a b) = add (conj a) (conj b);
  conj_mul : forall a b : sops, conj (mul a b) = mul (conj a) (conj b);
  conj_invol : forall a : sops, conj (conj a) = a }.

Declare Scope sr_scope.
Delimit Scope sr_scope with sr.
Notation "a + b" := (add a b) : sr_scope.
Notation "a * b" := (mul a b) : sr_scope.
Notation "a - b" := (sub a b) : sr_scope.
Notation "- a" := (opp a) : sr_scope.
Notation "0" := zero : sr_scope.
Notation "1" := one : sr_scope.

Section Derived.
  Variable R : StarRing.
  Add Ring Rring : (SRth R).
  Local Open Scope sr_scope.

  Lemma conj_zero : conj (0 : R) = 0.
  Proof.
    assert (H : conj (0:R) + conj 0 = conj (0:R)).
    { rewrite <- conj_add. f_equal. ring. }
    transitivity (conj (0:R) + conj 0 - conj 0); [ring|]. rewrite H. ring.
  Qed.

  Lemma conj_one : conj (1 : R) = 1.
  Proof.
    assert (H : forall y : R, conj 1 * y = y).
    { intro y. transitivity (conj (1 * conj y)).
      - rewrite conj_mul, conj_invol. reflexivity.
      - transitivity (conj (conj y)); [f_equal; ring | apply conj_invol]. }
    transitivity (conj (1:R) * 1); [ring | apply H].
  Qed.

  Lemma conj_opp (a : R) : conj (- a) = - conj a.
  Proof.
    assert (H : conj (- a) + conj a = 0).
    { rewrite <- conj_add. rewrite <- conj_zero. f_equal. ring. }
    transitivity (conj (- a) + conj a - conj a); [ring|]. rewrite H. ring.
  Qed.

  Lemma conj_sub (a b : R) : conj (a - b) = conj a - conj b.
  Proof.
    replace (a - b) with (a + - b) by ring.
    rewrite conj_add, conj_opp. ring.
  Qed.
End Derived.

(* ---- exact executable instances ---------------------------------------- *)

Definition ZOps : Ops := mkOps Z 0%Z 1%Z Z.add Z.mul Z.sub Z.opp (fun x => x).

Lemma Z_ring_theory : ring_theory 0%Z 1%Z Z.add Z.mul Z.sub Z.opp eq.
Proof. exact InitialRing.Zth. Qed.

Definition ZRing : StarRing.
Proof.
  refine (mkStarRing ZOps Z_ring_theory _ _ _); intros; reflexivity.
Defined.

(* Gaussian integers Z[i] as pairs (re, im). *)
Definition GZ := (Z * Z)%type.
Definition gadd (a b : GZ) : GZ := (fst a + fst b, snd a + snd b)%Z.
Definition gmul (a b : GZ) : GZ :=
  (fst a * fst b - snd a * snd b, fst a * snd b + snd a * fst b)%Z.
Definition gsub (a b : GZ) : GZ := (fst a - fst b, snd a - snd b)%Z.
Definition gopp (a : GZ) : GZ := (- fst a, - snd a)%Z.
Definition gconj (a : GZ) : GZ := (fst a, - snd a)%Z.
Definition GOps : Ops := mkOps GZ (0,0)%Z (1,0)%Z gadd gmul gsub gopp gconj.

Lemma G_ring_theory : ring_theory (0,0)%Z (1,0)%Z gadd gmul gsub gopp eq.
Proof.
  constructor; intros; unfold gadd, gmul, gsub, gopp;
    repeat match goal with x : (Z * Z)%type |- _ => destruct x end;
    apply injective_projections; cbn [fst snd]; ring.
Qed.

Definition GRing : StarRing.
Proof.
  refine (mkStarRing GOps G_ring_theory _ _ _); intros;
    repeat match goal with x : K GOps |- _ => destruct x end;
    apply injective_projections; cbn; ring.
Defined.
