(* NdArray.v — executable layer: arrays as flat row-major lists, the bridge
   between data literals written by the harness and the functional arrays
   (list Z -> K) the models are stated on. *)
From Coq Require Import ZArith List Lia Bool.
From SV Require Import lib.Scalar lib.BigSum lib.LoopIR.
Import ListNotations.
Local Open Scope Z_scope.

Fixpoint prodZ (s : list Z) : Z := match s with [] => 1 | n :: s' => n * prodZ s' end.

(* row-major offset of a multi-index *)
Fixpoint ravel (s idx : list Z) : Z :=
  match s, idx with
  | n :: s', i :: idx' => i * prodZ s' + ravel s' idx'
  | _, _ => 0
  end.

Fixpoint unravel (s : list Z) (k : Z) : list Z :=
  match s with
  | [] => []
  | n :: s' => (k / prodZ s') :: unravel s' (k mod prodZ s')
  end.

Fixpoint enum_box (s : list Z) : list (list Z) :=
  match s with
  | [] => [[]]
  | n :: s' => flat_map (fun i => map (cons i) (enum_box s')) (zrange 0 n 1)
  end.

Definition tabulate {T} (s : list Z) (f : list Z -> T) : list T := map f (enum_box s).

Definition of_list {T} (d : T) (s : list Z) (l : list T) : list Z -> T :=
  fun idx => nth (Z.to_nat (ravel s idx)) l d.

Fixpoint list_eqb {T} (eqb : T -> T -> bool) (a b : list T) : bool :=
  match a, b with
  | [], [] => true
  | x :: a', y :: b' => eqb x y && list_eqb eqb a' b'
  | _, _ => false
  end.

Definition zlist_eqb := list_eqb Z.eqb.

Lemma zlist_eqb_spec a b : zlist_eqb a b = true <-> a = b.
Proof.
  unfold zlist_eqb. revert b; induction a as [|x a IH]; intros [|y b]; simpl; try (split; discriminate); try tauto.
  rewrite andb_true_iff, IH, Z.eqb_eq. split; [intros [-> ->]; reflexivity | intros H; inversion H; auto].
Qed.

Definition gz_eqb (a b : Z * Z) : bool := (fst a =? fst b) && (snd a =? snd b).

(* python negative-index normalisation *)
Definition norm_axis (ndim a : Z) : Z := a mod ndim.

Definition nthZ (l : list Z) (k : Z) (d : Z) : Z := nth (Z.to_nat k) l d.

Lemma prodZ_pos s : Forall (fun n => 0 < n) s -> 0 < prodZ s.
Proof. induction 1; simpl; nia. Qed.

Lemma ravel_bound s idx : inbox s idx -> 0 <= ravel s idx < prodZ s.
Proof.
  revert idx; induction s as [|n s IH]; intros [|i idx]; simpl; try tauto; [lia|].
  intros [Hi Hb]. specialize (IH idx Hb). nia.
Qed.

Lemma unravel_ravel s idx : inbox s idx -> unravel s (ravel s idx) = idx.
Proof.
  revert idx; induction s as [|n s IH]; intros [|i idx]; simpl; try tauto.
  intros [Hi Hb]. pose proof (ravel_bound s idx Hb) as Hr.
  f_equal.
  - rewrite Z.div_add_l by lia. rewrite Z.div_small by lia. lia.
  - rewrite Z.add_comm, Z.mod_add by lia. rewrite Z.mod_small by lia. apply IH, Hb.
Qed.

Lemma ravel_unravel s k : Forall (fun n => 0 < n) s -> 0 <= k < prodZ s -> ravel s (unravel s k) = k /\ inbox s (unravel s k).
Proof.
  intros Hs. revert k; induction Hs as [|n s Hn Hs IH]; intros k Hk; simpl in *.
  - split; [lia|exact I].
  - pose proof (prodZ_pos s Hs) as Hp.
    assert (Hm : 0 <= k mod prodZ s < prodZ s) by (apply Z.mod_pos_bound; lia).
    destruct (IH _ Hm) as [E B]. rewrite E. split.
    + rewrite Z.mul_comm. symmetry. apply Z.div_mod. lia.
    + split; [|exact B]. split; [apply Z.div_pos; lia|]. apply Z.div_lt_upper_bound; nia.
Qed.
