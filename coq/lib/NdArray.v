(* NdArray.v — executable layer: arrays as flat row-major lists, the bridge
   between data literals written by the harness and the functional arrays
   (list Z -> K) the models are stated on. *)
From Coq Require Import ZArith List Lia Bool.
From SV Require Import lib.Scalar lib.BigSum lib.LoopIR.
Import ListNotations.
Local Open Scope Z_scope.

Fixpoint prodZ (s : list Z) : Z := match s with [] => 1 | n :: s' => n * prodZ s' end.

(* row-major offset of a multi-index *)
Fixpoint ravel (s idx : list Z) : Z :=
  match s, idx with
  | n :: s', i :: idx' => i * prodZ s' + ravel s' idx'
  | _, _ => 0
  end.

Fixpoint unravel (s : list Z) (k : Z) : list Z :=
  match s with
  | [] => []
  | n :: s' => (k / prodZ s') :: unravel s' (k mod prodZ s')
  end.

Fixpoint enum_box (s : list Z) : list (list Z) :=
  match s with
  | [] => [[]]
  | n :: s' => flat_map (fun i => map (cons i) (enum_box s')) (zrange 0 n 1)
  end.

Definition tabulate {T} (s : list Z) (f : list Z -> T) : list T := map f (enum_box s).

Definition of_list {T} (d : T) (s : list Z) (l : list T) : list Z -> T :=
  fun idx => nth (Z.to_nat (ravel s idx)) l d.

Fixpoint list_eqb {T} (eqb : T -> T -> bool) (a b : list T) : bool :=
  match a, b with
  | [], [] => true
  | x :: a', y :: b' => eqb x y && list_eqb eqb a' b'
  | _, _ => false
  end.

Definition zlist_eqb := list_eqb Z.eqb.

Lemma zlist_eqb_spec a b : zlist_eqb a b = true <-> a = b.
Proof.
  unfold zlist_eqb. revert b; induction a as [|x a IH]; intros [|y b]; simpl; try (split; discriminate); try tauto.
  rewrite andb_true_iff, IH, Z.eqb_eq. split; [intros [-> ->]; reflexivity | intros H; inversion H; auto].
Qed.

Definition gz_eqb (a b : Z * Z) : bool := (fst a =? fst b) && (snd a =? snd b).

(* python negative-index normalisation *)
Definition norm_axis (ndim a : Z) : Z := a mod ndim.

Definition nthZ (l : list Z) (k : Z) (d : Z) : Z := nth (Z.to_nat k) l d.

Lemma prodZ_pos s : Forall (fun n => 0 < n) s -> 0 < prodZ s.
Proof. induction 1; simpl; nia. Qed.

Lemma ravel_bound s idx : inbox s idx -> 0 <= ravel s idx < prodZ s.
Proof.
  revert idx; induction s as [|n s IH]; intros [|i idx]; simpl; try tauto; [lia|].
  intros [Hi Hb]. specialize (IH idx Hb). nia.
Qed.

Lemma unravel_ravel s idx : inbox s idx -> unravel s (ravel s idx) = idx.
Proof.
  revert idx; induction s as [|n s IH]; intros [|i idx]; simpl; try tauto.
  intros [Hi Hb]. pose proof (ravel_bound s idx Hb) as Hr.
  f_equal.
  - rewrite Z.div_add_l by lia. rewrite Z.div_small by lia. lia.
  - rewrite Z.add_comm, Z.mod_add by lia. rewrite Z.mod_small by lia. apply IH, Hb.
Qed.

Lemma ravel_unravel s k : Forall (fun n => 0 < n) s -> 0 <= k < prodZ s -> ravel s (unravel s k) = k /\ inbox s (unravel s k).
Proof.
  intros Hs. revert k; induction Hs as [|n s Hn Hs IH]; intros k Hk; simpl in *.
  - split; [lia|exact I].
  - pose proof (prodZ_pos s Hs) as Hp.
    assert (Hm : 0 <= k mod prodZ s < prodZ s) by (apply Z.mod_pos_bound; lia).
    destruct (IH _ Hm) as [E B]. rewrite E. split.
    + rewrite Z.mul_comm. symmetry. apply Z.div_mod. lia.
    + split; [|exact B]. split; [apply Z.div_pos; lia|]. apply Z.div_lt_upper_bound; nia.
Qed.

(* ---- tabulate / of_list round trip: forcing an array does not change it ---- *)
Lemma zrange_aux_length n lo step : length (zrange_aux n lo step) = n.
Proof. revert lo; induction n; simpl; auto. Qed.

Lemma zrange_aux_nth n lo k : (k < n)%nat -> nth k (zrange_aux n lo 1) 0 = lo + Z.of_nat k.
Proof.
  revert lo k; induction n as [|n IH]; intros lo [|k] Hk; simpl; try lia.
  rewrite IH by lia. lia.
Qed.

Lemma flat_map_chunks_length {A} (g : Z -> list A) c l :
  (forall v, length (g v) = c) -> length (flat_map g l) = (length l * c)%nat.
Proof.
  intros Hc. induction l as [|v l IH]; simpl; [reflexivity|]. rewrite app_length, Hc, IH. reflexivity.
Qed.

Lemma enum_box_length s : Forall (fun n => 0 <= n) s -> Z.of_nat (length (enum_box s)) = prodZ s.
Proof.
  induction 1 as [|n s Hn _ IH]; simpl; [reflexivity|].
  rewrite (flat_map_chunks_length _ (length (enum_box s))) by (intros; apply map_length).
  unfold zrange. change (1 <=? 0) with false. cbv iota. rewrite zrange_aux_length, Z.div_1_r.
  rewrite Nat2Z.inj_mul, IH. lia.
Qed.

Lemma nth_flat_map_chunks {A} (d : A) (c : nat) (g : Z -> list A) (l : list Z) (q r : nat) :
  (forall v, length (g v) = c) -> (r < c)%nat -> (q < length l)%nat ->
  nth (q * c + r) (flat_map g l) d = nth r (g (nth q l 0)) d.
Proof.
  intros Hc Hr. revert q; induction l as [|v l IH]; intros q Hq; simpl in *; [lia|].
  destruct q as [|q].
  - simpl. rewrite app_nth1 by (rewrite Hc; lia). reflexivity.
  - rewrite app_nth2 by (rewrite Hc; simpl; lia). rewrite Hc.
    replace (S q * c + r - c)%nat with (q * c + r)%nat by (simpl; lia). apply IH. lia.
Qed.

Lemma enum_box_nth s idx : Forall (fun n => 0 <= n) s -> inbox s idx ->
  nth (Z.to_nat (ravel s idx)) (enum_box s) [] = idx.
Proof.
  intros Hs. revert idx; induction Hs as [|n s Hn Hs IH]; intros [|i idx]; simpl; try tauto.
  intros [Hi Hb].
  pose proof (ravel_bound s idx Hb) as Hr.
  pose proof (enum_box_length s Hs) as Hl.
  replace (Z.to_nat (i * prodZ s + ravel s idx)) with (Z.to_nat i * length (enum_box s) + Z.to_nat (ravel s idx))%nat by nia.
  rewrite (nth_flat_map_chunks [] (length (enum_box s))).
  - unfold zrange. change (1 <=? 0) with false. cbv iota.
    rewrite zrange_aux_nth by (rewrite Z.div_1_r; lia).
    set (v := 0 + Z.of_nat (Z.to_nat i)).
    rewrite (nth_indep _ [] (cons v [])) by (rewrite map_length; lia).
    rewrite (map_nth (cons v)). rewrite IH by exact Hb. unfold v. f_equal. lia.
  - intros v. apply map_length.
  - lia.
  - unfold zrange. change (1 <=? 0) with false. cbv iota. rewrite zrange_aux_length, Z.div_1_r. lia.
Qed.

Theorem of_list_tabulate {T} (d : T) s (f : list Z -> T) idx :
  Forall (fun n => 0 <= n) s -> inbox s idx -> of_list d s (tabulate s f) idx = f idx.
Proof.
  intros Hs Hb. unfold of_list, tabulate.
  pose proof (ravel_bound s idx Hb) as Hr. pose proof (enum_box_length s Hs) as Hl.
  rewrite (nth_indep _ d (f [])) by (rewrite map_length; lia).
  rewrite map_nth. rewrite enum_box_nth by assumption. reflexivity.
Qed.
