(* BigSum.v — finite sums over integer ranges and N-dimensional index boxes,
   over an arbitrary commutative *-ring. *)
From Coq Require Import ZArith List Lia Bool Ring.
From SV Require Import lib.Scalar.
Import ListNotations.
Local Open Scope Z_scope.

(* ---- index boxes --------------------------------------------------------- *)

Fixpoint inbox (s idx : list Z) : Prop :=
  match s, idx with
  | [], [] => True
  | n :: s', i :: idx' => 0 <= i < n /\ inbox s' idx'
  | _, _ => False
  end.

Fixpoint inboxb (s idx : list Z) : bool :=
  match s, idx with
  | [], [] => true
  | n :: s', i :: idx' => (0 <=? i) && (i <? n) && inboxb s' idx'
  | _, _ => false
  end.

Lemma inboxb_spec s idx : inboxb s idx = true <-> inbox s idx.
Proof.
  revert idx; induction s as [|n s IH]; intros [|i idx]; simpl; try tauto; try (split; [discriminate|tauto]).
  rewrite !andb_true_iff, IH, Z.leb_le, Z.ltb_lt. tauto.
Qed.

Fixpoint idx_eqb (a b : list Z) : bool :=
  match a, b with
  | [], [] => true
  | x :: a', y :: b' => (x =? y) && idx_eqb a' b'
  | _, _ => false
  end.

Lemma idx_eqb_spec a b : idx_eqb a b = true <-> a = b.
Proof.
  revert b; induction a as [|x a IH]; intros [|y b]; simpl; try (split; [discriminate|discriminate]); try tauto.
  rewrite andb_true_iff, IH, Z.eqb_eq. split; [intros [-> ->]; reflexivity | intros H; inversion H; auto].
Qed.

Lemma idx_eqb_refl a : idx_eqb a a = true.
Proof. apply idx_eqb_spec; reflexivity. Qed.

Lemma inbox_length s idx : inbox s idx -> length idx = length s.
Proof.
  revert idx; induction s as [|n s IH]; intros [|i idx]; simpl; try tauto.
  intros [_ H]. f_equal. auto.
Qed.

Section Sums.
  Variable R : StarRing.
  Add Ring Rring : (SRth R).
  Local Open Scope sr_scope.

  Fixpoint sum_nat (n : nat) (f : nat -> R) : R :=
    match n with O => 0 | S k => sum_nat k f + f k end.

  Lemma sum_nat_ext n f g : (forall k, (k < n)%nat -> f k = g k) -> sum_nat n f = sum_nat n g.
  Proof.
    induction n as [|n IH]; simpl; intros H; [reflexivity|].
    rewrite IH, H by (intros; try apply H; lia). reflexivity.
  Qed.

  Lemma sum_nat_zero n : sum_nat n (fun _ => 0) = 0.
  Proof. induction n as [|n IH]; simpl; [reflexivity| rewrite IH; ring]. Qed.

  Lemma sum_nat_add n f g : sum_nat n (fun k => f k + g k) = sum_nat n f + sum_nat n g.
  Proof. induction n as [|n IH]; simpl; [ring| rewrite IH; ring]. Qed.

  Lemma sum_nat_scale n c f : sum_nat n (fun k => c * f k) = c * sum_nat n f.
  Proof. induction n as [|n IH]; simpl; [ring| rewrite IH; ring]. Qed.

  Lemma sum_nat_conj n f : conj (sum_nat n f) = sum_nat n (fun k => conj (f k)).
  Proof.
    induction n as [|n IH]; simpl; [apply conj_zero| rewrite conj_add, IH; reflexivity].
  Qed.

  Lemma sum_nat_exchange n m (f : nat -> nat -> R) :
    sum_nat n (fun i => sum_nat m (fun j => f i j)) = sum_nat m (fun j => sum_nat n (fun i => f i j)).
  Proof.
    induction n as [|n IH]; simpl.
    - rewrite sum_nat_zero. reflexivity.
    - rewrite IH, <- sum_nat_add. reflexivity.
  Qed.

  Lemma sum_nat_single n j (g : nat -> R) :
    (j < n)%nat -> sum_nat n (fun k => if Nat.eqb k j then g k else 0) = g j.
  Proof.
    induction n as [|n IH]; simpl; intros Hj; [lia|].
    destruct (Nat.eqb n j) eqn:E.
    - apply Nat.eqb_eq in E. subst j.
      rewrite (sum_nat_ext n _ (fun _ => 0)).
      + rewrite sum_nat_zero. ring.
      + intros k Hk. destruct (Nat.eqb k n) eqn:E; [apply Nat.eqb_eq in E; lia|reflexivity].
    - apply Nat.eqb_neq in E. rewrite IH by lia. ring.
  Qed.

  Lemma sum_nat_none n (f : nat -> R) : (forall k, (k < n)%nat -> f k = 0) -> sum_nat n f = 0.
  Proof. intros H. rewrite (sum_nat_ext n f (fun _ => 0)) by exact H. apply sum_nat_zero. Qed.

  Lemma sum_nat_split n m (f : nat -> R) :
    sum_nat (n + m) f = sum_nat n f + sum_nat m (fun k => f (n + k)%nat).
  Proof.
    induction m as [|m IH]; simpl.
    - rewrite Nat.add_0_r. ring.
    - rewrite Nat.add_succ_r. simpl. rewrite IH. ring.
  Qed.

  Lemma sum_nat_shift m (g : nat -> R) : sum_nat (S m) g = g O + sum_nat m (fun k => g (S k)).
  Proof.
    induction m as [|m IH]; [simpl; ring|].
    change (sum_nat (S (S m)) g) with (sum_nat (S m) g + g (S m)). rewrite IH. simpl. ring.
  Qed.

  (* sums over 0 <= i < n with integer index *)
  Definition sumZ (n : Z) (f : Z -> R) : R :=
    sum_nat (Z.to_nat n) (fun k => f (Z.of_nat k)).

  Lemma sumZ_ext n f g : (forall i, (0 <= i < n)%Z -> f i = g i) -> sumZ n f = sumZ n g.
  Proof. intros H. apply sum_nat_ext. intros k Hk. apply H. lia. Qed.

  Lemma sumZ_zero n : sumZ n (fun _ => 0) = 0.
  Proof. apply sum_nat_zero. Qed.

  Lemma sumZ_add n f g : sumZ n (fun k => f k + g k) = sumZ n f + sumZ n g.
  Proof. apply sum_nat_add. Qed.

  Lemma sumZ_scale n c f : sumZ n (fun k => c * f k) = c * sumZ n f.
  Proof. apply sum_nat_scale. Qed.

  Lemma sumZ_conj n f : conj (sumZ n f) = sumZ n (fun k => conj (f k)).
  Proof. apply sum_nat_conj. Qed.

  Lemma sumZ_exchange n m (f : Z -> Z -> R) :
    sumZ n (fun i => sumZ m (fun j => f i j)) = sumZ m (fun j => sumZ n (fun i => f i j)).
  Proof. unfold sumZ. apply sum_nat_exchange. Qed.

  Lemma sumZ_single n j (g : Z -> R) :
    (0 <= j < n)%Z -> sumZ n (fun k => if Z.eqb k j then g k else 0) = g j.
  Proof.
    intros Hj. unfold sumZ.
    rewrite (sum_nat_ext _ _ (fun k => if Nat.eqb k (Z.to_nat j) then g (Z.of_nat k) else 0)).
    - rewrite sum_nat_single by lia. f_equal. lia.
    - intros k Hk. destruct (Z.eqb_spec (Z.of_nat k) j), (Nat.eqb_spec k (Z.to_nat j)); try reflexivity; lia.
  Qed.

  Lemma sumZ_none n (f : Z -> R) : (forall i, (0 <= i < n)%Z -> f i = 0) -> sumZ n f = 0.
  Proof. intros H. rewrite (sumZ_ext n f (fun _ => 0)) by exact H. apply sumZ_zero. Qed.

  Lemma sumZ_split n m (f : Z -> R) : (0 <= n)%Z -> (0 <= m)%Z ->
    sumZ (n + m) f = sumZ n f + sumZ m (fun k => f (n + k)%Z).
  Proof.
    intros Hn Hm. unfold sumZ. rewrite Z2Nat.inj_add by lia. rewrite sum_nat_split.
    f_equal. apply sum_nat_ext. intros k _. f_equal. lia.
  Qed.

  Lemma sumZ_nonpos n f : (n <= 0)%Z -> sumZ n f = 0.
  Proof. intros H. unfold sumZ. replace (Z.to_nat n) with O by lia. reflexivity. Qed.

  (* sums over boxes *)
  Fixpoint sumB (s : list Z) (f : list Z -> R) : R :=
    match s with
    | [] => f []
    | n :: s' => sumZ n (fun i => sumB s' (fun idx => f (i :: idx)))
    end.

  Lemma sumB_ext s f g : (forall idx, inbox s idx -> f idx = g idx) -> sumB s f = sumB s g.
  Proof.
    revert f g; induction s as [|n s IH]; simpl; intros f g H.
    - apply H. exact I.
    - apply sumZ_ext. intros i Hi. apply IH. intros idx Hidx. apply H. simpl. auto.
  Qed.

  Lemma sumB_zero s : sumB s (fun _ => 0) = 0.
  Proof. induction s as [|n s IH]; simpl; [reflexivity|]. apply sumZ_none. intros; apply IH. Qed.

  Lemma sumB_add s f g : sumB s (fun k => f k + g k) = sumB s f + sumB s g.
  Proof.
    revert f g; induction s as [|n s IH]; simpl; intros f g; [reflexivity|].
    rewrite <- sumZ_add. apply sumZ_ext. intros i _. apply IH.
  Qed.

  Lemma sumB_scale s c f : sumB s (fun k => c * f k) = c * sumB s f.
  Proof.
    revert f; induction s as [|n s IH]; simpl; intros f; [reflexivity|].
    rewrite <- sumZ_scale. apply sumZ_ext. intros i _. apply IH.
  Qed.

  Lemma sumB_conj s f : conj (sumB s f) = sumB s (fun k => conj (f k)).
  Proof.
    revert f; induction s as [|n s IH]; simpl; intros f; [reflexivity|].
    rewrite sumZ_conj. apply sumZ_ext. intros i _. apply IH.
  Qed.

  Lemma sumB_sumZ_exchange s m (f : list Z -> Z -> R) :
    sumB s (fun i => sumZ m (fun j => f i j)) = sumZ m (fun j => sumB s (fun i => f i j)).
  Proof.
    revert f; induction s as [|n s IH]; simpl; intros f; [reflexivity|].
    rewrite (sumZ_ext n _ (fun i => sumZ m (fun j => sumB s (fun idx => f (i :: idx) j)))).
    - apply sumZ_exchange.
    - intros i _. apply IH.
  Qed.

  Lemma sumB_exchange s t (f : list Z -> list Z -> R) :
    sumB s (fun i => sumB t (fun j => f i j)) = sumB t (fun j => sumB s (fun i => f i j)).
  Proof.
    revert f; induction t as [|m t IH]; simpl; intros f; [reflexivity|].
    rewrite sumB_sumZ_exchange. apply sumZ_ext. intros j _. apply IH.
  Qed.

  Lemma sumB_none s f : (forall idx, inbox s idx -> f idx = 0) -> sumB s f = 0.
  Proof. intros H. rewrite (sumB_ext s f (fun _ => 0)) by exact H. apply sumB_zero. Qed.

  Lemma sumB_single s j (g : list Z -> R) :
    inbox s j -> sumB s (fun k => if idx_eqb k j then g k else 0) = g j.
  Proof.
    revert j g; induction s as [|n s IH]; intros [|j0 j] g Hj; simpl in *; try tauto.
    destruct Hj as [Hj0 Hj].
    rewrite (sumZ_ext n _ (fun i => if Z.eqb i j0 then sumB s (fun idx => if idx_eqb idx j then g (i :: idx) else 0) else 0)).
    - rewrite sumZ_single by exact Hj0. apply (IH j (fun idx => g (j0 :: idx))). exact Hj.
    - intros i _. destruct (Z.eqb i j0); simpl; [reflexivity| apply sumB_zero].
  Qed.

  (* inner product on a box: <x, y> = sum x_i * conj y_i *)
  Definition inner (s : list Z) (x y : list Z -> R) : R :=
    sumB s (fun i => x i * conj (y i)).

  (* ---- the two generic adjoint theorems -------------------------------- *)

  (* An operator given by a kernel: (A x)[o] = sum_i k o i * x[i]. *)
  Definition kernel_op (si : list Z) (k : list Z -> list Z -> R) (x : list Z -> R) : list Z -> R :=
    fun o => sumB si (fun i => k o i * x i).

  Theorem kernel_adjoint si so (k k' : list Z -> list Z -> R) :
    (forall o i, inbox so o -> inbox si i -> k' i o = conj (k o i)) ->
    forall x y, inner so (kernel_op si k x) y = inner si x (kernel_op so k' y).
  Proof.
    intros Hk x y. unfold inner, kernel_op.
    rewrite (sumB_ext so _ (fun o => sumB si (fun i => k o i * x i * conj (y o)))).
    2:{ intros o _. rewrite (Rmul_comm (SRth R)), <- sumB_scale. apply sumB_ext. intros; ring. }
    rewrite sumB_exchange. apply sumB_ext. intros i Hi.
    rewrite sumB_conj, <- sumB_scale. apply sumB_ext. intros o Ho.
    rewrite conj_mul, Hk, conj_invol by assumption. ring.
  Qed.

  (* A gather: out[o] = in[f o] when valid o, else 0. *)
  Definition gather (valid : list Z -> bool) (f : list Z -> list Z) (x : list Z -> R) : list Z -> R :=
    fun o => if valid o then x (f o) else 0.

  (* (valid,f) : so -> si and (valid',f') : si -> so are mutually inverse partial bijections *)
  Definition pbij (si so : list Z) (valid : list Z -> bool) (f : list Z -> list Z)
                  (valid' : list Z -> bool) (f' : list Z -> list Z) : Prop :=
    (forall o, inbox so o -> valid o = true -> inbox si (f o) /\ valid' (f o) = true /\ f' (f o) = o) /\
    (forall i, inbox si i -> valid' i = true -> inbox so (f' i) /\ valid (f' i) = true /\ f (f' i) = i).

  Lemma gather_is_kernel si so valid f :
    (forall o, inbox so o -> valid o = true -> inbox si (f o)) ->
    forall x o, inbox so o ->
      gather valid f x o = kernel_op si (fun o i => if valid o && idx_eqb i (f o) then 1 else 0) x o.
  Proof.
    intros Hf x o Ho. unfold gather, kernel_op.
    destruct (valid o) eqn:V; simpl.
    - rewrite (sumB_ext si _ (fun i => if idx_eqb i (f o) then x i else 0)).
      + rewrite sumB_single; [reflexivity| apply Hf; assumption].
      + intros i _. destruct (idx_eqb i (f o)); ring.
    - symmetry. apply sumB_none. intros; ring.
  Qed.

  Theorem gather_adjoint si so valid f valid' f' :
    pbij si so valid f valid' f' ->
    forall x y, inner so (gather valid f x) y = inner si x (gather valid' f' y).
  Proof.
    intros [H1 H2] x y.
    transitivity (inner so (kernel_op si (fun o i => if valid o && idx_eqb i (f o) then 1 else 0) x) y).
    { unfold inner. apply sumB_ext. intros o Ho. f_equal. apply (gather_is_kernel si so); [|exact Ho].
      intros o' Ho' V. apply (H1 o' Ho' V). }
    transitivity (inner si x (kernel_op so (fun i o => if valid' i && idx_eqb o (f' i) then 1 else 0) y)).
    2:{ unfold inner. apply sumB_ext. intros i Hi. f_equal. f_equal. symmetry. apply (gather_is_kernel so si); [|exact Hi].
        intros i' Hi' V. apply (H2 i' Hi' V). }
    apply kernel_adjoint. intros o i Ho Hi.
    assert (E : (valid' i && idx_eqb o (f' i)) = (valid o && idx_eqb i (f o))).
    { apply eq_true_iff_eq. rewrite !andb_true_iff, !idx_eqb_spec. split.
      - intros [V ->]. destruct (H2 i Hi V) as (_ & V' & E'). auto.
      - intros [V ->]. destruct (H1 o Ho V) as (_ & V' & E'). auto. }
    rewrite E. destruct (valid o && idx_eqb i (f o)); [symmetry; apply conj_one | symmetry; apply conj_zero].
  Qed.

End Sums.

Arguments sum_nat {R}. Arguments sumZ {R}. Arguments sumB {R}. Arguments inner {R}.
Arguments kernel_op {R}. Arguments gather {R}.
