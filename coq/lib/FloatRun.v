(* FloatRun.v — hardware binary64 (PrimFloat) instances of [Ops] for RUNNING models
   under vm_compute: reals and complex pairs.  No laws are claimed for floats;
   theorems are about exact instances, the correspondence compares with tolerance. *)
From Coq Require Import ZArith List Bool PrimFloat Uint63 SpecFloat FloatOps.
From SV Require Import lib.Scalar.
Import ListNotations.

Definition FOps : Ops := mkOps float 0%float 1%float PrimFloat.add PrimFloat.mul PrimFloat.sub PrimFloat.opp (fun x => x).

Definition CF := (float * float)%type.
Definition cf_add (a b : CF) : CF := (fst a + fst b, snd a + snd b)%float.
Definition cf_sub (a b : CF) : CF := (fst a - fst b, snd a - snd b)%float.
Definition cf_mul (a b : CF) : CF := (fst a * fst b - snd a * snd b, fst a * snd b + snd a * fst b)%float.
Definition cf_opp (a : CF) : CF := (- fst a, - snd a)%float.
Definition cf_conj (a : CF) : CF := (fst a, - snd a)%float.
Definition cf_scale (s : float) (a : CF) : CF := (s * fst a, s * snd a)%float.
Definition cf_abs2 (a : CF) : float := (fst a * fst a + snd a * snd a)%float.
Definition cf_abs (a : CF) : float := PrimFloat.sqrt (cf_abs2 a).
Definition cf_div (a b : CF) : CF :=
  let d := cf_abs2 b in
  ((fst a * fst b + snd a * snd b) / d, (snd a * fst b - fst a * snd b) / d)%float.
Definition CFOps : Ops := mkOps CF (0, 0)%float (1, 0)%float cf_add cf_mul cf_sub cf_opp cf_conj.

Definition fabs (x : float) : float := PrimFloat.abs x.
Definition fleb (x y : float) : bool := PrimFloat.leb x y.
Definition fltb (x y : float) : bool := PrimFloat.ltb x y.
Definition fmax (x y : float) : float := if PrimFloat.ltb x y then y else x.
Definition fmin (x y : float) : float := if PrimFloat.ltb y x then y else x.

(* |a - b| <= atol + rtol * max(|a|, |b|)  (false on NaN) *)
Definition fclose (atol rtol a b : float) : bool :=
  PrimFloat.leb (fabs (a - b)) (atol + rtol * fmax (fabs a) (fabs b))%float.
Definition cfclose (atol rtol : float) (a b : CF) : bool :=
  PrimFloat.leb (cf_abs (cf_sub a b)) (atol + rtol * fmax (cf_abs a) (cf_abs b))%float.

Fixpoint all2 {A} (p : A -> A -> bool) (a b : list A) : bool :=
  match a, b with
  | [], [] => true
  | x :: a', y :: b' => p x y && all2 p a' b'
  | _, _ => false
  end.

(* vectors as lists *)
Definition vsum (l : list float) : float := fold_left PrimFloat.add l 0%float.
Definition vdotf (a b : list float) : float := vsum (map (fun p => (fst p * snd p)%float) (combine a b)).
Definition vnorm2 (a : list float) : float := vdotf a a.
Definition vaxpy (a : float) (x y : list float) : list float :=        (* a*x + y *)
  map (fun p => (a * fst p + snd p)%float) (combine x y).
Definition vscale (a : float) (x : list float) : list float := map (fun v => (a * v)%float) x.
Definition vadd (x y : list float) := map (fun p => (fst p + snd p)%float) (combine x y).
Definition vsub (x y : list float) := map (fun p => (fst p - snd p)%float) (combine x y).
Definition matvec (m : list (list float)) (x : list float) : list float := map (fun row => vdotf row x) m.

(* floor / ceil of a finite float as an integer (via the float's exact decomposition) *)
Definition float_to_Z_floor (x : float) : Z :=
  match Prim2SF x with
  | S754_zero _ => 0%Z
  | S754_finite s m e =>
      let mz := Z.pos m in
      let v := match e with
               | Z0 => mz | Zpos p => (mz * 2 ^ Zpos p)%Z
               | Zneg p => (mz / 2 ^ Zpos p)%Z end in
      let exact := match e with Zneg p => Z.eqb (mz mod 2 ^ Zpos p) 0 | _ => true end in
      if s then (if exact then (- v)%Z else (- v - 1)%Z) else v
  | _ => 0%Z
  end.
Definition float_to_Z_ceil (x : float) : Z := (- float_to_Z_floor (- x)%float)%Z.
Definition Z_to_float (z : Z) : float :=
  match z with
  | Z0 => 0%float
  | Zpos p => PrimFloat.of_uint63 (Uint63.of_Z (Zpos p))
  | Zneg p => (- PrimFloat.of_uint63 (Uint63.of_Z (Zpos p)))%float
  end.
