(* LoopIR.v — a small imperative loop-nest language, the trusted reading of the
   numba kernels (`for v in range(lo, hi, step)`, integer lets, guards,
   `out[t] += e` and `out[t] = e`), with
     exec        : program-order semantics (a fold over the range),
     contrib     : the order-free sum of guarded contributions to one target,
     exec_is_sum : exec n env out o = out o + contrib n env o      (accumulate-only nests)
     lastw / exec_last : last-write-wins characterisation           (assign-only nests).
   Structure is deep (so the theorems are by induction on the nest); expressions
   are shallow Gallina functions of the environment (a stack of integers, most
   recent binding first). *)
From Coq Require Import ZArith List Lia Bool Ring.
From SV Require Import lib.Scalar lib.BigSum.
Import ListNotations.
Local Open Scope Z_scope.

Definition env := list Z.
Definition var (k : nat) (e : env) : Z := nth k e 0.

(* Python's range(lo, hi, step) for step > 0 *)
Fixpoint zrange_aux (n : nat) (lo step : Z) : list Z :=
  match n with O => [] | S k => lo :: zrange_aux k (lo + step) step end.
Definition zrange (lo hi step : Z) : list Z :=
  if step <=? 0 then [] else zrange_aux (Z.to_nat ((hi - lo + step - 1) / step)) lo step.

Lemma zrange_aux_in n lo step v : 0 < step ->
  In v (zrange_aux n lo step) <-> exists k, 0 <= k < Z.of_nat n /\ v = lo + k * step.
Proof.
  intros Hs. revert lo; induction n as [|n IH]; intros lo; simpl.
  - split; [tauto| intros (k & Hk & _); lia].
  - rewrite IH. split.
    + intros [<- | (k & Hk & ->)]; [exists 0; lia | exists (k + 1); lia].
    + intros (k & Hk & ->). destruct (Z.eq_dec k 0) as [->|Hne]; [left; lia | right; exists (k - 1); lia].
Qed.

Lemma zrange_in lo hi step v : 0 < step ->
  In v (zrange lo hi step) <-> (lo <= v < hi /\ (v - lo) mod step = 0).
Proof.
  intros Hs. unfold zrange. destruct (Z.leb_spec step 0); [lia|].
  rewrite zrange_aux_in by lia. split.
  - intros (k & Hk & ->).
    remember ((hi - lo + step - 1) / step) as q eqn:Eq.
    assert (Hq : k < q) by (clear - Hk; lia).
    assert (Hk0 : 0 <= k) by (clear - Hk; lia).
    rewrite Eq in Hq; clear Eq q Hk.
    assert (k * step < hi - lo).
    { destruct (Z.lt_ge_cases (k * step) (hi - lo)); [assumption|].
      assert ((hi - lo + step - 1) / step < k + 1); [|lia].
      apply Z.div_lt_upper_bound; nia. }
    split; [nia|]. replace (lo + k * step - lo) with (k * step) by ring. apply Z_mod_mult.
  - intros [Hv Hm]. exists ((v - lo) / step).
    assert (Hlt : (v - lo) / step < (hi - lo + step - 1) / step).
    { assert (Hd : v - lo = step * ((v - lo) / step)) by (apply Z_div_exact_full_2; lia).
      apply Z.div_lt_upper_bound; [lia|].
      pose proof (Z.mul_succ_div_gt (hi - lo + step - 1) step Hs). lia. }
    assert (0 <= (v - lo) / step) by (apply Z.div_pos; lia).
    assert (Hd : v - lo = step * ((v - lo) / step)) by (apply Z_div_exact_full_2; lia).
    remember ((hi - lo + step - 1) / step) as q eqn:Eq.
    remember ((v - lo) / step) as p eqn:Ep.
    split; [lia|]. rewrite (Z.mul_comm p step). lia.
Qed.
(*
      assert (Hd : v - lo = step * ((v - lo) / step)) by (apply Z_div_exact_full_2; lia).
      assert ((v - lo) / step < (hi - lo + step - 1) / step); [|lia].
      apply Z.div_lt_upper_bound; [lia|].
      assert (step * ((hi - lo + step - 1) / step) > hi - lo - 1); [|nia].
      pose proof (Z.mul_succ_div_gt (hi - lo + step - 1) step Hs). lia.
    + assert (Hd : v - lo = step * ((v - lo) / step)) by (apply Z_div_exact_full_2; lia). lia.
Qed.

*)
Lemma zrange_aux_nodup n lo step : 0 < step -> NoDup (zrange_aux n lo step).
Proof.
  intros Hs. revert lo; induction n as [|n IH]; intros lo; simpl; constructor; [|apply IH].
  rewrite zrange_aux_in by lia. intros (k & Hk & E). nia.
Qed.

Lemma zrange_nodup lo hi step : NoDup (zrange lo hi step).
Proof.
  unfold zrange. destruct (Z.leb_spec step 0); [constructor| apply zrange_aux_nodup; lia].
Qed.

Section IR.
  Variable R : Ops.

  Inductive nest :=
  | For (lo hi step : env -> Z) (body : nest)
  | LetZ (e : env -> Z) (body : nest)
  | If (c : env -> bool) (body : nest)
  | Seq (a b : nest)
  | Skip
  | Accum (tgt : env -> list Z) (rhs : env -> R)
  | Assign (tgt : env -> list Z) (rhs : env -> R).

  Definition upd (a : list Z -> R) (t : list Z) (v : R) : list Z -> R :=
    fun o => if idx_eqb t o then v else a o.

  Fixpoint exec (n : nest) (e : env) (out : list Z -> R) : list Z -> R :=
    match n with
    | For lo hi step body =>
        fold_left (fun o v => exec body (v :: e) o) (zrange (lo e) (hi e) (step e)) out
    | LetZ x body => exec body (x e :: e) out
    | If c body => if c e then exec body e out else out
    | Seq a b => exec b e (exec a e out)
    | Skip => out
    | Accum tgt rhs => upd out (tgt e) (add (out (tgt e)) (rhs e))
    | Assign tgt rhs => upd out (tgt e) (rhs e)
    end.

  Fixpoint accum_only (n : nest) : bool :=
    match n with
    | For _ _ _ b | LetZ _ b | If _ b => accum_only b
    | Seq a b => accum_only a && accum_only b
    | Skip | Accum _ _ => true
    | Assign _ _ => false
    end.

  Fixpoint assign_only (n : nest) : bool :=
    match n with
    | For _ _ _ b | LetZ _ b | If _ b => assign_only b
    | Seq a b => assign_only a && assign_only b
    | Skip | Assign _ _ => true
    | Accum _ _ => false
    end.

  Fixpoint sumL (l : list Z) (f : Z -> R) : R :=
    match l with [] => zero | v :: l' => add (f v) (sumL l' f) end.

  Fixpoint contrib (n : nest) (e : env) (o : list Z) : R :=
    match n with
    | For lo hi step body => sumL (zrange (lo e) (hi e) (step e)) (fun v => contrib body (v :: e) o)
    | LetZ x body => contrib body (x e :: e) o
    | If c body => if c e then contrib body e o else zero
    | Seq a b => add (contrib a e o) (contrib b e o)
    | Skip => zero
    | Accum tgt rhs => if idx_eqb (tgt e) o then rhs e else zero
    | Assign _ _ => zero
    end.

  (* last write to target o in program order, if any *)
  Definition orlast (a b : option R) : option R := match b with Some v => Some v | None => a end.

  Fixpoint lastL (l : list Z) (f : Z -> option R) : option R :=
    match l with [] => None | v :: l' => orlast (f v) (lastL l' f) end.

  Fixpoint lastw (n : nest) (e : env) (o : list Z) : option R :=
    match n with
    | For lo hi step body => lastL (zrange (lo e) (hi e) (step e)) (fun v => lastw body (v :: e) o)
    | LetZ x body => lastw body (x e :: e) o
    | If c body => if c e then lastw body e o else None
    | Seq a b => orlast (lastw a e o) (lastw b e o)
    | Skip => None
    | Assign tgt rhs => if idx_eqb (tgt e) o then Some (rhs e) else None
    | Accum _ _ => None
    end.

  Lemma exec_last n : assign_only n = true ->
    forall e out o, exec n e out o = match lastw n e o with Some v => v | None => out o end.
  Proof.
    induction n as [lo hi step body IH|x body IH|c body IH|a IHa b IHb| |tgt rhs|tgt rhs]; simpl; intros A e out o;
      try discriminate.
    - generalize (zrange (lo e) (hi e) (step e)) as l. intros l. revert out.
      induction l as [|v l IHl]; intros out; simpl; [reflexivity|].
      rewrite IHl, (IH A). destruct (lastL l _); simpl; [reflexivity|]. reflexivity.
    - apply IH; assumption.
    - destruct (c e); [apply IH; assumption| reflexivity].
    - apply andb_true_iff in A. destruct A as [Aa Ab].
      rewrite (IHb Ab), (IHa Aa). destruct (lastw b e o); reflexivity.
    - reflexivity.
    - unfold upd. destruct (idx_eqb (tgt e) o); reflexivity.
  Qed.
End IR.

Arguments For {R}. Arguments LetZ {R}. Arguments If {R}. Arguments Seq {R}. Arguments Skip {R}.
Arguments Accum {R}. Arguments Assign {R}. Arguments exec {R}. Arguments contrib {R}.
Arguments lastw {R}. Arguments sumL {R}. Arguments lastL {R}. Arguments upd {R}.
Arguments accum_only {R}. Arguments assign_only {R}. Arguments orlast {R}.

Section IRSum.
  Variable R : StarRing.
  Add Ring Rring2 : (SRth R).
  Local Open Scope sr_scope.

  Theorem exec_is_sum (n : nest R) : accum_only n = true ->
    forall e out o, exec n e out o = out o + contrib n e o.
  Proof.
    induction n as [lo hi step body IH|x body IH|c body IH|a IHa b IHb| |tgt rhs|tgt rhs]; simpl; intros A e out o;
      try discriminate.
    - generalize (zrange (lo e) (hi e) (step e)) as l. intros l. revert out.
      induction l as [|v l IHl]; intros out; simpl; [ring|].
      rewrite IHl, (IH A). ring.
    - apply IH; assumption.
    - destruct (c e); [apply IH; assumption| ring].
    - apply andb_true_iff in A. destruct A as [Aa Ab]. rewrite (IHb Ab), (IHa Aa). ring.
    - ring.
    - unfold upd. destruct (idx_eqb (tgt e) o) eqn:E; [|ring].
      apply idx_eqb_spec in E. subst o. ring.
  Qed.

  (* list sums vs. range sums *)
  Lemma sumL_ext l (f g : Z -> R) : (forall v, In v l -> f v = g v) -> sumL l f = sumL l g.
  Proof.
    induction l as [|v l IH]; simpl; intros H; [reflexivity|].
    rewrite H, IH by auto. reflexivity.
  Qed.

  Lemma sumL_zero l : sumL l (fun _ => (0:R)) = 0.
  Proof. induction l as [|v l IH]; simpl; [reflexivity| rewrite IH; ring]. Qed.

  Lemma sumL_none l (f : Z -> R) : (forall v, In v l -> f v = 0) -> sumL l f = 0.
  Proof. intros H. rewrite (sumL_ext l f (fun _ => 0)) by exact H. apply sumL_zero. Qed.

  (* a sum over a duplicate-free list in which exactly one element w contributes *)
  Lemma sumL_single l w (f : Z -> R) : NoDup l -> In w l ->
    (forall v, In v l -> v <> w -> f v = 0) -> sumL l f = f w.
  Proof.
    induction l as [|v l IH]; simpl; intros ND Hin H; [tauto|].
    inversion ND as [|? ? Hnot ND']; subst.
    destruct Hin as [->|Hin].
    - rewrite sumL_none; [ring|]. intros v Hv. apply H; [auto|]. intros ->. contradiction.
    - rewrite IH by auto. rewrite H; [ring|auto|]. intros ->. contradiction.
  Qed.

  Lemma sumL_aux_unit n lo (f : Z -> R) :
    sumL (zrange_aux n lo 1) f = sum_nat n (fun k => f (lo + Z.of_nat k)%Z).
  Proof.
    revert lo f; induction n as [|n IH]; intros lo f; [reflexivity|].
    cbn [zrange_aux sumL]. rewrite IH.
    rewrite (sum_nat_shift R n (fun k => f (lo + Z.of_nat k)%Z)).
    f_equal; [f_equal; lia|]. apply sum_nat_ext. intros k _. f_equal. lia.
  Qed.

  Lemma sumL_range0 n (f : Z -> R) : sumL (zrange 0 n 1) f = sumZ n f.
  Proof.
    unfold zrange. change (1 <=? 0)%Z with false. cbv iota. rewrite sumL_aux_unit. unfold sumZ.
    replace ((n - 0 + 1 - 1) / 1)%Z with n by (rewrite Z.div_1_r; lia).
    apply sum_nat_ext. intros; f_equal.
  Qed.
End IRSum.
