(* WaveletPywt.v — PyWavelets call by call: the four library functions sigpy/wavelet.py uses, as an
   environment record, and the composite oracles (cshape_of, W, Wr) of model/Wavelet.v / (cs, WW, WWr) of
   model/OpaqueWavelet.v written out in terms of them.  Definitions only.

   This file makes the header comment of model/Wavelet.v formal:
       W  = coeffs_to_array . wavedecn (., wave, mode='zero', axes, level)          (padded box -> coefficient box)
       Wr = waverecn (., wave, mode='zero', axes) . array_to_coeffs (., slices, 'wavedecn')
       cshape_of = shape of coeffs_to_array (wavedecn (zeros (padded shape), wave, mode='zero', axes, level))
   It is what tools/translate_wavelet.py targets: the generated definitions of gen/Gen_wavelet.v are written over the
   fields of [pywt], and the lemmas there state  generated = hand model instantiated with the composites below.

   Readings (PyWavelets is the environment, nothing is assumed about the values of its functions):
     * an array is a pair (shape : list Z, data : list Z -> R), as everywhere in the models;
     * the coefficient structure returned by wavedecn (a list [cAn, {details}, ...] of arrays) is a pair
       (cstruct, cdata): the STRUCTURE (levels, keys and shapes of all the arrays) depends only on the shape of the
       data and on (wavelet, mode, level, axes) — never on the values — and cdata carries the values;
       this is why get_wavelet_shape may run wavedecn on np.zeros to learn the shape fwt will produce;
     * coeffs_to_array (coeffs, padding=0, axes) returns (array, coeff_slices): the array's shape and the slices are
       functions of the structure, its data of structure and values;
     * array_to_coeffs (arr, coeff_slices, output_format) reads arr only through the given slices;
     * waverecn (coeffs, wavelet, mode, axes) takes no level; the SHAPE of its result is a parameter of the
       model (rshape of model/Wavelet.v iwt), its data a function of the coefficient values;
     * wavelet names are integer codes (vlib/linser.py), modes the integers of pywt.Modes, output formats 0/1/2;
       axes : option (list Z) is None or the raw sequence (negative entries included); level : option Z. *)
From Coq Require Import ZArith List Bool String.
From SV Require Import lib.Scalar lib.NdArray model.Rearrange model.Wavelet.
Import ListNotations.
Local Open Scope Z_scope.

(* pywt.Modes *)
Definition mode_zero : Z := 0.
Definition mode_symmetric : Z := 1.          (* the default of wavedecn / waverecn *)
Definition mode_constant : Z := 2.
Definition mode_smooth : Z := 3.
Definition mode_periodic : Z := 4.
Definition mode_periodization : Z := 5.
Definition mode_reflect : Z := 6.
Definition mode_antisymmetric : Z := 7.
Definition mode_antireflect : Z := 8.

(* output_format of array_to_coeffs *)
Definition fmt_wavedecn : Z := 0.            (* the default *)
Definition fmt_wavedec : Z := 1.
Definition fmt_wavedec2 : Z := 2.

Record pywt (R : Ops) := mkPywt {
  cstruct : Type;                            (* structure of a wavedecn coefficient list *)
  cdata : Type;                              (* its values *)
  cslices : Type;                            (* coeff_slices *)
  (* wavedecn (data, wavelet, mode, level, axes): arguments in the order of the Python signature, data = (shape, values) *)
  wavedecn_struct : list Z -> Z -> Z -> option Z -> option (list Z) -> cstruct;
  wavedecn_data : list Z -> (list Z -> R) -> Z -> Z -> option Z -> option (list Z) -> cdata;
  (* coeffs_to_array (coeffs, padding=0, axes) = ((c2a_shape, c2a_data), c2a_slices) *)
  c2a_shape : cstruct -> option (list Z) -> list Z;
  c2a_slices : cstruct -> option (list Z) -> cslices;
  c2a_data : cstruct -> cdata -> option (list Z) -> list Z -> R;
  (* array_to_coeffs (arr, coeff_slices, output_format): the values *)
  a2c_data : (list Z -> R) -> cslices -> Z -> cdata;
  (* waverecn (coeffs, wavelet, mode, axes): the values *)
  waverecn_data : cdata -> Z -> Z -> option (list Z) -> list Z -> R
}.

Arguments cstruct {R}. Arguments cdata {R}. Arguments cslices {R}.
Arguments wavedecn_struct {R}. Arguments wavedecn_data {R}.
Arguments c2a_shape {R}. Arguments c2a_slices {R}. Arguments c2a_data {R}.
Arguments a2c_data {R}. Arguments waverecn_data {R}.

Section Composite.
  Variable R : Ops.
  Variable P : pywt R.

  (* the indices in the order of model/OpaqueWavelet.v: axes, wavelet code, level, then the padded shape *)
  Definition struct_of (axes : option (list Z)) (wave : Z) (level : option Z) (s : list Z) : cstruct P :=
    wavedecn_struct P s wave mode_zero level axes.

  Definition cs_of (axes : option (list Z)) (wave : Z) (level : option Z) (s : list Z) : list Z :=
    c2a_shape P (struct_of axes wave level s) axes.

  Definition slices_of (axes : option (list Z)) (wave : Z) (level : option Z) (s : list Z) : cslices P :=
    c2a_slices P (struct_of axes wave level s) axes.

  Definition W_of (axes : option (list Z)) (wave : Z) (level : option Z) (s : list Z) (x : list Z -> R) : list Z -> R :=
    c2a_data P (struct_of axes wave level s) (wavedecn_data P s x wave mode_zero level axes) axes.

  (* the coefficient array is split with the slices get_wavelet_shape returned for the padded shape s *)
  Definition Wr_of (axes : option (list Z)) (wave : Z) (level : option Z) (s : list Z) (c : list Z -> R) : list Z -> R :=
    waverecn_data P (a2c_data P c (slices_of axes wave level s) fmt_wavedecn) wave mode_zero axes.
End Composite.

Arguments struct_of {R}. Arguments cs_of {R}. Arguments slices_of {R}. Arguments W_of {R}. Arguments Wr_of {R}.

(* the defaults of the keyword parameters (wave_name, axes, level) of get_wavelet_shape / fwt / iwt and of the
   Linop classes Wavelet / InverseWavelet *)
Definition wavelet_defaults : string * option (list Z) * option Z := ("db4"%string, None, None).
