(* ProxGrad.v — executable Gallina models of sigpy.alg.GradientMethod (ISTA / FISTA)
   and sigpy.alg.PrimalDualHybridGradient, written ONCE over abstract scalar and
   vector operations, statement by statement from /repo/sigpy/alg.py.

   The same terms are instantiated
     - on hardware floats / lists of floats in run/RunC13.v (trajectory correspondence),
     - on R and an abstract real inner-product space in proofs/ProxGrad.v, proofs/Pdhg.v.
   Definitions only; no proofs here. *)
From Coq Require Import List Bool.
Import ListNotations.

(* scalar operations (no laws).  [sgt0 a] reads the Python test `a > 0`, [seq0 a] reads `a == 0`. *)
Record SOps := mkSOps {
  Sc :> Type;
  s0 : Sc; s1 : Sc; s2 : Sc; s4 : Sc;
  sadd : Sc -> Sc -> Sc; ssub : Sc -> Sc -> Sc; smul : Sc -> Sc -> Sc; sdiv : Sc -> Sc -> Sc;
  sopp : Sc -> Sc;
  ssqrt : Sc -> Sc;
  smax : Sc -> Sc -> Sc;      (* Python max(a, b): b if b > a else a *)
  sgt0 : Sc -> bool;
  seq0 : Sc -> bool }.

Arguments s0 {_}. Arguments s1 {_}. Arguments s2 {_}. Arguments s4 {_}.
Arguments sadd {_}. Arguments ssub {_}. Arguments smul {_}. Arguments sdiv {_}.
Arguments sopp {_}. Arguments ssqrt {_}. Arguments smax {_}. Arguments sgt0 {_}. Arguments seq0 {_}.

(* ------------------------------------------------------------------------- *)
(* GradientMethod                                                              *)
(* ------------------------------------------------------------------------- *)
Section GradientMethod.
  Variable S : SOps.
  Variable V : Type.
  Variables (vadd vsub : V -> V -> V) (vscale : S -> V -> V) (vnorm : V -> S).
  Variable gradf : V -> V.

  (* attributes x, z, t, resid.  (z and t exist in Python only when accelerate=True;
     the model carries them unchanged otherwise.) *)
  Record gm_state := mkGM { gm_x : V; gm_z : V; gm_t : S; gm_resid : S }.

  (* __init__: z = x.copy(); t = 1; resid = inf (passed in as [r0]) *)
  Definition gm_init (x : V) (r0 : S) : gm_state := mkGM x x s1 r0.

  (* t = (1 + (1 + 4 * t_old**2) ** 0.5) / 2 *)
  Definition t_next (t_old : S) : S :=
    sdiv (sadd s1 (ssqrt (sadd s1 (smul s4 (smul t_old t_old))))) s2.

  (* _update *)
  Definition gm_step (accelerate : bool) (alpha : S) (proxg : option (S -> V -> V)) (st : gm_state) : gm_state :=
    let x_old := gm_x st in                                         (* x_old = self.x.copy() *)
    let x := if accelerate then gm_z st else gm_x st in              (* copyto(self.x, self.z) *)
    let x := vadd x (vscale (sopp alpha) (gradf x)) in               (* axpy(self.x, -alpha, gradf(self.x)) *)
    let x := match proxg with Some p => p alpha x | None => x end in (* copyto(self.x, proxg(alpha, self.x)) *)
    let resid := sdiv (vnorm (vsub x x_old)) alpha in                (* resid = norm(x - x_old) / alpha *)
    if accelerate then
      (* resid = max(resid, norm(x - z) / alpha), z still the point the step was taken from *)
      let resid := smax resid (sdiv (vnorm (vsub x (gm_z st))) alpha) in
      let t_old := gm_t st in
      let t := t_next t_old in
      let z := vadd x (vscale (sdiv (ssub t_old s1) t) (vsub x x_old)) in   (* z = x + ((t_old-1)/t) * (x - x_old) *)
      mkGM x z t resid
    else mkGM x (gm_z st) (gm_t st) resid.

  Fixpoint gm_iter (accelerate : bool) (alpha : S) (proxg : option (S -> V -> V)) (n : nat) (st : gm_state) : gm_state :=
    match n with
    | O => st
    | Datatypes.S k => gm_step accelerate alpha proxg (gm_iter accelerate alpha proxg k st)
    end.

  (* all states after 1..n updates, in order *)
  Fixpoint gm_traj (accelerate : bool) (alpha : S) (proxg : option (S -> V -> V)) (n : nat) (st : gm_state) : list gm_state :=
    match n with
    | O => []
    | Datatypes.S k => let st' := gm_step accelerate alpha proxg st in st' :: gm_traj accelerate alpha proxg k st'
    end.
End GradientMethod.

Arguments mkGM {S V}. Arguments gm_x {S V}. Arguments gm_z {S V}. Arguments gm_t {S V}. Arguments gm_resid {S V}.

(* ------------------------------------------------------------------------- *)
(* PrimalDualHybridGradient                                                    *)
(* ------------------------------------------------------------------------- *)
(* A step size is a scalar or an array (positive diagonal); the model is abstract in the
   step types TX (primal) and TU (dual) and in how they act. *)
Section PDHG.
  Variable S : SOps.
  Variables X U TX TU : Type.
  Variables (xadd xsub : X -> X -> X) (xscale : S -> X -> X) (xnorm : X -> S).
  Variables (uadd usub : U -> U -> U) (unorm : U -> S).
  (* tau * v, -tau, tau * c (tau *= c), tau / c (tau /= c), v / tau**0.5, amin(abs(tau)) *)
  Variables (txact : TX -> X -> X) (txneg : TX -> TX) (txmuls : TX -> S -> TX) (txdivs : TX -> S -> TX)
            (txdivsqrt : X -> TX -> X) (txmin : TX -> S).
  Variables (tuact : TU -> U -> U) (tumuls : TU -> S -> TU) (tudivs : TU -> S -> TU)
            (tudivsqrt : U -> TU -> U) (tumin : TU -> S).
  Variables (A : X -> U) (AH : U -> X).
  Variables (proxfc : TU -> U -> U) (proxg : TX -> X -> X).

  Record pd_state := mkPD {
    pd_x : X; pd_u : U; pd_xext : X;
    pd_tau : TX; pd_sigma : TU;
    pd_tau_min : S; pd_sigma_min : S;
    pd_resid : S }.

  (* __init__: x_ext = x.copy(); tau_min / sigma_min only when the gamma is > 0 (placeholder s0 otherwise) *)
  Definition pd_init (x : X) (u : U) (tau : TX) (sigma : TU) (gamma_primal gamma_dual r0 : S) : pd_state :=
    mkPD x u x tau sigma
         (if sgt0 gamma_primal then txmin tau else s0)
         (if sgt0 gamma_dual then tumin sigma else s0)
         r0.

  (* 1 / (1 + 2 * gamma * m) ** 0.5 *)
  Definition theta_acc (gamma m : S) : S := sdiv s1 (ssqrt (sadd s1 (smul (smul s2 gamma) m))).

  Definition pd_step (theta0 gamma_primal gamma_dual : S) (st : pd_state) : pd_state :=
    (* Update dual. *)
    let u_old := pd_u st in
    let u := uadd (pd_u st) (tuact (pd_sigma st) (A (pd_xext st))) in    (* axpy(u, sigma, A(x_ext)) *)
    let u := proxfc (pd_sigma st) u in                                    (* copyto(u, proxfc(sigma, u)) *)
    let resid_dual := unorm (tudivsqrt (usub u u_old) (pd_sigma st)) in   (* norm((u - u_old) / sigma**0.5) *)
    (* Update primal. *)
    let x_old := pd_x st in
    let x := xadd (pd_x st) (txact (txneg (pd_tau st)) (AH u)) in         (* axpy(x, -tau, AH(u)) *)
    let x := proxg (pd_tau st) x in                                       (* copyto(x, proxg(tau, x)) *)
    (* Update step-size if necessary. *)
    let '(theta, tau, tau_min, sigma, sigma_min) :=
      if sgt0 gamma_primal && seq0 gamma_dual then
        let theta := theta_acc gamma_primal (pd_tau_min st) in
        (theta, txmuls (pd_tau st) theta, smul (pd_tau_min st) theta, tudivs (pd_sigma st) theta, pd_sigma_min st)
      else if seq0 gamma_primal && sgt0 gamma_dual then
        let theta := theta_acc gamma_dual (pd_sigma_min st) in
        (theta, txdivs (pd_tau st) theta, pd_tau_min st, tumuls (pd_sigma st) theta, smul (pd_sigma_min st) theta)
      else (theta0, pd_tau st, pd_tau_min st, pd_sigma st, pd_sigma_min st) in
    (* Extrapolate primal. *)
    let x_diff := xsub x x_old in
    let resid_primal := xnorm (txdivsqrt x_diff tau) in                   (* norm(x_diff / tau**0.5), tau already updated *)
    let resid := ssqrt (sadd (smul resid_primal resid_primal) (smul resid_dual resid_dual)) in
    mkPD x u (xadd x (xscale theta x_diff)) tau sigma tau_min sigma_min resid.

  Fixpoint pd_iter (theta0 gp gd : S) (n : nat) (st : pd_state) : pd_state :=
    match n with
    | O => st
    | Datatypes.S k => pd_step theta0 gp gd (pd_iter theta0 gp gd k st)
    end.

  Fixpoint pd_traj (theta0 gp gd : S) (n : nat) (st : pd_state) : list pd_state :=
    match n with
    | O => []
    | Datatypes.S k => let st' := pd_step theta0 gp gd st in st' :: pd_traj theta0 gp gd k st'
    end.
End PDHG.

Arguments mkPD {S X U TX TU}.
Arguments pd_x {S X U TX TU}. Arguments pd_u {S X U TX TU}. Arguments pd_xext {S X U TX TU}.
Arguments pd_tau {S X U TX TU}. Arguments pd_sigma {S X U TX TU}.
Arguments pd_tau_min {S X U TX TU}. Arguments pd_sigma_min {S X U TX TU}. Arguments pd_resid {S X U TX TU}.
