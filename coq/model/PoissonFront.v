(* model/PoissonFront.v — the part of sigpy/mri/samp.py:poisson (lines 51-103) that model/Poisson.v leaves ABSTRACT,
   written out over the same operations record [POps] plus four more real-like operations (no laws):

     the parameter check        if accel <= 1: raise ValueError
     the radius grid            y, x = np.mgrid[:ny, :nx];  x = np.maximum(abs(x - nx/2) - cx/2, 0);  x /= x.max();  (same for y)
                                r = np.sqrt(x**2 + y**2)
     the radii of one slope     radius_x = np.clip((1 + r * slope) * nx / max(nx, ny), 1, None)       (radius_y: ny)
     the corner crop            if crop_corner: mask *= r < 1
     the midpoint / the exit    slope = (slope_max + slope_min) / 2;  slope == slope_min or slope == slope_max

   [poisson_front] is [Poisson.poisson] instantiated with these ([radii], [ind], [mid], [geqb], [pabs] of Section Poisson),
   behind the parameter check.  Definitions only.  Nothing in proofs/Poisson.v or props/Prop_C18.v depends on this file: their
   theorems hold for EVERY radii / ind / mid / geqb / pabs, in particular for the ones below.  The file exists so that
   gen/Gen_poisson.v (regenerated from the source text by tools/translate_poisson.py on every run) has a hand-written
   counterpart for these lines too; each definition quotes the Python it mirrors.

   Readings.  Arrays of shape (ny, nx) are functions  y -> x -> T  (row index first).  np.mgrid[:ny, :nx] gives y[i, j] = i,
   x[i, j] = j (integers; they meet the float n/2, hence [pofZ]).  x.max() is the maximum over ALL ny*nx entries ([amax2], a left
   fold of the binary maximum in row-major order; without NaN the order is immaterial).  np.clip(a, 1, None) is np.maximum(a, 1).
   a ** 2 is a * a ([psq], as in model/Poisson.v).  A degenerate grid (calib == image size along an axis, so x.max() == 0) divides
   0 by 0 in the code; here that is whatever [pdiv] returns. *)
From Coq Require Import ZArith List Bool.
From SV Require Import model.Poisson.
Import ListNotations.
Local Open Scope Z_scope.

(* result of poisson(): the parameter check, then the search of model/Poisson.v *)
Inductive fresult (Res : Type) : Type :=
| BadAccel                       (* ValueError("accel must be greater than 1, ...") *)
| Searched (r : sresult Res).    (* outcome of the slope search: Returned (mask, actual_accel) | Raised | Unbound | SearchFuel *)
Arguments BadAccel {Res}. Arguments Searched {Res}.

Section Front.
  Context {T : POps}.
  Variable pabs : T -> T.                    (* abs(x) / np.abs *)
  Variable pmax : T -> T -> T.               (* np.maximum(a, b) *)
  Variable psqrt : T -> T.                   (* np.sqrt *)
  Variable peqb : T -> T -> bool.            (* a == b *)
  Variables ny nx : Z.                       (* ny, nx = img_shape *)
  Variables cy cx : Z.                       (* calib = (cy, cx) *)
  Variable crop_corner : bool.
  Variable max_attempts : Z.
  Variables accel tol : T.
  Variable streams : nat -> list (draw T).   (* the draws consumed by the k-th call of _poisson (np.random.seed(seed) restarts it) *)
  Variable fuel_k : nat.                     (* fuel of each _poisson run *)

  (* x.max(): maximum over the whole (ny, nx) array, row-major left fold starting from entry [0, 0] *)
  Definition amax2 (f : Z -> Z -> T) : T :=
    fold_left pmax (flat_map (fun y => map (fun x => f y x) (prange 0 nx)) (prange 0 ny)) (f 0 0).

  (* np.maximum(abs(i - n / 2) - c / 2, 0) *)
  Definition axis_dist (n c i : Z) : T :=
    pmax (psub (pabs (psub (pofZ i) (pdiv (pofZ n) (pofZ 2)))) (pdiv (pofZ c) (pofZ 2))) (pofZ 0).
  (* x = np.maximum(abs(x - img_shape[-1] / 2) - calib[-1] / 2, 0) ;  y likewise with [-2] *)
  Definition xdist : Z -> Z -> T := fun y x => axis_dist nx cx x.
  Definition ydist : Z -> Z -> T := fun y x => axis_dist ny cy y.
  (* x /= x.max() ;  y /= y.max() *)
  Definition xnorm : Z -> Z -> T := fun y x => pdiv (xdist y x) (amax2 xdist).
  Definition ynorm : Z -> Z -> T := fun y x => pdiv (ydist y x) (amax2 ydist).
  (* r = np.sqrt(x**2 + y**2) *)
  Definition rfield : Z -> Z -> T := fun y x => psqrt (padd (psq (xnorm y x)) (psq (ynorm y x))).

  (* np.clip((1 + r * slope) * n / max(nx, ny), 1, None) *)
  Definition radius_of (n : Z) (slope : T) : Z -> Z -> T :=
    fun y x => pmax (pdiv (pmul (padd (pofZ 1) (pmul (rfield y x) slope)) (pofZ n)) (pofZ (Z.max nx ny))) (pofZ 1).
  (* (radius_x, radius_y) of one slope *)
  Definition radii_t (slope : T) : (Z -> Z -> T) * (Z -> Z -> T) := (radius_of nx slope, radius_of ny slope).

  (* if crop_corner: mask *= r < 1      -- the factor is 1 everywhere when crop_corner is not set *)
  Definition ind_t : Z -> Z -> bool := fun y x => if crop_corner then pltb (rfield y x) (pofZ 1) else true.

  (* slope = (slope_max + slope_min) / 2 *)
  Definition mid_t (lo hi : T) : T := pdiv (padd hi lo) (pofZ 2).

  (* poisson(img_shape=(ny, nx), accel, calib=(cy, cx), crop_corner=.., max_attempts=.., tol=..) *)
  Definition poisson_front (fuel : nat) : fresult ((Z -> Z -> Z) * T) :=
    if pleb accel (pofZ 1) then BadAccel                                                (* if accel <= 1: raise ValueError *)
    else Searched (poisson nx ny max_attempts cy cx radii_t streams ind_t fuel_k accel tol pabs peqb mid_t fuel).
End Front.
