(* LLSExpr.v — the expression language in which tools/translate_lls.py writes down what
   sigpy.app.LinearLeastSquares configures (gen/Gen_lls.v), over the operations of model/LLS.v.
   Definitions only.  Three groups:

   (1) Linop expressions: a Linop IS the pair (apply, apply of its adjoint); the combinators are the
       readings of linop.py's operator algebra that app.py uses (each quotes the Python it reads):
         L.H, L.N, L1 * L2, a * L, L * a, L1 + L2, -L, Identity, Multiply(shape, scalar), Vstack([L1, L2]).
   (2) Prox expressions: prox.NoOp / L2Reg / Conj are [noop] / [l2reg] / [conj_prox] of model/LLS.v;
       prox.Stack([p1, p2]) is [stack_prox].
   (3) What _get_* hands to the solver classes of alg.py: one record per constructor, one field per
       constructor argument that the configuration determines (argument order and defaults are read from
       the signatures in alg.py by the translator).
   (4) The constructor signature of LinearLeastSquares (names in order, default values).             *)
From Coq Require Import ZArith List Bool String.
From SV Require Import model.ProxGrad model.LLS.
Import ListNotations.

Section Expr.
  Variable S : SOps.

  (* ---- (1) Linop expressions ------------------------------------------------------------------- *)
  Record linop (X Y : VOps S) := mkLin { fwd : X -> Y; adj : Y -> X }.
  Arguments mkLin {X Y}. Arguments fwd {X Y}. Arguments adj {X Y}.

  (* Linop.H *)
  Definition lH {X Y : VOps S} (L : linop X Y) : linop Y X := mkLin (adj L) (fwd L).
  (* L2 * L1 = Compose([L2, L1]):  x |-> L2(L1(x));  adjoint Compose([L1.H, L2.H]) *)
  Definition lcomp {X Y Z : VOps S} (L2 : linop Y Z) (L1 : linop X Y) : linop X Z :=
    mkLin (fun x => fwd L2 (fwd L1 x)) (fun z => adj L1 (adj L2 z)).
  (* Linop._normal_linop:  self.H * self *)
  Definition lN {X Y : VOps S} (L : linop X Y) : linop X X := lcomp (lH L) L.
  (* linop.Identity(shape) *)
  Definition lid (X : VOps S) : linop X X := mkLin (fun x => x) (fun x => x).
  (* linop.Multiply(shape, a) with a REAL scalar a:  x |-> x * a  (= a * x);  adjoint Multiply(shape, conj(a)) = itself *)
  Definition lmult (X : VOps S) (a : S) : linop X X := mkLin (vscale a) (vscale a).
  (* a * L = Linop.__rmul__:  Compose([Multiply(L.oshape, a), L]) *)
  Definition lscale {X Y : VOps S} (a : S) (L : linop X Y) : linop X Y := lcomp (lmult Y a) L.
  (* L * a = Linop.__mul__ with a scalar:  Compose([L, Multiply(L.ishape, a)]) *)
  Definition lmulr {X Y : VOps S} (L : linop X Y) (a : S) : linop X Y := lcomp L (lmult X a).
  (* L1 + L2 = Add([L1, L2]):  x |-> 0 + L1(x) + L2(x);  adjoint Add([L1.H, L2.H]) *)
  Definition ladd {X Y : VOps S} (L1 L2 : linop X Y) : linop X Y :=
    mkLin (fun x => vadd (fwd L1 x) (fwd L2 x)) (fun y => vadd (adj L1 y) (adj L2 y)).
  (* -L = Linop.__neg__:  -1 * L *)
  Definition lneg {X Y : VOps S} (L : linop X Y) : linop X Y := lscale (sopp s1) L.
  (* linop.Vstack([L1, L2]) (axis=None): x |-> the two outputs, vectorised and concatenated = the pair;
     adjoint Hstack([L1.H, L2.H]): (u1, u2) |-> 0 + L1.H(u1) + L2.H(u2) *)
  Definition lvstack {X Y W : VOps S} (L1 : linop X Y) (L2 : linop X W) : linop X (prodV S Y W) :=
    @mkLin X (prodV S Y W) (fun x => (fwd L1 x, fwd L2 x)) (fun u => vadd (adj L1 (fst u)) (adj L2 (snd u))).

  (* ---- (2) prox.Stack([p1, p2]): splits the input, applies p1 / p2 with the same alpha ------------ *)
  Definition stack_prox {Y W : VOps S} (p1 : S -> Y -> Y) (p2 : S -> W -> W) : S -> prodV S Y W -> prodV S Y W :=
    fun (alpha : S) (u : prodV S Y W) => ((p1 alpha (fst u), p2 alpha (snd u)) : prodV S Y W).

  (* ---- (3) constructor calls ------------------------------------------------------------------- *)
  (* ConjugateGradient(A, b, x, P=None, max_iter=100, tol=0) *)
  Record cg_call (X : VOps S) := mkCGCall {
    cgc_A : X -> X; cgc_b : X; cgc_x : X; cgc_P : option (X -> X); cgc_max_iter : Z; cgc_tol : S }.
  (* GradientMethod(gradf, x, alpha, proxg=None, accelerate=False, max_iter=100, tol=0) *)
  Record gm_call (X : VOps S) := mkGMCall {
    gmc_gradf : X -> X; gmc_x : X; gmc_alpha : S; gmc_proxg : option (S -> X -> X); gmc_accelerate : bool;
    gmc_max_iter : Z; gmc_tol : S }.
  (* PrimalDualHybridGradient(proxfc, proxg, A, AH, x, u, tau, sigma, theta=1, gamma_primal=0, gamma_dual=0, max_iter=100, tol=0) *)
  Record pd_call (X U : VOps S) := mkPDCall {
    pdc_proxfc : S -> U -> U; pdc_proxg : S -> X -> X; pdc_A : X -> U; pdc_AH : U -> X; pdc_x : X; pdc_u : U;
    pdc_tau : S; pdc_sigma : S; pdc_theta : S; pdc_gamma_primal : S; pdc_gamma_dual : S; pdc_max_iter : Z; pdc_tol : S }.
  (* ADMM(minL_x, minL_z, x, z, u, A, B, c, max_iter=30) with c the Python integer 0 (checked by the translator).
     The two closures are functions of the arrays they capture, (self.x, v, u) at the time of the call:
     minL_x runs an inner ConjugateGradient to the end (the field gives that call; its result overwrites self.x),
     minL_z overwrites v (the field gives the new value). *)
  Record admm_call (X W : VOps S) := mkADMMCall {
    adc_minL_x : X -> W -> W -> cg_call X; adc_minL_z : X -> W -> W -> W;
    adc_x : X; adc_z : W; adc_u : W; adc_A : X -> W; adc_B : W -> W; adc_max_iter : Z }.

  (* the steps these calls perform (model/ProxGrad.v) *)
  Definition gm_call_step {X : VOps S} (c : gm_call X) : gm_state S X -> gm_state S X :=
    gm_step S X vadd vsub vscale vnrm (gmc_gradf X c) (gmc_accelerate X c) (gmc_alpha X c) (gmc_proxg X c).
  Definition pd_call_step {X U : VOps S} (c : pd_call X U) : pd_state S X U S S -> pd_state S X U S S :=
    pd_step_scalar S X U (pdc_A X U c) (pdc_AH X U c) (pdc_proxfc X U c) (pdc_proxg X U c)
                   (pdc_theta X U c) (pdc_gamma_primal X U c) (pdc_gamma_dual X U c).
End Expr.

Arguments mkLin {S X Y}. Arguments fwd {S X Y}. Arguments adj {S X Y}.
Arguments lH {S X Y}. Arguments lcomp {S X Y Z}. Arguments lN {S X Y}. Arguments lid {S}. Arguments lmult {S}.
Arguments lscale {S X Y}. Arguments lmulr {S X Y}. Arguments ladd {S X Y}. Arguments lneg {S X Y}. Arguments lvstack {S X Y W}.
Arguments stack_prox {S Y W}.
Arguments mkCGCall {S X}. Arguments mkGMCall {S X}. Arguments mkPDCall {S X U}. Arguments mkADMMCall {S X W}.
Arguments gm_call_step {S X}. Arguments pd_call_step {S X U}.

(* ---- (4) LinearLeastSquares.__init__(self, A, y, x=None, proxg=None, lamda=0, ...) ------------------ *)
Inductive pydefault :=
| PyRequired                 (* no default *)
| PyNone
| PyInt (z : Z)
| PyBool (b : bool).

Local Open Scope string_scope.
Local Open Scope Z_scope.
(* what the check props/C14.py and the theorems rely on: solver=None selects by default_solver; lamda=0; no proxg / G / z;
   step sizes defaulted through MaxEig with max_power_iter=30; accelerate=True; rho=1; max_cg_iter=10; tol=0 *)
Definition lls_signature : list (string * pydefault) :=
  [ ("A", PyRequired); ("y", PyRequired); ("x", PyNone); ("proxg", PyNone); ("lamda", PyInt 0); ("G", PyNone); ("g", PyNone);
    ("z", PyNone); ("solver", PyNone); ("max_iter", PyInt 100); ("P", PyNone); ("alpha", PyNone); ("max_power_iter", PyInt 30);
    ("accelerate", PyBool true); ("tau", PyNone); ("sigma", PyNone); ("rho", PyInt 1); ("max_cg_iter", PyInt 10); ("tol", PyInt 0);
    ("save_objective_values", PyBool false); ("show_pbar", PyBool true); ("leave_pbar", PyBool true) ].

(* the options of a call that passes only A and y: flags of the decision function *)
Definition lls_default_flags : lls_flags := mkFlags SolNone false false false false.
