(* InterpW.v — hand model of what sigpy/interp.py says AROUND the wrappers interpolate / gridding of model/Interp.v
   (definitions only): the public signatures' defaults, the kernel-name tables (_get_interpolate / _get_gridding,
   KERNELS), and the Kaiser-Bessel kernel function _kaiser_bessel_kernel (Abramowitz & Stegun 9.8.1 / 9.8.2
   polynomial approximations of I0) over the coordinate operations COps plus two oracles (square root, exponential).
   tools/translate_interpw.py regenerates each of these from the source text on every run (gen/Gen_interpw.v) and
   proves the generated definitions equal to the ones below. *)
From Coq Require Import ZArith List Bool.
From SV Require Import lib.Coord.
Import ListNotations.
Local Open Scope Z_scope.

(* ---- names ---- *)
Inductive kname := KSpline | KKaiserBessel.          (* the strings "spline", "kaiser_bessel" *)
Inductive kfun := FSpline | FKaiserBessel.           (* the functions _spline_kernel, _kaiser_bessel_kernel *)

(* KERNELS: the keys of the module-level dispatch dictionaries _interpolate / _gridding *)
Definition kernels : list kname := [KSpline; KKaiserBessel].

(* what _get_interpolate(name) / _get_gridding(name) bind the closure variable `kernel` of the loop kernels to *)
Definition kernel_of (k : kname) : kfun :=
  match k with KSpline => FSpline | KKaiserBessel => FKaiserBessel end.

(* the loop kernels each getter returns, in tuple order: (dimension, is-gridding) *)
Definition interpolate_members : list (Z * bool) := [(1, false); (2, false); (3, false)].
Definition gridding_members : list (Z * bool) := [(1, true); (2, true); (3, true)].

(* defaults of interpolate(input, coord, kernel="spline", width=2, param=1) and
   gridding(input, coord, shape, kernel="spline", width=2, param=1): linear interpolation *)
Record wdefaults := mkWDefaults { d_kernel : kname; d_width : Z; d_param : Z }.
Definition interpolate_defaults : wdefaults := mkWDefaults KSpline 2 1.
Definition gridding_defaults : wdefaults := mkWDefaults KSpline 2 1.

(* ---- the Kaiser-Bessel kernel ---- *)
Section KB.
  Variable C : COps.
  Variable csqrt : C -> C.       (* t ** 0.5 *)
  Variable cexp : C -> C.        (* np.exp *)

  (* the decimal literal  n / 10^k  (both exactly representable: the correctly rounded quotient IS the literal's double) *)
  Definition cdec (n : Z) (k : nat) : C := cdiv (cofZ n) (cofZ (10 ^ Z.of_nat k)).
  (* t ** n for a positive integer literal n, as a product (t ** 2 = t * t as in the generated _spline_kernel) *)
  Fixpoint cpow (t : C) (n : nat) : C :=
    match n with
    | O => cofZ 1
    | S O => t
    | S n' => cmul t (cpow t n')
    end.
  Definition cinv (t : C) : C := cdiv (cofZ 1) t.          (* t ** -1 *)

  (* A&S 9.8.1: I0(x) ~ 1 + sum c_j t^(2j), t = x / 3.75, for x < 3.75:  (digits, decimals, power of t) *)
  Definition kb_small : list (Z * nat * nat) :=
    [(35156229, 7%nat, 2%nat); (30899424, 7%nat, 4%nat); (12067492, 7%nat, 6%nat); (2659732, 7%nat, 8%nat);
     (360768, 7%nat, 10%nat); (45813, 7%nat, 12%nat)].
  (* A&S 9.8.2: sqrt(x) exp(-x) I0(x) ~ 0.39894228 + sum d_j t^-j for x >= 3.75:  (subtracted?, digits, decimals, power) *)
  Definition kb_large : list (bool * Z * nat * nat) :=
    [(false, 1328592, 8%nat, 1%nat); (false, 225319, 8%nat, 2%nat); (true, 157565, 8%nat, 3%nat);
     (false, 916281, 8%nat, 4%nat); (true, 2057706, 8%nat, 5%nat); (false, 2635537, 8%nat, 6%nat);
     (true, 1647633, 8%nat, 7%nat); (false, 392377, 8%nat, 8%nat)].

  Definition kaiser_bessel_kernel (x beta : C) : C :=
    if cltb (cofZ 1) (cabs x) then cofZ 0 else
    let x' := cmul beta (csqrt (csub (cofZ 1) (cmul x x))) in
    let t := cdiv x' (cdec 375 2) in
    if cltb x' (cdec 375 2) then
      fold_left (fun (acc : C) (c : Z * nat * nat) => cadd acc (cmul (cdec (fst (fst c)) (snd (fst c))) (cpow t (snd c))))
                kb_small (cofZ 1)
    else
      cmul (cmul (cinv (csqrt x')) (cexp x'))
           (fold_left (fun (acc : C) (c : bool * Z * nat * nat) =>
                         let term := cmul (cdec (snd (fst (fst c))) (snd (fst c))) (cinv (cpow t (snd c))) in
                         if fst (fst (fst c)) then csub acc term else cadd acc term)
                      kb_large (cdec 39894228 8)).
End KB.
