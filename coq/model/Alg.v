(* Alg.v — executable Gallina models of sigpy.alg.Alg (base class: update / done / the
   canonical driver loop), ConjugateGradient, PowerMethod, and the residual / stopping
   part of GradientMethod, PrimalDualHybridGradient and NewtonsMethod, written ONCE over
   an abstract record of scalar and vector operations [IPOps], statement by statement
   from /repo/sigpy/alg.py.

   The same terms are instantiated
     - on hardware floats / lists of floats with a dense matrix (run/RunC12.v, run/RunC15.v),
     - on R and an abstract real inner-product space (proofs/CG.v, proofs/Stopping.v).
   Definitions only; no proofs here. *)
From Coq Require Import ZArith List Bool.
Import ListNotations.
Local Open Scope Z_scope.

(* ------------------------------------------------------------------------- *)
(* operations (no laws)                                                        *)
(* ------------------------------------------------------------------------- *)
Record IPOps := mkIPOps {
  Sc : Type;                       (* real-like scalars *)
  Vec : Type;                      (* vectors *)
  s0 : Sc; s1 : Sc;
  sadd : Sc -> Sc -> Sc; ssub : Sc -> Sc -> Sc; smul : Sc -> Sc -> Sc; sdiv : Sc -> Sc -> Sc;
  sopp : Sc -> Sc;
  ssqrt : Sc -> Sc;                (* Python `v ** 0.5` / numpy norm *)
  sleb : Sc -> Sc -> bool;         (* Python `a <= b` *)
  vadd : Vec -> Vec -> Vec; vsub : Vec -> Vec -> Vec;
  vscale : Sc -> Vec -> Vec;
  vdivs : Vec -> Sc -> Vec;        (* elementwise `v / s` *)
  vdot : Vec -> Vec -> Sc          (* xp.real(xp.vdot(a, b)) *) }.

Arguments s0 {_}. Arguments s1 {_}. Arguments sadd {_}. Arguments ssub {_}. Arguments smul {_}.
Arguments sdiv {_}. Arguments sopp {_}. Arguments ssqrt {_}. Arguments sleb {_}.
Arguments vadd {_}. Arguments vsub {_}. Arguments vscale {_}. Arguments vdivs {_}. Arguments vdot {_}.

(* ------------------------------------------------------------------------- *)
(* class Alg: update(), done(), `while not alg.done(): alg.update()`            *)
(* ------------------------------------------------------------------------- *)
(* A subclass supplies the state type, the accessors of the two base-class attributes
   [iter], [max_iter], its [_update] and its [_done].  [_update] acts on the whole state
   (so an override that touches [iter] itself is expressible, and is then NOT covered by
   the frame hypotheses of the driver theorem). *)
Record AlgClass (St : Type) := mkAlgClass {
  get_iter : St -> Z;
  get_max_iter : St -> Z;
  set_iter : Z -> St -> St;
  upd_ : St -> St;                  (* self._update() *)
  done_ : St -> bool                (* self._done()   *) }.
Arguments get_iter {St}. Arguments get_max_iter {St}. Arguments set_iter {St}.
Arguments upd_ {St}. Arguments done_ {St}.

Section Driver.
  Context {St : Type} (C : AlgClass St).

  (* def update(self): self._update(); self.iter += 1 *)
  Definition update (st : St) : St :=
    let st' := upd_ C st in set_iter C (get_iter C st' + 1) st'.

  (* def done(self): return self._done() *)
  Definition done (st : St) : bool := done_ C st.

  Fixpoint iter_update (n : nat) (st : St) : St :=
    match n with O => st | S k => update (iter_update k st) end.

  (* while not alg.done(): alg.update()      (fuel: see [run]) *)
  Fixpoint run_fuel (fuel : nat) (st : St) : St :=
    match fuel with
    | O => st
    | S f => if done st then st else run_fuel f (update st)
    end.
  (* number of updates the loop performs *)
  Fixpoint run_count (fuel : nat) (st : St) : nat :=
    match fuel with
    | O => O
    | S f => if done st then O else S (run_count f (update st))
    end.
  (* the loop: max_iter - iter iterations always suffice (theorem driver_bound shows that
     the loop condition is false at exit, so the fuel is never what stops it) *)
  Definition run_budget (st : St) : nat := Z.to_nat (get_max_iter C st - get_iter C st).
  Definition run (st : St) : St := run_fuel (run_budget st) st.
  Definition run_updates (st : St) : nat := run_count (run_budget st) st.

  (* an arbitrary client: any interleaving of done() queries and update() calls *)
  Inductive action := ADone | AUpdate.
  (* returns the final state, the answers of the done() queries, and iter after each update *)
  Fixpoint exec_actions (acts : list action) (st : St) : St * list bool * list Z :=
    match acts with
    | [] => (st, [], [])
    | ADone :: rest =>
        let '(st', ds, its) := exec_actions rest st in (st', done st :: ds, its)
    | AUpdate :: rest =>
        let st1 := update st in
        let '(st', ds, its) := exec_actions rest st1 in (st', ds, get_iter C st1 :: its)
    end.
  Fixpoint count_updates (acts : list action) : nat :=
    match acts with [] => O | ADone :: r => count_updates r | AUpdate :: r => S (count_updates r) end.
End Driver.

(* ------------------------------------------------------------------------- *)
(* ConjugateGradient                                                           *)
(* ------------------------------------------------------------------------- *)
Section CG.
  Variable E : IPOps.
  Notation V := (Vec E).
  Notation S := (Sc E).
  Variable A : V -> V.               (* self.A : Linop or function *)
  Variable b : V.                    (* self.b *)
  Variable P : option (V -> V).      (* self.P : None or function *)

  (* attributes, in the order of the source *)
  Record cg_state := mkCG {
    cg_x : V; cg_r : V; cg_p : V;
    cg_rzold : S; cg_resid : S;
    cg_iter : Z;
    cg_npd : bool;                   (* not_positive_definite *)
    cg_max_iter : Z; cg_tol : S }.

  Definition cg_applyP (r : V) : V := match P with None => r | Some Pf => Pf r end.

  (* __init__(A, b, x, P, max_iter, tol) *)
  Definition cg_init (x : V) (max_iter : Z) (tol : S) : cg_state :=
    let r := vsub b (A x) in                       (* self.r = b - self.A(self.x) *)
    let z := cg_applyP r in                        (* z = self.r  |  z = self.P(self.r) *)
    let p := z in                                  (* self.p = z.copy() if max_iter > 1 else z  (equal values) *)
    let rzold := vdot r z in                       (* self.rzold = real(vdot(r, z)) *)
    mkCG x r p rzold (ssqrt rzold)                 (* self.resid = rzold ** 0.5 *)
         0 false max_iter tol.                     (* Alg.__init__: iter = 0 *)

  (* _update *)
  Definition cg__update (st : cg_state) : cg_state :=
    let Ap := A (cg_p st) in                                        (* Ap = self.A(self.p) *)
    let pAp := vdot (cg_p st) Ap in                                 (* pAp = real(vdot(p, Ap)) *)
    if sleb pAp s0 then                                             (* if pAp <= 0: *)
      mkCG (cg_x st) (cg_r st) (cg_p st) (cg_rzold st) (cg_resid st) (cg_iter st)
           true (cg_max_iter st) (cg_tol st)                        (*   not_positive_definite = True; return *)
    else
      let alpha := sdiv (cg_rzold st) pAp in                        (* alpha = rzold / pAp *)
      let x := vadd (cg_x st) (vscale alpha (cg_p st)) in           (* axpy(x, alpha, p) *)
      if cg_iter st <? cg_max_iter st - 1 then                      (* if self.iter < self.max_iter - 1: *)
        let r := vadd (cg_r st) (vscale (sopp alpha) Ap) in         (*   axpy(r, -alpha, Ap) *)
        let z := cg_applyP r in                                     (*   z = P(r) | r *)
        let rznew := vdot r z in                                    (*   rznew = real(vdot(r, z)) *)
        let beta := sdiv rznew (cg_rzold st) in                     (*   beta = rznew / rzold *)
        let p := vadd (vscale beta (cg_p st)) z in                  (*   xpay(p, beta, z): p *= beta; p += z *)
        mkCG x r p rznew (ssqrt rznew)                              (*   rzold = rznew; resid = rzold ** 0.5 *)
             (cg_iter st) (cg_npd st) (cg_max_iter st) (cg_tol st)
      else
        mkCG x (cg_r st) (cg_p st) (cg_rzold st) (ssqrt (cg_rzold st))   (* resid = rzold ** 0.5 *)
             (cg_iter st) (cg_npd st) (cg_max_iter st) (cg_tol st).

  (* _done *)
  Definition cg__done (st : cg_state) : bool :=
    (cg_max_iter st <=? cg_iter st) || cg_npd st || sleb (cg_resid st) (cg_tol st).

  Definition cg_set_iter (k : Z) (st : cg_state) : cg_state :=
    mkCG (cg_x st) (cg_r st) (cg_p st) (cg_rzold st) (cg_resid st) k (cg_npd st) (cg_max_iter st) (cg_tol st).

  Definition CGClass : AlgClass cg_state :=
    mkAlgClass cg_state cg_iter cg_max_iter cg_set_iter cg__update cg__done.

  Definition cg_update : cg_state -> cg_state := update CGClass.
  Definition cg_done : cg_state -> bool := done CGClass.
  Definition cg_run : cg_state -> cg_state := run CGClass.
  (* state after k calls of update() *)
  Definition cg_seq (x0 : V) (max_iter : Z) (tol : S) (k : nat) : cg_state :=
    iter_update CGClass k (cg_init x0 max_iter tol).
End CG.

Arguments cg_x {E}. Arguments cg_r {E}. Arguments cg_p {E}. Arguments cg_rzold {E}.
Arguments cg_resid {E}. Arguments cg_iter {E}. Arguments cg_npd {E}. Arguments cg_max_iter {E}.
Arguments cg_tol {E}. Arguments mkCG {E}.

(* ------------------------------------------------------------------------- *)
(* PowerMethod                                                                 *)
(* ------------------------------------------------------------------------- *)
Section Power.
  Variable E : IPOps.
  Notation V := (Vec E).
  Notation S := (Sc E).
  Variable A : V -> V.

  Definition vnorm (v : V) : S := ssqrt (vdot v v).      (* xp.linalg.norm(v) *)

  Record pm_state := mkPM { pm_x : V; pm_max_eig : S; pm_iter : Z; pm_max_iter : Z }.

  (* __init__: max_eig = inf (passed in) *)
  Definition pm_init (x : V) (inf : S) (max_iter : Z) : pm_state := mkPM x inf 0 max_iter.

  (* _update: y = A(x); max_eig = norm(y); x = y / max_eig   (elementwise division) *)
  Definition pm__update (st : pm_state) : pm_state :=
    let y := A (pm_x st) in
    let m := vnorm y in
    mkPM (vdivs y m) m (pm_iter st) (pm_max_iter st).

  Definition pm__done (st : pm_state) : bool := pm_max_iter st <=? pm_iter st.
  Definition pm_set_iter (k : Z) (st : pm_state) := mkPM (pm_x st) (pm_max_eig st) k (pm_max_iter st).
  Definition PMClass : AlgClass pm_state := mkAlgClass pm_state pm_iter pm_max_iter pm_set_iter pm__update pm__done.
  Definition pm_seq (x0 : V) (inf : S) (max_iter : Z) (k : nat) : pm_state :=
    iter_update PMClass k (pm_init x0 inf max_iter).
End Power.
Arguments pm_x {E}. Arguments pm_max_eig {E}. Arguments pm_iter {E}. Arguments pm_max_iter {E}. Arguments mkPM {E}.
Arguments vnorm {E}.

(* ------------------------------------------------------------------------- *)
(* GradientMethod (the stopping-relevant reading: x, z, t, resid)               *)
(* ------------------------------------------------------------------------- *)
Section GM.
  Variable E : IPOps.
  Notation V := (Vec E).
  Notation S := (Sc E).
  Variable gradf : V -> V.
  Variable alpha : S.
  Variable proxg : option (S -> V -> V).
  Variable accelerate : bool.

  Record gm_state := mkGM { gm_x : V; gm_z : V; gm_t : S; gm_resid : S; gm_iter : Z; gm_max_iter : Z; gm_tol : S }.

  Definition s2 : S := sadd s1 s1.
  Definition s4 : S := sadd s2 s2.

  (* the operator T applied by one un-accelerated step: prox_{alpha g}(y - alpha gradf(y)) *)
  Definition gm_T (y : V) : V :=
    let y1 := vadd y (vscale (sopp alpha) (gradf y)) in            (* axpy(x, -alpha, gradf(x)) *)
    match proxg with Some pr => pr alpha y1 | None => y1 end.      (* copyto(x, proxg(alpha, x)) *)

  Definition gm_init (x : V) (inf : S) (max_iter : Z) (tol : S) : gm_state :=
    mkGM x x s1 inf 0 max_iter tol.                                (* z = x.copy(); t = 1; resid = inf *)

  Definition gm__update (st : gm_state) : gm_state :=
    let x_old := gm_x st in                                        (* x_old = self.x.copy() *)
    let x := gm_T (if accelerate then gm_z st else gm_x st) in     (* copyto(x, z) when accelerating; step; prox *)
    let resid := sdiv (vnorm (vsub x x_old)) alpha in              (* resid = norm(x - x_old) / alpha *)
    if accelerate then
      let rz := sdiv (vnorm (vsub x (gm_z st))) alpha in           (* norm(x - z) / alpha, z = the point stepped from *)
      let resid := if sleb rz resid then resid else rz in          (* resid = max(resid, rz)   [b > a ? b : a] *)
      let t_old := gm_t st in
      let t := sdiv (sadd s1 (ssqrt (sadd s1 (smul s4 (smul t_old t_old))))) s2 in
      let z := vadd x (vscale (sdiv (ssub t_old s1) t) (vsub x x_old)) in
      mkGM x z t resid (gm_iter st) (gm_max_iter st) (gm_tol st)
    else
      mkGM x (gm_z st) (gm_t st) resid (gm_iter st) (gm_max_iter st) (gm_tol st).

  Definition gm__done (st : gm_state) : bool := (gm_max_iter st <=? gm_iter st) || sleb (gm_resid st) (gm_tol st).
  Definition gm_set_iter (k : Z) (st : gm_state) :=
    mkGM (gm_x st) (gm_z st) (gm_t st) (gm_resid st) k (gm_max_iter st) (gm_tol st).
  Definition GMClass : AlgClass gm_state := mkAlgClass gm_state gm_iter gm_max_iter gm_set_iter gm__update gm__done.
End GM.
Arguments gm_x {E}. Arguments gm_z {E}. Arguments gm_t {E}. Arguments gm_resid {E}. Arguments gm_iter {E}.
Arguments gm_max_iter {E}. Arguments gm_tol {E}. Arguments mkGM {E}.

(* ------------------------------------------------------------------------- *)
(* PrimalDualHybridGradient, scalar step sizes (x in EX, u in EU, same scalars)  *)
(* ------------------------------------------------------------------------- *)
Section PDHG.
  (* primal space E (vectors X := Vec E); the dual space is given by its own operations
     over the SAME scalar type Sc E *)
  Variable E : IPOps.
  Notation X := (Vec E).
  Notation S := (Sc E).
  Variable U : Type.
  Variables (uadd usub : U -> U -> U) (uscale : S -> U -> U) (udivs : U -> S -> U) (udot : U -> U -> S).
  Variable A : X -> U.
  Variable AH : U -> X.
  Variable proxfc : S -> U -> U.
  Variable proxg : S -> X -> X.
  Variable theta0 : S.                 (* self.theta *)
  Variables (gamma_primal gamma_dual : S).
  Variable sgt0 : S -> bool.           (* Python `a > 0` *)
  Variable seq0 : S -> bool.           (* Python `a == 0` *)

  Record pdhg_state := mkPDHG {
    pd_x : X; pd_u : U; pd_x_ext : X;
    pd_tau : S; pd_sigma : S; pd_tau_min : S; pd_sigma_min : S;
    pd_resid : S; pd_iter : Z; pd_max_iter : Z; pd_tol : S }.

  Definition unorm (u : U) : S := ssqrt (udot u u).
  Definition s2' : S := sadd s1 s1.

  Definition pdhg_init (x : X) (u : U) (tau sigma inf : S) (max_iter : Z) (tol : S) : pdhg_state :=
    mkPDHG x u x tau sigma tau sigma inf 0 max_iter tol.   (* x_ext = x.copy(); tau_min = |tau|, sigma_min = |sigma| (positive steps) *)

  Definition pdhg__update (st : pdhg_state) : pdhg_state :=
    let sigma := pd_sigma st in
    let tau := pd_tau st in
    let u_old := pd_u st in
    let u1 := uadd (pd_u st) (uscale sigma (A (pd_x_ext st))) in        (* axpy(u, sigma, A(x_ext)) *)
    let u := proxfc sigma u1 in                                         (* copyto(u, proxfc(sigma, u)) *)
    let resid_dual := unorm (udivs (usub u u_old) (ssqrt sigma)) in   (* norm((u - u_old) / sigma**0.5) *)
    let x_old := pd_x st in
    let x1 := vadd (pd_x st) (vscale (sopp tau) (AH u)) in              (* axpy(x, -tau, AH(u)) *)
    let x := proxg tau x1 in                                            (* copyto(x, proxg(tau, x)) *)
    (* step-size update *)
    let '(theta, tau', sigma', tau_min', sigma_min') :=
      if sgt0 gamma_primal && seq0 gamma_dual then
        let th := sdiv s1 (ssqrt (sadd s1 (smul (smul s2' gamma_primal) (pd_tau_min st)))) in
        (th, smul tau th, sdiv sigma th, smul (pd_tau_min st) th, pd_sigma_min st)
      else if seq0 gamma_primal && sgt0 gamma_dual then
        let th := sdiv s1 (ssqrt (sadd s1 (smul (smul s2' gamma_dual) (pd_sigma_min st)))) in
        (th, sdiv tau th, smul sigma th, pd_tau_min st, smul (pd_sigma_min st) th)
      else (theta0, tau, sigma, pd_tau_min st, pd_sigma_min st) in
    let x_diff := vsub x x_old in                                       (* x_diff = x - x_old *)
    let resid_primal := vnorm (vdivs x_diff (ssqrt tau')) in (* norm(x_diff / tau**0.5)  [tau already updated] *)
    let resid := ssqrt (sadd (smul resid_primal resid_primal) (smul resid_dual resid_dual)) in
    let x_ext := vadd x (vscale theta x_diff) in                        (* copyto(x_ext, x + theta * x_diff) *)
    mkPDHG x u x_ext tau' sigma' tau_min' sigma_min' resid (pd_iter st) (pd_max_iter st) (pd_tol st).

  Definition pdhg__done (st : pdhg_state) : bool := (pd_max_iter st <=? pd_iter st) || sleb (pd_resid st) (pd_tol st).
  Definition pdhg_set_iter (k : Z) (st : pdhg_state) :=
    mkPDHG (pd_x st) (pd_u st) (pd_x_ext st) (pd_tau st) (pd_sigma st) (pd_tau_min st) (pd_sigma_min st)
           (pd_resid st) k (pd_max_iter st) (pd_tol st).
  Definition PDHGClass : AlgClass pdhg_state :=
    mkAlgClass pdhg_state pd_iter pd_max_iter pdhg_set_iter pdhg__update pdhg__done.
End PDHG.
