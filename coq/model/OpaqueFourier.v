(* OpaqueFourier.v — what the library-backed leaves FFT / IFFT of sigpy.linop compute, expressed with
   the function model of sigpy.fourier (model/Fourier.v).  Definitions only.

   linop.py:
     class FFT(Linop):   __init__(self, shape, axes=None, center=True): super().__init__(shape, shape)
                         _apply(input)   = fourier.fft (input, axes=self.axes, center=self.center)
                         _adjoint_linop  = IFFT(self.ishape, axes=self.axes, center=self.center)
                         _normal_linop   = Identity(self.ishape)
     class IFFT(Linop):  the same with fourier.ifft / FFT.
   fourier.fft / ifft are called with the DEFAULTS  oshape=None, norm="ortho", so the leaf denotes
       fft_model tw isc inv (inverse := class is IFFT) center (ortho := true) shape None axes
   and the input shape of the function call is the operator's shape (Linop.apply checks it).

   The environment of the function model (twiddle table, 1/sqrt n, 1/n) is the environment of
   [orc_fourier]; the family captures no arrays, so there is no [arr] argument. *)
From Coq Require Import ZArith List Bool.
From SV Require Import lib.Scalar lib.BigSum lib.LoopIR lib.NdArray lib.Gather model.Rearrange model.Block
  model.Linop model.Fourier.
Import ListNotations.
Local Open Scope Z_scope.

Definition fourier_leaf (L : linop) : bool :=
  match L with FFT _ _ _ | IFFT _ _ _ => true | _ => false end.

Section OrcFourier.
  Variable R : Ops.
  Notation farr := (list Z -> R).
  Variable tw : Z -> Z -> R.      (* tw n m = w_n^m *)
  Variable isc : Z -> R.          (* 1/sqrt n *)
  Variable inv : Z -> R.          (* 1/n (unused by the leaves: norm="ortho") *)

  (* the function call made by _apply: fourier.fft / fourier.ifft (input, axes=axes, center=center) *)
  Definition fourier_call (inverse : bool) (shape : list Z) (axes : option (list Z)) (center : bool) (x : farr) : farr :=
    snd (fft_model tw isc inv inverse center true shape None axes x).

  Definition orc_fourier (L : linop) (x : farr) : farr :=
    match L with
    | FFT s ax c => fourier_call false s ax c x
    | IFFT s ax c => fourier_call true s ax c x
    | _ => x                      (* not a leaf of this family *)
    end.
End OrcFourier.

Arguments fourier_call {R}. Arguments orc_fourier {R}.

(* Parameter validity = what the python class accepts WITHOUT raising when applied (the constructor itself
   checks only the shape, which is [wf]):
   - center=True  : util._normalize_axes takes  a % ndim  of every listed axis, so ANY integers are accepted
                    (also repeated and unsorted ones); but ndim = 0 raises (a % 0, and numpy.roll on a 0-d array);
   - center=False : numpy.fft.fftn(axes=...) requires  -ndim <= a < ndim  (repeated axes are accepted and the
                    transform is applied once per occurrence); axes=None is always accepted (also ndim = 0). *)
Definition fourier_axes_ok (shape : list Z) (axes : option (list Z)) (center : bool) : bool :=
  let nd := Z.of_nat (length shape) in
  if center then 0 <? nd
  else match axes with
       | None => true
       | Some l => forallb (fun a => (- nd <=? a) && (a <? nd)) l
       end.

Definition proven_node_fourier (L : linop) : bool :=
  match L with
  | FFT s ax c | IFFT s ax c => fourier_axes_ok s ax c
  | _ => false
  end.
