(* OpaqueStd.v — ONE standard denotation of every library-backed leaf class of sigpy.linop.

   The five per-family models
       model/OpaqueFourier.orc_fourier   FFT / IFFT                          (function model of C05, model/Fourier.v)
       model/OpaqueConv.orc_conv         ConvolveData / ..Adjoint / ConvolveFilter / ..Adjoint   (C08, model/Conv.v)
       model/OpaqueInterp.orc_interp     Interpolate / Gridding              (C07, model/Interp.v + generated kernels)
       model/OpaqueWavelet.orc_wavelet   Wavelet / InverseWavelet            (C10, model/Wavelet.v)
       model/OpaqueNufft.orc_nufft       NUFFT / NUFFTAdjoint                (C06, model/Nufft.v)
   are assembled into [orc_std E arr : linop -> farr -> farr], the oracle argument of [Linop.den], by one match over
   the twelve library-backed constructors.  Everything the function models need besides the captured data arrays
   [arr] is bundled, ONCE, in the environment record [std_env]:

     numpy.fft            e_tw n m = w_n^m, e_isc n = 1/sqrt n, e_inv n = 1/n          (shared by Fourier and Nufft)
     coordinates          the coordinate scalars C : COps, the embedding e_wt : C -> R of real weights into the data
                          scalars, the captured COORDINATE arrays e_carr by tag         (shared by Interp and Nufft)
     parameter codes      e_wp: the value (scalar, or per-axis sequence) of an integer parameter code assigned by
                          vlib/linser.Serializer.code — kinds 'width' / 'param' (Interpolate, Gridding) and
                          'oversamp' / 'nwidth' (NUFFT, NUFFTAdjoint); the codes of one Serializer are unique across
                          kinds, so ONE table decodes all four                           (shared by Interp and Nufft)
                          e_kern_of: kernel-name code -> K(t, param)   ('spline' -> Gen_interp.spline_kernel, ...)
     Kaiser-Bessel etc.   e_kb (interp._kaiser_bessel_kernel, the kernel NUFFT always uses), e_csqrt, e_cpi, e_csinh
     PyWavelets           e_cs / e_WW / e_WWr indexed by (axes, wavelet code, level) then by the padded shape, and
                          e_orth, the set of wavelet codes of the orthogonal families (haar / dbN / symN / coifN)

   Definitions only; the theorems are in proofs/OpaqueStd.v, the float instance in run/RunOpaqueStd.v. *)
From Coq Require Import ZArith List Bool.
From SV Require Import lib.Scalar lib.BigSum lib.LoopIR lib.NdArray lib.Gather lib.Coord gen.Gen_interp
  model.Rearrange model.Block model.Interp model.Fourier model.Conv model.Wavelet model.Nufft model.Linop
  model.OpaqueFourier model.OpaqueConv model.OpaqueInterp model.OpaqueWavelet model.OpaqueNufft.
Import ListNotations.
Local Open Scope Z_scope.

Record std_env (R : Ops) (C : COps) := mkStdEnv {
  (* numpy.fft *)
  e_tw : Z -> Z -> R;
  e_isc : Z -> R;
  e_inv : Z -> R;
  (* coordinates and real weights *)
  e_wt : C -> R;
  e_carr : Z -> list Z -> C;
  (* code decoders *)
  e_kern_of : Z -> C -> C -> C;
  e_wp : Z -> wp C;
  (* NUFFT: Kaiser-Bessel kernel and the transcendental oracles of the apodisation *)
  e_kb : C -> C -> C;
  e_csqrt : C -> C;
  e_cpi : C;
  e_csinh : C -> C;
  (* PyWavelets *)
  e_cs : option (list Z) -> Z -> option Z -> list Z -> list Z;
  e_WW : option (list Z) -> Z -> option Z -> list Z -> (list Z -> R) -> list Z -> R;
  e_WWr : option (list Z) -> Z -> option Z -> list Z -> (list Z -> R) -> list Z -> R;
  e_orth : Z -> bool
}.

Arguments e_tw {R C}. Arguments e_isc {R C}. Arguments e_inv {R C}. Arguments e_wt {R C}. Arguments e_carr {R C}.
Arguments e_kern_of {R C}. Arguments e_wp {R C}. Arguments e_kb {R C}. Arguments e_csqrt {R C}. Arguments e_cpi {R C}.
Arguments e_csinh {R C}. Arguments e_cs {R C}. Arguments e_WW {R C}. Arguments e_WWr {R C}. Arguments e_orth {R C}.

(* the value of a SCALAR parameter code (oversamp, NUFFT width): a scalar entry, or the first entry of a sequence *)
Definition wp_value {C : COps} (w : wp C) : C :=
  match w with
  | WScalar _ c => c
  | WList _ (c :: _) => c
  | WList _ [] => cofZ 0
  end.

Section OrcStd.
  Variable R : Ops.
  Variable C : COps.
  Variable E : std_env R C.
  Notation farr := (list Z -> R).
  Variable arr : Z -> farr.          (* captured DATA arrays by tag (filters / data of the convolution classes) *)

  Definition e_pv (code : Z) : C := wp_value (e_wp E code).

  (* the five family oracles at the shared environment *)
  Definition std_fourier : linop -> farr -> farr := orc_fourier (e_tw E) (e_isc E) (e_inv E).
  Definition std_conv : linop -> farr -> farr := orc_conv arr.
  Definition std_interp : linop -> farr -> farr :=
    orc_interp R C (e_wt E) (e_carr E) (e_kern_of E) (e_wp E) (e_wp E).
  Definition std_wavelet : linop -> farr -> farr := orc_wavelet (e_cs E) (e_WW E) (e_WWr E).
  Definition std_nufft : linop -> farr -> farr :=
    orc_nufft R C (e_kb E) (e_wt E) (e_csqrt E) (e_cpi E) (e_csinh E) (e_tw E) (e_isc E) (e_inv E)
              (e_carr E) e_pv e_pv.

  (* THE standard oracle: what every library-backed Linop class computes, by family *)
  Definition orc_std (L : linop) (x : farr) : farr :=
    match L with
    | FFT _ _ _ | IFFT _ _ _ => std_fourier L x
    | ConvolveData _ _ _ _ _ | ConvolveDataAdjoint _ _ _ _ _
    | ConvolveFilter _ _ _ _ _ | ConvolveFilterAdjoint _ _ _ _ _ => std_conv L x
    | Interpolate _ _ _ _ _ | Gridding _ _ _ _ _ => std_interp L x
    | Wavelet _ _ _ _ _ | InverseWavelet _ _ _ _ _ => std_wavelet L x
    | NUFFT _ _ _ _ _ | NUFFTAdjoint _ _ _ _ => std_nufft L x
    | _ => x                          (* not a library-backed leaf: [den] never asks *)
    end.

  (* validity of a library-backed leaf: the disjunction of the five family predicates (at the shared environment) *)
  Definition proven_node_opaque (L : linop) : bool :=
    proven_node_fourier L || proven_node_conv L || proven_node_interp L ||
    wavelet_leaf_ok (e_orth E) (e_cs E) L || proven_node_nufft C e_pv L.
End OrcStd.

Arguments e_pv {R C}. Arguments orc_std {R C}. Arguments proven_node_opaque {R C}.
Arguments std_fourier {R C}. Arguments std_conv {R}. Arguments std_interp {R C}. Arguments std_wavelet {R C}.
Arguments std_nufft {R C}.

(* which family a library-backed leaf belongs to (0 = none) — used by the run side to count fallbacks *)
Definition opaque_family (L : linop) : Z :=
  match L with
  | FFT _ _ _ | IFFT _ _ _ => 1
  | ConvolveData _ _ _ _ _ | ConvolveDataAdjoint _ _ _ _ _
  | ConvolveFilter _ _ _ _ _ | ConvolveFilterAdjoint _ _ _ _ _ => 2
  | Interpolate _ _ _ _ _ | Gridding _ _ _ _ _ => 3
  | Wavelet _ _ _ _ _ | InverseWavelet _ _ _ _ _ => 4
  | NUFFT _ _ _ _ _ | NUFFTAdjoint _ _ _ _ => 5
  | _ => 0
  end.
