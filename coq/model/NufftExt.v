(* NufftExt.v — hand-written model of the parts of sigpy/fourier.py that model/Nufft.v leaves out:
   estimate_shape, the `oshape is None` branch of nufft_adjoint, and toeplitz_psf.  Definitions only.

   No theorem of props/Prop_C06.v is about these definitions (the Toeplitz normal operator is validated numerically
   only); they exist so that tools/translate_fourier.py can tie the SOURCE TEXT of these functions to a reading
   written independently of the translator (gen/Gen_fourier.v: gen_estimate_shape_ok, gen_nufft_adjoint_ok,
   gen_toeplitz_psf_ok), in the same style as model/Nufft.v:

     estimate_shape:  [int(coord[..., i].max() - coord[..., i].min()) for i in range(ndim)]
     nufft_adjoint:   oshape = list(input.shape[: -coord.ndim + 1]) + estimate_shape(coord)   when oshape is None
     toeplitz_psf:    delta at the centre n // 2 of the 2x oversampled grid (every batch position)
                      -> nufft -> nufft_adjoint (coordinates scaled by 2) -> centred FFT (norm=None) -> * 2^ndim

   Readings: numpy's max / min over a coordinate column are the left-to-right scans [cmaxl] / [cminl] (no NaN);
   Python's int() is truncation toward zero [ctrunc]; a Python slice l[:stop] is [py_upto]; an integer passed where
   the callee expects the oversampling factor is that integer as a coordinate scalar (cofZ 2). *)
From Coq Require Import ZArith List Lia Bool.
From SV Require Import lib.Scalar lib.BigSum lib.LoopIR lib.NdArray lib.Gather lib.Coord gen.Gen_interp
  model.Rearrange model.Block model.Interp model.Fourier model.Nufft.
Import ListNotations.
Local Open Scope Z_scope.

(* l[:stop] for a Python int stop (negative: counted from the end) *)
Definition py_upto {A} (l : list A) (stop : Z) : list A :=
  if stop <? 0 then droplast (Z.to_nat (- stop)) l else firstn (Z.to_nat stop) l.

Section CoordParams.
  Variable C : COps.

  (* coord[..., i], row-major over the point axes; coord has shape cshape = pts ++ [ndim] *)
  Definition ccol (cshape : list Z) (coord : list Z -> C) (i : Z) : list C :=
    map (fun p => coord (p ++ [i])) (enum_box (droplast 1 cshape)).
  Definition cmaxl (l : list C) : C :=
    match l with [] => cofZ 0 | a :: l' => fold_left (fun m v => if cltb m v then v else m) l' a end.
  Definition cminl (l : list C) : C :=
    match l with [] => cofZ 0 | a :: l' => fold_left (fun m v => if cltb v m then v else m) l' a end.
  (* int(x) *)
  Definition ctrunc (x : C) : Z := if cltb x (cofZ 0) then cceil x else cfloor x.

  Definition estimate_shape (cshape : list Z) (coord : list Z -> C) : list Z :=
    let ndim := Z.to_nat (last cshape 0) in
    map (fun i => ctrunc (csub (cmaxl (ccol cshape coord i)) (cminl (ccol cshape coord i)))) (zrange 0 (Z.of_nat ndim) 1).

  (* the output shape nufft_adjoint works with *)
  Definition adjoint_oshape (in_shape cshape : list Z) (coord : list Z -> C) (oshape : option (list Z)) : list Z :=
    match oshape with
    | Some o => o
    | None => py_upto in_shape (- Z.of_nat (length cshape) + 1) ++ estimate_shape cshape coord
    end.
End CoordParams.

Section StepsExt.
  Variable R : Ops.
  Variable C : COps.
  Variable kern : C -> C -> C.
  Variable wt : C -> R.
  Variable csqrt : C -> C.
  Variable cpi : C.
  Variable csinh : C -> C.
  Variable tw : Z -> Z -> R.
  Variable isc inv : Z -> R.
  Notation farr := (list Z -> R).

  Definition nufft_adjoint_opt (in_shape cshape : list Z) (oshape : option (list Z)) (coord : list Z -> C)
             (oversamp width : C) (y : farr) : result (list Z * farr) :=
    nufft_adjoint R C kern wt csqrt cpi csinh tw isc inv in_shape cshape (adjoint_oshape C in_shape cshape coord oshape)
                  coord oversamp width y.

  (* d = zeros(shape); d[..., n_{ndim-1} // 2, ..., n_0 // 2] = 1 *)
  Definition centre_delta (shape : list Z) (ndim : nat) : farr :=
    fun idx => if zlist_eqb (lastn ndim idx) (map (fun n => n / 2) (lastn ndim shape)) then one else zero.

  (* tuple(range(-1, -(ndim + 1), -1)) = (-1, -2, ..., -ndim) *)
  Definition rev_axes (ndim : nat) : option (list Z) := Some (map Z.opp (zrange 1 (Z.of_nat ndim + 1) 1)).

  Definition toeplitz_psf (cshape shape : list Z) (coord : list Z -> C) (oversamp width : C) : result (list Z * farr) :=
    let ndim := Z.to_nat (last cshape 0) in
    let new_shape := oversamp_shape C shape ndim (cofZ 2) in
    let new_coord := scale_coord C cshape new_shape (cofZ 2) coord in
    let d := centre_delta new_shape ndim in
    match nufft R C kern wt csqrt cpi csinh tw isc inv new_shape cshape new_coord oversamp width d with
    | Err e => Err e
    | Ok (psh, p1) =>
        match nufft_adjoint R C kern wt csqrt cpi csinh tw isc inv psh cshape new_shape new_coord oversamp width p1 with
        | Err e => Err e
        | Ok (ash, p2) =>
            let p3 := snd (fftc tw isc inv false false ash None (rev_axes ndim) (forceA ash p2)) in
            Ok (ash, scal R C wt (cofZ (2 ^ Z.of_nat ndim)) p3)
        end
    end.
End StepsExt.
