(* OpaqueWavelet.v — what the Linop classes Wavelet / InverseWavelet of sigpy/linop.py hand to
   sigpy.wavelet.fwt / iwt, expressed with the function model of C10 (model/Wavelet.v).  Definitions only.

     class Wavelet(ishape, axes, wave_name, level):
         oshape, _ = wavelet.get_wavelet_shape(ishape, wave_name=wave_name, axes=axes, level=level)
         _apply(input) = wavelet.fwt(input, wave_name=self.wave_name, axes=self.axes, level=self.level)
         _adjoint_linop = InverseWavelet(self.ishape, axes=self.axes, wave_name=self.wave_name, level=self.level)
     class InverseWavelet(oshape, axes, wave_name, level):
         ishape, self.coeff_slices = wavelet.get_wavelet_shape(oshape, wave_name=wave_name, axes=axes, level=level)
         _apply(input) = wavelet.iwt(input, self.oshape, self.coeff_slices, wave_name=.., axes=.., level=..)
     (neither class overrides _normal_linop: A.N = A.H * A)

   The deep embedding stores the advertised coefficient shape as the last constructor argument:
     Wavelet ishape axes wave level wshape,  InverseWavelet oshape axes wave level wshape.

   PyWavelets is the environment.  model/Wavelet.v indexes the analysis / synthesis pair (W, Wr) and the
   coefficient-shape function cshape_of by the padded shape only, for ONE choice of (axes, wavelet, level);
   the operator classes choose these three per leaf, so here the environment carries them as leading indices:
       cs  axes wave level : padded shape -> shape of coeffs_to_array (wavedecn (zeros padded, wave, 'zero', axes, level))
       WW  axes wave level : padded shape -> coeffs_to_array . wavedecn (., wave, mode='zero', axes, level)
       WWr axes wave level : padded shape -> waverecn (., wave, mode='zero', axes) . array_to_coeffs (., slices of cs)
   (axes exactly as given to the class: None or the raw list, negative entries included; wave is the integer code of
   the wavelet name assigned by vlib/linser.py; level None or the integer). *)
From Coq Require Import ZArith List Lia Bool.
From SV Require Import lib.Scalar lib.BigSum lib.LoopIR lib.NdArray lib.Gather model.Rearrange model.Wavelet model.Linop.
Import ListNotations.
Local Open Scope Z_scope.

Section OpaqueWavelet.
  Variable R : Ops.
  Notation farr := (list Z -> R).

  Variable cs : option (list Z) -> Z -> option Z -> list Z -> list Z.
  Variable WW WWr : option (list Z) -> Z -> option Z -> list Z -> farr -> farr.

  (* denotation of the two leaf classes; iwt receives rshape = zshape oshape: coeff_slices were computed by
     get_wavelet_shape from the padded shape of oshape, so waverecn returns an array of that shape *)
  Definition orc_wavelet (L : linop) (x : farr) : farr :=
    match L with
    | Wavelet i ax w l _ => snd (fwt (cs ax w l) (WW ax w l) i x)
    | InverseWavelet o ax w l _ => snd (iwt (WWr ax w l) (zshape o) o x)
    | _ => fun _ => zero
    end.

  (* the shapes the two __init__ methods compute (to be compared with [shapes] of model/Linop.v) *)
  Definition wavelet_init_shapes (L : linop) : option (list Z * list Z) :=      (* (oshape, ishape) *)
    match L with
    | Wavelet i ax w l _ => Some (wavelet_shape (cs ax w l) i, i)
    | InverseWavelet o ax w l _ => Some (o, wavelet_shape (cs ax w l) o)
    | _ => None
    end.
End OpaqueWavelet.

Arguments orc_wavelet {R}.

(* ---------------------------------------------------------------- parameter validity *)
(* what pywt.wavedecn / waverecn accept: at least one dimension; axes None, or a non-empty sequence of integers in
   [-ndim, ndim) that are distinct after  a + ndim if a < 0  ("The axes passed to wavedecn must be unique");
   level None or >= 0 ("Level value of -1 is too low"; a too large level only warns). *)
Fixpoint nodupZb (l : list Z) : bool :=
  match l with [] => true | a :: l' => negb (existsb (Z.eqb a) l') && nodupZb l' end.

Definition pywt_axes_ok (nd : Z) (axes : option (list Z)) : bool :=
  (1 <=? nd) &&
  match axes with
  | None => true
  | Some ax =>
      negb (match ax with [] => true | _ => false end) &&
      forallb (fun a => (- nd <=? a) && (a <? nd)) ax &&
      nodupZb (map (fun a => if a <? 0 then a + nd else a) ax)
  end.

Definition pywt_level_ok (level : option Z) : bool := match level with None => true | Some l => 0 <=? l end.

Definition is_wavelet_leaf (L : linop) : bool :=
  match L with Wavelet _ _ _ _ _ | InverseWavelet _ _ _ _ _ => true | _ => false end.

(* [orth w]: the wavelet with code w is one of the orthogonal families haar / dbN / symN / coifN (the classes accept
   every PyWavelets name, but for a biorthogonal one waverecn is the inverse and NOT the adjoint of wavedecn).
   The last conjunct is the consistency of the stored coefficient shape with get_wavelet_shape. *)
Definition wavelet_leaf_ok (orth : Z -> bool) (cs : option (list Z) -> Z -> option Z -> list Z -> list Z)
           (L : linop) : bool :=
  match L with
  | Wavelet s ax w l ws | InverseWavelet s ax w l ws =>
      pywt_axes_ok (lenZ s) ax && pywt_level_ok l && orth w && zlist_eqb ws (wavelet_shape (cs ax w l) s)
  | _ => false
  end.
