(* SenseRecon.v — what the MRI reconstruction apps of sigpy/mri/app.py (SenseRecon, L1WaveletRecon,
   TotalVariationRecon; CPU, single process: device = cpu, tseg = None, comm = None) hand to
   sigpy.app.LinearLeastSquares: the operator A = Sense(...), the data y (multiplied by sqrt(weights) into a
   NEW array when there are weights), lamda / proxg / g / G.  The configured LinearLeastSquares itself is
   model/LLS.v (C14).  Definitions only; regenerated from the source by tools/translate_sense.py
   (gen/Gen_sense.v: gen_estimate_weights_ok, gen_SenseRecon_ok, gen_L1WaveletRecon_ok, gen_TotalVariationRecon_ok). *)
From Coq Require Import ZArith List Bool.
From SV Require Import lib.Scalar lib.LoopIR lib.NdArray model.Block model.Linop model.Sense.
Import ListNotations.
Local Open Scope Z_scope.

(* sigpy.linop.FiniteDifference(ishape, axes) is a function building Vstack([Reshape * (Id - Circshift)]);
   kept as a constructor: its expansion is not needed to say WHICH operator the app asks for *)
Inductive gop := GFiniteDifference (ishape : list Z) (axes : option (list Z)).
Definition gop_oshape (G : gop) : list Z :=
  match G with GFiniteDifference ish axes => (match axes with None => lenZ ish | Some ax => lenZ ax end) :: ish end.

(* scalars (lamda) are referred to by tag, like the scalar multipliers of model/Linop.v *)
Inductive rprox :=
| RL1Reg (shape : list Z) (lamda : Z)             (* sigpy.prox.L1Reg(shape, lamda) *)
| RUnitary (p : rprox) (W : linop).               (* sigpy.prox.UnitaryTransform(p, W) *)
(* the objective term reported by the app: g(x) = lamda * sum |W x|  (W = None: x itself) *)
Inductive rgfun := GL1 (lamda : Z) (W : option linop).

Record recon_cfg := mkRecon {
  rc_A : linop;                 (* positional A *)
  rc_y : aref;                  (* positional y *)
  rc_lamda : option Z;          (* lamda=  (l2 term; None: not passed, LinearLeastSquares' default 0) *)
  rc_proxg : option rprox;      (* proxg= *)
  rc_g : option rgfun;          (* g= *)
  rc_G : option gop             (* G= *)
}.

Record recon_args := mkReconArgs {
  ra_y : aref;
  ra_mps : aref;
  ra_lamda : Z;
  ra_weights : option aref;
  ra_coord : option aref;
  ra_batch : option Z;          (* coil_batch_size *)
  ra_transp : bool;             (* transp_nufft *)
  ra_wave : Z                   (* wave_name (code), L1WaveletRecon only *)
}.

(* _estimate_weights: a sampling mask is estimated from the data ONLY for Cartesian data without weights *)
Definition estimate_weights (O : aops) (y : aref) (weights coord : option aref) : option aref :=
  match weights, coord with
  | None, None => Some (a_mask O y)
  | _, _ => weights
  end.

(* the data handed on: y * sqrt(w) as a new array (the caller's y is not written), or y itself *)
Definition recon_data (O : aops) (y : aref) (w : option aref) : aref :=
  match w with Some w0 => a_mul O y (a_sqrt O w0) | None => y end.

(* the SENSE operator all three apps build: the same weights go into the operator and into the data *)
Definition recon_sense (O : aops) (r : recon_args) (w : option aref) : linop :=
  sense_factory O (mkSenseArgs (ra_mps r) (ra_coord r) w None (ra_batch r) (ra_transp r)).

Definition sense_recon (O : aops) (r : recon_args) : recon_cfg :=
  let w := estimate_weights O (ra_y r) (ra_weights r) (ra_coord r) in
  mkRecon (recon_sense O r w) (recon_data O (ra_y r) w) (Some (ra_lamda r)) None None None.

Definition l1wavelet_recon (O : aops) (r : recon_args) : recon_cfg :=
  let w := estimate_weights O (ra_y r) (ra_weights r) (ra_coord r) in
  let ish := tl (ashape_of (ra_mps r)) in
  let W := Wavelet ish None (ra_wave r) None (wav_shape O ish None (ra_wave r) None) in
  mkRecon (recon_sense O r w) (recon_data O (ra_y r) w) None
          (Some (RUnitary (RL1Reg (oshape_of W) (ra_lamda r)) W)) (Some (GL1 (ra_lamda r) (Some W))) None.

Definition tv_recon (O : aops) (r : recon_args) : recon_cfg :=
  let w := estimate_weights O (ra_y r) (ra_weights r) (ra_coord r) in
  let A := recon_sense O r w in
  let G := GFiniteDifference (ishape_of A) None in      (* differences along EVERY image axis *)
  mkRecon A (recon_data O (ra_y r) w) None (Some (RL1Reg (gop_oshape G) (ra_lamda r))) (Some (GL1 (ra_lamda r) None)) (Some G).
