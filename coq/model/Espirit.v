(* model/Espirit.v — executable Gallina model of the per-voxel part of sigpy/mri/app.py:EspiritCalib
   (lines 555-588) and of sigpy/alg.py:PowerMethod._update with a norm_func (lines 96-106).

   EspiritCalib builds, for every voxel r, a num_coils x num_coils matrix AHA[r] and runs
       y = AHA @ x;  max_eig = sum(|y|^2, axis=coil) ** 0.5;  x = y / max_eig            (PowerMethod._update)
   max_iter times starting from x = ones, everything broadcast over voxels; then `_output` does
       mps *= conj(mps[0] / abs(mps[0]));   mps *= max_eig > crop
   The model is the computation at ONE voxel: a coil vector is a list of complex numbers (pairs),
   the operator a list of rows.  It is written once over a record [EOps] of real-like operations (no
   laws), instantiated on PrimFloat in run/RunC17.v and on R in proofs/Espirit.v.
   Not modelled: how AHA is obtained (calibration matrix, SVD truncation, image-domain Gram). *)
From Coq Require Import List Bool.
Import ListNotations.

Record EOps := mkEOps {
  ET :> Type;
  e0 : ET; e1 : ET;
  eadd : ET -> ET -> ET;
  esub : ET -> ET -> ET;
  emul : ET -> ET -> ET;
  ediv : ET -> ET -> ET;
  eopp : ET -> ET;
  esqrt : ET -> ET;
  eltb : ET -> ET -> bool }.

Arguments e0 {_}. Arguments e1 {_}. Arguments eadd {_}. Arguments esub {_}. Arguments emul {_}.
Arguments ediv {_}. Arguments eopp {_}. Arguments esqrt {_}. Arguments eltb {_}.

Section Model.
  Context {E : EOps}.
  Definition cplx : Type := (E * E)%type.

  Definition c0 : cplx := (e0, e0).
  Definition cadd (a b : cplx) : cplx := (eadd (fst a) (fst b), eadd (snd a) (snd b)).
  Definition cmul (a b : cplx) : cplx :=
    (esub (emul (fst a) (fst b)) (emul (snd a) (snd b)), eadd (emul (fst a) (snd b)) (emul (snd a) (fst b))).
  Definition cconj (a : cplx) : cplx := (fst a, eopp (snd a)).
  Definition cscale (s : E) (a : cplx) : cplx := (emul s (fst a), emul s (snd a)).   (* real * complex *)
  Definition cdivr (a : cplx) (s : E) : cplx := (ediv (fst a) s, ediv (snd a) s).     (* complex / real *)
  Definition cabs (a : cplx) : E := esqrt (eadd (emul (fst a) (fst a)) (emul (snd a) (snd a))).   (* xp.abs *)
  Definition cabs2 (a : cplx) : E := emul (cabs a) (cabs a).                          (* xp.abs(x) ** 2 *)

  Definition esum (l : list E) : E := fold_left eadd l e0.
  Definition csum (l : list cplx) : cplx := fold_left cadd l c0.

  (* one row of AHA @ x *)
  Definition rowdot (row x : list cplx) : cplx := csum (map (fun p => cmul (fst p) (snd p)) (combine row x)).
  Definition matvec (A : list (list cplx)) (x : list cplx) : list cplx := map (fun row => rowdot row x) A.

  (* normalize(x) = xp.sum(xp.abs(x) ** 2, axis=-2, keepdims=True) ** 0.5 *)
  Definition norm2 (x : list cplx) : E := esum (map cabs2 x).
  Definition norm (x : list cplx) : E := esqrt (norm2 x).

  (* PowerMethod._update: y = A(x); max_eig = norm_func(y); x = y / max_eig *)
  Definition power_step (A : list (list cplx)) (x : list cplx) : list cplx * E :=
    let y := matvec A x in
    let n := norm y in
    (map (fun z => cdivr z n) y, n).

  (* k updates; [eig] is the current max_eig attribute (np.inf before the first update) *)
  Fixpoint power_iter (k : nat) (A : list (list cplx)) (x : list cplx) (eig : E) : list cplx * E :=
    match k with
    | O => (x, eig)
    | S k' => let '(x', n) := power_step A x in power_iter k' A x' n
    end.

  (* mps *= xp.conj(mps[0] / xp.abs(mps[0])) *)
  Definition phase_ref (x : list cplx) : list cplx :=
    match x with
    | [] => []
    | z0 :: _ => let p := cconj (cdivr z0 (cabs z0)) in map (fun z => cmul z p) x
    end.

  (* mps *= max_eig > self.crop :  multiplication by the boolean as 1.0 / 0.0 *)
  Definition crop_factor (eig crop : E) : E := if eltb crop eig then e1 else e0.
  Definition output (crop : E) (x : list cplx) (eig : E) : list cplx :=
    map (cscale (crop_factor eig crop)) (phase_ref x).

  (* EspiritCalib at one voxel: k = max_iter updates from the given start, then _output *)
  Definition espirit_voxel (k : nat) (A : list (list cplx)) (x0 : list cplx) (eig0 crop : E) : list cplx * E :=
    let '(x, eig) := power_iter k A x0 eig0 in (output crop x eig, eig).
End Model.
