(* Wavelet.v — hand-written model of sigpy.wavelet.fwt / iwt / get_wavelet_shape.

   PyWavelets is an ORACLE.  sigpy calls it with mode='zero' (NOT periodization): the input is first
   zero-padded about its centre (util.resize) to even lengths on EVERY axis,
       zshape = [((i + 1) // 2) * 2 for i in shape],
   then  W  = coeffs_to_array . wavedecn(., wave, mode='zero', axes, level)   (padded box -> coefficient box)
   and   Wr = waverecn(., wave, mode='zero', axes) . array_to_coeffs           (coefficient box -> padded box),
   finally iwt crops about the centre (util.resize) to the requested output shape.
   W, Wr and the coefficient-array shape are parameters of the model (data in coq/run, section
   variables with the orthogonality hypotheses in coq/proofs).  Definitions only. *)
From Coq Require Import ZArith List Lia Bool.
From SV Require Import lib.Scalar lib.BigSum lib.LoopIR lib.NdArray lib.Gather model.Rearrange.
Import ListNotations.
Local Open Scope Z_scope.

Definition even_up (i : Z) : Z := ((i + 1) / 2) * 2.
Definition zshape (s : list Z) : list Z := map even_up s.

(* dtype table: resize keeps the dtype and PyWavelets keeps single/double, real/complex *)
Definition wavelet_out_dtype (code : Z) : Z := code.    (* 0 float32, 1 float64, 2 complex64, 3 complex128 *)

Section Model.
  Variable R : Ops.
  Notation farr := (list Z -> R).

  Variable cshape_of : list Z -> list Z.   (* shape of coeffs_to_array(wavedecn(zeros(zshape))) *)
  Variable W : list Z -> farr -> farr.     (* indexed by the padded shape *)
  Variable Wr : list Z -> farr -> farr.

  (* wavelet.get_wavelet_shape: the advertised coefficient shape *)
  Definition wavelet_shape (ishape : list Z) : list Z := cshape_of (zshape ishape).

  (* wavelet.fwt: what is handed to PyWavelets, and the result *)
  Definition fwt_padded (ishape : list Z) (x : farr) : farr := resize ishape (zshape ishape) None None x.
  Definition fwt (ishape : list Z) (x : farr) : list Z * farr :=
    (cshape_of (zshape ishape), W (zshape ishape) (fwt_padded ishape x)).

  (* wavelet.iwt: rshape is the shape of waverecn's result (= zshape oshape for consistent coefficients) *)
  Definition iwt (rshape oshape : list Z) (c : farr) : list Z * farr :=
    (oshape, resize rshape oshape None None (Wr rshape c)).
End Model.

Arguments wavelet_shape cshape_of ishape /.
Arguments fwt_padded {R}. Arguments fwt {R}. Arguments iwt {R}.
