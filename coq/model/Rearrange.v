(* Rearrange.v — hand-written model of sigpy.util's rearrangement functions
   (resize, flip, circshift, downsample, upsample) as per-axis gathers, mirroring
   the Python line by line where it computes shifts, windows and slices.
   Tied to /repo by the C09 correspondence (values on labelled integer arrays). *)
From Coq Require Import ZArith List Lia Bool.
From SV Require Import lib.Scalar lib.BigSum lib.LoopIR lib.NdArray lib.Gather.
Import ListNotations.
Local Open Scope Z_scope.

Section Model.
  Variable R : Ops.
  Definition farr := list Z -> R.

  (* x has shape s1, result is indexed by shape s2 (same number of elements) *)
  Definition reshape (s1 s2 : list Z) (x : farr) : farr :=
    fun idx => x (unravel s1 (ravel s2 idx)).

  (* util._expand_shapes for two shapes *)
  Definition expand_shapes (a b : list Z) : list Z * list Z :=
    let n := Nat.max (length a) (length b) in
    (repeat 1 (n - length a) ++ a, repeat 1 (n - length b) ++ b).

  Fixpoint zip4 {A} (f : Z -> Z -> Z -> Z -> A) (a b c d : list Z) : list A :=
    match a, b, c, d with
    | x :: a', y :: b', z :: c', w :: d' => f x y z w :: zip4 f a' b' c' d'
    | _, _, _, _ => []
    end.

  Fixpoint zip2 {A} (f : Z -> Z -> A) (a b : list Z) : list A :=
    match a, b with
    | x :: a', y :: b' => f x y :: zip2 f a' b'
    | _, _ => []
    end.

  (* one axis of util.resize: copy_shape c = min(i - si, o - so);
     output[so : so + c] = input[si : si + c] *)
  Definition resize_ax (i o si so : Z) : axmap :=
    fun k => let c := Z.min (i - si) (o - so) in
             if (so <=? k) && (k <? so + c) then Some (k - so + si) else None.

  Definition default_ishift (i1 o1 : list Z) := zip2 (fun i o => Z.max (i / 2 - o / 2) 0) i1 o1.
  Definition default_oshift (i1 o1 : list Z) := zip2 (fun i o => Z.max (o / 2 - i / 2) 0) i1 o1.

  Definition resize (ishape oshape : list Z) (ishift oshift : option (list Z)) (x : farr) : farr :=
    let '(i1, o1) := expand_shapes ishape oshape in
    if zlist_eqb i1 o1 && (match ishift, oshift with None, None => true | _, _ => false end)
    then reshape ishape oshape x
    else
      let si := match ishift with Some l => l | None => default_ishift i1 o1 end in
      let so := match oshift with Some l => l | None => default_oshift i1 o1 end in
      reshape o1 oshape (gatherN (zip4 resize_ax i1 o1 si so) (reshape ishape i1 x)).

  (* util._normalize_axes *)
  Definition normalize_axes (axes : option (list Z)) (ndim : Z) : list Z :=
    match axes with
    | None => zrange 0 ndim 1
    | Some l => map (fun a => a mod ndim) l      (* order is irrelevant for membership *)
    end.

  Definition memZ (a : Z) (l : list Z) : bool := existsb (Z.eqb a) l.

  Fixpoint mapi_aux {A} (f : Z -> Z -> A) (d : Z) (s : list Z) : list A :=
    match s with [] => [] | n :: s' => f d n :: mapi_aux f (d + 1) s' end.
  Definition mapi {A} (f : Z -> Z -> A) (s : list Z) : list A := mapi_aux f 0 s.

  Definition flip (shape : list Z) (axes : option (list Z)) (x : farr) : farr :=
    let ax := normalize_axes axes (Z.of_nat (length shape)) in
    gatherN (mapi (fun d n => if memZ d ax then (fun k => Some (n - 1 - k)) else (fun k => Some k)) shape) x.

  (* numpy.roll along one axis: out[(i + s) mod n] = in[i] *)
  Definition roll (shape : list Z) (shift axis : Z) (x : farr) : farr :=
    let a := axis mod Z.of_nat (length shape) in
    gatherN (mapi (fun d n => if d =? a then (fun k => Some ((k - shift) mod n)) else (fun k => Some k)) shape) x.

  Fixpoint circshift_loop (shape : list Z) (shifts axes : list Z) (x : farr) : farr :=
    match shifts, axes with
    | s :: shifts', a :: axes' => circshift_loop shape shifts' axes' (roll shape s a x)
    | _, _ => x
    end.

  Definition circshift (shape shifts : list Z) (axes : option (list Z)) (x : farr) : farr :=
    let ax := match axes with Some l => l | None => zrange 0 (Z.of_nat (length shape)) 1 end in
    circshift_loop shape shifts ax x.

  (* input[s::f] on the leading len(factors) axes *)
  Fixpoint down_axes (factors shift : list Z) (ndim : nat) : list axmap :=
    match ndim with
    | O => []
    | S nd =>
        match factors, shift with
        | f :: fs, s :: ss => (fun k => Some (s + f * k)) :: down_axes fs ss nd
        | _, _ => (fun k => Some k) :: down_axes [] [] nd
        end
    end.

  Definition downsample (ishape factors : list Z) (shift : option (list Z)) (x : farr) : farr :=
    let sh := match shift with Some l => l | None => map (fun _ => 0) factors end in
    gatherN (down_axes factors sh (length ishape)) x.

  Definition downsample_oshape (ishape factors : list Z) (shift : option (list Z)) : list Z :=
    let sh := match shift with Some l => l | None => map (fun _ => 0) factors end in
    let fix go (i f s : list Z) :=
      match i with
      | [] => []
      | n :: i' => match f, s with
                   | fk :: f', sk :: s' => ((n - sk + fk - 1) / fk) :: go i' f' s'
                   | _, _ => n :: go i' [] []
                   end
      end in go ishape factors sh.

  Fixpoint up_axes (factors shift : list Z) (ndim : nat) : list axmap :=
    match ndim with
    | O => []
    | S nd =>
        match factors, shift with
        | f :: fs, s :: ss =>
            (fun k => if (s <=? k) && ((k - s) mod f =? 0) then Some ((k - s) / f) else None) :: up_axes fs ss nd
        | _, _ => (fun k => Some k) :: up_axes [] [] nd
        end
    end.

  Definition upsample (oshape factors : list Z) (shift : option (list Z)) (x : farr) : farr :=
    let sh := match shift with Some l => l | None => map (fun _ => 0) factors end in
    gatherN (up_axes factors sh (length oshape)) x.

End Model.

Arguments reshape {R}. Arguments resize {R}. Arguments flip {R}.
Arguments roll {R}. Arguments circshift {R}. Arguments downsample {R}. Arguments upsample {R}.
