(* Alg2.v — executable Gallina models of the remaining stopping rules of /repo/sigpy/alg.py,
   statement by statement, over the operations record [IPOps] of model/Alg.v:
     NewtonsMethod, GerchbergSaxton, and PrimalDualHybridGradient with ARRAY-valued step sizes
   (tau, sigma arrays of the shape of x, u; every `*`, `/`, `** 0.5` on them is elementwise).
   Operations that [IPOps] lacks (Python `<`, `>`, `abs`, elementwise array arithmetic,
   exp(1j*angle(.))) are Section variables, as in the PDHG section of Alg.v.
   Definitions only; the proofs are in proofs/Stopping2.v. *)
From Coq Require Import ZArith List Bool.
From SV Require Import model.Alg.
Import ListNotations.
Local Open Scope Z_scope.

(* ------------------------------------------------------------------------- *)
(* NewtonsMethod                                                               *)
(* ------------------------------------------------------------------------- *)
Section Newton.
  Variable E : IPOps.
  Notation V := (Vec E).
  Notation S := (Sc E).
  Variable gradf : V -> V.                 (* self.gradf *)
  Variable inv_hessf : V -> V -> V.        (* self.inv_hessf(x)(y) *)
  Variable beta : S.                       (* self.beta *)
  Variable f : V -> S.                     (* self.f (only called when beta < 1; __init__ raises TypeError
                                              when beta < 1 and f is None) *)
  Variable slt : S -> S -> bool.           (* Python `a < b` *)
  Variable sgt : S -> S -> bool.           (* Python `a > b` *)
  Variable ls_fuel : nat.                  (* bound on the number of backtracking steps; the Python
                                              `while` has none -- the theorems hold for every bound *)

  Record nm_state := mkNM {
    nm_x : V; nm_lamda2 : S; nm_residual : S;
    nm_iter : Z; nm_max_iter : Z; nm_tol : S;
    nm_raised : bool }.                    (* ValueError("Direction is not descending") was raised *)

  (* __init__: lamda = residual = inf (passed in); lamda2 does not exist before the first update *)
  Definition nm_init (x : V) (inf : S) (max_iter : Z) (tol : S) : nm_state :=
    mkNM x inf inf 0 max_iter tol false.

  Definition nm_s2 : S := sadd s1 s1.

  (* alpha = 1
     while self.f(x_new) > fx - alpha / 2 * self.lamda2:
         alpha *= self.beta
         x_new = self.x + alpha * p *)
  Fixpoint nm_linesearch (fuel : nat) (x p : V) (fx lamda2 alpha : S) (x_new : V) : V :=
    match fuel with
    | O => x_new
    | Datatypes.S k =>
        if sgt (f x_new) (ssub fx (smul (sdiv alpha nm_s2) lamda2)) then
          let alpha' := smul alpha beta in
          nm_linesearch k x p fx lamda2 alpha' (vadd x (vscale alpha' p))
        else x_new
    end.

  Definition nm__update (st : nm_state) : nm_state :=
    let x := nm_x st in
    let g := gradf x in                                            (* gradf_x = self.gradf(self.x) *)
    let p := vscale (sopp s1) (inv_hessf x g) in                   (* p = -self.inv_hessf(self.x)(gradf_x) *)
    let lamda2 := sopp (vdot p g) in                               (* self.lamda2 = -real(vdot(p, gradf_x)) *)
    if slt lamda2 s0 then                                          (* if self.lamda2 < 0: raise ValueError *)
      mkNM x lamda2 (nm_residual st) (nm_iter st) (nm_max_iter st) (nm_tol st) true
    else
      let x_new := vadd x p in                                     (* x_new = self.x + p *)
      let x_new :=
        if slt beta s1 then                                        (* if self.beta < 1: *)
          nm_linesearch ls_fuel x p (f x) lamda2 s1 x_new          (*   fx = self.f(self.x); alpha = 1; while ... *)
        else x_new in
      mkNM x_new lamda2 (ssqrt lamda2)                             (* copyto(x, x_new); residual = lamda2 ** 0.5 *)
           (nm_iter st) (nm_max_iter st) (nm_tol st) (nm_raised st).

  (* _done: self.iter >= self.max_iter or self.residual <= self.tol *)
  Definition nm__done (st : nm_state) : bool :=
    (nm_max_iter st <=? nm_iter st) || sleb (nm_residual st) (nm_tol st).
  Definition nm_set_iter (k : Z) (st : nm_state) :=
    mkNM (nm_x st) (nm_lamda2 st) (nm_residual st) k (nm_max_iter st) (nm_tol st) (nm_raised st).
  (* NB: when ValueError is raised Python's Alg.update() does not reach `self.iter += 1`; the generic
     [update] wrapper below still counts it.  Every theorem about this class assumes nm_raised = false. *)
  Definition NMClass : AlgClass nm_state :=
    mkAlgClass nm_state nm_iter nm_max_iter nm_set_iter nm__update nm__done.
End Newton.
Arguments nm_x {E}. Arguments nm_lamda2 {E}. Arguments nm_residual {E}. Arguments nm_iter {E}.
Arguments nm_max_iter {E}. Arguments nm_tol {E}. Arguments nm_raised {E}. Arguments mkNM {E}.

(* ------------------------------------------------------------------------- *)
(* GerchbergSaxton                                                             *)
(* ------------------------------------------------------------------------- *)
Section GS.
  Variable E : IPOps.
  Notation X := (Vec E).
  Notation S := (Sc E).
  Definition Cx : Type := (S * S)%type.    (* a complex entry (re, im) *)
  Variable sabs : S -> S.                  (* xp.absolute on a real *)
  Variable cphase : Cx -> Cx.              (* w |-> exp(1j * angle(w)) *)
  Variable A : X -> list Cx.               (* self.A * x, flattened *)
  Variable AH : list Cx -> X.              (* self.A.H * v *)
  Variable y : list S.                     (* self.y: the observed amplitudes *)
  Variable lamb : S.                       (* self.lamb *)

  Definition cabs (w : Cx) : S := ssqrt (sadd (smul (fst w) (fst w)) (smul (snd w) (snd w))).
  Definition cscale (a : S) (w : Cx) : Cx := (smul a (fst w), smul a (snd w)).

  Record gs_state := mkGS { gs_x : X; gs_residual : S; gs_iter : Z; gs_max_iter : Z; gs_tol : S }.

  (* __init__ (does not call Alg.__init__: sets max_iter and iter = 0 itself; max_tol is never read) *)
  Definition gs_init (x0 : X) (inf : S) (max_iter : Z) (tol : S) : gs_state := mkGS x0 inf 0 max_iter tol.

  (* y_hat = self.y * exp(1j * angle(self.A * self.x)) *)
  Definition gs_yhat (x : X) : list Cx := map (fun yw => cscale (fst yw) (cphase (snd yw))) (combine y (A x)).
  (* system = A.H * A + lamb * Identity *)
  Definition gs_system (v : X) : X := vadd (AH (A v)) (vscale lamb v).
  (* b = A.H * y_hat *)
  Definition gs_b (x : X) : X := AH (gs_yhat x).
  (* alg_internal = ConjugateGradient(system, b, self.x, max_iter=5)   [P = None, tol = 0]
     while not alg_internal.done(): alg_internal.update(); self.x = alg_internal.x
     (the solver works in place on self.x, so self.x is its x also after zero iterations) *)
  Definition gs_inner (x : X) : X :=
    cg_x (cg_run E gs_system None (cg_init E gs_system (gs_b x) None x 5 s0)).
  (* self.residual = sum(absolute(absolute(self.A * self.x) - self.y)) *)
  Definition gs_resid_of (x : X) : S :=
    fold_right sadd s0 (map (fun wy => sabs (ssub (cabs (fst wy)) (snd wy))) (combine (A x) y)).

  Definition gs__update (st : gs_state) : gs_state :=
    let x := gs_inner (gs_x st) in
    mkGS x (gs_resid_of x) (gs_iter st) (gs_max_iter st) (gs_tol st).

  (* _done: over_iter = iter >= max_iter; under_tol = residual <= tol; return over_iter or under_tol *)
  Definition gs__done (st : gs_state) : bool :=
    (gs_max_iter st <=? gs_iter st) || sleb (gs_residual st) (gs_tol st).
  Definition gs_set_iter (k : Z) (st : gs_state) :=
    mkGS (gs_x st) (gs_residual st) k (gs_max_iter st) (gs_tol st).
  Definition GSClass : AlgClass gs_state :=
    mkAlgClass gs_state gs_iter gs_max_iter gs_set_iter gs__update gs__done.
End GS.
Arguments gs_x {E}. Arguments gs_residual {E}. Arguments gs_iter {E}. Arguments gs_max_iter {E}.
Arguments gs_tol {E}. Arguments mkGS {E}.

(* ------------------------------------------------------------------------- *)
(* PrimalDualHybridGradient, array-valued step sizes                           *)
(* ------------------------------------------------------------------------- *)
Section PDHGArr.
  Variable E : IPOps.
  Notation X := (Vec E).
  Notation S := (Sc E).
  Variable U : Type.
  Variables (uadd usub : U -> U -> U) (uscale : S -> U -> U) (udivs : U -> S -> U) (udot : U -> U -> S).
  (* elementwise arithmetic on arrays of the same shape: a * b, a / b, a ** 0.5 *)
  Variables (xmul xdiv : X -> X -> X) (xsqrt : X -> X).
  Variables (umul udiv : U -> U -> U) (usqrt : U -> U).
  Variable A : X -> U.
  Variable AH : U -> X.
  Variable proxfc : U -> U -> U.           (* proxfc(sigma, u), sigma an array *)
  Variable proxg : X -> X -> X.            (* proxg(tau, x), tau an array *)
  Variable theta0 : S.
  Variables (gamma_primal gamma_dual : S).
  Variable sgt0 : S -> bool.               (* Python `a > 0` *)
  Variable seq0 : S -> bool.               (* Python `a == 0` *)

  Record pdhga_state := mkPDHGA {
    pa_x : X; pa_u : U; pa_x_ext : X;
    pa_tau : X; pa_sigma : U; pa_tau_min : S; pa_sigma_min : S;
    pa_resid : S; pa_iter : Z; pa_max_iter : Z; pa_tol : S }.

  Definition ua_norm (u : U) : S := ssqrt (udot u u).
  Definition pa_s2 : S := sadd s1 s1.

  (* tau_min = amin(abs(tau)), sigma_min = amin(abs(sigma)) are computed by __init__ and passed in *)
  Definition pdhga_init (x : X) (u : U) (tau : X) (sigma : U) (tau_min sigma_min inf : S)
             (max_iter : Z) (tol : S) : pdhga_state :=
    mkPDHGA x u x tau sigma tau_min sigma_min inf 0 max_iter tol.

  Definition pdhga__update (st : pdhga_state) : pdhga_state :=
    let sigma := pa_sigma st in
    let tau := pa_tau st in
    let u_old := pa_u st in
    let u1 := uadd (pa_u st) (umul sigma (A (pa_x_ext st))) in          (* axpy(u, sigma, A(x_ext)): u += sigma * A(x_ext) *)
    let u := proxfc sigma u1 in                                         (* copyto(u, proxfc(sigma, u)) *)
    let resid_dual := ua_norm (udiv (usub u u_old) (usqrt sigma)) in    (* norm((u - u_old) / sigma**0.5) *)
    let x_old := pa_x st in
    let x1 := vadd (pa_x st) (xmul (vscale (sopp s1) tau) (AH u)) in    (* axpy(x, -tau, AH(u)) *)
    let x := proxg tau x1 in                                            (* copyto(x, proxg(tau, x)) *)
    let '(theta, tau', sigma', tau_min', sigma_min') :=
      if sgt0 gamma_primal && seq0 gamma_dual then
        let th := sdiv s1 (ssqrt (sadd s1 (smul (smul pa_s2 gamma_primal) (pa_tau_min st)))) in
        (th, vscale th tau, udivs sigma th, smul (pa_tau_min st) th, pa_sigma_min st)   (* tau *= theta; tau_min *= theta; sigma /= theta *)
      else if seq0 gamma_primal && sgt0 gamma_dual then
        let th := sdiv s1 (ssqrt (sadd s1 (smul (smul pa_s2 gamma_dual) (pa_sigma_min st)))) in
        (th, vdivs tau th, uscale th sigma, pa_tau_min st, smul (pa_sigma_min st) th)   (* sigma *= theta; sigma_min *= theta; tau /= theta *)
      else (theta0, tau, sigma, pa_tau_min st, pa_sigma_min st) in
    let x_diff := vsub x x_old in
    let resid_primal := vnorm (xdiv x_diff (xsqrt tau')) in             (* norm(x_diff / tau**0.5)  [tau already updated] *)
    let resid := ssqrt (sadd (smul resid_primal resid_primal) (smul resid_dual resid_dual)) in
    let x_ext := vadd x (vscale theta x_diff) in
    mkPDHGA x u x_ext tau' sigma' tau_min' sigma_min' resid (pa_iter st) (pa_max_iter st) (pa_tol st).

  Definition pdhga__done (st : pdhga_state) : bool := (pa_max_iter st <=? pa_iter st) || sleb (pa_resid st) (pa_tol st).
  Definition pdhga_set_iter (k : Z) (st : pdhga_state) :=
    mkPDHGA (pa_x st) (pa_u st) (pa_x_ext st) (pa_tau st) (pa_sigma st) (pa_tau_min st) (pa_sigma_min st)
            (pa_resid st) k (pa_max_iter st) (pa_tol st).
  Definition PDHGAClass : AlgClass pdhga_state :=
    mkAlgClass pdhga_state pa_iter pa_max_iter pdhga_set_iter pdhga__update pdhga__done.
End PDHGArr.
