(* Fourier.v — hand-written model of sigpy.fourier.fft / ifft / _fftc / _ifftc.

   numpy.fft is an ORACLE: its specification is the explicit sum
       fftn  along one axis of length n :  X[k] = sum_j x[j] * w_n^(j k),   w_n = exp(-2 pi i / n)
       ifftn along one axis            :  x[k] = c * sum_j X[j] * conj(w_n)^(j k)
   with the scalings  norm=None: forward 1, inverse 1/n;  norm='ortho': 1/sqrt n both ways,
   applied axis after axis; fftshift / ifftshift are numpy.roll by n//2 / -(n//2).
   The model is a Gallina term over an operations record [R : Ops]; the twiddle table
   [tw n m] (= w_n^m, 0 <= m < n) and the scalings [isc n] (= 1/sqrt n), [inv n] (= 1/n)
   are PARAMETERS: in coq/run they are data supplied by the harness (Coq has no float cos),
   in coq/proofs they are powers of an abstract root of unity.
   Definitions only; proofs are in proofs/Fourier*.v. *)
From Coq Require Import ZArith List Lia Bool.
From SV Require Import lib.Scalar lib.BigSum lib.LoopIR lib.NdArray lib.Gather model.Rearrange.
Import ListNotations.
Local Open Scope Z_scope.

(* sums over an [Ops] (no laws): same recursion as BigSum.sum_nat, so that on a StarRing
   [osumZ] is convertible with [sumZ]. *)
Fixpoint osum_nat {R : Ops} (n : nat) (f : nat -> R) : R :=
  match n with O => zero | S k => add (osum_nat k f) (f k) end.
Definition osumZ {R : Ops} (n : Z) (f : Z -> R) : R :=
  osum_nat (Z.to_nat n) (fun k => f (Z.of_nat k)).

Fixpoint opow {R : Ops} (w : R) (n : nat) : R :=
  match n with O => one | S k => mul w (opow w k) end.

(* list helpers: axis positions are naturals after normalisation *)
Definition nthd (l : list Z) (a : nat) : Z := nth a l 0.
Fixpoint upd (l : list Z) (a : nat) (v : Z) : list Z :=
  match l, a with
  | [], _ => []
  | _ :: l', O => v :: l'
  | x :: l', S a' => x :: upd l' a' v
  end.

Fixpoint insertZ (a : Z) (l : list Z) : list Z :=
  match l with [] => [a] | b :: l' => if a <=? b then a :: l else b :: insertZ a l' end.
Definition sortZ (l : list Z) : list Z := fold_right insertZ [] l.

(* util._normalize_axes:  tuple(a % ndim for a in sorted(axes))  /  range(ndim) *)
Definition normalize_axes_sorted (axes : option (list Z)) (ndim : Z) : list nat :=
  match axes with
  | None => map Z.to_nat (zrange 0 ndim 1)
  | Some l => map (fun a => Z.to_nat (a mod ndim)) (sortZ l)
  end.

(* dtype decision table of fft/ifft: non-complex input is cast to complex64, the result is
   cast back to the (possibly new) input dtype *)
Inductive dtype := F32 | F64 | C64 | C128 | OtherReal.
Definition dtype_of_code (c : Z) : dtype :=
  if c =? 0 then F32 else if c =? 1 then F64 else if c =? 2 then C64 else if c =? 3 then C128 else OtherReal.
Definition dtype_code (d : dtype) : Z :=
  match d with F32 => 0 | F64 => 1 | C64 => 2 | C128 => 3 | OtherReal => 4 end.
Definition is_complex (d : dtype) : bool := match d with C64 | C128 => true | _ => false end.
Definition fft_out_dtype (d : dtype) : dtype := if is_complex d then d else C64.

Section Model.
  Variable R : Ops.
  Notation farr := (list Z -> R).

  (* oracle data *)
  Variable tw : Z -> Z -> R.     (* tw n m = w_n^m, 0 <= m < n *)
  Variable isc : Z -> R.         (* 1/sqrt n *)
  Variable inv : Z -> R.         (* 1/n *)

  (* re-tabulate an array (so that composed stages are not recomputed) *)
  Definition forceA (s : list Z) (x : farr) : farr := of_list zero s (tabulate s x).

  (* ---- one-dimensional kernels (numpy.fft c2c specification) ------------------- *)
  Definition fker (ortho : bool) (n j k : Z) : R :=
    let t := tw n ((j * k) mod n) in if ortho then mul (isc n) t else t.
  Definition iker (ortho : bool) (n j k : Z) : R :=
    mul (if ortho then isc n else inv n) (conj (tw n ((j * k) mod n))).
  Definition ker1 (inverse ortho : bool) := if inverse then iker ortho else fker ortho.

  Definition dft1 (ker : Z -> Z -> Z -> R) (n : Z) (x : Z -> R) (k : Z) : R :=
    osumZ n (fun j => mul (x j) (ker n j k)).

  (* numpy.fft.fftshift : roll by n//2  (out[k] = in[(k - n//2) mod n]);
     numpy.fft.ifftshift: roll by -(n//2) (out[k] = in[(k + n//2) mod n]) *)
  Definition g_fftshift (n k : Z) : Z := (k - n / 2) mod n.
  Definition g_ifftshift (n k : Z) : Z := (k + n / 2) mod n.

  (* ---- N-D: an operation along axis a of an array of shape s -------------------- *)
  Definition along_g (s : list Z) (a : nat) (g : Z -> Z -> Z) (x : farr) : farr :=
    fun idx => x (upd idx a (g (nthd s a) (nthd idx a))).
  Definition along_k (s : list Z) (a : nat) (ker : Z -> Z -> Z -> R) (x : farr) : farr :=
    fun idx => osumZ (nthd s a) (fun j => mul (x (upd idx a j)) (ker (nthd s a) j (nthd idx a))).

  Definition shiftn (s : list Z) (axes : list nat) (g : Z -> Z -> Z) (x : farr) : farr :=
    fold_left (fun y a => along_g s a g y) axes x.
  (* fftn / ifftn with s=None: one c2c pass per listed axis (numpy iterates the list reversed;
     the order is irrelevant, proofs/FourierND.v) *)
  Definition fftn (inverse ortho : bool) (s : list Z) (axes : list nat) (x : farr) : farr :=
    fold_left (fun y a => forceA s (along_k s a (ker1 inverse ortho) y)) (rev axes) x.

  (* fourier._fftc / _ifftc *)
  Definition fftc (inverse ortho : bool) (ishape : list Z) (oshape axes : option (list Z)) (x : farr)
    : list Z * farr :=
    let ndim := Z.of_nat (length ishape) in
    let ax := normalize_axes_sorted axes ndim in
    let osh := match oshape with Some o => o | None => ishape end in
    let t0 := forceA osh (resize ishape osh None None x) in
    let t1 := forceA osh (shiftn osh ax g_ifftshift t0) in
    let t2 := fftn inverse ortho osh ax t1 in
    (osh, shiftn osh ax g_fftshift t2).

  (* numpy fftn(input, s=oshape, axes=axes) (center=False): along axes[ii] the input is cropped or
     zero-padded AT THE END to s[ii], then transformed; axes=None with s given means the last
     len(s) axes (numpy < 3 behaviour, deprecated). *)
  Definition pad_ax (s : list Z) (a : nat) (x : farr) : farr :=
    fun idx => if nthd idx a <? nthd s a then x idx else zero.
  Definition fft_plain (inverse ortho : bool) (ishape : list Z) (oshape axes : option (list Z)) (x : farr)
    : list Z * farr :=
    let ndim := Z.of_nat (length ishape) in
    let axl := match axes with
               | Some l => l
               | None => match oshape with
                         | Some o => zrange (ndim - Z.of_nat (length o)) ndim 1
                         | None => zrange 0 ndim 1
                         end
               end in
    let axn := map (fun a => Z.to_nat (a mod ndim)) axl in
    let sl := match oshape with Some o => o | None => map (nthd ishape) axn end in
    fold_left (fun (st : list Z * farr) (an : nat * Z) =>
                 let '(sh, y) := st in let '(a, n) := an in
                 let sh' := upd sh a n in
                 (sh', forceA sh' (along_k sh' a (ker1 inverse ortho) (pad_ax sh a y))))
              (rev (combine axn sl)) (ishape, x).

  (* fourier.fft / ifft (values; the dtype rule is [fft_out_dtype]) *)
  Definition fft_model (inverse center ortho : bool) (ishape : list Z) (oshape axes : option (list Z)) (x : farr)
    : list Z * farr :=
    if center then fftc inverse ortho ishape oshape axes x
    else fft_plain inverse ortho ishape oshape axes x.
End Model.

Arguments forceA {R}. Arguments dft1 {R}. Arguments along_g {R}. Arguments along_k {R}.
Arguments shiftn {R}. Arguments fftn {R}. Arguments fftc {R}. Arguments fft_plain {R}. Arguments fft_model {R}.
Arguments fker {R}. Arguments iker {R}. Arguments ker1 {R}. Arguments pad_ax {R}.
