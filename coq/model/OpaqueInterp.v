(* OpaqueInterp.v — denotation of the library-backed Linop leaves Interpolate / Gridding (sigpy/linop.py)
   through the EXISTING function model of sigpy.interp (model/Interp.v: hand-modelled wrappers around the kernels
   generated from interp.py).  Definitions only.

   linop.py:
     Interpolate(ishape, coord, kernel, width, param)._apply(input) =
        interp.interpolate(input, self.coord, kernel=self.kernel, width=self.width, param=self.param)
     Gridding(oshape, coord, kernel, width, param)._apply(input) =
        interp.gridding(input, self.coord, self.oshape, kernel=self.kernel, width=self.width, param=self.param)

   In the deep embedding (model/Linop.v) kernel / width / param are integer CODES assigned by vlib/linser.py
   (Serializer.code: one code per distinct ('kernel', name) / ('width', value) / ('param', value)); the
   environment below decodes them.  Coordinates are a captured array of the separate coordinate scalar type
   (lib/Coord.v, COps), looked up by the tag of the [aref] exactly as [den] looks up MatMul / Multiply arrays. *)
From Coq Require Import ZArith List Bool.
From SV Require Import lib.Scalar lib.BigSum lib.LoopIR lib.NdArray lib.Coord gen.Gen_interp model.Block model.Interp
  model.Linop.
Import ListNotations.
Local Open Scope Z_scope.

Section OrcInterp.
  Variable R : Ops.
  Variable C : COps.
  Notation farr := (list Z -> R).
  Variable wt : C -> R.                      (* embedding of a real weight into the data scalars *)
  Variable carr : Z -> list Z -> C.          (* captured coordinate arrays by tag *)
  Variable kern_of : Z -> C -> C -> C.       (* kernel code -> K(t, param): 'spline' -> Gen_interp.spline_kernel, ... *)
  Variable width_of : Z -> wp C.             (* width code -> scalar (WScalar) or per-axis sequence (WList) *)
  Variable param_of : Z -> wp C.             (* param code -> scalar or per-axis sequence *)

  Definition orc_interp (L : linop) (x : farr) : farr :=
    match L with
    | Interpolate ishape c k w p =>
        match interpolate R C (kern_of k) wt ishape (ashape_of c) (carr (atag c)) (width_of w) (param_of p) x with
        | Ok (_, y) => y
        | Err _ => fun _ => zero
        end
    | Gridding oshape c k w p =>
        (* the first argument (shape of the input) is not used by the wrapper model: python reshapes the input to
           [batch_size, npts] computed from oshape and coord *)
        match gridding R C (kern_of k) wt (ishape_of L) (ashape_of c) oshape (carr (atag c)) (width_of w) (param_of p) x with
        | Ok y => y
        | Err _ => fun _ => zero
        end
    | _ => fun _ => zero
    end.
End OrcInterp.

(* ---- parameter validity: what the python class needs in order to run ----
   coord.shape = pts_shape + [ndim] with ndim in {1, 2, 3} (the kernel tables _interpolate[kernel] have three
   entries), and the grid shape has at least ndim axes (input.reshape([batch_size] + input.shape[-ndim:]) must
   have rank ndim + 1 for the numba kernel).  Positivity of all extents is [wf]. *)
Definition interp_ok (shape : list Z) (c : aref) : bool :=
  let cs := ashape_of c in
  let nd := pyget cs (-1) in
  (1 <=? length cs)%nat && (1 <=? nd) && (nd <=? 3) && (Z.to_nat nd <=? length shape)%nat.

(* the decoded width / param must be a scalar or a sequence with at least ndim entries (the kernels read
   width[-1] .. width[-ndim] without bounds checks); NOT needed for adjointness, only for the model to be a
   faithful reading of the numba kernels *)
Definition wp_ok {C : COps} (ndim : nat) (w : wp C) : bool :=
  match w with WScalar _ _ => true | WList _ l => (ndim <=? length l)%nat end.

Definition proven_node_interp (L : linop) : bool :=
  match L with
  | Interpolate s c _ _ _ | Gridding s c _ _ _ => interp_ok s c
  | _ => false
  end.

Definition interp_env_ok {C : COps} (width_of param_of : Z -> wp C) (L : linop) : bool :=
  match L with
  | Interpolate _ c _ w p | Gridding _ c _ w p =>
      let nd := Z.to_nat (pyget (ashape_of c) (-1)) in wp_ok nd (width_of w) && wp_ok nd (param_of p)
  | _ => false
  end.
