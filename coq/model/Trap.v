(* model/Trap.v — executable Gallina model of the trapezoid gradient designers
   sigpy/mri/rf/trajgrad.py: trap_grad (lines 76-139) and min_trap_grad (lines 26-73).

   Written ONCE over a record [RealOps] of "real-like" operations (no laws); it
   is instantiated on PrimFloat in run/RunC20.v (evaluated by vm_compute and
   compared with the implementation) and on Coq's R in proofs/Trap.v.
   Definitions only, no proofs.  Each definition quotes the Python it mirrors. *)
From Coq Require Import ZArith List Bool.
Import ListNotations.

Record RealOps := mkRealOps {
  RT :> Type;
  r0 : RT; r1 : RT;
  radd : RT -> RT -> RT;
  rsub : RT -> RT -> RT;
  rmul : RT -> RT -> RT;
  rdiv : RT -> RT -> RT;
  rsqrt : RT -> RT;
  rabs : RT -> RT;
  rceil : RT -> Z;            (* int(np.ceil(x))  *)
  rfloor : RT -> Z;           (* int(np.floor(x)) *)
  rofZ : Z -> RT;             (* float(n)         *)
  rltb : RT -> RT -> bool }.  (* x < y            *)

Arguments r0 {_}. Arguments r1 {_}. Arguments radd {_}. Arguments rsub {_}. Arguments rmul {_}. Arguments rdiv {_}.
Arguments rsqrt {_}. Arguments rabs {_}. Arguments rceil {_}. Arguments rfloor {_}. Arguments rofZ {_}.
Arguments rltb {_}.

(* a, a+1, ..., a+n-1 *)
Fixpoint ziota (a : Z) (n : nat) : list Z :=
  match n with O => [] | S n' => a :: ziota (a + 1) n' end.

Section Model.
  Context {T : RealOps}.

  (* Python builtin sum(pulse): ((0 + p0) + p1) + ...   (np.sum of an array of ones is the same number) *)
  Definition rsum (l : list T) : T := fold_left radd l r0.
  (* np.max of a non-empty array *)
  Definition rmaxl (l : list T) : T :=
    match l with [] => r0 | x :: l' => fold_left (fun m y => if rltb m y then y else m) l' x end.

  (* np.linspace(0, r, num=r+1) / r  :  the samples of linspace are exactly 0,1,...,r *)
  Definition ramp_up (r : Z) : list T :=
    map (fun i => rdiv (rofZ i) (rofZ r)) (ziota 0 (Z.to_nat (r + 1))).
  (* np.linspace(r, 0, num=r+1) / r  :  exactly r, r-1, ..., 0 *)
  Definition ramp_dn (r : Z) : list T :=
    map (fun i => rdiv (rofZ (r - i)) (rofZ r)) (ziota 0 (Z.to_nat (r + 1))).
  (* np.ones(n) *)
  Definition ones (n : Z) : list T := repeat r1 (Z.to_nat n).

  (* ---- trap_grad(area, gmax, dgdt, dt)  (rampsamp = 1, the only reachable setting) ------------- *)
  Definition trap_pulse (area gmax dgdt dt : T) : list T * Z :=
    let ramppts := rceil (rdiv (rdiv gmax dgdt) dt) in                 (* int(np.ceil(gmax / dgdt / dt)) *)
    let triareamax := rmul (rmul (rofZ ramppts) dt) gmax in            (* ramppts * dt * gmax *)
    if rltb (rabs area) triareamax then                                (* triareamax > np.abs(area): triangle *)
      let newgmax := rsqrt (rmul (rabs area) dgdt) in                  (* np.sqrt(np.abs(area) * dgdt) *)
      let ramppts := rceil (rdiv (rdiv newgmax dgdt) dt) in            (* int(np.ceil(newgmax / dgdt / dt)) *)
      (ramp_up ramppts ++ ramp_dn ramppts, ramppts)
    else                                                               (* trapezoid *)
      let nflat := (rceil (rdiv (rdiv (rdiv (rsub area triareamax) gmax) dt) (rofZ 2)) * 2)%Z in
                                                                       (* int(np.ceil((area - triareamax)/gmax/dt/2)*2) *)
      (ramp_up ramppts ++ ones nflat ++ ramp_dn ramppts, ramppts).

  Definition trap_grad (area gmax dgdt dt : T) : list T * Z :=
    if rltb r0 (rabs area) then                                        (* np.abs(area) > 0 *)
      let '(pulse, ramppts) := trap_pulse area gmax dgdt dt in
      let scale := rdiv area (rmul (rsum pulse) dt) in                 (* area / (sum(pulse) * dt) *)
      (map (fun p => rmul p scale) pulse, ramppts)                     (* pulse * (...) *)
    else ([r0], 0%Z).                                                  (* trap, ramppts = 0, 0 *)

  (* ---- min_trap_grad(area, gmax, dgdt, dt) -------------------------------------------------- *)
  (* flat = np.ones((1, n)); flat = flat / np.sum(flat) * area / dt *)
  Definition flat_of (n : Z) (area dt : T) : list T :=
    let o := ones n in
    let s := rsum o in
    map (fun x => rdiv (rmul (rdiv x s) area) dt) o.

  Definition min_trap_flat (area gmax dgdt dt : T) : list T :=
    let a := rsqrt (rdiv (rmul dgdt area) (rofZ 2)) in                 (* np.sqrt(dgdt * area / 2) *)
    let pts := Z.max (rfloor (rdiv (rdiv area a) dt)) 1 in             (* max(np.floor(area / a / dt), 1) *)
    let flat := flat_of pts area dt in
    if rltb gmax (rmaxl flat) then                                     (* np.max(flat) > gmax *)
      flat_of (rceil (rdiv (rdiv area gmax) dt)) area dt               (* np.ones((1, int(np.ceil(area/gmax/dt)))) ... *)
    else flat.

  Definition min_trap_grad (area gmax dgdt dt : T) : list T * Z :=
    if rltb r0 (rabs area) then
      let flat := min_trap_flat area gmax dgdt dt in
      let top := rmaxl flat in
      let ramppts := rceil (rdiv (rdiv top dgdt) dt) in                (* int(np.ceil(np.max(flat) / dgdt / dt)) *)
      (map (fun x => rmul x top) (ramp_up ramppts) ++ flat ++ map (fun x => rmul x top) (ramp_dn ramppts), ramppts)
    else ([r0], 0%Z).

  (* the flat part of min_trap_grad's result (what its "area" refers to) *)
  Definition min_trap_flat_part (area gmax dgdt dt : T) : list T :=
    if rltb r0 (rabs area) then min_trap_flat area gmax dgdt dt else [].
End Model.
