(* Interp.v — model of sigpy.interp.interpolate / gridding: the Python wrappers by hand (batch
   flattening, coord reshape, scalar-or-per-axis width/param, dispatch on ndim) around the numba
   kernels GENERATED from interp.py (gen/Gen_interp.v), and the documented N-D kernel sums. *)
From Coq Require Import ZArith List Lia Bool.
From SV Require Import lib.Scalar lib.BigSum lib.LoopIR lib.NdArray lib.Coord gen.Gen_interp model.Block.
Import ListNotations.
Local Open Scope Z_scope.

Section M.
  Variable R : Ops.
  Variable C : COps.
  Variable kern : C -> C -> C.
  Variable wt : C -> R.

  Inductive wp := WScalar (c : C) | WList (l : list C).
  (* xp.array([param] * ndim) or xp.array(param) *)
  Definition wp_array (ndim : nat) (w : wp) : list Z -> C :=
    let l := match w with WScalar c => repeat c ndim | WList l => l end in
    fun idx => match idx with [k] => nth (Z.to_nat k) l (cofZ 0) | _ => cofZ 0 end.
  Definition wp_len (ndim : nat) (w : wp) : Z := match w with WScalar _ => Z.of_nat ndim | WList l => Z.of_nat (length l) end.

  (* coord of shape pts_shape ++ [ndim] viewed as [npts; ndim] *)
  Definition coord2 (cshape : list Z) (coord : list Z -> C) : list Z -> C :=
    fun idx => match idx with [p; d] => coord (unravel (droplast 1 cshape) p ++ [d]) | _ => cofZ 0 end.

  Definition interpolate (ishape cshape : list Z) (coord : list Z -> C) (width param : wp) (x : list Z -> R)
    : result (list Z * (list Z -> R)) :=
    let ndim := Z.to_nat (last cshape 0) in
    let batch_shape := droplast ndim ishape in
    let batch_size := prodZ batch_shape in
    let pts_shape := droplast 1 cshape in
    let npts := prodZ pts_shape in
    let kin_shape := batch_size :: lastn ndim ishape in
    let kout_shape := [batch_size; npts] in
    let cs := [npts; Z.of_nat ndim] in
    let xin := flatten_batch R batch_shape x in
    let c2 := coord2 cshape coord in
    let W := wp_array ndim width in let P := wp_array ndim param in
    let ws := [wp_len ndim width] in let ps := [wp_len ndim param] in
    let z : list Z -> R := fun _ => zero in
    let out (n : nest R) := Ok (batch_shape ++ pts_shape,
         fun idx => exec n [] z [ravel batch_shape (firstn (length batch_shape) idx);
                                 ravel pts_shape (skipn (length batch_shape) idx)]) in
    match ndim with
    | 1%nat => out (k_interpolate1 R C kern wt xin c2 W P cs kin_shape kout_shape ps ws)
    | 2%nat => out (k_interpolate2 R C kern wt xin c2 W P cs kin_shape kout_shape ps ws)
    | 3%nat => out (k_interpolate3 R C kern wt xin c2 W P cs kin_shape kout_shape ps ws)
    | _ => Err 2
    end.

  Definition gridding (in_shape cshape oshape : list Z) (coord : list Z -> C) (width param : wp) (x : list Z -> R)
    : result (list Z -> R) :=
    let ndim := Z.to_nat (last cshape 0) in
    let batch_shape := droplast ndim oshape in
    let batch_size := prodZ batch_shape in
    let pts_shape := droplast 1 cshape in
    let npts := prodZ pts_shape in
    let kin_shape := [batch_size; npts] in
    let kout_shape := batch_size :: lastn ndim oshape in
    let cs := [npts; Z.of_nat ndim] in
    (* input.reshape([batch_size, npts]) *)
    let xin : list Z -> R := fun idx => match idx with
        | [b; p] => x (unravel batch_shape b ++ unravel pts_shape p) | _ => zero end in
    let c2 := coord2 cshape coord in
    let W := wp_array ndim width in let P := wp_array ndim param in
    let ws := [wp_len ndim width] in let ps := [wp_len ndim param] in
    let z : list Z -> R := fun _ => zero in
    let out (n : nest R) := Ok (unflatten_batch R batch_shape (length batch_shape) (exec n [] z)) in
    match ndim with
    | 1%nat => out (k_gridding1 R C kern wt xin c2 W P cs kin_shape kout_shape ps ws)
    | 2%nat => out (k_gridding2 R C kern wt xin c2 W P cs kin_shape kout_shape ps ws)
    | 3%nat => out (k_gridding3 R C kern wt xin c2 W P cs kin_shape kout_shape ps ws)
    | _ => Err 2
    end.

  (* ---- the documented sums, any number of dimensions ---- *)
  Definition half (w : C) : C := cdiv w (cofZ 2).
  (* per-axis window of integer grid positions and their weights, outermost axis first *)
  Fixpoint windows (ks ws ps : list C) : list (list (Z * C)) :=
    match ks, ws, ps with
    | k :: ks', w :: ws', p :: ps' =>
        map (fun i => (i, kern (cdiv (csub (cofZ i) k) (half w)) p))
            (zrange (cceil (csub k (half w))) (cfloor (cadd k (half w)) + 1) 1) :: windows ks' ws' ps'
    | _, _, _ => []
    end.
  (* all combinations: (grid index, product of weights multiplied outermost-first) *)
  Fixpoint combos (wins : list (list (Z * C))) (acc : option C) : list (list Z * C) :=
    match wins with
    | [] => [([], match acc with Some a => a | None => cofZ 1 end)]
    | win :: rest =>
        flat_map (fun iw => let a := match acc with Some a => cmul a (snd iw) | None => snd iw end in
                            map (fun r => (fst iw :: fst r, snd r)) (combos rest (Some a))) win
    end.
  Definition wp_list (ndim : nat) (w : wp) : list C := match w with WScalar c => repeat c ndim | WList l => l end.
  Fixpoint sumR (l : list R) : R := match l with [] => zero | v :: l' => add v (sumR l') end.
  Definition wrap (n : list Z) (i : list Z) : list Z := map (fun p => fst p mod snd p) (combine i n).

  Definition point_terms (ishape cshape : list Z) (coord : list Z -> C) (width param : wp) (pt : list Z) : list (list Z * C) :=
    let ndim := Z.to_nat (last cshape 0) in
    let ks := map (fun d => coord (pt ++ [d])) (zrange 0 (Z.of_nat ndim) 1) in
    combos (windows ks (wp_list ndim width) (wp_list ndim param)) None.

  Definition interp_spec (ishape cshape : list Z) (coord : list Z -> C) (width param : wp) (x : list Z -> R) : list Z -> R :=
    let ndim := Z.to_nat (last cshape 0) in
    let nb := (length ishape - ndim)%nat in
    let grid := lastn ndim ishape in
    fun idx =>
      let bat := firstn nb idx in let pt := skipn nb idx in
      sumR (map (fun t => mul (wt (snd t)) (x (bat ++ wrap grid (fst t)))) (point_terms ishape cshape coord width param pt)).

  Definition gridding_spec (cshape oshape : list Z) (coord : list Z -> C) (width param : wp) (x : list Z -> R) : list Z -> R :=
    let ndim := Z.to_nat (last cshape 0) in
    let nb := (length oshape - ndim)%nat in
    let grid := lastn ndim oshape in
    let pts := enum_box (droplast 1 cshape) in
    fun idx =>
      let bat := firstn nb idx in let g := skipn nb idx in
      sumR (map (fun pt =>
        sumR (map (fun t => if zlist_eqb (wrap grid (fst t)) g then mul (wt (snd t)) (x (bat ++ pt)) else zero)
                  (point_terms oshape cshape coord width param pt))) pts).
End M.
