(* Sense.v — model of sigpy.mri.linop.Sense: the explicit multi-coil encoding, its coil-batched
   evaluation (what the factory's Vstack of sliced operators computes), and the operator tree the
   factory builds. *)
From Coq Require Import ZArith List Lia Bool.
From SV Require Import lib.Scalar lib.BigSum lib.NdArray model.Block model.Linop.
Import ListNotations.
Local Open Scope Z_scope.

Section S.
  Variable R : Ops.
  Notation farr := (list Z -> R).
  (* single-coil Fourier encoding (uniform FFT or NUFFT): image-shaped array -> k-space-shaped array *)
  Variable F : farr -> farr.
  Variable FH : farr -> farr.
  Variable maps : farr.         (* [nc] ++ ishape *)
  Variable sqw : farr.          (* sqrt of the k-space weights, indexed by the k-space index (no coil axis), 1 when absent *)
  Variable nc : Z.

  (* y[c, k] = sqrt(w)[k] * F( maps[c] .* x )[k] *)
  Definition sense_explicit (x : farr) : farr :=
    fun o => match o with
             | c :: k => mul (sqw k) (F (fun r => mul (maps (c :: r)) (x r)) k)
             | [] => zero
             end.

  (* the same, computed batch by batch on slices maps[j*b : (j+1)*b] and stacked along the coil axis *)
  Definition slice_maps (b j : Z) : farr := fun idx => match idx with t :: r => maps (j * b + t :: r) | [] => zero end.
  Definition sense_batch_part (b j : Z) (x : farr) : farr :=
    fun o => match o with
             | t :: k => mul (sqw k) (F (fun r => mul (slice_maps b j (t :: r)) (x r)) k)
             | [] => zero
             end.
  Definition sense_batched (b : Z) (x : farr) : farr :=
    fun o => match o with
             | c :: k => sense_batch_part b (c / b) x (c mod b :: k)
             | [] => zero
             end.
End S.

(* the tree built by the factory for one batch: P * (F * S), and the Vstack over batches *)
Definition sense_tree1 (ishape : list Z) (m : aref) (fleaf : list Z -> linop) (w : option aref) : linop :=
  let S := Multiply ishape (MArray m) false in
  let Fl := fleaf (oshape_of S) in
  let A := mkCompose [Fl; S] in
  match w with
  | None => A
  | Some sw => mkCompose [Multiply (oshape_of Fl) (MArray sw) false; A]
  end.

Definition sense_tree (ishape : list Z) (ms : list aref) (fleaf : list Z -> linop) (ws : list (option aref)) : linop :=
  match ms, ws with
  | [m], [w] => sense_tree1 ishape m fleaf w
  | _, _ => Vstack (map (fun mw => sense_tree1 ishape (fst mw) fleaf (snd mw)) (combine ms ws)) (Some 0)
  end.
