(* Sense.v — model of sigpy.mri.linop.Sense: the explicit multi-coil encoding, its coil-batched
   evaluation (what the factory's Vstack of sliced operators computes), and the operator tree the
   factory builds. *)
From Coq Require Import ZArith List Lia Bool.
From SV Require Import lib.Scalar lib.BigSum lib.LoopIR lib.NdArray model.Block model.Linop.
Import ListNotations.
Local Open Scope Z_scope.

Section S.
  Variable R : Ops.
  Notation farr := (list Z -> R).
  (* single-coil Fourier encoding (uniform FFT or NUFFT): image-shaped array -> k-space-shaped array *)
  Variable F : farr -> farr.
  Variable FH : farr -> farr.
  Variable maps : farr.         (* [nc] ++ ishape *)
  Variable sqw : farr.          (* sqrt of the k-space weights, indexed by the k-space index (no coil axis), 1 when absent *)
  Variable nc : Z.

  (* y[c, k] = sqrt(w)[k] * F( maps[c] .* x )[k] *)
  Definition sense_explicit (x : farr) : farr :=
    fun o => match o with
             | c :: k => mul (sqw k) (F (fun r => mul (maps (c :: r)) (x r)) k)
             | [] => zero
             end.

  (* the same, computed batch by batch on slices maps[j*b : (j+1)*b] and stacked along the coil axis *)
  Definition slice_maps (b j : Z) : farr := fun idx => match idx with t :: r => maps (j * b + t :: r) | [] => zero end.
  Definition sense_batch_part (b j : Z) (x : farr) : farr :=
    fun o => match o with
             | t :: k => mul (sqw k) (F (fun r => mul (slice_maps b j (t :: r)) (x r)) k)
             | [] => zero
             end.
  Definition sense_batched (b : Z) (x : farr) : farr :=
    fun o => match o with
             | c :: k => sense_batch_part b (c / b) x (c mod b :: k)
             | [] => zero
             end.
End S.

(* the tree built by the factory for one batch: P * (F * S), and the Vstack over batches *)
Definition sense_tree1 (ishape : list Z) (m : aref) (fleaf : list Z -> linop) (w : option aref) : linop :=
  let S := Multiply ishape (MArray m) false in
  let Fl := fleaf (oshape_of S) in
  let A := mkCompose [Fl; S] in
  match w with
  | None => A
  | Some sw => mkCompose [Multiply (oshape_of Fl) (MArray sw) false; A]
  end.

Definition sense_tree (ishape : list Z) (ms : list aref) (fleaf : list Z -> linop) (ws : list (option aref)) : linop :=
  match ms, ws with
  | [m], [w] => sense_tree1 ishape m fleaf w
  | _, _ => Vstack (map (fun mw => sense_tree1 ishape (fst mw) fleaf (snd mw)) (combine ms ws)) (Some 0)
  end.

(* ------------------------------------------------------------------------------------------------
   The factory as a function of its ARGUMENTS (CPU, single process: tseg = None, comm = None).
   [sense_tree] above takes the per-batch arrays as given; here they are computed from the caller's
   arrays the way sigpy.mri.linop.Sense does it: maps[c*b : (c+1)*b], weights ** 0.5, -coord,
   weights sliced like the maps when they carry a coil axis.  Arrays are references (tag, shape);
   the tag of a derived array is given by an abstract naming [aops], its shape is computed
   (numpy basic indexing: Linop.slice_shape).  tools/translate_sense.py regenerates this function
   from the source on every run (gen/Gen_sense.v: gen_Sense_ok); proofs/SenseFactory.v shows that it
   is [sense_tree] applied to those per-batch arrays. *)
Record aops := mkAops {
  slice0_tag : Z -> Z -> Z -> Z;      (* tag of a[lo:hi] (slice of the FIRST axis) from the tag of a *)
  sqrt_tag : Z -> Z;                  (* tag of a ** 0.5 *)
  neg_tag : Z -> Z;                   (* tag of -a *)
  mask_tag : Z -> Z;                  (* tag of (rss(a, axes=(0,)) > 0).astype(a.dtype) *)
  mul_tag : Z -> Z -> Z;              (* tag of a * b (a NEW array) *)
  (* library fact, not a name: coefficient shape of sigpy.linop.Wavelet(ishape, axes, wave_name, level) (pywt) *)
  wav_shape : list Z -> option (list Z) -> Z -> option Z -> list Z
}.

Definition a_slice0 (O : aops) (a : aref) (lo hi : Z) : aref :=
  ARef (slice0_tag O (atag a) lo hi)
       (match slice_shape (ashape_of a) [SSlice (Some lo) (Some hi) None] with Ok s => s | Err _ => [] end).
Definition a_sqrt (O : aops) (a : aref) : aref := ARef (sqrt_tag O (atag a)) (ashape_of a).
Definition a_neg (O : aops) (a : aref) : aref := ARef (neg_tag O (atag a)) (ashape_of a).
(* the sampling mask estimated from k-space data y: rss over the coil axis (axis 0) > 0 *)
Definition a_mask (O : aops) (y : aref) : aref := ARef (mask_tag O (atag y)) (tl (ashape_of y)).
(* a * b with numpy broadcasting *)
Definition a_mul (O : aops) (a b : aref) : aref :=
  ARef (mul_tag O (atag a) (atag b))
       (match multiply_oshape (ashape_of a) (ashape_of b) with Ok s => s | Err _ => [] end).

(* len(a) of an array = shape[0] *)
Definition alen (a : aref) : Z := getZ (ashape_of a) 0.

(* defaults of sigpy.linop.NUFFT.__init__ as they appear in the leaves built by the factory:
   oversamp in hundredths (1.25), kernel width *)
Definition nufft_default_oversamp : Z := 125.
Definition nufft_default_width : Z := 4.

Record sense_args := mkSenseArgs {
  sa_mps : aref;
  sa_coord : option aref;
  sa_weights : option aref;
  sa_ishape : option (list Z);
  sa_batch : option Z;                (* coil_batch_size *)
  sa_transp : bool                    (* transp_nufft *)
}.

(* (ishape, img_ndim) *)
Definition sense_img (a : sense_args) : list Z * Z :=
  match sa_ishape a with
  | None => (tl (ashape_of (sa_mps a)), lenZ (ashape_of (sa_mps a)) - 1)
  | Some s => (s, lenZ s)
  end.

(* the single-coil-batch Fourier leaf: centred FFT over the image axes, NUFFT(coord), or NUFFT(-coord).H *)
Definition sense_fleaf (O : aops) (coord : option aref) (transp : bool) (img_ndim : Z) (osh : list Z) : linop :=
  match coord with
  | None => FFT osh (Some (zrange (- img_ndim) 0 1)) true
  | Some c =>
      if transp then adj (NUFFT osh (a_neg O c) nufft_default_oversamp nufft_default_width false)
      else NUFFT osh c nufft_default_oversamp nufft_default_width false
  end.

(* all coils at once: [sqrt(weights)] * F * Multiply(ishape, mps) *)
Definition sense_single (O : aops) (a : sense_args) : linop :=
  sense_tree1 (fst (sense_img a)) (sa_mps a) (sense_fleaf O (sa_coord a) (sa_transp a) (snd (sense_img a)))
              (option_map (a_sqrt O) (sa_weights a)).

Definition sense_nbatches (nc b : Z) : Z := (nc + b - 1) / b.
Definition sense_batch_maps (O : aops) (mps : aref) (b c : Z) : aref := a_slice0 O mps (c * b) ((c + 1) * b).
(* weights that carry a coil axis (k-space rank, first extent = number of coils) are split like the maps *)
Definition sense_batch_weights (O : aops) (w : option aref) (ksp_ndim nc b c : Z) : option aref :=
  match w with
  | Some w0 =>
      if (lenZ (ashape_of w0) =? ksp_ndim) && (getZ (ashape_of w0) 0 =? nc)
      then Some (a_slice0 O w0 (c * b) ((c + 1) * b)) else Some w0
  | None => None
  end.
Definition sense_ksp_ndim (coord : option aref) (img_ndim : Z) : Z :=
  match coord with None => img_ndim + 1 | Some c => lenZ (ashape_of c) end.

(* arguments of the c-th per-batch call *)
Definition sense_batch_args (O : aops) (a : sense_args) (b c : Z) : sense_args :=
  mkSenseArgs (sense_batch_maps O (sa_mps a) b c) (sa_coord a)
              (sense_batch_weights O (sa_weights a) (sense_ksp_ndim (sa_coord a) (snd (sense_img a))) (alen (sa_mps a)) b c)
              (Some (fst (sense_img a))) None (sa_transp a).

Definition sense_factory (O : aops) (a : sense_args) : linop :=
  let nc := alen (sa_mps a) in
  let b := match sa_batch a with None => nc | Some b => b end in
  if b <? nc
  then Vstack (map (fun c => sense_single O (sense_batch_args O a b c)) (zrange 0 (sense_nbatches nc b) 1)) (Some 0)
  else sense_single O a.
