(* Linop.v — deep embedding of sigpy.linop's operator language.

   Hand-written mirror of sigpy/linop.py: one constructor per operator class holding the
   constructor arguments, [shapes] = what each __init__ computes and checks (errors are
   values), [adj] = every _adjoint_linop, [normal] = every _normal_linop, the operator
   overloads, and [den] = what _apply computes (combinators exactly as coded: reverse
   iteration in Compose, start/end slices in Hstack/Vstack/Diag, axis mod ndim).
   Tied to /repo by exact comparison of serialised object graphs and of values
   (props/C01.py, C03.py, C04.py). *)
From Coq Require Import ZArith List Lia Bool.
From SV Require Import lib.Scalar lib.BigSum lib.LoopIR lib.NdArray lib.Gather model.Rearrange model.Block.
Import ListNotations.
Local Open Scope Z_scope.

Inductive aref := ARef (tag : Z) (ashape : list Z).
Inductive mult_t := MScalar (tag : Z) | MArray (a : aref).
(* one item of a basic index: integer, or slice(start, stop, step) *)
Inductive sl := SIdx (k : Z) | SSlice (start stop step : option Z).

Inductive linop :=
| Identity (shape : list Z)
| Conj (A : linop)
| Add (ls : list linop)
| Compose (ls : list linop)
| Hstack (ls : list linop) (axis : option Z)
| Vstack (ls : list linop) (axis : option Z)
| Diag (ls : list linop) (oaxis iaxis : option Z)
| Reshape (oshape ishape : list Z)
| Transpose (ishape : list Z) (axes : option (list Z))
| FFT (shape : list Z) (axes : option (list Z)) (center : bool)
| IFFT (shape : list Z) (axes : option (list Z)) (center : bool)
| MatMul (ishape : list Z) (mat : aref) (adjoint : bool)
| RightMatMul (ishape : list Z) (mat : aref) (adjoint : bool)
| Multiply (ishape : list Z) (m : mult_t) (cj : bool)
| Interpolate (ishape : list Z) (coord : aref) (kernel width param : Z)
| Gridding (oshape : list Z) (coord : aref) (kernel width param : Z)
| Resize (oshape ishape : list Z) (ishift oshift : option (list Z))
| Flip (shape : list Z) (axes : option (list Z))
| Downsample (ishape factors shift : list Z)
| Upsample (oshape factors shift : list Z)
| Circshift (shape shift : list Z) (axes : option (list Z))
| Wavelet (ishape : list Z) (axes : option (list Z)) (wave : Z) (level : option Z) (wshape : list Z)
| InverseWavelet (oshape : list Z) (axes : option (list Z)) (wave : Z) (level : option Z) (wshape : list Z)
| Sum (ishape : list Z) (axes : list Z)
| Tile (oshape : list Z) (axes : list Z)
| ArrayToBlocks (ishape blk_shape blk_strides : list Z)
| BlocksToArray (oshape blk_shape blk_strides : list Z)
| NUFFT (ishape : list Z) (coord : aref) (oversamp width : Z) (toeplitz : bool)
| NUFFTAdjoint (oshape : list Z) (coord : aref) (oversamp width : Z)
| ConvolveData (data_shape : list Z) (filt : aref) (full : bool) (strides : option (list Z)) (mc : bool)
| ConvolveDataAdjoint (data_shape : list Z) (filt : aref) (full : bool) (strides : option (list Z)) (mc : bool)
| ConvolveFilter (filt_shape : list Z) (data : aref) (full : bool) (strides : option (list Z)) (mc : bool)
| ConvolveFilterAdjoint (filt_shape : list Z) (data : aref) (full : bool) (strides : option (list Z)) (mc : bool)
| Slice (ishape : list Z) (idx : list sl)
| Embed (oshape : list Z) (idx : list sl).

(* ---------------------------------------------------------------- small helpers *)
Definition bind {A B} (r : result A) (f : A -> result B) : result B :=
  match r with Ok a => f a | Err e => Err e end.
Notation "x <- r ;; k" := (bind r (fun x => k)) (at level 61, r at next level, right associativity).

Fixpoint mapM {A B} (f : A -> result B) (l : list A) : result (list B) :=
  match l with
  | [] => Ok []
  | a :: l' => b <- f a ;; bs <- mapM f l' ;; Ok (b :: bs)
  end.

Definition all_pos (s : list Z) : bool := forallb (fun n => 0 <? n) s.
Definition getZ (l : list Z) (k : Z) : Z := nth (Z.to_nat k) l 0.
(* python indexing l[k] with k possibly negative *)
Definition pyget (l : list Z) (k : Z) : Z := getZ l (if k <? 0 then Z.of_nat (length l) + k else k).
Definition lenZ {A} (l : list A) : Z := Z.of_nat (length l).
Definition ashape_of (a : aref) : list Z := match a with ARef _ s => s end.
Definition atag (a : aref) : Z := match a with ARef t _ => t end.

Fixpoint setZ (l : list Z) (k : nat) (v : Z) : list Z :=
  match l, k with
  | [], _ => []
  | _ :: l', O => v :: l'
  | x :: l', S k' => x :: setZ l' k' v
  end.

(* error codes (only their presence matters to the correspondence) *)
Definition E_shape := 10%nat.   Definition E_compose := 11%nat.  Definition E_same := 12%nat.
Definition E_stack := 13%nat.   Definition E_bcast := 14%nat.    Definition E_conv := 15%nat.
Definition E_index := 16%nat.

(* ---------------------------------------------------------------- shape functions of linop.py *)
(* _hstack_params / _vstack_params (identical arithmetic): returns (stacked shape, indices) *)
Fixpoint stack_loop (ndim : nat) (axis : Z) (acc : list Z) (idx : Z) (indices : list Z) (rest : list (list Z))
  : result (list Z * list Z) :=
  match rest with
  | [] => Ok (acc, indices)
  | shape :: rest' =>
      if negb (Nat.eqb (length shape) ndim) then Err E_stack else
      (* for i in range(ndim): if i == axis: acc[i] += shape[i]; ... elif shape[i] != acc[i]: raise *)
      let ok := forallb (fun i => (i =? axis) || (getZ shape i =? getZ acc i)) (zrange 0 (Z.of_nat ndim) 1) in
      (* note: the python loop compares against acc *as updated so far*; only index axis changes, and it is skipped *)
      if negb ok then Err E_stack else
      stack_loop ndim axis (setZ acc (Z.to_nat axis) (getZ acc axis + getZ shape axis))
                 (idx + getZ shape axis) (indices ++ [idx]) rest'
  end.

Definition stack_params (shapes : list (list Z)) (axis : option Z) : result (list Z * list Z) :=
  match axis with
  | None =>
      match map (fun s => [prodZ s]) shapes with
      | [] => Err E_stack
      | s0 :: rest => stack_loop 1 0 s0 (getZ s0 0) [] rest
      end
  | Some ax =>
      match shapes with
      | [] => Err E_stack
      | s0 :: rest =>
          let ndim := length s0 in
          if (ndim =? 0)%nat then Err E_stack else
          let a := ax mod Z.of_nat ndim in
          stack_loop ndim a s0 (getZ s0 a) [] rest
      end
  end.

Definition swap_last2 (s : list Z) : list Z :=
  match rev s with
  | a :: b :: r => rev (b :: a :: r)
  | _ => s
  end.

Definition bcast_dim (i m : Z) : bool := (i =? m) || (i =? 1) || (m =? 1).

Definition matmul_oshape (ishape mshape : list Z) (adjoint : bool) : result (list Z) :=
  let '(ie, me0) := expand_shapes ishape mshape in
  let me := if adjoint then swap_last2 me0 else me0 in
  let nd := length ie in
  if (nd <? 2)%nat then Err E_bcast else
  let ib := firstn (nd - 2) ie in let mb := firstn (nd - 2) me in
  if negb (forallb (fun p => bcast_dim (fst p) (snd p)) (combine ib mb)) then Err E_bcast else
  if negb (pyget me (-1) =? pyget ie (-2)) then Err E_bcast else
  Ok (map (fun p => Z.max (fst p) (snd p)) (combine ib mb) ++ [pyget me (-2); pyget ie (-1)]).

Definition right_matmul_oshape (ishape mshape : list Z) (adjoint : bool) : result (list Z) :=
  let '(ie, me0) := expand_shapes ishape mshape in
  let me := if adjoint then swap_last2 me0 else me0 in
  let nd := length ie in
  if (nd <? 2)%nat then Err E_bcast else
  let ib := firstn (nd - 2) ie in let mb := firstn (nd - 2) me in
  if negb (forallb (fun p => bcast_dim (fst p) (snd p)) (combine ib mb)) then Err E_bcast else
  if negb (pyget ie (-1) =? pyget me (-2)) then Err E_bcast else
  Ok (map (fun p => Z.max (fst p) (snd p)) (combine ib mb) ++ [pyget ie (-2); pyget me (-1)]).

(* _get_matmul_adjoint_sum_axes(oshape, ishape, mshape) — note: mshape NOT swapped, zip stops at the shortest *)
Fixpoint sum_axes_loop (ie me os : list Z) (d : Z) : list Z :=
  match ie, me, os with
  | i :: ie', m :: me', o :: os' =>
      (if (i =? 1) && (negb (m =? 1) || negb (o =? 1)) then [d] else []) ++ sum_axes_loop ie' me' os' (d + 1)
  | _, _, _ => []
  end.

Definition matmul_adjoint_sum_axes (oshape ishape mshape : list Z) : list Z :=
  let '(ie, me) := expand_shapes ishape mshape in
  let nd := length ie in
  sum_axes_loop (firstn (nd - 2) ie) (firstn (nd - 2) me) (firstn (length oshape - 2) oshape) 0.

Definition multiply_oshape (ishape mshape : list Z) : result (list Z) :=
  let '(ie, me) := expand_shapes ishape mshape in
  if negb (forallb (fun p => bcast_dim (fst p) (snd p)) (combine ie me)) then Err E_bcast else
  Ok (map (fun p => Z.max (fst p) (snd p)) (combine ie me)).

Definition multiply_adjoint_sum_axes (oshape ishape mshape : list Z) : list Z :=
  let '(ie, me) := expand_shapes ishape mshape in
  sum_axes_loop ie me oshape 0.

Definition mshape_of (m : mult_t) : list Z := match m with MScalar _ => [1] | MArray a => ashape_of a end.

Definition norm_axes_list (axes : list Z) (ndim : Z) : list Z := map (fun a => a mod ndim) axes.

Definition remove_axes (shape : list Z) (axes : list Z) : list Z :=
  map snd (filter (fun p => negb (memZ (fst p) axes)) (combine (zrange 0 (lenZ shape) 1) shape)).

(* conv._get_convolve_params: returns (b, c_o, p) — enough for the operator shapes *)
Definition conv_params (data_shape filt_shape : list Z) (full : bool) (strides : option (list Z)) (mc : bool)
  : result (list Z * Z * list Z) :=
  let mcz := if mc then 2%nat else 0%nat in
  if (length filt_shape <? mcz + 1)%nat then Err E_conv else
  let D := (length filt_shape - mcz)%nat in
  if (length data_shape <? D + (if mc then 1 else 0))%nat then Err E_conv else
  let m := lastn D data_shape in
  let n := lastn D filt_shape in
  let b := droplast (D + (if mc then 1 else 0)) data_shape in
  let chk := if mc then pyget filt_shape (- Z.of_nat D - 1) =? pyget data_shape (- Z.of_nat D - 1) else true in
  if negb chk then Err E_conv else
  let c_o := if mc then pyget filt_shape (- Z.of_nat D - 2) else 1 in
  match (match strides with None => Ok (repeat 1 D)
                       | Some s => if negb (Nat.eqb (length s) D) then Err E_conv else Ok s end) with
  | Err e => Err e
  | Ok s =>
      if full then Ok (b, c_o, zip3 (fun md nd sd => (md + nd - 1 + sd - 1) / sd) m n s)
      else
        let anyge := existsb (fun p => snd p <=? fst p) (combine m n) in
        let anylt := existsb (fun p => fst p <? snd p) (combine m n) in
        if anyge && anylt then Err E_conv
        else Ok (b, c_o, zip3 (fun md nd sd => (md - nd + 1 + sd - 1) / sd) m n s)
  end.

Definition conv_oshape (data_shape filt_shape : list Z) full strides (mc : bool) : result (list Z) :=
  r <- conv_params data_shape filt_shape full strides mc ;;
  let '(b, c_o, p) := r in Ok (if mc then b ++ [c_o] ++ p else b ++ p).

(* numpy basic indexing: shape of np.empty(shape)[idx]; slice.indices semantics *)
Definition slice_indices (n : Z) (start stop step : option Z) : option (Z * Z * Z) :=  (* (first, count, step) *)
  let st := match step with Some s => s | None => 1 end in
  if st =? 0 then None else
  if 0 <? st then
    let lo := match start with None => 0 | Some a => let a' := if a <? 0 then a + n else a in Z.max 0 (Z.min a' n) end in
    let hi := match stop with None => n | Some a => let a' := if a <? 0 then a + n else a in Z.max 0 (Z.min a' n) end in
    Some (lo, Z.max 0 ((hi - lo + st - 1) / st), st)
  else
    let lo := match start with None => n - 1 | Some a => let a' := if a <? 0 then a + n else a in Z.max (-1) (Z.min a' (n - 1)) end in
    let hi := match stop with None => -1 | Some a => let a' := if a <? 0 then a + n else a in Z.max (-1) (Z.min a' (n - 1)) end in
    Some (lo, Z.max 0 ((lo - hi + (- st) - 1) / (- st)), st).

Fixpoint slice_shape (shape : list Z) (idx : list sl) : result (list Z) :=
  match idx, shape with
  | [], _ => Ok shape
  | _ :: _, [] => Err E_index
  | SIdx k :: idx', n :: shape' =>
      let k' := if k <? 0 then k + n else k in
      if (0 <=? k') && (k' <? n) then slice_shape shape' idx' else Err E_index
  | SSlice a b c :: idx', n :: shape' =>
      match slice_indices n a b c with
      | None => Err E_index
      | Some (_, cnt, _) => r <- slice_shape shape' idx' ;; Ok (cnt :: r)
      end
  end.

(* ---------------------------------------------------------------- shapes = __init__ of every class *)
Definition same_all (l : list (list Z)) : bool :=
  match l with [] => true | s0 :: r => forallb (zlist_eqb s0) r end.

Fixpoint compose_ok (l : list (list Z * list Z)) : bool :=   (* (oshape, ishape) pairs, adjacent: ishape_k = oshape_{k+1} *)
  match l with
  | a :: ((b :: _) as r) => zlist_eqb (snd a) (fst b) && compose_ok r
  | _ => true
  end.

Definition finish (o i : list Z) : result (list Z * list Z) :=
  if all_pos o && all_pos i then Ok (o, i) else Err E_shape.

Definition ds_shape (shape factors shift : list Z) : list Z :=
  zip3 (fun i f s => (i - s + f - 1) / f) shape factors shift.

Fixpoint shapes (A : linop) : result (list Z * list Z) :=
  let shapes_list := fix go (l : list linop) : result (list (list Z * list Z)) :=
    match l with [] => Ok [] | a :: l' => s <- shapes a ;; r <- go l' ;; Ok (s :: r) end in
  match A with
  | Identity s => finish s s
  | Conj A => shapes A
  | Add ls =>
      ss <- shapes_list ls ;;
      match ss with
      | [] => Err E_same
      | s0 :: _ => if same_all (map snd ss) && same_all (map fst ss) then finish (fst s0) (snd s0) else Err E_same
      end
  | Compose ls =>
      ss <- shapes_list ls ;;
      if negb (compose_ok ss) then Err E_compose else
      match ss with
      | [] => Err E_compose
      | s0 :: _ => finish (fst s0) (snd (last ss s0))
      end
  | Hstack ls axis =>
      ss <- shapes_list ls ;;
      if negb (same_all (map fst ss)) then Err E_same else
      r <- stack_params (map snd ss) axis ;;
      match ss with [] => Err E_same | s0 :: _ => finish (fst s0) (fst r) end
  | Vstack ls axis =>
      ss <- shapes_list ls ;;
      if negb (same_all (map snd ss)) then Err E_same else
      r <- stack_params (map fst ss) axis ;;
      match ss with [] => Err E_same | s0 :: _ => finish (fst r) (snd s0) end
  | Diag ls oaxis iaxis =>
      ss <- shapes_list ls ;;
      ri <- stack_params (map snd ss) iaxis ;;
      ro <- stack_params (map fst ss) oaxis ;;
      finish (fst ro) (fst ri)
  | Reshape o i => finish o i
  | Transpose i axes =>
      match axes with
      | None => finish (rev i) i
      | Some ax => finish (map (fun a => getZ i (a mod lenZ i)) ax) i     (* __init__ normalises: axes = [a % ndim] *)
      end
  | FFT s _ _ | IFFT s _ _ => finish s s
  | MatMul i m adj => o <- matmul_oshape i (ashape_of m) adj ;; finish o i
  | RightMatMul i m adj => o <- right_matmul_oshape i (ashape_of m) adj ;; finish o i
  | Multiply i m _ => o <- multiply_oshape i (mshape_of m) ;; finish o i
  | Interpolate i c _ _ _ | NUFFT i c _ _ _ =>
      let nd := Z.to_nat (pyget (ashape_of c) (-1)) in
      finish (droplast nd i ++ droplast 1 (ashape_of c)) i
  | Gridding o c _ _ _ | NUFFTAdjoint o c _ _ =>
      let nd := Z.to_nat (pyget (ashape_of c) (-1)) in
      finish o (droplast nd o ++ droplast 1 (ashape_of c))
  | Resize o i _ _ => finish o i
  | Flip s _ => finish s s
  | Downsample i f sh => finish (ds_shape i f sh) i
  | Upsample o f sh => finish o (ds_shape o f sh)
  | Circshift s _ _ => finish s s
  | Wavelet i _ _ _ w => finish w i
  | InverseWavelet o _ _ _ w => finish o w
  | Sum i axes => finish (remove_axes i (norm_axes_list axes (lenZ i))) i
  | Tile o axes => finish o (remove_axes o (norm_axes_list axes (lenZ o)))
  | ArrayToBlocks i b s =>
      finish (droplast (length b) i ++ num_blks i b s ++ b) i
  | BlocksToArray o b s =>
      finish o (droplast (length b) o ++ num_blks o b s ++ b)
  | ConvolveData d f full st mc => o <- conv_oshape d (ashape_of f) full st mc ;; finish o d
  | ConvolveDataAdjoint d f full st mc => o <- conv_oshape d (ashape_of f) full st mc ;; finish d o
  | ConvolveFilter fs d full st mc => o <- conv_oshape (ashape_of d) fs full st mc ;; finish o fs
  | ConvolveFilterAdjoint fs d full st mc => o <- conv_oshape (ashape_of d) fs full st mc ;; finish fs o
  | Slice i idx => o <- slice_shape i idx ;; finish o i
  | Embed o idx => i <- slice_shape o idx ;; finish o i
  end.

Definition oshape_of (A : linop) : list Z := match shapes A with Ok (o, _) => o | Err _ => [] end.
Definition ishape_of (A : linop) : list Z := match shapes A with Ok (_, i) => i | Err _ => [] end.
Definition wf (A : linop) : bool := match shapes A with Ok _ => true | Err _ => false end.

(* ---------------------------------------------------------------- constructors with python's flattening, overloads *)
Definition flatten_compose (ls : list linop) : list linop :=
  flat_map (fun A => match A with Compose l => l | _ => [A] end) ls.
Definition mkCompose (ls : list linop) : linop := Compose (flatten_compose ls).

(* np.argsort of a permutation given as a list of distinct integers: position of k-th smallest *)
Definition argsort (l : list Z) : list Z :=
  let idx := zrange 0 (lenZ l) 1 in
  let lt (a b : Z) := (getZ l a <? getZ l b) || ((getZ l a =? getZ l b) && (a <? b)) in
  (* rank-select: the element whose number of strictly-smaller elements is k *)
  map (fun k => match filter (fun a => Z.of_nat (length (filter (fun b => lt b a) idx)) =? k) idx with
                | a :: _ => a | [] => 0 end) idx.

(* scalar multipliers are referred to by tag; tag 0 is reserved for the literal -1 used by __neg__ *)
Definition neg_one_tag := 0.

Fixpoint adj (A : linop) : linop :=
  match A with
  | Identity s => Identity s
  | Conj A => Conj (adj A)
  | Add ls => Add (map adj ls)
  | Compose ls => mkCompose (rev (map adj ls))
  | Hstack ls axis => Vstack (map adj ls) axis
  | Vstack ls axis => Hstack (map adj ls) axis
  | Diag ls oaxis iaxis => Diag (map adj ls) iaxis oaxis
  | Reshape o i => Reshape i o
  | Transpose i axes =>
      match axes with
      | None => Transpose (rev i) None
      | Some ax => let pn := map (fun a => a mod lenZ i) ax in
                   Transpose (map (fun a => getZ i a) pn) (Some (argsort pn))
      end
  | FFT s ax c => IFFT s ax c
  | IFFT s ax c => FFT s ax c
  | MatMul i m a =>
      let o := oshape_of A in
      let M := MatMul o m (negb a) in
      let S := Sum (oshape_of M) (matmul_adjoint_sum_axes o i (ashape_of m)) in
      mkCompose [mkCompose [Reshape i (oshape_of S); S]; M]
  | RightMatMul i m a =>
      let o := oshape_of A in
      let M := RightMatMul o m (negb a) in
      let S := Sum (oshape_of M) (matmul_adjoint_sum_axes o i (ashape_of m)) in
      mkCompose [mkCompose [Reshape i (oshape_of S); S]; M]
  | Multiply i m c =>
      let o := oshape_of A in
      let M := Multiply o m (negb c) in
      let S := Sum (oshape_of M) (multiply_adjoint_sum_axes o i (mshape_of m)) in
      mkCompose [mkCompose [Reshape i (oshape_of S); S]; M]
  | Interpolate i c k w p => Gridding i c k w p
  | Gridding o c k w p => Interpolate o c k w p
  | Resize o i isf osf => Resize i o osf isf
  | Flip s ax => Flip s ax
  | Downsample i f sh => Upsample i f sh
  | Upsample o f sh => Downsample o f sh
  | Circshift s sh ax => Circshift s (map Z.opp sh) ax
  | Wavelet i ax w l ws => InverseWavelet i ax w l ws
  | InverseWavelet o ax w l ws => Wavelet o ax w l ws
  | Sum i ax => Tile i (norm_axes_list ax (lenZ i))
  | Tile o ax => Sum o (norm_axes_list ax (lenZ o))
  | ArrayToBlocks i b s => BlocksToArray i b s
  | BlocksToArray o b s => ArrayToBlocks o b s
  | NUFFT i c os w _ => NUFFTAdjoint i c os w
  | NUFFTAdjoint o c os w => NUFFT o c os w false
  | ConvolveData d f full st mc => ConvolveDataAdjoint d f full st mc
  | ConvolveDataAdjoint d f full st mc => ConvolveData d f full st mc
  | ConvolveFilter fs d full st mc => ConvolveFilterAdjoint fs d full st mc
  | ConvolveFilterAdjoint fs d full st mc => ConvolveFilter fs d full st mc
  | Slice i idx => Embed i idx
  | Embed o idx => Slice o idx
  end.

(* _normal_linop; NUFFT's Toeplitz branch builds data-dependent operators and is handled by C04's numeric part *)
Definition blocks_tile (ishape b s : list Z) : bool :=
  forallb (fun t => t) (zip3 (fun i bk sk => (bk =? sk) && (i mod bk =? 0)) (lastn (length b) ishape) b s).
Definition blocks_no_overlap (b s : list Z) : bool :=
  forallb (fun p => fst p <=? snd p) (combine b s).

Definition normal (A : linop) : linop :=
  match A with
  | Identity s => Identity s
  | Reshape _ i => Identity i
  | Transpose i _ => Identity i
  | FFT s _ _ | IFFT s _ _ => Identity s
  | Circshift s _ _ => Identity s
  | ArrayToBlocks i b s => if blocks_tile i b s then Identity i else mkCompose [adj A; A]
  | BlocksToArray o b s => if blocks_no_overlap b s then Identity (ishape_of A) else mkCompose [adj A; A]
  | _ => mkCompose [adj A; A]
  end.

(* operator overloads *)
Definition op_mul (A B : linop) : linop := mkCompose [A; B].
Definition op_rscale (A : linop) (tag : Z) : linop := mkCompose [A; Multiply (ishape_of A) (MScalar tag) false]. (* A * a *)
Definition op_lscale (tag : Z) (A : linop) : linop := mkCompose [Multiply (oshape_of A) (MScalar tag) false; A]. (* a * A *)
Definition op_add (A B : linop) : linop := Add [A; B].
Definition op_neg (A : linop) : linop := op_lscale neg_one_tag A.
Definition op_sub (A B : linop) : linop := op_add A (op_neg B).

(* ---------------------------------------------------------------- decidable syntactic equality *)
Definition aref_eqb (a b : aref) := (atag a =? atag b) && zlist_eqb (ashape_of a) (ashape_of b).
Definition opt_eqb {T} (e : T -> T -> bool) (a b : option T) :=
  match a, b with None, None => true | Some x, Some y => e x y | _, _ => false end.
Definition mult_eqb (a b : mult_t) :=
  match a, b with MScalar s, MScalar t => s =? t | MArray x, MArray y => aref_eqb x y | _, _ => false end.
Definition sl_eqb (a b : sl) :=
  match a, b with
  | SIdx x, SIdx y => x =? y
  | SSlice a1 b1 c1, SSlice a2 b2 c2 => opt_eqb Z.eqb a1 a2 && opt_eqb Z.eqb b1 b2 && opt_eqb Z.eqb c1 c2
  | _, _ => false
  end.
Definition ozl_eqb := opt_eqb zlist_eqb.
Definition oz_eqb := opt_eqb Z.eqb.

Fixpoint linop_eqb (A B : linop) {struct A} : bool :=
  let fix lists (l1 l2 : list linop) {struct l1} : bool :=
    match l1, l2 with
    | [], [] => true
    | a :: l1', b :: l2' => linop_eqb a b && lists l1' l2'
    | _, _ => false
    end in
  match A, B with
  | Identity s, Identity t => zlist_eqb s t
  | Conj a, Conj b => linop_eqb a b
  | Add l1, Add l2 | Compose l1, Compose l2 => lists l1 l2
  | Hstack l1 a1, Hstack l2 a2 | Vstack l1 a1, Vstack l2 a2 => lists l1 l2 && oz_eqb a1 a2
  | Diag l1 o1 i1, Diag l2 o2 i2 => lists l1 l2 && oz_eqb o1 o2 && oz_eqb i1 i2
  | Reshape o1 i1, Reshape o2 i2 => zlist_eqb o1 o2 && zlist_eqb i1 i2
  | Transpose i1 a1, Transpose i2 a2 => zlist_eqb i1 i2 && ozl_eqb a1 a2
  | FFT s1 a1 c1, FFT s2 a2 c2 | IFFT s1 a1 c1, IFFT s2 a2 c2 => zlist_eqb s1 s2 && ozl_eqb a1 a2 && Bool.eqb c1 c2
  | MatMul i1 m1 a1, MatMul i2 m2 a2 | RightMatMul i1 m1 a1, RightMatMul i2 m2 a2 =>
      zlist_eqb i1 i2 && aref_eqb m1 m2 && Bool.eqb a1 a2
  | Multiply i1 m1 c1, Multiply i2 m2 c2 => zlist_eqb i1 i2 && mult_eqb m1 m2 && Bool.eqb c1 c2
  | Interpolate s1 c1 k1 w1 p1, Interpolate s2 c2 k2 w2 p2 | Gridding s1 c1 k1 w1 p1, Gridding s2 c2 k2 w2 p2 =>
      zlist_eqb s1 s2 && aref_eqb c1 c2 && (k1 =? k2) && (w1 =? w2) && (p1 =? p2)
  | Resize o1 i1 a1 b1, Resize o2 i2 a2 b2 => zlist_eqb o1 o2 && zlist_eqb i1 i2 && ozl_eqb a1 a2 && ozl_eqb b1 b2
  | Flip s1 a1, Flip s2 a2 => zlist_eqb s1 s2 && ozl_eqb a1 a2
  | Downsample s1 f1 h1, Downsample s2 f2 h2 | Upsample s1 f1 h1, Upsample s2 f2 h2 =>
      zlist_eqb s1 s2 && zlist_eqb f1 f2 && zlist_eqb h1 h2
  | Circshift s1 h1 a1, Circshift s2 h2 a2 => zlist_eqb s1 s2 && zlist_eqb h1 h2 && ozl_eqb a1 a2
  | Wavelet s1 a1 w1 l1 x1, Wavelet s2 a2 w2 l2 x2 | InverseWavelet s1 a1 w1 l1 x1, InverseWavelet s2 a2 w2 l2 x2 =>
      zlist_eqb s1 s2 && ozl_eqb a1 a2 && (w1 =? w2) && oz_eqb l1 l2 && zlist_eqb x1 x2
  | Sum s1 a1, Sum s2 a2 | Tile s1 a1, Tile s2 a2 => zlist_eqb s1 s2 && zlist_eqb a1 a2
  | ArrayToBlocks s1 b1 t1, ArrayToBlocks s2 b2 t2 | BlocksToArray s1 b1 t1, BlocksToArray s2 b2 t2 =>
      zlist_eqb s1 s2 && zlist_eqb b1 b2 && zlist_eqb t1 t2
  | NUFFT s1 c1 o1 w1 t1, NUFFT s2 c2 o2 w2 t2 =>
      zlist_eqb s1 s2 && aref_eqb c1 c2 && (o1 =? o2) && (w1 =? w2) && Bool.eqb t1 t2
  | NUFFTAdjoint s1 c1 o1 w1, NUFFTAdjoint s2 c2 o2 w2 => zlist_eqb s1 s2 && aref_eqb c1 c2 && (o1 =? o2) && (w1 =? w2)
  | ConvolveData s1 f1 m1 t1 c1, ConvolveData s2 f2 m2 t2 c2
  | ConvolveDataAdjoint s1 f1 m1 t1 c1, ConvolveDataAdjoint s2 f2 m2 t2 c2
  | ConvolveFilter s1 f1 m1 t1 c1, ConvolveFilter s2 f2 m2 t2 c2
  | ConvolveFilterAdjoint s1 f1 m1 t1 c1, ConvolveFilterAdjoint s2 f2 m2 t2 c2 =>
      zlist_eqb s1 s2 && aref_eqb f1 f2 && Bool.eqb m1 m2 && ozl_eqb t1 t2 && Bool.eqb c1 c2
  | Slice s1 i1, Slice s2 i2 | Embed s1 i1, Embed s2 i2 => zlist_eqb s1 s2 && list_eqb sl_eqb i1 i2
  | _, _ => false
  end.

(* ---------------------------------------------------------------- denotation *)
Section Den.
  Variable R : Ops.
  Notation farr := (list Z -> R).
  Variable arr : Z -> farr.          (* captured arrays by tag *)
  Variable scal : Z -> R.            (* scalar multipliers by tag *)
  Variable orc : linop -> farr -> farr.   (* library-backed leaves (FFT, NUFFT, wavelet, interp, conv) *)
  (* [force] re-tabulates an intermediate array (memoisation for vm_compute); the theorems are about
     [den] with the identity in its place, the runs use [retab]; lib/NdArray.of_list_tabulate shows
     that [retab s f] and [f] agree on the index box of s. *)
  Variable force : list Z -> farr -> farr.

  Fixpoint sum_list (l : list R) : R := match l with [] => zero | v :: l' => add v (sum_list l') end.

  (* index of input for output index o under numpy broadcasting: ie = expanded input shape (same rank as o) *)
  Definition bcast_index (ie : list Z) (nd_drop : nat) (o : list Z) : list Z :=
    skipn nd_drop (zip2 (fun n k => if n =? 1 then 0 else k) ie o).

  Definition den_multiply (ishape : list Z) (m : mult_t) (cj : bool) (x : farr) : farr :=
    match m with
    | MScalar t => fun o => let '(ie, me) := expand_shapes ishape [1] in
                            mul (x (bcast_index ie (length ie - length ishape) o)) (if cj then conj (scal t) else scal t)
    | MArray a =>
        let ms := ashape_of a in
        let '(ie, me) := expand_shapes ishape ms in
        fun o =>
          let mv := arr (atag a) (bcast_index me (length me - length ms) o) in
          mul (x (bcast_index ie (length ie - length ishape) o)) (if cj then conj mv else mv)
    end.

  (* matrix entry of the (possibly adjointed) matrix at batch index bb, row r, col c *)
  Definition mat_entry (a : aref) (adjoint : bool) (me0 : list Z) (bb : list Z) (r c : Z) : R :=
    let ms := ashape_of a in
    let nd := length me0 in
    let idx_full := bb ++ (if adjoint then [c; r] else [r; c]) in
    let v := arr (atag a) (bcast_index me0 (nd - length ms) idx_full) in
    if adjoint then conj v else v.

  Definition den_matmul (right : bool) (ishape : list Z) (a : aref) (adjoint : bool) (x : farr) : farr :=
    let '(ie, me0) := expand_shapes ishape (ashape_of a) in
    let nd := length ie in
    let K := if right then pyget ie (-1) else pyget ie (-2) in
    fun o =>
      let bb := firstn (nd - 2) o in
      let r := nth (nd - 2) o 0 in let c := nth (nd - 1) o 0 in
      sum_list (map (fun k =>
        let xin := fun rr cc => x (bcast_index ie (nd - length ishape) (bb ++ [rr; cc])) in
        if right then mul (xin r k) (mat_entry a adjoint me0 bb k c)
        else mul (mat_entry a adjoint me0 bb r k) (xin k c)) (zrange 0 K 1)).

  (* insert the summed-axis indices back: o indexes the remaining axes *)
  Fixpoint merge_axes (d : Z) (shape : list Z) (axes : list Z) (o : list Z) (k : list Z) : list Z :=
    match shape with
    | [] => []
    | _ :: shape' =>
        if memZ d axes then
          match k with kk :: k' => kk :: merge_axes (d + 1) shape' axes o k' | [] => 0 :: merge_axes (d + 1) shape' axes o [] end
        else
          match o with oo :: o' => oo :: merge_axes (d + 1) shape' axes o' k | [] => 0 :: merge_axes (d + 1) shape' axes [] k end
    end.

  Definition keep_axes (shape axes : list Z) : list Z :=
    map snd (filter (fun p => memZ (fst p) axes) (combine (zrange 0 (lenZ shape) 1) shape)).

  Definition den_sum (ishape axes : list Z) (x : farr) : farr :=
    let ax := norm_axes_list axes (lenZ ishape) in
    fun o => sum_list (map (fun k => x (merge_axes 0 ishape ax o k)) (enum_box (keep_axes ishape ax))).

  Definition den_tile (oshape axes : list Z) (x : farr) : farr :=
    let ax := norm_axes_list axes (lenZ oshape) in
    fun o => x (map snd (filter (fun p => negb (memZ (fst p) ax)) (combine (zrange 0 (lenZ oshape) 1) o))).

  Definition den_transpose (ishape : list Z) (axes : option (list Z)) (x : farr) : farr :=
    match axes with
    | None => fun o => x (rev o)
    | Some ax =>
        let axn := map (fun a => a mod lenZ ishape) ax in
        (* out[k] = in[j] with j[ax_d] = k_d *)
        fun o => x (map (fun d => match filter (fun p => fst p =? d) (combine axn o) with
                                  | p :: _ => snd p | [] => 0 end) (zrange 0 (lenZ ishape) 1))
    end.

  (* basic indexing as per-axis maps (out index -> in index); integer items drop the axis *)
  Fixpoint slice_gather (shape : list Z) (idx : list sl) (o : list Z) : list Z :=
    match shape with
    | [] => []
    | n :: shape' =>
        match idx with
        | [] => match o with k :: o' => k :: slice_gather shape' [] o' | [] => [] end
        | SIdx k :: idx' => (if k <? 0 then k + n else k) :: slice_gather shape' idx' o
        | SSlice a b c :: idx' =>
            match slice_indices n a b c, o with
            | Some (lo, _, st), k :: o' => (lo + st * k) :: slice_gather shape' idx' o'
            | _, _ => []
            end
        end
    end.

  (* inverse direction for Embed: given an index of the big array, the index into the small one if selected *)
  Fixpoint embed_lookup (shape : list Z) (idx : list sl) (i : list Z) : option (list Z) :=
    match shape, i with
    | [], _ => Some []
    | n :: shape', k :: i' =>
        match idx with
        | [] => match embed_lookup shape' [] i' with Some r => Some (k :: r) | None => None end
        | SIdx j :: idx' => if k =? (if j <? 0 then j + n else j) then embed_lookup shape' idx' i' else None
        | SSlice a b c :: idx' =>
            match slice_indices n a b c with
            | Some (lo, cnt, st) =>
                let t := (k - lo) / st in
                if ((k - lo) mod st =? 0) && (0 <=? t) && (t <? cnt)
                then match embed_lookup shape' idx' i' with Some r => Some (t :: r) | None => None end
                else None
            | None => None
            end
        end
    | _ :: _, [] => None
    end.

  (* x restricted to [start, end) along axis ax, re-based at 0 *)
  Definition take_axis (ax : Z) (start : Z) (x : farr) : farr :=
    fun idx => x (mapi (fun d k => if d =? ax then k + start else k) idx).

  Fixpoint starts_of (indices : list Z) : list Z := 0 :: indices.

  Fixpoint den (A : linop) (x : farr) {struct A} : farr :=
    let den_sumlist := fix go (l : list linop) (x : farr) (o : list Z) : R :=
      match l with [] => zero | a :: l' => add (den a x o) (go l' x o) end in
    let den_chain := fix go (l : list linop) (x : farr) : farr :=   (* applies the LAST operator first *)
      match l with [] => x | a :: l' => force (oshape_of a) (den a (go l' x)) end in
    match A with
    | Identity _ => x
    | Conj a => fun o => conj (den a (fun i => conj (x i)) o)
    | Add ls => den_sumlist ls x
    | Compose ls => den_chain ls x
    | Hstack ls axis =>
        let ishs := map ishape_of ls in
        match stack_params ishs axis with
        | Err _ => fun _ => zero
        | Ok (ish, indices) =>
            let go := fix go (l : list linop) (starts : list Z) (o : list Z) : R :=
              match l, starts with
              | a :: l', st :: starts' =>
                  let xa : farr :=
                    match axis with
                    | None => fun i => x [st + ravel (ishape_of a) i]           (* input[start:end].reshape(ishape) *)
                    | Some ax => take_axis (ax mod lenZ (ishape_of a)) st x
                    end in
                  add (den a (force (ishape_of a) xa) o) (go l' starts' o)
              | _, _ => zero
              end in
            go ls (starts_of indices)
        end
    | Vstack ls axis =>
        let oshs := map oshape_of ls in
        match stack_params oshs axis with
        | Err _ => fun _ => zero
        | Ok (osh, indices) =>
            let ends := indices ++ [getZ osh (match axis with None => 0 | Some ax => ax mod lenZ osh end)] in
            let go := fix go (l : list linop) (starts ends : list Z) (o : list Z) : R :=
              match l, starts, ends with
              | a :: l', st :: starts', en :: ends' =>
                  let ya := force (oshape_of a) (den a x) in
                  match axis with
                  | None =>
                      let k := match o with k :: _ => k | [] => 0 end in
                      if (st <=? k) && (k <? en) then ya (unravel (oshape_of a) (k - st)) else go l' starts' ends' o
                  | Some ax =>
                      let axn := ax mod lenZ (oshape_of a) in
                      let k := getZ o axn in
                      if (st <=? k) && (k <? en) then ya (mapi (fun d kk => if d =? axn then kk - st else kk) o)
                      else go l' starts' ends' o
                  end
              | _, _, _ => zero
              end in
            go ls (starts_of indices) ends
        end
    | Diag ls oaxis iaxis =>
        let ishs := map ishape_of ls in let oshs := map oshape_of ls in
        match stack_params ishs iaxis, stack_params oshs oaxis with
        | Ok (ish, iindices), Ok (osh, oindices) =>
            let oends := oindices ++ [match oaxis with None => getZ osh 0 | Some ax => getZ osh (ax mod lenZ osh) end] in
            let go := fix go (l : list linop) (istarts ostarts oends : list Z) (o : list Z) : R :=
              match l, istarts, ostarts, oends with
              | a :: l', ist :: istarts', ost :: ostarts', oen :: oends' =>
                  let xa : farr :=
                    match iaxis with
                    | None => fun i => x [ist + ravel (ishape_of a) i]
                    | Some ax => take_axis (ax mod lenZ (ishape_of a)) ist x
                    end in
                  let ya := force (oshape_of a) (den a (force (ishape_of a) xa)) in
                  match oaxis with
                  | None =>
                      let k := match o with k :: _ => k | [] => 0 end in
                      if (ost <=? k) && (k <? oen) then ya (unravel (oshape_of a) (k - ost)) else go l' istarts' ostarts' oends' o
                  | Some ax =>
                      let axn := ax mod lenZ (oshape_of a) in
                      let k := getZ o axn in
                      if (ost <=? k) && (k <? oen) then ya (mapi (fun d kk => if d =? axn then kk - ost else kk) o)
                      else go l' istarts' ostarts' oends' o
                  end
              | _, _, _, _ => zero
              end in
            go ls (starts_of iindices) (starts_of oindices) oends
        | _, _ => fun _ => zero
        end
    | Reshape o i => Rearrange.reshape i o x
    | Transpose i axes => den_transpose i axes x
    | MatMul i m a => den_matmul false i m a x
    | RightMatMul i m a => den_matmul true i m a x
    | Multiply i m c => den_multiply i m c x
    | Resize o i isf osf => Rearrange.resize i o isf osf x
    | Flip s ax => Rearrange.flip s ax x
    | Downsample i f sh => Rearrange.downsample i f (Some sh) x
    | Upsample o f sh => Rearrange.upsample o f (Some sh) x
    | Circshift s sh ax => Rearrange.circshift s sh ax x
    | Sum i ax => den_sum i ax x
    | Tile o ax => den_tile o ax x
    | ArrayToBlocks i b s =>
        match array_to_blocks i b s x with Ok (_, y) => y | Err _ => fun _ => zero end
    | BlocksToArray o b s =>
        match blocks_to_array (ishape_of A) o b s x with Ok y => y | Err _ => fun _ => zero end
    | Slice i idx => fun o => x (slice_gather i idx o)
    | Embed o idx => fun i => match embed_lookup o idx i with Some k => x k | None => zero end
    | FFT _ _ _ | IFFT _ _ _ | Interpolate _ _ _ _ _ | Gridding _ _ _ _ _ | Wavelet _ _ _ _ _
    | InverseWavelet _ _ _ _ _ | NUFFT _ _ _ _ _ | NUFFTAdjoint _ _ _ _
    | ConvolveData _ _ _ _ _ | ConvolveDataAdjoint _ _ _ _ _ | ConvolveFilter _ _ _ _ _
    | ConvolveFilterAdjoint _ _ _ _ _ => orc A x
    end.
End Den.

Arguments den {R}.
Definition retab {R : Ops} (s : list Z) (f : list Z -> R) : list Z -> R := of_list zero s (tabulate s f).
Definition noforce {R : Ops} (s : list Z) (f : list Z -> R) : list Z -> R := f.

