(* model/Bloch.v — executable Gallina models of the Bloch simulators
     sigpy/mri/rf/sim.py      abrm (10-62), abrm_nd (65-114), abrm_hp (117-168), abrm_ptx (171-269)
     sigpy/mri/rf/optcont.py  blochsim (9-53)
   and of the inverse SLR recursion sigpy/mri/rf/slr.py ab2rf (573-594), for ONE spatial position
   (the simulators treat positions independently; the checkers map over positions).

   Written once over a record [FOps] of real-like operations and a trig oracle
   [cs : F -> F * F]  (t |-> (cos t, sin t)):  on R the oracle is the real (cos, sin) (proofs/Bloch.v),
   on PrimFloat it is a table supplied by the harness and looked up by the angle the model computes
   (run/RunC19.v).  Complex numbers are pairs.  Definitions only. *)
From Coq Require Import ZArith List Bool.
Import ListNotations.

Record FOps := mkFOps {
  FT :> Type;
  f0 : FT; f1 : FT;
  fadd : FT -> FT -> FT; fsub : FT -> FT -> FT; fmul : FT -> FT -> FT; fdiv : FT -> FT -> FT;
  fopp : FT -> FT; fsqrt : FT -> FT; fabs : FT -> FT;
  fofZ : Z -> FT;
  fis0 : FT -> bool }.       (* x == 0 *)

Arguments f0 {_}. Arguments f1 {_}. Arguments fadd {_}. Arguments fsub {_}. Arguments fmul {_}. Arguments fdiv {_}.
Arguments fopp {_}. Arguments fsqrt {_}. Arguments fabs {_}. Arguments fofZ {_}. Arguments fis0 {_}.

Section Model.
  Context {F : FOps}.
  Variable cs : F -> F * F.          (* trig oracle: t |-> (cos t, sin t) *)

  Definition Cx : Type := (F * F)%type.
  Definition c0 : Cx := (f0, f0).
  Definition c1 : Cx := (f1, f0).
  Definition cadd (a b : Cx) : Cx := (fadd (fst a) (fst b), fadd (snd a) (snd b)).
  Definition csub (a b : Cx) : Cx := (fsub (fst a) (fst b), fsub (snd a) (snd b)).
  Definition cmul (a b : Cx) : Cx :=
    (fsub (fmul (fst a) (fst b)) (fmul (snd a) (snd b)), fadd (fmul (fst a) (snd b)) (fmul (snd a) (fst b))).
  Definition cconj (a : Cx) : Cx := (fst a, fopp (snd a)).
  Definition cneg (a : Cx) : Cx := (fopp (fst a), fopp (snd a)).
  Definition cscale (r : F) (a : Cx) : Cx := (fmul r (fst a), fmul r (snd a)).
  Definition cabs2 (a : Cx) : F := fadd (fmul (fst a) (fst a)) (fmul (snd a) (snd a)).
  Definition cdiv (a b : Cx) : Cx :=
    let d := cabs2 b in
    (fdiv (fadd (fmul (fst a) (fst b)) (fmul (snd a) (snd b))) d,
     fdiv (fsub (fmul (snd a) (fst b)) (fmul (fst a) (snd b))) d).
  Definition two : F := fofZ 2.
  Definition half (t : F) : F := fdiv t two.
  Definition dot (x g : list F) : F := fold_left (fun acc p => fadd acc (fmul (fst p) (snd p))) (combine x g) f0.
  Definition cdot (x g : list Cx) : Cx := fold_left (fun acc p => cadd acc (cmul (fst p) (snd p))) (combine x g) c0.
  Definition fsum (l : list F) : F := fold_left fadd l f0.

  Definition State : Type := (Cx * Cx)%type.           (* (a, b) *)
  Definition st0 : State := (c1, c0).                  (* a = 1, b = 0 *)

  (* at = av*a - conj(bv)*b ; bt = bv*a + conj(av)*b *)
  Definition su2_step (m : Cx * Cx) (s : State) : State :=
    let '(av, bv) := m in let '(a, b) := s in
    (csub (cmul av a) (cmul (cconj bv) b), cadd (cmul bv a) (cmul (cconj av) b)).
  Definition su2_run (l : list (Cx * Cx)) (s : State) : State := fold_left (fun s m => su2_step m s) l s.

  (* ---------------- abrm(rf, x, balanced) ---------------- *)
  (* phi = sqrt(|rf|^2 + om^2) + eps; n = (re, im, om)/phi;
     av = cos(phi/2) - 1j*n3*sin(phi/2); bv = -1j*(n1 + 1j*n2)*sin(phi/2) *)
  Definition abrm_factor (eps om : F) (r : Cx) : Cx * Cx :=
    let phi := fadd (fsqrt (fadd (cabs2 r) (fmul om om))) eps in
    let n1 := fdiv (fst r) phi in let n2 := fdiv (snd r) phi in let n3 := fdiv om phi in
    let '(c, s) := cs (half phi) in
    ((c, fopp (fmul n3 s)), (fmul n2 s, fopp (fmul n1 s))).

  Definition abrm_loop (eps om : F) (rf : list Cx) (s : State) : State :=
    su2_run (map (abrm_factor eps om) rf) s.

  Definition abrm (pi eps : F) (rf : list Cx) (x : F) (balanced : bool) : State :=
    let n := fofZ (Z.of_nat (length rf)) in
    let g := fdiv (fmul (fmul f1 two) pi) n in                (* ones(N) * 2 * pi / N *)
    let st := abrm_loop eps (fmul x g) rf st0 in
    if balanced then
      let om := fmul x (fdiv (fmul (fopp two) pi) two) in     (* g = -2*pi/2 *)
      let phi := fadd (fabs om) eps in
      let nz := fdiv om phi in
      let '(c, s) := cs (half phi) in
      let av := (c, fopp (fmul nz s)) in
      (cmul av (fst st), cmul (cconj av) (snd st))
    else st.

  (* ---------------- abrm_nd(rf, x, g):  om = x @ g[mm,:];  n = (re, im, om)/(phi + eps) ---------------- *)
  Definition abrm_nd_factor (eps : F) (x : list F) (rg : Cx * list F) : Cx * Cx :=
    let '(r, g) := rg in
    let om := dot x g in
    let phi := fsqrt (fadd (cabs2 r) (fmul om om)) in
    let d := fadd phi eps in
    let n1 := fdiv (fst r) d in let n2 := fdiv (snd r) d in let n3 := fdiv om d in
    let '(c, s) := cs (half phi) in
    ((c, fopp (fmul n3 s)), (fmul n2 s, fopp (fmul n1 s))).
  Definition abrm_nd (eps : F) (rfg : list (Cx * list F)) (x : list F) : State :=
    su2_run (map (abrm_nd_factor eps x) rfg) st0.

  (* ---------------- hard-pulse pieces shared by abrm_hp and blochsim ---------------- *)
  (* exp(1j*angle(r)) : r/|r|, and 1 when r = 0 *)
  Definition unit_phasor (r : Cx) : Cx :=
    let m := fsqrt (cabs2 r) in
    if fis0 m then c1 else (fdiv (fst r) m, fdiv (snd r) m).
  (* C = cos(|r|/2); S = 1j*exp(1j*angle(r))*sin(|r|/2); at = a*C - b*conj(S); bt = a*S + b*C *)
  Definition rf_rot (r : Cx) (s : State) : State :=
    let '(a, b) := s in
    let '(C, Sn) := cs (half (fsqrt (cabs2 r))) in
    let u := unit_phasor r in
    let S := (fopp (fmul (snd u) Sn), fmul (fst u) Sn) in
    (csub (cscale C a) (cmul b (cconj S)), cadd (cmul a S) (cscale C b)).
  (* z = exp(-1j*theta); b = b*z *)
  Definition grad_phase (theta : F) (s : State) : State :=
    let '(c, sn) := cs theta in (fst s, cmul (snd s) (c, fopp sn)).
  (* z = exp(1j/2*theta); a = a*z; b = b*z *)
  Definition total_phase (theta : F) (s : State) : State :=
    let '(c, sn) := cs (half theta) in (cmul (fst s) (c, sn), cmul (snd s) (c, sn)).

  (* ---------------- abrm_hp(rf, gamgdt, xx, dom0dt): gradient phase, then RF, per step ---------------- *)
  Definition abrm_hp_loop (x dom0dt : F) (rfg : list (Cx * F)) (s : State) : State :=
    fold_left (fun s rg => rf_rot (fst rg) (grad_phase (fadd (fmul x (snd rg)) dom0dt) s)) rfg s.
  Definition abrm_hp (rfg : list (Cx * F)) (x dom0dt : F) : State :=
    let st := abrm_hp_loop x dom0dt rfg st0 in
    let nt := fofZ (Z.of_nat (length rfg)) in
    total_phase (fadd (fmul x (fsum (map snd rfg))) (fmul nt dom0dt)) st.

  (* ---------------- optcont.blochsim(rf, x, g): RF, then gradient phase, per step ---------------- *)
  Definition blochsim_loop (x : list F) (rfg : list (Cx * list F)) (s : State) : State :=
    fold_left (fun s rg => grad_phase (dot x (snd rg)) (rf_rot (fst rg) s)) rfg s.
  Fixpoint vsum (acc : list F) (l : list (list F)) : list F :=          (* sum(g, 0) *)
    match l with [] => acc | g :: l' => vsum (map (fun p => fadd (fst p) (snd p)) (combine acc g)) l' end.
  Definition blochsim (rfg : list (Cx * list F)) (x : list F) : State :=
    let st := blochsim_loop x rfg st0 in
    total_phase (dot x (vsum (map (fun _ => f0) x) (map snd rfg))) st.

  (* ---------------- abrm_ptx(b1, x, g, dt, fmap, sens), one position ---------------- *)
  (* phi = dt*gam*sqrt(|bxy|^2 + bz^2); normfact = dt*gam/phi (0 when infinite);
     alpha = cp + 1j*nz*sp; beta = 1j*conj(nxy)*sp;
     statea' = alpha*statea + beta*stateb; stateb' = -conj(beta)*statea + conj(alpha)*stateb *)
  Definition ptx_factor (dtgam : F) (bxy : Cx) (bz : F) : Cx * Cx :=
    let phi := fmul dtgam (fsqrt (fadd (cabs2 bxy) (fmul bz bz))) in
    let normfact := if fis0 phi then f0 else fmul dtgam (fdiv f1 phi) in
    let nxy := cscale normfact bxy in
    let nz := fmul normfact bz in
    let '(cp, sp) := cs (half phi) in
    ((cp, fmul nz sp), (fmul (snd nxy) sp, fmul (fst nxy) sp)).
  Definition ptx_step (m : Cx * Cx) (s : State) : State :=
    let '(al, be) := m in let '(sa, sb) := s in
    (cadd (cmul al sa) (cmul be sb), cadd (cmul (cneg (cconj be)) sa) (cmul (cconj al) sb)).
  Definition ptx_out (s : State) : State := (fst s, cneg (cconj (snd s))).     (* a = statea; b = -conj(stateb) *)
  (* per time step: (column of b1 over the coils, gradient row g[mm,:]); boff = fmap/gam*2*pi (0 when fmap is None/zero) *)
  Definition abrm_ptx (dtgam boff : F) (sens : list Cx) (x : list F) (b1g : list (list Cx * list F)) : State :=
    ptx_out (fold_left (fun s bg => ptx_step (ptx_factor dtgam (cdot sens (fst bg)) (fadd (dot x (snd bg)) boff)) s) b1g st0).

  (* ---------------- SLR: forward hard-pulse polynomial recursion and ab2rf's peeling ---------------- *)
  Definition zipw (f : Cx -> Cx -> Cx) (a b : list Cx) : list Cx := map (fun p => f (fst p) (snd p)) (combine a b).
  (* one more hard pulse with parameters (c, s), c real: a = c*[0,a'] - s*[b',0]; b = conj(s)*[0,a'] + c*[b',0] *)
  Definition slr_fwd_step (m : F * Cx) (ab : list Cx * list Cx) : list Cx * list Cx :=
    let '(c, s) := m in let '(a, b) := ab in
    let ea := c0 :: a in let eb := b ++ [c0] in
    (zipw (fun x y => csub (cscale c x) (cmul s y)) ea eb, zipw (fun x y => cadd (cmul (cconj s) x) (cscale c y)) ea eb).
  (* first pulse: a = [c], b = [conj s] *)
  Definition slr_fwd (l : list (F * Cx)) : list Cx * list Cx :=
    match l with
    | [] => ([], [])
    | (c, s) :: l' => fold_left (fun ab m => slr_fwd_step m ab) l' ([(c, f0)], [cconj s])
    end.
  (* ab2rf, one peel: cj = sqrt(1/(1+|b[ii]/a[ii]|^2)); sj = conj(cj*b[ii]/a[ii]);
     at = cj*a + sj*b; bt = -conj(sj)*a + cj*b; a = at[1:ii+1]; b = bt[0:ii] *)
  Definition slr_peel (ab : list Cx * list Cx) : (F * Cx) * (list Cx * list Cx) :=
    let '(a, b) := ab in
    let q := cdiv (last b c0) (last a c0) in
    let cj := fsqrt (fdiv f1 (fadd f1 (cabs2 q))) in
    let sj := cconj (cscale cj q) in
    let at_ := zipw (fun x y => cadd (cscale cj x) (cmul sj y)) a b in
    let bt := zipw (fun x y => cadd (cmul (cneg (cconj sj)) x) (cscale cj y)) a b in
    ((cj, sj), (tl at_, removelast bt)).
  (* the rotation parameters (cj, sj) in pulse order; rf[j] = 2*atan2(|sj|, cj)*exp(1j*angle(sj)) *)
  Fixpoint slr_inv (fuel : nat) (ab : list Cx * list Cx) : list (F * Cx) :=
    match fuel with
    | O => []
    | S k => let '(m, ab') := slr_peel ab in slr_inv k ab' ++ [m]
    end.
  Definition ab2cs (a b : list Cx) : list (F * Cx) := slr_inv (length a) (a, b).
End Model.
