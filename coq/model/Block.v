(* Block.v — model of sigpy.block.array_to_blocks / blocks_to_array:
   the Python wrappers (num_blks, batch flattening, dispatch on ndim) by hand,
   around the numba kernels GENERATED from block.py (gen/Gen_block.v); plus the
   documented N-dimensional closed forms [a2b_spec] / [b2a_spec]. *)
From Coq Require Import ZArith List Lia Bool.
From SV Require Import lib.Scalar lib.BigSum lib.LoopIR lib.NdArray gen.Gen_block.
Import ListNotations.
Local Open Scope Z_scope.

Definition lastn {A} (n : nat) (l : list A) : list A := skipn (length l - n) l.
Definition droplast {A} (n : nat) (l : list A) : list A := firstn (length l - n) l.

Fixpoint zip3 {A} (f : Z -> Z -> Z -> A) (a b c : list Z) : list A :=
  match a, b, c with
  | x :: a', y :: b', z :: c' => f x y z :: zip3 f a' b' c'
  | _, _, _ => []
  end.

(* num_blks = (i - b + s) // s   per block axis *)
Definition num_blks (ishape blk_shape blk_strides : list Z) : list Z :=
  zip3 (fun i b s => (i - b + s) / s) (lastn (length blk_shape) ishape) blk_shape blk_strides.

Inductive result (A : Type) := Ok (a : A) | Err (msg : nat).
Arguments Ok {A}. Arguments Err {A}.

Section Model.
  Variable R : Ops.

  (* view an array of shape batch_shape ++ rest as [batch_size] ++ rest *)
  Definition flatten_batch (batch_shape : list Z) (x : list Z -> R) : list Z -> R :=
    fun idx => match idx with
               | b :: rest => x (unravel batch_shape b ++ rest)
               | [] => x []
               end.

  Definition unflatten_batch (batch_shape : list Z) (nb : nat) (y : list Z -> R) : list Z -> R :=
    fun idx => y (ravel batch_shape (firstn nb idx) :: skipn nb idx).

  Definition revn (l : list Z) (k : nat) : Z := nth k (rev l) 0.

  Definition array_to_blocks (ishape blk_shape blk_strides : list Z) (x : list Z -> R)
    : result (list Z * (list Z -> R)) :=
    if negb (Nat.eqb (length blk_shape) (length blk_strides)) then Err 1 else
    let D := length blk_shape in
    let nb := num_blks ishape blk_shape blk_strides in
    let batch_shape := droplast D ishape in
    let batch_size := prodZ batch_shape in
    let kin_shape := batch_size :: lastn D ishape in
    let kout_shape := batch_size :: nb ++ blk_shape in
    let xin := flatten_batch batch_shape x in
    let z : list Z -> R := fun _ => zero in
    let B := revn blk_shape in let S := revn blk_strides in let N := revn nb in
    let oshape := batch_shape ++ nb ++ blk_shape in
    match D with
    | 1%nat => Ok (oshape, unflatten_batch batch_shape (length batch_shape)
                     (exec (k_array_to_blocks1 R xin kin_shape kout_shape batch_size (B 0%nat) (S 0%nat) (N 0%nat)) [] z))
    | 2%nat => Ok (oshape, unflatten_batch batch_shape (length batch_shape)
                     (exec (k_array_to_blocks2 R xin kin_shape kout_shape batch_size (B 0%nat) (B 1%nat) (S 0%nat) (S 1%nat)
                              (N 0%nat) (N 1%nat)) [] z))
    | 3%nat => Ok (oshape, unflatten_batch batch_shape (length batch_shape)
                     (exec (k_array_to_blocks3 R xin kin_shape kout_shape batch_size (B 0%nat) (B 1%nat) (B 2%nat)
                              (S 0%nat) (S 1%nat) (S 2%nat) (N 0%nat) (N 1%nat) (N 2%nat)) [] z))
    | _ => Err 2
    end.

  (* input has shape batch ++ num_blks ++ blk_shape where num_blks is read off the input *)
  Definition blocks_to_array (in_shape oshape blk_shape blk_strides : list Z) (x : list Z -> R)
    : result (list Z -> R) :=
    if negb (Nat.eqb (length blk_shape) (length blk_strides)) then Err 1 else
    let D := length blk_shape in
    let nb := firstn D (lastn (2 * D) in_shape) in
    let batch_shape := droplast D oshape in
    let batch_size := prodZ batch_shape in
    let kin_shape := batch_size :: lastn (2 * D) in_shape in
    let kout_shape := batch_size :: lastn D oshape in
    let xin := flatten_batch batch_shape x in
    let z : list Z -> R := fun _ => zero in
    let B := revn blk_shape in let S := revn blk_strides in let N := revn nb in
    match D with
    | 1%nat => Ok (unflatten_batch batch_shape (length batch_shape)
                     (exec (k_blocks_to_array1 R xin kin_shape kout_shape batch_size (B 0%nat) (S 0%nat) (N 0%nat)) [] z))
    | 2%nat => Ok (unflatten_batch batch_shape (length batch_shape)
                     (exec (k_blocks_to_array2 R xin kin_shape kout_shape batch_size (B 0%nat) (B 1%nat) (S 0%nat) (S 1%nat)
                              (N 0%nat) (N 1%nat)) [] z))
    | 3%nat => Ok (unflatten_batch batch_shape (length batch_shape)
                     (exec (k_blocks_to_array3 R xin kin_shape kout_shape batch_size (B 0%nat) (B 1%nat) (B 2%nat)
                              (S 0%nat) (S 1%nat) (S 2%nat) (N 0%nat) (N 1%nat) (N 2%nat)) [] z))
    | _ => Err 2
    end.

  (* ---- documented closed forms, any number of block dimensions ------------- *)
  Definition in_range (i n : list Z) : bool := forallb (fun p => (0 <=? fst p) && (fst p <? snd p)) (combine i n).

  (* blocks[batch, n, b] = in[batch, n*S + b]   (0 where the window leaves the array) *)
  Definition a2b_spec (ishape blk_shape blk_strides : list Z) (x : list Z -> R) : list Z -> R :=
    let D := length blk_shape in
    let nbat := (length ishape - D)%nat in
    fun idx =>
      let bat := firstn nbat idx in
      let n := firstn D (skipn nbat idx) in
      let b := skipn D (skipn nbat idx) in
      let i := zip3 (fun nk sk bk => nk * sk + bk) n blk_strides b in
      if in_range i (lastn D ishape) then x (bat ++ i) else zero.

  Fixpoint sumBox (s : list Z) (f : list Z -> R) : R :=
    match s with
    | [] => f []
    | n :: s' => sumL (zrange 0 n 1) (fun i => sumBox s' (fun idx => f (i :: idx)))
    end.

  (* out[batch, i] = sum over (n, b) with n*S + b = i of blocks[batch, n, b] *)
  Definition b2a_spec (nb oshape blk_shape blk_strides : list Z) (x : list Z -> R) : list Z -> R :=
    let D := length blk_shape in
    let nbat := (length oshape - D)%nat in
    fun idx =>
      let bat := firstn nbat idx in
      let i := skipn nbat idx in
      sumBox nb (fun n => sumBox blk_shape (fun b =>
        if zlist_eqb (zip3 (fun nk sk bk => nk * sk + bk) n blk_strides b) i then x (bat ++ n ++ b) else zero)).
End Model.

Arguments array_to_blocks {R}. Arguments blocks_to_array {R}. Arguments a2b_spec {R}. Arguments b2a_spec {R}.
