(* model/Prox.v — executable Gallina model of sigpy/thresh.py and sigpy/prox.py.

   Written ONCE over
     [ROps]  : a bare record of "real-like" scalar operations (no laws), and
     [Elem T]: the array element type over T (a real number, or a complex number as a pair),
   so that the same terms are (a) run on hardware floats by vm_compute (run/RunC11.v) and
   (b) reasoned about over Coq's R (proofs/Prox*.v).  Arrays are flat row-major lists; shapes are
   carried separately (every line of the Python code is elementwise or reshapes back, see [pshape]).
   Definitions only, no proofs.  Each definition quotes the Python line it mirrors. *)
From Coq Require Import ZArith List Bool.
Import ListNotations.

(* ---------------------------------------------------------------- scalars *)
Record ROps := mkROps {
  T :> Type;
  r0 : T; r1 : T; r2 : T;
  radd : T -> T -> T; rsub : T -> T -> T; rmul : T -> T -> T; rdiv : T -> T -> T;
  ropp : T -> T; rabs : T -> T; rsqrt : T -> T;
  rltb : T -> T -> bool;       (* x < y *)
  reqb : T -> T -> bool }.     (* x == y *)

Arguments r0 {_}. Arguments r1 {_}. Arguments r2 {_}.
Arguments radd {_}. Arguments rsub {_}. Arguments rmul {_}. Arguments rdiv {_}.
Arguments ropp {_}. Arguments rabs {_}. Arguments rsqrt {_}. Arguments rltb {_}. Arguments reqb {_}.

(* array elements: real (E = T) or complex (E = T * T) *)
Record Elem (T : ROps) := mkElem {
  E :> Type;
  e0 : E;
  eadd : E -> E -> E; esub : E -> E -> E; emul : E -> E -> E;
  econj : E -> E;
  escale : T -> E -> E;        (* real * element *)
  edivr : E -> T -> E;         (* element / real *)
  eabs : E -> T;               (* abs(element) *)
  eclip : E -> E -> E -> E }.  (* np.clip(x, lo, hi) = minimum(maximum(x, lo), hi); used on real data only *)

Arguments e0 {_ _}. Arguments eadd {_ _}. Arguments esub {_ _}. Arguments emul {_ _}.
Arguments econj {_ _}. Arguments escale {_ _}. Arguments edivr {_ _}. Arguments eabs {_ _}.
Arguments eclip {_ _}.

Definition rmaxf {T : ROps} (x y : T) : T := if rltb x y then y else x.   (* np.maximum *)
Definition rminf {T : ROps} (x y : T) : T := if rltb y x then y else x.   (* np.minimum *)

Definition RealElem (T : ROps) : Elem T :=
  mkElem T T r0 radd rsub rmul (fun x => x) rmul rdiv rabs (fun x lo hi => rminf (rmaxf x lo) hi).

Definition CplxElem (T : ROps) : Elem T :=
  mkElem T (T * T)%type (r0, r0)
    (fun a b => (radd (fst a) (fst b), radd (snd a) (snd b)))
    (fun a b => (rsub (fst a) (fst b), rsub (snd a) (snd b)))
    (fun a b => (rsub (rmul (fst a) (fst b)) (rmul (snd a) (snd b)),
                 radd (rmul (fst a) (snd b)) (rmul (snd a) (fst b))))
    (fun a => (fst a, ropp (snd a)))
    (fun t a => (rmul t (fst a), rmul t (snd a)))
    (fun a t => (rdiv (fst a) t, rdiv (snd a) t))
    (fun a => rsqrt (radd (rmul (fst a) (fst a)) (rmul (snd a) (snd a))))
    (fun x lo hi => x).   (* np.clip on complex data is outside the property; never exercised *)

(* ---------------------------------------------------------------- numpy "scalar or array" operands *)
Inductive sv (A : Type) := SS (a : A) | SV (l : list A).
Arguments SS {_}. Arguments SV {_}.

Definition sv_get {A} (d : A) (s : sv A) (i : nat) : A :=
  match s with SS a => a | SV l => nth i l d end.
Definition sv_map {A B} (f : A -> B) (s : sv A) : sv B :=
  match s with SS a => SS (f a) | SV l => SV (map f l) end.
Definition sv_firstn {A} (n : nat) (s : sv A) : sv A :=
  match s with SS a => SS a | SV l => SV (firstn n l) end.
Definition sv_skipn {A} (n : nat) (s : sv A) : sv A :=
  match s with SS a => SS a | SV l => SV (skipn n l) end.

(* elementwise map with the flat index: [f 0 x0; f 1 x1; ...] *)
Fixpoint imap_from {A B} (k : nat) (f : nat -> A -> B) (l : list A) : list B :=
  match l with [] => [] | x :: r => f k x :: imap_from (S k) f r end.
Definition imap {A B} (f : nat -> A -> B) (l : list A) : list B := imap_from 0 f l.

Fixpoint map2 {A B C} (f : A -> B -> C) (a : list A) (b : list B) : list C :=
  match a, b with x :: a', y :: b' => f x y :: map2 f a' b' | _, _ => [] end.

Definition prodZ (s : list Z) : Z := fold_right Z.mul 1%Z s.
Definition sizeZ (s : list Z) : nat := Z.to_nat (prodZ s).

Section Models.
  Context {T : ROps} {El : Elem T}.

  Definition rsum (l : list T) : T := fold_left radd l r0.     (* np.sum / linalg.norm(.,1): sequential *)
  Definition esum (l : list El) : El := fold_left eadd l e0.
  Definition b2r (b : bool) : T := if b then r1 else r0.      (* bool used as a number *)

  (* ------------------------------------------------------------ thresh.py: numba scalar kernels *)
  (* @nb.vectorize def _soft_thresh(lamda, input) *)
  Definition soft_thresh1 (lamda : T) (input : El) : El :=
    let abs_input := eabs input in                                    (* abs_input = abs(input) *)
    let sign := if reqb abs_input r0 then e0                          (* if abs_input == 0: sign = 0 *)
                else edivr input abs_input in                         (* else: sign = input / abs_input *)
    let mag := rsub abs_input lamda in                                (* mag = abs_input - lamda *)
    let mag := rdiv (radd (rabs mag) mag) r2 in                       (* mag = (abs(mag) + mag) / 2 *)
    escale mag sign.                                                  (* return mag * sign *)

  (* @nb.vectorize def _hard_thresh(lamda, input) *)
  Definition hard_thresh1 (lamda : T) (input : El) : El :=
    let abs_input := eabs input in
    if rltb lamda abs_input then input else e0.                       (* if abs_input > lamda: input else 0 *)

  (* soft_thresh(lamda, input), hard_thresh(lamda, input): lamda float or array (numpy broadcasting) *)
  Definition soft_thresh (lamda : sv T) (input : list El) : list El :=
    imap (fun i x => soft_thresh1 (sv_get r0 lamda i) x) input.
  Definition hard_thresh (lamda : sv T) (input : list El) : list El :=
    imap (fun i x => hard_thresh1 (sv_get r0 lamda i) x) input.

  (* ------------------------------------------------------------ l2_proj (axes=None: all axes) *)
  Definition l2_proj (eps : T) (input : list El) : list El :=
    (* norm = xp.sum(xp.abs(input) ** 2, axis=axes, keepdims=True) ** 0.5 *)
    let norm := rsqrt (rsum (map (fun x => rmul (eabs x) (eabs x)) input)) in
    let mask := b2r (rltb norm eps) in                                (* mask = norm < eps *)
    (* output = mask * input + (1 - mask) * (eps * input / (norm + mask)) *)
    map (fun x => eadd (escale mask x)
                       (escale (rsub r1 mask) (edivr (escale eps x) (radd norm mask)))) input.

  (* l2_proj with explicit axes on an array of the given shape: one ball per fibre.
     [grp i] is the flat index with the coordinates along the reduced axes set to 0. *)
  Fixpoint unravel (shape : list Z) (i : Z) : list Z :=      (* row-major multi-index of flat i *)
    match shape with
    | [] => []
    | _ :: rest => let m := prodZ rest in (i / m)%Z :: unravel rest (i mod m)%Z
    end.
  Fixpoint grp_key (k : Z) (axes : list Z) (idx : list Z) : list Z :=
    match idx with
    | [] => []
    | c :: r => (if existsb (Z.eqb k) axes then 0%Z else c) :: grp_key (k + 1) axes r
    end.
  Fixpoint zl_eqb (a b : list Z) : bool :=
    match a, b with [] , [] => true | x :: a', y :: b' => Z.eqb x y && zl_eqb a' b' | _, _ => false end.
  Definition l2_proj_axes (shape axes : list Z) (eps : T) (input : list El) : list El :=
    let nd := Z.of_nat (length shape) in
    let axes := map (fun a => (a mod nd)%Z) axes in                   (* util._normalize_axes *)
    let key i := grp_key 0 axes (unravel shape (Z.of_nat i)) in
    imap (fun i x =>
      let ki := key i in
      let norm := rsqrt (rsum (imap (fun j xj => if zl_eqb (key j) ki then rmul (eabs xj) (eabs xj) else r0) input)) in
      let mask := b2r (rltb norm eps) in
      eadd (escale mask x) (escale (rsub r1 mask) (edivr (escale eps x) (radd norm mask)))) input.

  (* ------------------------------------------------------------ linf_proj *)
  Definition linf_proj (eps : T) (input : list El) (bias : option (sv El)) : list El :=
    (* if bias is not None: input = input - bias *)
    let input := match bias with None => input
                 | Some b => imap (fun i x => esub x (sv_get e0 b i)) input end in
    (* output = input - soft_thresh(eps, input) *)
    let output := map2 esub input (soft_thresh (SS eps) input) in
    (* if bias is not None: output += bias *)
    match bias with None => output | Some b => imap (fun i x => eadd x (sv_get e0 b i)) output end.

  (* ------------------------------------------------------------ l1_proj *)
  (* xp.sort(a)[::-1] : insertion sort, descending *)
  Fixpoint insert_desc (x : T) (l : list T) : list T :=
    match l with
    | [] => [x]
    | y :: r => if rltb x y then y :: insert_desc x r else x :: l
    end.
  Definition sort_desc (l : list T) : list T := fold_right insert_desc [] l.

  (* st = (cumsum(s) - eps) / (arange(size) + 1);  idx = flatnonzero((s - st) > 0).max();  st[idx]
     scanned left to right: k = arange+1 as a float, cs = running cumsum, best = st at the last hit
     (None while flatnonzero is still empty). *)
  Fixpoint l1_scan (eps : T) (k cs : T) (best : option T) (s : list T) : option T :=
    match s with
    | [] => best
    | x :: r =>
        let cs' := radd cs x in
        let st := rdiv (rsub cs' eps) k in
        l1_scan eps (radd k r1) cs' (if rltb r0 (rsub x st) then Some st else best) r
    end.
  Definition l1_theta (eps : T) (input : list El) : option T :=
    l1_scan eps r1 r0 None (sort_desc (map eabs input)).

  Definition l1_proj (eps : T) (input : list El) : option (list El) :=
    (* if xp.linalg.norm(input, 1) < eps: return input.reshape(shape) *)
    if rltb (rsum (map eabs input)) eps then Some input
    else match l1_theta eps input with
         | Some th => Some (soft_thresh (SS th) input)                (* soft_thresh(st[idx], input.reshape(shape)) *)
         | None => None                                               (* .max() of an empty array raises *)
         end.

  (* ------------------------------------------------------------ psd_proj over the eigh oracle *)
  Definition matvec (m : list (list El)) (x : list El) : list El :=
    map (fun row => esum (map2 emul row x)) m.
  Fixpoint transpose_aux (n : nat) (m : list (list El)) : list (list El) :=   (* n = number of columns *)
    match n with
    | O => []
    | S n' => map (fun row => hd e0 row) m :: transpose_aux n' (map (fun row => tl row) m)
    end.
  Definition transpose (ncols : nat) (m : list (list El)) := transpose_aux ncols m.
  Definition conjT (ncols : nat) (m : list (list El)) : list (list El) :=
    map (map econj) (transpose ncols m).
  Definition matvecH (ncols : nat) (m : list (list El)) (y : list El) : list El := matvec (conjT ncols m) y.

  Fixpoint chunks (n : nat) (rows : nat) (l : list El) : list (list El) :=     (* flat row-major -> rows *)
    match rows with O => [] | S r => firstn n l :: chunks n r (skipn n l) end.

  (* (input + xp.conj(input).T) / 2 *)
  Definition herm_part (n : nat) (input : list El) : list (list El) :=
    let m := chunks n n input in
    map2 (map2 (fun a b => edivr (eadd a b) r2)) m (conjT n m).

  (* w, v = eigh(...) are DATA (the oracle's answer);  w[w < 0] = 0;  return (v * w) @ v.conjugate().T *)
  Definition psd_proj (n : nat) (w : list T) (v : list (list El)) : list El :=
    let w := map (fun x => if rltb x r0 then r0 else x) w in
    let vw := map (fun row => map2 (fun x wj => escale wj x) row w) v in     (* (v * w)[i][j] = v[i][j] * w[j] *)
    concat (map (fun rowi => map (fun rowk => esum (map2 (fun a b => emul a (econj b)) rowi rowk)) v) vw).

  (* ------------------------------------------------------------ prox.py *)
  Inductive prox :=
  | NoOp (shape : list Z)
  | L1Reg (shape : list Z) (lamda : T)
  | L2Reg (shape : list Z) (lamda : T) (y : option (sv El)) (proxh : option prox)
  | L2Proj (shape : list Z) (epsilon : T) (y : sv El) (axes : option (list Z))
  | LInfProj (shape : list Z) (epsilon : T) (bias : option (sv El))
  | PsdProj (shape : list Z) (w : list T) (v : list (list El))     (* eigh oracle answer for THIS call *)
  | L1Proj (shape : list Z) (epsilon : T)
  | BoxConstraint (shape : list Z) (lower upper : sv El)
  | Conj (p : prox)
  | Stack (ps : list prox)
  | UnitaryTransform (p : prox) (ishape : list Z) (A : list (list El)).   (* A as its dense matrix *)

  (* Prox.shape *)
  Fixpoint pshape (p : prox) : list Z :=
    match p with
    | NoOp s | L1Reg s _ | L2Reg s _ _ _ | L2Proj s _ _ _ | LInfProj s _ _ | PsdProj s _ _
    | L1Proj s _ | BoxConstraint s _ _ => s
    | Conj q => pshape q
    | Stack ps => [fold_right (fun q acc => (prodZ (pshape q) + acc)%Z) 0%Z ps]   (* [sum(prod(prox.shape))] *)
    | UnitaryTransform _ ish _ => ish
    end.
  Definition psize (p : prox) : nat := sizeZ (pshape p).

  (* _prox(alpha, input); None = the implementation raises *)
  Definition obind {A B} (o : option A) (f : A -> option B) : option B :=
    match o with Some a => f a | None => None end.

  Fixpoint apply (p : prox) (alpha : sv T) (input : list El) {struct p} : option (list El) :=
    match p with
    | NoOp _ => Some input                                            (* return input *)
    | L1Reg _ lamda =>                                                (* soft_thresh(self.lamda * alpha, input) *)
        Some (soft_thresh (sv_map (rmul lamda) alpha) input)
    | L2Reg _ lamda y proxh =>
        (* output = input.copy(); if y is not None: output += (lamda * alpha) * y *)
        let output := match y with None => input
                      | Some yy => imap (fun i x => eadd x (escale (rmul lamda (sv_get r0 alpha i)) (sv_get e0 yy i))) input end in
        (* output /= 1 + lamda * alpha *)
        let output := imap (fun i x => edivr x (radd r1 (rmul lamda (sv_get r0 alpha i)))) output in
        match proxh with
        | None => Some output
        | Some h => apply h (sv_map (fun a => rdiv a (radd r1 (rmul lamda a))) alpha) output   (* proxh(alpha / (1 + lamda * alpha), output) *)
        end
    | L2Proj s eps y axes =>                                          (* l2_proj(eps, input - y, axes) + y *)
        let d := imap (fun i x => esub x (sv_get e0 y i)) input in
        let q := match axes with None => l2_proj eps d | Some ax => l2_proj_axes s ax eps d end in
        Some (imap (fun i x => eadd x (sv_get e0 y i)) q)
    | LInfProj _ eps bias => Some (linf_proj eps input bias)
    | PsdProj s w v => Some (psd_proj (length v) w v)
    | L1Proj _ eps => l1_proj eps input
    | BoxConstraint _ lo hi =>                                        (* xp.clip(input, lower, upper) *)
        Some (imap (fun i x => eclip x (sv_get e0 lo i) (sv_get e0 hi i)) input)
    | Conj q =>                                                       (* input - alpha * self.prox(1 / alpha, input / alpha) *)
        obind (apply q (sv_map (fun a => rdiv r1 a) alpha) (imap (fun i x => edivr x (sv_get r0 alpha i)) input))
              (fun r => Some (map2 esub input (imap (fun i x => escale (sv_get r0 alpha i) x) r)))
    | Stack ps =>
        (* alphas = [alpha]*nops if np.isscalar(alpha) else util.split(alpha, shapes);
           inputs = util.split(input, shapes); outputs = [prox(alpha, input) ...]; util.vec(outputs) *)
        (fix go (ps : list prox) (alpha : sv T) (input : list El) {struct ps} : option (list El) :=
           match ps with
           | [] => Some []
           | q :: rest =>
               let n := sizeZ (pshape q) in
               obind (apply q (sv_firstn n alpha) (firstn n input)) (fun o1 =>
               obind (go rest (sv_skipn n alpha) (skipn n input)) (fun o2 => Some (o1 ++ o2)))
           end) ps alpha input
    | UnitaryTransform q _ A =>                                       (* self.A.H(self.prox(alpha, self.A(input))) *)
        obind (apply q alpha (matvec A input)) (fun r => Some (matvecH (length input) A r))
    end.

End Models.

Arguments prox {_} _.
