(* OpaqueConv.v — denotation of the library-backed leaf classes ConvolveData, ConvolveDataAdjoint,
   ConvolveFilter, ConvolveFilterAdjoint of sigpy.linop, expressed with the function model of sigpy.conv
   (model/Conv.v: convolve, convolve_data_adjoint, convolve_filter_adjoint — the definitions the C08
   theorems are about).  Read off sigpy/linop.py:

     ConvolveData(data_shape, filt, mode, strides, mc)._apply(input)
         = conv.convolve(input, self.filt, mode=, strides=, multi_channel=)            input.shape = data_shape
     ConvolveDataAdjoint(data_shape, filt, ...)._apply(input)
         = conv.convolve_data_adjoint(input, self.filt, self.oshape (= data_shape), mode=, strides=, multi_channel=)
                                                                                       input.shape = ishape = b + (c_o,) + p
     ConvolveFilter(filt_shape, data, ...)._apply(input)
         = conv.convolve(self.data, input, mode=, strides=, multi_channel=)            input.shape = filt_shape
     ConvolveFilterAdjoint(filt_shape, data, ...)._apply(input)
         = conv.convolve_filter_adjoint(input, self.data, self.oshape (= filt_shape), mode=, strides=, multi_channel=)

   The captured array (filt resp. data) comes from [arr : Z -> farr] through the [aref] tag, exactly as [den]
   does for MatMul / Multiply; its shape is the [ashape] recorded in the tag.  The family needs no further
   environment (no tables: the model is exact over any ring).  A call the function model rejects (Err) denotes
   the zero array — under [wf] and [conv_valid] it never happens (proofs/OpaqueConv.v).
   Definitions only. *)
From Coq Require Import ZArith List Lia Bool.
From SV Require Import lib.Scalar lib.BigSum lib.LoopIR lib.NdArray model.Rearrange model.Block model.Linop model.Conv.
Import ListNotations.
Local Open Scope Z_scope.

Section OpaqueConv.
  Variable R : Ops.
  Notation farr := (list Z -> R).
  Variable arr : Z -> farr.          (* captured arrays by tag *)

  Definition conv_res (r : result (list Z * farr)) : farr :=
    match r with Ok (_, y) => y | Err _ => fun _ => zero end.

  Definition orc_conv (L : linop) (x : farr) : farr :=
    match L with
    | ConvolveData d f full st mc =>
        conv_res (convolve d (ashape_of f) full st mc x (arr (atag f)))
    | ConvolveDataAdjoint d f full st mc =>
        conv_res (convolve_data_adjoint (ishape_of L) (ashape_of f) d full st mc x (arr (atag f)))
    | ConvolveFilter fs dt full st mc =>
        conv_res (convolve (ashape_of dt) fs full st mc (arr (atag dt)) x)
    | ConvolveFilterAdjoint fs dt full st mc =>
        conv_res (convolve_filter_adjoint (ishape_of L) (ashape_of dt) fs full st mc x (arr (atag dt)))
    | _ => x
    end.
End OpaqueConv.

Arguments conv_res {R}. Arguments orc_conv {R}.

(* Validity of the constructor arguments.  The python classes check (through conv._get_convolve_params and Linop.__init__, = [wf]):
   ranks, channel match, stride count, the 'valid' ordering, positive advertised shapes.  What they take for
   granted and [wf] does not see: the captured array is non-empty (all its lengths positive) and the strides are
   positive integers.  [conv_valid] states exactly that. *)
Definition strides_pos (st : option (list Z)) : bool :=
  match st with None => true | Some s => all_pos s end.

Definition conv_valid (L : linop) : bool :=
  match L with
  | ConvolveData _ a _ st _ | ConvolveDataAdjoint _ a _ st _
  | ConvolveFilter _ a _ st _ | ConvolveFilterAdjoint _ a _ st _ => all_pos (ashape_of a) && strides_pos st
  | _ => false
  end.

(* the nodes discharged by proofs/OpaqueConv.v *)
Definition proven_node_conv (L : linop) : bool := conv_valid L.
