(* Conv.v — hand-written model of sigpy.conv (CPU paths): _convolve, _convolve_data_adjoint,
   _convolve_filter_adjoint, mirroring the Python line by line (parameter extraction, reshape to
   (B, c_i) + m / (c_o, c_i) + n, the k / j / i loops, stride slicing `[slc]`, zero-stuffing
   `output_kj[slc] = output[k, j]`, the mode -> adjoint_mode decision table, final reshape).

   scipy.signal.convolve / correlate are ORACLES.  Their recorded specifications are the Gallina
   definitions [sp_shape], [sp_convolve_val], [sp_correlate_val] below (N-dimensional):
      convolve(a, v, 'full')[k]   = sum_{t in box(v)} a0[k - t] * v[t]            (a0 = a, zero outside its box)
      convolve(a, v, 'valid')[k]  = full[k + min(la, lv) - 1]        length max(la,lv) - min(la,lv) + 1 per axis
      correlate(a, v, mode)[k]    = sum_{l in box(v)} a0[l + k - shift] * conj(v[l])
                                    shift = lv - 1 ('full'),  max(0, lv - la) ('valid')
      'valid' needs one operand at least as large as the other on EVERY axis (else ValueError).
   They are exercised against the real scipy by the C08 correspondence (the chk_sp checkers of run/RunC08.v).

   Everything is a term over an operations record [R : Ops]: it runs exactly on Gaussian integers
   (GOps) and is reasoned about over an arbitrary StarRing (proofs/Conv*.v).
   Definitions only. *)
From Coq Require Import ZArith List Lia Bool.
From SV Require Import lib.Scalar lib.BigSum lib.LoopIR lib.NdArray model.Rearrange model.Block model.Linop.
Import ListNotations.
Local Open Scope Z_scope.

Definition E_spvalid := 20%nat.    (* scipy: 'valid' with operands not ordered on every axis *)
Definition E_nonpos := 21%nat.     (* a non-positive output length p_d (valid mode, n_d > m_d) *)
Definition E_reshape := 22%nat.    (* ndarray.reshape: total size mismatch *)
Definition E_bcast2 := 23%nat.     (* in-place += / slice assignment of a differently shaped array *)

(* index-vector arithmetic *)
Definition vadd := zip2 Z.add.
Definition vsub := zip2 Z.sub.
Definition vmul := zip2 Z.mul.
Definition vdiv := zip2 Z.div.

Definition all_ge (sa sv : list Z) : bool := forallb (fun p => snd p <=? fst p) (combine sa sv).

(* shape of scipy.signal.convolve / correlate (in1 of shape sa, in2 of shape sv) *)
Definition sp_shape (full : bool) (sa sv : list Z) : result (list Z) :=
  if full then Ok (zip2 (fun a v => a + v - 1) sa sv)
  else if all_ge sa sv || all_ge sv sa then Ok (zip2 (fun a v => Z.max a v - Z.min a v + 1) sa sv)
  else Err E_spvalid.

Definition sp_conv_off (full : bool) (sa sv : list Z) : list Z :=
  if full then map (fun _ => 0) sv else zip2 (fun a v => Z.min a v - 1) sa sv.
Definition sp_corr_shift (full : bool) (sa sv : list Z) : list Z :=
  if full then map (fun v => v - 1) sv else zip2 (fun a v => Z.max 0 (v - a)) sa sv.

(* X[::s_1, ..., ::s_D] has lengths ceil(L_d / s_d) *)
Definition strided_shape (L s : list Z) : list Z := zip2 (fun l sd => (l + sd - 1) / sd) L s.

Section Conv.
  Variable R : Ops.
  Notation farr := (list Z -> R).

  (* box sums over a bare [Ops] (program order: innermost axis fastest) *)
  Fixpoint osumB (s : list Z) (f : list Z -> R) : R :=
    match s with
    | [] => f []
    | n :: s' => sumL (zrange 0 n 1) (fun i => osumB s' (fun idx => f (i :: idx)))
    end.

  Definition zext (s : list Z) (x : farr) : farr := fun idx => if inboxb s idx then x idx else zero.

  (* ---- the scipy oracles (values) ---- *)
  Definition sp_convolve_val (full : bool) (sa sv : list Z) (a v : farr) : farr :=
    let off := sp_conv_off full sa sv in
    fun k => osumB sv (fun t => mul (zext sa a (vsub (vadd k off) t)) (v t)).

  Definition sp_correlate_val (full : bool) (sa sv : list Z) (a v : farr) : farr :=
    let sh := sp_corr_shift full sa sv in
    fun k => osumB sv (fun l => mul (zext sa a (vsub (vadd l k) sh)) (conj (v l))).

  (* ---- pieces of _get_convolve_params not returned by Linop.conv_params ---- *)
  Definition cv_D (filt_shape : list Z) (mc : bool) : nat := (length filt_shape - (if mc then 2 else 0))%nat.
  Definition cv_s (D : nat) (strides : option (list Z)) : list Z :=
    match strides with None => repeat 1 D | Some s => s end.
  Definition cv_ci (filt_shape : list Z) (D : nat) (mc : bool) : Z :=
    if mc then pyget filt_shape (- Z.of_nat D - 1) else 1.

  (* sub-array views data[k, i], filt[j, i], output[k, j] *)
  Definition sub2 (x : farr) (k i : Z) : farr := fun t => x (k :: i :: t).

  (* output_kj = zeros(L); output_kj[slc] = y   (y of shape strided_shape L s) *)
  Definition zero_stuff (s : list Z) (y : farr) : farr :=
    fun u => if forallb (fun p => fst p mod snd p =? 0) (combine u s) then y (vdiv u s) else zero.

  (* un-strided output length of the forward convolution *)
  Definition cv_L (full : bool) (m n : list Z) : list Z :=
    if full then zip2 (fun md nd => md + nd - 1) m n
    else zip2 (fun md nd => Z.max md nd - Z.min md nd + 1) m n.

  (* the adjoint_mode decision tables (true = 'full', false = 'valid') *)
  Definition data_adjoint_mode (full : bool) (m n : list Z) : bool :=
    if full then false else if all_ge m n then true else false.
  Definition filt_adjoint_mode (full : bool) (m n : list Z) : bool :=
    if full then false else if all_ge m n then false else true.

  (* ---- _convolve ---- *)
  Definition convolve (data_shape filt_shape : list Z) (full : bool) (strides : option (list Z)) (mc : bool)
             (data filt : farr) : result (list Z * farr) :=
    r <- conv_params data_shape filt_shape full strides mc ;;
    let '(b, c_o, p) := r in
    let D := cv_D filt_shape mc in
    let m := lastn D data_shape in
    let n := lastn D filt_shape in
    let s := cv_s D strides in
    let c_i := cv_ci filt_shape D mc in
    let B := prodZ b in
    if negb (all_pos p) then Err E_nonpos else                     (* np.zeros((B, c_o) + p) / empty output *)
    let data2 := reshape data_shape (B :: c_i :: m) data in
    let filt2 := reshape filt_shape (c_o :: c_i :: n) filt in
    match sp_shape full m n with
    | Err e => Err e
    | Ok L =>
        if negb (zlist_eqb (strided_shape L s) p) then Err E_bcast2 else
        let out2 : farr := fun idx =>
          match idx with
          | k :: j :: x =>
              sumL (zrange 0 c_i 1) (fun i =>
                sp_convolve_val full m n (sub2 data2 k i) (sub2 filt2 j i) (vmul x s))
          | _ => zero
          end in
        let oshape := if mc then b ++ [c_o] ++ p else b ++ p in
        Ok (oshape, reshape (B :: c_o :: p) oshape out2)
    end.

  (* ---- _convolve_data_adjoint ---- *)
  Definition convolve_data_adjoint (out_shape filt_shape data_shape : list Z) (full : bool)
             (strides : option (list Z)) (mc : bool) (output filt : farr) : result (list Z * farr) :=
    r <- conv_params data_shape filt_shape full strides mc ;;
    let '(b, c_o, p) := r in
    let D := cv_D filt_shape mc in
    let m := lastn D data_shape in
    let n := lastn D filt_shape in
    let s := cv_s D strides in
    let c_i := cv_ci filt_shape D mc in
    let B := prodZ b in
    if negb (all_pos p) then Err E_nonpos else
    if negb (prodZ out_shape =? B * c_o * prodZ p) then Err E_reshape else
    let output2 := reshape out_shape (B :: c_o :: p) output in
    let filt2 := reshape filt_shape (c_o :: c_i :: n) filt in
    let L := cv_L full m n in
    let amode := data_adjoint_mode full m n in
    if negb (zlist_eqb (strided_shape L s) p) then Err E_bcast2 else     (* output_kj[slc] = output[k, j] *)
    match sp_shape amode L n with
    | Err e => Err e
    | Ok sh =>
        if negb (zlist_eqb sh m) then Err E_bcast2 else                  (* data[k, i] += ... *)
        let data2 : farr := fun idx =>
          match idx with
          | k :: i :: x =>
              sumL (zrange 0 c_o 1) (fun j =>
                sp_correlate_val amode L n (zero_stuff s (sub2 output2 k j)) (sub2 filt2 j i) x)
          | _ => zero
          end in
        Ok (data_shape, reshape (B :: c_i :: m) data_shape data2)
    end.

  (* ---- _convolve_filter_adjoint ---- *)
  Definition convolve_filter_adjoint (out_shape data_shape filt_shape : list Z) (full : bool)
             (strides : option (list Z)) (mc : bool) (output data : farr) : result (list Z * farr) :=
    r <- conv_params data_shape filt_shape full strides mc ;;
    let '(b, c_o, p) := r in
    let D := cv_D filt_shape mc in
    let m := lastn D data_shape in
    let n := lastn D filt_shape in
    let s := cv_s D strides in
    let c_i := cv_ci filt_shape D mc in
    let B := prodZ b in
    if negb (all_pos p) then Err E_nonpos else
    if negb (prodZ out_shape =? B * c_o * prodZ p) then Err E_reshape else
    let data2 := reshape data_shape (B :: c_i :: m) data in
    let output2 := reshape out_shape (B :: c_o :: p) output in
    let L := cv_L full m n in
    let amode := filt_adjoint_mode full m n in
    if negb (zlist_eqb (strided_shape L s) p) then Err E_bcast2 else
    match sp_shape amode L m with
    | Err e => Err e
    | Ok sh =>
        if negb (zlist_eqb sh n) then Err E_bcast2 else                  (* filt[j, i] += ... *)
        let filt2 : farr := fun idx =>
          match idx with
          | j :: i :: t =>
              sumL (zrange 0 B 1) (fun k =>
                sp_correlate_val amode L m (zero_stuff s (sub2 output2 k j)) (sub2 data2 k i) t)
          | _ => zero
          end in
        Ok (filt_shape, reshape (c_o :: c_i :: n) filt_shape filt2)
    end.

  (* ---- the documented closed form (any D): used by the correspondence next to the model ---- *)
  Definition conv_spec (data_shape filt_shape : list Z) (full : bool) (strides : option (list Z)) (mc : bool)
             (data filt : farr) : farr :=
    let D := cv_D filt_shape mc in
    let m := lastn D data_shape in
    let n := lastn D filt_shape in
    let s := cv_s D strides in
    let c_i := cv_ci filt_shape D mc in
    let nb := (length data_shape - D - (if mc then 1 else 0))%nat in
    let off := if full then map (fun _ => 0) n else map (fun nd => nd - 1) n in
    fun idx =>
      let bi := firstn nb idx in
      let co := if mc then [nth nb idx 0] else [] in
      let x := skipn (nb + (if mc then 1 else 0)) idx in
      sumL (zrange 0 c_i 1) (fun i =>
        osumB n (fun t =>
          let src := vadd (vsub (vmul x s) t) off in
          mul (if inboxb m src then data (bi ++ (if mc then [i] else []) ++ src) else zero)
              (filt ((if mc then co ++ [i] else []) ++ t)))).
End Conv.

Arguments osumB {R}. Arguments zext {R}. Arguments sp_convolve_val {R}. Arguments sp_correlate_val {R}.
Arguments sub2 {R}. Arguments zero_stuff {R}. Arguments convolve {R}. Arguments convolve_data_adjoint {R}.
Arguments convolve_filter_adjoint {R}. Arguments conv_spec {R}.
