(* model/Spokes.v — executable Gallina model of sigpy/mri/rf/trajgrad.py: spokes_grad (lines 664-725),
   written over the same [RealOps] record as model/Trap.v and calling that file's trap_grad /
   min_trap_grad exactly where the Python does.  Definitions only, no proofs.  Each definition quotes
   the Python it mirrors.  The Python builds three python lists (gx, gy, gz) spoke by spoke; the model
   keeps the same accumulating loop (fold_left) and the same list slice, so that a blip LONGER than the
   slice-select lobe eats into the previous spoke exactly as in the code (the theorems exclude it by a
   boolean hypothesis, the correspondence runs it). *)
From Coq Require Import ZArith List Bool.
From SV Require Import model.Trap.
Import ListNotations.

Section Model.
  Context {T : RealOps}.

  Definition gamma : T := rofZ 4257.

  (* int(np.sign(a)) *)
  Definition rsign (a : T) : Z := if rltb r0 a then 1%Z else if rltb a r0 then (-1)%Z else 0%Z.

  (* python list slice  l[:n]  for an integer n (a negative n counts from the end) *)
  Definition py_take (n : Z) (l : list T) : list T :=
    if (n <? 0)%Z then firstn (Z.to_nat (Z.of_nat (length l) + n)) l else firstn (Z.to_nat n) l.

  (* [0] * n *)
  Definition zeros (n : nat) : list T := repeat r0 n.

  (* s * w  for a python int s and an array w *)
  Definition zscale (s : Z) (w : list T) : list T := map (fun x => rmul (rofZ s) x) w.

  (* np.diff(np.concatenate((k[:, c], np.zeros(1))))  :  k1-k0, k2-k1, ..., 0-k_last *)
  Fixpoint diffs0 (k : list T) : list T :=
    match k with
    | [] => []
    | x :: k' => rsub (match k' with [] => r0 | y :: _ => y end) x :: diffs0 k'
    end.

  (* one pass of the loop body for one transverse axis:
       gx.extend([0] * np.size(subgz))
       if np.absolute(gxarea[ii]) > 0:
           [gblip, _] = trap_grad(abs(gxarea[ii]), gmax, dgdtmax, gts)
           gxblip = int(np.sign(gxarea[ii])) * gblip
           gx = gx[: len(gx) - len(gxblip.T)]
           gx.extend(np.squeeze(gxblip).tolist())                                   *)
  Definition blip_of (gmax dgdt dt a : T) : list T :=
    zscale (rsign a) (fst (trap_grad (rabs a) gmax dgdt dt)).

  Definition axis_step (subn : nat) (gmax dgdt dt : T) (g : list T) (a : T) : list T :=
    let g := g ++ zeros subn in
    if rltb r0 (rabs a) then
      let blip := blip_of gmax dgdt dt a in
      py_take (Z.of_nat (length g) - Z.of_nat (length blip)) g ++ blip
    else g.

  (* gz_sign = -1; for ii: gz_sign *= -1; gz.extend(np.squeeze(gz_sign * subgz).tolist()) *)
  Definition z_step (subgz : list T) (st : list T * Z) (_ : T) : list T * Z :=
    let s := (snd st * -1)%Z in (fst st ++ zscale s subgz, s).

  Definition spokes_grad (kx ky : list T) (tbw sl_thick gmax dgdt dt : T) : list T * list T * list T :=
    let area := rdiv (rdiv tbw (rdiv sl_thick (rofZ 10))) gamma in        (* tbw / (sl_thick / 10) / 4257 *)
    let subgz := fst (min_trap_grad area gmax dgdt dt) in
    let subn := length subgz in
    let gxarea := map (fun d => rdiv d gamma) (diffs0 kx) in              (* np.diff(...) / 4257 *)
    let gyarea := map (fun d => rdiv d gamma) (diffs0 ky) in
    let gx := fold_left (axis_step subn gmax dgdt dt) gxarea [] in
    let gy := fold_left (axis_step subn gmax dgdt dt) gyarea [] in
    let gz := fst (fold_left (z_step subgz) kx ([], (-1)%Z)) in
    (* [gref, _] = trap_grad(gts * np.sum(subgz) / 2, ...); gzref = -gref *)
    let gref := fst (trap_grad (rdiv (rmul dt (rsum subgz)) (rofZ 2)) gmax dgdt dt) in
    (gx ++ zeros (length gref), gy ++ zeros (length gref), gz ++ zscale (-1) gref).

  (* the domain the designer is meant for: every in-plane blip fits inside one slice-select lobe *)
  Definition blip_fits (subn : nat) (gmax dgdt dt a : T) : bool :=
    if rltb r0 (rabs a) then Nat.leb (length (blip_of gmax dgdt dt a)) subn else true.

  Definition blips_fit (kx ky : list T) (tbw sl_thick gmax dgdt dt : T) : bool :=
    let area := rdiv (rdiv tbw (rdiv sl_thick (rofZ 10))) gamma in
    let subn := length (fst (min_trap_grad area gmax dgdt dt)) in
    forallb (blip_fits subn gmax dgdt dt)
            (map (fun d => rdiv d gamma) (diffs0 kx) ++ map (fun d => rdiv d gamma) (diffs0 ky)).
End Model.
