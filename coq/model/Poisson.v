(* model/Poisson.v — executable Gallina model of sigpy/mri/samp.py:
     _poisson (the numba kernel, lines 170-240)  as a pure state machine that consumes an
              ARBITRARY stream of random draws, with explicit fuel;
     poisson  (lines 10-100)  as the bisection on [slope] over an abstract float grid.

   Written ONCE over a record [POps] of "real-like" operations (no laws).  It is instantiated on
   PrimFloat in run/RunC18.v (cos / sin / pow(.,0.5) are finite tables of the values the
   implementation's libm returned) and on Coq's R in proofs/Poisson.v.  The safety theorems are
   proved for an arbitrary [POps] that satisfies one law about [ptrunc] (see proofs/Poisson.v).
   Definitions only, no proofs.  Each definition quotes the Python it mirrors.

   Conventions.  The mask is a function  y -> x -> Z  (row index first, as mask[y, x]); the code
   stores the floats 0.0 / 1.0, the model the integers 0 / 1.  The int32 arrays pxs / pys are
   functions Z -> Z.  [na] is num_actives.  A stream item is what ONE call of np.random.randint
   (DInt) or np.random.random (DFloat) returned, in the order the code draws them;
   np.random.seed only determines the stream and is not an item.  *)
From Coq Require Import ZArith List Bool.
Import ListNotations.
Local Open Scope Z_scope.

Record POps := mkPOps {
  PT :> Type;
  pofZ : Z -> PT;                    (* float(n) *)
  padd : PT -> PT -> PT;
  psub : PT -> PT -> PT;
  pmul : PT -> PT -> PT;
  pdiv : PT -> PT -> PT;
  ppowhalf : PT -> PT;               (* x ** 0.5 *)
  pcos : PT -> PT;                   (* np.cos *)
  psin : PT -> PT;                   (* np.sin *)
  ptwopi : PT;                       (* 2 * np.pi *)
  ptrunc : PT -> Z;                  (* int(x): truncation toward zero *)
  pleb : PT -> PT -> bool;           (* x <= y *)
  pltb : PT -> PT -> bool }.         (* x <  y *)

Arguments pofZ {_}. Arguments padd {_}. Arguments psub {_}. Arguments pmul {_}. Arguments pdiv {_}.
Arguments ppowhalf {_}. Arguments pcos {_}. Arguments psin {_}. Arguments ptwopi {_}. Arguments ptrunc {_}.
Arguments pleb {_}. Arguments pltb {_}.

Inductive draw (T : Type) : Type :=
| DInt (n : Z)        (* value returned by np.random.randint(lo, hi) *)
| DFloat (u : T).     (* value returned by np.random.random() *)
Arguments DInt {T}. Arguments DFloat {T}.

Record pstate := mkPState {
  mask : Z -> Z -> Z;      (* mask[y, x] *)
  pxs : Z -> Z;
  pys : Z -> Z;
  na : Z }.                (* num_actives *)

Inductive status := Finished | OutOfFuel | BadStream.

(* lo, lo+1, ..., lo+n-1 *)
Fixpoint zrange (lo : Z) (n : nat) : list Z :=
  match n with O => [] | S n' => lo :: zrange (lo + 1) n' end.
(* range(lo, hi) *)
Definition prange (lo hi : Z) : list Z := zrange lo (Z.to_nat (hi - lo)).

Definition zupd (f : Z -> Z) (i v : Z) : Z -> Z := fun k => if k =? i then v else f k.
(* mask[y, x] = 1 *)
Definition mset (m : Z -> Z -> Z) (y x : Z) : Z -> Z -> Z :=
  fun y' x' => if (y' =? y) && (x' =? x) then 1 else m y' x'.

(* mask = np.zeros((ny, nx));
   mask[int(ny/2 - cy/2) : int(ny/2 + cy/2), int(nx/2 - cx/2) : int(nx/2 + cx/2)] = 1
   For integers 0 <= c <= n the floats n/2 -+ c/2 are exact, int() truncates, and both slice
   bounds lie in [0, n], so no slice clipping / negative-index wrap-around happens.
   (Precondition of the model: 0 <= cy <= ny, 0 <= cx <= nx.) *)
Definition calib_lo (n c : Z) : Z := Z.quot (n - c) 2.
Definition calib_hi (n c : Z) : Z := Z.quot (n + c) 2.
Definition in_calib (ny nx cy cx y x : Z) : bool :=
  (calib_lo ny cy <=? y) && (y <? calib_hi ny cy) && (calib_lo nx cx <=? x) && (x <? calib_hi nx cx).
Definition init_mask (ny nx cy cx : Z) : Z -> Z -> Z :=
  fun y x => if in_calib ny nx cy cx y x then 1 else 0.

Section Kernel.
  Context {T : POps}.
  Variables nx ny max_attempts : Z.
  Variables RX RY : Z -> Z -> T.          (* radius_x[y, x], radius_y[y, x] *)

  Definition psq (a : T) : T := pmul a a.   (* a ** 2 *)

  (* mask[y, x] == 1 and ((qx - x) / radius_x[y, x]) ** 2 + ((qy - y) / radius_y[y, x]) ** 2 < 1 *)
  Definition conflict (m : Z -> Z -> Z) (qx qy : T) (x y : Z) : bool :=
    (m y x =? 1) &&
    pltb (padd (psq (pdiv (psub qx (pofZ x)) (RX y x))) (psq (pdiv (psub qy (pofZ y)) (RY y x)))) (pofZ 1).

  (* if qx >= 0 and qx < nx and qy >= 0 and qy < ny: ... done = True unless a conflicting sample
     lies in the window;   otherwise done stays False *)
  Definition in_grid (qx qy : T) : bool :=
    pleb (pofZ 0) qx && pltb qx (pofZ nx) && pleb (pofZ 0) qy && pltb qy (pofZ ny).
  Definition accept (m : Z -> Z -> Z) (rx ry qx qy : T) : bool :=
    if in_grid qx qy then
      let startx := Z.max (ptrunc (psub qx rx)) 0 in                       (* max(int(qx - rx), 0) *)
      let endx := Z.min (ptrunc (padd (padd qx rx) (pofZ 1))) nx in        (* min(int(qx + rx + 1), nx) *)
      let starty := Z.max (ptrunc (psub qy ry)) 0 in
      let endy := Z.min (ptrunc (padd (padd qy ry) (pofZ 1))) ny in
      negb (existsb (fun x => existsb (fun y => conflict m qx qy x y) (prange starty endy)) (prange startx endx))
    else false.

  (* while not done and k < max_attempts:  two np.random.random() per attempt.
     Result: (done, qx, qy, rest of the stream); None when the stream has no two floats next. *)
  Fixpoint attempts (k : nat) (m : Z -> Z -> Z) (px py : Z) (rx ry : T) (s : list (draw T)) (q : T * T)
    : option (bool * (T * T) * list (draw T)) :=
    match k with
    | O => Some (false, q, s)
    | S k' =>
        match s with
        | DFloat u1 :: DFloat u2 :: s' =>
            let v := ppowhalf (padd (pmul u1 (pofZ 3)) (pofZ 1)) in        (* (random() * 3 + 1) ** 0.5 *)
            let t := pmul ptwopi u2 in                                      (* 2 * np.pi * random() *)
            let qx := padd (pofZ px) (pmul (pmul v rx) (pcos t)) in         (* px + v * rx * np.cos(t) *)
            let qy := padd (pofZ py) (pmul (pmul v ry) (psin t)) in         (* py + v * ry * np.sin(t) *)
            if accept m rx ry qx qy then Some (true, (qx, qy), s')
            else attempts k' m px py rx ry s' (qx, qy)
        | _ => None
        end
    end.

  (* one iteration of  while nx * ny > num_actives > 0 *)
  Definition step (st : pstate) (s : list (draw T)) : option (pstate * list (draw T)) :=
    match s with
    | DInt i :: s1 =>                                                       (* i = randint(0, num_actives) *)
        if (0 <=? i) && (i <? na st) then
          let px := pxs st i in
          let py := pys st i in
          let rx := RX py px in
          let ry := RY py px in
          match attempts (Z.to_nat max_attempts) (mask st) px py rx ry s1 (pofZ 0, pofZ 0) with
          | Some (true, (qx, qy), s2) =>
              Some (mkPState (mset (mask st) (ptrunc qy) (ptrunc qx))       (* mask[int(qy), int(qx)] = 1 *)
                             (zupd (pxs st) (na st) (ptrunc qx))            (* pxs[num_actives] = qx  (int32 cast) *)
                             (zupd (pys st) (na st) (ptrunc qy))
                             (na st + 1), s2)
          | Some (false, _, s2) =>
              Some (mkPState (mask st)
                             (zupd (pxs st) i (pxs st (na st - 1)))         (* pxs[i] = pxs[num_actives - 1] *)
                             (zupd (pys st) i (pys st (na st - 1)))
                             (na st - 1), s2)
          | None => None
          end
        else None
    | _ => None
    end.

  Definition running (st : pstate) : bool := (na st <? nx * ny) && (0 <? na st).

  Fixpoint run (fuel : nat) (st : pstate) (s : list (draw T)) : pstate * list (draw T) * status :=
    if running st then
      match fuel with
      | O => (st, s, OutOfFuel)
      | S f => match step st s with
               | Some (st', s') => run f st' s'
               | None => (st, s, BadStream)
               end
      end
    else (st, s, Finished).

  (* _poisson(nx, ny, max_attempts, radius_x, radius_y, calib=(cy, cx), seed) *)
  Definition init_state (cy cx x0 y0 : Z) : pstate :=
    mkPState (init_mask ny nx cy cx) (zupd (fun _ => 0) 0 x0) (zupd (fun _ => 0) 0 y0) 1.
  Definition poisson_run (fuel : nat) (cy cx : Z) (s : list (draw T)) : pstate * list (draw T) * status :=
    match s with
    | DInt x0 :: DInt y0 :: s' =>                                    (* pxs[0] = randint(0, nx); pys[0] = randint(0, ny) *)
        if (0 <=? x0) && (x0 <? nx) && (0 <=? y0) && (y0 <? ny) then run fuel (init_state cy cx x0 y0) s'
        else (init_state cy cx 0 0, s, BadStream)
    | _ => (init_state cy cx 0 0, s, BadStream)
    end.

  (* mask *= r < 1 *)
  Definition crop (ind : Z -> Z -> bool) (m : Z -> Z -> Z) : Z -> Z -> Z :=
    fun y x => m y x * (if ind y x then 1 else 0).
  (* np.sum(mask) *)
  Definition msum (m : Z -> Z -> Z) : Z :=
    fold_left Z.add (map (fun y => fold_left Z.add (map (fun x => m y x) (prange 0 nx)) 0) (prange 0 ny)) 0.
  (* img_shape[-1] * img_shape[-2] / np.sum(mask) *)
  Definition accel_of (m : Z -> Z -> Z) : T := pdiv (pofZ (nx * ny)) (pofZ (msum m)).
End Kernel.

(* ------------------------------------------------------------------------------------------
   poisson: the bisection on slope (after the fix "leave the search when the midpoint stops
   moving, then raise").

   Floats are modelled as an ABSTRACT grid G: any type with comparison functions [gltb], [geqb]
   and a midpoint function [mid]; the theorems of proofs/Poisson.v assume that the comparisons are
   those of an integer-valued [rank] (for the non-negative finite doubles: the position of the
   double in increasing order, i.e. "integers of ulps") and that  rank lo <= rank (mid lo hi) <= rank hi
   (rounding of (hi + lo) / 2 is monotone).  [eval k s] is what the k-th evaluation of the loop body
   yields at slope s (the mask and its actual acceleration); [close r] is
   abs(actual_accel - accel) < tol and [below r] is actual_accel < accel.

     slope_max = max(nx, ny); slope_min = 0
     while slope_min < slope_max:
         slope = (slope_max + slope_min) / 2
         if slope == slope_min or slope == slope_max: break
         <evaluate>
         if abs(actual_accel - accel) < tol: break
         if actual_accel < accel: slope_min = slope
         else: slope_max = slope
     if abs(actual_accel - accel) >= tol: raise ValueError                                        *)
Inductive sresult (Res : Type) : Type :=
| Returned (r : Res)     (* normal return, with the last evaluation *)
| Raised                 (* ValueError("Cannot generate mask ...") *)
| Unbound                (* loop left before any evaluation: actual_accel unbound (UnboundLocalError) *)
| SearchFuel.            (* the fuel of the model ran out *)
Arguments Returned {Res}. Arguments Raised {Res}. Arguments Unbound {Res}. Arguments SearchFuel {Res}.

Section Search.
  Variables (G Res : Type).
  Variables (gltb geqb : G -> G -> bool) (mid : G -> G -> G).
  Variable eval : nat -> G -> Res.
  Variables close below : Res -> bool.

  (* result: None = out of fuel; Some (last evaluation, number of evaluations, slopes evaluated in reverse order) *)
  Fixpoint sloop (fuel : nat) (k : nat) (lo hi : G) (last : option Res) (tr : list G)
    : option (option Res * nat * list G) :=
    if gltb lo hi then
      match fuel with
      | O => None
      | S f =>
          let s := mid lo hi in
          if geqb s lo || geqb s hi then Some (last, k, tr)
          else
            let r := eval k s in
            if close r then Some (Some r, S k, s :: tr)
            else if below r then sloop f (S k) s hi (Some r) (s :: tr)
                 else sloop f (S k) lo s (Some r) (s :: tr)
      end
    else Some (last, k, tr).

  Definition search (fuel : nat) (lo hi : G) : sresult Res :=
    match sloop fuel O lo hi None [] with
    | None => SearchFuel
    | Some (None, _, _) => Unbound
    | Some (Some r, _, _) => if close r then Returned r else Raised
    end.
End Search.

(* ------------------------------------------------------------------------------------------
   poisson = search over slopes, each evaluation being _poisson on its own stream, the corner
   crop, and the acceleration.  [radii s] are the arrays radius_x, radius_y computed from slope s,
   [streams k] is the stream consumed by the k-th call (np.random.seed(seed) restarts the generator
   before every call; the theorems hold for arbitrary streams), [ind y x] is r[y, x] < 1 when
   crop_corner is set and constantly true otherwise.  The float grid of the search is T itself. *)
Section Poisson.
  Context {T : POps}.
  Variables nx ny max_attempts cy cx : Z.
  Variable radii : T -> (Z -> Z -> T) * (Z -> Z -> T).
  Variable streams : nat -> list (draw T).
  Variable ind : Z -> Z -> bool.
  Variable fuel_k : nat.
  Variables accel tol : T.
  Variable pabs : T -> T.
  Variables (geqb : T -> T -> bool) (mid : T -> T -> T).

  Definition eval_mask (k : nat) (s : T) : (Z -> Z -> Z) * T :=
    let '(st, _, _) := poisson_run nx ny max_attempts (fst (radii s)) (snd (radii s)) fuel_k cy cx (streams k) in
    let m := crop ind (mask st) in
    (m, accel_of nx ny m).
  Definition close_t (r : (Z -> Z -> Z) * T) : bool := pltb (pabs (psub (snd r) accel)) tol.
  Definition below_t (r : (Z -> Z -> Z) * T) : bool := pltb (snd r) accel.

  Definition poisson (fuel : nat) : sresult ((Z -> Z -> Z) * T) :=
    search T _ pltb geqb mid eval_mask close_t below_t fuel (pofZ 0) (pofZ (Z.max nx ny)).
End Poisson.
