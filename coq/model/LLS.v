(* LLS.v — executable Gallina model of sigpy.app.LinearLeastSquares' CONFIGURATION logic
   (/repo/sigpy/app.py: _get_alg, _get_ConjugateGradient, _get_GradientMethod,
   _get_PrimalDualHybridGradient, _get_ADMM) and of the App/Prox helpers it wires together
   (prox.L2Reg, prox.Conj, prox.NoOp, prox.Stack, linop.Vstack, app.MaxEig).

   Two layers, both definitions only (no proofs here):
   (1) the decision function [get_alg] on the OPTIONS alone (which solver string, proxg given?,
       G given?, lamda > 0?, z given?): which branch is taken or which error is raised, and a
       descriptor of what the branch configures ([describe], a list of integers compared exactly
       with the implementation over the full cross product of options);
   (2) for every branch WHAT is configured, as data: the CG system operator and right-hand side,
       the GradientMethod gradient and default step, the arguments of PrimalDualHybridGradient
       (operator, both proxes, gammas, default tau / sigma) without and with G, the three ADMM
       sub-steps.  Written ONCE over abstract scalar ([SOps] of model/ProxGrad.v) and vector
       operations ([VOps]); instantiated on binary64 lists in run/RunC14.v and on R / abstract real
       inner-product spaces in proofs/LLS*.v.  Each definition quotes the Python it mirrors. *)
From Coq Require Import ZArith List Bool.
From SV Require Import model.ProxGrad.
Import ListNotations.

(* ------------------------------------------------------------------------------------------ *)
(* (1) _get_alg as a total decision function                                                     *)
(* ------------------------------------------------------------------------------------------ *)
Inductive solver_opt :=
| SolNone                 (* solver=None *)
| SolCG                   (* 'ConjugateGradient' *)
| SolGM                   (* 'GradientMethod' *)
| SolPDHG                 (* 'PrimalDualHybridGradient' *)
| SolADMM                 (* 'ADMM' *)
| SolOther.               (* any other string *)

Inductive branch := BrCG | BrGM | BrPDHG | BrADMM.
Inductive lls_error :=
| ErrCGProxg              (* "ConjugateGradient cannot have proxg specified." *)
| ErrGMG                  (* "GradientMethod cannot have G specified." *)
| ErrInvalidSolver.       (* "Invalid solver: ..." *)
Inductive decision := Accept (b : branch) | Reject (e : lls_error).

Record lls_flags := mkFlags {
  fl_solver : solver_opt;
  fl_proxg : bool;          (* proxg is not None *)
  fl_G : bool;              (* G is not None *)
  fl_lam_pos : bool;        (* lamda > 0  (the correspondence uses lamda in {0, > 0}, so also lamda != 0) *)
  fl_z : bool }.            (* z is not None *)

(* if self.solver is None: ... *)
Definition default_solver (has_proxg has_G : bool) : solver_opt :=
  if negb has_proxg then SolCG            (* if self.proxg is None: 'ConjugateGradient' *)
  else if negb has_G then SolGM           (* elif self.G is None: 'GradientMethod' *)
  else SolPDHG.                           (* else: 'PrimalDualHybridGradient' *)

Definition effective_solver (fl : lls_flags) : solver_opt :=
  match fl_solver fl with SolNone => default_solver (fl_proxg fl) (fl_G fl) | s => s end.

Definition get_alg (fl : lls_flags) : decision :=
  match effective_solver fl with
  | SolCG => if fl_proxg fl then Reject ErrCGProxg else Accept BrCG
  | SolGM => if fl_G fl then Reject ErrGMG else Accept BrGM
  | SolPDHG => Accept BrPDHG
  | SolADMM => Accept BrADMM
  | SolNone | SolOther => Reject ErrInvalidSolver
  end.

(* What the accepted branch wires up, as integers (observable on the implementation's objects):
   CG   [1; lamda*I added to A.N; lamda*z added to A^H y]
   GM   [2; lamda term in gradf; z used in gradf; proxg passed on]
   PDHG [3; operator stacked [A;G]; primal prox kind; dual prox kind; gamma_primal = lamda; gamma_dual]
          primal prox kind: 0 NoOp | 1 the user's proxg | 2 L2Reg(lamda, z) | 3 L2Reg(lamda, z, proxh=proxg)
          dual prox kind:   0 L2Reg(1, -y) | 1 Stack[L2Reg(1,-y); Conj(NoOp)] | 2 Stack[L2Reg(1,-y); Conj(proxg)]
   ADMM [4; G used (x-system, v- and u-update); lamda*z visible in the x-system's rhs; prox applied in the v-update]
   errors [-1] CG+proxg, [-2] GM+G, [-3] invalid solver. *)
Local Open Scope Z_scope.
Definition b2z (b : bool) : Z := if b then 1 else 0.

Definition describe (fl : lls_flags) : list Z :=
  let lam := fl_lam_pos fl in
  match get_alg fl with
  | Reject ErrCGProxg => [-1]
  | Reject ErrGMG => [-2]
  | Reject ErrInvalidSolver => [-3]
  | Accept BrCG => [1; b2z lam; b2z (lam && fl_z fl)]
  | Accept BrGM => [2; b2z lam; b2z (lam && fl_z fl); b2z (fl_proxg fl)]
  | Accept BrPDHG =>
      let primal :=
        if fl_G fl then (if lam then 2 else 0)
        else if lam then (if fl_proxg fl then 3 else 2)
        else (if fl_proxg fl then 1 else 0) in
      let dual := if fl_G fl then (if fl_proxg fl then 2 else 1) else 0 in
      [3; b2z (fl_G fl); primal; dual; b2z lam; (if fl_G fl then 0 else 1)]
  | Accept BrADMM =>
      [4; b2z (fl_G fl); b2z (lam && fl_z fl); b2z (fl_proxg fl)]
  end.
Local Close Scope Z_scope.

(* ------------------------------------------------------------------------------------------ *)
(* (2) the configured data                                                                       *)
(* ------------------------------------------------------------------------------------------ *)
(* vector operations over the scalars S (no laws): x + y, x - y, a * x, x / a, linalg.norm(x) *)
Record VOps (S : SOps) := mkVOps {
  vt :> Type;
  vadd : vt -> vt -> vt;
  vsub : vt -> vt -> vt;
  vscale : S -> vt -> vt;
  vdivs : vt -> S -> vt;
  vnrm : vt -> S }.
Arguments vadd {S _}. Arguments vsub {S _}. Arguments vscale {S _}. Arguments vdivs {S _}. Arguments vnrm {S _}.

Section Helpers.
  Variable S : SOps.
  Definition sne0 (a : S) : bool := negb (seq0 a).          (* Python `a != 0` *)

  (* util.vec of two blocks / util.split: the stacked dual variable of Vstack([A, G]) *)
  Definition prodV (V1 V2 : VOps S) : VOps S :=
    mkVOps S (V1 * V2)%type
      (fun a b => (vadd (fst a) (fst b), vadd (snd a) (snd b)))
      (fun a b => (vsub (fst a) (fst b), vsub (snd a) (snd b)))
      (fun c a => (vscale c (fst a), vscale c (snd a)))
      (fun a c => (vdivs (fst a) c, vdivs (snd a) c))
      (fun a => ssqrt (sadd (smul (vnrm (fst a)) (vnrm (fst a))) (smul (vnrm (snd a)) (vnrm (snd a))))).

  Variable V : VOps S.

  (* prox.NoOp._prox *)
  Definition noop (alpha : S) (input : V) : V := input.
  (* `prox.NoOp(shape) if self.proxg is None else self.proxg` *)
  Definition prox_or_noop (p : option (S -> V -> V)) : S -> V -> V :=
    match p with None => noop | Some q => q end.

  (* prox.L2Reg(shape, lamda, y, proxh)._prox:
       output = input.copy()
       if self.y is not None: output += (self.lamda * alpha) * self.y
       output /= 1 + self.lamda * alpha
       if self.proxh is not None: return self.proxh(alpha / (1 + self.lamda * alpha), output) *)
  Definition l2reg (lamda : S) (y : option V) (proxh : option (S -> V -> V)) (alpha : S) (input : V) : V :=
    let output := input in
    let output := match y with Some yy => vadd output (vscale (smul lamda alpha) yy) | None => output end in
    let output := vdivs output (sadd s1 (smul lamda alpha)) in
    match proxh with
    | Some h => h (sdiv alpha (sadd s1 (smul lamda alpha))) output
    | None => output
    end.

  (* prox.Conj(prox)._prox:  input - alpha * self.prox(1 / alpha, input / alpha) *)
  Definition conj_prox (p : S -> V -> V) (alpha : S) (input : V) : V :=
    vsub input (vscale alpha (p (sdiv s1 alpha) (vdivs input alpha))).

  (* alg.PowerMethod._update:  y = A(x); max_eig = norm(y); x = y / max_eig   (state: x, max_eig) *)
  Definition pm_step (op : V -> V) (st : V * S) : V * S :=
    let y := op (fst st) in
    let e := vnrm y in
    (vdivs y e, e).
  Fixpoint pm_iter (op : V -> V) (n : nat) (st : V * S) : V * S :=
    match n with O => st | Datatypes.S k => pm_step op (pm_iter op k st) end.
  (* app.MaxEig(op, max_iter=n).run() started from the random vector x0 (passed in as data);
     [inf] is the initial value np.inf of max_eig, returned when n = 0 *)
  Definition max_eig (op : V -> V) (n : nat) (x0 : V) (inf : S) : S := snd (pm_iter op n (x0, inf)).
End Helpers.
Arguments noop {S V}. Arguments prox_or_noop {S V}. Arguments l2reg {S V}. Arguments conj_prox {S V}.
Arguments pm_step {S V}. Arguments pm_iter {S V}. Arguments max_eig {S V}.

(* PrimalDualHybridGradient._update with SCALAR tau, sigma (what LinearLeastSquares passes):
   the step of model/ProxGrad.v with  tau * v,  -tau,  tau *= c,  tau /= c,  v / tau**0.5 *)
Definition pd_step_scalar (S : SOps) (X U : VOps S) (A : X -> U) (AH : U -> X)
           (proxfc : S -> U -> U) (proxg : S -> X -> X) (theta gp gd : S)
  : pd_state S X U S S -> pd_state S X U S S :=
  pd_step S X U S S vadd vsub vscale vnrm vadd vsub vnrm
          vscale sopp smul sdiv (fun v t => vdivs v (ssqrt t))
          vscale smul sdiv (fun v t => vdivs v (ssqrt t))
          A AH proxfc proxg theta gp gd.

(* ---------------------------------------------------------------------------------------- *)
(* G is None                                                                                   *)
(* ---------------------------------------------------------------------------------------- *)
Section NoG.
  Variable S : SOps.
  Variables X Y : VOps S.
  Variables (A : X -> Y) (AH : Y -> X).       (* self.A, self.A.H *)
  Variable y : Y.                              (* self.y *)
  Variable lamda : S.                          (* self.lamda *)
  Variable z : option X.                       (* self.z *)
  Variable proxg : option (S -> X -> X).       (* self.proxg (acts on x: G is None) *)

  Definition AHA (x : X) : X := AH (A x).      (* self.A.N *)

  (* ---- _get_ConjugateGradient -------------------------------------------------------------
       AHA = self.A.N;  AHy = self.A.H(self.y)
       if self.lamda != 0:
           AHA += self.lamda * linop.Identity(self.x.shape)
           if self.z is not None: AHy = AHy + self.lamda * self.z
       ConjugateGradient(AHA, AHy, self.x, P=self.P, ...) *)
  Definition cg_op (x : X) : X :=
    if sne0 S lamda then vadd (AHA x) (vscale lamda x) else AHA x.
  Definition cg_rhs : X :=
    if sne0 S lamda then
      match z with Some zz => vadd (AH y) (vscale lamda zz) | None => AH y end
    else AH y.

  (* ---- _get_GradientMethod ----------------------------------------------------------------
       gradf_x = self.A.N(x) - AHy
       if self.lamda != 0:
           if self.z is None: util.axpy(gradf_x, self.lamda, x)
           else:              util.axpy(gradf_x, self.lamda, x - self.z) *)
  Definition gm_gradf (x : X) : X :=
    let g := vsub (AHA x) (AH y) in
    if sne0 S lamda then
      match z with
      | None => vadd g (vscale lamda x)
      | Some zz => vadd g (vscale lamda (vsub x zz))
      end
    else g.
  (* if self.alpha is None: AHA = A.N (+ lamda*I if lamda != 0); max_eig = MaxEig(AHA, max_iter=max_power_iter).run()
       alpha = 1 if max_eig == 0 else 1 / max_eig *)
  Definition gm_alpha (alpha : option S) (max_power_iter : nat) (xrand : X) (inf : S) : S :=
    match alpha with
    | Some a => a
    | None => let e := max_eig cg_op max_power_iter xrand inf in
              if seq0 e then s1 else sdiv s1 e
    end.
  (* GradientMethod(gradf, self.x, self.alpha, proxg=self.proxg, accelerate=self.accelerate, ...)._update *)
  Definition lls_gm_step (accelerate : bool) (alpha : S) : gm_state S X -> gm_state S X :=
    gm_step S X vadd vsub vscale vnrm gm_gradf accelerate alpha proxg.

  (* ---- _get_PrimalDualHybridGradient, G is None ------------------------------------------------
       if self.lamda > 0: gamma_primal = lamda; proxg = L2Reg(x.shape, lamda, y=self.z, proxh=self.proxg)
       else: gamma_primal = 0; proxg = NoOp if self.proxg is None else self.proxg
       proxfc = L2Reg(y.shape, 1, y=-self.y);  gamma_dual = 1 *)
  Definition pdhg_primal_prox : S -> X -> X :=
    if sgt0 lamda then l2reg lamda z proxg
    else prox_or_noop proxg.
  Definition pdhg_gamma_primal : S := if sgt0 lamda then lamda else s0.
  Definition pdhg_dual_prox_data : S -> Y -> Y := l2reg s1 (Some (vscale (sopp s1) y)) None.
  Definition pdhg_gamma_dual_noG : S := s1.

  (* default steps:  if tau is None: (sigma = 1 if None); tau = 1 / MaxEig(A.H * Multiply(sigma) * A)
                     elif sigma is None: sigma = 1 / MaxEig(A * Multiply(tau) * A.H) *)
  Definition pdhg_steps (XX UU : VOps S) (K : XX -> UU) (KH : UU -> XX)
             (tau sigma : option S) (max_power_iter : nat) (xrand : XX) (urand : UU) (inf : S) : S * S :=
    match tau with
    | None =>
        let sg := match sigma with None => s1 | Some s => s end in
        let e := max_eig (fun x => KH (vscale sg (K x))) max_power_iter xrand inf in
        (sdiv s1 e, sg)
    | Some t =>
        match sigma with
        | None =>
            let e := max_eig (fun u => K (vscale t (KH u))) max_power_iter urand inf in
            (t, sdiv s1 e)
        | Some s => (t, s)
        end
    end.

  (* PrimalDualHybridGradient(proxfc, proxg, A, A.H, x, u, tau, sigma, gamma_primal, gamma_dual)._update *)
  Definition lls_pdhg_step : pd_state S X Y S S -> pd_state S X Y S S :=
    pd_step_scalar S X Y A AH pdhg_dual_prox_data pdhg_primal_prox s1 pdhg_gamma_primal pdhg_gamma_dual_noG.

  (* ---- _get_ADMM, G is None --------------------------------------------------------------------
       v = self.x.copy(); u = zeros_like(v)
       minL_x: AHy = A.H * y;  AHy = AHy + rho * (v - u);  if z is not None: AHy += lamda * z
               AHA = A.N;  AHA += (lamda + rho) * Id;  CG(AHA, AHy, x, max_iter=max_cg_iter) run to the end
       minL_v: v = x + u;  if proxg is not None: v = proxg(1 / rho, v)
       ADMM._update: minL_x(); minL_v(); u += Id(x) + (-I_v)(v) - 0 *)
  Variable rho : S.
  Definition admm_op (x : X) : X := vadd (AHA x) (vscale (sadd lamda rho) x).
  Definition admm_rhs (v u : X) : X :=
    let b := vadd (AH y) (vscale rho (vsub v u)) in
    match z with Some zz => vadd b (vscale lamda zz) | None => b end.
  Definition admm_v (x u : X) : X :=
    let v := vadd x u in
    match proxg with Some p => p (sdiv s1 rho) v | None => v end.
  Definition admm_u (x v u : X) : X := vadd u (vadd x (vscale (sopp s1) v)).
End NoG.

(* ---------------------------------------------------------------------------------------- *)
(* G is given                                                                                  *)
(* ---------------------------------------------------------------------------------------- *)
Section WithG.
  Variable S : SOps.
  Variables X Y W : VOps S.
  Variables (A : X -> Y) (AH : Y -> X).       (* self.A, self.A.H *)
  Variables (G : X -> W) (GH : W -> X).       (* self.G, self.G.H *)
  Variable y : Y.
  Variable lamda : S.
  Variable z : option X.
  Variable proxg : option (S -> W -> W).       (* self.proxg (acts on G x) *)

  (* ---- _get_PrimalDualHybridGradient, G given (current code) -------------------------------------
       A = linop.Vstack([A, self.G]);  proxf1c = L2Reg(y.shape, 1, y=-self.y)
       if self.lamda > 0:
           proxf2c = Conj(NoOp(G.oshape)) if self.proxg is None else Conj(self.proxg)
           proxg = L2Reg(x.shape, lamda, y=self.z)
       else:
           proxf2c = Conj(proxg)      # proxg = NoOp or self.proxg from the first block
           proxg = NoOp(x.shape)
       proxfc = Stack([proxf1c, proxf2c]);  gamma_dual = 0;  gamma_primal = lamda if lamda > 0 else 0 *)
  Definition stackU : VOps S := prodV S Y W.
  Definition stackA (x : X) : stackU := (A x, G x).                              (* Vstack([A, G]) *)
  Definition stackAH (u : stackU) : X := vadd (AH (fst u)) (GH (snd u)).          (* its adjoint: Hstack([A.H, G.H]) *)
  Definition pdhgG_dual_prox (sigma : S) (u : stackU) : stackU :=               (* Stack([proxf1c, proxf2c]) *)
    (pdhg_dual_prox_data S Y y sigma (fst u),
     conj_prox (prox_or_noop proxg) sigma (snd u)).
  Definition pdhgG_primal_prox : S -> X -> X :=
    if sgt0 lamda then l2reg lamda z None else noop.
  Definition pdhgG_gamma_primal : S := if sgt0 lamda then lamda else s0.
  Definition pdhgG_gamma_dual : S := s0.

  Definition lls_pdhgG_step : pd_state S X stackU S S -> pd_state S X stackU S S :=
    pd_step_scalar S X stackU stackA stackAH pdhgG_dual_prox pdhgG_primal_prox s1 pdhgG_gamma_primal pdhgG_gamma_dual.

  (* ---- _get_ADMM, G given ------------------------------------------------------------------------
       v = G(x); u = zeros_like(v)
       minL_x: AHy = A.H * y;  AHy = AHy + rho * G.H(v - u);  if z is not None: AHy += lamda * z
               AHA = A.N;  if lamda > 0: AHA += lamda * Id;  AHA += rho * G.H * G
       minL_v: v = G(x) + u;  if proxg is not None: v = proxg(1 / rho, v)
       ADMM._update: ...; u += G(x) + (-I_v)(v) - 0 *)
  Variable rho : S.
  Definition admmG_op (x : X) : X :=
    let a := AH (A x) in
    let a := if sgt0 lamda then vadd a (vscale lamda x) else a in
    vadd a (vscale rho (GH (G x))).
  Definition admmG_rhs (v u : W) : X :=
    let b := vadd (AH y) (vscale rho (GH (vsub v u))) in
    match z with Some zz => vadd b (vscale lamda zz) | None => b end.
  Definition admmG_v (x : X) (u : W) : W :=
    let v := vadd (G x) u in
    match proxg with Some p => p (sdiv s1 rho) v | None => v end.
  Definition admmG_u (x : X) (v u : W) : W := vadd u (vadd (G x) (vscale (sopp s1) v)).
End WithG.
