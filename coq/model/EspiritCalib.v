(* model/EspiritCalib.v — the part of sigpy/mri/app.py:EspiritCalib that model/Espirit.v leaves out: how
   `__init__` obtains the per-voxel operator AHA[r] and sets up the power method, and what `_output` returns,
   at ONE voxel r, written over
     - the real-like operations [EOps] of model/Espirit.v (all per-voxel arithmetic is concrete), and
     - a record [CalibOps] of array-level operations WITHOUT laws: sp.resize, sp.array_to_blocks, reshape,
       transpose (plain data movement, modelled elsewhere: C06 / C07), and the two ORACLES numpy SVD and the
       centred inverse FFT (C05); [a_voxel a] reads the coil vector  [a[c, r] | c]  of an array of shape
       [num_coils] + img_shape at the voxel this instance is about.
   Definitions only.  Hand-written; tools/translate_espirit.py regenerates the same definitions from the source text
   into gen/Gen_espirit.v, where each is proved equal to its counterpart here by computation.
   Nothing is proved about the oracles: the theorems of Prop_C17 hold for ANY per-voxel matrix.

   Readings of numpy that are built in (see notes/translate_espirit.md):
     * arrays of shape  voxels[::-1] + (nc, 1) / (1, nc) / (nc, nc) / (1, 1)  are, at one voxel, a coil vector (list),
       a matrix (list of rows) or a scalar; broadcasting against a voxel-wise scalar is `map`;
     * (nc,1) @ (1,nc) is the outer product (one product per entry, nothing is added), (nc,nc) @ (nc,1) is [matvec];
     * complex * real is [cscale] (both parts scaled), complex * bool multiplies by 1.0 / 0.0;
     * Python `int / int` is the quotient of the two integers as floats ([e_ofZ], exact below 2^53);
     * `VH[mask, :]` keeps the rows whose mask entry is True, in order; reshaping a 2-D array to
       [its number of rows] + shape reshapes every row;  `for kernel in kernels` visits the rows in order. *)
From Coq Require Import ZArith List Bool String.
From SV Require Import model.Alg model.Espirit.
Import ListNotations.
Local Open Scope Z_scope.

(* ---- Python list / tuple arithmetic on shapes --------------------------------------------------- *)
Definition zrep (v n : Z) : list Z := repeat v (Z.to_nat n).                       (* [v] * n *)
Definition zrange (lo hi : Z) : list Z :=                                          (* range(lo, hi) *)
  map (fun i => lo + Z.of_nat i) (seq 0 (Z.to_nat (hi - lo))).
Definition zprod (l : list Z) : Z := fold_left Z.mul l 1.                          (* sp.prod(shape) *)
Definition select {T : Type} (mask : list bool) (rows : list T) : list T :=        (* rows[mask, :] *)
  map snd (filter (fun p => fst p) (combine mask rows)).

(* ---- per-voxel linear algebra over EOps ------------------------------------------------------------ *)
Section Voxel.
  Context {E : EOps}.
  Notation C := (@cplx E).
  Definition c1 : C := (e1, e0).                                                   (* 1 + 0j *)
  Definition vzip (f : C -> C -> C) (a b : list C) : list C := map (fun p => f (fst p) (snd p)) (combine a b).
  Definition mzeros (n : nat) : list (list C) := repeat (repeat c0 n) n.           (* xp.zeros(.. + (n, n)) at a voxel *)
  Definition madd (A B : list (list C)) : list (list C) :=                         (* A += B *)
    map (fun p => vzip cadd (fst p) (snd p)) (combine A B).
  Definition outer (u w : list C) : list (list C) := map (fun ui => map (fun wj => cmul ui wj) w) u.   (* (n,1) @ (1,n) *)
  Definition mscale (s : E) (A : list (list C)) : list (list C) := map (map (cscale s)) A.             (* A *= s, s real *)
  Definition gram (a : list C) : list (list C) := outer a (map cconj a).           (* aH @ conj(aH^T) *)
  (* S.max() of a non-empty 1-D array (numpy raises on an empty one; [e0] here) *)
  Definition lmax (l : list E) : E :=
    match l with [] => e0 | x :: t => fold_left (fun m y => if eltb m y then y else m) t x end.
End Voxel.

(* ---- array-level operations (no laws) ----------------------------------------------------------------- *)
(* operations of IPOps that PowerMethod with a norm_func never uses: arbitrary *)
Record IPRest (E : EOps) := mkIPRest {
  r_sleb : E -> E -> bool;
  r_vadd : list (@cplx E) -> list (@cplx E) -> list (@cplx E);
  r_vsub : list (@cplx E) -> list (@cplx E) -> list (@cplx E);
  r_vscale : E -> list (@cplx E) -> list (@cplx E);
  r_vdot : list (@cplx E) -> list (@cplx E) -> E }.
Arguments r_sleb {E}. Arguments r_vadd {E}. Arguments r_vsub {E}. Arguments r_vscale {E}. Arguments r_vdot {E}.

(* The instance of model/Alg.v's operations at one voxel: scalars are E, vectors are coil vectors, and
   `y / self.max_eig` -- shapes voxels + (nc, 1) and voxels + (1, 1) -- divides every coil entry by the voxel's real scalar. *)
Definition voxel_ip (E : EOps) (R : IPRest E) : IPOps :=
  mkIPOps E (list (@cplx E)) e0 e1 eadd esub emul ediv eopp esqrt (r_sleb R) (r_vadd R) (r_vsub R) (r_vscale R)
          (fun y n => map (fun z => cdivr z n) y) (r_vdot R).

Record CalibOps (E : EOps) := mkCalibOps {
  Arr : Type;                                         (* complex n-d arrays *)
  a_shape : Arr -> list Z;                            (* a.shape *)
  a_resize : Arr -> list Z -> Arr;                    (* sp.resize(a, shape): centred crop / zero-pad *)
  a_blocks : Arr -> list Z -> list Z -> Arr;          (* sp.array_to_blocks(a, blk_shape, blk_strides) *)
  a_reshape : Arr -> list Z -> Arr;                   (* a.reshape(shape), C order, -1 allowed *)
  a_transpose : Arr -> list Z -> Arr;                 (* a.transpose(perm) *)
  a_svd : Arr -> list E * list Arr;                   (* ORACLE xp.linalg.svd(a, full_matrices=False): (S, rows of VH) *)
  a_ifft : Arr -> list Z -> Arr;                      (* ORACLE sp.ifft(a, axes=axes) *)
  a_voxel : Arr -> list (@cplx E);                    (* [a[c, r] | c] at the voxel r, for a of shape [nc] + img_shape *)
  e_ofZ : Z -> E;                                     (* a Python / numpy integer as a float *)
  ip_rest : IPRest E }.
Arguments Arr {E}. Arguments a_shape {E}. Arguments a_resize {E}. Arguments a_blocks {E}. Arguments a_reshape {E}.
Arguments a_transpose {E}. Arguments a_svd {E}. Arguments a_ifft {E}. Arguments a_voxel {E}. Arguments e_ofZ {E}.
Arguments ip_rest {E}.

(* ---- EspiritCalib at one voxel ------------------------------------------------------------------------- *)
Section Calib.
  Context {E : EOps}.
  Variable O : CalibOps E.
  Notation C := (@cplx E).
  Notation A := (Arr O).

  Definition VIP : IPOps := voxel_ip E (ip_rest O).

  (* the attributes the model keeps: self.crop, self.output_eigenvalue, the AHA captured by `forward` (at the voxel),
     self.alg (PowerMethod: x, max_eig, iter, max_iter).  self.mps IS self.alg.x (one array, updated in place). *)
  Record calib_state := mkCalib {
    ec_crop : E;
    ec_output_eigenvalue : bool;
    ec_AHA : list (list C);
    ec_alg : pm_state VIP }.

  Definition img_ndim (ksp : A) : Z := Z.of_nat (List.length (a_shape O ksp)) - 1.      (* ksp.ndim - 1 *)
  Definition num_coils (ksp : A) : Z := hd 0 (a_shape O ksp).                      (* len(ksp) *)

  (* calib = sp.resize(ksp, [num_coils] + [calib_width] * img_ndim) *)
  Definition calib_region (ksp : A) (calib_width : Z) : A :=
    a_resize O ksp (num_coils ksp :: zrep calib_width (img_ndim ksp)).

  (* all kernel_width^d blocks (stride 1) of every coil; one row per block position, coils x block entries along the row *)
  Definition calib_matrix (ksp : A) (calib_width kernel_width : Z) : A :=
    let d := img_ndim ksp in
    let nc := num_coils ksp in
    let blocks := a_blocks O (calib_region ksp calib_width) (zrep kernel_width d) (zrep 1 d) in
    a_reshape O (a_transpose O (a_reshape O blocks [nc; -1; kernel_width ^ d]) [1; 0; 2]) [-1; nc * kernel_width ^ d].

  (* VH[S > thresh * S.max(), :] *)
  Definition kept_rows (thresh : E) (sv : list E * list A) : list A :=
    select (map (fun s => eltb (emul thresh (lmax (fst sv))) s) (fst sv)) (snd sv).

  (* kernels = VH.reshape([num_kernels, num_coils] + [kernel_width] * img_ndim) *)
  Definition calib_kernels (ksp : A) (calib_width : Z) (thresh : E) (kernel_width : Z) : list A :=
    map (fun row => a_reshape O row (num_coils ksp :: zrep kernel_width (img_ndim ksp)))
        (kept_rows thresh (a_svd O (calib_matrix ksp calib_width kernel_width))).

  (* img_kernel = sp.ifft(sp.resize(kernel, ksp.shape), axes=range(-img_ndim, 0)) *)
  Definition kernel_image (ksp kernel : A) : A :=
    a_ifft O (a_resize O kernel (a_shape O ksp)) (zrange (- img_ndim ksp) 0).

  (* sp.prod(img_shape) / kernel_width**img_ndim *)
  Definition aha_scale (ksp : A) (kernel_width : Z) : E :=
    ediv (e_ofZ O (zprod (tl (a_shape O ksp)))) (e_ofZ O (kernel_width ^ img_ndim ksp)).

  (* AHA[r] = scale * sum over kernels of  a a^H,  a = the kernel's image-domain coil vector at r *)
  Definition aha_voxel (ksp : A) (calib_width : Z) (thresh : E) (kernel_width : Z) : list (list C) :=
    mscale (aha_scale ksp kernel_width)
           (fold_left (fun M kernel => madd M (gram (a_voxel O (kernel_image ksp kernel))))
                      (calib_kernels ksp calib_width thresh kernel_width)
                      (mzeros (Z.to_nat (num_coils ksp)))).

  (* self.mps = xp.ones(ksp.shape[::-1] + (1,)) at the voxel *)
  Definition ones_voxel (ksp : A) : list C := repeat c1 (Z.to_nat (num_coils ksp)).

  (* __init__: [inf] is np.inf *)
  Definition calib_init (ksp : A) (calib_width : Z) (thresh : E) (kernel_width : Z) (crop : E) (max_iter : Z)
             (output_eigenvalue : bool) (inf : E) : calib_state :=
    mkCalib crop output_eigenvalue (aha_voxel ksp calib_width thresh kernel_width)
            (mkPM (E:=VIP) (ones_voxel ksp) inf 0 max_iter).

  (* self.alg._update(): PowerMethod with A = forward (AHA @ x), norm_func = normalize (coil-axis l2 norm) *)
  Definition calib_update (st : calib_state) : calib_state :=
    let '(x', n) := power_step (ec_AHA st) (pm_x (ec_alg st)) in
    mkCalib (ec_crop st) (ec_output_eigenvalue st) (ec_AHA st)
            (mkPM (E:=VIP) x' n (pm_iter (ec_alg st)) (pm_max_iter (ec_alg st))).

  (* _output: (mps, max_eig) if output_eigenvalue else mps *)
  Definition calib_output (st : calib_state) : list C * option E :=
    let m := output (ec_crop st) (pm_x (ec_alg st)) (pm_max_eig (ec_alg st)) in
    if ec_output_eigenvalue st then (m, Some (pm_max_eig (ec_alg st))) else (m, None).

  (* the whole app at the voxel: the object the theorems of Prop_C17 speak about ([espirit_voxel]), fed with what
     __init__ builds; App.run performs max_iter updates (theorem driver_bound of C15), then _output *)
  Definition calib_voxel (ksp : A) (calib_width : Z) (thresh : E) (kernel_width : Z) (crop : E) (max_iter : Z) (inf : E)
    : list C * E :=
    espirit_voxel (Z.to_nat max_iter) (aha_voxel ksp calib_width thresh kernel_width) (ones_voxel ksp) inf crop.
End Calib.

Arguments mkCalib {E O}. Arguments ec_crop {E O}. Arguments ec_output_eigenvalue {E O}. Arguments ec_AHA {E O}.
Arguments ec_alg {E O}.

(* ---- constructor signature: EspiritCalib(ksp, calib_width=24, thresh=0.02, kernel_width=6, crop=0.95, ...) ---- *)
Inductive ec_default :=
| DRequired                      (* no default *)
| DInt (z : Z)
| DBool (b : bool)
| DFloat (literal : string)      (* repr() of the Python float *)
| DName (dotted : string).       (* a dotted name, e.g. sp.cpu_device *)

Local Open Scope string_scope.
Definition espirit_signature : list (string * ec_default) :=
  [ ("ksp", DRequired); ("calib_width", DInt 24); ("thresh", DFloat "0.02"); ("kernel_width", DInt 6);
    ("crop", DFloat "0.95"); ("max_iter", DInt 100); ("device", DName "sp.cpu_device");
    ("output_eigenvalue", DBool false); ("show_pbar", DBool true) ].
