(* Nufft.v — hand-written model of sigpy.fourier.nufft / nufft_adjoint and their helpers
   (_get_oversamp_shape, _scale_coord, the beta expression, _apodize), mirroring the Python step by step:

     nufft:          apodize -> /sqrt(prod(shape)) -> centred resize to os_shape -> centred FFT (norm=None)
                     -> scale coordinates -> interpolate (Kaiser-Bessel, width, beta) -> / width^ndim
     nufft_adjoint:  scale coordinates -> gridding -> / width^ndim -> centred IFFT (norm=None) -> resize to oshape
                     -> * prod(os_shape) / sqrt(prod(oshape)) -> apodize

   Parameter functions are terms over a coordinate-scalar record [C : COps] extended with the oracles
   [csqrt], [cpi], [csinh] (PrimFloat sqrt / the literal pi / a table of numpy's sinh when run; abstract in proofs).
   The array steps are terms over [R : Ops]; real scalars enter R through [wt : C -> R].  Division of an
   array by a real scalar c is modelled as multiplication by wt (1 / c).
   numpy.fft is the oracle of model/Fourier.v (twiddle table [tw], [inv n] = 1/n), interpolate / gridding are
   model/Interp.v (kernels GENERATED from interp.py; the Kaiser-Bessel kernel [kern] is a parameter).
   The branch `oshape is None` of nufft_adjoint (estimate_shape) is not modelled.  Definitions only. *)
From Coq Require Import ZArith List Lia Bool.
From SV Require Import lib.Scalar lib.BigSum lib.LoopIR lib.NdArray lib.Gather lib.Coord gen.Gen_interp
  model.Rearrange model.Block model.Interp model.Fourier.
Import ListNotations.
Local Open Scope Z_scope.

Section Params.
  Variable C : COps.
  Variable csqrt : C -> C.
  Variable cpi : C.
  Variable csinh : C -> C.

  Definition csq (a : C) : C := cmul a a.
  Fixpoint cpow (a : C) (k : nat) : C := match k with O => cofZ 1 | S k' => cmul (cpow a k') a end.

  (* ceil(oversamp * i) *)
  Definition os_len (oversamp : C) (i : Z) : Z := cceil (cmul oversamp (cofZ i)).

  (* _get_oversamp_shape: list(shape)[:-ndim] + [ceil(oversamp * i) for i in shape[-ndim:]] *)
  Definition oversamp_shape (shape : list Z) (ndim : nat) (oversamp : C) : list Z :=
    droplast ndim shape ++ map (os_len oversamp) (lastn ndim shape).

  (* beta = pi * (((width / oversamp) * (oversamp - 0.5)) ** 2 - 0.8) ** 0.5 *)
  Definition beta_of (width oversamp : C) : C :=
    cmul cpi (csqrt (csub (csq (cmul (cdiv width oversamp) (csub oversamp (cdiv (cofZ 1) (cofZ 2)))))
                          (cdiv (cofZ 4) (cofZ 5)))).

  (* _scale_coord, one axis of length n: scale = ceil(oversamp n) / n, shift = ceil(oversamp n) // 2 *)
  Definition coord_scale (oversamp : C) (n : Z) : C := cdiv (cofZ (os_len oversamp n)) (cofZ n).
  Definition coord_shift (oversamp : C) (n : Z) : Z := os_len oversamp n / 2.
  Definition scale1 (oversamp : C) (n : Z) (c : C) : C :=
    cadd (cmul c (coord_scale oversamp n)) (cofZ (coord_shift oversamp n)).

  (* coord has shape cshape = pts ++ [ndim]; axis d of the coordinate belongs to shape[-ndim + d] *)
  Definition scale_coord (cshape shape : list Z) (oversamp : C) (coord : list Z -> C) : list Z -> C :=
    let ndim := Z.to_nat (last cshape 0) in
    let dims := lastn ndim shape in
    fun idx => scale1 oversamp (nth (Z.to_nat (last idx 0)) dims 1) (coord idx).

  (* _apodize, one axis of length i, position k:
       a = (beta**2 - (pi * width * (k - i // 2) / os_i) ** 2) ** 0.5 ;  factor = a / sinh(a) *)
  Definition apod_arg (oversamp width beta : C) (i k : Z) : C :=
    csqrt (csub (csq beta)
                (csq (cdiv (cmul (cmul cpi width) (cofZ (k - i / 2))) (cofZ (os_len oversamp i))))).
  Definition apod_factor (oversamp width beta : C) (i k : Z) : C :=
    let a := apod_arg oversamp width beta i k in cdiv a (csinh a).
End Params.

Section Steps.
  Variable R : Ops.
  Variable C : COps.
  Variable kern : C -> C -> C.        (* interp._kaiser_bessel_kernel *)
  Variable wt : C -> R.               (* real scalars as elements of R *)
  Variable csqrt : C -> C.
  Variable cpi : C.
  Variable csinh : C -> C.
  Variable tw : Z -> Z -> R.          (* numpy.fft oracle data, see model/Fourier.v *)
  Variable isc inv : Z -> R.
  Notation farr := (list Z -> R).

  (* product over the last ndim axes of the per-axis apodisation factors (as elements of R) *)
  Fixpoint apod_w (oversamp width beta : C) (dims ks : list Z) : R :=
    match dims, ks with
    | i :: dims', k :: ks' => mul (wt (apod_factor C csqrt cpi csinh oversamp width beta i k)) (apod_w oversamp width beta dims' ks')
    | _, _ => one
    end.

  Definition apodize (shape : list Z) (ndim : nat) (oversamp width beta : C) (x : farr) : farr :=
    let dims := lastn ndim shape in
    fun idx => mul (apod_w oversamp width beta dims (lastn ndim idx)) (x idx).

  Definition scal (c : C) (x : farr) : farr := fun idx => mul (wt c) (x idx).

  Definition fft_axes (ndim : nat) : option (list Z) := Some (zrange (- Z.of_nat ndim) 0 1).

  Definition nufft (ishape cshape : list Z) (coord : list Z -> C) (oversamp width : C) (x : farr)
    : result (list Z * farr) :=
    let ndim := Z.to_nat (last cshape 0) in
    let beta := beta_of C csqrt cpi width oversamp in
    let os_shape := oversamp_shape C ishape ndim oversamp in
    let N := prodZ (lastn ndim ishape) in
    let t1 := apodize ishape ndim oversamp width beta x in
    let t2 := scal (cdiv (cofZ 1) (csqrt (cofZ N))) t1 in                         (* output /= prod(shape[-ndim:]) ** 0.5 *)
    let t3 := forceA os_shape (resize ishape os_shape None None t2) in
    let t4 := snd (fftc tw isc inv false false os_shape None (fft_axes ndim) t3) in   (* fft(..., norm=None) *)
    let coord2 := scale_coord C cshape ishape oversamp coord in
    match interpolate R C kern wt os_shape cshape coord2 (WScalar C width) (WScalar C beta) (forceA os_shape t4) with
    | Err e => Err e
    | Ok (osh, t5) => Ok (osh, scal (cdiv (cofZ 1) (cpow C width ndim)) t5)        (* output /= width ** ndim *)
    end.

  Definition nufft_adjoint (in_shape cshape oshape : list Z) (coord : list Z -> C) (oversamp width : C) (y : farr)
    : result (list Z * farr) :=
    let ndim := Z.to_nat (last cshape 0) in
    let beta := beta_of C csqrt cpi width oversamp in
    let os_shape := oversamp_shape C oshape ndim oversamp in
    let N := prodZ (lastn ndim oshape) in
    let M := prodZ (lastn ndim os_shape) in
    let coord2 := scale_coord C cshape oshape oversamp coord in
    match gridding R C kern wt in_shape cshape os_shape coord2 (WScalar C width) (WScalar C beta) y with
    | Err e => Err e
    | Ok g =>
        let t1 := scal (cdiv (cofZ 1) (cpow C width ndim)) g in                    (* output /= width ** ndim *)
        let t2 := snd (fftc tw isc inv true false os_shape None (fft_axes ndim) (forceA os_shape t1)) in  (* ifft(..., norm=None) *)
        let t3 := forceA oshape (resize os_shape oshape None None t2) in
        let t4 := scal (cdiv (cofZ M) (csqrt (cofZ N))) t3 in                      (* *= prod(os_shape[-ndim:]) / prod(oshape[-ndim:]) ** 0.5 *)
        Ok (oshape, apodize oshape ndim oversamp width beta t4)
    end.
End Steps.
