(* OpaqueNufft.v — denotation of the library-backed leaf classes NUFFT / NUFFTAdjoint of sigpy/linop.py,
   expressed with the EXISTING function model of sigpy.fourier.nufft / nufft_adjoint (model/Nufft.v, the subject of
   Prop_C06).  Definitions only.

     class NUFFT(ishape, coord, oversamp, width, toeplitz):
         __init__ : ndim = coord.shape[-1];  oshape = ishape[:-ndim] + coord.shape[:-1]
         _apply   : fourier.nufft(input, self.coord, oversamp=self.oversamp, width=self.width)
                    (the flag [toeplitz] is NOT read by _apply / _adjoint_linop; it only switches _normal_linop)
     class NUFFTAdjoint(oshape, coord, oversamp, width):
         __init__ : ndim = coord.shape[-1];  ishape = oshape[:-ndim] + coord.shape[:-1]
         _apply   : fourier.nufft_adjoint(input, self.coord, self.oshape, oversamp=self.oversamp, width=self.width)
                    (input.shape = self.ishape is enforced by Linop.apply -> _check_domain)

   Environment (arguments of [orc_nufft]):
     * everything model/Nufft.v needs: the coordinate scalars [C : COps] with the oracles csqrt / cpi / csinh, the
       Kaiser-Bessel kernel [kern], the embedding of real scalars [wt : C -> R], numpy.fft's twiddle table [tw] and the
       scalings [isc] (unused: norm=None) and [inv];
     * [carr : Z -> list Z -> C]  — captured COORDINATE arrays by the tag of the [aref] (coordinates are real; they
       live in the coordinate type, not in the ring of the data: the analogue of [arr] of model/Linop.den);
     * [osv], [wdv : Z -> C]      — the values of the integer parameter codes vlib/linser.py assigns to
       `oversamp` (kind "oversamp") and `width` (kind "nwidth"); the codes of one Serializer are unique across kinds,
       so both may be instantiated with one table.
   A function-model error (ndim outside 1..3) denotes the zero array, like the stacking combinators of [den]. *)
From Coq Require Import ZArith List Lia Bool.
From SV Require Import lib.Scalar lib.BigSum lib.LoopIR lib.NdArray lib.Gather lib.Coord gen.Gen_interp
  model.Rearrange model.Block model.Interp model.Fourier model.Nufft model.Linop.
Import ListNotations.
Local Open Scope Z_scope.

(* coord.shape[-1] and coord.shape[:-1] *)
Definition nufft_ndim (cshape : list Z) : nat := Z.to_nat (last cshape 0).
Definition nufft_pts (cshape : list Z) : list Z := droplast 1 cshape.
(* the k-space side shape both classes compute in __init__:  shape[:-ndim] + coord.shape[:-1] *)
Definition nufft_kshape (shape cshape : list Z) : list Z := droplast (nufft_ndim cshape) shape ++ nufft_pts cshape.

Definition is_nufft (L : linop) : bool :=
  match L with NUFFT _ _ _ _ _ | NUFFTAdjoint _ _ _ _ => true | _ => false end.

Section OpaqueNufft.
  Variable R : Ops.
  Variable C : COps.
  Variable kern : C -> C -> C.        (* interp._kaiser_bessel_kernel *)
  Variable wt : C -> R.
  Variable csqrt : C -> C.
  Variable cpi : C.
  Variable csinh : C -> C.
  Variable tw : Z -> Z -> R.
  Variable isc inv : Z -> R.
  Variable carr : Z -> list Z -> C.   (* captured coordinate arrays by tag *)
  Variable osv wdv : Z -> C.          (* parameter codes -> values *)
  Notation farr := (list Z -> R).

  Definition out_of (r : result (list Z * farr)) : farr :=
    match r with Ok (_, y) => y | Err _ => fun _ => zero end.

  Definition den_nufft (ishape : list Z) (c : aref) (os wd : Z) (x : farr) : farr :=
    out_of (nufft R C kern wt csqrt cpi csinh tw isc inv ishape (ashape_of c) (carr (atag c)) (osv os) (wdv wd) x).

  Definition den_nufft_adjoint (oshape : list Z) (c : aref) (os wd : Z) (y : farr) : farr :=
    out_of (nufft_adjoint R C kern wt csqrt cpi csinh tw isc inv
              (nufft_kshape oshape (ashape_of c))      (* input.shape = self.ishape *)
              (ashape_of c) oshape (carr (atag c)) (osv os) (wdv wd) y).

  Definition orc_nufft (L : linop) (x : farr) : farr :=
    match L with
    | NUFFT ishape c os wd _toeplitz => den_nufft ishape c os wd x
    | NUFFTAdjoint oshape c os wd => den_nufft_adjoint oshape c os wd x
    | _ => x
    end.
End OpaqueNufft.

(* ---- parameter validity (boolean; [C] enters through ceil(oversamp * n)) ----
   What the python classes need for _apply to run and return the advertised shape:
     coord.ndim >= 1 and ndim = coord.shape[-1] in {1, 2, 3}   (interp.interpolate / gridding dispatch on ndim)
     len(shape) >= ndim                                        (fft over axes range(-ndim, 0) of the oversampled array)
     every oversampled length ceil(oversamp * n) is positive   (oversamp > 0)
   (positivity of the image and k-space shapes is [wf]).  *)
Definition nufft_okb (C : COps) (shape cshape : list Z) (oversamp : C) : bool :=
  let nd := nufft_ndim cshape in
  (1 <=? length cshape)%nat && (1 <=? nd)%nat && (nd <=? 3)%nat && (nd <=? length shape)%nat &&
  all_pos (oversamp_shape C shape nd oversamp).

Definition proven_node_nufft (C : COps) (osv : Z -> C) (L : linop) : bool :=
  match L with
  | NUFFT s c os _ _ | NUFFTAdjoint s c os _ => nufft_okb C s (ashape_of c) (osv os)
  | _ => false
  end.

(* ---- range in which the REAL-valued function model is a faithful reading of the implementation ----
   model/Nufft.v computes beta and the apodisation argument a with a real square root.  The implementation leaves the
   reals outside this range: a negative radicand of beta makes `(...) ** 0.5` a python complex (numba then raises
   TypeError), a negative radicand of a (e.g. oversamp = 1.0) is evaluated in the complex dtype of the data
   (a = i t, factor t / sin t).  Not needed by the adjointness theorems (csqrt / csinh are abstract there); required
   by the run-side checker, which evaluates csqrt with PrimFloat.sqrt. *)
Definition nufft_real_okb (C : COps) (csqrt : C -> C) (cpi : C) (shape cshape : list Z) (oversamp width : C) : bool :=
  let nd := nufft_ndim cshape in
  let beta := beta_of C csqrt cpi width oversamp in
  cleb (cofZ 0) (csub (csq C (cmul (cdiv width oversamp) (csub oversamp (cdiv (cofZ 1) (cofZ 2))))) (cdiv (cofZ 4) (cofZ 5))) &&
  forallb (fun i => forallb (fun k =>
      cleb (cofZ 0) (csub (csq C beta) (csq C (cdiv (cmul (cmul cpi width) (cofZ (k - i / 2))) (cofZ (os_len C oversamp i))))))
    (zrange 0 i 1)) (lastn nd shape).
