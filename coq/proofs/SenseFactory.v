(* proofs/SenseFactory.v — the factory as a function of its arguments (model/Sense.v: sense_factory, the
   definition gen/Gen_sense.v regenerates from sigpy/mri/linop.py) builds the tree [sense_tree] that the
   object-graph correspondence of props/C16.py compares with, applied to
     maps[c*b : (c+1)*b]  and  sqrt(weights)  resp.  sqrt(weights[c*b : (c+1)*b])  for c = 0 .. ceil(nc/b) - 1,
   i.e. to the slices [slice_maps b c] of the batched encoding [sense_batched]. *)
From Coq Require Import ZArith List Lia Bool.
From SV Require Import lib.Scalar lib.LoopIR lib.NdArray model.Block model.Linop model.Sense.
Import ListNotations.
Local Open Scope Z_scope.

Section F.
  Variable O : aops.

  Definition sense_eff_batch (a : sense_args) : Z :=
    match sa_batch a with None => alen (sa_mps a) | Some b => b end.
  Definition sense_batch_ids (a : sense_args) : list Z :=
    zrange 0 (sense_nbatches (alen (sa_mps a)) (sense_eff_batch a)) 1.

  (* the per-batch maps and sqrt-weights arrays, in batch order *)
  Definition sense_ms (a : sense_args) : list aref :=
    if sense_eff_batch a <? alen (sa_mps a)
    then map (fun c => sense_batch_maps O (sa_mps a) (sense_eff_batch a) c) (sense_batch_ids a)
    else [sa_mps a].
  Definition sense_ws (a : sense_args) : list (option aref) :=
    if sense_eff_batch a <? alen (sa_mps a)
    then map (fun c => option_map (a_sqrt O)
                         (sense_batch_weights O (sa_weights a) (sense_ksp_ndim (sa_coord a) (snd (sense_img a)))
                                              (alen (sa_mps a)) (sense_eff_batch a) c)) (sense_batch_ids a)
    else [option_map (a_sqrt O) (sa_weights a)].

  Lemma map_combine_map {A B C D} (h : B * C -> D) (f : A -> B) (g : A -> C) (r : list A) :
    map h (combine (map f r) (map g r)) = map (fun c => h (f c, g c)) r.
  Proof. induction r as [|c r IH]; [reflexivity|]. cbn. rewrite IH. reflexivity. Qed.

  Lemma zrange_length n : length (zrange 0 n 1) = Z.to_nat n.
  Proof.
    unfold zrange. cbn [Z.leb]. change (1 <=? 0) with false. cbv iota.
    replace ((n - 0 + 1 - 1) / 1) with n by (rewrite Z.div_1_r; lia).
    generalize (Z.to_nat n) 0. intros k. induction k as [|k IH]; intros lo; [reflexivity|]. cbn. rewrite IH. reflexivity.
  Qed.

  Lemma nbatches_ge_2 nc b : 0 < b -> b < nc -> 2 <= sense_nbatches nc b.
  Proof.
    intros Hb Hlt. unfold sense_nbatches.
    apply Z.div_le_lower_bound; lia.
  Qed.

  Lemma sense_tree_many ish (fl : list Z -> linop) (ms : list aref) (ws : list (option aref)) :
    (2 <= length ms)%nat ->
    sense_tree ish ms fl ws = Vstack (map (fun mw => sense_tree1 ish (fst mw) fl (snd mw)) (combine ms ws)) (Some 0).
  Proof.
    intros H. destruct ms as [|m0 [|m1 ms]]; cbn in H; try lia. destruct ws as [|w0 [|w1 ws]]; reflexivity.
  Qed.

  (* image rank as the factory computes it = rank of the image shape, once mps has its coil axis *)
  Lemma sense_img_rank a : (sa_ishape a = None -> ashape_of (sa_mps a) <> []) ->
    snd (sense_img a) = lenZ (fst (sense_img a)).
  Proof.
    unfold sense_img. destruct (sa_ishape a) as [s|]; intros H; [reflexivity|]. cbn [fst snd].
    destruct (ashape_of (sa_mps a)) as [|n s]; [exfalso; apply H; reflexivity|]. unfold lenZ. cbn [tl length]. lia.
  Qed.

  Theorem sense_factory_is_tree a :
    match sa_batch a with Some b => 0 < b | None => True end ->
    (sa_ishape a = None -> ashape_of (sa_mps a) <> []) ->
    sense_factory O a =
    sense_tree (fst (sense_img a)) (sense_ms a)
               (sense_fleaf O (sa_coord a) (sa_transp a) (lenZ (fst (sense_img a)))) (sense_ws a).
  Proof.
    intros Hb Hm. unfold sense_factory, sense_ms, sense_ws, sense_batch_ids, sense_eff_batch.
    set (nc := alen (sa_mps a)).
    set (b := match sa_batch a with None => nc | Some b => b end).
    destruct (b <? nc) eqn:E.
    - apply Z.ltb_lt in E.
      assert (Hb' : 0 < b).
      { subst b. destruct (sa_batch a); [exact Hb|]. lia. }
      rewrite sense_tree_many.
      2:{ rewrite map_length, zrange_length. pose proof (nbatches_ge_2 nc b Hb' E). lia. }
      f_equal. rewrite map_combine_map. apply map_ext. intros c. reflexivity.
    - cbn [sense_tree]. unfold sense_single. rewrite sense_img_rank by exact Hm. reflexivity.
  Qed.

  (* the slice taken for batch c starts at c*b: the index map of [slice_maps b c] of the batched encoding *)
  Lemma sense_batch_maps_bounds mps b c :
    sense_batch_maps O mps b c = a_slice0 O mps (c * b) (c * b + b).
  Proof. unfold sense_batch_maps. f_equal. lia. Qed.
End F.

(* the hypotheses are satisfiable, and the factory computes: 3 coils in batches of 2 with per-coil weights *)
Example sense_factory_example :
  let O := mkAops (fun t lo hi => 100 * t + 10 * lo + hi) (fun t => t + 1000) (fun t => t + 2000) (fun t => t + 3000)
                  (fun s t => s + t + 4000) (fun s _ _ _ => s) in
  let a := mkSenseArgs (ARef 1 [3; 2; 2]) None (Some (ARef 2 [3; 2; 2])) None (Some 2) false in
  (match sa_batch a with Some b => 0 < b | None => True end) /\
  (sa_ishape a = None -> ashape_of (sa_mps a) <> []) /\
  sense_factory O a =
  Vstack [Compose [Multiply [2; 2; 2] (MArray (ARef 1202 [2; 2; 2])) false; FFT [2; 2; 2] (Some [-2; -1]) true;
                   Multiply [2; 2] (MArray (ARef 102 [2; 2; 2])) false];
          Compose [Multiply [1; 2; 2] (MArray (ARef 1224 [1; 2; 2])) false; FFT [1; 2; 2] (Some [-2; -1]) true;
                   Multiply [2; 2] (MArray (ARef 124 [1; 2; 2])) false]] (Some 0) /\
  wf (sense_factory O a) = true /\ oshape_of (sense_factory O a) = [3; 2; 2].
Proof. cbv zeta. split; [cbn; reflexivity|]. split; [intros _; cbn; discriminate|]. split; [|split]; vm_compute; reflexivity. Qed.

Print Assumptions sense_factory_is_tree.
