(* proofs/Conv1D.v — the convolution model for one spatial axis, arbitrary batch shape and channels
   (multi_channel = True): closed forms of convolve / data adjoint / filter adjoint, exact adjointness. *)
From Coq Require Import ZArith List Lia Bool Ring.
From SV Require Import lib.Scalar lib.BigSum lib.LoopIR lib.NdArray model.Rearrange model.Block model.Linop model.Conv
  proofs.SumTools proofs.ConvTools.
Import ListNotations.
Local Open Scope Z_scope.

(* output length of the 1-D convolution *)
Definition plen (full : bool) (m n s : Z) : Z :=
  if full then (m + n - 1 + s - 1) / s else (m - n + 1 + s - 1) / s.
Definition off1 (full : bool) (m n : Z) : Z := if full then 0 else Z.min m n - 1.
Definition len1 (full : bool) (m n : Z) : Z := if full then m + n - 1 else Z.max m n - Z.min m n + 1.

Lemma plen_pos full m n s : 0 < m -> 0 < n -> 0 < s -> (full = false -> n <= m) -> 0 < plen full m n s.
Proof.
  intros Hm Hn Hs Hv. unfold plen. destruct full; apply Z.div_str_pos; [lia|].
  specialize (Hv eq_refl). lia.
Qed.

Lemma nth_app_len {A} (l : list A) x r d : nth (length l) (l ++ x :: r) d = x.
Proof. rewrite app_nth2 by lia. rewrite Nat.sub_diag. reflexivity. Qed.

Lemma conv_params_1d b ci co m n s full :
  conv_params (b ++ [ci; m]) [co; ci; n] full (Some [s]) true = Ok (b, co, [plen full m n s]).
Proof.
  unfold conv_params.
  change (length [co; ci; n] <? 2 + 1)%nat with false. cbv iota.
  change (length [co; ci; n] - 2)%nat with 1%nat.
  rewrite app_length. cbn [length].
  replace (length b + 2 <? 1 + 1)%nat with false by (symmetry; apply Nat.ltb_ge; lia).
  cbv iota.
  change (lastn 1 [co; ci; n]) with [n].
  replace (lastn 1 (b ++ [ci; m])) with [m]
    by (symmetry; replace (b ++ [ci; m]) with ((b ++ [ci]) ++ [m]) by (rewrite <- app_assoc; reflexivity); apply (lastn_app (b ++ [ci]) [m])).
  replace (droplast (1 + 1) (b ++ [ci; m])) with b by (symmetry; apply (droplast_app b [ci; m])).
  change (pyget [co; ci; n] (- Z.of_nat 1 - 1)) with ci.
  change (pyget [co; ci; n] (- Z.of_nat 1 - 2)) with co.
  replace (pyget (b ++ [ci; m]) (- Z.of_nat 1 - 1)) with ci.
  2:{ unfold pyget, getZ. change (- Z.of_nat 1 - 1 <? 0) with true. cbv iota. rewrite app_length. cbn [length].
      replace (Z.to_nat (Z.of_nat (length b + 2) + (- Z.of_nat 1 - 1))) with (length b) by lia.
      symmetry. apply nth_app_len. }
  rewrite Z.eqb_refl. cbn [negb]. cbv iota.
  change (Nat.eqb (length [s]) 1) with true. cbn [negb]. cbv iota.
  destruct full.
  - reflexivity.
  - cbn [combine existsb fst snd zip3 plen]. rewrite !orb_false_r.
    rewrite (Z.ltb_antisym n m), andb_negb_r. reflexivity.
Qed.

Lemma lastn1_dsh (b : list Z) ci m : lastn 1 (b ++ [ci; m]) = [m].
Proof. replace (b ++ [ci; m]) with ((b ++ [ci]) ++ [m]) by (rewrite <- app_assoc; reflexivity). apply (lastn_app (b ++ [ci]) [m]). Qed.

Lemma sp_shape_1d full m n : (full = false -> n <= m) -> sp_shape full [m] [n] = Ok [len1 full m n].
Proof.
  intros Hv. unfold sp_shape, len1. destruct full; [reflexivity|]. specialize (Hv eq_refl).
  cbn [all_ge combine forallb fst snd]. replace (n <=? m) with true by (symmetry; apply Z.leb_le; lia). reflexivity.
Qed.

Lemma strided_P full m n s : (full = false -> n <= m) -> (len1 full m n + s - 1) / s = plen full m n s.
Proof. intros Hv. unfold len1, plen. destruct full; [reflexivity|]. specialize (Hv eq_refl). f_equal. lia. Qed.

Section C1.
  Variable R : StarRing.
  Add Ring RringC1 : (SRth R).
  Local Open Scope sr_scope.
  Notation farr := (list Z -> R).
  Variables (b : list Z) (ci co m n s : Z) (full : bool).
  Hypothesis Hb : Forall (fun k => (0 < k)%Z) b.
  Hypothesis Hci : (0 < ci)%Z.
  Hypothesis Hco : (0 < co)%Z.
  Hypothesis Hm : (0 < m)%Z.
  Hypothesis Hn : (0 < n)%Z.
  Hypothesis Hs : (0 < s)%Z.
  Hypothesis Hv : full = false -> (n <= m)%Z.
  Notation P := (plen full m n s).
  Notation B := (prodZ b).

  Definition conv_out2 (data filt : farr) : farr :=
    let data2 := reshape (b ++ [ci; m]) (B :: ci :: [m]) data in
    let filt2 := reshape [co; ci; n] (co :: ci :: [n]) filt in
    fun idx => match idx with
      | k :: j :: x => sumL (zrange 0 ci 1) (fun i =>
                        sp_convolve_val full [m] [n] (sub2 data2 k i) (sub2 filt2 j i) (vmul x [s]))
      | _ => 0 end.

  Lemma convolve_1d_eval (data filt : farr) :
    convolve (b ++ [ci; m]) [co; ci; n] full (Some [s]) true data filt =
    Ok (b ++ [co; P], reshape (B :: co :: [P]) (b ++ [co; P]) (conv_out2 data filt)).
  Proof.
    unfold convolve. rewrite conv_params_1d. cbn [bind].
    change (cv_D [co; ci; n] true) with 1%nat.
    rewrite lastn1_dsh. change (lastn 1 [co; ci; n]) with [n].
    change (cv_s 1 (Some [s])) with [s]. change (cv_ci [co; ci; n] 1 true) with ci.
    pose proof (plen_pos full m n s Hm Hn Hs Hv) as HP.
    unfold all_pos. cbn [forallb]. replace (0 <? P)%Z with true by (symmetry; apply Z.ltb_lt; exact HP).
    cbn [andb negb]. cbv iota.
    rewrite sp_shape_1d by exact Hv.
    unfold strided_shape. cbn [zip2]. rewrite strided_P by exact Hv.
    unfold zlist_eqb. cbn [list_eqb]. rewrite Z.eqb_refl. cbn [andb negb]. cbv iota.
    reflexivity.
  Qed.

  Definition win (len : Z) (g : Z -> R) (e : Z) : R := if (0 <=? e)%Z && (e <? len)%Z then g e else 0.

  Lemma win_ext len g g' e : (forall u, (0 <= u < len)%Z -> g u = g' u) -> win len g e = win len g' e.
  Proof.
    intros H. unfold win. destruct ((0 <=? e)%Z && (e <? len)%Z) eqn:C; [|reflexivity].
    apply andb_true_iff in C. destruct C as [C1 C2]. apply Z.leb_le in C1. apply Z.ltb_lt in C2. apply H. lia.
  Qed.

  Lemma zext1 len (A : farr) e : zext [len] A [e] = win len (fun u => A [u]) e.
  Proof. unfold zext, win. cbn [inboxb]. rewrite andb_true_r. reflexivity. Qed.

  Lemma conv_off_1d a t : vsub (vadd [a] (sp_conv_off full [m] [n])) [t] = [(a + off1 full m n - t)%Z].
  Proof. unfold sp_conv_off, off1. destruct full; reflexivity. Qed.

  (* the documented closed form *)
  Definition conv1_closed (data filt : farr) (bi : list Z) (c p : Z) : R :=
    sumZ ci (fun i => sumZ n (fun t =>
      win m (fun u => data (bi ++ [i; u])) (p * s + off1 full m n - t) * filt [c; i; t])).

  Lemma data2_at (data : farr) bi i u : inbox b bi -> (0 <= i < ci)%Z -> (0 <= u < m)%Z ->
    reshape (b ++ [ci; m]) (B :: ci :: [m]) data [ravel b bi; i; u] = data (bi ++ [i; u]).
  Proof.
    intros Hbi Hi Hu.
    rewrite (reshape_flat_in R b [ci; m] data (ravel b bi) [i; u]).
    - rewrite unravel_ravel by exact Hbi. reflexivity.
    - exact Hb.
    - repeat constructor; assumption.
    - apply ravel_bound, Hbi.
    - simpl. lia.
  Qed.

  Lemma conv_1d_value (data filt : farr) bi c p :
    inbox b bi -> (0 <= c < co)%Z -> (0 <= p < P)%Z ->
    reshape (B :: co :: [P]) (b ++ [co; P]) (conv_out2 data filt) (bi ++ [c; p]) = conv1_closed data filt bi c p.
  Proof.
    intros Hbi Hc Hp.
    pose proof (plen_pos full m n s Hm Hn Hs Hv) as HP.
    rewrite (reshape_flat_out R b [co; P]); [| repeat constructor; assumption | exact Hbi | simpl; lia].
    unfold conv_out2, conv1_closed. rewrite sumL_range0. apply sumZ_ext. intros i Hi.
    unfold sp_convolve_val. cbn [osumB vmul zip2]. rewrite sumL_range0. apply sumZ_ext. intros t Ht.
    rewrite conv_off_1d, zext1. f_equal.
    - apply win_ext. intros u Hu. unfold sub2. apply data2_at; assumption.
    - unfold sub2. apply reshape_id. simpl. lia.
  Qed.

  (* ================= data adjoint ================= *)
  Notation Ln := (len1 full m n).

  Lemma prod_osh : (prodZ (b ++ [co; P]) =? B * co * prodZ [P])%Z = true.
  Proof. apply Z.eqb_eq. rewrite prodZ_app. cbn [prodZ]. ring. Qed.

  Lemma cv_L_1d : cv_L full [m] [n] = [Ln].
  Proof. unfold cv_L, len1. destruct full; reflexivity. Qed.

  Lemma data_amode_1d : data_adjoint_mode full [m] [n] = negb full.
  Proof.
    unfold data_adjoint_mode. destruct full; [reflexivity|]. specialize (Hv eq_refl).
    cbn [all_ge combine forallb fst snd]. replace (n <=? m)%Z with true by (symmetry; apply Z.leb_le; lia). reflexivity.
  Qed.

  Lemma sp_shape_dadj : sp_shape (negb full) [Ln] [n] = Ok [m].
  Proof.
    unfold sp_shape, len1. destruct full; cbn [negb].
    - cbn [all_ge combine forallb fst snd]. replace (n <=? m + n - 1)%Z with true by (symmetry; apply Z.leb_le; lia).
      cbn [andb orb zip2]. f_equal. f_equal. lia.
    - specialize (Hv eq_refl). cbn [zip2]. f_equal. f_equal. lia.
  Qed.

  Lemma corr_shift_dadj : sp_corr_shift (negb full) [Ln] [n] = [off1 full m n].
  Proof.
    unfold sp_corr_shift, len1, off1. destruct full; cbn [negb map zip2]; f_equal; [lia|].
    specialize (Hv eq_refl). lia.
  Qed.

  Definition dadj_out2 (y filt : farr) : farr :=
    let output2 := reshape (b ++ [co; P]) (B :: co :: [P]) y in
    let filt2 := reshape [co; ci; n] (co :: ci :: [n]) filt in
    fun idx => match idx with
      | k :: i :: x => sumL (zrange 0 co 1) (fun j =>
            sp_correlate_val (negb full) [Ln] [n] (zero_stuff [s] (sub2 output2 k j)) (sub2 filt2 j i) x)
      | _ => 0 end.

  Lemma data_adjoint_1d_eval (y filt : farr) :
    convolve_data_adjoint (b ++ [co; P]) [co; ci; n] (b ++ [ci; m]) full (Some [s]) true y filt =
    Ok (b ++ [ci; m], reshape (B :: ci :: [m]) (b ++ [ci; m]) (dadj_out2 y filt)).
  Proof.
    unfold convolve_data_adjoint. rewrite conv_params_1d. cbn [bind].
    change (cv_D [co; ci; n] true) with 1%nat.
    rewrite lastn1_dsh. change (lastn 1 [co; ci; n]) with [n].
    change (cv_s 1 (Some [s])) with [s]. change (cv_ci [co; ci; n] 1 true) with ci.
    pose proof (plen_pos full m n s Hm Hn Hs Hv) as HP.
    unfold all_pos. cbn [forallb]. replace (0 <? P)%Z with true by (symmetry; apply Z.ltb_lt; exact HP).
    cbn [andb negb]. cbv iota.
    rewrite prod_osh. cbn [negb]. cbv iota.
    rewrite cv_L_1d, data_amode_1d.
    unfold strided_shape. cbn [zip2]. rewrite strided_P by exact Hv.
    unfold zlist_eqb. cbn [list_eqb]. rewrite Z.eqb_refl. cbn [andb negb]. cbv iota.
    rewrite sp_shape_dadj. cbn [list_eqb]. rewrite Z.eqb_refl. cbn [andb negb]. cbv iota.
    reflexivity.
  Qed.

  (* zero-stuffed strided output, zero outside [0, L) *)
  Definition stuff1 (g : Z -> R) (v : Z) : R := win Ln (fun w => if (w mod s =? 0)%Z then g (w / s)%Z else 0) v.

  Lemma stride_range w : (0 <= w < Ln)%Z -> (0 <= w / s < P)%Z.
  Proof.
    intros Hw. rewrite <- (strided_P full m n s Hv). split; [apply Z.div_pos; lia|].
    replace (Ln + s - 1)%Z with ((Ln - 1) + 1 * s)%Z by ring. rewrite Z.div_add by lia.
    assert (w / s <= (Ln - 1) / s)%Z by (apply Z.div_le_mono; lia). lia.
  Qed.

  Lemma stuff1_ext g g' v : (forall q, (0 <= q < P)%Z -> g q = g' q) -> stuff1 g v = stuff1 g' v.
  Proof.
    intros H. unfold stuff1. apply win_ext. intros w Hw. destruct (w mod s =? 0)%Z; [|reflexivity].
    apply H, stride_range, Hw.
  Qed.

  Lemma zext_stuff (Y : farr) v : zext [Ln] (zero_stuff [s] Y) [v] = stuff1 (fun q => Y [q]) v.
  Proof.
    rewrite zext1. unfold stuff1. apply win_ext. intros w _.
    unfold zero_stuff. cbn [combine forallb fst snd vdiv zip2]. rewrite andb_true_r. reflexivity.
  Qed.

  Definition dadj1_closed (y filt : farr) (bi : list Z) (i u : Z) : R :=
    sumZ co (fun c => sumZ n (fun t =>
      stuff1 (fun q => y (bi ++ [c; q])) (t + u - off1 full m n) * conj (filt [c; i; t]))).

  Lemma out2_at (y : farr) bi c q : inbox b bi -> (0 <= c < co)%Z -> (0 <= q < P)%Z ->
    reshape (b ++ [co; P]) (B :: co :: [P]) y [ravel b bi; c; q] = y (bi ++ [c; q]).
  Proof.
    intros Hbi Hc Hq.
    pose proof (plen_pos full m n s Hm Hn Hs Hv) as HP.
    rewrite (reshape_flat_in R b [co; P] y (ravel b bi) [c; q]).
    - rewrite unravel_ravel by exact Hbi. reflexivity.
    - exact Hb.
    - repeat constructor; assumption.
    - apply ravel_bound, Hbi.
    - simpl. lia.
  Qed.

  Lemma data_adjoint_1d_value (y filt : farr) bi i u :
    inbox b bi -> (0 <= i < ci)%Z -> (0 <= u < m)%Z ->
    reshape (B :: ci :: [m]) (b ++ [ci; m]) (dadj_out2 y filt) (bi ++ [i; u]) = dadj1_closed y filt bi i u.
  Proof.
    intros Hbi Hi Hu.
    rewrite (reshape_flat_out R b [ci; m]); [| repeat constructor; assumption | exact Hbi | simpl; lia].
    unfold dadj_out2, dadj1_closed. rewrite sumL_range0. apply sumZ_ext. intros c Hc.
    unfold sp_correlate_val. rewrite corr_shift_dadj. cbn [osumB vadd vsub zip2]. rewrite sumL_range0.
    apply sumZ_ext. intros t Ht. rewrite zext_stuff. f_equal.
    - apply stuff1_ext. intros q Hq. unfold sub2. apply out2_at; assumption.
    - unfold sub2. f_equal. apply reshape_id. simpl. lia.
  Qed.

  (* ================= the algebra ================= *)
  Lemma stuff_equiv v :
    ((v mod s =? 0) && (0 <=? v / s) && (v / s <? P))%Z = ((0 <=? v) && (v <? Ln) && (v mod s =? 0))%Z.
  Proof.
    rewrite <- (strided_P full m n s Hv).
    apply eq_true_iff_eq. rewrite !andb_true_iff, !Z.eqb_eq, !Z.leb_le, !Z.ltb_lt.
    split.
    - intros [[Hm0 Hq0] Hq1].
      assert (E : (v = s * (v / s))%Z) by (apply Z_div_exact_full_2; lia).
      pose proof (Z.mul_div_le (Ln + s - 1) s Hs) as Hle.
      remember (v / s)%Z as q. remember ((Ln + s - 1) / s)%Z as pp. split; [split|]; try assumption; nia.
    - intros [[Hv0 Hv1] Hm0].
      assert (E : (v = s * (v / s))%Z) by (apply Z_div_exact_full_2; lia).
      split; [split|]; [assumption | apply Z.div_pos; lia |].
      assert (Hq : (v / s + 1 <= (Ln + s - 1) / s)%Z).
      { apply Z.div_le_lower_bound; [lia|]. remember (v / s)%Z as q. nia. }
      lia.
  Qed.

  (* sum over the strided positions that hit v  =  the zero-stuffed array at v *)
  Lemma stuff_sum (g : Z -> R) v :
    sumZ P (fun p => if (p * s + 0 =? v)%Z then g p else 0) = stuff1 g v.
  Proof.
    rewrite (sumZ_affine_single R P s 0 v g Hs). rewrite Z.sub_0_r, stuff_equiv.
    unfold stuff1, win.
    destruct ((0 <=? v)%Z && (v <? Ln)%Z); cbn [andb]; [|reflexivity]. reflexivity.
  Qed.

  Notation off := (off1 full m n).

  (* sum_t win(x)(p s + off - t) f_t  =  sum_u (sum_t [u = p s + off - t] f_t) x_u *)
  Lemma duality_fwd (X f : Z -> R) p :
    sumZ n (fun t => win m X (p * s + off - t) * f t) =
    sumZ m (fun u => sumZ n (fun t => if (u =? p * s + off - t)%Z then f t else 0) * X u).
  Proof.
    rewrite (sumZ_ext R m _ (fun u => sumZ n (fun t => (if (u =? p * s + off - t)%Z then f t else 0) * X u)))
      by (intros; apply sumZ_scale_r).
    rewrite sumZ_exchange. apply sumZ_ext. intros t _.
    rewrite (sumZ_ext R m _ (fun u => if (u =? p * s + off - t)%Z then f t * X u else 0))
      by (intros u _; destruct (u =? p * s + off - t)%Z; ring).
    rewrite sumZ_pick. unfold win. destruct ((0 <=? p * s + off - t)%Z && (p * s + off - t <? m)%Z); ring.
  Qed.

  (* sum_t stuffed(y)(t + u - off) g_t  =  sum_p (sum_t [u = p s + off - t] g_t) y_p *)
  Lemma duality_bwd (Y g : Z -> R) u :
    sumZ n (fun t => stuff1 Y (t + u - off) * g t) =
    sumZ P (fun p => sumZ n (fun t => if (u =? p * s + off - t)%Z then g t else 0) * Y p).
  Proof.
    rewrite (sumZ_ext R P _ (fun p => sumZ n (fun t => (if (u =? p * s + off - t)%Z then g t else 0) * Y p)))
      by (intros; apply sumZ_scale_r).
    rewrite sumZ_exchange. apply sumZ_ext. intros t _.
    rewrite <- stuff_sum. rewrite sumZ_scale_r. apply sumZ_ext. intros p _.
    destruct (Z.eqb_spec u (p * s + off - t)), (Z.eqb_spec (p * s + 0) (t + u - off)); try ring; exfalso; lia.
  Qed.

  (* kernels of convolve as an operator on the data (per batch element), and of its adjoint *)
  Definition Kd (filt : farr) (o i : list Z) : R :=
    match o, i with
    | [c; p], [i0; u] => sumZ n (fun t => if (u =? p * s + off - t)%Z then filt [c; i0; t] else 0)
    | _, _ => 0
    end.
  Definition Kd' (filt : farr) (i o : list Z) : R :=
    match i, o with
    | [i0; u], [c; p] => sumZ n (fun t => if (u =? p * s + off - t)%Z then conj (filt [c; i0; t]) else 0)
    | _, _ => 0
    end.

  Lemma Kd_conj filt o i : inbox [co; P] o -> inbox [ci; m] i -> Kd' filt i o = conj (Kd filt o i).
  Proof.
    destruct o as [|c [|p [|]]]; simpl; try tauto. destruct i as [|i0 [|u [|]]]; simpl; try tauto. intros _ _.
    rewrite sumZ_conj. apply sumZ_ext. intros t _. destruct (u =? p * s + off - t)%Z; [reflexivity| symmetry; apply conj_zero].
  Qed.

  Lemma conv_is_kernel (data filt : farr) bi c p :
    conv1_closed data filt bi c p = kernel_op [ci; m] (Kd filt) (fun i => data (bi ++ i)) [c; p].
  Proof.
    unfold conv1_closed, kernel_op. cbn [sumB Kd]. apply sumZ_ext. intros i _.
    apply (duality_fwd (fun u => data (bi ++ [i; u])) (fun t => filt [c; i; t]) p).
  Qed.

  Lemma dadj_is_kernel (y filt : farr) bi i u :
    dadj1_closed y filt bi i u = kernel_op [co; P] (Kd' filt) (fun o => y (bi ++ o)) [i; u].
  Proof.
    unfold dadj1_closed, kernel_op. cbn [sumB Kd']. apply sumZ_ext. intros c _.
    apply (duality_bwd (fun q => y (bi ++ [c; q])) (fun t => conj (filt [c; i; t])) u).
  Qed.

  Theorem data_adjoint_1d (filt x y : farr) :
    inner (b ++ [co; P]) (reshape (B :: co :: [P]) (b ++ [co; P]) (conv_out2 x filt)) y =
    inner (b ++ [ci; m]) x (reshape (B :: ci :: [m]) (b ++ [ci; m]) (dadj_out2 y filt)).
  Proof.
    unfold inner. rewrite !sumB_app. apply sumB_ext. intros bi Hbi.
    transitivity (inner [co; P] (kernel_op [ci; m] (Kd filt) (fun i => x (bi ++ i))) (fun o => y (bi ++ o))).
    { unfold inner. apply sumB_ext. intros o Ho. destruct o as [|c [|p [|]]]; simpl in Ho; try tauto.
      rewrite conv_1d_value by (try assumption; lia). rewrite conv_is_kernel. reflexivity. }
    rewrite (kernel_adjoint R [ci; m] [co; P] (Kd filt) (Kd' filt)) by (intros; apply Kd_conj; assumption).
    unfold inner. apply sumB_ext. intros i Hi. destruct i as [|i0 [|u [|]]]; simpl in Hi; try tauto.
    rewrite data_adjoint_1d_value by (try assumption; lia). rewrite dadj_is_kernel. reflexivity.
  Qed.

  (* ================= filter adjoint ================= *)
  Lemma filt_amode_1d : filt_adjoint_mode full [m] [n] = false.
  Proof.
    unfold filt_adjoint_mode. destruct full; [reflexivity|]. specialize (Hv eq_refl).
    cbn [all_ge combine forallb fst snd]. replace (n <=? m)%Z with true by (symmetry; apply Z.leb_le; lia). reflexivity.
  Qed.

  Lemma Ln_facts : (1 <= Ln)%Z /\ (Z.max Ln m - Z.min Ln m + 1 = n)%Z /\ (Z.max 0 (m - Ln) = off)%Z.
  Proof.
    unfold len1, off1. destruct full; [lia|]. specialize (Hv eq_refl). lia.
  Qed.

  Lemma sp_shape_fadj : sp_shape false [Ln] [m] = Ok [n].
  Proof.
    destruct Ln_facts as (H1 & H2 & H3).
    unfold sp_shape. cbn [all_ge combine forallb fst snd zip2]. rewrite !andb_true_r.
    assert (E : ((m <=? Ln) || (Ln <=? m))%Z = true).
    { apply orb_true_iff. rewrite !Z.leb_le. lia. }
    rewrite E, H2. reflexivity.
  Qed.

  Lemma corr_shift_fadj : sp_corr_shift false [Ln] [m] = [off].
  Proof. destruct Ln_facts as (H1 & H2 & H3). unfold sp_corr_shift. cbn [zip2]. rewrite H3. reflexivity. Qed.

  Definition fadj_out2 (y data : farr) : farr :=
    let data2 := reshape (b ++ [ci; m]) (B :: ci :: [m]) data in
    let output2 := reshape (b ++ [co; P]) (B :: co :: [P]) y in
    fun idx => match idx with
      | j :: i :: t => sumL (zrange 0 B 1) (fun k =>
            sp_correlate_val false [Ln] [m] (zero_stuff [s] (sub2 output2 k j)) (sub2 data2 k i) t)
      | _ => 0 end.

  Lemma filter_adjoint_1d_eval (y data : farr) :
    convolve_filter_adjoint (b ++ [co; P]) (b ++ [ci; m]) [co; ci; n] full (Some [s]) true y data =
    Ok ([co; ci; n], reshape (co :: ci :: [n]) [co; ci; n] (fadj_out2 y data)).
  Proof.
    unfold convolve_filter_adjoint. rewrite conv_params_1d. cbn [bind].
    change (cv_D [co; ci; n] true) with 1%nat.
    rewrite lastn1_dsh. change (lastn 1 [co; ci; n]) with [n].
    change (cv_s 1 (Some [s])) with [s]. change (cv_ci [co; ci; n] 1 true) with ci.
    pose proof (plen_pos full m n s Hm Hn Hs Hv) as HP.
    unfold all_pos. cbn [forallb]. replace (0 <? P)%Z with true by (symmetry; apply Z.ltb_lt; exact HP).
    cbn [andb negb]. cbv iota.
    rewrite prod_osh. cbn [negb]. cbv iota.
    rewrite cv_L_1d, filt_amode_1d.
    unfold strided_shape. cbn [zip2]. rewrite strided_P by exact Hv.
    unfold zlist_eqb. cbn [list_eqb]. rewrite Z.eqb_refl. cbn [andb negb]. cbv iota.
    rewrite sp_shape_fadj. cbn [list_eqb]. rewrite Z.eqb_refl. cbn [andb negb]. cbv iota.
    reflexivity.
  Qed.

  Definition fadj_term (y data : farr) (c i t : Z) (bi : list Z) : R :=
    sumZ m (fun l => stuff1 (fun q => y (bi ++ [c; q])) (l + t - off) * conj (data (bi ++ [i; l]))).
  Definition fadj1_closed (y data : farr) (c i t : Z) : R := sumB b (fadj_term y data c i t).

  Lemma filter_adjoint_1d_value (y data : farr) c i t :
    (0 <= c < co)%Z -> (0 <= i < ci)%Z -> (0 <= t < n)%Z ->
    reshape (co :: ci :: [n]) [co; ci; n] (fadj_out2 y data) [c; i; t] = fadj1_closed y data c i t.
  Proof.
    intros Hc Hi Ht.
    pose proof (plen_pos full m n s Hm Hn Hs Hv) as HP.
    rewrite reshape_id by (simpl; lia).
    unfold fadj_out2, fadj1_closed. rewrite sumL_range0.
    rewrite <- (sum_unravel R b (fadj_term y data c i t) Hb). apply sumZ_ext. intros k Hk.
    unfold sp_correlate_val, fadj_term. rewrite corr_shift_fadj. cbn [osumB vadd vsub zip2]. rewrite sumL_range0.
    apply sumZ_ext. intros l Hl. rewrite zext_stuff. f_equal.
    - apply stuff1_ext. intros q Hq. unfold sub2.
      apply (reshape_flat_in R b [co; P] y k [c; q]); [exact Hb | repeat constructor; assumption | exact Hk | simpl; lia].
    - unfold sub2. f_equal.
      apply (reshape_flat_in R b [ci; m] data k [i; l]); [exact Hb | repeat constructor; assumption | exact Hk | simpl; lia].
  Qed.

  (* duality_bwd for an arbitrary summation length *)
  Lemma duality_bwd_gen N (Y g : Z -> R) u :
    sumZ N (fun t => stuff1 Y (t + u - off) * g t) =
    sumZ P (fun p => sumZ N (fun t => if (u =? p * s + off - t)%Z then g t else 0) * Y p).
  Proof.
    rewrite (sumZ_ext R P _ (fun p => sumZ N (fun t => (if (u =? p * s + off - t)%Z then g t else 0) * Y p)))
      by (intros; apply sumZ_scale_r).
    rewrite sumZ_exchange. apply sumZ_ext. intros t _.
    rewrite <- stuff_sum. rewrite sumZ_scale_r. apply sumZ_ext. intros p _.
    destruct (Z.eqb_spec u (p * s + off - t)), (Z.eqb_spec (p * s + 0) (t + u - off)); try ring; exfalso; lia.
  Qed.

  Lemma win_conj len (X : Z -> R) e : conj (win len X e) = win len (fun u => conj (X u)) e.
  Proof. unfold win. destruct ((0 <=? e)%Z && (e <? len)%Z); [reflexivity| apply conj_zero]. Qed.

  Lemma duality_filt (X Y : Z -> R) t :
    sumZ m (fun l => stuff1 Y (l + t - off) * conj (X l)) =
    sumZ P (fun p => conj (win m X (p * s + off - t)) * Y p).
  Proof.
    rewrite (duality_bwd_gen m Y (fun l => conj (X l)) t). apply sumZ_ext. intros p _. f_equal.
    rewrite win_conj.
    rewrite (sumZ_ext R m _ (fun l => if (l =? p * s + off - t)%Z then conj (X l) else 0)).
    - rewrite sumZ_pick. reflexivity.
    - intros l _. destruct (Z.eqb_spec t (p * s + off - l)), (Z.eqb_spec l (p * s + off - t)); try reflexivity; exfalso; lia.
  Qed.

  (* kernels of convolve as an operator on the filter, for one batch element, and of its adjoint *)
  Definition Kf (data : farr) (bi : list Z) (o i : list Z) : R :=
    match o, i with
    | [c; p], [c'; i0; t] => if (c' =? c)%Z then win m (fun u => data (bi ++ [i0; u])) (p * s + off - t) else 0
    | _, _ => 0
    end.
  Definition Kf' (data : farr) (bi : list Z) (i o : list Z) : R :=
    match i, o with
    | [c'; i0; t], [c; p] => if (c' =? c)%Z then conj (win m (fun u => data (bi ++ [i0; u])) (p * s + off - t)) else 0
    | _, _ => 0
    end.

  Lemma Kf_conj data bi o i : inbox [co; P] o -> inbox [co; ci; n] i -> Kf' data bi i o = conj (Kf data bi o i).
  Proof.
    destruct o as [|c [|p [|]]]; simpl; try tauto. destruct i as [|c' [|i0 [|t [|]]]]; simpl; try tauto. intros _ _.
    destruct (c' =? c)%Z; [reflexivity| symmetry; apply conj_zero].
  Qed.

  Lemma conv_is_kernel_f (data filt : farr) bi c p : (0 <= c < co)%Z ->
    conv1_closed data filt bi c p = kernel_op [co; ci; n] (Kf data bi) filt [c; p].
  Proof.
    intros Hc. unfold conv1_closed, kernel_op. cbn [sumB Kf].
    rewrite (sumZ_ext R co _ (fun c' => if (c' =? c)%Z then
       sumZ ci (fun i => sumZ n (fun t => win m (fun u => data (bi ++ [i; u])) (p * s + off - t) * filt [c'; i; t])) else 0)).
    - rewrite sumZ_pick. replace ((0 <=? c)%Z && (c <? co)%Z) with true; [reflexivity|].
      symmetry. apply andb_true_iff. rewrite Z.leb_le, Z.ltb_lt. lia.
    - intros c' _. destruct (c' =? c)%Z; [reflexivity|].
      apply sumZ_none. intros i _. apply sumZ_none. intros t _. ring.
  Qed.

  Lemma fadj_is_kernel (y data : farr) bi c i t : (0 <= c < co)%Z ->
    fadj_term y data c i t bi = kernel_op [co; P] (Kf' data bi) (fun o => y (bi ++ o)) [c; i; t].
  Proof.
    intros Hc. unfold fadj_term, kernel_op. cbn [sumB Kf'].
    rewrite (sumZ_ext R co _ (fun c0 => if (c0 =? c)%Z then
       sumZ P (fun p => conj (win m (fun u => data (bi ++ [i; u])) (p * s + off - t)) * y (bi ++ [c0; p])) else 0)).
    - rewrite sumZ_pick. replace ((0 <=? c)%Z && (c <? co)%Z) with true
        by (symmetry; apply andb_true_iff; rewrite Z.leb_le, Z.ltb_lt; lia).
      apply (duality_filt (fun l => data (bi ++ [i; l])) (fun q => y (bi ++ [c; q])) t).
    - intros c0 _. rewrite (Z.eqb_sym c c0). destruct (c0 =? c)%Z; [reflexivity|].
      apply sumZ_none. intros p _. ring.
  Qed.

  Theorem filter_adjoint_1d (data f y : farr) :
    inner (b ++ [co; P]) (reshape (B :: co :: [P]) (b ++ [co; P]) (conv_out2 data f)) y =
    inner [co; ci; n] f (reshape (co :: ci :: [n]) [co; ci; n] (fadj_out2 y data)).
  Proof.
    transitivity (sumB b (fun bi => inner [co; ci; n] f (kernel_op [co; P] (Kf' data bi) (fun o => y (bi ++ o))))).
    { unfold inner at 1. rewrite sumB_app. apply sumB_ext. intros bi Hbi.
      rewrite <- (kernel_adjoint R [co; ci; n] [co; P] (Kf data bi) (Kf' data bi)) by (intros; apply Kf_conj; assumption).
      unfold inner. apply sumB_ext. intros o Ho. destruct o as [|c [|p [|]]]; simpl in Ho; try tauto.
      rewrite conv_1d_value by (try assumption; lia). rewrite conv_is_kernel_f by lia. reflexivity. }
    rewrite inner_sumB_r. unfold inner. apply sumB_ext. intros i Hi.
    destruct i as [|c [|i0 [|t [|]]]]; simpl in Hi; try tauto.
    rewrite filter_adjoint_1d_value by lia. unfold fadj1_closed. f_equal. f_equal.
    apply sumB_ext. intros bi _. symmetry. apply fadj_is_kernel. lia.
  Qed.
End C1.

(* valid mode with a filter longer than the data: non-positive output length, rejected *)
Section NonPos.
  Variable R : Ops.
  Lemma valid_longer_filter_1d b ci co m n s : 0 < s -> m < n ->
    (forall d f : list Z -> R, convolve (b ++ [ci; m]) [co; ci; n] false (Some [s]) true d f = Err E_nonpos) /\
    (forall osh (y f : list Z -> R), convolve_data_adjoint osh [co; ci; n] (b ++ [ci; m]) false (Some [s]) true y f = Err E_nonpos) /\
    (forall osh (y d : list Z -> R), convolve_filter_adjoint osh (b ++ [ci; m]) [co; ci; n] false (Some [s]) true y d = Err E_nonpos).
  Proof.
    intros Hs Hmn.
    assert (Hp : (0 <? plen false m n s) = false).
    { apply Z.ltb_ge. unfold plen. assert ((m - n + 1 + s - 1) / s < 1); [|lia]. apply Z.div_lt_upper_bound; lia. }
    repeat split; intros; unfold convolve, convolve_data_adjoint, convolve_filter_adjoint;
      rewrite conv_params_1d; cbn [bind]; unfold all_pos; cbn [forallb]; rewrite Hp; reflexivity.
  Qed.
End NonPos.
