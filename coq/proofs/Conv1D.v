(* proofs/Conv1D.v — the convolution model for one spatial axis, arbitrary batch shape and channels
   (multi_channel = True): closed forms of convolve / data adjoint / filter adjoint, exact adjointness. *)
From Coq Require Import ZArith List Lia Bool Ring.
From SV Require Import lib.Scalar lib.BigSum lib.LoopIR lib.NdArray model.Rearrange model.Block model.Linop model.Conv
  proofs.SumTools proofs.ConvTools.
Import ListNotations.
Local Open Scope Z_scope.

(* output length of the 1-D convolution *)
Definition plen (full : bool) (m n s : Z) : Z :=
  if full then (m + n - 1 + s - 1) / s else (m - n + 1 + s - 1) / s.
Definition off1 (full : bool) (m n : Z) : Z := if full then 0 else Z.min m n - 1.
Definition len1 (full : bool) (m n : Z) : Z := if full then m + n - 1 else Z.max m n - Z.min m n + 1.

Lemma plen_pos full m n s : 0 < m -> 0 < n -> 0 < s -> (full = false -> n <= m) -> 0 < plen full m n s.
Proof.
  intros Hm Hn Hs Hv. unfold plen. destruct full; apply Z.div_str_pos; [lia|].
  specialize (Hv eq_refl). lia.
Qed.

Lemma nth_app_len {A} (l : list A) x r d : nth (length l) (l ++ x :: r) d = x.
Proof. rewrite app_nth2 by lia. rewrite Nat.sub_diag. reflexivity. Qed.

Lemma conv_params_1d b ci co m n s full : (full = false -> n <= m) ->
  conv_params (b ++ [ci; m]) [co; ci; n] full (Some [s]) true = Ok (b, co, [plen full m n s]).
Proof.
  intros Hv. unfold conv_params.
  change (length [co; ci; n] <? 2 + 1)%nat with false. cbv iota.
  change (length [co; ci; n] - 2)%nat with 1%nat.
  rewrite app_length. cbn [length].
  replace (length b + 2 <? 1 + 1)%nat with false by (symmetry; apply Nat.ltb_ge; lia).
  cbv iota.
  change (lastn 1 [co; ci; n]) with [n].
  replace (lastn 1 (b ++ [ci; m])) with [m]
    by (symmetry; replace (b ++ [ci; m]) with ((b ++ [ci]) ++ [m]) by (rewrite <- app_assoc; reflexivity); apply (lastn_app (b ++ [ci]) [m])).
  replace (droplast (1 + 1) (b ++ [ci; m])) with b by (symmetry; apply (droplast_app b [ci; m])).
  change (pyget [co; ci; n] (- Z.of_nat 1 - 1)) with ci.
  change (pyget [co; ci; n] (- Z.of_nat 1 - 2)) with co.
  replace (pyget (b ++ [ci; m]) (- Z.of_nat 1 - 1)) with ci.
  2:{ unfold pyget, getZ. change (- Z.of_nat 1 - 1 <? 0) with true. cbv iota. rewrite app_length. cbn [length].
      replace (Z.to_nat (Z.of_nat (length b + 2) + (- Z.of_nat 1 - 1))) with (length b) by lia.
      symmetry. apply nth_app_len. }
  rewrite Z.eqb_refl. cbn [negb]. cbv iota.
  change (Nat.eqb (length [s]) 1) with true. cbn [negb]. cbv iota.
  destruct full.
  - reflexivity.
  - specialize (Hv eq_refl). cbn [combine existsb fst snd zip3 plen].
    replace (n <=? m) with true by (symmetry; apply Z.leb_le; lia).
    replace (m <? n) with false by (symmetry; apply Z.ltb_ge; lia).
    reflexivity.
Qed.

Lemma lastn1_dsh (b : list Z) ci m : lastn 1 (b ++ [ci; m]) = [m].
Proof. replace (b ++ [ci; m]) with ((b ++ [ci]) ++ [m]) by (rewrite <- app_assoc; reflexivity). apply (lastn_app (b ++ [ci]) [m]). Qed.

Lemma sp_shape_1d full m n : (full = false -> n <= m) -> sp_shape full [m] [n] = Ok [len1 full m n].
Proof.
  intros Hv. unfold sp_shape, len1. destruct full; [reflexivity|]. specialize (Hv eq_refl).
  cbn [all_ge combine forallb fst snd]. replace (n <=? m) with true by (symmetry; apply Z.leb_le; lia). reflexivity.
Qed.

Lemma strided_P full m n s : (full = false -> n <= m) -> (len1 full m n + s - 1) / s = plen full m n s.
Proof. intros Hv. unfold len1, plen. destruct full; [reflexivity|]. specialize (Hv eq_refl). f_equal. lia. Qed.

Section C1.
  Variable R : StarRing.
  Add Ring RringC1 : (SRth R).
  Local Open Scope sr_scope.
  Notation farr := (list Z -> R).
  Variables (b : list Z) (ci co m n s : Z) (full : bool).
  Hypothesis Hb : Forall (fun k => (0 < k)%Z) b.
  Hypothesis Hci : (0 < ci)%Z.
  Hypothesis Hco : (0 < co)%Z.
  Hypothesis Hm : (0 < m)%Z.
  Hypothesis Hn : (0 < n)%Z.
  Hypothesis Hs : (0 < s)%Z.
  Hypothesis Hv : full = false -> (n <= m)%Z.
  Notation P := (plen full m n s).
  Notation B := (prodZ b).

  Definition conv_out2 (data filt : farr) : farr :=
    let data2 := reshape (b ++ [ci; m]) (B :: ci :: [m]) data in
    let filt2 := reshape [co; ci; n] (co :: ci :: [n]) filt in
    fun idx => match idx with
      | k :: j :: x => sumL (zrange 0 ci 1) (fun i =>
                        sp_convolve_val full [m] [n] (sub2 data2 k i) (sub2 filt2 j i) (vmul x [s]))
      | _ => 0 end.

  Lemma convolve_1d_eval (data filt : farr) :
    convolve (b ++ [ci; m]) [co; ci; n] full (Some [s]) true data filt =
    Ok (b ++ [co; P], reshape (B :: co :: [P]) (b ++ [co; P]) (conv_out2 data filt)).
  Proof.
    unfold convolve. rewrite conv_params_1d by exact Hv. cbn [bind].
    change (cv_D [co; ci; n] true) with 1%nat.
    rewrite lastn1_dsh. change (lastn 1 [co; ci; n]) with [n].
    change (cv_s 1 (Some [s])) with [s]. change (cv_ci [co; ci; n] 1 true) with ci.
    pose proof (plen_pos full m n s Hm Hn Hs Hv) as HP.
    unfold all_pos. cbn [forallb]. replace (0 <? P)%Z with true by (symmetry; apply Z.ltb_lt; exact HP).
    cbn [andb negb]. cbv iota.
    rewrite sp_shape_1d by exact Hv.
    unfold strided_shape. cbn [zip2]. rewrite strided_P by exact Hv.
    unfold zlist_eqb. cbn [list_eqb]. rewrite Z.eqb_refl. cbn [andb negb]. cbv iota.
    reflexivity.
  Qed.

  Definition win (len : Z) (g : Z -> R) (e : Z) : R := if (0 <=? e)%Z && (e <? len)%Z then g e else 0.

  Lemma win_ext len g g' e : (forall u, (0 <= u < len)%Z -> g u = g' u) -> win len g e = win len g' e.
  Proof.
    intros H. unfold win. destruct ((0 <=? e)%Z && (e <? len)%Z) eqn:C; [|reflexivity].
    apply andb_true_iff in C. destruct C as [C1 C2]. apply Z.leb_le in C1. apply Z.ltb_lt in C2. apply H. lia.
  Qed.

  Lemma zext1 len (A : farr) e : zext [len] A [e] = win len (fun u => A [u]) e.
  Proof. unfold zext, win. cbn [inboxb]. rewrite andb_true_r. reflexivity. Qed.

  Lemma conv_off_1d a t : vsub (vadd [a] (sp_conv_off full [m] [n])) [t] = [(a + off1 full m n - t)%Z].
  Proof. unfold sp_conv_off, off1. destruct full; reflexivity. Qed.

  (* the documented closed form *)
  Definition conv1_closed (data filt : farr) (bi : list Z) (c p : Z) : R :=
    sumZ ci (fun i => sumZ n (fun t =>
      win m (fun u => data (bi ++ [i; u])) (p * s + off1 full m n - t) * filt [c; i; t])).

  Lemma data2_at (data : farr) bi i u : inbox b bi -> (0 <= i < ci)%Z -> (0 <= u < m)%Z ->
    reshape (b ++ [ci; m]) (B :: ci :: [m]) data [ravel b bi; i; u] = data (bi ++ [i; u]).
  Proof.
    intros Hbi Hi Hu.
    rewrite (reshape_flat_in R b [ci; m] data (ravel b bi) [i; u]).
    - rewrite unravel_ravel by exact Hbi. reflexivity.
    - exact Hb.
    - repeat constructor; assumption.
    - apply ravel_bound, Hbi.
    - simpl. lia.
  Qed.

  Lemma conv_1d_value (data filt : farr) bi c p :
    inbox b bi -> (0 <= c < co)%Z -> (0 <= p < P)%Z ->
    reshape (B :: co :: [P]) (b ++ [co; P]) (conv_out2 data filt) (bi ++ [c; p]) = conv1_closed data filt bi c p.
  Proof.
    intros Hbi Hc Hp.
    pose proof (plen_pos full m n s Hm Hn Hs Hv) as HP.
    rewrite (reshape_flat_out R b [co; P]); [| repeat constructor; assumption | exact Hbi | simpl; lia].
    unfold conv_out2, conv1_closed. rewrite sumL_range0. apply sumZ_ext. intros i Hi.
    unfold sp_convolve_val. cbn [osumB vmul zip2]. rewrite sumL_range0. apply sumZ_ext. intros t Ht.
    rewrite conv_off_1d, zext1. f_equal.
    - apply win_ext. intros u Hu. unfold sub2. apply data2_at; assumption.
    - unfold sub2. apply reshape_id. simpl. lia.
  Qed.
End C1.
