(* LinopLeaves.v — adjoint pairs for concrete leaf classes of the deep embedding,
   discharging the node hypothesis of LinopTheory.adj_correct for them. *)
From Coq Require Import ZArith List Lia Bool Ring.
From SV Require Import lib.Scalar lib.BigSum lib.LoopIR lib.NdArray lib.Gather model.Rearrange model.Block model.Linop
  proofs.Rearrange proofs.LinopTheory.
Import ListNotations.
Local Open Scope Z_scope.

Section Leaves.
  Variable R : StarRing.
  Notation farr := (list Z -> R).
  Variable arr : Z -> farr.
  Variable scal : Z -> R.
  Variable orc : linop -> farr -> farr.
  Notation D := (D R arr scal orc).
  Notation apair := (apair R arr scal orc).

  Lemma finish_same s r : finish s s = Ok r -> r = (s, s).
  Proof. apply finish_ok. Qed.

  Lemma all_pos_Forall s : all_pos s = true -> Forall (fun n => 0 < n) s.
  Proof. unfold all_pos. rewrite forallb_forall, Forall_forall. intros H n Hn. apply Z.ltb_lt. auto. Qed.

  Lemma finish_pos o i r : finish o i = Ok r -> Forall (fun n => 0 < n) o /\ Forall (fun n => 0 < n) i.
  Proof.
    unfold finish. destruct (all_pos o && all_pos i) eqn:E; [|discriminate]. intros _.
    apply andb_true_iff in E. destruct E. split; apply all_pos_Forall; assumption.
  Qed.

  (* ---- Identity ---- *)
  Theorem apair_identity s : wf (Identity s) = true -> apair (Identity s).
  Proof.
    intros Hwf. unfold apair, LinopTheory.apair. unfold wf, oshape_of, ishape_of in *. simpl in *.
    destruct (finish s s) eqn:F; [|discriminate]. apply finish_ok in F. subst. simpl.
    intros x y. reflexivity.
  Qed.

  (* ---- Flip ---- *)
  Lemma flip_axes_pbij ax shape d :
    Forall (fun n => 0 < n) shape ->
    axes_pbij shape shape
      (mapi_aux (fun d n => if memZ d ax then (fun k => Some (n - 1 - k)) else (fun k => Some k)) d shape)
      (mapi_aux (fun d n => if memZ d ax then (fun k => Some (n - 1 - k)) else (fun k => Some k)) d shape).
  Proof.
    intros Hp. revert d. induction Hp as [|n shape Hn _ IH]; intros d; simpl; constructor; [|apply IH].
    destruct (memZ d ax); [apply flip_ax_pbij | apply id_ax_pbij].
  Qed.

  Theorem apair_flip s ax : wf (Flip s ax) = true -> apair (Flip s ax).
  Proof.
    intros Hwf. unfold apair, LinopTheory.apair. unfold wf, oshape_of, ishape_of in *. simpl in *.
    destruct (finish s s) eqn:F; [|discriminate]. destruct (finish_pos _ _ _ F) as [Hp _].
    apply finish_ok in F. subst. simpl.
    intros x y. unfold LinopTheory.D. simpl. unfold flip, mapi.
    apply gatherN_adjoint. apply flip_axes_pbij. exact Hp.
  Qed.

  (* ---- Downsample / Upsample ---- *)
  Lemma down_up_axes_pbij ishape f sh :
    length f = length ishape -> length sh = length ishape ->
    Forall (fun v => 0 < v) f -> Forall (fun v => 0 <= v) sh ->
    axes_pbij ishape (ds_shape ishape f sh) (down_axes f sh (length ishape)) (up_axes f sh (length ishape)).
  Proof.
    revert f sh; induction ishape as [|n ishape IH]; intros [|fk f] [|sk sh]; simpl; try discriminate; intros L1 L2 F1 F2.
    - constructor.
    - inversion F1; inversion F2; subst. constructor.
      + apply down_up_ax_pbij; assumption.
      + apply IH; auto.
  Qed.

  Lemma ds_shape_length i f sh : length f = length i -> length sh = length i -> length (ds_shape i f sh) = length i.
  Proof.
    revert f sh; induction i as [|n i IH]; intros [|a f] [|b sh]; simpl; try discriminate; auto.
  Qed.

  Theorem apair_downsample i f sh :
    wf (Downsample i f sh) = true -> length f = length i -> length sh = length i ->
    Forall (fun v => 0 < v) f -> Forall (fun v => 0 <= v) sh ->
    apair (Downsample i f sh).
  Proof.
    intros Hwf L1 L2 F1 F2. unfold apair, LinopTheory.apair. unfold wf, oshape_of, ishape_of in *. simpl in *.
    destruct (finish (ds_shape i f sh) i) eqn:F; [|discriminate]. apply finish_ok in F. subst. simpl.
    intros x y. unfold LinopTheory.D. simpl. unfold downsample, upsample.
    apply gatherN_adjoint. apply down_up_axes_pbij; assumption.
  Qed.

  Theorem apair_upsample o f sh :
    wf (Upsample o f sh) = true -> length f = length o -> length sh = length o ->
    Forall (fun v => 0 < v) f -> Forall (fun v => 0 <= v) sh ->
    apair (Upsample o f sh).
  Proof.
    intros Hwf L1 L2 F1 F2. unfold apair, LinopTheory.apair. unfold wf, oshape_of, ishape_of in *. simpl in *.
    destruct (finish o (ds_shape o f sh)) eqn:F; [|discriminate]. apply finish_ok in F. subst. simpl.
    intros x y. unfold LinopTheory.D. simpl. unfold downsample, upsample.
    apply adjoint_pair_sym. intros y' x'.
    apply gatherN_adjoint. apply down_up_axes_pbij; assumption.
  Qed.
End Leaves.
