(* CGBasic.v — facts about the ConjugateGradient state machine that hold over ANY operations
   record (no algebraic laws needed): the breakdown guard, the frame of update(), the
   staleness after the final update. *)
From Coq Require Import ZArith List Bool Lia.
From SV Require Import model.Alg.
Local Open Scope Z_scope.

Section CGBasic.
  Variable E : IPOps.
  Variable A : Vec E -> Vec E.
  Variable P : option (Vec E -> Vec E).
  Notation upd := (cg_update E A P).
  Notation dn := (cg_done E A P).

  Definition cg_pAp (st : cg_state E) : Sc E := vdot (cg_p st) (A (cg_p st)).

  (* breakdown: pAp <= 0  ==>  nothing but the flag (and the counter) changes, and done() holds *)
  Lemma cg_breakdown_unchanged (st : cg_state E) :
    sleb (cg_pAp st) s0 = true ->
    let st' := upd st in
    cg_x st' = cg_x st /\ cg_r st' = cg_r st /\ cg_p st' = cg_p st /\ cg_rzold st' = cg_rzold st /\
    cg_resid st' = cg_resid st /\ cg_max_iter st' = cg_max_iter st /\ cg_tol st' = cg_tol st /\
    cg_iter st' = cg_iter st + 1 /\ cg_npd st' = true /\ dn st' = true.
  Proof.
    intros H. unfold cg_update, update, cg_done, done. cbn [upd_ set_iter get_iter CGClass done_].
    unfold cg__update. fold (cg_pAp st). rewrite H. cbn.
    repeat split; try reflexivity. unfold cg__done. cbn. rewrite orb_true_r. reflexivity.
  Qed.

  (* the flag is sticky and, once it is set, done() stays true and x never moves again
     provided p A p stays <= 0 (it does: p is unchanged) *)
  Lemma cg_breakdown_sticky (st : cg_state E) (k : nat) :
    sleb (cg_pAp st) s0 = true ->
    let st' := Nat.iter (S k) upd st in
    cg_x st' = cg_x st /\ cg_p st' = cg_p st /\ cg_npd st' = true /\ dn st' = true.
  Proof.
    intros H. induction k as [|k IH].
    - cbn [Nat.iter nat_rect]. pose proof (cg_breakdown_unchanged st H) as B. cbv zeta in B. tauto.
    - cbv zeta in *. destruct IH as (Hx & Hp & Hn & Hd).
      set (s := Nat.iter (S k) upd st) in *.
      change (Nat.iter (S (S k)) upd st) with (upd s).
      assert (Hs : sleb (cg_pAp s) s0 = true) by (unfold cg_pAp; rewrite Hp; exact H).
      pose proof (cg_breakdown_unchanged s Hs) as B. cbv zeta in B.
      destruct B as (B1 & _ & B3 & _ & _ & _ & _ & _ & B9 & B10).
      repeat split; congruence.
  Qed.

  (* frame of update(): iter advances by exactly one; max_iter and tol never change *)
  Lemma cg_update_iter (st : cg_state E) : cg_iter (upd st) = cg_iter st + 1.
  Proof.
    unfold cg_update, update. cbn [upd_ set_iter get_iter CGClass]. unfold cg__update.
    destruct (sleb _ _); [reflexivity|]. destruct (_ <? _); reflexivity.
  Qed.
  Lemma cg_update_max_iter (st : cg_state E) : cg_max_iter (upd st) = cg_max_iter st.
  Proof.
    unfold cg_update, update. cbn [upd_ set_iter get_iter CGClass]. unfold cg__update.
    destruct (sleb _ _); [reflexivity|]. destruct (_ <? _); reflexivity.
  Qed.
  Lemma cg_update_tol (st : cg_state E) : cg_tol (upd st) = cg_tol st.
  Proof.
    unfold cg_update, update. cbn [upd_ set_iter get_iter CGClass]. unfold cg__update.
    destruct (sleb _ _); [reflexivity|]. destruct (_ <? _); reflexivity.
  Qed.
  Lemma cg__update_iter (st : cg_state E) : cg_iter (cg__update E A P st) = cg_iter st.
  Proof. unfold cg__update. destruct (sleb _ _); [reflexivity|]. destruct (_ <? _); reflexivity. Qed.
  Lemma cg__update_max_iter (st : cg_state E) : cg_max_iter (cg__update E A P st) = cg_max_iter st.
  Proof. unfold cg__update. destruct (sleb _ _); [reflexivity|]. destruct (_ <? _); reflexivity. Qed.

  (* the last budgeted update (iter = max_iter - 1, or any later one) writes x and resid only:
     r, p, rzold keep the values they had BEFORE that update (so r is b - A x of the previous
     iterate: "stale by design") *)
  Lemma cg_final_update_stale (st : cg_state E) :
    cg_max_iter st - 1 <= cg_iter st ->
    let st' := upd st in
    cg_r st' = cg_r st /\ cg_p st' = cg_p st /\ cg_rzold st' = cg_rzold st /\
    (sleb (cg_pAp st) s0 = false ->
       cg_x st' = vadd (cg_x st) (vscale (sdiv (cg_rzold st) (cg_pAp st)) (cg_p st)) /\
       cg_resid st' = ssqrt (cg_rzold st)).
  Proof.
    intros H. unfold cg_update, update. cbn [upd_ set_iter get_iter CGClass]. unfold cg__update.
    fold (cg_pAp st).
    assert (Hlt : (cg_iter st <? cg_max_iter st - 1) = false) by (apply Z.ltb_ge; lia).
    rewrite Hlt. destruct (sleb (cg_pAp st) s0); cbn; repeat split; try reflexivity; intros; try discriminate.
  Qed.
End CGBasic.
