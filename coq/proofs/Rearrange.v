(* proofs/Rearrange.v — arithmetic of the per-axis index maps of util.py:
   - resize with default shifts copies exactly the indices whose centre-aligned
     source (k - o/2 + i/2) lies inside the input, for every i, o > 0;
   - each per-axis map has an inverse partial bijection (resize <-> resize with
     shifts swapped, flip <-> flip, roll s <-> roll (-s), downsample <-> upsample),
     hence (lib/Gather.gatherN_adjoint) the N-D operators are adjoint pairs. *)
From Coq Require Import ZArith List Lia Bool.
From SV Require Import lib.Scalar lib.BigSum lib.NdArray lib.Gather model.Rearrange.
Import ListNotations.
Local Open Scope Z_scope.

(* --- resize: default shifts realise "index i//2 aligned with index o//2" --- *)
Theorem resize_default_window (i o k : Z) : 0 < i -> 0 < o -> 0 <= k < o ->
  let si := Z.max (i / 2 - o / 2) 0 in
  let so := Z.max (o / 2 - i / 2) 0 in
  resize_ax i o si so k =
  if (0 <=? k - o / 2 + i / 2) && (k - o / 2 + i / 2 <? i) then Some (k - o / 2 + i / 2) else None.
Proof.
  intros Hi Ho Hk. unfold resize_ax. cbv zeta.
  assert (Hi2 : 0 <= i / 2 /\ 2 * (i / 2) <= i < 2 * (i / 2) + 2).
  { pose proof (Z.div_mod i 2 ltac:(lia)). pose proof (Z.mod_pos_bound i 2 ltac:(lia)). lia. }
  assert (Ho2 : 0 <= o / 2 /\ 2 * (o / 2) <= o < 2 * (o / 2) + 2).
  { pose proof (Z.div_mod o 2 ltac:(lia)). pose proof (Z.mod_pos_bound o 2 ltac:(lia)). lia. }
  remember (i / 2) as hi. remember (o / 2) as ho. clear Heqhi Heqho.
  destruct (Z.leb_spec (Z.max (ho - hi) 0) k),
           (Z.ltb_spec k (Z.max (ho - hi) 0 + Z.min (i - Z.max (hi - ho) 0) (o - Z.max (ho - hi) 0))),
           (Z.leb_spec 0 (k - ho + hi)), (Z.ltb_spec (k - ho + hi) i); cbn [andb];
    try reflexivity; try (f_equal; lia); exfalso; lia.
Qed.

(* --- per-axis partial bijections ------------------------------------------- *)
Lemma resize_ax_half i o si so a b : 0 <= a < o ->
  resize_ax i o si so a = Some b -> 0 <= b < i -> resize_ax o i so si b = Some a.
Proof.
  unfold resize_ax. cbv zeta. intros Ha.
  destruct (Z.leb_spec so a), (Z.ltb_spec a (so + Z.min (i - si) (o - so))); cbn [andb]; try discriminate.
  intros E Hb. inversion E; subst b.
  destruct (Z.leb_spec si (a - so + si)), (Z.ltb_spec (a - so + si) (si + Z.min (o - so) (i - si))); cbn [andb];
    try (f_equal; lia); exfalso; lia.
Qed.

Lemma resize_ax_range i o si so a b : 0 <= a < o -> 0 <= si ->
  resize_ax i o si so a = Some b -> 0 <= b < i.
Proof.
  unfold resize_ax. cbv zeta. intros Ha Hsi.
  destruct (Z.leb_spec so a), (Z.ltb_spec a (so + Z.min (i - si) (o - so))); cbn [andb]; try discriminate.
  intros E. inversion E; subst b. lia.
Qed.

Lemma resize_ax_pbij i o si so : 0 <= si -> 0 <= so ->
  ax_pbij i o (resize_ax i o si so) (resize_ax o i so si).
Proof.
  intros Hsi Hso. split; intros a b Ha E.
  - pose proof (resize_ax_range _ _ _ _ _ _ Ha Hsi E). split; [assumption|]. eapply resize_ax_half; eassumption.
  - pose proof (resize_ax_range _ _ _ _ _ _ Ha Hso E). split; [assumption|]. eapply resize_ax_half; eassumption.
Qed.

Lemma id_ax_pbij n : ax_pbij n n (fun k => Some k) (fun k => Some k).
Proof. split; intros a b Ha E; inversion E; subst; auto. Qed.

Lemma flip_ax_pbij n : ax_pbij n n (fun k => Some (n - 1 - k)) (fun k => Some (n - 1 - k)).
Proof. split; intros a b Ha E; inversion E; subst; split; try lia; f_equal; lia. Qed.

Lemma roll_ax_pbij n s : 0 < n ->
  ax_pbij n n (fun k => Some ((k - s) mod n)) (fun k => Some ((k + s) mod n)).
Proof.
  intros Hn. split; intros a b Ha E; inversion E; subst; (split; [apply Z.mod_pos_bound; lia|]); f_equal.
  - rewrite Zplus_mod_idemp_l. replace (a - s + s) with a by ring. apply Z.mod_small; lia.
  - rewrite Zminus_mod_idemp_l. replace (a + s - s) with a by ring. apply Z.mod_small; lia.
Qed.

(* downsample: out[k] = in[s + f k], k < ceil((n - s)/f);  upsample is its inverse partial map *)
Lemma down_up_ax_pbij n f s : 0 < f -> 0 <= s ->
  ax_pbij n ((n - s + f - 1) / f) (fun k => Some (s + f * k))
          (fun k => if (s <=? k) && ((k - s) mod f =? 0) then Some ((k - s) / f) else None).
Proof.
  intros Hf Hs.
  assert (Hq : f * ((n - s + f - 1) / f) <= n - s + f - 1 < f * ((n - s + f - 1) / f) + f).
  { pose proof (Z.div_mod (n - s + f - 1) f ltac:(lia)). pose proof (Z.mod_pos_bound (n - s + f - 1) f Hf). lia. }
  remember ((n - s + f - 1) / f) as q.
  split.
  - intros k i Hk E. inversion E; subst i. split; [nia|].
    replace (s + f * k - s) with (k * f) by ring. rewrite Z_mod_mult, Z.div_mul by lia.
    destruct (Z.leb_spec s (s + f * k)); [|nia]. reflexivity.
  - intros i k Hi. destruct (Z.leb_spec s i); cbn [andb]; [|discriminate].
    destruct (Z.eqb_spec ((i - s) mod f) 0) as [Hm|]; [|discriminate].
    intros E. inversion E; subst k.
    assert (Hd : i - s = f * ((i - s) / f)) by (apply Z_div_exact_full_2; lia).
    remember ((i - s) / f) as t. split; [nia|]. f_equal. lia.
Qed.

(* --- N-D adjoint pairs -------------------------------------------------------- *)
Section Adj.
  Variable R : StarRing.

  Lemma zip4_resize_pbij i1 o1 si so :
    length i1 = length o1 -> length si = length i1 -> length so = length i1 ->
    Forall (fun v => 0 <= v) si -> Forall (fun v => 0 <= v) so ->
    axes_pbij i1 o1 (zip4 resize_ax i1 o1 si so) (zip4 resize_ax o1 i1 so si).
  Proof.
    revert o1 si so; induction i1 as [|i i1 IH]; intros [|o o1] [|a si] [|b so]; simpl; try discriminate;
      intros L1 L2 L3 F1 F2; try constructor.
    - inversion F1; inversion F2; subst. apply resize_ax_pbij; assumption.
    - inversion F1; inversion F2; subst. apply IH; try lia; assumption.
  Qed.

  (* util.resize on already-expanded shapes of equal rank: Resize and its shift-swapped partner are adjoint *)
  Theorem resize_gather_adjoint i1 o1 si so :
    length i1 = length o1 -> length si = length i1 -> length so = length i1 ->
    Forall (fun v => 0 <= v) si -> Forall (fun v => 0 <= v) so ->
    forall x y : list Z -> R,
      inner o1 (gatherN (zip4 resize_ax i1 o1 si so) x) y = inner i1 x (gatherN (zip4 resize_ax o1 i1 so si) y).
  Proof. intros. apply gatherN_adjoint. apply zip4_resize_pbij; assumption. Qed.
End Adj.
