(* proofs/ConvND.v — the convolution model for ANY number D >= 1 of spatial axes, arbitrary batch shape,
   multi_channel = True (c_i / c_o channels) and multi_channel = False (no channel axes):
   closed form of convolve (the N-D convolution sum, per-axis offsets and strides), the two adjoint
   functions return Ok with the requested shapes and are the exact adjoints.

   Layout.  Part A: per-axis facts (shapes, modes, offsets) by induction on the list of axes.
            Part B: the N-D duality  sum_p zext_m(H . p)(p*s + off - t) = sum_u zext_L(stuff_s(H u .))(t + u - off)
                    by induction on the axes (1-D step = SumTools.sumZ_affine_single).
            Part C: reshape between  b ++ c ++ r  and  prod b :: prod c :: r.
            Part D: evaluation of the three model functions, closed forms, adjointness.
            Part E: the two calling conventions multi_channel = True / False (any D).
            Part F: explicit scalar forms for D = 1 (multi_channel = False), D = 2, D = 3.
            Part G: rejection for any D ('valid' mode, filter longer than the data on some axis). *)
From Coq Require Import ZArith List Lia Bool Ring.
From SV Require Import lib.Scalar lib.BigSum lib.LoopIR lib.NdArray model.Rearrange model.Block model.Linop model.Conv
  proofs.SumTools proofs.ConvTools proofs.ConvReject proofs.Conv1D.
Import ListNotations.
Local Open Scope Z_scope.

(* ====================================================================== Part A: the list of axes *)

(* admissible spatial axes: data lengths m, filter lengths n, strides s (same number of each),
   all positive, and in 'valid' mode the filter is not longer than the data on every axis *)
Inductive axes (full : bool) : list Z -> list Z -> list Z -> Prop :=
| ax_nil : axes full [] [] []
| ax_cons m0 n0 s0 m n s :
    0 < m0 -> 0 < n0 -> 0 < s0 -> (full = false -> n0 <= m0) ->
    axes full m n s -> axes full (m0 :: m) (n0 :: n) (s0 :: s).

Lemma axes_of_lists full m n s :
  length n = length m -> length s = length m ->
  Forall (fun k => 0 < k) m -> Forall (fun k => 0 < k) n -> Forall (fun k => 0 < k) s ->
  (full = false -> Forall2 Z.le n m) -> axes full m n s.
Proof.
  revert n s. induction m as [|m0 m IH]; intros [|n0 n] [|s0 s] Ln Ls Hm Hn Hs Hv; simpl in *; try discriminate.
  - constructor.
  - inversion Hm; inversion Hn; inversion Hs; subst. constructor; try assumption.
    + intros E. specialize (Hv E). inversion Hv; assumption.
    + apply IH; try lia; try assumption. intros E. specialize (Hv E). inversion Hv; assumption.
Qed.

Definition Pv (full : bool) (m n s : list Z) : list Z := zip3 (plen full) m n s.
Definition Lv (full : bool) (m n : list Z) : list Z := zip2 (len1 full) m n.
Definition offv (full : bool) (m n : list Z) : list Z := zip2 (off1 full) m n.

(* the un-strided lengths L, the strides and the output lengths P = ceil(L / s) *)
Inductive strided : list Z -> list Z -> list Z -> Prop :=
| st_nil : strided [] [] []
| st_cons L0 s0 L s : 0 < s0 -> strided L s (strided_shape L s) ->
    strided (L0 :: L) (s0 :: s) ((L0 + s0 - 1) / s0 :: strided_shape L s).

Lemma pyget_from_end pre x post : pyget (pre ++ x :: post) (- Z.of_nat (length post) - 1) = x.
Proof.
  unfold pyget, getZ. replace (- Z.of_nat (length post) - 1 <? 0) with true by (symmetry; apply Z.ltb_lt; lia).
  rewrite app_length. cbn [length].
  replace (Z.to_nat (Z.of_nat (length pre + S (length post)) + (- Z.of_nat (length post) - 1))) with (length pre) by lia.
  apply nth_app_len.
Qed.

Lemma zlist_eqb_refl l : zlist_eqb l l = true.
Proof. apply zlist_eqb_spec. reflexivity. Qed.


  Lemma axes_len full m n s : axes full m n s -> length m = length n /\ length s = length n.
  Proof. induction 1 as [|m0 n0 s0 m n s _ _ _ _ _ [IH1 IH2]]; simpl; split; congruence. Qed.

  Lemma Pv_len full m n s : axes full m n s -> length (Pv full m n s) = length n.
  Proof. unfold Pv. induction 1; simpl; congruence. Qed.

  Lemma Lv_len full m n s : axes full m n s -> length (Lv full m n) = length n.
  Proof. unfold Lv. induction 1; simpl; congruence. Qed.

  Lemma offv_len full m n s : axes full m n s -> length (offv full m n) = length n.
  Proof. unfold offv. induction 1; simpl; congruence. Qed.

  Lemma anylt_false full m n s : axes full m n s -> full = false ->
    existsb (fun p => fst p <? snd p) (combine m n) = false.
  Proof.
    induction 1 as [|m0 n0 s0 m n s Hm Hn Hs Hv _ IH]; intros E; [reflexivity|].
    cbn [combine existsb fst snd]. rewrite (IH E), orb_false_r. apply Z.ltb_ge. auto.
  Qed.

  Lemma all_ge_mn full m n s : axes full m n s -> full = false -> all_ge m n = true.
  Proof.
    unfold all_ge. induction 1 as [|m0 n0 s0 m n s Hm Hn Hs Hv _ IH]; intros E; [reflexivity|].
    cbn [combine forallb fst snd]. rewrite (IH E), andb_true_r. apply Z.leb_le. auto.
  Qed.

  Lemma Pv_pos full m n s : axes full m n s -> Forall (fun k => 0 < k) (Pv full m n s).
  Proof.
    induction 1 as [|m0 n0 s0 m n s Hm Hn Hs Hv _ IH]; [constructor|].
    unfold Pv. cbn [zip3]. constructor; [apply plen_pos; assumption| exact IH].
  Qed.

  Lemma Pv_all_pos full m n s : axes full m n s -> all_pos (Pv full m n s) = true.
  Proof.
    intros H. apply Pv_pos in H. unfold all_pos. induction H as [|x l Hx _ IH]; [reflexivity|].
    cbn [forallb]. rewrite IH, andb_true_r. apply Z.ltb_lt. exact Hx.
  Qed.

  Lemma cv_L_nd full m n : cv_L full m n = Lv full m n.
  Proof. unfold cv_L, Lv. destruct full; reflexivity. Qed.

  Lemma sp_shape_nd full m n s : axes full m n s -> sp_shape full m n = Ok (Lv full m n).
  Proof.
    intros H. unfold sp_shape, Lv. destruct full eqn:E; [reflexivity|].
    rewrite (all_ge_mn false m n s H eq_refl). reflexivity.
  Qed.

  Lemma strided_nd full m n s : axes full m n s -> strided_shape (Lv full m n) s = Pv full m n s.
  Proof.
    induction 1 as [|m0 n0 s0 m n s Hm Hn Hs Hv _ IH]; [reflexivity|].
    unfold strided_shape, Lv, Pv in *. cbn [zip2 zip3]. rewrite IH, strided_P by exact Hv. reflexivity.
  Qed.

  Lemma strided_ax full m n s : axes full m n s -> strided (Lv full m n) s (Pv full m n s).
  Proof.
    induction 1 as [|m0 n0 s0 m n s Hm Hn Hs Hv Hax IH]; [constructor|].
    pose proof (strided_nd full m n s Hax) as E.
    unfold Lv, Pv in *. cbn [zip2 zip3]. rewrite <- (strided_P full m0 n0 s0 Hv). rewrite <- E.
    constructor; [exact Hs|]. rewrite E. exact IH.
  Qed.

  Lemma data_amode_nd full m n s : axes full m n s -> data_adjoint_mode full m n = negb full.
  Proof.
    intros H. unfold data_adjoint_mode. destruct full eqn:E; [reflexivity|].
    rewrite (all_ge_mn false m n s H eq_refl). reflexivity.
  Qed.

  Lemma filt_amode_nd full m n s : axes full m n s -> filt_adjoint_mode full m n = false.
  Proof.
    intros H. unfold filt_adjoint_mode. destruct full eqn:E; [reflexivity|].
    rewrite (all_ge_mn false m n s H eq_refl). reflexivity.
  Qed.

  Lemma sp_conv_off_nd full m n s : axes full m n s -> sp_conv_off full m n = offv full m n.
  Proof.
    intros H. unfold sp_conv_off, offv. destruct full eqn:E; [|reflexivity].
    induction H as [|m0 n0 s0 m n s _ _ _ _ _ IH]; [reflexivity|]. cbn [map zip2]. rewrite IH. reflexivity.
  Qed.

(* the data adjoint: correlate(stuffed output (lengths L), filter, adjoint mode) has the data lengths m
   and its shift is the forward offset *)
Lemma sp_shape_dadj_nd full m n s : axes full m n s -> sp_shape (negb full) (Lv full m n) n = Ok m.
Proof.
  intros H. unfold sp_shape, Lv. destruct full; cbn [negb].
  - assert (E1 : all_ge (zip2 (len1 true) m n) n = true).
    { unfold all_ge. induction H as [|m0 n0 s0 m n s Hm Hn Hs Hv _ IH]; [reflexivity|].
      cbn [zip2 combine forallb fst snd]. rewrite IH, andb_true_r. apply Z.leb_le. unfold len1. lia. }
    rewrite E1. cbn [orb]. f_equal. clear E1.
    induction H as [|m0 n0 s0 m n s Hm Hn Hs Hv _ IH]; [reflexivity|].
    cbn [zip2]. rewrite IH. f_equal. unfold len1. lia.
  - f_equal. induction H as [|m0 n0 s0 m n s Hm Hn Hs Hv _ IH]; [reflexivity|].
    cbn [zip2]. rewrite IH. f_equal. specialize (Hv eq_refl). unfold len1. lia.
Qed.

Lemma corr_shift_dadj_nd full m n s : axes full m n s ->
  sp_corr_shift (negb full) (Lv full m n) n = offv full m n.
Proof.
  intros H. unfold sp_corr_shift, Lv, offv. destruct full; cbn [negb].
  - induction H as [|m0 n0 s0 m n s Hm Hn Hs Hv _ IH]; [reflexivity|].
    cbn [zip2]. rewrite IH. f_equal. unfold len1, off1. lia.
  - induction H as [|m0 n0 s0 m n s Hm Hn Hs Hv _ IH]; [reflexivity|].
    cbn [zip2 map]. rewrite IH. f_equal. specialize (Hv eq_refl). unfold off1. lia.
Qed.

(* the filter adjoint: correlate(stuffed output, data, 'valid') has the filter lengths n, same shift *)
Lemma sp_shape_fadj_nd full m n s : axes full m n s -> sp_shape false (Lv full m n) m = Ok n.
Proof.
  intros H. unfold sp_shape, Lv.
  assert (E1 : all_ge (zip2 (len1 full) m n) m || all_ge m (zip2 (len1 full) m n) = true).
  { apply orb_true_iff. destruct full; [left|right]; unfold all_ge.
    - induction H as [|m0 n0 s0 m n s Hm Hn Hs Hv _ IH]; [reflexivity|].
      cbn [zip2 combine forallb fst snd]. rewrite IH, andb_true_r. apply Z.leb_le. unfold len1. lia.
    - induction H as [|m0 n0 s0 m n s Hm Hn Hs Hv _ IH]; [reflexivity|].
      cbn [zip2 combine forallb fst snd]. rewrite IH, andb_true_r. apply Z.leb_le. specialize (Hv eq_refl). unfold len1. lia. }
  rewrite E1. f_equal. clear E1.
  induction H as [|m0 n0 s0 m n s Hm Hn Hs Hv _ IH]; [reflexivity|].
  cbn [zip2]. rewrite IH. f_equal. unfold len1. destruct full; [lia|]. specialize (Hv eq_refl). lia.
Qed.

Lemma corr_shift_fadj_nd full m n s : axes full m n s ->
  sp_corr_shift false (Lv full m n) m = offv full m n.
Proof.
  intros H. unfold sp_corr_shift, Lv, offv.
  induction H as [|m0 n0 s0 m n s Hm Hn Hs Hv _ IH]; [reflexivity|].
  cbn [zip2]. rewrite IH. f_equal. unfold len1, off1. destruct full; [lia|]. specialize (Hv eq_refl). lia.
Qed.

(* strides argument: Some s, or None = all ones *)
Definition st_ok (st : option (list Z)) (s : list Z) (D : nat) : Prop :=
  st = Some s \/ (st = None /\ s = repeat 1 D).

Lemma cv_s_ok st s D : st_ok st s D -> cv_s D st = s.
Proof. intros [-> | [-> ->]]; reflexivity. Qed.

(* _get_convolve_params on shapes  b ++ ci :: m  /  co :: ci :: n  (multi_channel = True), any lengths m, n, s *)
Lemma conv_params_shape_mc b ci co m n s full st :
  length m = length n -> length s = length n -> n <> [] -> st_ok st s (length n) ->
  conv_params (b ++ ci :: m) (co :: ci :: n) full st true =
  if full then Ok (b, co, zip3 (plen true) m n s)
  else if existsb (fun p => snd p <=? fst p) (combine m n) && existsb (fun p => fst p <? snd p) (combine m n)
       then Err E_conv else Ok (b, co, zip3 (plen false) m n s).
Proof.
  intros Lm Ls Hne Hst.
  unfold conv_params.
  replace (length (co :: ci :: n) <? 2 + 1)%nat with false
    by (symmetry; apply Nat.ltb_ge; destruct n; [congruence| cbn [length]; lia]).
  cbv iota.
  replace (length (co :: ci :: n) - 2)%nat with (length n) by (cbn [length]; lia).
  rewrite app_length. cbn [length].
  replace (length b + S (length m) <? length n + 1)%nat with false by (symmetry; apply Nat.ltb_ge; lia).
  cbv iota.
  replace (lastn (length n) (co :: ci :: n)) with n by (symmetry; apply (lastn_app [co; ci] n)).
  replace (lastn (length n) (b ++ ci :: m)) with m.
  2:{ symmetry. rewrite <- Lm. replace (b ++ ci :: m) with ((b ++ [ci]) ++ m) by (rewrite <- app_assoc; reflexivity).
      apply lastn_app. }
  replace (droplast (length n + 1) (b ++ ci :: m)) with b.
  2:{ symmetry. replace (length n + 1)%nat with (length (ci :: m)) by (cbn [length]; lia). apply droplast_app. }
  replace (pyget (co :: ci :: n) (- Z.of_nat (length n) - 1)) with ci by (symmetry; apply (pyget_from_end [co] ci n)).
  replace (pyget (b ++ ci :: m) (- Z.of_nat (length n) - 1)) with ci
    by (symmetry; rewrite <- Lm; apply (pyget_from_end b ci m)).
  replace (pyget (co :: ci :: n) (- Z.of_nat (length n) - 2)) with co.
  2:{ symmetry. replace (- Z.of_nat (length n) - 2) with (- Z.of_nat (length (ci :: n)) - 1) by (cbn [length]; lia).
      apply (pyget_from_end [] co (ci :: n)). }
  rewrite Z.eqb_refl. cbn [negb]. cbv iota.
  assert (E : (match st with None => Ok (repeat 1 (length n))
               | Some s0 => if negb (Nat.eqb (length s0) (length n)) then Err E_conv else Ok s0 end) = Ok s).
  { destruct Hst as [-> | [-> ->]]; [|reflexivity]. rewrite Ls, Nat.eqb_refl. reflexivity. }
  rewrite E. destruct full; reflexivity.
Qed.

Lemma conv_params_nd_mc b ci co m n s full st :
  axes full m n s -> n <> [] -> st_ok st s (length n) ->
  conv_params (b ++ ci :: m) (co :: ci :: n) full st true = Ok (b, co, Pv full m n s).
Proof.
  intros Hax Hne Hst. destruct (axes_len full m n s Hax) as [Lm Ls].
  rewrite (conv_params_shape_mc b ci co m n s full st Lm Ls Hne Hst).
  destruct full eqn:Ef; [reflexivity|].
  rewrite (anylt_false false m n s Hax eq_refl), andb_false_r. reflexivity.
Qed.

(* the same for shapes  b ++ m  /  n  (multi_channel = False) *)
Lemma conv_params_shape_sc b m n s full st :
  length m = length n -> length s = length n -> n <> [] -> st_ok st s (length n) ->
  conv_params (b ++ m) n full st false =
  if full then Ok (b, 1, zip3 (plen true) m n s)
  else if existsb (fun p => snd p <=? fst p) (combine m n) && existsb (fun p => fst p <? snd p) (combine m n)
       then Err E_conv else Ok (b, 1, zip3 (plen false) m n s).
Proof.
  intros Lm Ls Hne Hst.
  unfold conv_params.
  replace (length n <? 0 + 1)%nat with false by (symmetry; apply Nat.ltb_ge; destruct n; [congruence| cbn [length]; lia]).
  cbv iota.
  replace (length n - 0)%nat with (length n) by lia.
  rewrite app_length.
  replace (length b + length m <? length n + 0)%nat with false by (symmetry; apply Nat.ltb_ge; lia).
  cbv iota.
  replace (lastn (length n) n) with n by (symmetry; apply (lastn_app [] n)).
  replace (lastn (length n) (b ++ m)) with m by (symmetry; rewrite <- Lm; apply lastn_app).
  replace (droplast (length n + 0) (b ++ m)) with b.
  2:{ symmetry. replace (length n + 0)%nat with (length m) by lia. apply droplast_app. }
  cbn [negb]. cbv iota.
  assert (E : (match st with None => Ok (repeat 1 (length n))
               | Some s0 => if negb (Nat.eqb (length s0) (length n)) then Err E_conv else Ok s0 end) = Ok s).
  { destruct Hst as [-> | [-> ->]]; [|reflexivity]. rewrite Ls, Nat.eqb_refl. reflexivity. }
  rewrite E. destruct full; reflexivity.
Qed.

Lemma conv_params_nd_sc b m n s full st :
  axes full m n s -> n <> [] -> st_ok st s (length n) ->
  conv_params (b ++ m) n full st false = Ok (b, 1, Pv full m n s).
Proof.
  intros Hax Hne Hst. destruct (axes_len full m n s Hax) as [Lm Ls].
  rewrite (conv_params_shape_sc b m n s full st Lm Ls Hne Hst).
  destruct full eqn:Ef; [reflexivity|].
  rewrite (anylt_false false m n s Hax eq_refl), andb_false_r. reflexivity.
Qed.

(* 'valid' mode with the filter longer than the data on some axis: a non-positive output length *)
Lemma nonpos_P m : forall n s, length m = length n -> length s = length n -> Forall (fun k => 0 < k) s ->
  existsb (fun p => fst p <? snd p) (combine m n) = true -> all_pos (zip3 (plen false) m n s) = false.
Proof.
  unfold all_pos. induction m as [|m0 m IH]; intros [|n0 n] [|s0 s] Lm Ls Hs H; simpl in Lm, Ls; try discriminate.
  inversion Hs as [|? ? Hs0 Hs']; subst.
  cbn [combine existsb fst snd] in H. cbn [zip3 forallb].
  apply orb_true_iff in H. destruct H as [H|H].
  - apply Z.ltb_lt in H. replace (0 <? plen false m0 n0 s0) with false; [reflexivity|].
    symmetry. apply Z.ltb_ge. unfold plen.
    assert ((m0 - n0 + 1 + s0 - 1) / s0 < 1); [apply Z.div_lt_upper_bound; lia | lia].
  - rewrite (IH n s) by (try lia; assumption). apply andb_false_r.
Qed.

Section RejectND.
  Variable R : Ops.
  Notation farr := (list Z -> R).

  Lemma valid_longer_filter_gen dsh fsh st mc b co m n s :
    conv_params dsh fsh false st mc =
      (if existsb (fun p => snd p <=? fst p) (combine m n) && existsb (fun p => fst p <? snd p) (combine m n)
       then Err E_conv else Ok (b, co, zip3 (plen false) m n s)) ->
    length m = length n -> length s = length n -> Forall (fun k => 0 < k) s ->
    existsb (fun p => fst p <? snd p) (combine m n) = true ->
    let e := if existsb (fun p => snd p <=? fst p) (combine m n) then E_conv else E_nonpos in
    (forall d f : farr, convolve dsh fsh false st mc d f = Err e) /\
    (forall osh (y f : farr), convolve_data_adjoint osh fsh dsh false st mc y f = Err e) /\
    (forall osh (y d : farr), convolve_filter_adjoint osh dsh fsh false st mc y d = Err e).
  Proof.
    intros Hpar Lm Ls Hs Hlt e. unfold e. rewrite Hlt in Hpar.
    destruct (existsb (fun p => snd p <=? fst p) (combine m n)); cbn [andb] in Hpar.
    - apply params_err_all, Hpar.
    - pose proof (nonpos_P m n s Lm Ls Hs Hlt) as HP.
      repeat split; intros; unfold convolve, convolve_data_adjoint, convolve_filter_adjoint;
        rewrite Hpar; cbn [bind]; rewrite HP; reflexivity.
  Qed.
End RejectND.

(* ====================================================================== Part B: the N-D duality *)
Section Dual.
  Variable R : StarRing.
  Add Ring RringND : (SRth R).
  Local Open Scope sr_scope.
  Notation farr := (list Z -> R).

  Lemma stuff_equiv_gen L s v : (0 < s)%Z ->
    ((v mod s =? 0) && (0 <=? v / s) && (v / s <? (L + s - 1) / s))%Z = ((0 <=? v) && (v <? L) && (v mod s =? 0))%Z.
  Proof.
    intros Hs.
    apply eq_true_iff_eq. rewrite !andb_true_iff, !Z.eqb_eq, !Z.leb_le, !Z.ltb_lt.
    split.
    - intros [[Hm0 Hq0] Hq1].
      assert (E : (v = s * (v / s))%Z) by (apply Z_div_exact_full_2; lia).
      pose proof (Z.mul_div_le (L + s - 1) s Hs) as Hle.
      remember (v / s)%Z as q. remember ((L + s - 1) / s)%Z as pp. split; [split|]; try assumption; nia.
    - intros [[Hv0 Hv1] Hm0].
      assert (E : (v = s * (v / s))%Z) by (apply Z_div_exact_full_2; lia).
      split; [split|]; [assumption | apply Z.div_pos; lia |].
      assert (Hq : (v / s + 1 <= (L + s - 1) / s)%Z).
      { apply Z.div_le_lower_bound; [lia|]. remember (v / s)%Z as q. nia. }
      lia.
  Qed.

  (* one axis: both sides are  sum_p sum_u [u = p s + off - t] H u p *)
  Lemma dual1 L0 s0 m0 off0 t0 (H : Z -> Z -> R) : (0 < s0)%Z ->
    sumZ ((L0 + s0 - 1) / s0) (fun p0 =>
      if (0 <=? p0 * s0 + off0 - t0)%Z && (p0 * s0 + off0 - t0 <? m0)%Z then H (p0 * s0 + off0 - t0)%Z p0 else 0) =
    sumZ m0 (fun u0 =>
      if (0 <=? t0 + u0 - off0)%Z && (t0 + u0 - off0 <? L0)%Z
      then (if ((t0 + u0 - off0) mod s0 =? 0)%Z then H u0 ((t0 + u0 - off0) / s0)%Z else 0) else 0).
  Proof.
    intros Hs.
    transitivity (sumZ ((L0 + s0 - 1) / s0) (fun p0 => sumZ m0 (fun u0 =>
                    if (u0 =? p0 * s0 + off0 - t0)%Z then H u0 p0 else 0))).
    { apply sumZ_ext; intros p0 _. symmetry. apply (sumZ_pick R m0 (p0 * s0 + off0 - t0)%Z (fun u => H u p0)). }
    rewrite sumZ_exchange. apply sumZ_ext; intros u0 _.
    rewrite (sumZ_ext R _ _ (fun p0 => if (p0 * s0 + 0 =? t0 + u0 - off0)%Z then H u0 p0 else 0)).
    2:{ intros p0 _. destruct (Z.eqb_spec u0 (p0 * s0 + off0 - t0)), (Z.eqb_spec (p0 * s0 + 0) (t0 + u0 - off0));
          try reflexivity; exfalso; lia. }
    rewrite (sumZ_affine_single R _ s0 0 (t0 + u0 - off0) (H u0) Hs). rewrite Z.sub_0_r, stuff_equiv_gen by exact Hs.
    destruct ((0 <=? t0 + u0 - off0)%Z && (t0 + u0 - off0 <? L0)%Z), ((t0 + u0 - off0) mod s0 =? 0)%Z; reflexivity.
  Qed.

  Lemma zext_cons m0 m (X : farr) e0 e :
    zext (m0 :: m) X (e0 :: e) = if (0 <=? e0)%Z && (e0 <? m0)%Z then zext m (fun e' => X (e0 :: e')) e else 0.
  Proof. unfold zext. cbn [inboxb]. destruct ((0 <=? e0)%Z && (e0 <? m0)%Z); cbn [andb]; reflexivity. Qed.

  Lemma zero_stuff_cons s0 s (G : farr) v0 v :
    zero_stuff (s0 :: s) G (v0 :: v) =
    if (v0 mod s0 =? 0)%Z then zero_stuff s (fun q => G ((v0 / s0)%Z :: q)) v else 0.
  Proof.
    unfold zero_stuff, vdiv. cbn [combine forallb fst snd zip2]. destruct (v0 mod s0 =? 0)%Z; cbn [andb]; reflexivity.
  Qed.

  Lemma zext_stuff_cons L0 L s0 s (G : farr) v0 v :
    zext (L0 :: L) (zero_stuff (s0 :: s) G) (v0 :: v) =
    if (0 <=? v0)%Z && (v0 <? L0)%Z
    then (if (v0 mod s0 =? 0)%Z then zext L (zero_stuff s (fun q => G ((v0 / s0)%Z :: q))) v else 0) else 0.
  Proof.
    unfold zext. cbn [inboxb]. rewrite zero_stuff_cons.
    destruct ((0 <=? v0)%Z && (v0 <? L0)%Z), (v0 mod s0 =? 0)%Z, (inboxb L v); reflexivity.
  Qed.

  Lemma sumB_if s (c : bool) (f : farr) : sumB s (fun i => if c then f i else 0) = if c then sumB s f else 0.
  Proof. destruct c; [reflexivity| apply sumB_zero]. Qed.

  (* D axes *)
  Lemma dualND L s P : strided L s P -> forall m off t (H : list Z -> list Z -> R),
    length m = length L -> length off = length L -> length t = length L ->
    sumB P (fun p => zext m (fun e => H e p) (vsub (vadd (vmul p s) off) t)) =
    sumB m (fun u => zext L (zero_stuff s (fun q => H u q)) (vsub (vadd t u) off)).
  Proof.
    induction 1 as [|L0 s0 L s Hs0 Hst IH]; intros [|m0 m] [|off0 off] [|t0 t] H Lm Lo Lt;
      simpl in Lm, Lo, Lt; try discriminate.
    - reflexivity.
    - cbn [sumB].
      pose (H1 := fun e0 q0 : Z =>
        sumB m (fun u => zext L (zero_stuff s (fun q => H (e0 :: u) (q0 :: q))) (vsub (vadd t u) off))).
      transitivity (sumZ ((L0 + s0 - 1) / s0) (fun p0 =>
        if (0 <=? p0 * s0 + off0 - t0)%Z && (p0 * s0 + off0 - t0 <? m0)%Z then H1 (p0 * s0 + off0 - t0)%Z p0 else 0)).
      { apply sumZ_ext; intros p0 _. unfold vsub, vadd, vmul. cbn [zip2].
        erewrite sumB_ext by (intros p _; apply zext_cons).
        rewrite sumB_if. destruct (_ && _); [|reflexivity]. unfold H1.
        apply (IH m off t (fun e p => H ((p0 * s0 + off0 - t0)%Z :: e) (p0 :: p))); lia. }
      rewrite (dual1 L0 s0 m0 off0 t0 H1 Hs0).
      apply sumZ_ext; intros u0 _. unfold vsub, vadd. cbn [zip2].
      erewrite sumB_ext by (intros u _; apply zext_stuff_cons).
      unfold H1. destruct (_ && _); [destruct (_ =? _)%Z|]; try reflexivity; symmetry; apply sumB_zero.
  Qed.

  Lemma zext_ext m (X X' : farr) v : (forall e, inbox m e -> X e = X' e) -> zext m X v = zext m X' v.
  Proof. intros H. unfold zext. destruct (inboxb m v) eqn:E; [apply H, inboxb_spec, E | reflexivity]. Qed.

  Lemma vdiv_inbox L s P : strided L s P -> forall v, inbox L v -> inbox P (vdiv v s).
  Proof.
    induction 1 as [|L0 s0 L s Hs0 Hst IH]; intros [|v0 v]; simpl; try tauto.
    intros [Hv0 Hv]. split; [|apply IH; exact Hv].
    split; [apply Z.div_pos; lia|].
    replace (L0 + s0 - 1)%Z with ((L0 - 1) + 1 * s0)%Z by ring. rewrite Z.div_add by lia.
    assert (v0 / s0 <= (L0 - 1) / s0)%Z by (apply Z.div_le_mono; lia). lia.
  Qed.

  Lemma zext_stuff_ext L s P (G G' : farr) v : strided L s P -> (forall q, inbox P q -> G q = G' q) ->
    zext L (zero_stuff s G) v = zext L (zero_stuff s G') v.
  Proof.
    intros Hst H. apply zext_ext. intros e He. unfold zero_stuff.
    destruct (forallb _ _); [apply H, (vdiv_inbox L s P Hst), He | reflexivity].
  Qed.

  Lemma zext_scale_r m (X : farr) c v : zext m (fun e => X e * c) v = zext m X v * c.
  Proof. unfold zext. destruct (inboxb m v); ring. Qed.

  Lemma zext_stuff_scale L s a (G : farr) v :
    zext L (zero_stuff s (fun q => a * G q)) v = a * zext L (zero_stuff s G) v.
  Proof. unfold zext, zero_stuff. destruct (inboxb L v); [destruct (forallb _ _)|]; ring. Qed.

  Lemma zext_stuff_conj L s (G : farr) v :
    conj (zext L (zero_stuff s G) v) = zext L (zero_stuff s (fun q => conj (G q))) v.
  Proof. unfold zext, zero_stuff. destruct (inboxb L v); [destruct (forallb _ _)|]; try reflexivity; apply conj_zero. Qed.

  Lemma vadd_comm a b : vadd a b = vadd b a.
  Proof.
    unfold vadd. revert b; induction a as [|x a IH]; intros [|y b]; cbn [zip2]; try reflexivity.
    rewrite IH. f_equal. apply Z.add_comm.
  Qed.

  (* the form used by both adjoints: X a data slice (zero-extended), Y an output slice (zero-stuffed) *)
  Lemma dual_conv L s P m off t (X Y : farr) : strided L s P ->
    length m = length L -> length off = length L -> length t = length L ->
    sumB P (fun p => zext m X (vsub (vadd (vmul p s) off) t) * conj (Y p)) =
    sumB m (fun u => X u * conj (zext L (zero_stuff s Y) (vsub (vadd t u) off))).
  Proof.
    intros Hst Lm Lo Lt.
    transitivity (sumB P (fun p => zext m (fun e => X e * conj (Y p)) (vsub (vadd (vmul p s) off) t))).
    { apply sumB_ext; intros p _. symmetry. apply zext_scale_r. }
    rewrite (dualND L s P Hst m off t (fun e p => X e * conj (Y p)) Lm Lo Lt).
    apply sumB_ext; intros u _. rewrite zext_stuff_scale, zext_stuff_conj. reflexivity.
  Qed.
End Dual.

(* ====================================================================== Part C: reshape, sum shuffles *)
Lemma div_mod_lin q d r : 0 <= r < d -> (q * d + r) / d = q /\ (q * d + r) mod d = r.
Proof.
  intros H. split.
  - rewrite Z.add_comm, Z.div_add by lia. rewrite Z.div_small by lia. lia.
  - rewrite Z.add_comm, Z.mod_add by lia. apply Z.mod_small. lia.
Qed.

Section Reshape2.
  Variable R : StarRing.
  Add Ring RringND1 : (SRth R).
  Local Open Scope sr_scope.
  Notation farr := (list Z -> R).
  Notation pos := (Forall (fun k => (0 < k)%Z)).

  (* numpy reshape between  b ++ c ++ r  and  prod(b) :: prod(c) :: r *)
  Lemma reshape_in2 b c r (x : farr) k i ri :
    pos b -> pos c -> pos r -> (0 <= k < prodZ b)%Z -> (0 <= i < prodZ c)%Z -> inbox r ri ->
    reshape (b ++ c ++ r) (prodZ b :: prodZ c :: r) x (k :: i :: ri) = x (unravel b k ++ unravel c i ++ ri).
  Proof.
    intros Hb Hc Hr Hk Hi Hri. unfold reshape. f_equal.
    destruct (ravel_unravel c i Hc Hi) as [E1 E2].
    replace (ravel (prodZ b :: prodZ c :: r) (k :: i :: ri))
      with (k * prodZ (c ++ r) + ravel (c ++ r) (unravel c i ++ ri))%Z.
    2:{ cbn [ravel prodZ]. rewrite ravel_app by (apply inbox_length; exact E2). rewrite E1, prodZ_app. ring. }
    apply unravel_app; [exact Hb | apply Forall_app; split; assumption | exact Hk | apply inbox_app; assumption].
  Qed.

  Lemma reshape_out2 b c r (y : farr) bi cidx ri :
    pos c -> pos r -> inbox b bi -> inbox c cidx -> inbox r ri ->
    reshape (prodZ b :: prodZ c :: r) (b ++ c ++ r) y (bi ++ cidx ++ ri) = y (ravel b bi :: ravel c cidx :: ri).
  Proof.
    intros Hc Hr Hbi Hci Hri. unfold reshape. f_equal.
    rewrite ravel_app by (apply inbox_length; exact Hbi). rewrite ravel_app by (apply inbox_length; exact Hci).
    pose proof (prodZ_pos r Hr) as Pr. pose proof (prodZ_pos c Hc) as Pc.
    pose proof (ravel_bound r ri Hri) as Br. pose proof (ravel_bound c cidx Hci) as Bc.
    rewrite prodZ_app. cbn [unravel prodZ].
    destruct (div_mod_lin (ravel b bi) (prodZ c * prodZ r) (ravel c cidx * prodZ r + ravel r ri) ltac:(nia)) as [E1 E2].
    rewrite E1, E2.
    destruct (div_mod_lin (ravel c cidx) (prodZ r) (ravel r ri) Br) as [E3 E4].
    rewrite E3, E4. rewrite unravel_ravel by exact Hri. reflexivity.
  Qed.

  (* sum shuffles *)
  Lemma fwd_shuffle cI n P (Zt : list Z -> list Z -> list Z -> R) (F : list Z -> list Z -> R) (G : farr) :
    sumB P (fun p => sumB cI (fun i => sumB n (fun t => Zt i p t * F i t)) * G p) =
    sumB cI (fun i => sumB n (fun t => F i t * sumB P (fun p => Zt i p t * G p))).
  Proof.
    transitivity (sumB P (fun p => sumB cI (fun i => sumB n (fun t => F i t * (Zt i p t * G p))))).
    { apply sumB_ext; intros p _. rewrite sumB_scale_r. apply sumB_ext; intros i _.
      rewrite sumB_scale_r. apply sumB_ext; intros t _. ring. }
    rewrite sumB_exchange. apply sumB_ext; intros i _. rewrite sumB_exchange. apply sumB_ext; intros t _.
    apply sumB_scale.
  Qed.

  Lemma bwd_shuffle cO n m (S_ : list Z -> list Z -> list Z -> R) (F : list Z -> list Z -> R) (X : farr) :
    sumB m (fun u => X u * conj (sumB cO (fun c => sumB n (fun t => S_ c t u * conj (F c t))))) =
    sumB cO (fun c => sumB n (fun t => F c t * sumB m (fun u => X u * conj (S_ c t u)))).
  Proof.
    transitivity (sumB m (fun u => sumB cO (fun c => sumB n (fun t => F c t * (X u * conj (S_ c t u)))))).
    { apply sumB_ext; intros u _. rewrite sumB_conj, <- sumB_scale. apply sumB_ext; intros c _.
      rewrite sumB_conj, <- sumB_scale. apply sumB_ext; intros t _. rewrite conj_mul, conj_invol. ring. }
    rewrite sumB_exchange. apply sumB_ext; intros c _. rewrite sumB_exchange. apply sumB_ext; intros t _.
    apply sumB_scale.
  Qed.

  Lemma sumB_rot4 a b c d (f : list Z -> list Z -> list Z -> list Z -> R) :
    sumB a (fun i => sumB b (fun j => sumB c (fun k => sumB d (fun l => f i j k l)))) =
    sumB b (fun j => sumB c (fun k => sumB d (fun l => sumB a (fun i => f i j k l)))).
  Proof.
    rewrite sumB_exchange. apply sumB_ext; intros j _.
    rewrite sumB_exchange. apply sumB_ext; intros k _. apply sumB_exchange.
  Qed.
End Reshape2.

(* ====================================================================== Part D: the three functions *)
Lemma axes_pos_m full m n s : axes full m n s -> Forall (fun k => 0 < k) m.
Proof. induction 1; constructor; assumption. Qed.
Lemma axes_pos_n full m n s : axes full m n s -> Forall (fun k => 0 < k) n.
Proof. induction 1; constructor; assumption. Qed.

(* What the generic development needs to know about the call
       convolve dsh fsh full st mc   (data shape b ++ cI ++ m, filter shape cO ++ cI ++ n):
   cI / cO are the channel axes ([ci] / [co] for multi_channel, [] otherwise). *)
Definition conv_setup (dsh fsh : list Z) (st : option (list Z)) (mc : bool)
           (b cI cO m n s : list Z) (full : bool) : Prop :=
  dsh = b ++ cI ++ m /\ fsh = cO ++ cI ++ n /\
  conv_params dsh fsh full st mc = Ok (b, prodZ cO, Pv full m n s) /\
  lastn (cv_D fsh mc) dsh = m /\ lastn (cv_D fsh mc) fsh = n /\ cv_s (cv_D fsh mc) st = s /\
  cv_ci fsh (cv_D fsh mc) mc = prodZ cI /\
  (if mc then b ++ [prodZ cO] ++ Pv full m n s else b ++ Pv full m n s) = b ++ cO ++ Pv full m n s.

Section ND.
  Variable R : StarRing.
  Add Ring RringND2 : (SRth R).
  Local Open Scope sr_scope.
  Notation farr := (list Z -> R).
  Notation pos := (Forall (fun k => (0 < k)%Z)).
  Variables (dsh fsh : list Z) (st : option (list Z)) (mc : bool) (b cI cO m n s : list Z) (full : bool).
  Hypothesis Hb : pos b.
  Hypothesis HcI : pos cI.
  Hypothesis HcO : pos cO.
  Hypothesis Hax : axes full m n s.
  Hypothesis Hset : conv_setup dsh fsh st mc b cI cO m n s full.
  Notation P := (Pv full m n s).
  Notation L := (Lv full m n).
  Notation off := (offv full m n).
  Notation B := (prodZ b).
  Notation CI := (prodZ cI).
  Notation CO := (prodZ cO).
  Notation osh := (b ++ cO ++ P).

  Let Hm : pos m := axes_pos_m full m n s Hax.
  Let Hn : pos n := axes_pos_n full m n s Hax.
  Let HP : pos P := Pv_pos full m n s Hax.
  Let Hstr : strided L s P := strided_ax full m n s Hax.

  Lemma len_facts : length m = length L /\ length off = length L /\ length n = length L.
  Proof.
    destruct (axes_len full m n s Hax) as [E1 E2].
    rewrite (Lv_len full m n s Hax), (offv_len full m n s Hax). auto.
  Qed.

  (* ---------------- convolve ---------------- *)
  Definition conv_out2 (data filt : farr) : farr :=
    let data2 := reshape dsh (B :: CI :: m) data in
    let filt2 := reshape fsh (CO :: CI :: n) filt in
    fun idx => match idx with
      | k :: j :: x => sumL (zrange 0 CI 1) (fun i =>
                        sp_convolve_val full m n (sub2 data2 k i) (sub2 filt2 j i) (vmul x s))
      | _ => 0 end.

  Lemma convolve_nd_eval (data filt : farr) :
    convolve dsh fsh full st mc data filt = Ok (osh, reshape (B :: CO :: P) osh (conv_out2 data filt)).
  Proof.
    destruct Hset as (Ed & Ef & Hpar & Em & En & Es & Eci & Eosh).
    unfold convolve. rewrite Hpar. cbn [bind]. rewrite Em, En, Es, Eci.
    rewrite (Pv_all_pos full m n s Hax). cbn [negb]. cbv iota.
    rewrite (sp_shape_nd full m n s Hax), (strided_nd full m n s Hax), zlist_eqb_refl. cbn [negb]. cbv iota.
    rewrite Eosh. reflexivity.
  Qed.

  (* the convolution sum: out[b, c, p] = sum_i sum_{t in box n} data0[b, i, p*s + off - t] * filt[c, i, t] *)
  Definition conv_closed (data filt : farr) (bi c p : list Z) : R :=
    sumB cI (fun i => sumB n (fun t =>
      zext m (fun u => data (bi ++ i ++ u)) (vsub (vadd (vmul p s) off) t) * filt (c ++ i ++ t))).

  Lemma data2_at (data : farr) bi i u : inbox b bi -> (0 <= i < CI)%Z -> inbox m u ->
    reshape dsh (B :: CI :: m) data (ravel b bi :: i :: u) = data (bi ++ unravel cI i ++ u).
  Proof.
    intros Hbi Hi Hu. destruct Hset as (Ed & _). rewrite Ed.
    rewrite (reshape_in2 R b cI m data (ravel b bi) i u); try assumption; [|apply ravel_bound, Hbi].
    rewrite unravel_ravel by exact Hbi. reflexivity.
  Qed.

  Lemma filt2_at (filt : farr) c i t : inbox cO c -> (0 <= i < CI)%Z -> inbox n t ->
    reshape fsh (CO :: CI :: n) filt (ravel cO c :: i :: t) = filt (c ++ unravel cI i ++ t).
  Proof.
    intros Hc Hi Ht. destruct Hset as (_ & Ef & _). rewrite Ef.
    rewrite (reshape_in2 R cO cI n filt (ravel cO c) i t); try assumption; [|apply ravel_bound, Hc].
    rewrite unravel_ravel by exact Hc. reflexivity.
  Qed.

  Lemma out2_at (y : farr) bi j q : inbox b bi -> (0 <= j < CO)%Z -> inbox P q ->
    reshape osh (B :: CO :: P) y (ravel b bi :: j :: q) = y (bi ++ unravel cO j ++ q).
  Proof.
    intros Hbi Hj Hq.
    rewrite (reshape_in2 R b cO P y (ravel b bi) j q); try assumption; [|apply ravel_bound, Hbi].
    rewrite unravel_ravel by exact Hbi. reflexivity.
  Qed.

  Lemma conv_nd_value (data filt : farr) bi c p : inbox b bi -> inbox cO c -> inbox P p ->
    reshape (B :: CO :: P) osh (conv_out2 data filt) (bi ++ c ++ p) = conv_closed data filt bi c p.
  Proof.
    intros Hbi Hc Hp.
    rewrite (reshape_out2 R b cO P) by assumption.
    unfold conv_out2, conv_closed. rewrite sumL_range0.
    rewrite <- (sum_unravel R cI (fun i => sumB n (fun t =>
      zext m (fun u => data (bi ++ i ++ u)) (vsub (vadd (vmul p s) off) t) * filt (c ++ i ++ t))) HcI).
    apply sumZ_ext; intros i Hi.
    unfold sp_convolve_val. rewrite osumB_sumB. rewrite (sp_conv_off_nd full m n s Hax).
    apply sumB_ext; intros t Ht. f_equal.
    - apply zext_ext. intros u Hu. unfold sub2. apply data2_at; assumption.
    - unfold sub2. apply filt2_at; assumption.
  Qed.

  (* ---------------- convolve_data_adjoint ---------------- *)
  Lemma prod_osh : (prodZ osh =? B * CO * prodZ P)%Z = true.
  Proof. apply Z.eqb_eq. rewrite !prodZ_app. ring. Qed.

  Definition dadj_out2 (y filt : farr) : farr :=
    let output2 := reshape osh (B :: CO :: P) y in
    let filt2 := reshape fsh (CO :: CI :: n) filt in
    fun idx => match idx with
      | k :: i :: x => sumL (zrange 0 CO 1) (fun j =>
            sp_correlate_val (negb full) L n (zero_stuff s (sub2 output2 k j)) (sub2 filt2 j i) x)
      | _ => 0 end.

  Lemma data_adjoint_nd_eval (y filt : farr) :
    convolve_data_adjoint osh fsh dsh full st mc y filt =
    Ok (dsh, reshape (B :: CI :: m) dsh (dadj_out2 y filt)).
  Proof.
    destruct Hset as (Ed & Ef & Hpar & Em & En & Es & Eci & Eosh).
    unfold convolve_data_adjoint. rewrite Hpar. cbn [bind]. rewrite Em, En, Es, Eci.
    rewrite (Pv_all_pos full m n s Hax). cbn [negb]. cbv iota.
    rewrite prod_osh. cbn [negb]. cbv iota.
    rewrite (cv_L_nd full m n), (data_amode_nd full m n s Hax).
    rewrite (strided_nd full m n s Hax), zlist_eqb_refl. cbn [negb]. cbv iota.
    rewrite (sp_shape_dadj_nd full m n s Hax), zlist_eqb_refl. cbn [negb]. cbv iota.
    reflexivity.
  Qed.

  Definition dadj_closed (y filt : farr) (bi i u : list Z) : R :=
    sumB cO (fun c => sumB n (fun t =>
      zext L (zero_stuff s (fun q => y (bi ++ c ++ q))) (vsub (vadd t u) off) * conj (filt (c ++ i ++ t)))).

  Lemma data_adjoint_nd_value (y filt : farr) bi i u : inbox b bi -> inbox cI i -> inbox m u ->
    reshape (B :: CI :: m) dsh (dadj_out2 y filt) (bi ++ i ++ u) = dadj_closed y filt bi i u.
  Proof.
    intros Hbi Hi Hu. destruct Hset as (Ed & Ef & _). rewrite Ed at 1.
    rewrite (reshape_out2 R b cI m) by assumption.
    unfold dadj_out2, dadj_closed. rewrite sumL_range0.
    rewrite <- (sum_unravel R cO (fun c => sumB n (fun t =>
      zext L (zero_stuff s (fun q => y (bi ++ c ++ q))) (vsub (vadd t u) off) * conj (filt (c ++ i ++ t)))) HcO).
    apply sumZ_ext; intros j Hj.
    unfold sp_correlate_val. rewrite osumB_sumB. rewrite (corr_shift_dadj_nd full m n s Hax).
    apply sumB_ext; intros t Ht. f_equal.
    - apply (zext_stuff_ext R L s P); [exact Hstr|]. intros q Hq. unfold sub2. apply out2_at; assumption.
    - f_equal. unfold sub2.
      destruct (ravel_unravel cO j HcO Hj) as [E1 E2]. rewrite <- E1 at 1.
      rewrite filt2_at; [| exact E2 | apply ravel_bound, Hi | exact Ht].
      rewrite unravel_ravel by exact Hi. reflexivity.
  Qed.

  (* <convolve(x, filt), y> = <x, convolve_data_adjoint(y, filt)> *)
  Theorem data_adjoint_nd (filt x y : farr) :
    inner osh (reshape (B :: CO :: P) osh (conv_out2 x filt)) y =
    inner (b ++ cI ++ m) x (reshape (B :: CI :: m) dsh (dadj_out2 y filt)).
  Proof.
    destruct len_facts as (Lm & Lo & Ln).
    unfold inner. rewrite !sumB_app. apply sumB_ext; intros bi Hbi. rewrite !sumB_app.
    transitivity (sumB cO (fun c => sumB cI (fun i => sumB n (fun t => filt (c ++ i ++ t) *
      sumB P (fun p => zext m (fun u => x (bi ++ i ++ u)) (vsub (vadd (vmul p s) off) t) * conj (y (bi ++ c ++ p))))))).
    { apply sumB_ext; intros c Hc.
      rewrite <- (fwd_shuffle R cI n P
        (fun i p t => zext m (fun u => x (bi ++ i ++ u)) (vsub (vadd (vmul p s) off) t))
        (fun i t => filt (c ++ i ++ t)) (fun p => conj (y (bi ++ c ++ p)))).
      apply sumB_ext; intros p Hp. rewrite conv_nd_value by assumption. reflexivity. }
    transitivity (sumB cI (fun i => sumB cO (fun c => sumB n (fun t => filt (c ++ i ++ t) *
      sumB m (fun u => x (bi ++ i ++ u) *
        conj (zext L (zero_stuff s (fun q => y (bi ++ c ++ q))) (vsub (vadd t u) off))))))).
    { rewrite sumB_exchange. apply sumB_ext; intros i Hi. apply sumB_ext; intros c Hc. apply sumB_ext; intros t Ht.
      f_equal. apply (dual_conv R L s P m off t); try assumption.
      rewrite (inbox_length n t Ht). exact Ln. }
    apply sumB_ext; intros i Hi.
    rewrite <- (bwd_shuffle R cO n m
      (fun c t u => zext L (zero_stuff s (fun q => y (bi ++ c ++ q))) (vsub (vadd t u) off))
      (fun c t => filt (c ++ i ++ t)) (fun u => x (bi ++ i ++ u))).
    apply sumB_ext; intros u Hu. rewrite data_adjoint_nd_value by assumption. reflexivity.
  Qed.

  (* ---------------- convolve_filter_adjoint ---------------- *)
  Definition fadj_out2 (y data : farr) : farr :=
    let data2 := reshape dsh (B :: CI :: m) data in
    let output2 := reshape osh (B :: CO :: P) y in
    fun idx => match idx with
      | j :: i :: t => sumL (zrange 0 B 1) (fun k =>
            sp_correlate_val false L m (zero_stuff s (sub2 output2 k j)) (sub2 data2 k i) t)
      | _ => 0 end.

  Lemma filter_adjoint_nd_eval (y data : farr) :
    convolve_filter_adjoint osh dsh fsh full st mc y data =
    Ok (fsh, reshape (CO :: CI :: n) fsh (fadj_out2 y data)).
  Proof.
    destruct Hset as (Ed & Ef & Hpar & Em & En & Es & Eci & Eosh).
    unfold convolve_filter_adjoint. rewrite Hpar. cbn [bind]. rewrite Em, En, Es, Eci.
    rewrite (Pv_all_pos full m n s Hax). cbn [negb]. cbv iota.
    rewrite prod_osh. cbn [negb]. cbv iota.
    rewrite (cv_L_nd full m n), (filt_amode_nd full m n s Hax).
    rewrite (strided_nd full m n s Hax), zlist_eqb_refl. cbn [negb]. cbv iota.
    rewrite (sp_shape_fadj_nd full m n s Hax), zlist_eqb_refl. cbn [negb]. cbv iota.
    reflexivity.
  Qed.

  Definition fadj_closed (y data : farr) (c i t : list Z) : R :=
    sumB b (fun bi => sumB m (fun l =>
      zext L (zero_stuff s (fun q => y (bi ++ c ++ q))) (vsub (vadd l t) off) * conj (data (bi ++ i ++ l)))).

  Lemma filter_adjoint_nd_value (y data : farr) c i t : inbox cO c -> inbox cI i -> inbox n t ->
    reshape (CO :: CI :: n) fsh (fadj_out2 y data) (c ++ i ++ t) = fadj_closed y data c i t.
  Proof.
    intros Hc Hi Ht. destruct Hset as (Ed & Ef & _). rewrite Ef at 1.
    rewrite (reshape_out2 R cO cI n) by assumption.
    unfold fadj_out2, fadj_closed. rewrite sumL_range0.
    rewrite <- (sum_unravel R b (fun bi => sumB m (fun l =>
      zext L (zero_stuff s (fun q => y (bi ++ c ++ q))) (vsub (vadd l t) off) * conj (data (bi ++ i ++ l)))) Hb).
    apply sumZ_ext; intros k Hk.
    unfold sp_correlate_val. rewrite osumB_sumB. rewrite (corr_shift_fadj_nd full m n s Hax).
    destruct (ravel_unravel b k Hb Hk) as [E1 E2].
    apply sumB_ext; intros l Hl. f_equal.
    - apply (zext_stuff_ext R L s P); [exact Hstr|]. intros q Hq. unfold sub2.
      rewrite <- E1 at 1. rewrite out2_at; [| exact E2 | apply ravel_bound, Hc | exact Hq].
      rewrite unravel_ravel by exact Hc. reflexivity.
    - f_equal. unfold sub2. rewrite <- E1 at 1.
      rewrite data2_at; [| exact E2 | apply ravel_bound, Hi | exact Hl].
      rewrite unravel_ravel by exact Hi. reflexivity.
  Qed.

  (* <convolve(data, f), y> = <f, convolve_filter_adjoint(y, data)> *)
  Theorem filter_adjoint_nd (data f y : farr) :
    inner osh (reshape (B :: CO :: P) osh (conv_out2 data f)) y =
    inner (cO ++ cI ++ n) f (reshape (CO :: CI :: n) fsh (fadj_out2 y data)).
  Proof.
    destruct len_facts as (Lm & Lo & Ln).
    transitivity (sumB b (fun bi => sumB cO (fun c => sumB cI (fun i => sumB n (fun t => f (c ++ i ++ t) *
      sumB P (fun p => zext m (fun u => data (bi ++ i ++ u)) (vsub (vadd (vmul p s) off) t) * conj (y (bi ++ c ++ p)))))))).
    { unfold inner. rewrite sumB_app. apply sumB_ext; intros bi Hbi. rewrite sumB_app.
      apply sumB_ext; intros c Hc.
      rewrite <- (fwd_shuffle R cI n P
        (fun i p t => zext m (fun u => data (bi ++ i ++ u)) (vsub (vadd (vmul p s) off) t))
        (fun i t => f (c ++ i ++ t)) (fun p => conj (y (bi ++ c ++ p)))).
      apply sumB_ext; intros p Hp. rewrite conv_nd_value by assumption. reflexivity. }
    rewrite sumB_rot4. unfold inner. rewrite !sumB_app. apply sumB_ext; intros c Hc. rewrite !sumB_app.
    apply sumB_ext; intros i Hi. apply sumB_ext; intros t Ht.
    rewrite filter_adjoint_nd_value by assumption. rewrite sumB_scale. f_equal.
    unfold fadj_closed. rewrite sumB_conj. apply sumB_ext; intros bi Hbi.
    rewrite (dual_conv R L s P m off t); try assumption.
    2:{ rewrite (inbox_length n t Ht). exact Ln. }
    rewrite sumB_conj. apply sumB_ext; intros l Hl.
    rewrite conj_mul, conj_invol, (vadd_comm l t). ring.
  Qed.
End ND.

(* ====================================================================== Part E: the two calling conventions *)
Lemma setup_mc b ci co m n s full st :
  axes full m n s -> n <> [] -> st_ok st s (length n) ->
  conv_setup (b ++ [ci] ++ m) ([co; ci] ++ n) st true b [ci] [co] m n s full.
Proof.
  intros Hax Hne Hst. destruct (axes_len full m n s Hax) as [Lm Ls].
  change (b ++ [ci] ++ m) with (b ++ ci :: m). change ([co; ci] ++ n) with (co :: ci :: n).
  assert (ED : cv_D (co :: ci :: n) true = length n) by (unfold cv_D; cbn [length]; lia).
  unfold conv_setup. rewrite ED. cbn [prodZ]. rewrite !Z.mul_1_r.
  repeat split.
  - apply conv_params_nd_mc; assumption.
  - rewrite <- Lm. replace (b ++ ci :: m) with ((b ++ [ci]) ++ m) by (rewrite <- app_assoc; reflexivity). apply lastn_app.
  - apply (lastn_app [co; ci] n).
  - apply cv_s_ok, Hst.
  - unfold cv_ci. apply (pyget_from_end [co] ci n).
Qed.

Lemma setup_sc b m n s full st :
  axes full m n s -> n <> [] -> st_ok st s (length n) ->
  conv_setup (b ++ m) n st false b [] [] m n s full.
Proof.
  intros Hax Hne Hst. destruct (axes_len full m n s Hax) as [Lm Ls].
  assert (ED : cv_D n false = length n) by (unfold cv_D; lia).
  unfold conv_setup. rewrite ED. cbn [prodZ app].
  repeat split.
  - apply conv_params_nd_sc; assumption.
  - rewrite <- Lm. apply lastn_app.
  - apply (lastn_app [] n).
  - apply cv_s_ok, Hst.
Qed.

Definition stride_arg (st : option (list Z)) (s : list Z) (D : nat) : Prop :=
  st = Some s \/ (st = None /\ s = repeat 1 D).

Section Final.
  Variable R : StarRing.
  Notation farr := (list Z -> R).
  Notation pos := (Forall (fun k => 0 < k)).
  Variables (b m n s : list Z) (full : bool) (st : option (list Z)).
  Hypothesis Hb : pos b.
  Hypothesis Hne : m <> [].
  Hypothesis Ln : length n = length m.
  Hypothesis Ls : length s = length m.
  Hypothesis Hm : pos m.
  Hypothesis Hn : pos n.
  Hypothesis Hs : pos s.
  Hypothesis Hv : full = false -> Forall2 Z.le n m.
  Hypothesis Hst : stride_arg st s (length m).

  Let Hax : axes full m n s := axes_of_lists full m n s Ln Ls Hm Hn Hs Hv.
  Let Hne' : n <> [].
  Proof.
    clear Hax. intros E. apply Hne. destruct m; [reflexivity|].
    pose proof Ln as Ln'. rewrite E in Ln'. discriminate Ln'.
  Qed.
  Let Hst' : st_ok st s (length n).
  Proof. rewrite Ln. exact Hst. Qed.

  Notation P := (zip3 (fun md nd sd => if full then (md + nd - 1 + sd - 1) / sd else (md - nd + 1 + sd - 1) / sd) m n s).
  Notation off := (zip2 (fun md nd => if full then 0 else Z.min md nd - 1) m n).

  (* ---- multi_channel = True ---- *)
  Section MC.
    Variables (ci co : Z).
    Hypothesis Hci : 0 < ci.
    Hypothesis Hco : 0 < co.
    Let HcI : pos [ci]. Proof. repeat constructor; assumption. Qed.
    Let HcO : pos [co]. Proof. repeat constructor; assumption. Qed.
    Let Hset := setup_mc b ci co m n s full st Hax Hne' Hst'.

    Theorem convolve_nd_mc (data filt : farr) :
      exists y,
        convolve (b ++ [ci] ++ m) ([co; ci] ++ n) full st true data filt = Ok (b ++ [co] ++ P, y) /\
        forall bi c p, inbox b bi -> 0 <= c < co -> inbox P p ->
          y (bi ++ [c] ++ p) =
          sumZ ci (fun i => sumB n (fun t =>
            let src := vsub (vadd (vmul p s) off) t in
            mul (if inboxb m src then data (bi ++ [i] ++ src) else zero) (filt ([c; i] ++ t)))).
    Proof.
      eexists. split.
      - exact (convolve_nd_eval R _ _ st true b [ci] [co] m n s full Hax Hset data filt).
      - intros bi c p Hbi Hc Hp.
        assert (Hc' : inbox [co] [c]) by (simpl; auto).
        exact (conv_nd_value R _ _ st true b [ci] [co] m n s full Hb HcI HcO Hax Hset data filt bi [c] p Hbi Hc' Hp).
    Qed.

    Theorem data_adjoint_nd_mc (filt : farr) :
      exists A AH : farr -> farr,
        (forall x, convolve (b ++ [ci] ++ m) ([co; ci] ++ n) full st true x filt = Ok (b ++ [co] ++ P, A x)) /\
        (forall y, convolve_data_adjoint (b ++ [co] ++ P) ([co; ci] ++ n) (b ++ [ci] ++ m) full st true y filt
                   = Ok (b ++ [ci] ++ m, AH y)) /\
        forall x y, inner (b ++ [co] ++ P) (A x) y = inner (b ++ [ci] ++ m) x (AH y).
    Proof.
      eexists. eexists. split; [|split].
      - intros x. exact (convolve_nd_eval R _ _ st true b [ci] [co] m n s full Hax Hset x filt).
      - intros y. exact (data_adjoint_nd_eval R _ _ st true b [ci] [co] m n s full Hax Hset y filt).
      - intros x y. exact (data_adjoint_nd R _ _ st true b [ci] [co] m n s full Hb HcI HcO Hax Hset filt x y).
    Qed.

    Theorem filter_adjoint_nd_mc (data : farr) :
      exists A AH : farr -> farr,
        (forall f, convolve (b ++ [ci] ++ m) ([co; ci] ++ n) full st true data f = Ok (b ++ [co] ++ P, A f)) /\
        (forall y, convolve_filter_adjoint (b ++ [co] ++ P) (b ++ [ci] ++ m) ([co; ci] ++ n) full st true y data
                   = Ok ([co; ci] ++ n, AH y)) /\
        forall f y, inner (b ++ [co] ++ P) (A f) y = inner ([co; ci] ++ n) f (AH y).
    Proof.
      eexists. eexists. split; [|split].
      - intros f. exact (convolve_nd_eval R _ _ st true b [ci] [co] m n s full Hax Hset data f).
      - intros y. exact (filter_adjoint_nd_eval R _ _ st true b [ci] [co] m n s full Hax Hset y data).
      - intros f y. exact (filter_adjoint_nd R _ _ st true b [ci] [co] m n s full Hb HcI HcO Hax Hset data f y).
    Qed.
    (* both adjoints in one statement *)
    Theorem adjoints_nd_mc :
      exists A AHd AHf : farr -> farr -> farr,
        (forall x f, convolve (b ++ [ci] ++ m) ([co; ci] ++ n) full st true x f = Ok (b ++ [co] ++ P, A x f)) /\
        (forall y f, convolve_data_adjoint (b ++ [co] ++ P) ([co; ci] ++ n) (b ++ [ci] ++ m) full st true y f
                     = Ok (b ++ [ci] ++ m, AHd y f)) /\
        (forall y x, convolve_filter_adjoint (b ++ [co] ++ P) (b ++ [ci] ++ m) ([co; ci] ++ n) full st true y x
                     = Ok ([co; ci] ++ n, AHf y x)) /\
        (forall x f y, inner (b ++ [co] ++ P) (A x f) y = inner (b ++ [ci] ++ m) x (AHd y f)) /\
        (forall x f y, inner (b ++ [co] ++ P) (A x f) y = inner ([co; ci] ++ n) f (AHf y x)).
    Proof.
      eexists. eexists. eexists. split; [|split; [|split; [|split]]].
      - intros x f. exact (convolve_nd_eval R _ _ st true b [ci] [co] m n s full Hax Hset x f).
      - intros y f. exact (data_adjoint_nd_eval R _ _ st true b [ci] [co] m n s full Hax Hset y f).
      - intros y x. exact (filter_adjoint_nd_eval R _ _ st true b [ci] [co] m n s full Hax Hset y x).
      - intros x f y. exact (data_adjoint_nd R _ _ st true b [ci] [co] m n s full Hb HcI HcO Hax Hset f x y).
      - intros x f y. exact (filter_adjoint_nd R _ _ st true b [ci] [co] m n s full Hb HcI HcO Hax Hset x f y).
    Qed.
  End MC.

  (* ---- multi_channel = False ---- *)
  Let HcN : pos []. Proof. constructor. Qed.
  Let Hset0 := setup_sc b m n s full st Hax Hne' Hst'.

  Theorem convolve_nd_sc (data filt : farr) :
    exists y,
      convolve (b ++ m) n full st false data filt = Ok (b ++ P, y) /\
      forall bi p, inbox b bi -> inbox P p ->
        y (bi ++ p) =
        sumB n (fun t =>
          let src := vsub (vadd (vmul p s) off) t in
          mul (if inboxb m src then data (bi ++ src) else zero) (filt t)).
  Proof.
    eexists. split.
    - exact (convolve_nd_eval R _ _ st false b [] [] m n s full Hax Hset0 data filt).
    - intros bi p Hbi Hp.
      exact (conv_nd_value R _ _ st false b [] [] m n s full Hb HcN HcN Hax Hset0 data filt bi [] p Hbi I Hp).
  Qed.

  Theorem data_adjoint_nd_sc (filt : farr) :
    exists A AH : farr -> farr,
      (forall x, convolve (b ++ m) n full st false x filt = Ok (b ++ P, A x)) /\
      (forall y, convolve_data_adjoint (b ++ P) n (b ++ m) full st false y filt = Ok (b ++ m, AH y)) /\
      forall x y, inner (b ++ P) (A x) y = inner (b ++ m) x (AH y).
  Proof.
    eexists. eexists. split; [|split].
    - intros x. exact (convolve_nd_eval R _ _ st false b [] [] m n s full Hax Hset0 x filt).
    - intros y. exact (data_adjoint_nd_eval R _ _ st false b [] [] m n s full Hax Hset0 y filt).
    - intros x y. exact (data_adjoint_nd R _ _ st false b [] [] m n s full Hb HcN HcN Hax Hset0 filt x y).
  Qed.

  Theorem filter_adjoint_nd_sc (data : farr) :
    exists A AH : farr -> farr,
      (forall f, convolve (b ++ m) n full st false data f = Ok (b ++ P, A f)) /\
      (forall y, convolve_filter_adjoint (b ++ P) (b ++ m) n full st false y data = Ok (n, AH y)) /\
      forall f y, inner (b ++ P) (A f) y = inner n f (AH y).
  Proof.
    eexists. eexists. split; [|split].
    - intros f. exact (convolve_nd_eval R _ _ st false b [] [] m n s full Hax Hset0 data f).
    - intros y. exact (filter_adjoint_nd_eval R _ _ st false b [] [] m n s full Hax Hset0 y data).
    - intros f y. exact (filter_adjoint_nd R _ _ st false b [] [] m n s full Hb HcN HcN Hax Hset0 data f y).
  Qed.
  Theorem adjoints_nd_sc :
    exists A AHd AHf : farr -> farr -> farr,
      (forall x f, convolve (b ++ m) n full st false x f = Ok (b ++ P, A x f)) /\
      (forall y f, convolve_data_adjoint (b ++ P) n (b ++ m) full st false y f = Ok (b ++ m, AHd y f)) /\
      (forall y x, convolve_filter_adjoint (b ++ P) (b ++ m) n full st false y x = Ok (n, AHf y x)) /\
      (forall x f y, inner (b ++ P) (A x f) y = inner (b ++ m) x (AHd y f)) /\
      (forall x f y, inner (b ++ P) (A x f) y = inner n f (AHf y x)).
  Proof.
    eexists. eexists. eexists. split; [|split; [|split; [|split]]].
    - intros x f. exact (convolve_nd_eval R _ _ st false b [] [] m n s full Hax Hset0 x f).
    - intros y f. exact (data_adjoint_nd_eval R _ _ st false b [] [] m n s full Hax Hset0 y f).
    - intros y x. exact (filter_adjoint_nd_eval R _ _ st false b [] [] m n s full Hax Hset0 y x).
    - intros x f y. exact (data_adjoint_nd R _ _ st false b [] [] m n s full Hb HcN HcN Hax Hset0 f x y).
    - intros x f y. exact (filter_adjoint_nd R _ _ st false b [] [] m n s full Hb HcN HcN Hax Hset0 x f y).
  Qed.
End Final.

(* ====================================================================== Part F: explicit D = 1, 2, 3 *)
Ltac ax_hyps :=
  match goal with
  | |- Forall _ _ => repeat constructor; assumption
  | |- _ <> [] => discriminate
  | |- length _ = length _ => reflexivity
  | |- stride_arg _ _ _ => left; reflexivity
  | |- _ = false -> Forall2 _ _ _ =>
      let E := fresh in let HH := fresh in intros E;
      match goal with H : _ = false -> _ |- _ => pose proof (H E) as HH end;
      repeat (apply Forall2_cons; [lia|]); apply Forall2_nil
  end.

Section LowD.
  Variable R : StarRing.
  Notation farr := (list Z -> R).
  Notation pos := (Forall (fun k => 0 < k)).
  Notation PL full m n s := (if full then (m + n - 1 + s - 1) / s else (m - n + 1 + s - 1) / s).
  Notation OF full m n := (if full then 0 else Z.min m n - 1).
  Variables (b : list Z) (full : bool).
  Hypothesis Hb : pos b.

  (* ---- D = 1, multi_channel = False ---- *)
  Theorem convolve_1d_sc m n s : 0 < m -> 0 < n -> 0 < s -> (full = false -> n <= m) ->
    forall data filt : farr,
    let P := PL full m n s in
    let off := OF full m n in
    exists y,
      convolve (b ++ [m]) [n] full (Some [s]) false data filt = Ok (b ++ [P], y) /\
      forall bi p, inbox b bi -> 0 <= p < P ->
        y (bi ++ [p]) =
        sumZ n (fun t =>
          mul (if (0 <=? p * s + off - t) && (p * s + off - t <? m) then data (bi ++ [p * s + off - t]) else zero)
              (filt [t])).
  Proof.
    intros Hm Hn Hs Hv data filt P off.
    assert (HM : pos [m]) by ax_hyps. assert (HN : pos [n]) by ax_hyps. assert (HS : pos [s]) by ax_hyps.
    assert (HV : full = false -> Forall2 Z.le [n] [m]) by ax_hyps.
    destruct (convolve_nd_sc R b [m] [n] [s] full (Some [s]) Hb ltac:(discriminate) eq_refl eq_refl HM HN HS HV (or_introl eq_refl) data filt) as [y [E V]].
    exists y. split; [exact E|]. intros bi p Hbi Hp.
    etransitivity; [exact (V bi [p] Hbi ltac:(simpl; tauto))|]. cbn [sumB]. apply sumZ_ext; intros t _.
    cbv zeta. unfold vsub, vadd, vmul. cbn [zip2 inboxb app]. rewrite andb_true_r. reflexivity.
  Qed.

  Theorem adjoints_1d_sc m n s : 0 < m -> 0 < n -> 0 < s -> (full = false -> n <= m) ->
    let P := PL full m n s in
    exists A AHd AHf : farr -> farr -> farr,
      (forall x f, convolve (b ++ [m]) [n] full (Some [s]) false x f = Ok (b ++ [P], A x f)) /\
      (forall y f, convolve_data_adjoint (b ++ [P]) [n] (b ++ [m]) full (Some [s]) false y f = Ok (b ++ [m], AHd y f)) /\
      (forall y x, convolve_filter_adjoint (b ++ [P]) (b ++ [m]) [n] full (Some [s]) false y x = Ok ([n], AHf y x)) /\
      (forall x f y, inner (b ++ [P]) (A x f) y = inner (b ++ [m]) x (AHd y f)) /\
      (forall x f y, inner (b ++ [P]) (A x f) y = inner [n] f (AHf y x)).
  Proof.
    intros Hm Hn Hs Hv P.
    assert (HM : pos [m]) by ax_hyps. assert (HN : pos [n]) by ax_hyps. assert (HS : pos [s]) by ax_hyps.
    assert (HV : full = false -> Forall2 Z.le [n] [m]) by ax_hyps.
    exact (adjoints_nd_sc R b [m] [n] [s] full (Some [s]) Hb ltac:(discriminate) eq_refl eq_refl HM HN HS HV (or_introl eq_refl)).
  Qed.

  (* ---- D = 2 ---- *)
  Section D2.
    Variables (m1 m2 n1 n2 s1 s2 : Z).
    Hypothesis Hm1 : 0 < m1.  Hypothesis Hm2 : 0 < m2.
    Hypothesis Hn1 : 0 < n1.  Hypothesis Hn2 : 0 < n2.
    Hypothesis Hs1 : 0 < s1.  Hypothesis Hs2 : 0 < s2.
    Hypothesis Hv : full = false -> n1 <= m1 /\ n2 <= m2.
    Notation P1 := (PL full m1 n1 s1).
    Notation P2 := (PL full m2 n2 s2).
    Notation o1 := (OF full m1 n1).
    Notation o2 := (OF full m2 n2).
    Let HM : pos [m1; m2]. Proof. ax_hyps. Qed.
    Let HN : pos [n1; n2]. Proof. ax_hyps. Qed.
    Let HS : pos [s1; s2]. Proof. ax_hyps. Qed.
    Let HV : full = false -> Forall2 Z.le [n1; n2] [m1; m2]. Proof. ax_hyps. Qed.

    Theorem convolve_2d_mc ci co : 0 < ci -> 0 < co -> forall data filt : farr,
      exists y,
        convolve (b ++ [ci; m1; m2]) [co; ci; n1; n2] full (Some [s1; s2]) true data filt = Ok (b ++ [co; P1; P2], y) /\
        forall bi c p1 p2, inbox b bi -> 0 <= c < co -> 0 <= p1 < P1 -> 0 <= p2 < P2 ->
          y (bi ++ [c; p1; p2]) =
          sumZ ci (fun i => sumZ n1 (fun t1 => sumZ n2 (fun t2 =>
            let e1 := p1 * s1 + o1 - t1 in let e2 := p2 * s2 + o2 - t2 in
            mul (if (0 <=? e1) && (e1 <? m1) && ((0 <=? e2) && (e2 <? m2)) then data (bi ++ [i; e1; e2]) else zero)
                (filt [c; i; t1; t2])))).
    Proof.
      intros Hci Hco data filt.
      destruct (convolve_nd_mc R b [m1; m2] [n1; n2] [s1; s2] full (Some [s1; s2]) Hb ltac:(discriminate) eq_refl eq_refl HM HN HS HV (or_introl eq_refl)
                  ci co Hci Hco data filt) as [y [E V]].
      exists y. split; [exact E|]. intros bi c p1 p2 Hbi Hc Hp1 Hp2.
      etransitivity; [exact (V bi c [p1; p2] Hbi Hc ltac:(simpl; tauto))|].
      apply sumZ_ext; intros i _. cbn [sumB]. apply sumZ_ext; intros t1 _. apply sumZ_ext; intros t2 _.
      cbv zeta. unfold vsub, vadd, vmul. cbn [zip2 inboxb app]. rewrite andb_true_r. reflexivity.
    Qed.

    Theorem convolve_2d_sc : forall data filt : farr,
      exists y,
        convolve (b ++ [m1; m2]) [n1; n2] full (Some [s1; s2]) false data filt = Ok (b ++ [P1; P2], y) /\
        forall bi p1 p2, inbox b bi -> 0 <= p1 < P1 -> 0 <= p2 < P2 ->
          y (bi ++ [p1; p2]) =
          sumZ n1 (fun t1 => sumZ n2 (fun t2 =>
            let e1 := p1 * s1 + o1 - t1 in let e2 := p2 * s2 + o2 - t2 in
            mul (if (0 <=? e1) && (e1 <? m1) && ((0 <=? e2) && (e2 <? m2)) then data (bi ++ [e1; e2]) else zero)
                (filt [t1; t2]))).
    Proof.
      intros data filt.
      destruct (convolve_nd_sc R b [m1; m2] [n1; n2] [s1; s2] full (Some [s1; s2]) Hb ltac:(discriminate) eq_refl eq_refl HM HN HS HV (or_introl eq_refl)
                  data filt) as [y [E V]].
      exists y. split; [exact E|]. intros bi p1 p2 Hbi Hp1 Hp2.
      etransitivity; [exact (V bi [p1; p2] Hbi ltac:(simpl; tauto))|].
      cbn [sumB]. apply sumZ_ext; intros t1 _. apply sumZ_ext; intros t2 _.
      cbv zeta. unfold vsub, vadd, vmul. cbn [zip2 inboxb app]. rewrite andb_true_r. reflexivity.
    Qed.

    Theorem adjoints_2d_mc ci co : 0 < ci -> 0 < co ->
      exists A AHd AHf : farr -> farr -> farr,
        (forall x f, convolve (b ++ [ci; m1; m2]) [co; ci; n1; n2] full (Some [s1; s2]) true x f
                     = Ok (b ++ [co; P1; P2], A x f)) /\
        (forall y f, convolve_data_adjoint (b ++ [co; P1; P2]) [co; ci; n1; n2] (b ++ [ci; m1; m2]) full
                       (Some [s1; s2]) true y f = Ok (b ++ [ci; m1; m2], AHd y f)) /\
        (forall y x, convolve_filter_adjoint (b ++ [co; P1; P2]) (b ++ [ci; m1; m2]) [co; ci; n1; n2] full
                       (Some [s1; s2]) true y x = Ok ([co; ci; n1; n2], AHf y x)) /\
        (forall x f y, inner (b ++ [co; P1; P2]) (A x f) y = inner (b ++ [ci; m1; m2]) x (AHd y f)) /\
        (forall x f y, inner (b ++ [co; P1; P2]) (A x f) y = inner [co; ci; n1; n2] f (AHf y x)).
    Proof.
      intros Hci Hco.
      exact (adjoints_nd_mc R b [m1; m2] [n1; n2] [s1; s2] full (Some [s1; s2]) Hb ltac:(discriminate) eq_refl eq_refl HM HN HS HV (or_introl eq_refl) ci co Hci Hco).
    Qed.

    Theorem adjoints_2d_sc :
      exists A AHd AHf : farr -> farr -> farr,
        (forall x f, convolve (b ++ [m1; m2]) [n1; n2] full (Some [s1; s2]) false x f = Ok (b ++ [P1; P2], A x f)) /\
        (forall y f, convolve_data_adjoint (b ++ [P1; P2]) [n1; n2] (b ++ [m1; m2]) full (Some [s1; s2]) false y f
                     = Ok (b ++ [m1; m2], AHd y f)) /\
        (forall y x, convolve_filter_adjoint (b ++ [P1; P2]) (b ++ [m1; m2]) [n1; n2] full (Some [s1; s2]) false y x
                     = Ok ([n1; n2], AHf y x)) /\
        (forall x f y, inner (b ++ [P1; P2]) (A x f) y = inner (b ++ [m1; m2]) x (AHd y f)) /\
        (forall x f y, inner (b ++ [P1; P2]) (A x f) y = inner [n1; n2] f (AHf y x)).
    Proof.
      exact (adjoints_nd_sc R b [m1; m2] [n1; n2] [s1; s2] full (Some [s1; s2]) Hb ltac:(discriminate) eq_refl eq_refl HM HN HS HV (or_introl eq_refl)).
    Qed.
  End D2.

  (* ---- D = 3 ---- *)
  Section D3.
    Variables (m1 m2 m3 n1 n2 n3 s1 s2 s3 : Z).
    Hypothesis Hm1 : 0 < m1.  Hypothesis Hm2 : 0 < m2.  Hypothesis Hm3 : 0 < m3.
    Hypothesis Hn1 : 0 < n1.  Hypothesis Hn2 : 0 < n2.  Hypothesis Hn3 : 0 < n3.
    Hypothesis Hs1 : 0 < s1.  Hypothesis Hs2 : 0 < s2.  Hypothesis Hs3 : 0 < s3.
    Hypothesis Hv : full = false -> n1 <= m1 /\ n2 <= m2 /\ n3 <= m3.
    Notation P1 := (PL full m1 n1 s1).
    Notation P2 := (PL full m2 n2 s2).
    Notation P3 := (PL full m3 n3 s3).
    Notation o1 := (OF full m1 n1).
    Notation o2 := (OF full m2 n2).
    Notation o3 := (OF full m3 n3).
    Let HM : pos [m1; m2; m3]. Proof. ax_hyps. Qed.
    Let HN : pos [n1; n2; n3]. Proof. ax_hyps. Qed.
    Let HS : pos [s1; s2; s3]. Proof. ax_hyps. Qed.
    Let HV : full = false -> Forall2 Z.le [n1; n2; n3] [m1; m2; m3]. Proof. ax_hyps. Qed.

    Theorem convolve_3d_mc ci co : 0 < ci -> 0 < co -> forall data filt : farr,
      exists y,
        convolve (b ++ [ci; m1; m2; m3]) [co; ci; n1; n2; n3] full (Some [s1; s2; s3]) true data filt
          = Ok (b ++ [co; P1; P2; P3], y) /\
        forall bi c p1 p2 p3, inbox b bi -> 0 <= c < co -> 0 <= p1 < P1 -> 0 <= p2 < P2 -> 0 <= p3 < P3 ->
          y (bi ++ [c; p1; p2; p3]) =
          sumZ ci (fun i => sumZ n1 (fun t1 => sumZ n2 (fun t2 => sumZ n3 (fun t3 =>
            let e1 := p1 * s1 + o1 - t1 in let e2 := p2 * s2 + o2 - t2 in let e3 := p3 * s3 + o3 - t3 in
            mul (if (0 <=? e1) && (e1 <? m1) && ((0 <=? e2) && (e2 <? m2) && ((0 <=? e3) && (e3 <? m3)))
                 then data (bi ++ [i; e1; e2; e3]) else zero)
                (filt [c; i; t1; t2; t3]))))).
    Proof.
      intros Hci Hco data filt.
      destruct (convolve_nd_mc R b [m1; m2; m3] [n1; n2; n3] [s1; s2; s3] full (Some [s1; s2; s3]) Hb ltac:(discriminate) eq_refl eq_refl HM HN HS HV (or_introl eq_refl)
                  ci co Hci Hco data filt) as [y [E V]].
      exists y. split; [exact E|]. intros bi c p1 p2 p3 Hbi Hc Hp1 Hp2 Hp3.
      etransitivity; [exact (V bi c [p1; p2; p3] Hbi Hc ltac:(simpl; tauto))|].
      apply sumZ_ext; intros i _. cbn [sumB].
      apply sumZ_ext; intros t1 _. apply sumZ_ext; intros t2 _. apply sumZ_ext; intros t3 _.
      cbv zeta. unfold vsub, vadd, vmul. cbn [zip2 inboxb app]. rewrite andb_true_r. reflexivity.
    Qed.

    Theorem convolve_3d_sc : forall data filt : farr,
      exists y,
        convolve (b ++ [m1; m2; m3]) [n1; n2; n3] full (Some [s1; s2; s3]) false data filt = Ok (b ++ [P1; P2; P3], y) /\
        forall bi p1 p2 p3, inbox b bi -> 0 <= p1 < P1 -> 0 <= p2 < P2 -> 0 <= p3 < P3 ->
          y (bi ++ [p1; p2; p3]) =
          sumZ n1 (fun t1 => sumZ n2 (fun t2 => sumZ n3 (fun t3 =>
            let e1 := p1 * s1 + o1 - t1 in let e2 := p2 * s2 + o2 - t2 in let e3 := p3 * s3 + o3 - t3 in
            mul (if (0 <=? e1) && (e1 <? m1) && ((0 <=? e2) && (e2 <? m2) && ((0 <=? e3) && (e3 <? m3)))
                 then data (bi ++ [e1; e2; e3]) else zero)
                (filt [t1; t2; t3])))).
    Proof.
      intros data filt.
      destruct (convolve_nd_sc R b [m1; m2; m3] [n1; n2; n3] [s1; s2; s3] full (Some [s1; s2; s3]) Hb ltac:(discriminate) eq_refl eq_refl HM HN HS HV (or_introl eq_refl)
                  data filt) as [y [E V]].
      exists y. split; [exact E|]. intros bi p1 p2 p3 Hbi Hp1 Hp2 Hp3.
      etransitivity; [exact (V bi [p1; p2; p3] Hbi ltac:(simpl; tauto))|].
      cbn [sumB]. apply sumZ_ext; intros t1 _. apply sumZ_ext; intros t2 _. apply sumZ_ext; intros t3 _.
      cbv zeta. unfold vsub, vadd, vmul. cbn [zip2 inboxb app]. rewrite andb_true_r. reflexivity.
    Qed.

    Theorem adjoints_3d_mc ci co : 0 < ci -> 0 < co ->
      exists A AHd AHf : farr -> farr -> farr,
        (forall x f, convolve (b ++ [ci; m1; m2; m3]) [co; ci; n1; n2; n3] full (Some [s1; s2; s3]) true x f
                     = Ok (b ++ [co; P1; P2; P3], A x f)) /\
        (forall y f, convolve_data_adjoint (b ++ [co; P1; P2; P3]) [co; ci; n1; n2; n3] (b ++ [ci; m1; m2; m3]) full
                       (Some [s1; s2; s3]) true y f = Ok (b ++ [ci; m1; m2; m3], AHd y f)) /\
        (forall y x, convolve_filter_adjoint (b ++ [co; P1; P2; P3]) (b ++ [ci; m1; m2; m3]) [co; ci; n1; n2; n3] full
                       (Some [s1; s2; s3]) true y x = Ok ([co; ci; n1; n2; n3], AHf y x)) /\
        (forall x f y, inner (b ++ [co; P1; P2; P3]) (A x f) y = inner (b ++ [ci; m1; m2; m3]) x (AHd y f)) /\
        (forall x f y, inner (b ++ [co; P1; P2; P3]) (A x f) y = inner [co; ci; n1; n2; n3] f (AHf y x)).
    Proof.
      intros Hci Hco.
      exact (adjoints_nd_mc R b [m1; m2; m3] [n1; n2; n3] [s1; s2; s3] full (Some [s1; s2; s3]) Hb ltac:(discriminate) eq_refl eq_refl HM HN HS HV (or_introl eq_refl)
               ci co Hci Hco).
    Qed.

    Theorem adjoints_3d_sc :
      exists A AHd AHf : farr -> farr -> farr,
        (forall x f, convolve (b ++ [m1; m2; m3]) [n1; n2; n3] full (Some [s1; s2; s3]) false x f
                     = Ok (b ++ [P1; P2; P3], A x f)) /\
        (forall y f, convolve_data_adjoint (b ++ [P1; P2; P3]) [n1; n2; n3] (b ++ [m1; m2; m3]) full
                       (Some [s1; s2; s3]) false y f = Ok (b ++ [m1; m2; m3], AHd y f)) /\
        (forall y x, convolve_filter_adjoint (b ++ [P1; P2; P3]) (b ++ [m1; m2; m3]) [n1; n2; n3] full
                       (Some [s1; s2; s3]) false y x = Ok ([n1; n2; n3], AHf y x)) /\
        (forall x f y, inner (b ++ [P1; P2; P3]) (A x f) y = inner (b ++ [m1; m2; m3]) x (AHd y f)) /\
        (forall x f y, inner (b ++ [P1; P2; P3]) (A x f) y = inner [n1; n2; n3] f (AHf y x)).
    Proof.
      exact (adjoints_nd_sc R b [m1; m2; m3] [n1; n2; n3] [s1; s2; s3] full (Some [s1; s2; s3]) Hb ltac:(discriminate) eq_refl eq_refl HM HN HS HV (or_introl eq_refl)).
    Qed.
  End D3.
End LowD.

(* ====================================================================== Part G: rejection, any D *)
Section RejectFinal.
  Variable R : Ops.
  Notation farr := (list Z -> R).
  Variables (b m n s : list Z) (st : option (list Z)).
  Hypothesis Hne : m <> [].
  Hypothesis Ln : length n = length m.
  Hypothesis Ls : length s = length m.
  Hypothesis Hs : Forall (fun k => 0 < k) s.
  Hypothesis Hst : stride_arg st s (length m).
  Hypothesis Hlt : existsb (fun p => fst p <? snd p) (combine m n) = true.
  Notation e := (if existsb (fun p => snd p <=? fst p) (combine m n) then E_conv else E_nonpos).

  Let Hne' : n <> [].
  Proof. intros E. apply Hne. destruct m; [reflexivity|]. pose proof Ln as Ln'. rewrite E in Ln'. discriminate Ln'. Qed.
  Let Hst' : st_ok st s (length n).
  Proof. rewrite Ln. exact Hst. Qed.

  Theorem valid_longer_filter_nd_mc ci co :
    (forall d f : farr, convolve (b ++ [ci] ++ m) ([co; ci] ++ n) false st true d f = Err e) /\
    (forall osh (y f : farr), convolve_data_adjoint osh ([co; ci] ++ n) (b ++ [ci] ++ m) false st true y f = Err e) /\
    (forall osh (y d : farr), convolve_filter_adjoint osh (b ++ [ci] ++ m) ([co; ci] ++ n) false st true y d = Err e).
  Proof.
    apply (valid_longer_filter_gen R (b ++ [ci] ++ m) ([co; ci] ++ n) st true b co m n s); try assumption; try congruence.
    exact (conv_params_shape_mc b ci co m n s false st (eq_sym Ln) (eq_trans Ls (eq_sym Ln)) Hne' Hst').
  Qed.

  Theorem valid_longer_filter_nd_sc :
    (forall d f : farr, convolve (b ++ m) n false st false d f = Err e) /\
    (forall osh (y f : farr), convolve_data_adjoint osh n (b ++ m) false st false y f = Err e) /\
    (forall osh (y d : farr), convolve_filter_adjoint osh (b ++ m) n false st false y d = Err e).
  Proof.
    apply (valid_longer_filter_gen R (b ++ m) n st false b 1 m n s); try assumption; try congruence.
    exact (conv_params_shape_sc b m n s false st (eq_sym Ln) (eq_trans Ls (eq_sym Ln)) Hne' Hst').
  Qed.
End RejectFinal.
