(* LinopLinear.v — C02: every operator of the deep embedding is linear over the scalar ring.

   [linear F] :  F (a x + y) = a F x + F y  pointwise, for every scalar a of the commutative *-ring.
   Proved here, WITHOUT any well-formedness hypothesis (linearity of the total model function):
     * every leaf class whose denotation is defined in model/Linop.v (Identity, Reshape, Transpose, MatMul,
       RightMatMul, Multiply (scalar and array), Resize, Flip, Downsample, Upsample, Circshift, Sum, Tile,
       ArrayToBlocks, BlocksToArray (through the GENERATED loop nests of gen/Gen_block.v and the generic
       theorem [exec_linear] about LoopIR programs), Slice, Embed);
     * the stacking combinators Hstack / Vstack / Diag given linear members;
     * the library-backed leaves are linear iff the oracle is: that is the ONLY hypothesis of
       [linear_every_tree]. *)
From Coq Require Import ZArith List Lia Bool Ring FunctionalExtensionality.
From SV Require Import lib.Scalar lib.BigSum lib.LoopIR lib.NdArray lib.Gather gen.Gen_block
  model.Rearrange model.Block model.Linop proofs.LinopTheory proofs.LinopAlgebra.
Import ListNotations.
Local Open Scope Z_scope.

Definition library_backed (L : linop) : bool :=
  match L with
  | FFT _ _ _ | IFFT _ _ _ | Interpolate _ _ _ _ _ | Gridding _ _ _ _ _ | Wavelet _ _ _ _ _
  | InverseWavelet _ _ _ _ _ | NUFFT _ _ _ _ _ | NUFFTAdjoint _ _ _ _
  | ConvolveData _ _ _ _ _ | ConvolveDataAdjoint _ _ _ _ _ | ConvolveFilter _ _ _ _ _
  | ConvolveFilterAdjoint _ _ _ _ _ => true
  | _ => false
  end.

(* ======================================================================== loop nests *)
(* Three nests with the same control structure (ranges, integer lets, guards, targets) whose right-hand sides
   satisfy  rhs12 = a * rhs1 + rhs2  — e.g. one kernel instantiated at the inputs a x + y, x and y. *)
Section NestLin.
  Variable R : StarRing.
  Add Ring RringNL : (SRth R).
  Local Open Scope sr_scope.
  Variable a : R.

  Inductive nest_lin : nest R -> nest R -> nest R -> Prop :=
  | nl_for lo hi st b12 b1 b2 : nest_lin b12 b1 b2 -> nest_lin (For lo hi st b12) (For lo hi st b1) (For lo hi st b2)
  | nl_let v b12 b1 b2 : nest_lin b12 b1 b2 -> nest_lin (LetZ v b12) (LetZ v b1) (LetZ v b2)
  | nl_if c b12 b1 b2 : nest_lin b12 b1 b2 -> nest_lin (If c b12) (If c b1) (If c b2)
  | nl_seq p12 p1 p2 q12 q1 q2 : nest_lin p12 p1 p2 -> nest_lin q12 q1 q2 ->
      nest_lin (Seq p12 q12) (Seq p1 q1) (Seq p2 q2)
  | nl_skip : nest_lin Skip Skip Skip
  | nl_accum tgt r12 r1 r2 : (forall e, r12 e = a * r1 e + r2 e) ->
      nest_lin (Accum tgt r12) (Accum tgt r1) (Accum tgt r2)
  | nl_assign tgt r12 r1 r2 : (forall e, r12 e = a * r1 e + r2 e) ->
      nest_lin (Assign tgt r12) (Assign tgt r1) (Assign tgt r2).

  (* program-order execution is linear in the right-hand sides and the initial output, jointly —
     for ANY nest (accumulate-only, assign-only, or mixed) *)
  Theorem exec_linear n12 n1 n2 : nest_lin n12 n1 n2 ->
    forall e (out12 out1 out2 : list Z -> R), (forall o, out12 o = a * out1 o + out2 o) ->
    forall o, exec n12 e out12 o = a * exec n1 e out1 o + exec n2 e out2 o.
  Proof.
    induction 1 as [lo hi st b12 b1 b2 _ IH|v b12 b1 b2 _ IH|c b12 b1 b2 _ IH|p12 p1 p2 q12 q1 q2 _ IHp _ IHq|
                    |tgt r12 r1 r2 Hr|tgt r12 r1 r2 Hr]; intros e out12 out1 out2 Hout o; cbn [exec].
    - revert out12 out1 out2 Hout o. generalize (zrange (lo e) (hi e) (st e)) as l.
      induction l as [|v l IHl]; intros out12 out1 out2 Hout o; cbn [fold_left]; [apply Hout|].
      apply IHl. intros o'. apply IH. exact Hout.
    - apply IH. exact Hout.
    - destruct (c e); [apply IH; exact Hout | apply Hout].
    - apply IHq. intros o'. apply IHp. exact Hout.
    - apply Hout.
    - unfold upd. destruct (idx_eqb (tgt e) o); [rewrite Hr, Hout; ring | apply Hout].
    - unfold upd. destruct (idx_eqb (tgt e) o); [apply Hr | apply Hout].
  Qed.

  Corollary exec_linear_zero n12 n1 n2 : nest_lin n12 n1 n2 ->
    forall e o, exec n12 e (fun _ => 0) o = a * exec n1 e (fun _ => 0) o + exec n2 e (fun _ => 0) o.
  Proof. intros H e o. apply (exec_linear _ _ _ H). intros; ring. Qed.
End NestLin.

Ltac nest_lin_tac :=
  repeat first [apply nl_for | apply nl_let | apply nl_if | apply nl_seq | apply nl_skip | apply nl_accum | apply nl_assign].

(* the six generated kernels of gen/Gen_block.v, instantiated at the inputs a x + y, x, y *)
Section Kernels.
  Variable R : StarRing.
  Local Open Scope sr_scope.
  Variable a : R.
  Variables x12 x1 x2 : list Z -> R.
  Hypothesis Hx : forall i, x12 i = a * x1 i + x2 i.

  Lemma a2b1_lin ish osh bs B S N :
    nest_lin R a (k_array_to_blocks1 R x12 ish osh bs B S N) (k_array_to_blocks1 R x1 ish osh bs B S N)
                 (k_array_to_blocks1 R x2 ish osh bs B S N).
  Proof. unfold k_array_to_blocks1. nest_lin_tac. intros e. apply Hx. Qed.

  Lemma a2b2_lin ish osh bs B0 B1 S0 S1 N0 N1 :
    nest_lin R a (k_array_to_blocks2 R x12 ish osh bs B0 B1 S0 S1 N0 N1) (k_array_to_blocks2 R x1 ish osh bs B0 B1 S0 S1 N0 N1)
                 (k_array_to_blocks2 R x2 ish osh bs B0 B1 S0 S1 N0 N1).
  Proof. unfold k_array_to_blocks2. nest_lin_tac. intros e. apply Hx. Qed.

  Lemma a2b3_lin ish osh bs B0 B1 B2 S0 S1 S2 N0 N1 N2 :
    nest_lin R a (k_array_to_blocks3 R x12 ish osh bs B0 B1 B2 S0 S1 S2 N0 N1 N2)
                 (k_array_to_blocks3 R x1 ish osh bs B0 B1 B2 S0 S1 S2 N0 N1 N2)
                 (k_array_to_blocks3 R x2 ish osh bs B0 B1 B2 S0 S1 S2 N0 N1 N2).
  Proof. unfold k_array_to_blocks3. nest_lin_tac. intros e. apply Hx. Qed.

  Lemma b2a1_lin ish osh bs B S N :
    nest_lin R a (k_blocks_to_array1 R x12 ish osh bs B S N) (k_blocks_to_array1 R x1 ish osh bs B S N)
                 (k_blocks_to_array1 R x2 ish osh bs B S N).
  Proof. unfold k_blocks_to_array1. nest_lin_tac. intros e. apply Hx. Qed.

  Lemma b2a2_lin ish osh bs B0 B1 S0 S1 N0 N1 :
    nest_lin R a (k_blocks_to_array2 R x12 ish osh bs B0 B1 S0 S1 N0 N1) (k_blocks_to_array2 R x1 ish osh bs B0 B1 S0 S1 N0 N1)
                 (k_blocks_to_array2 R x2 ish osh bs B0 B1 S0 S1 N0 N1).
  Proof. unfold k_blocks_to_array2. nest_lin_tac. intros e. apply Hx. Qed.

  Lemma b2a3_lin ish osh bs B0 B1 B2 S0 S1 S2 N0 N1 N2 :
    nest_lin R a (k_blocks_to_array3 R x12 ish osh bs B0 B1 B2 S0 S1 S2 N0 N1 N2)
                 (k_blocks_to_array3 R x1 ish osh bs B0 B1 B2 S0 S1 S2 N0 N1 N2)
                 (k_blocks_to_array3 R x2 ish osh bs B0 B1 B2 S0 S1 S2 N0 N1 N2).
  Proof. unfold k_blocks_to_array3. nest_lin_tac. intros e. apply Hx. Qed.
End Kernels.

(* ======================================================================== leaves *)
Section Lin.
  Variable R : StarRing.
  Add Ring RringLL : (SRth R).
  Notation farr := (list Z -> R).
  Variable arr : Z -> farr.
  Variable scal : Z -> R.
  Variable orc : linop -> farr -> farr.
  Notation D := (D R arr scal orc).
  Notation linear := (linear R).
  Local Open Scope sr_scope.

  Lemma linear_ext F G : (forall x o, F x o = G x o) -> linear F -> linear G.
  Proof. intros E H a x y o. rewrite <- !E. apply H. Qed.

  (* finite sums of linear terms *)
  Lemma linear_sum_terms {T} (l : list T) (g : T -> farr -> list Z -> R) :
    (forall k, linear (g k)) -> linear (fun x o => sum_list R (map (fun k => g k x o) l)).
  Proof.
    intros Hg a x y o. induction l as [|k l IH]; cbn [map sum_list]; [ring|]. rewrite IH, (Hg k). ring.
  Qed.

  Theorem linear_identity s : linear (D (Identity s)).
  Proof. intros a x y o. reflexivity. Qed.

  Theorem linear_reshape_op o i : linear (D (Reshape o i)).
  Proof. intros a x y p. reflexivity. Qed.

  Theorem linear_transpose i axes : linear (D (Transpose i axes)).
  Proof. intros a x y p. unfold LinopTheory.D. cbn [den]. destruct axes; reflexivity. Qed.

  Lemma linear_den_matmul right i m adj : linear (den_matmul R arr right i m adj).
  Proof.
    unfold den_matmul. destruct (expand_shapes i (ashape_of m)) as [ie me0].
    intros a x y o.
    generalize (zrange 0 (if right then pyget ie (-1) else pyget ie (-2)) 1) as l.
    induction l as [|k l IH]; cbn [map sum_list]; [ring|]. rewrite IH. destruct right; ring.
  Qed.

  Theorem linear_matmul i m adj : linear (D (MatMul i m adj)).
  Proof. exact (linear_den_matmul false i m adj). Qed.

  Theorem linear_right_matmul i m adj : linear (D (RightMatMul i m adj)).
  Proof. exact (linear_den_matmul true i m adj). Qed.

  Theorem linear_multiply i m cj : linear (D (Multiply i m cj)).
  Proof.
    unfold LinopTheory.D. cbn [den]. unfold den_multiply. destruct m as [t|ar].
    - destruct (expand_shapes i [1%Z]) as [ie me]. intros a x y o. ring.
    - destruct (expand_shapes i (ashape_of ar)) as [ie me]. intros a x y o. ring.
  Qed.

  Theorem linear_resize o i isf osf : linear (D (Resize o i isf osf)).
  Proof.
    unfold LinopTheory.D. cbn [den]. unfold resize. destruct (expand_shapes i o) as [i1 o1].
    destruct (zlist_eqb i1 o1 && match isf, osf with None, None => true | _, _ => false end).
    - intros a x y p. reflexivity.
    - intros a x y p. unfold reshape, gatherN. destruct (map_axes _ _); [reflexivity | ring].
  Qed.

  Theorem linear_flip s ax : linear (D (Flip s ax)).
  Proof. unfold LinopTheory.D. cbn [den]. unfold flip. apply linear_gatherN. Qed.

  Theorem linear_downsample i f sh : linear (D (Downsample i f sh)).
  Proof. unfold LinopTheory.D. cbn [den]. unfold downsample. apply linear_gatherN. Qed.

  Theorem linear_upsample o f sh : linear (D (Upsample o f sh)).
  Proof. unfold LinopTheory.D. cbn [den]. unfold upsample. apply linear_gatherN. Qed.

  Lemma linear_circshift_loop shape shifts axes : linear (@circshift_loop R shape shifts axes).
  Proof.
    revert axes; induction shifts as [|s shifts IH]; intros axes; [intros a x y o; reflexivity|].
    destruct axes as [|ax axes]; [intros a x y o; reflexivity|].
    cbn [circshift_loop].
    apply (linear_compose R (roll shape s ax) (circshift_loop R shape shifts axes)); [|apply IH].
    unfold roll. apply linear_gatherN.
  Qed.

  Theorem linear_circshift s sh ax : linear (D (Circshift s sh ax)).
  Proof. unfold LinopTheory.D. cbn [den]. unfold circshift. apply linear_circshift_loop. Qed.

  Theorem linear_sum i axes : linear (D (Sum i axes)).
  Proof.
    unfold LinopTheory.D. cbn [den]. unfold den_sum.
    apply (linear_sum_terms (enum_box (keep_axes i (norm_axes_list axes (lenZ i))))
             (fun k x o => x (merge_axes 0 i (norm_axes_list axes (lenZ i)) o k))).
    intros k a x y o. reflexivity.
  Qed.

  Theorem linear_tile o axes : linear (D (Tile o axes)).
  Proof. intros a x y p. reflexivity. Qed.

  Theorem linear_slice i idx : linear (D (Slice i idx)).
  Proof. intros a x y p. reflexivity. Qed.

  Theorem linear_embed o idx : linear (D (Embed o idx)).
  Proof.
    intros a x y p. unfold LinopTheory.D. cbn [den]. destruct (embed_lookup o idx p); [reflexivity | ring].
  Qed.

  (* ---- block operators: batch flattening wrappers around the generated loop nests ---- *)
  Lemma flatten_batch_lin bs a (x y : farr) idx :
    flatten_batch R bs (fun i => a * x i + y i) idx = a * flatten_batch R bs x idx + flatten_batch R bs y idx.
  Proof. destruct idx; reflexivity. Qed.

  Theorem linear_array_to_blocks i b s : linear (D (ArrayToBlocks i b s)).
  Proof.
    intros a x y o. unfold LinopTheory.D. cbn [den]. unfold array_to_blocks.
    destruct (negb (length b =? length s)%nat); [ring|].
    pose proof (flatten_batch_lin (droplast (length b) i) a x y) as Hx.
    destruct (length b) as [|[|[|[|n]]]]; try ring; unfold unflatten_batch; apply exec_linear_zero.
    - apply a2b1_lin. exact Hx.
    - apply a2b2_lin. exact Hx.
    - apply a2b3_lin. exact Hx.
  Qed.

  Theorem linear_blocks_to_array o b s : linear (D (BlocksToArray o b s)).
  Proof.
    intros a x y p. unfold LinopTheory.D. cbn [den]. unfold blocks_to_array.
    destruct (negb (length b =? length s)%nat); [ring|].
    pose proof (flatten_batch_lin (droplast (length b) o) a x y) as Hx.
    destruct (length b) as [|[|[|[|n]]]]; try ring; unfold unflatten_batch; apply exec_linear_zero.
    - apply b2a1_lin. exact Hx.
    - apply b2a2_lin. exact Hx.
    - apply b2a3_lin. exact Hx.
  Qed.

  (* ---- every leaf: defined ones unconditionally, library-backed ones through the oracle ---- *)
  Theorem linear_library_leaf L : library_backed L = true -> linear (orc L) -> linear (D L).
  Proof. intros HL H. destruct L; try discriminate HL; exact H. Qed.

  Theorem linear_leaf L :
    is_comb L = false -> (library_backed L = true -> linear (orc L)) -> linear (D L).
  Proof.
    intros Hc Ho. destruct L; try discriminate Hc;
      try (apply linear_library_leaf; [reflexivity | apply Ho; reflexivity]).
    - apply linear_identity.
    - apply linear_reshape_op.
    - apply linear_transpose.
    - apply linear_matmul.
    - apply linear_right_matmul.
    - apply linear_multiply.
    - apply linear_resize.
    - apply linear_flip.
    - apply linear_downsample.
    - apply linear_upsample.
    - apply linear_circshift.
    - apply linear_sum.
    - apply linear_tile.
    - apply linear_array_to_blocks.
    - apply linear_blocks_to_array.
    - apply linear_slice.
    - apply linear_embed.
  Qed.

  (* ======================================================================== combinators *)
  Theorem linear_conj_op A : linear (D A) -> linear (D (Conj A)).
  Proof. intros H. exact (linear_conj R _ H). Qed.

  Theorem linear_add_op ls : Forall (fun A => linear (D A)) ls -> linear (D (Add ls)).
  Proof.
    intros H a x y o. rewrite !D_add. induction H as [|b ls Hb _ IH]; cbn [fold_right]; [ring|].
    rewrite (Hb a x y o), IH. ring.
  Qed.

  Theorem linear_compose_op ls : Forall (fun A => linear (D A)) ls -> linear (D (Compose ls)).
  Proof.
    intros H. apply (linear_ext (fun x => fold_right (fun A acc => D A acc) x ls)).
    { intros x o. rewrite D_compose. reflexivity. }
    induction H as [|b ls Hb _ IH]; cbn [fold_right]; [apply linear_id|].
    exact (linear_compose R _ _ IH Hb).
  Qed.

  (* the slice of the stacked input handed to one member *)
  Definition part (axis : option Z) (s : list Z) (st : Z) (x : farr) : farr :=
    match axis with
    | None => fun i => x [st + ravel s i]%Z
    | Some ax => take_axis R (ax mod lenZ s) st x
    end.

  Lemma linear_part axis s st : linear (part axis s st).
  Proof. intros a x y o. destruct axis; reflexivity. Qed.

  Theorem linear_hstack ls axis : Forall (fun A => linear (D A)) ls -> linear (D (Hstack ls axis)).
  Proof.
    intros H. unfold LinopTheory.D. cbn [den].
    destruct (stack_params (map ishape_of ls) axis) as [[ish ind]|]; [|apply linear_zero].
    generalize (starts_of ind) as starts.
    induction H as [|b ls Hb _ IH]; intros starts; [apply linear_zero|].
    destruct starts as [|st starts]; [apply linear_zero|].
    intros a x y o.
    pose proof (linear_compose R _ _ (linear_part axis (ishape_of b) st) Hb a x y o) as E1.
    pose proof (IH starts a x y o) as E2.
    unfold part, LinopTheory.D, noforce in *. destruct axis; rewrite E1, E2; ring.
  Qed.

  Theorem linear_vstack ls axis : Forall (fun A => linear (D A)) ls -> linear (D (Vstack ls axis)).
  Proof.
    intros H. unfold LinopTheory.D. cbn [den].
    destruct (stack_params (map oshape_of ls) axis) as [[osh ind]|]; [|apply linear_zero].
    generalize (starts_of ind) as starts.
    generalize (ind ++ [getZ osh (match axis with None => 0%Z | Some ax => ax mod lenZ osh end)]) as ends.
    induction H as [|b ls Hb _ IH]; intros ends starts; [apply linear_zero|].
    destruct starts as [|st starts]; [apply linear_zero|].
    destruct ends as [|en ends]; [apply linear_zero|].
    intros a x y o. specialize (IH ends starts a x y o).
    unfold LinopTheory.D, noforce in *.
    destruct axis as [ax|].
    - destruct ((st <=? getZ o (ax mod lenZ (oshape_of b)))%Z && (getZ o (ax mod lenZ (oshape_of b)) <? en)%Z);
        [apply Hb | exact IH].
    - destruct ((st <=? match o with k :: _ => k | [] => 0%Z end)%Z && (match o with k :: _ => k | [] => 0%Z end <? en)%Z);
        [apply Hb | exact IH].
  Qed.

  Theorem linear_diag ls oaxis iaxis : Forall (fun A => linear (D A)) ls -> linear (D (Diag ls oaxis iaxis)).
  Proof.
    intros H. unfold LinopTheory.D. cbn [den].
    destruct (stack_params (map ishape_of ls) iaxis) as [[ish iind]|]; [|apply linear_zero].
    destruct (stack_params (map oshape_of ls) oaxis) as [[osh oind]|]; [|apply linear_zero].
    generalize (starts_of iind) as istarts. generalize (starts_of oind) as ostarts.
    generalize (oind ++ [match oaxis with None => getZ osh 0 | Some ax => getZ osh (ax mod lenZ osh) end]) as oends.
    induction H as [|b ls Hb _ IH]; intros oends ostarts istarts; [apply linear_zero|].
    destruct istarts as [|ist istarts]; [apply linear_zero|].
    destruct ostarts as [|ost ostarts]; [apply linear_zero|].
    destruct oends as [|oen oends]; [apply linear_zero|].
    intros a x y o. specialize (IH oends ostarts istarts a x y o).
    pose proof (linear_compose R _ _ (linear_part iaxis (ishape_of b) ist) Hb a x y) as E1.
    unfold part, LinopTheory.D, noforce in *.
    destruct oaxis as [ax|].
    - destruct ((ost <=? getZ o (ax mod lenZ (oshape_of b)))%Z && (getZ o (ax mod lenZ (oshape_of b)) <? oen)%Z);
        [destruct iaxis; apply E1 | exact IH].
    - destruct ((ost <=? match o with k :: _ => k | [] => 0%Z end)%Z && (match o with k :: _ => k | [] => 0%Z end <? oen)%Z);
        [destruct iaxis; apply E1 | exact IH].
  Qed.

  (* ======================================================================== C02, every tree *)
  Theorem linear_every_tree :
    (forall L, library_backed L = true -> linear (orc L)) -> forall A, linear (D A).
  Proof.
    intros Ho A. induction A using linop_rect2.
    - apply linear_leaf; [destruct A; try contradiction; reflexivity | apply Ho].
    - apply linear_conj_op. exact IHA.
    - apply linear_add_op. assumption.
    - apply linear_compose_op. assumption.
    - apply linear_hstack. assumption.
    - apply linear_vstack. assumption.
    - apply linear_diag. assumption.
  Qed.

  (* trees without library-backed leaves need no hypothesis at all *)
  Fixpoint no_library (A : linop) : bool :=
    let fix all (l : list linop) : bool := match l with [] => true | a :: l' => no_library a && all l' end in
    match A with
    | Conj a => no_library a
    | Add l | Compose l | Hstack l _ | Vstack l _ | Diag l _ _ => all l
    | L => negb (library_backed L)
    end.

  Lemma no_library_list l :
    (fix all (l : list linop) : bool := match l with [] => true | a :: l' => no_library a && all l' end) l = true ->
    Forall (fun a => no_library a = true) l.
  Proof.
    induction l as [|a l IH]; intros H; [constructor|]. apply andb_true_iff in H. destruct H. constructor; auto.
  Qed.

  Theorem linear_no_library A : no_library A = true -> linear (D A).
  Proof.
    induction A using linop_rect2; intros Hn.
    - apply linear_leaf; [destruct A; try contradiction; reflexivity|].
      intros HL. destruct A; try contradiction; try discriminate HL; discriminate Hn.
    - apply linear_conj_op. apply IHA. exact Hn.
    - apply linear_add_op. cbn [no_library] in Hn. apply no_library_list in Hn.
      rewrite Forall_forall in *. intros a Ha. apply (H a Ha). apply (Hn a Ha).
    - apply linear_compose_op. cbn [no_library] in Hn. apply no_library_list in Hn.
      rewrite Forall_forall in *. intros a Ha. apply (H a Ha). apply (Hn a Ha).
    - apply linear_hstack. cbn [no_library] in Hn. apply no_library_list in Hn.
      rewrite Forall_forall in *. intros a Ha. apply (H a Ha). apply (Hn a Ha).
    - apply linear_vstack. cbn [no_library] in Hn. apply no_library_list in Hn.
      rewrite Forall_forall in *. intros a Ha. apply (H a Ha). apply (Hn a Ha).
    - apply linear_diag. cbn [no_library] in Hn. apply no_library_list in Hn.
      rewrite Forall_forall in *. intros a Ha. apply (H a Ha). apply (Hn a Ha).
  Qed.
End Lin.

(* the oracle hypothesis is satisfiable (identity oracle), and a mixed tree without library leaves *)
Example linear_oracle_satisfiable (R : StarRing) :
  forall L, library_backed L = true -> linear R ((fun _ x => x) L).
Proof. intros L _ a x y o. reflexivity. Qed.

Example linear_example_tree :
  no_library (Vstack [Compose [BlocksToArray [6] [2] [2]; ArrayToBlocks [6] [2] [2]];
                      Hstack [Multiply [3] (MScalar 1) true; Sum [3; 3] [0]] None] None) = true.
Proof. reflexivity. Qed.
