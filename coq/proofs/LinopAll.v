(* LinopAll.v — the adjoint theorem for the WHOLE operator language.
   (1) adj_shape_ok (shapes (adj L) = swapped shapes L) for the leaf classes LinopStack.adj_shape_leaf leaves out:
       Transpose with explicit (possibly negative) axes, Multiply by an array / scalar on any shape, MatMul, RightMatMul;
   (2) proven_all : linop -> bool, the union of the side conditions of LinopScale / LinopLeavesA / LinopLeavesB(2),
       library_backed (FFT, IFFT, Interpolate, Gridding, Wavelet, InverseWavelet, NUFFT, NUFFTAdjoint, the Convolve family),
       and adj_correct_all: through Conj, Add, Compose, Hstack, Vstack, Diag, <A x, y> = <x, A^H y> and swapped shapes,
       asking the oracle-backed leaves only for their own adjointness; adj_correct_all_proven: no hypothesis at all
       on trees without library leaves;
   (3) the adjoint of the adjoint acts like the original (adj_adj_acts), and the proven fragment is closed under adj
       (proven_closed_adj), whence the unconditional adj_adj_acts_proven. *)
From Coq Require Import ZArith List Lia Bool Ring.
From SV Require Import lib.Scalar lib.BigSum lib.LoopIR lib.NdArray lib.Gather gen.Gen_block model.Rearrange model.Block model.Linop
  proofs.SumTools proofs.Block proofs.LinopTheory proofs.LinopLeaves proofs.LinopScale proofs.LinopLeavesA proofs.LinopStack
  proofs.LinopLeavesB proofs.LinopLeavesB2.
Import ListNotations.
Local Open Scope Z_scope.

(* ================================================================ (1) swapped shapes of the adjoint, remaining leaf classes *)

Lemma compose3_shapes A1 A2 A3 s1 s2 s3 s4 :
  shapes A1 = Ok (s1, s2) -> shapes A2 = Ok (s2, s3) -> shapes A3 = Ok (s3, s4) ->
  shapes (Compose [A1; A2; A3]) = Ok (s1, s4).
Proof.
  intros H1 H2 H3. rewrite shapes_compose. cbn [mapM]. rewrite H1, H2, H3. cbn [bind compose_ok fst snd].
  rewrite !zlist_eqb_refl. cbn [andb negb last fst snd].
  destruct (shapes_allpos _ _ H1) as [P1 _]. destruct (shapes_allpos _ _ H3) as [_ P4]. cbn [fst snd] in P1, P4.
  unfold finish. rewrite P1, P4. reflexivity.
Qed.

(* ---- Transpose with explicit axes ---- *)
Lemma transpose_adj_shape i ax : transpose_axes_okb i ax = true ->
  let pn := map (fun a => a mod lenZ i) ax in
  map (fun a => getZ (map (fun a => getZ i a) pn) (a mod lenZ (map (fun a => getZ i a) pn))) (argsort pn) = i /\
  is_perm (length (map (fun a => getZ i a) pn)) (map (fun a => a mod lenZ (map (fun a => getZ i a) pn)) (argsort pn)).
Proof.
  intros Hp pn. apply is_permb_spec in Hp. fold pn in Hp.
  pose proof (argsort_inv_perm _ _ Hp) as Hinv. fold (lenZ i) in Hinv.
  pose proof Hinv as (Lp & Lq & Hpq & Hqp).
  set (o := map (fun a => getZ i a) pn).
  assert (Lo : lenZ o = lenZ i) by (unfold o, lenZ in *; rewrite map_length; exact Lp).
  rewrite Lo.
  assert (En : map (fun a => a mod lenZ i) (argsort pn) = argsort pn) by (apply (norm_perm_id _ _ _ (inv_perm_sym _ _ _ Hinv))).
  split.
  - rewrite <- (map_map (fun a => a mod lenZ i) (fun a => getZ o a)). rewrite En.
    apply (nth_ext _ _ 0 0).
    + rewrite map_length. unfold lenZ in Lq. lia.
    + intros e He. rewrite map_length in He. rewrite nth_map_getZ by exact He.
      assert (Hez : 0 <= Z.of_nat e < lenZ i) by (unfold lenZ in *; lia).
      destruct (Hqp _ Hez) as [Hr Hc]. unfold getZ at 2 in Hc. rewrite Nat2Z.id in Hc.
      unfold getZ at 2 in Hr. rewrite Nat2Z.id in Hr.
      unfold o. unfold getZ at 1. rewrite nth_map_getZ by (unfold lenZ in *; lia).
      change (nth (Z.to_nat (nth e (argsort pn) 0)) pn 0) with (getZ pn (nth e (argsort pn) 0)).
      rewrite Hc. unfold getZ. rewrite Nat2Z.id. reflexivity.
  - rewrite En. unfold o. rewrite map_length.
    destruct Hp as (L & _ & _). rewrite L.
    (* argsort of a permutation is a permutation *)
    split; [rewrite argsort_length; exact L|]. split.
    + apply Forall_forall. intros a Ha. destruct (In_nth _ _ 0 Ha) as (e & He & E). rewrite argsort_length, L in He.
      assert (Hez : 0 <= Z.of_nat e < lenZ i) by (unfold lenZ; lia).
      destruct (Hqp _ Hez) as [Hr _]. unfold getZ in Hr. rewrite Nat2Z.id, E in Hr. unfold lenZ in Hr. exact Hr.
    + apply (proj2 (NoDup_nth (argsort pn) 0)). intros a b Ha Hb E. rewrite argsort_length, L in Ha, Hb.
      assert (Haz : 0 <= Z.of_nat a < lenZ i) by (unfold lenZ; lia).
      assert (Hbz : 0 <= Z.of_nat b < lenZ i) by (unfold lenZ; lia).
      destruct (Hqp _ Haz) as [_ Ca]. destruct (Hqp _ Hbz) as [_ Cb].
      unfold getZ at 2 in Ca. unfold getZ at 2 in Cb. rewrite Nat2Z.id in Ca, Cb. rewrite E in Ca. lia.
Qed.

Lemma adj_shape_transpose i ax : transpose_axes_okb i ax = true -> adj_shape_ok (Transpose i (Some ax)).
Proof.
  intros Hp o i' H. destruct (transpose_adj_shape i ax Hp) as [E _]. cbv zeta in E.
  cbn [shapes adj] in *. cbv zeta. pose proof (finish_ok _ _ _ H) as Eo. inversion Eo; subst o i'. clear Eo.
  rewrite E. rewrite <- (map_map (fun a => a mod lenZ i) (fun a => getZ i a) ax) in *.
  apply finish_swap'. exact H.
Qed.

(* ---- Multiply / MatMul / RightMatMul: the adjoint is Reshape . Sum . M with fitting shapes ---- *)
Lemma shapes_reshape_pos o i : all_pos o = true -> all_pos i = true -> shapes (Reshape o i) = Ok (o, i).
Proof. intros H1 H2. cbn [shapes]. unfold finish. rewrite H1, H2. reflexivity. Qed.

Lemma multiply_adj_form i m c : wf (Multiply i m c) = true -> exists o os axes,
  shapes (Multiply i m c) = Ok (o, i) /\
  adj (Multiply i m c) = Compose [Reshape i os; Sum o axes; Multiply o m (negb c)] /\
  shapes (Reshape i os) = Ok (i, os) /\ prodZ i = prodZ os /\
  shapes (Sum o axes) = Ok (os, o) /\ shapes (Multiply o m (negb c)) = Ok (o, o).
Proof.
  intros Hwf. set (ms := mshape_of m).
  destruct (wf_multiply _ _ _ Hwf) as (Hpi & o & Ho & Hpo & Hsh). fold ms in Ho.
  destruct (multiply_wf_facts i ms Hpi o Ho) as [Eo Hax].
  set (ie := mul_ie i ms) in *. set (me := mul_me i ms) in *.
  rewrite <- Eo in Hax.
  destruct (ax3_len _ _ _ Hax) as [L1 L2].
  set (mask := bmask ie me o). set (os := mrem mask o).
  set (axes := sum_axes_loop ie me o 0).
  assert (HpoA : all_pos (o ++ []) = true) by (rewrite app_nil_r; exact Hpo).
  destruct (shapes_sum_axes ie me o 0%nat [] L1 L2 eq_refl HpoA) as [En HS].
  rewrite !app_nil_r in HS, En. cbn [repeat] in HS. rewrite app_nil_r in HS. fold axes in HS, En. fold mask in HS. fold os in HS.
  assert (HM : shapes (Multiply o m (negb c)) = Ok (o, o)).
  { apply (shapes_multiply_self i ms); [reflexivity| exact Hax| exact Hpo]. }
  assert (Eadj : adj (Multiply i m c) = Compose [Reshape i os; Sum o axes; Multiply o m (negb c)]).
  { cbn [adj]. unfold oshape_of. rewrite Hsh. rewrite HM.
    unfold multiply_adjoint_sum_axes. fold ms. rewrite expand_eq. fold ie me axes.
    rewrite HS. reflexivity. }
  assert (Hpos : all_pos os = true) by (apply all_pos_spec, mrem_pos, all_pos_spec; exact Hpo).
  assert (EP : prodZ os = prodZ i).
  { unfold os, mask. rewrite (ax3_prod _ _ _ Hax). unfold ie. rewrite mul_ie_eq. apply prodZ_ones. }
  exists o, os, axes. repeat split; try assumption; [apply shapes_reshape_pos; assumption| symmetry; exact EP].
Qed.

Lemma matmul_adj_form i a aj : wf (MatMul i a aj) = true -> exists o o' os axes,
  shapes (MatMul i a aj) = Ok (o, i) /\
  adj (MatMul i a aj) = Compose [Reshape i os; Sum o' axes; MatMul o a (negb aj)] /\
  shapes (Reshape i os) = Ok (i, os) /\ prodZ i = prodZ os /\
  shapes (Sum o' axes) = Ok (os, o') /\ shapes (MatMul o a (negb aj)) = Ok (o', o).
Proof.
  intros Hwf. set (ms := ashape_of a).
  assert (Hw : all_pos i = true /\ exists o, matmul_oshape i ms aj = Ok o /\ all_pos o = true /\
                                             shapes (MatMul i a aj) = Ok (o, i)).
  { unfold wf in Hwf. cbn [shapes] in *. fold ms in Hwf |- *. destruct (matmul_oshape i ms aj) as [o|]; [|discriminate].
    cbn [bind] in *. unfold finish in *. destruct (all_pos o && all_pos i) eqn:E; [|discriminate].
    apply andb_true_iff in E. destruct E. split; [assumption|]. exists o. auto. }
  destruct Hw as (Hpi & o & Ho & Hpo & Hsh).
  destruct (matmul_oshape_split i ms aj o Hpi Ho) as (ib & mb & ob & K & C & Rr & Eie & Eme & Hax & Eo & HK & HC).
  subst o.
  destruct (ax3_len _ _ _ Hax) as [L1 L2].
  assert (Lo : length (ob ++ [Rr; C]) = Nat.max (length i) (length ms)).
  { rewrite <- (mul_ie_len i ms), Eie, !app_length, L1. reflexivity. }
  assert (HpRC : all_pos ob = true /\ (0 < Rr)%Z).
  { rewrite all_pos_app in Hpo. apply andb_true_iff in Hpo. destruct Hpo as [H1 H2]. split; [exact H1|].
    apply all_pos_spec in H2. inversion H2; assumption. }
  destruct HpRC as [Hpob HR].
  set (o := ob ++ [Rr; C]) in *. set (o' := ob ++ [K; C]).
  assert (Hpo' : all_pos o' = true).
  { unfold o'. rewrite all_pos_app, Hpob. apply all_pos_spec. repeat constructor; assumption. }
  pose proof (expand_o i ms o Lo) as Exo.
  assert (Eoie : mul_ie o ms = ob ++ [Rr; C]) by (unfold mul_ie; rewrite Exo; reflexivity).
  assert (Eome : mul_me o ms = mul_me i ms) by (unfold mul_me; rewrite Exo; reflexivity).
  destruct (ax3_self _ _ _ Hax) as [Sb1 Sb2].
  assert (HMo : matmul_oshape o ms (negb aj) = Ok o').
  { apply (matmul_oshape_build o ms (negb aj) ob mb ob Rr C K); [exact Eoie| | lia| exact Sb1| exact Sb2].
    rewrite Eome, Eme. destruct aj; reflexivity. }
  assert (HM : shapes (MatMul o a (negb aj)) = Ok (o', o)).
  { cbn [shapes]. fold ms. rewrite HMo. cbn [bind]. unfold finish. rewrite Hpo', Hpo. reflexivity. }
  set (axes := sum_axes_loop ib mb ob 0).
  set (mask := bmask ib mb ob ++ [false; false]).
  set (os := mrem mask o').
  destruct (shapes_sum_axes ib mb ob 2%nat [K; C] L1 L2 eq_refl Hpo') as [En HS].
  fold axes in En, HS. cbn [repeat] in HS. fold mask o' in HS, En. fold os in HS.
  assert (Eax : matmul_adjoint_sum_axes o i ms = axes).
  { unfold matmul_adjoint_sum_axes. rewrite expand_eq, Eie, Eme.
    replace (length (ib ++ [K; C]) - 2)%nat with (length ib) by (rewrite app_length; simpl; lia).
    rewrite firstn_pre. rewrite L1, <- L2, firstn_pre.
    unfold o. replace (length (ob ++ [Rr; C]) - 2)%nat with (length ob) by (rewrite app_length; simpl; lia).
    rewrite firstn_pre. reflexivity. }
  assert (Eadj : adj (MatMul i a aj) = Compose [Reshape i os; Sum o' axes; MatMul o a (negb aj)]).
  { cbn [adj]. unfold oshape_of. rewrite Hsh. rewrite HM. fold ms. rewrite Eax. rewrite HS. reflexivity. }
  assert (Hpos : all_pos os = true) by (apply all_pos_spec, mrem_pos, all_pos_spec; exact Hpo').
  assert (EP : prodZ os = prodZ i).
  { destruct (ax3_app2 ib mb ob K C Hax HK HC) as [Hax' Em].
    unfold os, mask, o'. rewrite <- Em, (ax3_prod _ _ _ Hax'), <- Eie, mul_ie_eq. apply prodZ_ones. }
  exists o, o', os, axes. repeat split; try assumption; [apply shapes_reshape_pos; assumption| symmetry; exact EP].
Qed.

Lemma right_matmul_adj_form i a aj : wf (RightMatMul i a aj) = true -> exists o o' os axes,
  shapes (RightMatMul i a aj) = Ok (o, i) /\
  adj (RightMatMul i a aj) = Compose [Reshape i os; Sum o' axes; RightMatMul o a (negb aj)] /\
  shapes (Reshape i os) = Ok (i, os) /\ prodZ i = prodZ os /\
  shapes (Sum o' axes) = Ok (os, o') /\ shapes (RightMatMul o a (negb aj)) = Ok (o', o).
Proof.
  intros Hwf. set (ms := ashape_of a).
  assert (Hw : all_pos i = true /\ exists o, right_matmul_oshape i ms aj = Ok o /\ all_pos o = true /\
                                             shapes (RightMatMul i a aj) = Ok (o, i)).
  { unfold wf in Hwf. cbn [shapes] in *. fold ms in Hwf |- *. destruct (right_matmul_oshape i ms aj) as [o|]; [|discriminate].
    cbn [bind] in *. unfold finish in *. destruct (all_pos o && all_pos i) eqn:E; [|discriminate].
    apply andb_true_iff in E. destruct E. split; [assumption|]. exists o. auto. }
  destruct Hw as (Hpi & o & Ho & Hpo & Hsh).
  destruct (right_matmul_oshape_split i ms aj o Hpi Ho) as (ib & mb & ob & K & C & Rr & Eie & Eme & Hax & Eo & HK & HR).
  subst o.
  destruct (ax3_len _ _ _ Hax) as [L1 L2].
  assert (Lo : length (ob ++ [Rr; C]) = Nat.max (length i) (length ms)).
  { rewrite <- (mul_ie_len i ms), Eie, !app_length, L1. reflexivity. }
  assert (HpRC : all_pos ob = true /\ (0 < C)%Z).
  { rewrite all_pos_app in Hpo. apply andb_true_iff in Hpo. destruct Hpo as [H1 H2]. split; [exact H1|].
    apply all_pos_spec in H2. inversion H2 as [|? ? _ H3]; subst. inversion H3; assumption. }
  destruct HpRC as [Hpob HC].
  set (o := ob ++ [Rr; C]) in *. set (o' := ob ++ [Rr; K]).
  assert (Hpo' : all_pos o' = true).
  { unfold o'. rewrite all_pos_app, Hpob. apply all_pos_spec. repeat constructor; assumption. }
  pose proof (expand_o i ms o Lo) as Exo.
  assert (Eoie : mul_ie o ms = ob ++ [Rr; C]) by (unfold mul_ie; rewrite Exo; reflexivity).
  assert (Eome : mul_me o ms = mul_me i ms) by (unfold mul_me; rewrite Exo; reflexivity).
  destruct (ax3_self _ _ _ Hax) as [Sb1 Sb2].
  assert (HMo : right_matmul_oshape o ms (negb aj) = Ok o').
  { apply (right_matmul_oshape_build o ms (negb aj) ob mb ob C K Rr); [exact Eoie| | lia| exact Sb1| exact Sb2].
    rewrite Eome, Eme. destruct aj; reflexivity. }
  assert (HM : shapes (RightMatMul o a (negb aj)) = Ok (o', o)).
  { cbn [shapes]. fold ms. rewrite HMo. cbn [bind]. unfold finish. rewrite Hpo', Hpo. reflexivity. }
  set (axes := sum_axes_loop ib mb ob 0).
  set (mask := bmask ib mb ob ++ [false; false]).
  set (os := mrem mask o').
  destruct (shapes_sum_axes ib mb ob 2%nat [Rr; K] L1 L2 eq_refl Hpo') as [En HS].
  fold axes in En, HS. cbn [repeat] in HS. fold mask o' in HS, En. fold os in HS.
  assert (Eax : matmul_adjoint_sum_axes o i ms = axes).
  { unfold matmul_adjoint_sum_axes. rewrite expand_eq, Eie, Eme.
    replace (length (ib ++ [Rr; K]) - 2)%nat with (length ib) by (rewrite app_length; simpl; lia).
    rewrite firstn_pre. rewrite L1, <- L2, firstn_pre.
    unfold o. replace (length (ob ++ [Rr; C]) - 2)%nat with (length ob) by (rewrite app_length; simpl; lia).
    rewrite firstn_pre. reflexivity. }
  assert (Eadj : adj (RightMatMul i a aj) = Compose [Reshape i os; Sum o' axes; RightMatMul o a (negb aj)]).
  { cbn [adj]. unfold oshape_of. rewrite Hsh. rewrite HM. fold ms. rewrite Eax. rewrite HS. reflexivity. }
  assert (Hpos : all_pos os = true) by (apply all_pos_spec, mrem_pos, all_pos_spec; exact Hpo').
  assert (EP : prodZ os = prodZ i).
  { destruct (ax3_app2 ib mb ob Rr K Hax HR HK) as [Hax' Em].
    unfold os, mask, o'. rewrite <- Em, (ax3_prod _ _ _ Hax'), <- Eie, mul_ie_eq. apply prodZ_ones. }
  exists o, o', os, axes. repeat split; try assumption; [apply shapes_reshape_pos; assumption| symmetry; exact EP].
Qed.

Lemma wf_of_shapes A s : shapes A = Ok s -> wf A = true.
Proof. intros H. unfold wf. rewrite H. reflexivity. Qed.

Theorem adj_shape_multiply i m c : adj_shape_ok (Multiply i m c).
Proof.
  intros o0 i0 H. destruct (multiply_adj_form i m c (wf_of_shapes _ _ H)) as (o & os & axes & Hsh & Eadj & H1 & _ & H2 & H3).
  rewrite Hsh in H. inversion H; subst o0 i0. rewrite Eadj. exact (compose3_shapes _ _ _ _ _ _ _ H1 H2 H3).
Qed.

Theorem adj_shape_matmul i a aj : adj_shape_ok (MatMul i a aj).
Proof.
  intros o0 i0 H. destruct (matmul_adj_form i a aj (wf_of_shapes _ _ H)) as (o & o' & os & axes & Hsh & Eadj & H1 & _ & H2 & H3).
  rewrite Hsh in H. inversion H; subst o0 i0. rewrite Eadj. exact (compose3_shapes _ _ _ _ _ _ _ H1 H2 H3).
Qed.

Theorem adj_shape_right_matmul i a aj : adj_shape_ok (RightMatMul i a aj).
Proof.
  intros o0 i0 H. destruct (right_matmul_adj_form i a aj (wf_of_shapes _ _ H)) as (o & o' & os & axes & Hsh & Eadj & H1 & _ & H2 & H3).
  rewrite Hsh in H. inversion H; subst o0 i0. rewrite Eadj. exact (compose3_shapes _ _ _ _ _ _ _ H1 H2 H3).
Qed.

(* ================================================================ (2) one predicate, the grand theorem *)
(* every leaf class with a modelled denotation, under its boolean side condition:
   LinopLeavesA.proven_nodeA  (Identity, Flip, Downsample, Upsample, scalar Multiply, Reshape, Resize, Transpose,
                               Circshift, Slice, Embed, Sum, Tile)
   LinopLeavesB2.proven_nodeB2 (Multiply by array or scalar, MatMul, RightMatMul, ArrayToBlocks, BlocksToArray) *)
Definition proven_all (L : linop) : bool := proven_nodeA L || proven_nodeB2 L.

(* leaves whose denotation is the oracle [orc] (numpy / pywt / numba-interp / scipy backed); their adjointness is
   the subject of the C05 / C06 / C07 / C08 / C10 developments *)
Definition library_backed (L : linop) : bool :=
  match L with
  | FFT _ _ _ | IFFT _ _ _ | Interpolate _ _ _ _ _ | Gridding _ _ _ _ _ | Wavelet _ _ _ _ _
  | InverseWavelet _ _ _ _ _ | NUFFT _ _ _ _ _ | NUFFTAdjoint _ _ _ _
  | ConvolveData _ _ _ _ _ | ConvolveDataAdjoint _ _ _ _ _ | ConvolveFilter _ _ _ _ _
  | ConvolveFilterAdjoint _ _ _ _ _ => true
  | _ => false
  end.

(* the two families of leaves are disjoint *)
Lemma library_backed_disjoint L : library_backed L = true -> proven_all L = false.
Proof. intros E. destruct L; try discriminate E; reflexivity. Qed.

Theorem proven_all_shape L : proven_all L = true -> adj_shape_ok L.
Proof.
  unfold proven_all. intros H.
  destruct L; try discriminate H;
    try (apply adj_shape_leaf; reflexivity);
    try (apply adj_shape_multiply); try (apply adj_shape_matmul); try (apply adj_shape_right_matmul).
  (* Transpose *)
  destruct axes as [ax|]; [| apply adj_shape_leaf; reflexivity].
  apply adj_shape_transpose. cbn [proven_nodeA proven_nodeB2] in H. rewrite orb_false_r in H. exact H.
Qed.

Section All.
  Variable R : StarRing.
  Add Ring RringAll : (SRth R).
  Notation farr := (list Z -> R).
  Variable arr : Z -> farr.
  Variable scal : Z -> R.
  Variable orc : linop -> farr -> farr.
  Notation D := (D R arr scal orc).
  Notation apair := (apair R arr scal orc).
  Local Open Scope sr_scope.

  Theorem proven_all_apair L : proven_all L = true -> wf L = true -> apair L.
  Proof.
    unfold proven_all. intros H Hwf. apply orb_true_iff in H. destruct H as [H|H].
    - apply proven_nodeA_apair; assumption.
    - apply proven_nodeB2_apair; assumption.
  Qed.

  Theorem proven_all_leaf_ok L : proven_all L = true -> wf L = true -> leaf_ok R arr scal orc L.
  Proof. intros H Hwf. split; [apply proven_all_apair; assumption| apply proven_all_shape; exact H]. Qed.

  (* THE theorem: every expression over all six combinators; non-library leaves pass a boolean check, library-backed
     leaves bring their own adjointness (and swapped shapes) *)
  Theorem adj_correct_all A :
    wf A = true ->
    nodes_ok' (fun L => (proven_all L = true /\ wf L = true) \/
                        (library_backed L = true /\ leaf_ok R arr scal orc L)) A ->
    apair A /\ adj_shape_ok A.
  Proof.
    intros Hwf Hn. apply adj_correct_stack; [exact Hwf|].
    eapply nodes_ok'_impl; [|exact Hn]. intros L [[Hp Hw]|[_ Hl]]; [apply proven_all_leaf_ok; assumption| exact Hl].
  Qed.

  (* library-backed leaves have swapped shapes for every parameter value: only their adjointness is an input *)
  Theorem library_backed_shape L : library_backed L = true -> adj_shape_ok L.
  Proof. intros H. apply adj_shape_leaf. destruct L; try discriminate H; reflexivity. Qed.

  Theorem adj_correct_all' A :
    wf A = true ->
    nodes_ok' (fun L => (proven_all L = true /\ wf L = true) \/ (library_backed L = true /\ apair L)) A ->
    apair A /\ adj_shape_ok A.
  Proof.
    intros Hwf Hn. apply adj_correct_all; [exact Hwf|].
    eapply nodes_ok'_impl; [|exact Hn]. intros L [H|[Hb Hl]]; [left; exact H| right].
    split; [exact Hb| split; [exact Hl| apply library_backed_shape; exact Hb]].
  Qed.

  (* no library-backed leaf: NO hypothesis besides wf and the boolean check *)
  Theorem adj_correct_all_proven A :
    wf A = true -> nodes_ok' (fun L => proven_all L = true /\ wf L = true) A -> apair A /\ adj_shape_ok A.
  Proof.
    intros Hwf Hn. apply adj_correct_all; [exact Hwf|].
    eapply nodes_ok'_impl; [|exact Hn]. intros L H. left. exact H.
  Qed.
End All.

(* ================================================================ (3) the adjoint of the adjoint *)
Section AdjAdj.
  Variable R : StarRing.
  Add Ring RringAA : (SRth R).
  Notation farr := (list Z -> R).
  Variable arr : Z -> farr.
  Variable scal : Z -> R.
  Variable orc : linop -> farr -> farr.
  Notation D := (D R arr scal orc).
  Notation apair := (apair R arr scal orc).
  Local Open Scope sr_scope.

  (* an array is determined on a box by its inner products with the indicator arrays *)
  Lemma inner_indicator s (F : farr) o : inbox s o ->
    inner s F (fun k => if idx_eqb k o then 1 else 0) = F o.
  Proof.
    intros Ho. unfold inner.
    rewrite (sumB_ext R s _ (fun k => if idx_eqb k o then F k else 0)).
    - apply sumB_single. exact Ho.
    - intros k _. destruct (idx_eqb k o); [rewrite conj_one| rewrite conj_zero]; ring.
  Qed.

  (* A^HH x = A x on the output box, whenever A and A^H both satisfy the adjoint identity *)
  Theorem adj_adj_acts A : wf A = true -> apair A -> apair (adj A) -> adj_shape_ok A ->
    forall x o, inbox (oshape_of A) o -> D (adj (adj A)) x o = D A x o.
  Proof.
    intros Hwf HA HA' Hs x o Ho.
    destruct (adj_shape_ok_of A Hwf Hs) as (_ & E1 & E2).
    unfold apair, LinopTheory.apair in HA, HA'. rewrite E1, E2 in HA'.
    apply adjoint_pair_sym in HA'.
    rewrite <- (inner_indicator (oshape_of A) (D (adj (adj A)) x) o Ho).
    rewrite <- (inner_indicator (oshape_of A) (D A x) o Ho).
    rewrite HA', HA. reflexivity.
  Qed.
End AdjAdj.

(* ---- the proven fragment is closed under adj ---- *)
Definition provenP (L : linop) : Prop := proven_all L = true /\ wf L = true.

Lemma nodes_compose_iff Q l : nodes_ok' Q (Compose l) <-> Forall (nodes_ok' Q) l.
Proof. cbn [nodes_ok']. apply nodes_ok'_list. Qed.

Lemma nodes_mkCompose Q l : Forall (nodes_ok' Q) l -> nodes_ok' Q (mkCompose l).
Proof.
  intros H. unfold mkCompose. apply nodes_compose_iff. unfold flatten_compose.
  induction H as [|a l Ha _ IH]; simpl; [constructor|]. apply Forall_app. split; [|exact IH].
  destruct a; try (constructor; [exact Ha| constructor]).
  apply nodes_compose_iff. exact Ha.
Qed.

Lemma nodupb_complete l : NoDup l -> nodupb l = true.
Proof.
  induction 1 as [|a l Hn _ IH]; simpl; [reflexivity|]. rewrite IH, andb_true_r.
  destruct (memZ a l) eqn:E; [|reflexivity]. apply memZ_In in E. contradiction.
Qed.

Lemma is_permb_complete n l : is_perm n l -> is_permb n l = true.
Proof.
  intros (L & F & ND). unfold is_permb. rewrite (nodupb_complete l ND), andb_true_r.
  apply andb_true_iff. split; [apply Nat.eqb_eq; exact L|].
  apply forallb_forall. intros a Ha. rewrite Forall_forall in F. specialize (F a Ha).
  apply andb_true_iff. split; [apply Z.leb_le| apply Z.ltb_lt]; lia.
Qed.

Lemma provenP_leaf3 A1 A2 A3 : provenP A1 -> provenP A2 -> provenP A3 ->
  is_comb A1 = false -> is_comb A2 = false -> is_comb A3 = false ->
  nodes_ok' provenP (Compose [A1; A2; A3]).
Proof.
  intros H1 H2 H3 C1 C2 C3. apply nodes_compose_iff.
  repeat constructor; [destruct A1| destruct A2| destruct A3]; try discriminate; assumption.
Qed.

Theorem proven_leaf_closed L : is_comb L = false -> provenP L -> nodes_ok' provenP (adj L).
Proof.
  intros Hc [Hp Hwf].
  pose proof (proven_all_shape L Hp) as Hs.
  destruct (adj_shape_ok_of L Hwf Hs) as (Hwf' & _ & _).
  destruct L; try discriminate Hc; try discriminate Hp.
  (* the adjoint is again a leaf of a proven class: check its side condition *)
  all: try (cbn [adj nodes_ok'] in *; split; [| exact Hwf']; unfold proven_all in *; cbn [proven_nodeA proven_nodeB2 proven_node] in *; exact Hp).
  - (* Reshape *) cbn [adj nodes_ok'] in *. split; [|exact Hwf']. unfold proven_all in *. cbn [proven_nodeA proven_nodeB2] in *.
    rewrite Z.eqb_sym. exact Hp.
  - (* Transpose *) destruct axes as [ax|].
    + cbn [adj nodes_ok'] in *. cbv zeta in *. split; [|exact Hwf']. unfold proven_all in *. cbn [proven_nodeA proven_nodeB2] in *.
      rewrite orb_false_r in *. destruct (transpose_adj_shape ishape ax Hp) as [_ Hperm]. cbv zeta in Hperm.
      unfold transpose_axes_okb. apply is_permb_complete. exact Hperm.
    + cbn [adj nodes_ok'] in *. split; [reflexivity| exact Hwf'].
  - (* MatMul *)
    destruct (matmul_adj_form ishape mat adjoint Hwf) as (o & o' & os & axes & Hsh & Eadj & H1 & EP & H2 & H3).
    rewrite Eadj. apply provenP_leaf3; try reflexivity; (split; [|eapply wf_of_shapes; eassumption]); try reflexivity;
      try (unfold proven_all; cbn [proven_nodeB2]; apply orb_true_r).
    unfold proven_all. cbn [proven_nodeA]. rewrite EP, Z.eqb_refl. reflexivity.
  - (* RightMatMul *)
    destruct (right_matmul_adj_form ishape mat adjoint Hwf) as (o & o' & os & axes & Hsh & Eadj & H1 & EP & H2 & H3).
    rewrite Eadj. apply provenP_leaf3; try reflexivity; (split; [|eapply wf_of_shapes; eassumption]); try reflexivity;
      try (unfold proven_all; cbn [proven_nodeB2]; apply orb_true_r).
    unfold proven_all. cbn [proven_nodeA]. rewrite EP, Z.eqb_refl. reflexivity.
  - (* Multiply *)
    destruct (multiply_adj_form ishape m cj Hwf) as (o & os & axes & Hsh & Eadj & H1 & EP & H2 & H3).
    rewrite Eadj. apply provenP_leaf3; try reflexivity; (split; [|eapply wf_of_shapes; eassumption]); try reflexivity;
      try (unfold proven_all; cbn [proven_nodeB2]; apply orb_true_r).
    unfold proven_all. cbn [proven_nodeA]. rewrite EP, Z.eqb_refl. reflexivity.
  - (* Resize *) cbn [adj nodes_ok'] in *. split; [|exact Hwf']. unfold proven_all in *. cbn [proven_nodeA proven_nodeB2] in *.
    rewrite orb_false_r in *. rewrite (Nat.max_comm (length oshape) (length ishape)), andb_comm. exact Hp.
Qed.

Section ClosedGen.
  Variables Q Q' : linop -> Prop.
  Hypothesis Hleaf : forall L, is_comb L = false -> wf L = true -> Q L -> nodes_ok' Q' (adj L).

  Lemma Forall_closed_members (ls : list linop) :
    Forall (fun a => wf a = true -> nodes_ok' Q a -> nodes_ok' Q' (adj a)) ls ->
    Forall (fun a => wf a = true) ls -> Forall (nodes_ok' Q) ls ->
    Forall (nodes_ok' Q') (map adj ls).
  Proof.
    induction 1 as [|a ls Ha _ IH]; intros Hw Hn; simpl; [constructor|].
    inversion Hw; inversion Hn; subst. constructor; auto.
  Qed.

  (* adj maps a tree (through all six combinators) whose leaves satisfy Q to a tree whose leaves satisfy Q',
     as soon as it does so leaf by leaf; python's flattening of nested compositions included *)
  Theorem closed_adj_gen A : wf A = true -> nodes_ok' Q A -> nodes_ok' Q' (adj A).
  Proof.
    induction A using linop_rect2; intros Hwf Hn.
    - apply Hleaf; [destruct A; try contradiction; reflexivity| exact Hwf|].
      destruct A; try contradiction; exact Hn.
    - change (adj (Conj A)) with (Conj (adj A)). cbn [nodes_ok'] in *. apply IHA; [exact Hwf| exact Hn].
    - pose proof (wf_members _ ls (or_introl eq_refl) Hwf) as Hw.
      apply nodes_ok'_list in Hn. change (adj (Add ls)) with (Add (map adj ls)).
      cbn [nodes_ok']. apply nodes_ok'_list. apply Forall_closed_members; assumption.
    - pose proof (wf_members _ ls (or_intror (or_introl eq_refl)) Hwf) as Hw.
      apply nodes_ok'_list in Hn. change (adj (Compose ls)) with (mkCompose (rev (map adj ls))).
      apply nodes_mkCompose. apply Forall_rev. apply Forall_closed_members; assumption.
    - pose proof (wf_members _ ls (or_intror (or_intror (or_introl (ex_intro _ ax eq_refl)))) Hwf) as Hw.
      apply nodes_ok'_list in Hn. change (adj (Hstack ls ax)) with (Vstack (map adj ls) ax).
      cbn [nodes_ok']. apply nodes_ok'_list. apply Forall_closed_members; assumption.
    - pose proof (wf_members _ ls (or_intror (or_intror (or_intror (or_introl (ex_intro _ ax eq_refl))))) Hwf) as Hw.
      apply nodes_ok'_list in Hn. change (adj (Vstack ls ax)) with (Hstack (map adj ls) ax).
      cbn [nodes_ok']. apply nodes_ok'_list. apply Forall_closed_members; assumption.
    - pose proof (wf_members _ ls (or_intror (or_intror (or_intror (or_intror (ex_intro _ oa (ex_intro _ ia eq_refl)))))) Hwf) as Hw.
      apply nodes_ok'_list in Hn. change (adj (Diag ls oa ia)) with (Diag (map adj ls) ia oa).
      cbn [nodes_ok']. apply nodes_ok'_list. apply Forall_closed_members; assumption.
  Qed.
End ClosedGen.

(* adj maps trees over proven leaves (through all six combinators) to trees over proven leaves *)
Theorem proven_closed_adj A : wf A = true -> nodes_ok' provenP A -> nodes_ok' provenP (adj A).
Proof.
  apply (closed_adj_gen provenP provenP). intros L Hc _ HL. apply proven_leaf_closed; assumption.
Qed.

(* the adjoint of a library-backed leaf is a library-backed leaf *)
Lemma library_backed_adj L : library_backed L = true -> library_backed (adj L) = true /\ is_comb (adj L) = false.
Proof. intros H. destruct L; try discriminate H; split; reflexivity. Qed.

Section AdjAdjProven.
  Variable R : StarRing.
  Notation farr := (list Z -> R).
  Variable arr : Z -> farr.
  Variable scal : Z -> R.
  Variable orc : linop -> farr -> farr.

  (* on the proven fragment the adjoint is again in the fragment, well-formed, with swapped shapes, and is the true
     adjoint of ITS adjoint *)
  Theorem adj_in_fragment A : wf A = true -> nodes_ok' provenP A ->
    wf (adj A) = true /\ nodes_ok' provenP (adj A) /\
    oshape_of (adj A) = ishape_of A /\ ishape_of (adj A) = oshape_of A /\
    apair R arr scal orc (adj A).
  Proof.
    intros Hwf Hn. destruct (adj_correct_all_proven R arr scal orc A Hwf Hn) as [_ Hs].
    destruct (adj_shape_ok_of A Hwf Hs) as (Hw' & E1 & E2).
    pose proof (proven_closed_adj A Hwf Hn) as Hn'.
    destruct (adj_correct_all_proven R arr scal orc (adj A) Hw' Hn') as [Hp' _]. auto.
  Qed.

  (* NO hypothesis: on the proven fragment, A.H.H acts like A *)
  Theorem adj_adj_acts_proven A : wf A = true -> nodes_ok' provenP A ->
    forall x o, inbox (oshape_of A) o ->
      LinopTheory.D R arr scal orc (adj (adj A)) x o = LinopTheory.D R arr scal orc A x o.
  Proof.
    intros Hwf Hn. destruct (adj_correct_all_proven R arr scal orc A Hwf Hn) as [Hp Hs].
    destruct (adj_in_fragment A Hwf Hn) as (_ & _ & _ & _ & Hp').
    apply adj_adj_acts; assumption.
  Qed.

  (* with library-backed leaves: A.H.H acts like A as soon as every such leaf L AND its adjoint leaf satisfy their own
     adjoint identity (e.g. FFT and IFFT, NUFFT and NUFFTAdjoint, ...) *)
  Theorem adj_adj_acts_all A :
    wf A = true ->
    nodes_ok' (fun L => provenP L \/
                        (library_backed L = true /\ apair R arr scal orc L /\ apair R arr scal orc (adj L))) A ->
    forall x o, inbox (oshape_of A) o ->
      LinopTheory.D R arr scal orc (adj (adj A)) x o = LinopTheory.D R arr scal orc A x o.
  Proof.
    intros Hwf Hn.
    set (Q' := fun L => (proven_all L = true /\ wf L = true) \/ (library_backed L = true /\ apair R arr scal orc L)).
    assert (H1 : nodes_ok' Q' A).
    { eapply nodes_ok'_impl; [|exact Hn]. intros L [H|(Hb & Hp & _)]; [left; exact H| right; auto]. }
    destruct (adj_correct_all' R arr scal orc A Hwf H1) as [Hp Hs].
    destruct (adj_shape_ok_of A Hwf Hs) as (Hw' & _ & _).
    assert (Hleaf : forall L, is_comb L = false -> wf L = true ->
              (provenP L \/ (library_backed L = true /\ apair R arr scal orc L /\ apair R arr scal orc (adj L))) ->
              nodes_ok' Q' (adj L)).
    { intros L Hc Hw [HP|(Hb & _ & Hpa)].
      - eapply nodes_ok'_impl; [|apply proven_leaf_closed; [exact Hc| exact HP]]. intros L0 H0. left. exact H0.
      - destruct (library_backed_adj L Hb) as [Hb' Hc'].
        assert (E : nodes_ok' Q' (adj L) = Q' (adj L)) by (destruct (adj L); try discriminate Hc'; reflexivity).
        rewrite E. right. split; assumption. }
    pose proof (closed_adj_gen _ Q' Hleaf A Hwf Hn) as H2.
    destruct (adj_correct_all' R arr scal orc (adj A) Hw' H2) as [Hp' _].
    apply adj_adj_acts; assumption.
  Qed.
End AdjAdjProven.

(* ---- the hypotheses are satisfiable: a tree through every combinator over leaves of many classes ---- *)
Example all_example :
  let H1 := Hstack [Identity [3; 2]; Transpose [2; 3] (Some [-1; 0])] None in
  let V1 := Vstack [Sum [3; 2] [-1]; Slice [3; 2] [SSlice None None None; SIdx 0]] (Some 0) in
  let Dg := Diag [Compose [V1; H1]; Compose [Reshape [6] [3; 2]; Multiply [2] (MArray (ARef 3 [3; 2])) false]] None None in
  let A := Add [Dg; Conj (op_lscale 7 Dg);
                Compose [BlocksToArray [12] [4] [2]; Transpose [4; 5] None; MatMul [2; 5] (ARef 1 [4; 2]) false;
                         ArrayToBlocks [14] [5] [9]]] in
  wf A = true /\ oshape_of A = [12] /\ ishape_of A = [14] /\ nodes_ok' provenP A /\ wf (adj A) = true.
Proof. vm_compute. repeat split; reflexivity. Qed.
