(* proofs/Espirit.v — the per-voxel ESPIRiT model (model/Espirit.v) over the real numbers:
   complex numbers are pairs of reals, coil vectors are lists.

   Proved: a normalised power-iteration step with non-zero iterate yields a unit l2 norm; the phase
   reference keeps the norm and makes coil 0 real and >= 0; the crop multiplies by exactly 0 or 1, hence
   "unit norm or exactly zero"; the eigenvalue estimate is >= 0; under the hypothesis that the per-voxel
   operator is an l2 contraction (the case of a projection-derived Gram matrix) the estimate is <= 1
   from the second update on. *)
From Coq Require Import Reals List Bool Lra Psatz.
From SV Require Import model.Espirit.
Import ListNotations.
Local Open Scope R_scope.

Definition Rltb (x y : R) : bool := if Rlt_dec x y then true else false.
Definition RE : EOps := mkEOps R 0 1 Rplus Rminus Rmult Rdiv Ropp sqrt Rltb.

Notation C := (@cplx RE).
Notation vnorm2 := (@norm2 RE).
Notation vnorm := (@norm RE).

(* equalities stated at type [ET RE] are equalities of reals *)
Ltac Req := match goal with |- @eq _ ?a ?b => change (@eq R a b) end.

(* ------------------------------------------------------------------ sums *)
Lemma fold_left_Rplus_acc (l : list R) (a : R) : fold_left Rplus l a = a + fold_left Rplus l 0.
Proof.
  revert a. induction l as [|x l IH]; intros a; simpl; [lra|].
  rewrite (IH (a + x)), (IH (0 + x)). lra.
Qed.

Lemma esum_nil : @esum RE [] = 0.
Proof. reflexivity. Qed.

Lemma esum_cons (x : R) (l : list R) : @esum RE (x :: l) = x + @esum RE l.
Proof. unfold esum. simpl. rewrite fold_left_Rplus_acc. lra. Qed.

Lemma cabs2_R (z : C) : @cabs2 RE z = fst z * fst z + snd z * snd z.
Proof.
  unfold cabs2, cabs. simpl. apply sqrt_sqrt. nra.
Qed.

Lemma cabs_nonneg (z : C) : 0 <= @cabs RE z.
Proof. unfold cabs. simpl. apply sqrt_pos. Qed.

Lemma cabs_sq (z : C) : @cabs RE z * @cabs RE z = fst z * fst z + snd z * snd z.
Proof. apply cabs2_R. Qed.

Lemma norm2_nil : vnorm2 [] = 0.
Proof. reflexivity. Qed.

Lemma norm2_cons (z : C) (l : list C) : vnorm2 (z :: l) = (fst z * fst z + snd z * snd z) + vnorm2 l.
Proof. unfold norm2. change (map (@cabs2 RE) (z :: l)) with (@cabs2 RE z :: map (@cabs2 RE) l). rewrite esum_cons, cabs2_R. reflexivity. Qed.

Lemma norm2_nonneg (l : list C) : 0 <= vnorm2 l.
Proof.
  induction l as [|z l IH]; [rewrite norm2_nil; lra|]. rewrite norm2_cons. nra.
Qed.

(* the eigenvalue estimate (a norm) is >= 0 *)
Lemma norm_nonneg (l : list C) : 0 <= vnorm l.
Proof. unfold norm. simpl. apply sqrt_pos. Qed.

Lemma norm_sq (l : list C) : vnorm l * vnorm l = vnorm2 l.
Proof. unfold norm. simpl. apply sqrt_sqrt. apply norm2_nonneg. Qed.

(* ------------------------------------------------------------------ normalisation *)
Lemma norm2_divr (l : list C) (n : R) :
  n <> 0 -> vnorm2 (map (fun z => @cdivr RE z n) l) = vnorm2 l / (n * n).
Proof.
  intros Hn. induction l as [|z l IH].
  - simpl. rewrite norm2_nil. Req. field. exact Hn.
  - simpl map. rewrite !norm2_cons, IH. unfold cdivr. simpl. Req. field. exact Hn.
Qed.

Theorem power_step_unit (A : list (list C)) (x : list C) :
  snd (@power_step RE A x) <> 0 -> vnorm2 (fst (@power_step RE A x)) = 1.
Proof.
  unfold power_step. cbn [fst snd]. intros Hn.
  rewrite norm2_divr by exact Hn. rewrite norm_sq.
  assert (H : vnorm2 (@matvec RE A x) <> 0).
  { intros H0. apply Hn. unfold norm. rewrite H0. apply sqrt_0. }
  Req. field. exact H.
Qed.

Lemma power_iter_last (A : list (list C)) (k : nat) : forall (x : list C) (e : R),
  @power_iter RE (S k) A x e = @power_step RE A (fst (@power_iter RE k A x e)).
Proof.
  induction k as [|k IH]; intros x e.
  - change (@power_iter RE 1 A x e) with (let '(x', n) := @power_step RE A x in (x', n)).
    change (fst (@power_iter RE 0 A x e)) with x.
    destruct (@power_step RE A x) as [x' n]. reflexivity.
  - change (@power_iter RE (S (S k)) A x e)
      with (let '(x', n) := @power_step RE A x in @power_iter RE (S k) A x' n).
    change (@power_iter RE (S k) A x e)
      with (let '(x', n) := @power_step RE A x in @power_iter RE k A x' n).
    destruct (@power_step RE A x) as [x' n]. apply IH.
Qed.

(* after any number >= 1 of normalised iterations with non-zero (last) iterate: unit l2 norm *)
Theorem power_iter_unit (A : list (list C)) (k : nat) (x : list C) (e : R) :
  snd (@power_iter RE (S k) A x e) <> 0 ->
  vnorm2 (fst (@power_iter RE (S k) A x e)) = 1 /\ vnorm (fst (@power_iter RE (S k) A x e)) = 1.
Proof.
  rewrite power_iter_last. intros H. pose proof (power_step_unit A _ H) as U.
  split; [exact U|]. unfold norm. rewrite U. apply sqrt_1.
Qed.

Theorem power_iter_eig_nonneg (A : list (list C)) (k : nat) (x : list C) (e : R) :
  0 <= snd (@power_iter RE (S k) A x e).
Proof. rewrite power_iter_last. unfold power_step. cbn [fst snd]. apply norm_nonneg. Qed.

(* stretch: an l2 contraction (in particular the image-domain Gram matrix of a projection) has
   eigenvalue estimate <= 1 from the second update on (the first one starts from the un-normalised ones) *)
Theorem power_iter_eig_le_one (A : list (list C)) (k : nat) (x : list C) (e : R) :
  (forall v : list C, vnorm2 (@matvec RE A v) <= vnorm2 v) ->
  snd (@power_iter RE (S k) A x e) <> 0 ->
  snd (@power_iter RE (S (S k)) A x e) <= 1.
Proof.
  intros Hc Hn. rewrite power_iter_last.
  destruct (power_iter_unit A k x e Hn) as [U _].
  unfold power_step. cbn [fst snd]. unfold norm.
  change (sqrt (vnorm2 (@matvec RE A (fst (@power_iter RE (S k) A x e)))) <= 1).
  rewrite <- sqrt_1. apply sqrt_le_1_alt.
  rewrite <- U. apply Hc.
Qed.

(* ------------------------------------------------------------------ phase reference *)
Lemma norm2_mul_unimodular (p : C) (l : list C) :
  fst p * fst p + snd p * snd p = 1 -> vnorm2 (map (fun z => @cmul RE z p) l) = vnorm2 l.
Proof.
  intros Hp. induction l as [|z l IH]; [reflexivity|].
  simpl map. rewrite !norm2_cons, IH. unfold cmul. simpl.
  destruct z as [a b]; destruct p as [c d]; simpl in *.
  replace ((a * c - b * d) * (a * c - b * d) + (a * d + b * c) * (a * d + b * c))
    with ((a * a + b * b) * (c * c + d * d)) by ring.
  rewrite Hp. ring.
Qed.

Lemma phase_head (a b r : R) :
  r <> 0 -> r * r = a * a + b * b ->
  a * (a / r) - b * - (b / r) = r /\ a * - (b / r) + b * (a / r) = 0 /\
  a / r * (a / r) + - (b / r) * - (b / r) = 1.
Proof.
  intros Hr Hs. split; [|split].
  - replace (a * (a / r) - b * - (b / r)) with ((a * a + b * b) / r) by (field; exact Hr).
    rewrite <- Hs. field. exact Hr.
  - field. exact Hr.
  - replace (a / r * (a / r) + - (b / r) * - (b / r)) with ((a * a + b * b) / (r * r)) by (field; exact Hr).
    rewrite <- Hs. field. exact Hr.
Qed.

Theorem phase_ref_spec (z0 : C) (t : list C) :
  @cabs RE z0 <> 0 ->
  vnorm2 (@phase_ref RE (z0 :: t)) = vnorm2 (z0 :: t) /\
  hd (@c0 RE) (@phase_ref RE (z0 :: t)) = (@cabs RE z0, 0) /\
  0 < @cabs RE z0.
Proof.
  intros Hr. pose proof (cabs_nonneg z0) as Hp. pose proof (cabs_sq z0) as Hs.
  destruct z0 as [a b]. cbn [fst snd] in Hs.
  unfold phase_ref.
  remember (@cabs RE (a, b)) as r eqn:Er. clear Er.
  destruct (phase_head a b r Hr Hs) as (H1 & H2 & H3).
  split; [|split].
  - apply norm2_mul_unimodular. unfold cconj, cdivr. cbn [fst snd]. exact H3.
  - cbn [map hd]. unfold cmul, cconj, cdivr. cbn [fst snd]. f_equal; [exact H1 | exact H2].
  - lra.
Qed.

(* ------------------------------------------------------------------ crop *)
Lemma crop_factor_01 (eig crop : R) :
  (@crop_factor RE eig crop = 1 /\ crop < eig) \/ (@crop_factor RE eig crop = 0 /\ ~ crop < eig).
Proof.
  unfold crop_factor. simpl. unfold Rltb. destruct (Rlt_dec crop eig); [left | right]; split; auto.
Qed.

Lemma map_cscale_one (l : list C) : map (@cscale RE 1) l = l.
Proof.
  induction l as [|[a b] l IH]; [reflexivity|]. simpl. rewrite IH. unfold cscale. simpl.
  f_equal. f_equal; ring.
Qed.

Lemma map_cscale_zero (l : list C) : Forall (fun z : C => z = (0, 0)) (map (@cscale RE 0) l).
Proof.
  induction l as [|[a b] l IH]; simpl; constructor; [|exact IH].
  unfold cscale. simpl. f_equal; ring.
Qed.

(* _output on a unit-norm iterate whose coil 0 is non-zero: unit norm or exactly zero, coil 0 real >= 0 *)
Theorem output_spec (crop eig : R) (z0 : C) (t : list C) :
  @cabs RE z0 <> 0 -> vnorm2 (z0 :: t) = 1 ->
  let m := @output RE crop (z0 :: t) eig in
  ((crop < eig /\ vnorm2 m = 1) \/ (~ crop < eig /\ Forall (fun z : C => z = (0, 0)) m)) /\
  snd (hd (@c0 RE) m) = 0 /\ 0 <= fst (hd (@c0 RE) m).
Proof.
  intros Hr Hu m. subst m. unfold output.
  destruct (phase_ref_spec z0 t Hr) as (Hn & Hh & Hpos).
  destruct (crop_factor_01 eig crop) as [[Hf Hc]|[Hf Hc]]; rewrite Hf.
  - rewrite map_cscale_one. split; [left; split; [exact Hc | rewrite Hn; exact Hu]|].
    rewrite Hh. cbn [fst snd]. split; [reflexivity | lra].
  - split; [right; split; [exact Hc | apply map_cscale_zero]|].
    remember (@phase_ref RE (z0 :: t)) as ph eqn:Eph.
    destruct ph as [|[wa wb] ph']; cbn [map hd].
    + unfold c0. cbn [fst snd]. split; [reflexivity | apply Rle_refl].
    + unfold cscale. cbn [fst snd]. split; [apply Rmult_0_l | rewrite Rmult_0_l; apply Rle_refl].
Qed.

(* ------------------------------------------------------------------ the whole voxel *)
Theorem espirit_voxel_spec (A : list (list C)) (k : nat) (x0 : list C) (eig0 crop : R) :
  let it := @power_iter RE (S k) A x0 eig0 in
  snd it <> 0 ->
  @cabs RE (hd (@c0 RE) (fst it)) <> 0 ->
  let m := fst (@espirit_voxel RE (S k) A x0 eig0 crop) in
  let eig := snd (@espirit_voxel RE (S k) A x0 eig0 crop) in
  ((crop < eig /\ vnorm2 m = 1) \/ (~ crop < eig /\ Forall (fun z : C => z = (0, 0)) m)) /\
  snd (hd (@c0 RE) m) = 0 /\ 0 <= fst (hd (@c0 RE) m) /\ 0 <= eig.
Proof.
  intros it Hn Hz m eig. subst m eig. unfold espirit_voxel. fold it.
  pose proof (power_iter_unit A k x0 eig0 Hn) as [U _]. fold it in U.
  pose proof (power_iter_eig_nonneg A k x0 eig0) as Hpos. fold it in Hpos.
  destruct it as [x e]. simpl in *.
  destruct x as [|z0 t].
  - simpl in Hz. exfalso. apply Hz. unfold cabs. simpl.
    replace (0 * 0 + 0 * 0) with 0 by ring. apply sqrt_0.
  - simpl in Hz. destruct (output_spec crop e z0 t Hz U) as (H1 & H2 & H3).
    split; [exact H1|]. split; [exact H2|]. split; [exact H3 | exact Hpos].
Qed.

Ltac nil0 := repeat match goal with |- context [@norm2 RE (@nil ?T)] => change (@norm2 RE (@nil T)) with 0 end.

(* non-vacuity: a 1-coil voxel with A = (1) and x0 = (1): all hypotheses above hold *)
Definition exA : list (list C) := [[(1, 0)]].
Definition exx : list C := [(1, 0)].

Lemma ex_rowdot (v : list C) :
  @matvec RE exA v = match v with [] => [(0, 0)] | z :: _ => [(0 + (1 * fst z - 0 * snd z), 0 + (1 * snd z + 0 * fst z))] end.
Proof. destruct v as [|[a b] t]; reflexivity. Qed.

Lemma ex_contraction : forall v : list C, vnorm2 (@matvec RE exA v) <= vnorm2 v.
Proof.
  intros v. rewrite ex_rowdot. destruct v as [|[a b] t].
  - rewrite norm2_cons. nil0. cbn [fst snd]. lra.
  - rewrite !norm2_cons. nil0. cbn [fst snd]. pose proof (norm2_nonneg t). nra.
Qed.

Lemma ex_norm : vnorm (@matvec RE exA exx) = 1.
Proof.
  unfold norm. rewrite ex_rowdot. unfold exx. rewrite norm2_cons. nil0. cbn [fst snd].
  replace ((0 + (1 * 1 - 0 * 0)) * (0 + (1 * 1 - 0 * 0)) + (0 + (1 * 0 + 0 * 1)) * (0 + (1 * 0 + 0 * 1)) + 0) with 1 by ring.
  apply sqrt_1.
Qed.

Lemma example_hypotheses :
  snd (@power_iter RE 1 exA exx 0) <> 0 /\
  @cabs RE (hd (@c0 RE) (fst (@power_iter RE 1 exA exx 0))) <> 0 /\
  (forall v : list C, vnorm2 (@matvec RE exA v) <= vnorm2 v).
Proof.
  rewrite power_iter_last. change (fst (@power_iter RE 0 exA exx 0)) with exx.
  unfold power_step. cbn [fst snd]. rewrite ex_norm.
  split; [lra|]. split; [|exact ex_contraction].
  rewrite ex_rowdot. unfold exx. cbn [map hd]. unfold cabs, cdivr. cbn [fst snd].
  change (sqrt ((0 + (1 * 1 - 0 * 0)) / 1 * ((0 + (1 * 1 - 0 * 0)) / 1) +
                (0 + (1 * 0 + 0 * 1)) / 1 * ((0 + (1 * 0 + 0 * 1)) / 1)) <> 0).
  replace ((0 + (1 * 1 - 0 * 0)) / 1 * ((0 + (1 * 1 - 0 * 0)) / 1) +
           (0 + (1 * 0 + 0 * 1)) / 1 * ((0 + (1 * 0 + 0 * 1)) / 1)) with 1 by field.
  rewrite sqrt_1. lra.
Qed.
