(* proofs/ProxComb.v — prox.py combinators over R: L2Reg closed form and its composition with
   proxh, Conj (Moreau, in subgradient / variational form), Stack (block separability, any
   alpha per block), UnitaryTransform, NoOp; each first for vectors as functions, then tied to the
   model term [apply]. *)
From Coq Require Import Reals Lra Lia List Bool Psatz.
From SV Require Import model.Prox proofs.ProxBase proofs.ProxThresh.
Import ListNotations.
Local Open Scope R_scope.

Section Comb.
  Context {El : Elem RR} (LW : ElemLaws El).
  Notation ei := (ein LW).
  Notation esc := (@escale RR El).
  Notation V := (nat -> El).
  Notation applyR := (@apply RR El).
  Notation L2RegR := (@L2Reg RR El).
  Notation ConjR := (@Conj RR El).
  Notation StackR := (@Stack RR El).

  (* functions that only look at the first n entries *)
  Definition localP (n : nat) (P : V -> Prop) := forall x x', (forall i, (i < n)%nat -> x i = x' i) -> P x -> P x'.
  Definition localF (n : nat) (F : V -> R) := forall x x', (forall i, (i < n)%nat -> x i = x' i) -> F x = F x'.

  Lemma prox_at_ext n dom ag y y' p p' :
    localP n dom -> localF n ag ->
    (forall i, (i < n)%nat -> y i = y' i) -> (forall i, (i < n)%nat -> p i = p' i) ->
    prox_at LW n dom ag y p -> prox_at LW n dom ag y' p'.
  Proof.
    intros Ld Lf Hy Hp [H1 H2]. split; [eapply Ld; eauto|].
    intros z Hz. specialize (H2 z Hz). rewrite <- (Lf p p' Hp).
    rewrite (dotn_ext LW n (fsub y' p') (fsub y p) (fsub z p') (fsub z p)); auto;
      intros i Hi; unfold fsub; rewrite ?Hy, ?Hp; auto.
  Qed.

  (* ------------------------------------------------------------ NoOp *)
  Theorem noop_prox n (y : V) : prox_at LW n (fun _ => True) (fun _ => 0) y y.
  Proof.
    split; auto. intros z _. dotx LW. lra.
  Qed.

  (* ------------------------------------------------------------ L2Reg *)
  (* q = (y + a*l*z)/(1 + a*l), known through its inner products; r = prox_{a/(1+a l) h}(q).
     Then r = prox_{a (l/2 |.-z|^2 + h)}(y). *)
  Theorem l2reg_compose n a l (z y q r : V) (dom : V -> Prop) (h : V -> R) :
    0 < a -> 0 <= l ->
    (forall i, (i < n)%nat -> forall u, ei (q i) u = (ei (y i) u + a * l * ei (z i) u) / (1 + a * l)) ->
    prox_at LW n dom (fun x => a / (1 + a * l) * h x) q r ->
    prox_at LW n dom (fun x => a * (l / 2 * dotn LW n (fsub x z) (fsub x z)) + a * h x) y r.
  Proof.
    intros Ha Hl Hq [Hd Hvi]. split; auto. intros w Hw. specialize (Hvi w Hw).
    assert (Ht : 0 < 1 + a * l) by nra.
    assert (Hqd : forall v, dotn LW n q v = (dotn LW n y v + a * l * dotn LW n z v) / (1 + a * l)).
    { intros v. unfold dotn. unfold Rdiv. rewrite <- sumn_scal, <- sumn_plus, Rmult_comm, <- sumn_scal.
      apply sumn_ext. intros i Hi. rewrite Hq by auto. unfold Rdiv. ring. }
    revert Hvi. dotx LW. rewrite !Hqd.
    rewrite (dotn_sym LW n r z), (dotn_sym LW n w z).
    pose proof (dotn_pos LW n (fsub w r)) as Hpos. revert Hpos. dotx LW. rewrite (dotn_sym LW n w r).
    set (yw := dotn LW n y w). set (zw := dotn LW n z w). set (yr := dotn LW n y r). set (zr := dotn LW n z r).
    set (rw := dotn LW n r w). set (rr := dotn LW n r r). set (ww := dotn LW n w w). set (zz := dotn LW n z z).
    intros Hpos Hvi.
    apply (Rmult_le_compat_l (1 + a * l)) in Hvi; [|lra].
    replace ((1 + a * l) * (a / (1 + a * l) * h w)) with (a * h w) in Hvi by (field; lra).
    replace ((1 + a * l) * (a / (1 + a * l) * h r + ((yw + a * l * zw) / (1 + a * l) - (yr + a * l * zr) / (1 + a * l) - (rw - rr))))
      with (a * h r + (yw + a * l * zw - (yr + a * l * zr) - (1 + a * l) * (rw - rr))) in Hvi by (field; lra).
    assert (0 <= a * l) by nra. nra.
  Qed.

  (* the closed form alone (proxh = None): THE minimiser of 1/2|x-y|^2 + a*l/2 |x-z|^2 *)
  Corollary l2reg_closed_form n a l (z y q : V) :
    0 < a -> 0 <= l ->
    (forall i, (i < n)%nat -> forall u, ei (q i) u = (ei (y i) u + a * l * ei (z i) u) / (1 + a * l)) ->
    prox_at LW n (fun _ => True) (fun x => a * (l / 2 * dotn LW n (fsub x z) (fsub x z))) y q.
  Proof.
    intros Ha Hl Hq.
    pose proof (l2reg_compose n a l z y q q (fun _ => True) (fun _ => 0) Ha Hl Hq) as H.
    destruct H as [_ H].
    - split; auto. intros w _. dotx LW. lra.
    - split; auto. intros w Hw. specialize (H w Hw). lra.
  Qed.

  (* model: the L2Reg node computes exactly that q, and hands it to proxh with step a/(1+l a) *)
  Definition bias_fn (b : option (sv El)) : V := fun i => match b with None => e0 | Some s => sv_get e0 s i end.

  Lemma l2reg_model_q s l (b : option (sv El)) a (y : list El) :
    0 < 1 + l * a ->
    exists q, applyR (L2RegR s l b None) (SS a) y = Some q /\ length q = length y /\
      forall i, (i < length y)%nat -> forall u,
        ei (fn q i) u = (ei (fn y i) u + a * l * ei (bias_fn b i) u) / (1 + a * l).
  Proof.
    intros Ht. eexists. split; [reflexivity|]. split.
    { rewrite imap_length. destruct b; [apply imap_length|reflexivity]. }
    intros i Hi u. unfold fn.
    rewrite (nth_imap _ _ i e0 e0) by (destruct b; rewrite ?imap_length; auto).
    rewrite (edivr_spec LW). einx LW. simpl.
    destruct b as [bb|]; simpl.
    - rewrite (nth_imap _ y i e0 e0) by auto. einx LW. field. lra.
    - einx LW. field. lra.
  Qed.

  Lemma l2reg_model_h s l (b : option (sv El)) a (y : list El) hp q :
    applyR (L2RegR s l b None) (SS a) y = Some q ->
    applyR (L2RegR s l b (Some hp)) (SS a) y = applyR hp (SS (a / (1 + l * a))) q.
  Proof. simpl. intros H. injection H as <-. reflexivity. Qed.

  (* ------------------------------------------------------------ Conj: Moreau *)
  (* q = prox_{g/a}(y/a), p = y - a q.  Then p is a subgradient of g at q (and y = p + a q), which is
     the variational form of  p = prox_{a g*}(y). *)
  Theorem moreau_subgradient n a (y ya q p : V) (dom : V -> Prop) (g : V -> R) :
    0 < a ->
    (forall i, (i < n)%nat -> forall u, ei (ya i) u = / a * ei (y i) u) ->
    (forall i, (i < n)%nat -> forall u, ei (p i) u = ei (y i) u - a * ei (q i) u) ->
    prox_at LW n dom (fun x => / a * g x) ya q ->
    dom q /\ forall z, dom z -> g q + dotn LW n p (fsub z q) <= g z.
  Proof.
    intros Ha Hya Hp [Hd Hvi]. split; auto. intros z Hz. specialize (Hvi z Hz).
    assert (Hyad : forall v, dotn LW n ya v = / a * dotn LW n y v).
    { intros v. unfold dotn. rewrite <- sumn_scal. apply sumn_ext. intros; apply Hya; auto. }
    assert (Hpd : forall v, dotn LW n p v = dotn LW n y v - a * dotn LW n q v).
    { intros v. unfold dotn. rewrite <- sumn_scal, <- sumn_minus. apply sumn_ext. intros; apply Hp; auto. }
    revert Hvi. dotx LW. rewrite !Hyad, !Hpd. intros Hvi.
    apply (Rmult_le_compat_l a) in Hvi; [|lra].
    replace (a * (/ a * g z)) with (g z) in Hvi by (field; lra).
    match type of Hvi with ?L <= _ =>
      assert (E : L = g q + (dotn LW n y z - dotn LW n y q - a * (dotn LW n q z - dotn LW n q q))) by (field; lra);
      rewrite E in Hvi end.
    lra.
  Qed.

  (* ... and with any real-valued representation gs of the conjugate on a domain domS
     (Fenchel-Young everywhere, equality at subgradients) it is literally the proximal point of a*gs *)
  Theorem moreau_prox n a (y ya q p : V) (dom : V -> Prop) (g : V -> R) (domS : V -> Prop) (gs : V -> R) :
    0 < a ->
    (forall i, (i < n)%nat -> forall u, ei (ya i) u = / a * ei (y i) u) ->
    (forall i, (i < n)%nat -> forall u, ei (p i) u = ei (y i) u - a * ei (q i) u) ->
    (forall u x, domS u -> dom x -> dotn LW n u x - g x <= gs u) ->
    (forall u x, dom x -> (forall z, dom z -> g x + dotn LW n u (fsub z x) <= g z) -> domS u /\ gs u <= dotn LW n u x - g x) ->
    prox_at LW n dom (fun x => / a * g x) ya q ->
    prox_at LW n domS (fun u => a * gs u) y p.
  Proof.
    intros Ha Hya Hp FY Tight HP.
    destruct (moreau_subgradient n a y ya q p dom g Ha Hya Hp HP) as [Hdq Hsub].
    destruct (Tight p q Hdq Hsub) as [HdS Hgs]. split; auto.
    intros z Hz. pose proof (FY z q Hz Hdq) as Hfy.
    assert (Hpd : forall v, dotn LW n p v = dotn LW n y v - a * dotn LW n q v).
    { intros v. unfold dotn. rewrite <- sumn_scal, <- sumn_minus. apply sumn_ext. intros; apply Hp; auto. }
    dotx LW. rewrite (dotn_sym LW n y p), !Hpd. rewrite (dotn_sym LW n y p), (dotn_sym LW n q p), !Hpd.
    rewrite (dotn_sym LW n q y). rewrite Hpd in Hgs. rewrite (dotn_sym LW n z q) in Hfy.
    assert (G1 : a * gs p <= a * (dotn LW n y q - a * dotn LW n q q - g q)) by (apply Rmult_le_compat_l; lra).
    assert (G2 : a * (dotn LW n q z - g q) <= a * gs z) by (apply Rmult_le_compat_l; lra).
    lra.
  Qed.

  (* model: what the Conj node computes *)
  Lemma conj_model pq a (y r : list El) : a <> 0 ->
    applyR pq (SS (1 / a)) (imap (fun (i : nat) (x : El) => @edivr RR El x a) y) = Some r -> length r = length y ->
    exists out, applyR (ConjR pq) (SS a) y = Some out /\ length out = length y /\
      (forall i, (i < length y)%nat -> forall u, ei (fn (imap (fun (i : nat) (x : El) => @edivr RR El x a) y) i) u = / a * ei (fn y i) u) /\
      (forall i, (i < length y)%nat -> forall u, ei (fn out i) u = ei (fn y i) u - a * ei (fn r i) u).
  Proof.
    intros Ha Hr Hlen. simpl. simpl in Hr. rewrite Hr. simpl. eexists. split; [reflexivity|]. split; [|split].
    - rewrite map2_length; rewrite ?imap_length; auto.
    - intros i Hi u. unfold fn. rewrite (nth_imap _ y i e0 e0) by auto. rewrite (edivr_spec LW). einx LW. reflexivity.
    - intros i Hi u. unfold fn. rewrite (nth_map2 esub y _ i e0 e0 e0); rewrite ?imap_length; auto.
      rewrite (nth_imap _ r i e0 e0) by lia. einx LW. reflexivity.
  Qed.

  (* ------------------------------------------------------------ Stack: block separability *)
  Definition shift (k : nat) (x : V) : V := fun i => x (k + i)%nat.

  Theorem stack_blocks n1 n2 (y p : V) (dom1 : V -> Prop) ag1 (dom2 : V -> Prop) ag2 :
    prox_at LW n1 dom1 ag1 y p ->
    prox_at LW n2 dom2 ag2 (shift n1 y) (shift n1 p) ->
    prox_at LW (n1 + n2) (fun z => dom1 z /\ dom2 (shift n1 z)) (fun z => ag1 z + ag2 (shift n1 z)) y p.
  Proof.
    intros [Hd1 H1] [Hd2 H2]. split; [split; auto|]. intros z [Hz1 Hz2].
    specialize (H1 z Hz1). specialize (H2 (shift n1 z) Hz2).
    unfold dotn in *. rewrite sumn_app. unfold fsub, shift in *. lra.
  Qed.

  Lemma fn_app_l (a b : list El) i : (i < length a)%nat -> fn (a ++ b) i = fn a i.
  Proof. intros. unfold fn. apply app_nth1; auto. Qed.
  Lemma fn_app_r (a b : list El) i : fn (a ++ b) (length a + i) = fn b i.
  Proof. unfold fn. rewrite app_nth2 by lia. f_equal. lia. Qed.
  Lemma fn_firstn k (y : list El) i : (i < k)%nat -> fn (firstn k y) i = fn y i.
  Proof.
    unfold fn. revert k i; induction y; intros k i Hi; destruct k; simpl; try lia; destruct i; auto.
    apply IHy. lia.
  Qed.
  Lemma fn_skipn k (y : list El) i : fn (skipn k y) i = fn y (k + i).
  Proof. unfold fn. revert k; induction y; intros k; destruct k; simpl; auto. destruct i; auto. Qed.

  (* model: unrolling one block of a Stack; alpha scalar (shared) or array (split like the input) *)
  Lemma stack_unroll q rest (alpha : sv R) (y : list El) :
    applyR (StackR (q :: rest)) alpha y =
    obind (applyR q (sv_firstn (@psize RR El q) alpha) (firstn (@psize RR El q) y)) (fun o1 =>
    obind (applyR (StackR rest) (sv_skipn (@psize RR El q) alpha) (skipn (@psize RR El q) y)) (fun o2 => Some (o1 ++ o2))).
  Proof. reflexivity. Qed.

  Theorem stack_cons_prox q rest (alpha : sv R) (y o1 o2 : list El) (dom1 : V -> Prop) ag1 (dom2 : V -> Prop) ag2 :
    let n1 := @psize RR El q in
    (n1 <= length y)%nat ->
    applyR q (sv_firstn n1 alpha) (firstn n1 y) = Some o1 -> length o1 = n1 ->
    applyR (StackR rest) (sv_skipn n1 alpha) (skipn n1 y) = Some o2 -> length o2 = (length y - n1)%nat ->
    localP n1 dom1 -> localF n1 ag1 -> localP (length y - n1) dom2 -> localF (length y - n1) ag2 ->
    prox_at LW n1 dom1 ag1 (fn (firstn n1 y)) (fn o1) ->
    prox_at LW (length y - n1) dom2 ag2 (fn (skipn n1 y)) (fn o2) ->
    applyR (StackR (q :: rest)) alpha y = Some (o1 ++ o2) /\ length (o1 ++ o2) = length y /\
    prox_at LW (length y) (fun z => dom1 z /\ dom2 (shift n1 z)) (fun z => ag1 z + ag2 (shift n1 z)) (fn y) (fn (o1 ++ o2)).
  Proof.
    intros n1 Hn H1 L1 H2 L2 Ld1 Lf1 Ld2 Lf2 P1 P2.
    split; [rewrite stack_unroll; fold n1; rewrite H1; cbn [obind]; rewrite H2; reflexivity|].
    split; [rewrite app_length; lia|].
    replace (length y) with (n1 + (length y - n1))%nat at 1 by lia.
    apply stack_blocks.
    - apply (prox_at_ext n1 dom1 ag1 (fn (firstn n1 y)) (fn y) (fn o1) (fn (o1 ++ o2))); auto.
      + intros i Hi. apply fn_firstn; auto.
      + intros i Hi. symmetry. apply fn_app_l. lia.
    - apply (prox_at_ext (length y - n1) dom2 ag2 (fn (skipn n1 y)) (shift n1 (fn y)) (fn o2) (shift n1 (fn (o1 ++ o2)))); auto.
      + intros i Hi. unfold shift. apply fn_skipn.
      + intros i Hi. unfold shift. rewrite <- L1. symmetry. apply fn_app_r.
  Qed.

  Theorem stack_nil_prox (alpha : sv R) : applyR (StackR []) alpha [] = Some [] /\
    prox_at LW 0 (fun _ => True) (fun _ => 0) (fn []) (fn []).
  Proof. split; [reflexivity|]. split; auto. intros z _. unfold dotn. simpl. lra. Qed.

  (* ------------------------------------------------------------ UnitaryTransform *)
  (* A : first-n-entries vectors -> first-m-entries vectors with adjoint AH, A^H A = I, A A^H = I
     (all three stated through inner products). *)
  Theorem unitary_prox n m (A AH : V -> V) (y r : V) (dom : V -> Prop) ag :
    (forall x w, dotn LW m (A x) w = dotn LW n x (AH w)) ->
    (forall x w, dotn LW n (AH (A x)) w = dotn LW n x w) ->
    (forall v w, dotn LW m (A (AH v)) w = dotn LW m v w) ->
    localP m dom -> localF m ag ->
    prox_at LW m dom ag (A y) r ->
    prox_at LW n (fun x => dom (A x)) (fun x => ag (A x)) y (AH r).
  Proof.
    intros Adj I1 I2 Ld Lf [Hd Hvi].
    assert (Hfix : forall i, (i < m)%nat -> r i = A (AH r) i).
    { intros i Hi.
      assert (H0 : dotn LW m (fsub (A (AH r)) r) (fsub (A (AH r)) r) = 0).
      { dotx LW. rewrite !I2. rewrite (dotn_sym LW m r (A (AH r))), I2. lra. }
      pose proof (dotn_zero_inv LW m _ H0 i Hi) as He. unfold fsub in He.
      apply (ein_ext LW). intros c.
      assert (ei (esub (A (AH r) i) (r i)) c = 0) as Hc by (rewrite He; apply ein_e0_l).
      rewrite ein_sub_l in Hc. lra. }
    split; [eapply Ld; eauto|].
    intros z Hz. specialize (Hvi (A z) Hz).
    rewrite <- (Lf r (A (AH r)) Hfix).
    revert Hvi. dotx LW.
    assert (E1 : dotn LW m (A y) (A z) = dotn LW n y z) by (rewrite Adj, (dotn_sym LW), I1, (dotn_sym LW); reflexivity).
    assert (E2 : dotn LW m (A y) r = dotn LW n y (AH r)) by apply Adj.
    assert (E3 : dotn LW m r (A z) = dotn LW n (AH r) z) by (rewrite (dotn_sym LW), Adj, (dotn_sym LW); reflexivity).
    assert (E4 : dotn LW m r r = dotn LW n (AH r) (AH r)) by (rewrite <- Adj, I2; reflexivity).
    rewrite E1, E2, E3, E4. lra.
  Qed.
End Comb.
