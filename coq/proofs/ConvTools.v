(* proofs/ConvTools.v — generic tools for the convolution proofs: box sums over concatenated boxes,
   sums over a flattened batch axis, numpy reshape between  b ++ r  and  prod(b) :: r , one-point sums. *)
From Coq Require Import ZArith List Lia Bool Ring.
From SV Require Import lib.Scalar lib.BigSum lib.LoopIR lib.NdArray model.Rearrange model.Block model.Linop model.Conv.
Import ListNotations.
Local Open Scope Z_scope.

(* ---- lists / shapes ---- *)
Lemma lastn_app {A} (l r : list A) : lastn (length r) (l ++ r) = r.
Proof.
  unfold lastn. rewrite app_length. replace (length l + length r - length r)%nat with (length l) by lia.
  rewrite skipn_app, skipn_all, Nat.sub_diag. reflexivity.
Qed.

Lemma droplast_app {A} (l r : list A) : droplast (length r) (l ++ r) = l.
Proof.
  unfold droplast. rewrite app_length. replace (length l + length r - length r)%nat with (length l) by lia.
  rewrite firstn_app, firstn_all, Nat.sub_diag. simpl. apply app_nil_r.
Qed.

Lemma prodZ_app a b : prodZ (a ++ b) = prodZ a * prodZ b.
Proof. induction a as [|x a IH]; cbn [app prodZ]; [ring| rewrite IH; ring]. Qed.

Lemma inbox_app s1 s2 i1 i2 : inbox s1 i1 -> inbox s2 i2 -> inbox (s1 ++ s2) (i1 ++ i2).
Proof.
  revert i1; induction s1 as [|n s1 IH]; intros [|i i1]; simpl; try tauto.
  intros [H1 H2] H3. split; [exact H1| apply IH; assumption].
Qed.

Lemma ravel_app b r bi ri : length bi = length b ->
  ravel (b ++ r) (bi ++ ri) = ravel b bi * prodZ r + ravel r ri.
Proof.
  revert bi; induction b as [|n b IH]; intros [|i bi] H; simpl in *; try discriminate; [lia|].
  rewrite IH by lia. rewrite prodZ_app. ring.
Qed.

Lemma unravel_app b r k ri : Forall (fun n => 0 < n) b -> Forall (fun n => 0 < n) r ->
  0 <= k < prodZ b -> inbox r ri ->
  unravel (b ++ r) (k * prodZ r + ravel r ri) = unravel b k ++ ri.
Proof.
  intros Hb Hr. revert k. induction Hb as [|n b Hn Hb IH]; intros k Hk Hri.
  - simpl in *. replace k with 0 by lia. simpl. apply unravel_ravel, Hri.
  - simpl in Hk. pose proof (prodZ_pos b Hb) as Pb. pose proof (prodZ_pos r Hr) as Pr.
    pose proof (ravel_bound r ri Hri) as Br.
    cbn [app unravel]. rewrite prodZ_app.
    assert (Hq : 0 <= k mod prodZ b < prodZ b) by (apply Z.mod_pos_bound; lia).
    pose proof (Z.div_mod k (prodZ b) ltac:(lia)) as Ek.
    remember (k / prodZ b) as q. remember (k mod prodZ b) as k'.
    assert (E1 : (k * prodZ r + ravel r ri) / (prodZ b * prodZ r) = q).
    { symmetry. apply (Z.div_unique _ _ q (k' * prodZ r + ravel r ri)); [left; nia| nia]. }
    assert (E2 : (k * prodZ r + ravel r ri) mod (prodZ b * prodZ r) = k' * prodZ r + ravel r ri).
    { symmetry. apply (Z.mod_unique _ _ q); [left; nia| nia]. }
    rewrite E1, E2. f_equal. apply IH; [lia| exact Hri].
Qed.

Section T.
  Variable R : StarRing.
  Add Ring RringCT : (SRth R).
  Local Open Scope sr_scope.
  Notation farr := (list Z -> R).

  Lemma osumB_sumB s (f : farr) : osumB s f = sumB s f.
  Proof.
    revert f; induction s as [|n s IH]; intros f; simpl; [reflexivity|].
    rewrite sumL_range0. apply sumZ_ext. intros i _. apply IH.
  Qed.

  Lemma sumB_app s1 s2 (f : farr) :
    sumB (s1 ++ s2) f = sumB s1 (fun i1 => sumB s2 (fun i2 => f (i1 ++ i2))).
  Proof.
    revert f; induction s1 as [|n s1 IH]; intros f; simpl; [reflexivity|].
    apply sumZ_ext. intros i _. rewrite IH. reflexivity.
  Qed.

  Lemma sumZ_one (g : Z -> R) : sumZ 1 g = g 0%Z.
  Proof. unfold sumZ. simpl. ring. Qed.

  Lemma sumZ_mul n P (h : Z -> R) : (0 <= n)%Z -> (0 <= P)%Z ->
    sumZ (n * P) h = sumZ n (fun q => sumZ P (fun r => h (q * P + r)%Z)).
  Proof.
    intros Hn HP. rewrite <- (Z2Nat.id n Hn). generalize (Z.to_nat n) as k. clear n Hn.
    induction k as [|k IH].
    - simpl. reflexivity.
    - rewrite Nat2Z.inj_succ. unfold Z.succ.
      replace ((Z.of_nat k + 1) * P)%Z with (Z.of_nat k * P + P)%Z by ring.
      rewrite sumZ_split by nia. rewrite IH. rewrite (sumZ_split R (Z.of_nat k) 1) by lia.
      rewrite sumZ_one. f_equal. apply sumZ_ext. intros r _. f_equal. ring.
  Qed.

  (* summing over a flattened batch index = summing over the batch box *)
  Lemma sum_unravel b (g : farr) : Forall (fun n => (0 < n)%Z) b ->
    sumZ (prodZ b) (fun k => g (unravel b k)) = sumB b g.
  Proof.
    intros Hb. revert g. induction Hb as [|n b Hn Hb IH]; intros g.
    - simpl. apply sumZ_one.
    - pose proof (prodZ_pos b Hb) as Pb. cbn [prodZ unravel sumB].
      rewrite sumZ_mul by lia. apply sumZ_ext. intros q Hq.
      rewrite <- (IH (fun idx => g (q :: idx))). apply sumZ_ext. intros r Hr.
      f_equal. f_equal.
      + rewrite Z.div_add_l by lia. rewrite Z.div_small by lia. lia.
      + rewrite Z.add_comm, Z.mod_add by lia. rewrite Z.mod_small by lia. reflexivity.
  Qed.

  (* one-point sums *)
  Lemma sumZ_pick m e (g : Z -> R) :
    sumZ m (fun u => if (u =? e)%Z then g u else 0) = if (0 <=? e)%Z && (e <? m)%Z then g e else 0.
  Proof.
    destruct ((0 <=? e)%Z && (e <? m)%Z) eqn:C.
    - apply andb_true_iff in C. destruct C as [C1 C2]. apply Z.leb_le in C1. apply Z.ltb_lt in C2.
      apply sumZ_single. lia.
    - apply sumZ_none. intros u Hu. destruct (Z.eqb_spec u e) as [->|]; [|reflexivity].
      exfalso. assert (H1 : (0 <=? e)%Z = true) by (apply Z.leb_le; lia).
      assert (H2 : (e <? m)%Z = true) by (apply Z.ltb_lt; lia). rewrite H1, H2 in C. discriminate.
  Qed.

  Lemma sumZ_scale_r n (f : Z -> R) c : sumZ n f * c = sumZ n (fun k => f k * c).
  Proof. rewrite (Rmul_comm (SRth R)), <- sumZ_scale. apply sumZ_ext. intros; ring. Qed.

  Lemma sumB_scale_r s (f : farr) c : sumB s f * c = sumB s (fun k => f k * c).
  Proof. rewrite (Rmul_comm (SRth R)), <- sumB_scale. apply sumB_ext. intros; ring. Qed.

  (* the inner product is conjugate-additive over a box-indexed family in its second argument *)
  Lemma inner_sumB_r s b (x : farr) (g : list Z -> farr) :
    sumB b (fun bi => inner s x (g bi)) = inner s x (fun i => sumB b (fun bi => g bi i)).
  Proof.
    unfold inner. rewrite sumB_exchange. apply sumB_ext. intros i _.
    rewrite sumB_conj, <- sumB_scale. reflexivity.
  Qed.

  (* ---- numpy reshape between  b ++ r  and  prod(b) :: r ---- *)
  Lemma reshape_flat_in b r (x : farr) k ri :
    Forall (fun n => (0 < n)%Z) b -> Forall (fun n => (0 < n)%Z) r -> (0 <= k < prodZ b)%Z -> inbox r ri ->
    reshape (b ++ r) (prodZ b :: r) x (k :: ri) = x (unravel b k ++ ri).
  Proof.
    intros Hb Hr Hk Hri. unfold reshape. cbn [ravel]. rewrite unravel_app by assumption. reflexivity.
  Qed.

  Lemma reshape_flat_out b r (y : farr) bi ri :
    Forall (fun n => (0 < n)%Z) r -> inbox b bi -> inbox r ri ->
    reshape (prodZ b :: r) (b ++ r) y (bi ++ ri) = y (ravel b bi :: ri).
  Proof.
    intros Hr Hbi Hri. unfold reshape. rewrite ravel_app by (apply inbox_length; exact Hbi).
    pose proof (prodZ_pos r Hr) as Pr. pose proof (ravel_bound r ri Hri) as Br.
    cbn [unravel]. f_equal. f_equal.
    - rewrite Z.div_add_l by lia. rewrite Z.div_small by lia. lia.
    - rewrite Z.add_comm, Z.mod_add by lia. rewrite Z.mod_small by lia. apply unravel_ravel, Hri.
  Qed.

  Lemma reshape_id s (x : farr) idx : inbox s idx -> reshape s s x idx = x idx.
  Proof. intros H. unfold reshape. rewrite unravel_ravel by exact H. reflexivity. Qed.
End T.
