(* proofs/Bloch2.v — whole-function composition for abrm_hp, blochsim and abrm_ptx (model/Bloch.v over R),
   INCLUDING the closing total-phase factor, and zero RF => b = 0 for abrm_ptx.

   Key fact: the gradient step diag(1, exp(-i theta)) is only in U(2); multiplied by the scalar exp(i theta/2) that the
   closing line of the code accumulates it becomes diag(exp(i theta/2), exp(-i theta/2)) in SU(2).  Since the closing
   phase is exp(i/2 * sum_t theta_t) = prod_t exp(i theta_t/2) (cos_plus, sin_plus), and scalars commute with the
   (complex-linear) steps, the whole function is an ordered product of SU(2)-form factors (su2_run), so the result
   for w1 ++ w2 is the SU(2) product of the results for w2 and w1, both simulated from the identity state (1, 0) —
   which is the only start state the Python functions offer. *)
From Coq Require Import Reals ZArith List Bool Lra Lia Psatz.
From SV Require Import model.Bloch proofs.Bloch.
Import ListNotations.
Local Open Scope R_scope.

Notation tphase := (total_phase (F:=RF) rcs).
Notation gphase := (grad_phase (F:=RF) rcs).
Notation rfrot := (rf_rot (F:=RF) rcs).

Definition Rsum (l : list R) : R := fold_right Rplus 0 l.

Lemma fold_left_Rplus (l : list R) (a : R) : fold_left Rplus l a = a + Rsum l.
Proof.
  revert a. induction l as [|x l IH]; intros a; cbn [fold_left Rsum fold_right].
  - ring.
  - rewrite IH. fold (Rsum l). ring.
Qed.

Lemma fsum_Rsum (l : list R) : fsum (F:=RF) l = Rsum l.
Proof. change (fold_left Rplus l 0 = Rsum l). rewrite fold_left_Rplus. ring. Qed.

Lemma Rsum_app (l1 l2 : list R) : Rsum (l1 ++ l2) = Rsum l1 + Rsum l2.
Proof. unfold Rsum. induction l1 as [|x l1 IH]; cbn [app fold_right]; [ring | rewrite IH; ring]. Qed.

(* ------------------------------------------------------------------ the closing phase: a scalar, additive in the angle *)
Lemma half_plus (t1 t2 : R) : half (F:=RF) (t1 + t2) = half (F:=RF) t1 + half (F:=RF) t2.
Proof. change ((t1 + t2) / 2 = t1 / 2 + t2 / 2). field. Qed.

(* exp(i(t1+t2)/2) = exp(i t1/2) exp(i t2/2) *)
Lemma total_phase_add (t1 t2 : R) (s : StR) : tphase (t1 + t2) s = tphase t1 (tphase t2 s).
Proof.
  unfold total_phase, rcs. rewrite half_plus, cos_plus, sin_plus.
  set (h1 := half (F:=RF) t1). set (h2 := half (F:=RF) t2). destruct s as [[ar ai] [br bi]]. cx_simpl. cx_eq.
Qed.

Lemma total_phase_0 (s : StR) : tphase 0 s = s.
Proof.
  unfold total_phase, rcs, half, two. cbn [fdiv fofZ RF]. replace (0 / 2) with 0 by field. rewrite cos_0, sin_0.
  destruct s as [[ar ai] [br bi]]. cx_simpl. cx_eq.
Qed.

(* the closing phase commutes with the two per-sample operations (they are complex-linear in the state) *)
Lemma rf_rot_total_phase (r : CR) t (s : StR) : rfrot r (tphase t s) = tphase t (rfrot r s).
Proof.
  unfold rf_rot, total_phase, rcs. set (u := unit_phasor r). destruct u as [ur ui].
  set (h := half (F:=RF) t). set (q := half (F:=RF) (fsqrt (cabs2 r))). destruct s as [[ar ai] [br bi]]. cx_simpl. cx_eq.
Qed.

Lemma grad_phase_total_phase th t (s : StR) : gphase th (tphase t s) = tphase t (gphase th s).
Proof.
  unfold grad_phase, total_phase, rcs. set (h := half (F:=RF) t). destruct s as [[ar ai] [br bi]]. cx_simpl. cx_eq.
Qed.

(* ------------------------------------------------------------------ abrm_hp *)
(* one sample of abrm_hp at position x: theta = x*g + dom0dt *)
Definition hp_theta (x d : R) (rg : CR * R) : R := x * snd rg + d.
Definition hp_step (x d : R) (s : StR) (rg : CR * R) : StR := rfrot (fst rg) (gphase (hp_theta x d rg) s).

(* the SU(2)-form factor of one sample:  R(r) * diag(e^{i theta/2}, e^{-i theta/2}):
   av = C e^{i theta/2},  bv = S e^{i theta/2},  C = cos(|r|/2),  S = i u sin(|r|/2),  u = r/|r| (1 at r = 0) *)
Definition rot_C (r : CR) : R := cos (sqrt (n2 r) / 2).
Definition rot_S (r : CR) : CR :=
  let u := unit_phasor (F:=RF) r in (- (snd u * sin (sqrt (n2 r) / 2)), fst u * sin (sqrt (n2 r) / 2)).
Definition cis (t : R) : CR := (cos t, sin t).
Definition hp_factor (x d : R) (rg : CR * R) : CR * CR :=
  let e := cis (hp_theta x d rg / 2) in
  (cscale (F:=RF) (rot_C (fst rg)) e, cmul (F:=RF) (rot_S (fst rg)) e).

Lemma hp_step_phase x d (s : StR) (rg : CR * R) :
  tphase (hp_theta x d rg) (hp_step x d s rg) = su2_step (hp_factor x d rg) s.
Proof.
  unfold hp_step, hp_factor, rot_C, rot_S, cis. set (th := hp_theta x d rg).
  unfold rf_rot, grad_phase, total_phase, rcs, half, two. cbn [fdiv fofZ fsqrt RF].
  change (cabs2 (F:=RF) (fst rg)) with (n2 (fst rg)).
  set (u := unit_phasor (fst rg)). destruct u as [ur ui].
  set (q := sqrt (n2 (fst rg)) / 2).
  pose proof (cs1 th) as Hth.
  assert (Hc : cos th = cos (th / 2) * cos (th / 2) - sin (th / 2) * sin (th / 2)).
  { replace th with (th / 2 + th / 2) at 1 by field. apply cos_plus. }
  assert (Hs : sin th = sin (th / 2) * cos (th / 2) + cos (th / 2) * sin (th / 2)).
  { replace th with (th / 2 + th / 2) at 1 by field. apply sin_plus. }
  pose proof (cs1 (th / 2)) as Hh.
  rewrite Hc, Hs. set (ch := cos (th / 2)) in *. set (sh := sin (th / 2)) in *.
  destruct s as [[ar ai] [br bi]]. cx_simpl.
  assert (Hsh2 : sh * sh = 1 - ch * ch) by lra.
  apply pair_eq; apply pair_eqR; ring [Hsh2].
Qed.

Lemma abrm_hp_loop_fold x d (w : list (CR * R)) (s : StR) :
  abrm_hp_loop (F:=RF) rcs x d w s = fold_left (hp_step x d) w s.
Proof. reflexivity. Qed.

Lemma hp_step_total_phase x d t (s : StR) rg : hp_step x d (tphase t s) rg = tphase t (hp_step x d s rg).
Proof. unfold hp_step. rewrite grad_phase_total_phase. apply rf_rot_total_phase. Qed.

Lemma hp_loop_total_phase x d t (w : list (CR * R)) (s : StR) :
  fold_left (hp_step x d) w (tphase t s) = tphase t (fold_left (hp_step x d) w s).
Proof.
  revert s. induction w as [|rg w IH]; intros s; cbn [fold_left]; [reflexivity|].
  rewrite hp_step_total_phase. apply IH.
Qed.

(* the loop followed by the phase of the accumulated angle is an ordered product of SU(2)-form factors *)
Lemma hp_loop_su2 x d (w : list (CR * R)) (s : StR) :
  tphase (Rsum (map (hp_theta x d) w)) (fold_left (hp_step x d) w s) = su2_run (map (hp_factor x d) w) s.
Proof.
  revert s. induction w as [|rg w IH]; intros s.
  - cbn [map Rsum fold_right fold_left su2_run]. apply total_phase_0.
  - cbn [map fold_left]. change (Rsum (hp_theta x d rg :: map (hp_theta x d) w))
      with (hp_theta x d rg + Rsum (map (hp_theta x d) w)).
    rewrite Rplus_comm, total_phase_add, <- hp_loop_total_phase, hp_step_phase, IH. reflexivity.
Qed.

(* the angle of the closing line,  xx * sum(gamgdt) + Nt * dom0dt,  is the sum of the per-sample angles *)
Lemma hp_total_theta x d (w : list (CR * R)) :
  x * fsum (F:=RF) (map snd w) + IZR (Z.of_nat (length w)) * d = Rsum (map (hp_theta x d) w).
Proof.
  rewrite fsum_Rsum, <- INR_IZR_INZ. induction w as [|rg w IH].
  - cbn [map Rsum fold_right length INR]. ring.
  - cbn [map length]. rewrite S_INR. unfold Rsum in *. cbn [fold_right]. rewrite <- IH. unfold hp_theta. ring.
Qed.

(* abrm_hp as a whole (loop AND closing total phase) is the ordered product of the factors hp_factor *)
Theorem abrm_hp_su2 (w : list (CR * R)) x d :
  abrm_hp (F:=RF) rcs w x d = su2_run (map (hp_factor x d) w) st0.
Proof.
  unfold abrm_hp. rewrite abrm_hp_loop_fold, <- hp_loop_su2. f_equal. apply hp_total_theta.
Qed.

(* FULL composition: both halves simulated by abrm_hp from the identity state (the only start the code offers),
   with the same position and off-resonance; the result for w1 ++ w2 is the SU(2) product (first column of M2*M1) *)
Theorem abrm_hp_compose (w1 w2 : list (CR * R)) x d :
  abrm_hp (F:=RF) rcs (w1 ++ w2) x d = su2_step (abrm_hp (F:=RF) rcs w2 x d) (abrm_hp (F:=RF) rcs w1 x d).
Proof. rewrite !abrm_hp_su2, map_app. apply su2_run_compose. Qed.

(* continuation form: the loop over w2 started from the RESULT of abrm_hp w1 (closing phase of w1 already applied),
   closed with the phase of w2's own accumulated angle only *)
Theorem abrm_hp_continue (w1 w2 : list (CR * R)) x d :
  abrm_hp (F:=RF) rcs (w1 ++ w2) x d =
  tphase (x * fsum (F:=RF) (map snd w2) + IZR (Z.of_nat (length w2)) * d)
         (abrm_hp_loop (F:=RF) rcs x d w2 (abrm_hp (F:=RF) rcs w1 x d)).
Proof.
  rewrite abrm_hp_su2, map_app. unfold su2_run. rewrite fold_left_app. fold (su2_run (map (hp_factor x d) w1) st0).
  rewrite <- abrm_hp_su2. rewrite hp_total_theta, abrm_hp_loop_fold.
  symmetry. apply hp_loop_su2.
Qed.

(* ------------------------------------------------------------------ optcont.blochsim *)
Definition bs_theta (x : list R) (rg : CR * list R) : R := rdot x (snd rg).
Definition bs_step (x : list R) (s : StR) (rg : CR * list R) : StR := gphase (bs_theta x rg) (rfrot (fst rg) s).
(* diag(e^{i theta/2}, e^{-i theta/2}) * R(r):  av = C e^{i theta/2},  bv = S e^{-i theta/2} *)
Definition bs_factor (x : list R) (rg : CR * list R) : CR * CR :=
  let e := cis (bs_theta x rg / 2) in
  (cscale (F:=RF) (rot_C (fst rg)) e, cmul (F:=RF) (rot_S (fst rg)) (cconj (F:=RF) e)).

Lemma bs_step_phase x (s : StR) (rg : CR * list R) :
  tphase (bs_theta x rg) (bs_step x s rg) = su2_step (bs_factor x rg) s.
Proof.
  unfold bs_step, bs_factor, rot_C, rot_S, cis. set (th := bs_theta x rg).
  unfold rf_rot, grad_phase, total_phase, rcs, half, two. cbn [fdiv fofZ fsqrt RF].
  change (cabs2 (F:=RF) (fst rg)) with (n2 (fst rg)).
  set (u := unit_phasor (fst rg)). destruct u as [ur ui].
  set (q := sqrt (n2 (fst rg)) / 2).
  assert (Hc : cos th = cos (th / 2) * cos (th / 2) - sin (th / 2) * sin (th / 2)).
  { replace th with (th / 2 + th / 2) at 1 by field. apply cos_plus. }
  assert (Hs : sin th = sin (th / 2) * cos (th / 2) + cos (th / 2) * sin (th / 2)).
  { replace th with (th / 2 + th / 2) at 1 by field. apply sin_plus. }
  pose proof (cs1 (th / 2)) as Hh.
  rewrite Hc, Hs. set (ch := cos (th / 2)) in *. set (sh := sin (th / 2)) in *.
  destruct s as [[ar ai] [br bi]]. cx_simpl.
  assert (Hsh2 : sh * sh = 1 - ch * ch) by lra.
  apply pair_eq; apply pair_eqR; ring [Hsh2].
Qed.

Lemma blochsim_loop_fold x (w : list (CR * list R)) (s : StR) :
  blochsim_loop (F:=RF) rcs x w s = fold_left (bs_step x) w s.
Proof. reflexivity. Qed.

Lemma bs_step_total_phase x t (s : StR) rg : bs_step x (tphase t s) rg = tphase t (bs_step x s rg).
Proof. unfold bs_step. rewrite rf_rot_total_phase. apply grad_phase_total_phase. Qed.

Lemma bs_loop_total_phase x t (w : list (CR * list R)) (s : StR) :
  fold_left (bs_step x) w (tphase t s) = tphase t (fold_left (bs_step x) w s).
Proof.
  revert s. induction w as [|rg w IH]; intros s; cbn [fold_left]; [reflexivity|].
  rewrite bs_step_total_phase. apply IH.
Qed.

Lemma bs_loop_su2 x (w : list (CR * list R)) (s : StR) :
  tphase (Rsum (map (bs_theta x) w)) (fold_left (bs_step x) w s) = su2_run (map (bs_factor x) w) s.
Proof.
  revert s. induction w as [|rg w IH]; intros s.
  - cbn [map Rsum fold_right fold_left su2_run]. apply total_phase_0.
  - cbn [map fold_left]. change (Rsum (bs_theta x rg :: map (bs_theta x) w))
      with (bs_theta x rg + Rsum (map (bs_theta x) w)).
    rewrite Rplus_comm, total_phase_add, <- bs_loop_total_phase, bs_step_phase, IH. reflexivity.
Qed.

(* x @ sum(g, 0) = sum_t x @ g[t, :]  when every gradient row has the length of x (numpy: g is [Nt, Ndim], x is [Ndim]) *)
Definition zadd (acc g : list R) : list R := map (fun p => fst p + snd p) (combine acc g).

Lemma rdot_acc (l : list (R * R)) (a : R) :
  fold_left (fun acc p => acc + fst p * snd p) l a = a + fold_left (fun acc p => acc + fst p * snd p) l 0.
Proof.
  revert a. induction l as [|p l IH]; intros a; cbn [fold_left]; [ring|].
  rewrite (IH (a + fst p * snd p)), (IH (0 + fst p * snd p)). ring.
Qed.

Lemma rdot_cons (a b : R) (x g : list R) : rdot (a :: x) (b :: g) = a * b + rdot x g.
Proof.
  unfold rdot, dot. cbn [combine fold_left fst snd fadd fmul f0 RF].
  change (fold_left (fun acc p => acc + fst p * snd p) (combine x g) (0 + a * b) =
          a * b + fold_left (fun acc p => acc + fst p * snd p) (combine x g) 0).
  rewrite rdot_acc. ring.
Qed.

Lemma rdot_nil_l (g : list R) : rdot [] g = 0.
Proof. reflexivity. Qed.

Lemma rdot_zadd (x acc g : list R) :
  length acc = length x -> length g = length x -> rdot x (zadd acc g) = rdot x acc + rdot x g.
Proof.
  revert acc g. induction x as [|a x IH]; intros acc g Ha Hg.
  - rewrite !rdot_nil_l. ring.
  - destruct acc as [|c acc]; [discriminate|]. destruct g as [|b g]; [discriminate|].
    cbn [length] in Ha, Hg. unfold zadd. cbn [combine map fst snd]. fold (zadd acc g).
    rewrite !rdot_cons, IH by congruence. ring.
Qed.

Lemma zadd_length (acc g : list R) : length g = length acc -> length (zadd acc g) = length acc.
Proof. intros H. unfold zadd. rewrite map_length, combine_length, H. apply Nat.min_id. Qed.

Lemma rdot_vsum (x : list R) (gs : list (list R)) : forall acc,
  length acc = length x -> (forall g, In g gs -> length g = length x) ->
  rdot x (vsum (F:=RF) acc gs) = rdot x acc + Rsum (map (rdot x) gs).
Proof.
  induction gs as [|g gs IH]; intros acc Ha Hg.
  - cbn [vsum map Rsum fold_right]. ring.
  - cbn [vsum map]. change (map (fun p => fadd (fst p) (snd p)) (combine acc g)) with (zadd acc g).
    assert (Hl : length g = length x) by (apply Hg; left; reflexivity).
    rewrite IH.
    + rewrite rdot_zadd by assumption. unfold Rsum. cbn [fold_right]. ring.
    + rewrite zadd_length; [exact Ha | transitivity (length x); [exact Hl | symmetry; exact Ha]].
    + intros g' Hg'. apply Hg. right. exact Hg'.
Qed.

Lemma rdot_zeros (x : list R) : rdot x (map (fun _ => 0) x) = 0.
Proof. induction x as [|a x IH]; [reflexivity|]. cbn [map]. rewrite rdot_cons, IH. ring. Qed.

Definition rows_ok (x : list R) (w : list (CR * list R)) : Prop := forall rg, In rg w -> length (snd rg) = length x.

Lemma bs_total_theta x (w : list (CR * list R)) :
  rows_ok x w ->
  dot (F:=RF) x (vsum (F:=RF) (map (fun _ => f0) x) (map snd w)) = Rsum (map (bs_theta x) w).
Proof.
  intros H. fold (rdot x (vsum (F:=RF) (map (fun _ => f0) x) (map snd w))).
  rewrite rdot_vsum.
  - change (map (fun _ : R => f0) x) with (map (fun _ : R => 0) x). rewrite rdot_zeros, map_map. unfold bs_theta. apply Rplus_0_l.
  - apply map_length.
  - intros g Hg. apply in_map_iff in Hg. destruct Hg as [rg [<- Hrg]]. apply H. exact Hrg.
Qed.

(* blochsim as a whole (loop AND closing total phase) is the ordered product of the factors bs_factor *)
Theorem blochsim_su2 (w : list (CR * list R)) x :
  rows_ok x w -> blochsim (F:=RF) rcs w x = su2_run (map (bs_factor x) w) st0.
Proof.
  intros H. unfold blochsim. rewrite blochsim_loop_fold, <- bs_loop_su2. f_equal. apply bs_total_theta. exact H.
Qed.

Lemma rows_ok_app x (w1 w2 : list (CR * list R)) : rows_ok x (w1 ++ w2) <-> rows_ok x w1 /\ rows_ok x w2.
Proof.
  unfold rows_ok. split.
  - intros H. split; intros rg Hrg; apply H; apply in_or_app; [left | right]; exact Hrg.
  - intros [H1 H2] rg Hrg. apply in_app_or in Hrg. destruct Hrg as [Hrg | Hrg]; [apply H1 | apply H2]; exact Hrg.
Qed.

Theorem blochsim_compose (w1 w2 : list (CR * list R)) x :
  rows_ok x w1 -> rows_ok x w2 ->
  blochsim (F:=RF) rcs (w1 ++ w2) x = su2_step (blochsim (F:=RF) rcs w2 x) (blochsim (F:=RF) rcs w1 x).
Proof.
  intros H1 H2. rewrite !blochsim_su2 by (try apply rows_ok_app; auto). rewrite map_app. apply su2_run_compose.
Qed.

Theorem blochsim_continue (w1 w2 : list (CR * list R)) x :
  rows_ok x w1 -> rows_ok x w2 ->
  blochsim (F:=RF) rcs (w1 ++ w2) x =
  tphase (dot (F:=RF) x (vsum (F:=RF) (map (fun _ => f0) x) (map snd w2)))
         (blochsim_loop (F:=RF) rcs x w2 (blochsim (F:=RF) rcs w1 x)).
Proof.
  intros H1 H2. rewrite blochsim_su2 by (apply rows_ok_app; auto). rewrite map_app. unfold su2_run. rewrite fold_left_app.
  fold (su2_run (map (bs_factor x) w1) st0). rewrite <- blochsim_su2 by exact H1.
  rewrite bs_total_theta by exact H2. rewrite blochsim_loop_fold. symmetry. apply bs_loop_su2.
Qed.

(* ------------------------------------------------------------------ abrm_ptx *)
(* the coded update  (alpha*sa + beta*sb, -conj(beta)*sa + conj(alpha)*sb)  is the SU(2) step with (av, bv) = (alpha, -conj beta) *)
Lemma ptx_step_su2 (m : CR * CR) (s : StR) : ptx_step m s = su2_step (ptx_out m) s.
Proof. destruct m as [[m1 m2] [m3 m4]], s as [[s1 s2] [s3 s4]]. cx_simpl. cx_eq. Qed.

Lemma ptx_out_invol (s : StR) : ptx_out (ptx_out s) = s.
Proof. destruct s as [[s1 s2] [s3 s4]]. cx_simpl. cx_eq. Qed.

Definition ptx_fac (dtgam boff : R) (sens : list CR) (x : list R) (bg : list CR * list R) : CR * CR :=
  ptx_factor (F:=RF) rcs dtgam (cdot (F:=RF) sens (fst bg)) (dot (F:=RF) x (snd bg) + boff).

Lemma ptx_fold_su2 dtgam boff sens x (w : list (list CR * list R)) (s : StR) :
  fold_left (fun s bg => ptx_step (ptx_fac dtgam boff sens x bg) s) w s =
  su2_run (map (fun bg => ptx_out (ptx_fac dtgam boff sens x bg)) w) s.
Proof.
  revert s. induction w as [|bg w IH]; intros s; [reflexivity|].
  cbn [fold_left map su2_run]. rewrite ptx_step_su2. apply IH.
Qed.

(* abrm_ptx: the internal state (statea, stateb) is an ordered SU(2) product; the outputs are a = statea, b = -conj(stateb) *)
Theorem abrm_ptx_su2 dtgam boff (sens : list CR) x (w : list (list CR * list R)) :
  abrm_ptx (F:=RF) rcs dtgam boff sens x w =
  ptx_out (su2_run (map (fun bg => ptx_out (ptx_fac dtgam boff sens x bg)) w) st0).
Proof. unfold abrm_ptx. f_equal. apply ptx_fold_su2. Qed.

(* FULL composition, as the correspondence's oracle computes it: convert the outputs (a, b) back to the state
   (a, -conj b), take the SU(2) product (first column of M2*M1), convert to outputs again *)
Theorem abrm_ptx_compose dtgam boff (sens : list CR) x (w1 w2 : list (list CR * list R)) :
  abrm_ptx (F:=RF) rcs dtgam boff sens x (w1 ++ w2) =
  ptx_out (su2_step (ptx_out (abrm_ptx (F:=RF) rcs dtgam boff sens x w2))
                    (ptx_out (abrm_ptx (F:=RF) rcs dtgam boff sens x w1))).
Proof. rewrite !abrm_ptx_su2, !ptx_out_invol, map_app, su2_run_compose. reflexivity. Qed.

(* the same in terms of the outputs only:  a = a2*a1 - b2*conj(b1),  b = a2*b1 + b2*conj(a1) *)
Definition ptx_compose (s2 s1 : StR) : StR :=
  (csub (F:=RF) (cmul (F:=RF) (fst s2) (fst s1)) (cmul (F:=RF) (snd s2) (cconj (F:=RF) (snd s1))),
   cadd (F:=RF) (cmul (F:=RF) (fst s2) (snd s1)) (cmul (F:=RF) (snd s2) (cconj (F:=RF) (fst s1)))).

Lemma ptx_compose_eq (s2 s1 : StR) : ptx_out (su2_step (ptx_out s2) (ptx_out s1)) = ptx_compose s2 s1.
Proof. destruct s2 as [[a1 a2] [a3 a4]], s1 as [[s1 s2] [s3 s4]]. unfold ptx_compose. cx_simpl. cx_eq. Qed.

Theorem abrm_ptx_compose_explicit dtgam boff (sens : list CR) x (w1 w2 : list (list CR * list R)) :
  abrm_ptx (F:=RF) rcs dtgam boff sens x (w1 ++ w2) =
  ptx_compose (abrm_ptx (F:=RF) rcs dtgam boff sens x w2) (abrm_ptx (F:=RF) rcs dtgam boff sens x w1).
Proof. rewrite abrm_ptx_compose. apply ptx_compose_eq. Qed.

(* continuation form: the loop over w2 started from the internal state left by w1 *)
Theorem abrm_ptx_continue dtgam boff (sens : list CR) x (w1 w2 : list (list CR * list R)) :
  abrm_ptx (F:=RF) rcs dtgam boff sens x (w1 ++ w2) =
  ptx_out (fold_left (fun s bg => ptx_step (ptx_fac dtgam boff sens x bg) s) w2
                     (ptx_out (abrm_ptx (F:=RF) rcs dtgam boff sens x w1))).
Proof. unfold abrm_ptx at 2. rewrite ptx_out_invol. unfold abrm_ptx. rewrite fold_left_app. reflexivity. Qed.

(* zero RF => b = 0.  Weakest form: the combined transverse field sens @ b1[:, t] vanishes at every time step *)
Lemma ptx_factor_zero dtgam bz : snd (ptx_factor (F:=RF) rcs dtgam c0 bz) = c0.
Proof.
  unfold ptx_factor, rcs. cbn [fst snd].
  set (nf := if fis0 _ then f0 else _). cx_simpl. cx_eq.
Qed.

Lemma ptx_step_b0 (al sa : CR) : snd (ptx_step (al, c0) (sa, c0)) = c0.
Proof. destruct al as [a1 a2], sa as [x1 x2]. cx_simpl. cx_eq. Qed.

Lemma ptx_step_factor_b0 dtgam (bxy : CR) bz (sa : CR) :
  bxy = c0 -> snd (ptx_step (ptx_factor (F:=RF) rcs dtgam bxy bz) (sa, c0)) = c0.
Proof.
  intros ->. pose proof (ptx_factor_zero dtgam bz) as Hz.
  destruct (ptx_factor (F:=RF) rcs dtgam c0 bz) as [al be]. cbn [snd] in Hz. subst be. apply ptx_step_b0.
Qed.

Theorem abrm_ptx_zero_bxy dtgam boff (sens : list CR) x (w : list (list CR * list R)) :
  (forall bg, In bg w -> cdot (F:=RF) sens (fst bg) = c0) ->
  snd (abrm_ptx (F:=RF) rcs dtgam boff sens x w) = c0.
Proof.
  intros H. unfold abrm_ptx.
  match goal with |- context [fold_left ?f w st0] => set (st := fold_left f w st0) end.
  assert (Hst : snd st = c0).
  { unfold st. apply (fold_inv (fun s => snd s = c0)); [|reflexivity].
    intros [sa sb] bg Hbg Hb. cbn [snd] in Hb. subst sb. cbn beta. apply ptx_step_factor_b0. exact (H bg Hbg). }
  destruct st as [sa sb]. cbn [snd] in Hst. subst sb. cx_simpl. cx_eq.
Qed.

Lemma cdot_zero (sens col : list CR) : (forall c, In c col -> c = c0) -> cdot (F:=RF) sens col = c0.
Proof.
  intros H. unfold cdot.
  assert (G : forall l acc, (forall p, In p l -> snd p = c0) ->
              fold_left (fun acc p => cadd (F:=RF) acc (cmul (F:=RF) (fst p) (snd p))) l acc = acc).
  { induction l as [|p l IH]; intros acc Hl; [reflexivity|]. cbn [fold_left].
    rewrite IH by (intros q Hq; apply Hl; right; exact Hq).
    rewrite (Hl p (or_introl eq_refl)). destruct acc as [a1 a2], p as [[p1 p2] q]. cx_simpl. cx_eq. }
  apply G. intros [s c] Hp. apply in_combine_r in Hp. apply H. exact Hp.
Qed.

(* the statement on the input: every RF sample of every coil is zero (any sens, fmap, gradient) *)
Theorem abrm_ptx_zero_rf dtgam boff (sens : list CR) x (w : list (list CR * list R)) :
  (forall bg, In bg w -> forall c, In c (fst bg) -> c = c0) ->
  snd (abrm_ptx (F:=RF) rcs dtgam boff sens x w) = c0 /\ n2 (fst (abrm_ptx (F:=RF) rcs dtgam boff sens x w)) = 1.
Proof.
  intros H.
  assert (Hb : snd (abrm_ptx (F:=RF) rcs dtgam boff sens x w) = c0).
  { apply abrm_ptx_zero_bxy. intros bg Hbg. apply cdot_zero. apply H. exact Hbg. }
  split; [exact Hb|].
  pose proof (abrm_ptx_norm dtgam boff sens x w) as Hn. unfold nrm in Hn. rewrite Hb in Hn.
  unfold n2 at 2 in Hn. unfold c0 in Hn. cbn [fst snd f0 RF] in Hn. lra.
Qed.

(* ------------------------------------------------------------------ the factors are rotations (unit norm) *)
Lemma rot_norm (r : CR) : rot_C r * rot_C r + n2 (rot_S r) = 1.
Proof.
  pose proof (unit_phasor_norm r) as Hu. unfold rot_C, rot_S. set (u := unit_phasor r) in *. destruct u as [ur ui].
  set (q := sqrt (n2 r) / 2). pose proof (cs1 q) as Hq. unfold n2 in *. cbn [fst snd] in *.
  transitivity (cos q * cos q + (ur * ur + ui * ui) * (sin q * sin q)); [ring|]. rewrite Hu. lra.
Qed.

Lemma hp_factor_norm x d (rg : CR * R) : nrm (hp_factor x d rg) = 1.
Proof.
  pose proof (rot_norm (fst rg)) as Hr. unfold hp_factor, cis. set (h := hp_theta x d rg / 2). pose proof (cs1 h) as Hh.
  set (C := rot_C (fst rg)) in *. set (S := rot_S (fst rg)) in *. destruct S as [sr si]. unfold n2 in Hr. cbn [fst snd] in Hr.
  cx_simpl. transitivity ((C * C + (sr * sr + si * si)) * (cos h * cos h + sin h * sin h)); [ring|]. rewrite Hr, Hh. ring.
Qed.

Lemma bs_factor_norm x (rg : CR * list R) : nrm (bs_factor x rg) = 1.
Proof.
  pose proof (rot_norm (fst rg)) as Hr. unfold bs_factor, cis. set (h := bs_theta x rg / 2). pose proof (cs1 h) as Hh.
  set (C := rot_C (fst rg)) in *. set (S := rot_S (fst rg)) in *. destruct S as [sr si]. unfold n2 in Hr. cbn [fst snd] in Hr.
  cx_simpl. transitivity ((C * C + (sr * sr + si * si)) * (cos h * cos h + sin h * sin h)); [ring|]. rewrite Hr, Hh. ring.
Qed.

(* the shape hypothesis of the blochsim theorems is satisfiable (two time steps, two spatial dimensions) *)
Lemma rows_ok_example : rows_ok [1; 2] [((1, 0), [3; 4]); ((0, 1), [5; 6])].
Proof. intros rg [<- | [<- | []]]; reflexivity. Qed.
